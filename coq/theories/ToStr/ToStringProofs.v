(* C20 -- proofs about ToStr/ToStringDefs.v *)
From PP Require Import ToStr.ToStringDefs.
From Coq Require Import Lia ZifyBool.
Local Open Scope Z_scope.
Ltac Zify.zify_post_hook ::= Z.div_mod_to_equations.

Lemma zlen_app {A} (a b : list A) : zlen (a ++ b) = zlen a + zlen b.
Proof. unfold zlen. rewrite app_length. lia. Qed.
Lemma zlen_cons {A} (x : A) l : zlen (x :: l) = 1 + zlen l.
Proof. unfold zlen. simpl length. lia. Qed.
Lemma zlen_nil {A} : zlen (@nil A) = 0.
Proof. reflexivity. Qed.
Lemma zlen_nonneg {A} (l : list A) : 0 <= zlen l.
Proof. unfold zlen. lia. Qed.
Lemma zlen_if {A} (b : bool) (x : A) : 0 <= zlen (if b then [x] else []) <= 1.
Proof. destruct b; unfold zlen; simpl; lia. Qed.

Lemma small4_len v : 1 <= zlen (small4 v) <= 4.
Proof.
  unfold small4. rewrite !zlen_app, zlen_cons, zlen_nil.
  pose proof (zlen_if (v >=? 1000) (lut (v / 100 * 2))).
  pose proof (zlen_if (v >=? 100) (lut (v / 100 * 2 + 1))).
  pose proof (zlen_if (v >=? 10) (lut (v mod 100 * 2))). lia.
Qed.

Lemma mid8_len v : 5 <= zlen (mid8 v) <= 8.
Proof.
  unfold mid8. rewrite !zlen_app, !zlen_cons, zlen_nil.
  pose proof (zlen_if (v >=? 10000000) (lut (v / 10000 / 100 * 2))).
  pose proof (zlen_if (v >=? 1000000) (lut (v / 10000 / 100 * 2 + 1))).
  pose proof (zlen_if (v >=? 100000) (lut (v / 10000 mod 100 * 2))). lia.
Qed.

Lemma mid8_len_exact v : v < 100000 -> zlen (mid8 v) = 5.
Proof.
  intros H. unfold mid8.
  replace (v >=? 10000000) with false by lia. replace (v >=? 1000000) with false by lia.
  replace (v >=? 100000) with false by lia. reflexivity.
Qed.

Lemma conv8_ascii_len v : zlen (conv8_ascii v) = 8.
Proof. unfold conv8_ascii, conv8, lane4, zlen. rewrite map_length. reflexivity. Qed.

(* ---- integers: footprint within the reservation, returned text within the footprint *)
Definition fits (k : Z) (f : fmt) : Prop := 0 <= zlen (f_out f) <= f_foot f /\ f_foot f <= k.

Lemma fits_mono k k' f : fits k f -> k <= k' -> fits k' f.
Proof. unfold fits. intros [H1 H2] H. lia. Qed.

Lemma fmt_u32_tight : forall v, fits 10 (fmt_u32 v).
Proof.
  intros v. unfold fits, fmt_u32.
  destruct (v <? u32_small_limit); [pose proof (small4_len v); cbv zeta; cbn [f_out f_foot]; lia|].
  destruct (v <? u32_mid_limit); [pose proof (mid8_len v); cbv zeta; cbn [f_out f_foot]; lia|].
  cbv zeta; cbn [f_out f_foot]. rewrite zlen_app, conv8_ascii_len. unfold store_l64.
  destruct (v / 100000000 >=? 10); unfold zlen; simpl length; lia.
Qed.

Lemma skipn_zlen {A} n (l : list A) : 0 <= zlen (skipn n l) <= zlen l.
Proof. unfold zlen. rewrite skipn_length. lia. Qed.

Lemma u64_pre_len a :
  let pre := if a <? 10 then [(48 + a) mod 256]
      else if a <? 100 then [lut (a * 2); lut (a * 2 + 1)]
      else if a <? 1000 then [(48 + a / 100) mod 256; lut ((a mod 100) * 2); lut ((a mod 100) * 2 + 1)]
      else [lut ((a / 100) * 2); lut ((a / 100) * 2 + 1); lut ((a mod 100) * 2); lut ((a mod 100) * 2 + 1)] in
  1 <= zlen pre <= 4 /\ (a < 1000 -> zlen pre <= 3).
Proof.
  simpl. destruct (a <? 10) eqn:E1; [unfold zlen; simpl; lia|].
  destruct (a <? 100) eqn:E2; [unfold zlen; simpl; lia|].
  destruct (a <? 1000) eqn:E3; unfold zlen; simpl; lia.
Qed.

Lemma fmt_u64_tight : forall v, fits 20 (fmt_u64 v).
Proof.
  intros v. unfold fits, fmt_u64.
  destruct (v <? u64_low_limit).
  - destruct (v <? u64_small_limit); [pose proof (small4_len v)|pose proof (mid8_len v)]; cbv zeta; cbn [f_out f_foot]; lia.
  - destruct (v <? u64_mid_limit).
    + cbv zeta; cbn [f_out f_foot].
      pose proof (skipn_zlen (leading_zeros (conv8_ascii (v / 100000000) ++ conv8_ascii (v mod 100000000)) 15)
                             (conv8_ascii (v / 100000000) ++ conv8_ascii (v mod 100000000))) as H.
      rewrite zlen_app, !conv8_ascii_len in H. unfold store_u128. lia.
    + cbv zeta; cbn [f_out f_foot]. rewrite !zlen_app, !conv8_ascii_len.
      pose proof (u64_pre_len (v / 10000000000000000)) as [H _]. cbv zeta in H. unfold store_u128. lia.
Qed.

(* a magnitude below 10^19 (every int64) needs at most 3 + 16 bytes *)
Lemma fmt_u64_fits_19 : forall v, 0 <= v < 10000000000000000000 -> fits 19 (fmt_u64 v).
Proof.
  intros v Hv. unfold fits, fmt_u64.
  destruct (v <? u64_low_limit).
  - destruct (v <? u64_small_limit); [pose proof (small4_len v)|pose proof (mid8_len v)]; cbv zeta; cbn [f_out f_foot]; lia.
  - destruct (v <? u64_mid_limit).
    + cbv zeta; cbn [f_out f_foot].
      pose proof (skipn_zlen (leading_zeros (conv8_ascii (v / 100000000) ++ conv8_ascii (v mod 100000000)) 15)
                             (conv8_ascii (v / 100000000) ++ conv8_ascii (v mod 100000000))) as H.
      rewrite zlen_app, !conv8_ascii_len in H. unfold store_u128. lia.
    + cbv zeta; cbn [f_out f_foot]. rewrite !zlen_app, !conv8_ascii_len.
      pose proof (u64_pre_len (v / 10000000000000000)) as [H1 H2]. cbv zeta in H1, H2.
      assert (v / 10000000000000000 < 1000) as Ha by lia. specialize (H2 Ha). unfold store_u128. lia.
Qed.

Lemma fmt_i32_tight : forall v, fits 11 (fmt_i32 v).
Proof.
  intros v. unfold fmt_i32. destruct (v <? 0).
  - pose proof (fmt_u32_tight ((- v) mod 4294967296)) as [H1 H2]. unfold fits. cbn [f_out f_foot]. rewrite zlen_cons. lia.
  - pose proof (fmt_u32_tight (v mod 4294967296)) as [H1 H2]. unfold fits. lia.
Qed.

Lemma fmt_i64_tight : forall v, -9223372036854775808 <= v < 9223372036854775808 -> fits 20 (fmt_i64 v).
Proof.
  intros v Hv. unfold fmt_i64. destruct (v <? 0) eqn:E.
  - assert ((- v) mod 18446744073709551616 = - v) as Hm by (apply Z.mod_small; lia). rewrite Hm.
    pose proof (fmt_u64_fits_19 (- v) ltac:(lia)) as [H1 H2]. unfold fits. cbn [f_out f_foot]. rewrite zlen_cons. lia.
  - assert (v mod 18446744073709551616 = v) as Hm by (apply Z.mod_small; lia). rewrite Hm.
    pose proof (fmt_u64_fits_19 v ltac:(lia)) as [H1 H2]. unfold fits. lia.
Qed.

Lemma fmt_u16_tight : forall v, 0 <= v < 65536 -> fits 5 (fmt_u16 v).
Proof.
  intros v Hv. unfold fits, fmt_u16, fmt_u32.
  destruct (v <? u32_small_limit); [pose proof (small4_len v); cbv zeta; cbn [f_out f_foot]; lia|].
  replace (v <? u32_mid_limit) with true by (unfold u32_mid_limit; lia).
  cbv zeta; cbn [f_out f_foot]. rewrite (mid8_len_exact v) by lia. lia.
Qed.

Lemma fmt_i16_tight : forall v, -32768 <= v < 32768 -> fits 6 (fmt_i16 v).
Proof.
  intros v Hv. unfold fmt_i16, fmt_i32. destruct (v <? 0) eqn:E.
  - assert ((- v) mod 4294967296 = - v) as Hm by (apply Z.mod_small; lia). rewrite Hm.
    pose proof (fmt_u16_tight (- v) ltac:(lia)) as [H1 H2]. unfold fmt_u16 in *. unfold fits. cbn [f_out f_foot]. rewrite zlen_cons. lia.
  - assert (v mod 4294967296 = v) as Hm by (apply Z.mod_small; lia). rewrite Hm.
    pose proof (fmt_u16_tight v ltac:(lia)) as [H1 H2]. unfold fmt_u16 in *. unfold fits. lia.
Qed.

Lemma drop_zero_nibbles_len l : (length (drop_zero_nibbles l) <= length l)%nat.
Proof.
  induction l as [|x l IH]; simpl; [lia|].
  destruct x; simpl; lia.
Qed.

Lemma fmt_ptr_tight : forall p, fits (2 + pointer_size * 2) (fmt_ptr p).
Proof.
  intros p. unfold fits, fmt_ptr. cbv zeta. cbv zeta; cbn [f_out f_foot]. rewrite !zlen_cons.
  destruct (p =? 0).
  - unfold zlen, pointer_size. simpl. lia.
  - unfold zlen. rewrite map_length. pose proof (drop_zero_nibbles_len (nibbles p)) as H.
    unfold nibbles in H at 2. rewrite map_length, seq_length in H. unfold pointer_size in *.
    change (Z.to_nat (8 * 2)) with 16%nat in H. lia.
Qed.

Lemma fmt_bool_tight : forall b, fits 1 (fmt_bool b).
Proof. intros b. unfold fits, fmt_bool, zlen. simpl. lia. Qed.

(* ---- double / float layout *)

Lemma padding_len c n : zlen (padding c n) = Z.max 0 n.
Proof. unfold padding, zlen. rewrite repeat_length. lia. Qed.

Lemma exp_loop_len : forall fuel e acc k, 0 <= e < 10 ^ Z.of_nat k ->
  zlen (exp_loop fuel e acc) <= zlen acc + Z.of_nat k.
Proof.
  induction fuel as [|f IH]; intros e acc k He; cbn [exp_loop]; [lia|].
  destruct (e >? 0) eqn:E; [|lia].
  destruct k as [|k'].
  - simpl in He. lia.
  - assert (0 <= e / 10 < 10 ^ Z.of_nat k') as Hd.
    { rewrite Nat2Z.inj_succ, Z.pow_succ_r in He by lia. split; [apply Z.div_pos; lia|]. apply Z.div_lt_upper_bound; lia. }
    specialize (IH (e / 10) ((48 + e mod 10) :: acc) k' Hd). rewrite zlen_cons in IH. lia.
Qed.

Lemma firstn_skipn_zlen {A} n (l : list A) : zlen (firstn n l) + zlen (skipn n l) = zlen l.
Proof. unfold zlen. rewrite <- Nat2Z.inj_add, <- app_length, firstn_skipn. reflexivity. Qed.

Lemma create_exponential_len digits exponent : 1 <= zlen digits -> -1000 < exponent < 1000 ->
  zlen (create_exponential digits exponent) <= zlen digits + 6.
Proof.
  intros Hd He. unfold create_exponential. rewrite !zlen_app, !zlen_cons, !zlen_nil.
  assert (zlen (if negb (zlen digits =? 1) then 46 :: skipn 1 digits else []) <= zlen digits) as H1.
  { destruct (zlen digits =? 1) eqn:E; simpl; [unfold zlen; simpl; lia|]. rewrite zlen_cons.
    pose proof (firstn_skipn_zlen 1 digits) as Hfs. destruct digits as [|d ds]; [unfold zlen in Hd; simpl in Hd; lia|].
    simpl skipn in *. rewrite zlen_cons. lia. }
  assert (zlen (if exponent <? 0 then [45] else []) <= 1) as H2 by (destruct (exponent <? 0); unfold zlen; simpl; lia).
  assert (zlen (if Z.abs exponent =? 0 then [48] else exp_loop 5 (Z.abs exponent) []) <= 3) as H3.
  { destruct (Z.abs exponent =? 0); [unfold zlen; simpl; lia|].
    pose proof (exp_loop_len 5 (Z.abs exponent) [] 3 ltac:(simpl; lia)) as H. rewrite zlen_nil in H. lia. }
  lia.
Qed.

Lemma create_decimal_len digits dp : 1 <= zlen digits ->
  zlen (create_decimal digits dp (Z.max 0 (zlen digits - dp))) <=
    Z.max (zlen digits + 1) (Z.max (2 - dp + zlen digits) dp).
Proof.
  intros Hd. unfold create_decimal.
  destruct (dp <=? 0) eqn:E1.
  - rewrite zlen_cons. replace (Z.max 0 (zlen digits - dp) >? 0) with true by lia.
    rewrite zlen_cons, !zlen_app, !padding_len. lia.
  - destruct (dp >=? zlen digits) eqn:E2.
    + replace (Z.max 0 (zlen digits - dp) >? 0) with false by lia. rewrite !zlen_app, padding_len. unfold zlen at 3. simpl length. lia.
    + rewrite !zlen_app, zlen_cons, zlen_nil, padding_len. pose proof (firstn_skipn_zlen (Z.to_nat dp) digits). lia.
Qed.

Lemma digits_ok_len m ds : digits_ok m ds = true -> 1 <= zlen ds <= m.
Proof. unfold digits_ok. intros H. apply andb_true_iff in H. destruct H as [H _]. lia. Qed.

Lemma fmt_double_tight : forall d, dvalue_ok_double d = true -> fits 26 (fmt_double d).
Proof.
  intros d Hok. unfold fits, fmt_double. cbv zeta; cbn [f_out f_foot]. unfold string_builder_terminator.
  pose proof (zlen_nonneg (to_shortest_chars d)). split; [lia|].
  destruct d as [neg| |sign ds dp]; simpl to_shortest_chars.
  - destruct neg; unfold zlen; simpl; lia.
  - unfold zlen; simpl; lia.
  - simpl in Hok. apply andb_true_iff in Hok. destruct Hok as [Hok Hdp2]. apply andb_true_iff in Hok. destruct Hok as [Hds Hdp1].
    apply digits_ok_len in Hds. unfold kBase10MaximalLength in Hds.
    rewrite zlen_app. assert (zlen (if sign then [45] else []) <= 1) as Hs by (destruct sign; unfold zlen; simpl; lia).
    unfold decimal_in_shortest_low, decimal_in_shortest_high.
    destruct ((-6 <=? dp - 1) && (dp - 1 <? 21)) eqn:E.
    + pose proof (create_decimal_len ds dp ltac:(lia)). lia.
    + pose proof (create_exponential_len ds (dp - 1) ltac:(lia) ltac:(lia)). lia.
Qed.

Lemma fmt_float_tight : forall d, dvalue_ok_float d = true -> fits 23 (fmt_double d).
Proof.
  intros d Hok. unfold fits, fmt_double. cbv zeta; cbn [f_out f_foot]. unfold string_builder_terminator.
  pose proof (zlen_nonneg (to_shortest_chars d)). split; [lia|].
  destruct d as [neg| |sign ds dp]; simpl to_shortest_chars.
  - destruct neg; unfold zlen; simpl; lia.
  - unfold zlen; simpl; lia.
  - simpl in Hok. apply andb_true_iff in Hok. destruct Hok as [Hok Hdp2]. apply andb_true_iff in Hok. destruct Hok as [Hds Hdp1].
    apply digits_ok_len in Hds.
    rewrite zlen_app. assert (zlen (if sign then [45] else []) <= 1) as Hs by (destruct sign; unfold zlen; simpl; lia).
    unfold decimal_in_shortest_low, decimal_in_shortest_high.
    destruct ((-6 <=? dp - 1) && (dp - 1 <? 21)) eqn:E.
    + pose proof (create_decimal_len ds dp ltac:(lia)). lia.
    + pose proof (create_exponential_len ds (dp - 1) ltac:(lia) ltac:(lia)). lia.
Qed.

(* ---- the reservations in the headers are at least the tight bounds *)
Lemma fmt_u32_fits_proof : forall v, fits kBytes_u32 (fmt_u32 v).
Proof. intros v. apply (fits_mono 10); [apply fmt_u32_tight|unfold kBytes_u32; lia]. Qed.
Lemma fmt_u64_fits_proof : forall v, fits kBytes_u64 (fmt_u64 v).
Proof. intros v. apply (fits_mono 20); [apply fmt_u64_tight|unfold kBytes_u64; lia]. Qed.
Lemma fmt_i32_fits_proof : forall v, fits kBytes_i32 (fmt_i32 v).
Proof. intros v. apply (fits_mono 11); [apply fmt_i32_tight|unfold kBytes_i32; lia]. Qed.
Lemma fmt_i64_fits_proof : forall v, -9223372036854775808 <= v < 9223372036854775808 -> fits kBytes_i64 (fmt_i64 v).
Proof. intros v H. apply (fits_mono 20); [apply fmt_i64_tight; exact H|unfold kBytes_i64; lia]. Qed.
Lemma fmt_u16_fits_proof : forall v, 0 <= v < 65536 -> fits kBytes_u16 (fmt_u16 v).
Proof. intros v H. apply (fits_mono 5); [apply fmt_u16_tight; exact H|unfold kBytes_u16; lia]. Qed.
Lemma fmt_i16_fits_proof : forall v, -32768 <= v < 32768 -> fits kBytes_i16 (fmt_i16 v).
Proof. intros v H. apply (fits_mono 6); [apply fmt_i16_tight; exact H|unfold kBytes_i16; lia]. Qed.
Lemma fmt_ptr_fits_proof : forall p, fits kBytes_ptr (fmt_ptr p).
Proof. intros p. apply (fits_mono (2 + pointer_size * 2)); [apply fmt_ptr_tight|unfold kBytes_ptr; lia]. Qed.
Lemma fmt_bool_fits_proof : forall b, fits kBytes_bool (fmt_bool b).
Proof. intros b. apply (fits_mono 1); [apply fmt_bool_tight|unfold kBytes_bool; lia]. Qed.
Lemma fmt_double_fits_proof : forall d, dvalue_ok_double d = true -> fits kBytes_double (fmt_double d).
Proof. intros d H. apply (fits_mono 26); [apply fmt_double_tight; exact H|unfold kBytes_double; lia]. Qed.
Lemma fmt_float_fits_proof : forall d, dvalue_ok_float d = true -> fits kBytes_float (fmt_double d).
Proof. intros d H. apply (fits_mono 23); [apply fmt_float_tight; exact H|unfold kBytes_float; lia]. Qed.

(* ---- the in-place protocol of the stream *)

Definition sop_ok (kmax : Z) (o : sop) : Prop :=
  match o with
  | SNumber kb f => fits kb f /\ kb <= kmax
  | _ => True
  end.

Definition sop_bytes (o : sop) : list Z :=
  match o with
  | SWrite d => d
  | SPut c => [c]
  | SNumber _ f => f_out f
  | SFlush => []
  end.

Lemma spilled_concat (buf : list Z) : concat (match buf with [] => [] | _ => [buf] end) = buf.
Proof. destruct buf; simpl; [reflexivity|]. rewrite app_nil_r. reflexivity. Qed.

Lemma s_step_safe cap kmax buf o : 1 <= kmax <= cap -> sop_ok kmax o -> zlen buf <= cap ->
  exists b w, s_step cap buf o = Some (b, w) /\ zlen b <= cap /\ concat w ++ b = buf ++ sop_bytes o.
Proof.
  intros Hk Hok Hb. destruct o as [data|c|kb f|]; simpl in *.
  - destruct (zlen buf + zlen data <=? cap) eqn:E1.
    + exists (buf ++ data), []. rewrite zlen_app. repeat split; auto. lia.
    + destruct (zlen data <=? cap) eqn:E2.
      * exists data, (match buf with [] => [] | _ => [buf] end). repeat split; auto; [lia|]. rewrite spilled_concat. reflexivity.
      * exists [], (match buf with [] => [] | _ => [buf] end ++ [data]). repeat split; auto; [unfold zlen; simpl; lia|].
        rewrite concat_app, spilled_concat. simpl. rewrite !app_nil_r. reflexivity.
  - destruct (zlen buf + 1 >? cap) eqn:E1.
    + replace (zlen (@nil Z) + 1 <=? cap) with true by (unfold zlen; simpl; lia).
      exists [c], (match buf with [] => [] | _ => [buf] end). repeat split; auto; [unfold zlen; simpl; lia|].
      rewrite spilled_concat. reflexivity.
    + replace (zlen buf + 1 <=? cap) with true by lia.
      exists (buf ++ [c]), []. rewrite zlen_app. repeat split; auto. unfold zlen at 2. simpl. lia.
  - destruct Hok as [[Ho Hf] Hkb]. destruct (zlen buf + kb >? cap) eqn:E1.
    + replace ((zlen (@nil Z) + f_foot f <=? cap) && (zlen (@nil Z) + zlen (f_out f) <=? cap)) with true by (rewrite zlen_nil; lia).
      exists (f_out f), (match buf with [] => [] | _ => [buf] end). repeat split; auto; [lia|]. rewrite spilled_concat. reflexivity.
    + replace ((zlen buf + f_foot f <=? cap) && (zlen buf + zlen (f_out f) <=? cap)) with true by lia.
      exists (buf ++ f_out f), []. rewrite zlen_app. repeat split; auto. lia.
  - exists [], (match buf with [] => [] | _ => [buf] end). repeat split; auto; [unfold zlen; simpl; lia|].
    rewrite spilled_concat, !app_nil_r. reflexivity.
Qed.

Lemma stream_safe_proof : forall cap kmax ops, 1 <= kmax <= cap -> Forall (sop_ok kmax) ops ->
  forall buf, zlen buf <= cap ->
  exists b w, s_run cap buf ops = Some (b, w) /\ zlen b <= cap /\ concat w ++ b = buf ++ flat_map sop_bytes ops.
Proof.
  intros cap kmax ops Hk. induction ops as [|o r IH]; intros Hall buf Hb.
  - exists buf, []. simpl. rewrite app_nil_r. auto.
  - inversion Hall as [|? ? Ho Hr]; subst.
    destruct (s_step_safe cap kmax buf o Hk Ho Hb) as (b1 & w1 & E1 & L1 & C1).
    destruct (IH Hr b1 L1) as (b2 & w2 & E2 & L2 & C2).
    exists b2, (w1 ++ w2). simpl. rewrite E1, E2. repeat split; auto.
    rewrite concat_app, <- app_assoc, C2, app_assoc, C1, <- app_assoc. reflexivity.
Qed.

(* the reservations are within what the streams guarantee to have room for *)
Lemma reservations_within_max :
  kBytes_bool <= kToStringMaxBytes /\ kBytes_u16 <= kToStringMaxBytes /\ kBytes_i16 <= kToStringMaxBytes /\
  kBytes_u32 <= kToStringMaxBytes /\ kBytes_i32 <= kToStringMaxBytes /\ kBytes_u64 <= kToStringMaxBytes /\
  kBytes_i64 <= kToStringMaxBytes /\ kBytes_ptr <= kToStringMaxBytes /\ kBytes_double <= kToStringMaxBytes /\
  kBytes_float <= kToStringMaxBytes /\ 1 <= kToStringMaxBytes <= stream_cap /\
  kToStringMaxBytes <= Z.max block_queue_min kToStringMaxBytes.
Proof. vm_compute. intuition congruence. Qed.

(* every index into gDigitsLut / kHexDigits used by the model is inside the table *)
Lemma lut_indices_in_range : forall x, 0 <= x < 100 -> lut_in_range (x * 2) = true /\ lut_in_range (x * 2 + 1) = true.
Proof. intros x H. unfold lut_in_range. assert (zlen gDigitsLut = 200) as -> by reflexivity. lia. Qed.

(* ---- ThreadedBufferedStream, producer side *)

Definition block_ok (cap : Z) (b : list Z) : Prop := 0 < zlen b <= cap.

Lemma t_spill_spec cap buf : zlen buf <= cap ->
  let '(b, w) := t_spill buf in b = [] /\ concat w = buf /\ Forall (block_ok cap) w.
Proof.
  intros H. destruct buf as [|x l]; simpl.
  - repeat split; auto.
  - repeat split; [rewrite app_nil_r; reflexivity|]. constructor; [|constructor].
    unfold block_ok. rewrite zlen_cons in *. pose proof (zlen_nonneg l). lia.
Qed.

Lemma zlen_firstn {A} n (l : list A) : zlen (firstn n l) = Z.min (Z.of_nat n) (zlen l).
Proof. unfold zlen. rewrite firstn_length. lia. Qed.

Lemma zlen_skipn {A} n (l : list A) : zlen (skipn n l) = Z.max 0 (zlen l - Z.of_nat n).
Proof. unfold zlen. rewrite skipn_length. lia. Qed.

Lemma t_write_spec cap : 1 <= cap -> forall fuel buf data,
  (length data + (match buf with [] => 0 | _ => 1 end) < fuel)%nat -> zlen buf <= cap ->
  exists b w, t_write fuel cap buf data = Some (b, w) /\ zlen b <= cap /\ concat w ++ b = buf ++ data /\ Forall (block_ok cap) w.
Proof.
  intros Hcap. induction fuel as [|f IH]; intros buf data Hm Hb; [lia|].
  cbn [t_write]. destruct (zlen buf + zlen data >? cap) eqn:E.
  - set (k := Z.to_nat (cap - zlen buf)).
    assert (zlen (buf ++ firstn k data) = cap) as Hfull.
    { rewrite zlen_app, zlen_firstn. unfold k. pose proof (zlen_nonneg buf). lia. }
    destruct (buf ++ firstn k data) as [|x blk] eqn:Eb; [rewrite zlen_nil in Hfull; lia|].
    cbn [t_spill].
    assert (length (skipn k data) + 0 < f)%nat as Hm'.
    { rewrite skipn_length. clear Eb Hfull. destruct buf as [|y buf'].
      - unfold k. rewrite zlen_nil in *. unfold zlen in E. lia.
      - lia. }
    destruct (IH [] (skipn k data) Hm' ltac:(rewrite zlen_nil; lia)) as (b' & w' & Ew & Lb & Cw & Fw).
    rewrite Ew. exists b', ([x :: blk] ++ w'). repeat split; auto.
    + rewrite concat_app, <- app_assoc, Cw. simpl concat. rewrite app_nil_r, <- Eb.
      simpl app. rewrite <- app_assoc. rewrite firstn_skipn. reflexivity.
    + apply Forall_app. split; [|exact Fw]. constructor; [|constructor]. unfold block_ok. lia.
  - exists (buf ++ data), []. rewrite zlen_app. repeat split; auto. lia.
Qed.

Lemma t_step_safe cap kmax buf o : 1 <= kmax <= cap -> sop_ok kmax o -> zlen buf <= cap ->
  exists b w, t_step cap buf o = TOk b w /\ zlen b <= cap /\ concat w ++ b = buf ++ sop_bytes o /\ Forall (block_ok cap) w.
Proof.
  intros Hk Hok Hb. destruct o as [data|c|kb f|]; cbn [t_step sop_bytes].
  - destruct (t_write_spec cap ltac:(lia) (S (S (length data))) buf data) as (b & w & E & L & C & F); [destruct buf; lia|exact Hb|].
    rewrite E. exists b, w. auto.
  - pose proof (t_spill_spec cap buf Hb) as Hs. destruct (t_spill buf) as [b0 w0]. destruct Hs as (Hb0 & Hc0 & Hf0).
    destruct (zlen buf + 1 >? cap) eqn:E1.
    + subst b0. replace (zlen (@nil Z) + 1 <=? cap) with true by (rewrite zlen_nil; lia).
      exists [c], w0. repeat split; auto; [unfold zlen; simpl; lia|]. rewrite Hc0. reflexivity.
    + replace (zlen buf + 1 <=? cap) with true by lia.
      exists (buf ++ [c]), []. rewrite zlen_app. repeat split; auto. unfold zlen at 2. simpl. lia.
  - destruct Hok as [[Ho Hf] Hkb].
    pose proof (t_spill_spec cap buf Hb) as Hs. destruct (t_spill buf) as [b0 w0]. destruct Hs as (Hb0 & Hc0 & Hf0).
    destruct (zlen buf + kb >? cap) eqn:E1.
    + subst b0. replace ((zlen (@nil Z) + f_foot f <=? cap) && (zlen (@nil Z) + zlen (f_out f) <=? cap)) with true by (rewrite zlen_nil; lia).
      exists (f_out f), w0. repeat split; auto; [lia|]. rewrite Hc0. reflexivity.
    + replace ((zlen buf + f_foot f <=? cap) && (zlen buf + zlen (f_out f) <=? cap)) with true by lia.
      exists (buf ++ f_out f), []. rewrite zlen_app. repeat split; auto. lia.
  - exists buf, []. rewrite app_nil_r. repeat split; auto.
Qed.

Lemma t_stream_safe_proof : forall cap kmax ops, 1 <= kmax <= cap -> Forall (sop_ok kmax) ops ->
  forall buf, zlen buf <= cap ->
  exists b w, t_run cap buf ops = TOk b w /\ zlen b <= cap /\ concat w ++ b = buf ++ flat_map sop_bytes ops /\
              Forall (block_ok cap) (w ++ t_destroy b) /\ concat (w ++ t_destroy b) = buf ++ flat_map sop_bytes ops.
Proof.
  intros cap kmax ops Hk. induction ops as [|o r IH]; intros Hall buf Hb.
  - exists buf, []. cbn [t_run flat_map]. rewrite app_nil_r. repeat split; auto.
    + unfold t_destroy. pose proof (t_spill_spec cap buf Hb) as Hs. destruct (t_spill buf) as [b0 w0]. simpl. apply Hs.
    + unfold t_destroy. pose proof (t_spill_spec cap buf Hb) as Hs. destruct (t_spill buf) as [b0 w0]. simpl. apply Hs.
  - inversion Hall as [|? ? Ho Hr]; subst.
    destruct (t_step_safe cap kmax buf o Hk Ho Hb) as (b1 & w1 & E1 & L1 & C1 & F1).
    destruct (IH Hr b1 L1) as (b2 & w2 & E2 & L2 & C2 & F2 & D2).
    exists b2, (w1 ++ w2). cbn [t_run flat_map]. rewrite E1, E2. repeat split; auto.
    + rewrite concat_app, <- app_assoc, C2, app_assoc, C1, <- app_assoc. reflexivity.
    + rewrite <- app_assoc. apply Forall_app. split; assumption.
    + rewrite <- app_assoc, concat_app, D2, app_assoc, C1, <- app_assoc. reflexivity.
Qed.

(* ---- StringStream *)
Lemma ss_run_safe_proof : forall kmax ops, Forall (sop_ok kmax) ops ->
  forall str, ss_run str ops = Some (str ++ flat_map sop_bytes ops).
Proof.
  intros kmax ops. induction ops as [|o r IH]; intros Hall str; cbn [ss_run flat_map].
  - rewrite app_nil_r. reflexivity.
  - inversion Hall as [|? ? Ho Hr]; subst. destruct o as [data|c|kb f|]; cbn [ss_step sop_bytes].
    + rewrite IH by exact Hr. rewrite app_assoc. reflexivity.
    + rewrite IH by exact Hr. rewrite app_assoc. reflexivity.
    + destruct Ho as [[Ho Hf] Hk]. replace ((f_foot f <=? kb) && (zlen (f_out f) <=? kb)) with true by lia.
      rewrite IH by exact Hr. rewrite app_assoc. reflexivity.
    + rewrite IH by exact Hr. reflexivity.
Qed.

Theorem ptr_bool_fit_proof : (forall p, fits kBytes_ptr (fmt_ptr p)) /\ (forall b, fits kBytes_bool (fmt_bool b)).
Proof. split; [exact fmt_ptr_fits_proof|exact fmt_bool_fits_proof]. Qed.

Theorem double_float_tight_proof :
  (forall d, dvalue_ok_double d = true -> fits 26 (fmt_double d)) /\ (forall d, dvalue_ok_float d = true -> fits 23 (fmt_double d)).
Proof. split; [exact fmt_double_tight|exact fmt_float_tight]. Qed.
