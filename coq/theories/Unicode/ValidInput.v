(* Valid UTF-8 in the sense of Unicode Table 3-7 ([WF], Fold/Utf8Grammar.v) meets the
   premises of the C19 theorems, and the UTF-8 -> UTF-16 -> UTF-8 conversion of the
   tool is the identity on it. *)
From PP Require Import Fold.FoldDefs Fold.Utf8Grammar Unicode.FlattenDefs Unicode.MainDefs Unicode.FlattenProofs.
Local Open Scope Z_scope.

Lemma wf_from_utf8 line : WF line ->
  exists u, from_utf8 line = Some u /\ bytes_okb line = true /\ to_utf8 u = line /\ wf16 u.
Proof.
  intros H. destruct (wf_roundtrip line H) as (cs & Hc & Hr).
  pose proof (wf_bytes_ok line H) as Hok.
  assert (forallb is_scalar cs = true) as Hs.
  { unfold cps_of_utf8 in Hc. eapply cps_of_utf8_scalar; eauto. }
  exists (utf16_of_cps cs). unfold from_utf8. rewrite Hc. repeat split; try assumption.
  - unfold to_utf8. rewrite (cps_of_U cs Hs). exact Hr.
  - exists cs. split; [reflexivity | exact Hs].
Qed.

Lemma wf_lines ls : Forall WF ls ->
  exists us, Forall2 (fun l u => from_utf8 l = Some u /\ bytes_okb l = true) ls us /\
             map to_utf8 us = ls.
Proof.
  induction 1 as [|l r Hl _ [us [H2 Hm]]].
  - exists []. split; [constructor | reflexivity].
  - destruct (wf_from_utf8 l Hl) as (u & H1 & H3 & H4 & _).
    exists (u :: us). split; [constructor; auto|]. simpl. rewrite H4, Hm. reflexivity.
Qed.

(* with no flag the text passes through unchanged *)
Theorem no_flag_identity_proof lower nfkc isspace lang d ls :
  flatten_for lang = Some d -> Forall WF ls -> no_delim 10 (concat ls) = true ->
  process_unicode lower nfkc isspace lang {| f_lower := false; f_flatten := false; f_normalize := false |} (unrecords 10 ls)
  = POk (unrecords 10 ls).
Proof.
  intros Hd Hw Hlf. destruct (wf_lines ls Hw) as (us & H2 & Hm).
  rewrite (pipeline_spec_proof lower nfkc isspace lang _ d ls us Hd); [| |exact Hlf].
  - f_equal. f_equal. rewrite <- Hm. apply map_ext. intros u. reflexivity.
  - clear -H2. induction H2 as [|l u ls us [H1 _] _ IH]; constructor; assumption.
Qed.

(* the tool-level specification with the independent notion of valid input *)
Theorem tool_spec_wf_proof lower nfkc isspace :
  (forall u, wf16 u -> wf16 (lower u)) ->
  forall lang fl d ls, flatten_for lang = Some d -> Forall WF ls -> no_delim 10 (concat ls) = true ->
  exists us, map to_utf8 us = ls /\
    process_unicode lower nfkc isspace lang fl (unrecords 10 ls)
    = POk (unrecords 10 (map (fun u => to_utf8 (line_spec lower nfkc isspace d fl u)) us)).
Proof.
  intros Hlow lang fl d ls Hd Hw Hlf. destruct (wf_lines ls Hw) as (us & H2 & Hm).
  exists us. split; [exact Hm|]. apply tool_spec_proof; assumption.
Qed.
