(* Executable model of util::Flatten (util/utf8_icu.cc): the construction of
   the per-language replacement data from the regenerated rule tables
   (AddToFlatten, AllFlattenData) and Flatten::Apply over UTF-16 code units as
   ICU's UnicodeString holds them.  u_isspace is a parameter (ICU).  Also the
   UTF-8 <-> UTF-16 conversions on well-formed text.  Model only. *)
From PP Require Export Base.Bytes Gen.Src_flatten Unicode.Utf8Enc.
From PP Require Import Fold.FoldDefs.
Local Open Scope Z_scope.

(* ---------- UTF-16 ---------- *)
Definition is_lead (u : Z) : bool := (55296 <=? u) && (u <=? 56319).     (* D800..DBFF *)
Definition is_trail16 (u : Z) : bool := (56320 <=? u) && (u <=? 57343).  (* DC00..DFFF *)
Definition supp (hi lo : Z) : Z := (hi - 55296) * 1024 + (lo - 56320) + 65536.

(* UnicodeString::append(UChar32) *)
Definition utf16_of_cp (c : Z) : list Z :=
  if c <? 65536 then [c] else [55296 + (c - 65536) / 1024; 56320 + (c - 65536) mod 1024].

Definition u16_length (c : Z) : nat := if c <? 65536 then 1%nat else 2%nat.

(* UnicodeString::char32At(i): the code point that contains the unit at i
   (also when i is the trail half of a pair) *)
Definition char32_at (l : list Z) (i : nat) : Z :=
  let u := nth i l 0 in
  if is_lead u then
    match nth_error l (S i) with
    | Some v => if is_trail16 v then supp u v else u
    | None => u
    end
  else if is_trail16 u then
    match i with
    | S j => let p := nth j l 0 in if is_lead p then supp p u else u
    | O => u
    end
  else u.

Definition utf16_of_cps (cs : list Z) : list Z := flat_map utf16_of_cp cs.

Fixpoint cps_of_utf16 (l : list Z) : list Z :=
  match l with
  | [] => []
  | u :: r =>
    match r with
    | v :: r' => if is_lead u && is_trail16 v then supp u v :: cps_of_utf16 r' else u :: cps_of_utf16 r
    | [] => [u]
    end
  end.

(* UnicodeString::fromUTF8 / toUTF8String on well-formed text *)
Definition from_utf8 (bs : list Z) : option (list Z) :=
  match cps_of_utf8 bs with Some cs => Some (utf16_of_cps cs) | None => None end.
Definition to_utf8 (l : list Z) : list Z := utf8_of_cps (cps_of_utf16 l).

(* ---------- FlattenData ---------- *)
Record longrule := { lr_suffix : list Z; lr_to : list Z; lr_rb : bool }.
Record start := { st_longer : list longrule; st_char : list Z }.
Definition flatdata := list (Z * start).       (* std::unordered_map<UChar32, Start> *)

Fixpoint lookup (d : flatdata) (c : Z) : option start :=
  match d with
  | [] => None
  | (k, s) :: r => if k =? c then Some s else lookup r c
  end.

(* out.starts[from_char].character = to  (operator[]: creates an empty Start when absent) *)
Fixpoint set_character (d : flatdata) (c : Z) (to : list Z) : flatdata :=
  match d with
  | [] => [(c, {| st_longer := []; st_char := to |})]
  | (k, s) :: r =>
    if k =? c then (k, {| st_longer := st_longer s; st_char := to |}) :: r
    else (k, s) :: set_character r c to
  end.

(* out.starts.insert(make_pair(from_char, default_start)).first->second.longer.push_back(rule)
   where default_start = { longer = {}, character = from_char } *)
Fixpoint push_longer (d : flatdata) (c : Z) (lr : longrule) : flatdata :=
  match d with
  | [] => [(c, {| st_longer := [lr]; st_char := utf16_of_cp c |})]
  | (k, s) :: r =>
    if k =? c then (k, {| st_longer := st_longer s ++ [lr]; st_char := st_char s |}) :: r
    else (k, s) :: push_longer r c lr
  end.

(* one rule of AddToFlatten: U8_NEXT takes the first code point of `from`;
   `to` is Normalize(to) -- the check verifies on every run that NFKC leaves all
   listed `to` strings unchanged, so the table value is used as it is *)
Definition add_rule (rb : bool) (d : flatdata) (rule : list Z * list Z) : flatdata :=
  let (from, to) := rule in
  let c := char32_at from 0 in
  let suffix := skipn (u16_length c) from in
  match suffix with
  | [] => set_character d c to
  | _ => push_longer d c {| lr_suffix := suffix; lr_to := to; lr_rb := rb |}
  end.

Definition add_to_flatten (d : flatdata) (tbl : list (list Z * list Z) * bool) : flatdata :=
  fold_left (add_rule (snd tbl)) (fst tbl) d.

Definition build_flatten (ops : list (list (list Z * list Z) * bool)) : flatdata :=
  fold_left add_to_flatten ops [].

(* LookupFlatten: None = UnsupportedLanguageException *)
Fixpoint find_language (langs : list (list Z * list (list (list Z * list Z) * bool))) (l : list Z) : option flatdata :=
  match langs with
  | [] => None
  | (name, ops) :: r => if bytes_eqb name l then Some (build_flatten ops) else find_language r l
  end.
Definition flatten_for (l : list Z) : option flatdata := find_language flatten_languages l.

(* ---------- Flatten::Apply ---------- *)
Section Apply.
Variable isspace : Z -> bool.          (* u_isspace *)

(* the for loop over start.longer: first rule whose suffix follows and whose
   right-boundary condition holds.  Returns (to, suffix length). *)
Fixpoint try_longer (inp : list Z) (i : nat) (rules : list longrule) : option (list Z * nat) :=
  match rules with
  | [] => None
  | r :: rest =>
    let n := length (lr_suffix r) in
    let ending := (i + 1 + n)%nat in
    (* !in.compare(i + 1, n, from_suffix): the (pinned) substring equals the suffix *)
    if bytes_eqb (firstn n (skipn (i + 1) inp)) (lr_suffix r)
       && (negb (lr_rb r) || Nat.eqb (length inp) ending || isspace (char32_at inp ending))
    then Some (lr_to r, n)
    else try_longer inp i rest
  end.

Fixpoint apply_loop (fuel : nat) (d : flatdata) (inp : list Z) (i : nat) : option (list Z) :=
  if Nat.ltb i (length inp) then
    match fuel with
    | O => None
    | S f =>
      let c := char32_at inp i in
      match lookup d c with
      | Some st =>
        match try_longer inp i (st_longer st) with
        | Some (to, n) =>
          match apply_loop f d inp (i + n + 1) with Some r => Some (to ++ r) | None => None end
        | None =>
          match apply_loop f d inp (i + 1) with Some r => Some (st_char st ++ r) | None => None end
        end
      | None =>
        let adv := if flatten_copy_advances_by_length then u16_length c else 1%nat in
        match apply_loop f d inp (i + adv) with Some r => Some (utf16_of_cp c ++ r) | None => None end
      end
    end
  else Some [].

(* None = fuel exhausted (proved unreachable) *)
Definition flatten_apply (d : flatdata) (inp : list Z) : option (list Z) :=
  apply_loop (S (length inp)) d inp 0.

(* ---------- specification over code points ---------- *)
Fixpoint starts_with (pre l : list Z) : bool :=
  match pre, l with
  | [], _ => true
  | x :: p, y :: r => (x =? y) && starts_with p r
  | _ :: _, [] => false
  end.

Fixpoint spec_longer (rest : list Z) (rules : list longrule) : option (list Z * nat) :=
  match rules with
  | [] => None
  | r :: more =>
    let suf := cps_of_utf16 (lr_suffix r) in
    let after := skipn (length suf) rest in
    if starts_with suf rest
       && (negb (lr_rb r) || match after with [] => true | c :: _ => isspace c end)
    then Some (lr_to r, length suf)
    else spec_longer rest more
  end.

(* left to right; at a code point with an entry the listed longer alternatives
   are tried in order before the single-character replacement; every other code
   point is copied once *)
Fixpoint flatten_spec (fuel : nat) (d : flatdata) (cs : list Z) : list Z :=
  match fuel with
  | O => []
  | S f =>
    match cs with
    | [] => []
    | c :: rest =>
      match lookup d c with
      | Some st =>
        match spec_longer rest (st_longer st) with
        | Some (to, n) => cps_of_utf16 to ++ flatten_spec f d (skipn n rest)
        | None => cps_of_utf16 (st_char st) ++ flatten_spec f d rest
        end
      | None => c :: flatten_spec f d rest
      end
    end
  end.
End Apply.
