(* Executable model of preprocess/process_unicode_main.cc: the per-line
   pipeline with the two ping-pong buffers str[0]/str[1] and the pointers
   cur/tmp exactly as coded, printing what the code prints.  ICU's toLower
   and NFKC are parameters.  Model only. *)
From PP Require Export Unicode.FlattenDefs Base.Lines.
Local Open Scope Z_scope.

Record flags := { f_lower : bool; f_flatten : bool; f_normalize : bool }.

(* UnicodeString str[2]; UnicodeString *cur = &str[0], *tmp = &str[1];
   cur1 = true means cur == &str[1] (and tmp == &str[0]) *)
Record bufs := { b0 : list Z; b1 : list Z; cur1 : bool }.

Definition get_cur (b : bufs) : list Z := if cur1 b then b1 b else b0 b.
Definition set_cur (b : bufs) (v : list Z) : bufs :=
  if cur1 b then {| b0 := b0 b; b1 := v; cur1 := cur1 b |} else {| b0 := v; b1 := b1 b; cur1 := cur1 b |}.
Definition set_tmp (b : bufs) (v : list Z) : bufs :=
  if cur1 b then {| b0 := v; b1 := b1 b; cur1 := cur1 b |} else {| b0 := b0 b; b1 := v; cur1 := cur1 b |}.
Definition swap (b : bufs) : bufs := {| b0 := b0 b; b1 := b1 b; cur1 := negb (cur1 b) |}.

Inductive pres := POk (out : list Z) | PBadUtf8 | PNoLanguage | PFuel.

Section Tool.
Variables (lower nfkc : list Z -> list Z) (isspace : Z -> bool).

Inductive lres := LOk (b : bufs) (printed : list Z) | LBadUtf8 | LFuel.

(* body of `while (getline(std::cin, line))` *)
Definition process_line (d : flatdata) (fl : flags) (b : bufs) (line : list Z) : lres :=
  match from_utf8 line with
  | None => LBadUtf8
  | Some u =>
    let b := set_cur b u in                                           (* *cur = fromUTF8(line) *)
    let b := if f_lower fl then set_cur b (lower (get_cur b)) else b in  (* cur->toLower() *)
    let fb :=
      if f_flatten fl then
        match flatten_apply isspace d (get_cur b) with
        | Some r => Some (swap (set_tmp b r))                          (* Apply( *cur, *tmp ); swap *)
        | None => None
        end
      else Some b in
    match fb with
    | None => LFuel
    | Some b =>
      let b := if f_normalize fl then swap (set_tmp b (nfkc (get_cur b))) else b in
      (* std::cout << *str << '\n'   or   << *cur *)
      LOk b (to_utf8 (if pu_prints_cur then get_cur b else b0 b) ++ [10])
    end
  end.

Fixpoint process_lines (d : flatdata) (fl : flags) (b : bufs) (ls : list (list Z)) : pres :=
  match ls with
  | [] => POk []
  | l :: r =>
    match process_line d fl b l with
    | LBadUtf8 => PBadUtf8
    | LFuel => PFuel
    | LOk b' o =>
      match process_lines d fl b' r with
      | POk out => POk (o ++ out)
      | e => e
      end
    end
  end.

Definition init_bufs : bufs := {| b0 := []; b1 := []; cur1 := false |}.

(* getline: records of stdin split at LF, no CR handling, an unterminated last line counts *)
Definition process_unicode (lang : list Z) (fl : flags) (input : list Z) : pres :=
  match flatten_for lang with
  | None => PNoLanguage
  | Some d => process_lines d fl init_bufs (records 10 false input)
  end.

(* specification: every line gets the requested transforms, in this order *)
Definition line_spec (d : flatdata) (fl : flags) (u : list Z) : list Z :=
  let u := if f_lower fl then lower u else u in
  let u := if f_flatten fl then utf16_of_cps (flatten_spec isspace (S (length u)) d (cps_of_utf16 u)) else u in
  if f_normalize fl then nfkc u else u.
End Tool.
