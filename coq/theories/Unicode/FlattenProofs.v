(* Proofs about the Flatten / process_unicode model. *)
From PP Require Import Unicode.FlattenDefs Unicode.MainDefs.
Local Open Scope Z_scope.

Lemma flatten_apply_empty isspace d : flatten_apply isspace d [] = Some [].
Proof. reflexivity. Qed.
