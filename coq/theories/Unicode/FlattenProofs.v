(* Proofs about the Flatten / process_unicode model. *)
From PP Require Import Unicode.FlattenDefs Unicode.MainDefs.
Local Open Scope Z_scope.

(* ---------- Flatten::Apply terminates (the fuel error is unreachable) ---------- *)
Section ApplyTotal.
Variable isspace : Z -> bool.
Local Opaque flatten_copy_advances_by_length.

Lemma u16_length_pos c : (1 <= u16_length c)%nat.
Proof. unfold u16_length. destruct (c <? 65536); lia. Qed.

Lemma apply_loop_total d inp : forall fuel i, (length inp - i < fuel)%nat ->
  exists r, apply_loop isspace fuel d inp i = Some r.
Proof.
  induction fuel as [|f IH]; intros i Hf; [lia|].
  simpl. destruct (Nat.ltb i (length inp)) eqn:Ei; [|eexists; reflexivity].
  apply Nat.ltb_lt in Ei.
  destruct (lookup d (char32_at inp i)) as [st|].
  - destruct (try_longer isspace inp i (st_longer st)) as [[to n]|].
    + destruct (IH (i + n + 1)%nat) as [r Hr]; [lia|]. rewrite Hr. eexists; reflexivity.
    + destruct (IH (i + 1)%nat) as [r Hr]; [lia|]. rewrite Hr. eexists; reflexivity.
  - pose proof (u16_length_pos (char32_at inp i)).
    destruct (IH (i + (if flatten_copy_advances_by_length then u16_length (char32_at inp i) else 1))%nat) as [r Hr].
    { destruct flatten_copy_advances_by_length; lia. }
    rewrite Hr. eexists; reflexivity.
Qed.

Lemma flatten_apply_total d inp : exists r, flatten_apply isspace d inp = Some r.
Proof. unfold flatten_apply. apply apply_loop_total. lia. Qed.
End ApplyTotal.
Local Transparent flatten_copy_advances_by_length.

(* Flatten::Apply as a total function *)
Definition flatten_fn (isspace : Z -> bool) (d : flatdata) (u : list Z) : list Z :=
  match flatten_apply isspace d u with Some r => r | None => [] end.

Lemma flatten_apply_fn isspace d u : flatten_apply isspace d u = Some (flatten_fn isspace d u).
Proof. unfold flatten_fn. destruct (flatten_apply_total isspace d u) as [r Hr]. rewrite Hr. reflexivity. Qed.

Lemma flatten_apply_empty isspace d : flatten_apply isspace d [] = Some [].
Proof. reflexivity. Qed.

(* ---------- the main loop ---------- *)
Section Pipeline.
Variables (lower nfkc : list Z -> list Z) (isspace : Z -> bool).

(* what every line must become: the requested transforms, in this order *)
Definition pipe (d : flatdata) (fl : flags) (u : list Z) : list Z :=
  let u := if f_lower fl then lower u else u in
  let u := if f_flatten fl then flatten_fn isspace d u else u in
  if f_normalize fl then nfkc u else u.

Lemma get_cur_set_cur b v : get_cur (set_cur b v) = v.
Proof. unfold get_cur, set_cur. destruct (cur1 b); reflexivity. Qed.

Lemma get_cur_swap_set_tmp b v : get_cur (swap (set_tmp b v)) = v.
Proof. unfold get_cur, swap, set_tmp. destruct (cur1 b); reflexivity. Qed.

(* one iteration, from ANY state of the two buffers and of cur/tmp *)
Lemma process_line_spec d fl b line u : from_utf8 line = Some u ->
  exists b', process_line lower nfkc isspace d fl b line = LOk b' (to_utf8 (pipe d fl u) ++ [10]).
Proof.
  intros Hu. unfold process_line, pipe. rewrite Hu. unfold pu_prints_cur.
  destruct fl as [lo fla no]. simpl.
  destruct lo, fla, no; simpl;
    repeat rewrite ?flatten_apply_fn, ?get_cur_set_cur, ?get_cur_swap_set_tmp;
    eexists; reflexivity.
Qed.

Lemma process_lines_spec d fl : forall ls us b,
  Forall2 (fun l u => from_utf8 l = Some u) ls us ->
  process_lines lower nfkc isspace d fl b ls
  = POk (concat (map (fun u => to_utf8 (pipe d fl u) ++ [10]) us)).
Proof.
  induction ls as [|l r IH]; intros us b H; inversion H as [|? u ? us' Hl Hr]; subst; [reflexivity|].
  simpl. destruct (process_line_spec d fl b l u Hl) as [b' E]. rewrite E.
  rewrite (IH us' b' Hr). reflexivity.
Qed.

Lemma nth_concat_lines {A} (f : A -> list Z) (us : list A) :
  forall i u, nth_error us i = Some u -> nth_error (map f us) i = Some (f u).
Proof. intros i u H. apply map_nth_error. exact H. Qed.

Theorem pipeline_spec_proof lang fl d ls us :
  flatten_for lang = Some d ->
  Forall2 (fun l u => from_utf8 l = Some u) ls us ->
  no_delim 10 (concat ls) = true ->
  process_unicode lower nfkc isspace lang fl (unrecords 10 ls)
  = POk (unrecords 10 (map (fun u => to_utf8 (pipe d fl u)) us)).
Proof.
  intros Hd Hu Hlf. unfold process_unicode. rewrite Hd.
  assert (forallb (no_delim 10) ls = true) as Hl.
  { clear -Hlf. induction ls as [|l r IH]; [reflexivity|]. simpl in *.
    unfold no_delim in *. rewrite forallb_app in Hlf. apply andb_true_iff in Hlf.
    destruct Hlf as [H1 H2]. rewrite H1. simpl. apply IH. exact H2. }
  rewrite (records_unrecords 10 ls Hl).
  rewrite (process_lines_spec d fl ls us init_bufs Hu).
  f_equal. unfold unrecords. rewrite flat_map_concat_map, map_map. reflexivity.
Qed.
End Pipeline.
