(* Proofs about the Flatten / process_unicode model. *)
From PP Require Import Unicode.FlattenDefs Unicode.MainDefs.
Local Open Scope Z_scope.

(* ---------- Flatten::Apply terminates (the fuel error is unreachable) ---------- *)
Section ApplyTotal.
Variable isspace : Z -> bool.
Local Opaque flatten_copy_advances_by_length.

Lemma u16_length_pos c : (1 <= u16_length c)%nat.
Proof. unfold u16_length. destruct (c <? 65536); lia. Qed.

Lemma apply_loop_total d inp : forall fuel i, (length inp - i < fuel)%nat ->
  exists r, apply_loop isspace fuel d inp i = Some r.
Proof.
  induction fuel as [|f IH]; intros i Hf; [lia|].
  simpl. destruct (Nat.ltb i (length inp)) eqn:Ei; [|eexists; reflexivity].
  apply Nat.ltb_lt in Ei.
  destruct (lookup d (char32_at inp i)) as [st|].
  - destruct (try_longer isspace inp i (st_longer st)) as [[to n]|].
    + destruct (IH (i + n + 1)%nat) as [r Hr]; [lia|]. rewrite Hr. eexists; reflexivity.
    + destruct (IH (i + 1)%nat) as [r Hr]; [lia|]. rewrite Hr. eexists; reflexivity.
  - pose proof (u16_length_pos (char32_at inp i)).
    destruct (IH (i + (if flatten_copy_advances_by_length then u16_length (char32_at inp i) else 1))%nat) as [r Hr].
    { destruct flatten_copy_advances_by_length; lia. }
    rewrite Hr. eexists; reflexivity.
Qed.

Lemma flatten_apply_total d inp : exists r, flatten_apply isspace d inp = Some r.
Proof. unfold flatten_apply. apply apply_loop_total. lia. Qed.
End ApplyTotal.
Local Transparent flatten_copy_advances_by_length.

(* Flatten::Apply as a total function *)
Definition flatten_fn (isspace : Z -> bool) (d : flatdata) (u : list Z) : list Z :=
  match flatten_apply isspace d u with Some r => r | None => [] end.

Lemma flatten_apply_fn isspace d u : flatten_apply isspace d u = Some (flatten_fn isspace d u).
Proof. unfold flatten_fn. destruct (flatten_apply_total isspace d u) as [r Hr]. rewrite Hr. reflexivity. Qed.

Lemma flatten_apply_empty isspace d : flatten_apply isspace d [] = Some [].
Proof. reflexivity. Qed.

(* ---------- the main loop ---------- *)
Section Pipeline.
Variables (lower nfkc : list Z -> list Z) (isspace : Z -> bool).

(* what every line must become: the requested transforms, in this order *)
Definition pipe (d : flatdata) (fl : flags) (u : list Z) : list Z :=
  let u := if f_lower fl then lower u else u in
  let u := if f_flatten fl then flatten_fn isspace d u else u in
  if f_normalize fl then nfkc u else u.

Lemma get_cur_set_cur b v : get_cur (set_cur b v) = v.
Proof. unfold get_cur, set_cur. destruct (cur1 b); reflexivity. Qed.

Lemma get_cur_swap_set_tmp b v : get_cur (swap (set_tmp b v)) = v.
Proof. unfold get_cur, swap, set_tmp. destruct (cur1 b); reflexivity. Qed.

(* one iteration, from ANY state of the two buffers and of cur/tmp *)
Lemma process_line_spec d fl b line u : from_utf8 line = Some u ->
  exists b', process_line lower nfkc isspace d fl b line = LOk b' (to_utf8 (pipe d fl u) ++ [10]).
Proof.
  intros Hu. unfold process_line, pipe. rewrite Hu. unfold pu_prints_cur.
  destruct fl as [lo fla no]. simpl.
  destruct lo, fla, no; simpl;
    repeat rewrite ?flatten_apply_fn, ?get_cur_set_cur, ?get_cur_swap_set_tmp;
    eexists; reflexivity.
Qed.

Lemma process_lines_spec d fl : forall ls us b,
  Forall2 (fun l u => from_utf8 l = Some u) ls us ->
  process_lines lower nfkc isspace d fl b ls
  = POk (concat (map (fun u => to_utf8 (pipe d fl u) ++ [10]) us)).
Proof.
  induction ls as [|l r IH]; intros us b H; inversion H as [|? u ? us' Hl Hr]; subst; [reflexivity|].
  simpl. destruct (process_line_spec d fl b l u Hl) as [b' E]. rewrite E.
  rewrite (IH us' b' Hr). reflexivity.
Qed.

Lemma nth_concat_lines {A} (f : A -> list Z) (us : list A) :
  forall i u, nth_error us i = Some u -> nth_error (map f us) i = Some (f u).
Proof. intros i u H. apply map_nth_error. exact H. Qed.

Theorem pipeline_spec_proof lang fl d ls us :
  flatten_for lang = Some d ->
  Forall2 (fun l u => from_utf8 l = Some u) ls us ->
  no_delim 10 (concat ls) = true ->
  process_unicode lower nfkc isspace lang fl (unrecords 10 ls)
  = POk (unrecords 10 (map (fun u => to_utf8 (pipe d fl u)) us)).
Proof.
  intros Hd Hu Hlf. unfold process_unicode. rewrite Hd.
  assert (forallb (no_delim 10) ls = true) as Hl.
  { clear -Hlf. induction ls as [|l r IH]; [reflexivity|]. simpl in *.
    unfold no_delim in *. rewrite forallb_app in Hlf. apply andb_true_iff in Hlf.
    destruct Hlf as [H1 H2]. rewrite H1. simpl. apply IH. exact H2. }
  rewrite (records_unrecords 10 ls Hl).
  rewrite (process_lines_spec d fl ls us init_bufs Hu).
  f_equal. unfold unrecords. rewrite flat_map_concat_map, map_map. reflexivity.
Qed.
End Pipeline.

(* ================= Flatten::Apply refines the code-point level specification ================= *)
From Coq Require Import ZifyBool.
Ltac Zify.zify_post_hook ::= Z.div_mod_to_equations.

(* Unicode scalar values; BMP scalar values (one UTF-16 unit, not a surrogate); UTF-16 units *)
Definition is_scalar (c : Z) : bool := ((0 <=? c) && (c <? 55296)) || ((57344 <=? c) && (c <=? 1114111)).
Definition bmp_ns (c : Z) : bool := ((0 <=? c) && (c <? 55296)) || ((57344 <=? c) && (c <? 65536)).
Definition unit_ok (x : Z) : bool := (0 <=? x) && (x <? 65536).

Notation U := utf16_of_cps.

Lemma U_app a b : U (a ++ b) = U a ++ U b.
Proof. unfold utf16_of_cps. apply flat_map_app. Qed.

Lemma U_cons c r : U (c :: r) = utf16_of_cp c ++ U r.
Proof. reflexivity. Qed.

Lemma utf16_of_cp_bmp c : bmp_ns c = true -> utf16_of_cp c = [c].
Proof. unfold bmp_ns, utf16_of_cp. intros H. replace (c <? 65536) with true by lia. reflexivity. Qed.

Lemma utf16_of_cp_length c : length (utf16_of_cp c) = u16_length c.
Proof. unfold utf16_of_cp, u16_length. destruct (c <? 65536); reflexivity. Qed.

(* decoding UTF-16 units and encoding again gives the same units *)
Lemma utf16_roundtrip_n : forall n l, (length l <= n)%nat -> forallb unit_ok l = true -> U (cps_of_utf16 l) = l.
Proof.
  induction n as [|n IH]; intros l H Hok.
  - destruct l; [reflexivity | simpl in H; lia].
  - destruct l as [|u [|v r]]; [reflexivity | |].
    + simpl in *. unfold utf16_of_cp, unit_ok in *. replace (u <? 65536) with true by lia. reflexivity.
    + change (cps_of_utf16 (u :: v :: r)) with
        (if is_lead u && is_trail16 v then supp u v :: cps_of_utf16 r else u :: cps_of_utf16 (v :: r)).
      simpl in Hok. apply andb_true_iff in Hok. destruct Hok as [Hu Hok].
      destruct (is_lead u && is_trail16 v) eqn:E.
      * apply andb_true_iff in Hok. destruct Hok as [Hv Hr].
        rewrite U_cons, IH; [ | simpl in *; lia | exact Hr].
        unfold utf16_of_cp, supp, is_lead, is_trail16 in *.
        replace ((u - 55296) * 1024 + (v - 56320) + 65536 <? 65536) with false by lia.
        cbn [app]. f_equal; [lia|]. f_equal. lia.
      * rewrite U_cons, IH; [ | simpl in *; lia | exact Hok].
        unfold utf16_of_cp, unit_ok in *. replace (u <? 65536) with true by lia. reflexivity.
Qed.

Lemma utf16_roundtrip l : forallb unit_ok l = true -> U (cps_of_utf16 l) = l.
Proof. apply (utf16_roundtrip_n (length l)). lia. Qed.

Lemma cps_bmp_id l : forallb bmp_ns l = true -> cps_of_utf16 l = l.
Proof.
  induction l as [|u r IH]; intros H; [reflexivity|].
  simpl in H. apply andb_true_iff in H. destruct H as [Hu Hr].
  destruct r as [|v r']; [reflexivity|].
  change (cps_of_utf16 (u :: v :: r')) with
    (if is_lead u && is_trail16 v then supp u v :: cps_of_utf16 r' else u :: cps_of_utf16 (v :: r')).
  replace (is_lead u && is_trail16 v) with false by (unfold is_lead, bmp_ns in *; lia).
  rewrite IH by exact Hr. reflexivity.
Qed.

(* char32At at a code point boundary returns the code point that starts there *)
Lemma char32_at_boundary A c rest : is_scalar c = true ->
  char32_at (A ++ U (c :: rest)) (length A) = c.
Proof.
  intros Hc. unfold char32_at. rewrite U_cons.
  rewrite app_nth2 by lia. rewrite Nat.sub_diag.
  unfold utf16_of_cp. destruct (c <? 65536) eqn:E.
  - simpl. unfold is_lead, is_trail16, is_scalar in *.
    replace ((55296 <=? c) && (c <=? 56319)) with false by lia.
    replace ((56320 <=? c) && (c <=? 57343)) with false by lia. reflexivity.
  - assert (is_lead (55296 + (c - 65536) / 1024) = true) as Hl by (unfold is_lead, is_scalar in *; lia).
    assert (is_trail16 (56320 + (c - 65536) mod 1024) = true) as Ht by (unfold is_trail16; lia).
    assert (supp (55296 + (c - 65536) / 1024) (56320 + (c - 65536) mod 1024) = c) as Hs by (unfold supp; lia).
    revert Hl Ht Hs. generalize (55296 + (c - 65536) / 1024) as hi. generalize (56320 + (c - 65536) mod 1024) as lo.
    intros lo hi Hl Ht Hs.
    cbn [nth app]. rewrite Hl.
    rewrite nth_error_app2 by lia. replace (S (length A) - length A)%nat with 1%nat by lia.
    cbn [nth_error app]. rewrite Ht. exact Hs.
Qed.

Section Refine.
Variable isspace : Z -> bool.
Local Opaque flatten_copy_advances_by_length.

(* unit-level prefix match of a BMP suffix = code-point level prefix match *)
Lemma prefix_bmp : forall suffix rest, forallb bmp_ns suffix = true -> forallb is_scalar rest = true ->
  bytes_eqb (firstn (length suffix) (U rest)) suffix = starts_with suffix rest /\
  (starts_with suffix rest = true ->
     firstn (length suffix) (U rest) = suffix /\
     skipn (length suffix) (U rest) = U (skipn (length suffix) rest)).
Proof.
  induction suffix as [|x suf IH]; intros rest Hs Hr.
  - simpl. split; [reflexivity|]. intros _. split; reflexivity.
  - simpl in Hs. apply andb_true_iff in Hs. destruct Hs as [Hx Hsuf].
    destruct rest as [|c r].
    + simpl. split; [reflexivity | discriminate].
    + simpl in Hr. apply andb_true_iff in Hr. destruct Hr as [Hc Hr].
      rewrite U_cons. unfold utf16_of_cp. destruct (c <? 65536) eqn:E.
      * cbn [length firstn app bytes_eqb starts_with skipn]. destruct (IH r Hsuf Hr) as [I1 I2]. rewrite I1, (Z.eqb_sym c x). split; [reflexivity|].
        intros H. apply andb_true_iff in H. destruct H as [Hxc H]. destruct (I2 H) as [J1 J2].
        apply Z.eqb_eq in Hxc. subst c. rewrite J1, J2. split; reflexivity.
      * assert ((55296 + (c - 65536) / 1024 =? x) = false) as N1 by (unfold bmp_ns, is_scalar in *; lia).
        assert ((x =? c) = false) as N2 by (unfold bmp_ns in *; lia).
        revert N1. generalize (55296 + (c - 65536) / 1024) as hi. generalize (56320 + (c - 65536) mod 1024) as lo.
        intros lo hi N1.
        cbn [length firstn app bytes_eqb starts_with]. rewrite N1, N2. cbn [andb].
        split; [reflexivity | discriminate].
Qed.

Definition rule_ok (r : longrule) : bool := forallb bmp_ns (lr_suffix r) && forallb unit_ok (lr_to r).
Definition start_ok (st : start) : bool := forallb rule_ok (st_longer st) && forallb unit_ok (st_char st).
Definition data_ok (d : flatdata) : bool := forallb (fun ks => bmp_ns (fst ks) && start_ok (snd ks)) d.

Lemma lookup_ok d c st : data_ok d = true -> lookup d c = Some st -> bmp_ns c = true /\ start_ok st = true.
Proof.
  induction d as [|[k s] r IH]; intros H E; [discriminate|].
  simpl in H. apply andb_true_iff in H. destruct H as [Hk Hr]. apply andb_true_iff in Hk. destruct Hk as [Hk Hs].
  simpl in E. destruct (k =? c) eqn:Ek.
  - inversion E; subst. apply Z.eqb_eq in Ek. subst. auto.
  - apply IH; assumption.
Qed.

(* the loop over start.longer, at a BMP start character c followed by the code points rest *)
Lemma try_longer_spec A c rest : bmp_ns c = true -> forallb is_scalar rest = true ->
  forall rules, forallb rule_ok rules = true ->
  try_longer isspace (A ++ U (c :: rest)) (length A) rules = spec_longer isspace rest rules.
Proof.
  intros Hc Hr. rewrite U_cons, (utf16_of_cp_bmp c Hc).
  induction rules as [|r more IH]; intros Hok; [reflexivity|].
  simpl in Hok. apply andb_true_iff in Hok. destruct Hok as [Hrule Hmore].
  unfold rule_ok in Hrule. apply andb_true_iff in Hrule. destruct Hrule as [Hsuf Hto].
  cbn [try_longer spec_longer]. rewrite (cps_bmp_id _ Hsuf).
  replace (skipn (length A + 1) (A ++ [c] ++ U rest)) with (U rest).
  2: { rewrite app_assoc. rewrite skipn_app. rewrite skipn_all2 by (rewrite app_length; simpl; lia).
       rewrite app_length. simpl. replace (length A + 1 - (length A + 1))%nat with 0%nat by lia. reflexivity. }
  destruct (prefix_bmp (lr_suffix r) rest Hsuf Hr) as [P1 P2]. rewrite P1.
  destruct (starts_with (lr_suffix r) rest) eqn:Es; [|simpl; apply IH; exact Hmore].
  destruct (P2 eq_refl) as [Q1 Q2]. simpl.
  (* the right-boundary test *)
  assert ((Nat.eqb (length (A ++ [c] ++ U rest)) (length A + 1 + length (lr_suffix r))
           || isspace (char32_at (A ++ [c] ++ U rest) (length A + 1 + length (lr_suffix r))))
          = match skipn (length (lr_suffix r)) rest with [] => true | c' :: _ => isspace c' end) as Hb.
  { assert (U rest = lr_suffix r ++ U (skipn (length (lr_suffix r)) rest)) as Esplit.
    { rewrite <- Q1 at 1. rewrite <- Q2. symmetry. apply firstn_skipn. }
    destruct (skipn (length (lr_suffix r)) rest) as [|c' after] eqn:Ea.
    - rewrite Esplit. simpl. rewrite !app_length. simpl. rewrite app_nil_r.
      replace (length A + S (length (lr_suffix r)))%nat with (length A + 1 + length (lr_suffix r))%nat by lia.
      rewrite Nat.eqb_refl. reflexivity.
    - assert (is_scalar c' = true) as Hc'.
      { assert (forallb is_scalar (skipn (length (lr_suffix r)) rest) = true) as Hs.
        { rewrite <- (firstn_skipn (length (lr_suffix r)) rest), forallb_app in Hr.
          apply andb_true_iff in Hr. apply Hr. }
        rewrite Ea in Hs. simpl in Hs. apply andb_true_iff in Hs. apply Hs. }
      rewrite Esplit.
      replace (A ++ [c] ++ lr_suffix r ++ U (c' :: after)) with ((A ++ [c] ++ lr_suffix r) ++ U (c' :: after))
        by (rewrite <- !app_assoc; reflexivity).
      replace (length A + 1 + length (lr_suffix r))%nat with (length (A ++ [c] ++ lr_suffix r))
        by (rewrite !app_length; simpl; lia).
      rewrite (char32_at_boundary _ c' after Hc').
      replace (Nat.eqb _ _) with false; [reflexivity|].
      symmetry. apply Nat.eqb_neq. rewrite (app_length (A ++ [c] ++ lr_suffix r)).
      rewrite U_cons, (app_length (utf16_of_cp c')), utf16_of_cp_length. pose proof (u16_length_pos c'). lia. }
  change (A ++ c :: U rest) with (A ++ [c] ++ U rest). rewrite <- orb_assoc, Hb.
  destruct (negb (lr_rb r) || _); [reflexivity|]. apply IH. exact Hmore.
Qed.

Lemma spec_longer_len rest rules to n : spec_longer isspace rest rules = Some (to, n) ->
  exists r, In r rules /\ to = lr_to r /\ n = length (cps_of_utf16 (lr_suffix r)) /\
            starts_with (cps_of_utf16 (lr_suffix r)) rest = true.
Proof.
  induction rules as [|r more IH]; intros H; [discriminate|].
  simpl in H. destruct (starts_with (cps_of_utf16 (lr_suffix r)) rest) eqn:Es.
  - destruct (negb (lr_rb r) || _) in H.
    + inversion H; subst. exists r. split; [left; reflexivity|]. auto.
    + destruct (IH H) as (r' & Hin & E). exists r'. split; [right; exact Hin | exact E].
  - simpl in H. destruct (IH H) as (r' & Hin & E). exists r'. split; [right; exact Hin | exact E].
Qed.

Lemma forallb_skipn {A} (p : A -> bool) n l : forallb p l = true -> forallb p (skipn n l) = true.
Proof.
  intros H. rewrite <- (firstn_skipn n l), forallb_app in H. apply andb_true_iff in H. apply H.
Qed.

(* the main refinement: from any boundary, with enough fuel on both sides *)
Lemma apply_refines d : data_ok d = true ->
  forall fs rest A fuel, (length rest < fs)%nat -> forallb is_scalar rest = true ->
  (length (U rest) < fuel)%nat ->
  apply_loop isspace fuel d (A ++ U rest) (length A) = Some (U (flatten_spec isspace fs d rest)).
Proof.
  intros Hd. induction fs as [|fs IH]; intros rest A fuel Hfs Hr Hfuel; [lia|].
  destruct rest as [|c r].
  - simpl. rewrite app_nil_r. destruct fuel; simpl; rewrite Nat.ltb_irrefl; reflexivity.
  - simpl in Hr. apply andb_true_iff in Hr. destruct Hr as [Hc Hr].
    destruct fuel as [|f]; [lia|].
    cbn [apply_loop].
    replace (Nat.ltb (length A) (length (A ++ U (c :: r)))) with true.
    2: { symmetry. apply Nat.ltb_lt. rewrite app_length, U_cons, app_length, utf16_of_cp_length.
         pose proof (u16_length_pos c). lia. }
    rewrite (char32_at_boundary A c r Hc).
    cbn [flatten_spec].
    destruct (lookup d c) as [st|] eqn:El.
    + destruct (lookup_ok d c st Hd El) as [Hbmp Hst].
      unfold start_ok in Hst. apply andb_true_iff in Hst. destruct Hst as [Hrules Hch].
      rewrite (try_longer_spec A c r Hbmp Hr _ Hrules).
      rewrite U_cons, (utf16_of_cp_bmp c Hbmp) in *.
      destruct (spec_longer isspace r (st_longer st)) as [[to n]|] eqn:Es.
      * destruct (spec_longer_len r _ to n Es) as (rule & Hin & -> & -> & Hsw).
        rewrite forallb_forall in Hrules. specialize (Hrules rule Hin).
        unfold rule_ok in Hrules. apply andb_true_iff in Hrules. destruct Hrules as [Hsuf Hto].
        rewrite (cps_bmp_id _ Hsuf) in *.
        destruct (prefix_bmp (lr_suffix rule) r Hsuf Hr) as [_ P2]. destruct (P2 Hsw) as [Q1 Q2].
        assert (U r = lr_suffix rule ++ U (skipn (length (lr_suffix rule)) r)) as Esplit.
        { rewrite <- Q1 at 1. rewrite <- Q2. symmetry. apply firstn_skipn. }
        rewrite Esplit.
        replace (A ++ [c] ++ lr_suffix rule ++ U (skipn (length (lr_suffix rule)) r))
          with ((A ++ [c] ++ lr_suffix rule) ++ U (skipn (length (lr_suffix rule)) r))
          by (rewrite <- !app_assoc; reflexivity).
        replace (length A + length (lr_suffix rule) + 1)%nat with (length (A ++ [c] ++ lr_suffix rule))
          by (rewrite !app_length; simpl; lia).
        rewrite (IH (skipn (length (lr_suffix rule)) r) _ f).
        -- rewrite U_app, (utf16_roundtrip _ Hto). reflexivity.
        -- rewrite skipn_length. simpl in Hfs. lia.
        -- apply forallb_skipn. exact Hr.
        -- simpl in Hfuel. rewrite Esplit, app_length in Hfuel. lia.
      * replace (A ++ [c] ++ U r) with ((A ++ [c]) ++ U r) by (rewrite <- app_assoc; reflexivity).
        replace (length A + 1)%nat with (length (A ++ [c])) by (rewrite app_length; simpl; lia).
        rewrite (IH r _ f); [| simpl in Hfs; lia | exact Hr | simpl in Hfuel; lia].
        rewrite U_app, (utf16_roundtrip _ Hch). reflexivity.
    + assert (flatten_copy_advances_by_length = true) as Eadv by reflexivity. rewrite Eadv.
      rewrite U_cons.
      replace (A ++ utf16_of_cp c ++ U r) with ((A ++ utf16_of_cp c) ++ U r) by (rewrite <- app_assoc; reflexivity).
      replace (length A + u16_length c)%nat with (length (A ++ utf16_of_cp c))
        by (rewrite app_length, utf16_of_cp_length; reflexivity).
      rewrite (IH r _ f); [reflexivity | simpl in Hfs; lia | exact Hr|].
      rewrite U_cons, app_length, utf16_of_cp_length in Hfuel. pose proof (u16_length_pos c). lia.
Qed.

Theorem flatten_refines d cs : data_ok d = true -> forallb is_scalar cs = true ->
  flatten_apply isspace d (U cs) = Some (U (flatten_spec isspace (S (length cs)) d cs)).
Proof.
  intros Hd Hc. unfold flatten_apply.
  apply (apply_refines d Hd (S (length cs)) cs [] (S (length (U cs)))); [lia | exact Hc | lia].
Qed.

(* code points that no rule targets are copied, each exactly once *)
Lemma flatten_spec_untouched d : forall fs cs, (length cs < fs)%nat ->
  (forall c, In c cs -> lookup d c = None) -> flatten_spec isspace fs d cs = cs.
Proof.
  induction fs as [|fs IH]; intros cs Hf Hn; [lia|].
  destruct cs as [|c r]; [reflexivity|]. simpl. rewrite (Hn c (or_introl eq_refl)).
  rewrite IH; [reflexivity | simpl in Hf; lia | intros x Hx; apply Hn; right; exact Hx].
Qed.
End Refine.
Local Transparent flatten_copy_advances_by_length.

(* ---------- the generated tables satisfy the side conditions ---------- *)
Lemma languages_ok : forallb (fun lo => data_ok (build_flatten (snd lo))) flatten_languages = true.
Proof. vm_compute. reflexivity. Qed.

Lemma flatten_for_ok lang d : flatten_for lang = Some d -> data_ok d = true.
Proof.
  unfold flatten_for. pose proof languages_ok as H. revert H.
  generalize flatten_languages as langs. induction langs as [|[name ops] r IH]; intros H E; [discriminate|].
  simpl in H. apply andb_true_iff in H. destruct H as [H1 H2].
  simpl in E. destruct (bytes_eqb name lang).
  - inversion E; subst. exact H1.
  - apply IH; assumption.
Qed.

Theorem flatten_spec_proof isspace lang d cs fs :
  flatten_for lang = Some d -> forallb is_scalar cs = true -> (length cs < fs)%nat ->
  flatten_apply isspace d (U cs) = Some (U (flatten_spec isspace fs d cs)).
Proof.
  intros Hl Hc Hf. unfold flatten_apply.
  apply (apply_refines isspace d (flatten_for_ok lang d Hl) fs cs [] (S (length (U cs)))); [exact Hf | exact Hc | lia].
Qed.

Theorem each_codepoint_once_proof isspace lang d cs :
  flatten_for lang = Some d -> forallb is_scalar cs = true ->
  (forall c, In c cs -> lookup d c = None) ->
  flatten_apply isspace d (U cs) = Some (U cs).
Proof.
  intros Hl Hc Hn. rewrite (flatten_spec_proof isspace lang d cs (S (length cs)) Hl Hc) by lia.
  rewrite flatten_spec_untouched; [reflexivity | lia | exact Hn].
Qed.

(* ---------- valid UTF-8 decodes to scalar values ---------- *)
From PP Require Import Fold.FoldDefs.

Lemma decode_scalar bs c n : decode_utf8 bs = Some (c, n) -> bytes_okb bs = true -> is_scalar c = true.
Proof.
  unfold decode_utf8. destruct bs as [|b0 r]; [discriminate|].
  unfold fu8_b1_lt, fu8_b1_len, fu8_b2_len, fu8_b2_leadmask, fu8_b2_leadval, fu8_b2_m0, fu8_b2_s0, fu8_b2_m1,
    fu8_b2_min, fu8_b2_mblen, fu8_b3_len, fu8_b3_leadmask, fu8_b3_leadval, fu8_b3_m0, fu8_b3_s0, fu8_b3_m1,
    fu8_b3_s1, fu8_b3_m2, fu8_b3_min, fu8_b3_mblen, fu8_b4_len, fu8_b4_leadmask, fu8_b4_leadval, fu8_b4_m0,
    fu8_b4_s0, fu8_b4_m1, fu8_b4_s1, fu8_b4_m2, fu8_b4_s2, fu8_b4_m3, fu8_b4_min, fu8_b4_mblen.
  intros H Hok. apply bytes_okb_cons in Hok. destruct Hok as [Hb0 _].
  unfold is_valid_cp, fu8_valid_lt, fu8_valid_ge, fu8_valid_le in H.
  destruct (b0 <? 128) eqn:B1.
  { injection H as <- _. unfold is_scalar. lia. }
  destruct (_ && (Z.land b0 224 =? 192)).
  { match type of H with (if ?t then _ else _) = _ => destruct t eqn:T end; [|discriminate].
    match type of T with context [128 <=? ?e] => set (cp := e) in *; clearbody cp end.
    injection H as <- _. unfold is_scalar. lia. }
  destruct (_ && (Z.land b0 240 =? 224)).
  { match type of H with (if ?t then _ else _) = _ => destruct t eqn:T end; [|discriminate].
    match type of T with context [2048 <=? ?e] => set (cp := e) in *; clearbody cp end.
    injection H as <- _. unfold is_scalar. lia. }
  destruct (_ && (Z.land b0 248 =? 240)).
  { match type of H with (if ?t then _ else _) = _ => destruct t eqn:T end; [|discriminate].
    match type of T with context [65536 <=? ?e] => set (cp := e) in *; clearbody cp end.
    injection H as <- _. unfold is_scalar. lia. }
  discriminate.
Qed.

Lemma bytes_okb_skipn n bs : bytes_okb bs = true -> bytes_okb (skipn n bs) = true.
Proof. unfold bytes_okb. apply forallb_skipn. Qed.

Lemma cps_fuel_S f bs : bs <> [] ->
  cps_of_utf8_fuel (S f) bs =
  match decode_utf8 bs with
  | None => None
  | Some (c, n) => match cps_of_utf8_fuel f (skipn (Z.to_nat n) bs) with Some r => Some (c :: r) | None => None end
  end.
Proof. destruct bs; [congruence | reflexivity]. Qed.

Lemma cps_of_utf8_scalar : forall fuel bs cs, cps_of_utf8_fuel fuel bs = Some cs -> bytes_okb bs = true ->
  forallb is_scalar cs = true.
Proof.
  induction fuel as [|f IH]; intros bs cs H Hok.
  - destruct bs; simpl in H; [inversion H; reflexivity | discriminate].
  - destruct bs as [|b r]; [simpl in H; inversion H; reflexivity|]. set (l := b :: r) in *.
    rewrite cps_fuel_S in H by discriminate.
    destruct (decode_utf8 l) as [[c n]|] eqn:Ed; [|discriminate].
    destruct (cps_of_utf8_fuel f (skipn (Z.to_nat n) l)) as [rest|] eqn:Er; [|discriminate].
    inversion H; subst. simpl. rewrite (decode_scalar l c n Ed Hok). simpl.
    apply (IH _ _ Er). apply bytes_okb_skipn. exact Hok.
Qed.

Lemma from_utf8_scalar line u : from_utf8 line = Some u -> bytes_okb line = true ->
  exists cs, u = U cs /\ forallb is_scalar cs = true.
Proof.
  unfold from_utf8, cps_of_utf8. destruct (cps_of_utf8_fuel (length line) line) as [cs|] eqn:E; [|discriminate].
  intros H Hok. inversion H; subst. exists cs. split; [reflexivity|]. eapply cps_of_utf8_scalar; eauto.
Qed.

(* cps_of_utf16 inverts U on scalar values *)
Lemma cps_of_U : forall cs, forallb is_scalar cs = true -> cps_of_utf16 (U cs) = cs.
Proof.
  induction cs as [|c r IH]; intros H; [reflexivity|].
  simpl in H. apply andb_true_iff in H. destruct H as [Hc Hr]. specialize (IH Hr).
  rewrite U_cons. unfold utf16_of_cp. destruct (c <? 65536) eqn:E.
  - cbn [app]. destruct (U r) as [|v r'] eqn:Eu.
    + simpl. destruct r; [reflexivity|]. simpl in IH. rewrite <- IH. reflexivity.
    + change (cps_of_utf16 (c :: v :: r')) with
        (if is_lead c && is_trail16 v then supp c v :: cps_of_utf16 r' else c :: cps_of_utf16 (v :: r')).
      replace (is_lead c && is_trail16 v) with false by (unfold is_lead, is_scalar in *; lia).
      rewrite IH. reflexivity.
  - assert (is_lead (55296 + (c - 65536) / 1024) = true) as Hl by (unfold is_lead, is_scalar in *; lia).
    assert (is_trail16 (56320 + (c - 65536) mod 1024) = true) as Ht by (unfold is_trail16; lia).
    assert (supp (55296 + (c - 65536) / 1024) (56320 + (c - 65536) mod 1024) = c) as Hs by (unfold supp; lia).
    revert Hl Ht Hs. generalize (55296 + (c - 65536) / 1024) as hi. generalize (56320 + (c - 65536) mod 1024) as lo.
    intros lo hi Hl Ht Hs. cbn [app].
    change (cps_of_utf16 (hi :: lo :: U r)) with
      (if is_lead hi && is_trail16 lo then supp hi lo :: cps_of_utf16 (U r) else hi :: cps_of_utf16 (lo :: U r)).
    rewrite Hl, Ht, Hs, IH. reflexivity.
Qed.

(* ---------- the tool: pipeline + flatten specification ---------- *)
Section ToolSpec.
Variables (lower nfkc : list Z -> list Z) (isspace : Z -> bool).

(* well-formed UTF-16: units of scalar values *)
Definition wf16 (u : list Z) : Prop := exists cs, u = U cs /\ forallb is_scalar cs = true.

(* ICU's toLower maps well-formed UTF-16 to well-formed UTF-16 *)
Hypothesis lower_wf : forall u, wf16 u -> wf16 (lower u).

Lemma U_length_ge cs : (length cs <= length (U cs))%nat.
Proof.
  induction cs as [|c r IH]; [simpl; lia|]. rewrite U_cons, app_length, utf16_of_cp_length.
  pose proof (u16_length_pos c). simpl. lia.
Qed.

Lemma pipe_line_spec lang d fl u : flatten_for lang = Some d -> wf16 u ->
  pipe lower nfkc isspace d fl u = line_spec lower nfkc isspace d fl u.
Proof.
  intros Hl Hu. unfold pipe, line_spec.
  assert (wf16 (if f_lower fl then lower u else u)) as Hw by (destruct (f_lower fl); [apply lower_wf|]; exact Hu).
  destruct Hw as (cs & E & Hcs). rewrite E.
  destruct (f_flatten fl); [|reflexivity].
  unfold flatten_fn. rewrite (flatten_spec_proof isspace lang d cs (S (length (U cs))) Hl Hcs).
  - rewrite (cps_of_U cs Hcs). reflexivity.
  - pose proof (U_length_ge cs). lia.
Qed.

Theorem tool_spec_proof lang fl d ls us :
  flatten_for lang = Some d ->
  Forall2 (fun l u => from_utf8 l = Some u /\ bytes_okb l = true) ls us ->
  no_delim 10 (concat ls) = true ->
  process_unicode lower nfkc isspace lang fl (unrecords 10 ls)
  = POk (unrecords 10 (map (fun u => to_utf8 (line_spec lower nfkc isspace d fl u)) us)).
Proof.
  intros Hl H2 Hlf.
  rewrite (pipeline_spec_proof lower nfkc isspace lang fl d ls us Hl); [| |exact Hlf].
  - f_equal. f_equal. apply map_ext_in. intros u Hu.
    rewrite (pipe_line_spec lang d fl u Hl); [reflexivity|].
    clear -H2 Hu. induction H2 as [|l u' ls us [H1 H3] _ IH]; [contradiction|].
    destruct Hu as [<- | Hu]; [eapply from_utf8_scalar; eauto | apply IH; exact Hu].
  - clear -H2. induction H2 as [|l u ls us [H1 _] _ IH]; constructor; assumption.
Qed.
End ToolSpec.

(* ---------- a fact about the present tables: the order of the alternatives is unobservable ---------- *)
Fixpoint pairwise_prefix_free (rules : list longrule) : bool :=
  match rules with
  | [] => true
  | r :: rest =>
    forallb (fun r2 => negb (starts_with (lr_suffix r) (lr_suffix r2)) && negb (starts_with (lr_suffix r2) (lr_suffix r))) rest
    && pairwise_prefix_free rest
  end.

Definition tables_prefix_free : bool :=
  forallb (fun lo => forallb (fun ks => pairwise_prefix_free (st_longer (snd ks))) (build_flatten (snd lo)))
          flatten_languages.
