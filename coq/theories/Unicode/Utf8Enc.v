(* UTF-8 <-> code points on well-formed text: decoding with the model of
   util::DecodeUTF8 (Fold/FoldDefs.v), encoding by the standard bit layout.
   Kept separate from the Flatten tables so that proofs about the byte level do
   not depend on Gen/Src_flatten.v. *)
From PP Require Export Base.Bytes.
From PP Require Import Fold.Utf8Scan.
Local Open Scope Z_scope.

(* ---------- UTF-8 (well-formed input only; the scanner is the one of Fold/FoldDefs.v) ---------- *)
Fixpoint cps_of_utf8_fuel (fuel : nat) (bs : list Z) : option (list Z) :=
  match bs with
  | [] => Some []
  | _ =>
    match fuel with
    | O => None
    | S f =>
      match decode_utf8 bs with
      | None => None
      | Some (c, n) =>
        match cps_of_utf8_fuel f (skipn (Z.to_nat n) bs) with
        | Some r => Some (c :: r)
        | None => None
        end
      end
    end
  end.
Definition cps_of_utf8 (bs : list Z) : option (list Z) := cps_of_utf8_fuel (length bs) bs.

Definition utf8_of_cp (c : Z) : list Z :=
  if c <? 128 then [c]
  else if c <? 2048 then [192 + c / 64; 128 + c mod 64]
  else if c <? 65536 then [224 + c / 4096; 128 + (c / 64) mod 64; 128 + c mod 64]
  else [240 + c / 262144; 128 + (c / 4096) mod 64; 128 + (c / 64) mod 64; 128 + c mod 64].
Definition utf8_of_cps (cs : list Z) : list Z := flat_map utf8_of_cp cs.

Fixpoint bytes_eqb (a b : list Z) : bool :=
  match a, b with
  | [], [] => true
  | x :: a', y :: b' => (x =? y) && bytes_eqb a' b'
  | _, _ => false
  end.

