(* C11 -- proofs about Sys/WrapperIODefs.v *)
From PP Require Import Sys.WrapperIODefs Sys.ExitProofs.
From Coq Require Import Lia.
Local Open Scope Z_scope.

Lemma bs_write_all_sound pieces : forall s orc, sound (bs_write_all s pieces orc) orc.
Proof.
  induction pieces as [|p r IH]; intros s orc; simpl; [apply ret_sound|].
  apply bind_sound; [apply bs_write_sound|]. intros; apply IH.
Qed.

Lemma bs_write_all_io pieces : forall s orc r evs orc', bs_write_all s pieces orc = (r, evs, orc') ->
  wr_spec (bs_fd s) evs /\
  (forall s', r = Val s' -> bs_fd s' = bs_fd s /\ accepted (bs_fd s) evs ++ bs_buf s' = bs_buf s ++ concat pieces).
Proof.
  induction pieces as [|p rest IH]; intros s orc r evs orc' E; simpl in E.
  - inversion E; subst. split; [apply wr_spec_nil|]. intros s' H. inversion H; subst. simpl. rewrite app_nil_r. auto.
  - apply bind_inv in E. destruct E as [(s1 & ev1 & orc1 & ev2 & Em & Ek & Ee)|(r1 & Em & Hv & Hr)].
    + apply bs_write_io in Em. destruct Em as (W1 & A1). destruct (A1 s1 eq_refl) as (F1 & C1).
      destruct (IH _ _ _ _ _ Ek) as (W2 & A2). rewrite F1 in *. subst evs.
      split; [apply wr_spec_app; assumption|]. intros s' H. destruct (A2 s' H) as (F2 & C2). split; [exact F2|].
      rewrite accepted_app, <- app_assoc, C2, app_assoc, C1. simpl concat. rewrite <- app_assoc. reflexivity.
    + apply bs_write_io in Em. destruct Em as (W1 & A1). split; [exact W1|]. intros s' H. subst r. destruct r1; simpl in *; discriminate.
Qed.

Lemma feeder_sound wr fd sent orc : sound (feeder wr fd sent orc) orc.
Proof.
  unfold feeder. apply bind_sound; [apply bs_write_all_sound|]. intros s orc1 _.
  apply bind_sound; [destruct (explicit_flush wr); [apply bs_flush_sound|apply ret_sound]|]. intros; apply bs_destroy_sound.
Qed.

Lemma bs_flush_buf s orc s' evs orc' : bs_flush s orc = (Val s', evs, orc') -> bs_buf s' = [].
Proof.
  unfold bs_flush. intros E.
  apply bind_inv in E. destruct E as [(s1 & ev1 & orc1 & ev2 & Em & Ek & Ee)|(r1 & Em & Hv & Hr)]; [|destruct r1; simpl in *; discriminate].
  apply SpillBuffer_io in Em. destruct Em as (_ & Q). destruct (Q s1 eq_refl) as (_ & B & _).
  apply bind_inv in Ek. destruct Ek as [(a & ev3 & orc3 & ev4 & Em2 & Ek2 & Ee2)|(r2 & Em2 & Hv2 & Hr2)]; [|destruct r2; simpl in *; discriminate].
  inversion Ek2; subst. exact B.
Qed.

Lemma feeder_io wr fd sent orc u evs orc' : feeder wr fd sent orc = (Val u, evs, orc') -> accepted fd evs = concat sent.
Proof.
  unfold feeder. intros E.
  apply bind_inv in E. destruct E as [(s1 & ev1 & orc1 & ev2 & Em & Ek & Ee)|(r1 & Em & Hv & Hr)]; [|destruct r1; simpl in *; discriminate].
  apply bs_write_all_io in Em. simpl bs_fd in Em. destruct Em as (W1 & A1). destruct (A1 s1 eq_refl) as (F1 & C1). simpl in C1.
  apply bind_inv in Ek. destruct Ek as [(s2 & ev3 & orc3 & ev4 & Em2 & Ek2 & Ee2)|(r2 & Em2 & Hv2 & Hr2)]; [|destruct r2; simpl in *; discriminate].
  subst evs ev2. rewrite !accepted_app. destruct u.
  destruct (explicit_flush wr).
  - pose proof (bs_flush_buf _ _ _ _ _ Em2) as Hb.
    apply bs_flush_io in Em2. rewrite F1 in Em2. destruct Em2 as (W2 & A2). destruct (A2 s2 eq_refl) as (F2 & C2).
    apply bs_destroy_io in Ek2. rewrite F2 in Ek2. destruct Ek2 as (W3 & A3).
    rewrite (A3 eq_refl), Hb, C2, app_nil_r. exact C1.
  - assert (s2 = s1 /\ ev3 = []) as [Hs2 He3] by (unfold ret in Em2; inversion Em2; auto). rewrite Hs2 in *. rewrite He3.
    apply bs_destroy_io in Ek2. rewrite F1 in Ek2. destruct Ek2 as (W3 & A3).
    rewrite (A3 eq_refl). simpl. exact C1.
Qed.

Lemma collector_sound wr needs lines records orc :
  match collector wr needs lines records orc with
  | (r, evs, _) => r <> Fuel /\ (is_val r = true -> any_failed evs = false)
  end.
Proof.
  assert (forall (m : M unit), sound (m orc) orc ->
          match m orc with (r, evs, _) => r <> Fuel /\ (is_val r = true -> any_failed evs = false) end) as Hgen.
  { intros m Hs. destruct (m orc) as [[r evs] o]. simpl in Hs. destruct Hs as (H1 & H2 & _). split; [exact H1|].
    intros Hv. rewrite Hv in H2. destruct (any_failed evs); simpl in *; congruence. }
  unfold collector. destruct (collect needs lines) as [rest|]; [|split; [congruence|discriminate]].
  destruct wr.
  - apply Hgen. apply bind_sound; [apply bs_write_all_sound|]. intros; apply bs_destroy_sound.
  - apply Hgen. apply bind_sound; [apply bs_write_all_sound|]. intros; apply bs_destroy_sound.
  - destruct (0 <? rest)%nat eqn:E.
    + unfold bind. pose proof (bs_write_all_sound records (mkBS 1 []) orc) as Hs.
      destruct (bs_write_all (mkBS 1 []) records orc) as [[r ev] orc1]. simpl in Hs. destruct Hs as (H1 & _).
      destruct r; simpl; split; try congruence; discriminate.
    + apply Hgen. apply bind_sound; [apply bs_write_all_sound|]. intros; apply bs_destroy_sound.
Qed.

Lemma collector_io wr needs lines records orc u evs orc' : collector wr needs lines records orc = (Val u, evs, orc') ->
  accepted 1 evs = concat records /\ exists rest, collect needs lines = Some rest /\ (wr = B64filter -> rest = 0%nat).
Proof.
  unfold collector. destruct (collect needs lines) as [rest|]; [|discriminate]. intros E.
  apply bind_inv in E. destruct E as [(s1 & ev1 & orc1 & ev2 & Em & Ek & Ee)|(r1 & Em & Hv & Hr)]; [|destruct r1; simpl in *; discriminate].
  apply bs_write_all_io in Em. simpl bs_fd in Em. destruct Em as (W1 & A1). destruct (A1 s1 eq_refl) as (F1 & C1). simpl in C1.
  assert (bs_destroy s1 orc1 = (Val u, ev2, orc') /\ (wr = B64filter -> rest = 0%nat)) as [Ed Hrest].
  { destruct wr; try (split; [exact Ek|discriminate]).
    destruct (0 <? rest)%nat eqn:E0; [discriminate|]. split; [exact Ek|]. intros _. apply Nat.ltb_ge in E0. lia. }
  apply bs_destroy_io in Ed. rewrite F1 in Ed. destruct Ed as (W3 & A3). destruct u. subst evs.
  split; [|exists rest; auto]. rewrite accepted_app, (A3 eq_refl). exact C1.
Qed.

Theorem wrapper_io_spec_proof : forall wr fd_child sent records needs child_lines t orc_f orc_c st evf evc,
  wrapper_io_run wr fd_child sent records needs child_lines t orc_f orc_c = (st, evf, evc) ->
  st <> StFuel /\
  (any_failed evf = true \/ any_failed evc = true -> st = Signaled SIGABRT) /\
  (st = Exited 0 ->
     any_failed evf = false /\ any_failed evc = false /\
     accepted fd_child evf = concat sent /\ accepted 1 evc = concat records /\
     Wait (wstatus t) mod 256 = 0 /\ exists rest, collect needs child_lines = Some rest /\ (wr = B64filter -> rest = 0%nat)).
Proof.
  intros wr fd sent records needs lines t orc_f orc_c st evf evc. unfold wrapper_io_run.
  pose proof (feeder_sound wr fd sent orc_f) as Hf.
  destruct (feeder wr fd sent orc_f) as [[rf ef] of'] eqn:Ef. simpl in Hf. destruct Hf as (Hf1 & Hf2 & _).
  pose proof (collector_sound wr needs lines records orc_c) as Hc.
  destruct (collector wr needs lines records orc_c) as [[rc ec] oc'] eqn:Ec.
  assert (rc <> Fuel /\ (is_val rc = true -> any_failed ec = false)) as (Hc1 & Hc2) by exact Hc.
  destruct rf as [uf| | |]; try congruence; destruct rc as [uc| | |]; try congruence; intros H; inversion H; subst st evf evc; clear H;
    simpl in Hf2; try (assert (any_failed ef = true) as Hfe by (destruct (any_failed ef); simpl in *; congruence)).
  - assert (any_failed ef = false) as Hfe by (destruct (any_failed ef); simpl in *; congruence).
    pose proof (Hc2 eq_refl) as Hce.
    split; [discriminate|]. split; [intros [H|H]; congruence|].
    intros Hst. inversion Hst as [Hw].
    destruct (collector_io _ _ _ _ _ _ _ _ Ec) as (Ha & rest & Hr & Hb).
    repeat split; auto. eapply feeder_io; eauto. exists rest; auto.
  - split; [discriminate|]. split; [reflexivity|discriminate].
  - split; [discriminate|]. split; [reflexivity|discriminate].
  - split; [discriminate|]. split; [reflexivity|discriminate].
  - split; [discriminate|]. split; [reflexivity|discriminate].
  - split; [discriminate|]. split; [reflexivity|discriminate].
  - split; [discriminate|]. split; [reflexivity|discriminate].
  - split; [discriminate|]. split; [reflexivity|discriminate].
  - split; [discriminate|]. split; [reflexivity|discriminate].
Qed.

(* the converse direction: nothing failed and the child answered exactly => the wrapper's status is
   what Wait makes of the child's wait status (in particular the child's own exit code) *)
Theorem wrapper_io_clean_proof : forall wr fd_child sent records needs child_lines rest t orc_f orc_c st evf evc,
  wrapper_io_run wr fd_child sent records needs child_lines t orc_f orc_c = (st, evf, evc) ->
  collect needs child_lines = Some rest -> (wr = B64filter -> rest = 0%nat) ->
  any_failed evf = false -> any_failed evc = false ->
  st = Exited (Wait (wstatus t) mod 256).
Proof.
  intros wr fd sent records needs lines rest t orc_f orc_c st evf evc. unfold wrapper_io_run.
  pose proof (feeder_sound wr fd sent orc_f) as Hf.
  destruct (feeder wr fd sent orc_f) as [[rf ef] of'] eqn:Ef. simpl in Hf. destruct Hf as (Hf1 & Hf2 & _).
  intros H Hcol Hb64.
  assert (sound (collector wr needs lines records orc_c) orc_c) as Hc.
  { unfold collector. rewrite Hcol. destruct wr.
    - apply bind_sound; [apply bs_write_all_sound|]. intros; apply bs_destroy_sound.
    - apply bind_sound; [apply bs_write_all_sound|]. intros; apply bs_destroy_sound.
    - rewrite (Hb64 eq_refl). apply bind_sound; [apply bs_write_all_sound|]. intros; apply bs_destroy_sound. }
  destruct (collector wr needs lines records orc_c) as [[rc ec] oc'] eqn:Ec. simpl in Hc. destruct Hc as (Hc1 & Hc2 & _).
  destruct rf as [uf| | |]; try congruence; destruct rc as [uc| | |]; try congruence; inversion H; subst st evf evc; clear H;
    intros Hnf Hnc; simpl in Hf2, Hc2; try rewrite Hnf in Hf2; try rewrite Hnc in Hc2; try discriminate; reflexivity.
Qed.

(* ---- Launch *)
Lemma launch_wait_spec fd : forall fuel orc, (length orc < fuel)%nat ->
  match launch_wait fuel fd orc with
  | (r, evs, _) => (r = Val tt \/ r = Exn) /\ (r = Val tt <-> launch_ok evs = true) /\ evs <> []
  end.
Proof.
  induction fuel as [|f IH]; intros orc Hlt; [lia|]. cbn [launch_wait].
  destruct (sys_shape OpRead fd 4 [] orc) as (o & orc1 & Es & Hl & Hd & Hn). rewrite Es.
  destruct o as [n d|e].
  - destruct (n =? 0) eqn:E; unfold launch_ok; simpl; rewrite E; repeat split; auto; try congruence; try discriminate.
  - destruct (zmem e launch_retry_errnos) eqn:Ez.
    + assert (orc <> []) as Hne by (intro H0; specialize (Hd H0); discriminate).
      specialize (Hn Hne). specialize (IH orc1 ltac:(lia)).
      destruct (launch_wait f fd orc1) as [[r2 ev2] orc2]. destruct IH as (H1 & H2 & H3).
      split; [exact H1|]. split; [|destruct ev2; simpl; congruence].
      rewrite H2. unfold launch_ok. simpl rev. destruct (rev ev2) as [|x l] eqn:Er.
      * apply (f_equal (@rev event)) in Er. rewrite rev_involutive in Er. simpl in Er. congruence.
      * simpl. reflexivity.
    + unfold launch_ok; simpl; repeat split; auto; try congruence; try discriminate.
Qed.

Theorem launch_spec_proof : forall words fd orc after st evs,
  launch_status words fd orc after = (st, evs) ->
  ((words = 0%nat /\ launch_checks_command = true) \/ launch_ok evs = false -> st = Signaled SIGABRT) /\
  (launch_ok evs = true -> st = after).
Proof.
  intros words fd orc after st evs. unfold launch_status, Launch.
  destruct (launch_checks_command && (words =? 0)%nat) eqn:Ec.
  - intros H. inversion H; subst. simpl. split; [reflexivity|]. unfold launch_ok. simpl. discriminate.
  - pose proof (launch_wait_spec fd (S (length orc)) orc ltac:(lia)) as Hs.
    destruct (launch_wait (S (length orc)) fd orc) as [[r ev] orc']. destruct Hs as (H1 & H2 & H3).
    destruct H1 as [Hr|Hr]; subst r; intros H; inversion H; subst st evs; clear H.
    + assert (launch_ok ev = true) as Hok by (apply H2; reflexivity).
      split; [|auto].
      intros [[Hw Hc]|Hf]; [subst words; rewrite Hc in Ec; simpl in Ec; discriminate|congruence].
    + simpl. split; [reflexivity|]. intros Hok. apply H2 in Hok. discriminate.
Qed.
