(* C11 -- one output of shard: util::ThreadedBufferedStream<util::WriteCompressed> with
   compression NONE, end to end: the producer side (C20's model ToStr/ToStringDefs.t_run: what
   blocks reach the writer thread) composed with the writer thread and the destructors over the
   OS oracle of Sys/ExitDefs.v.  The hand-off between the two threads (BlockQueue) is assumed to be
   an exactly-once FIFO (property C16).  No proofs here. *)
From PP Require Export Sys.ExitDefs ToStr.ToStringDefs.
Local Open Scope Z_scope.

(* thread_: for (Lease lease(queue_.Out()); lease.Size(); lease.SuccessNext()) writer_.write(lease.Base(), lease.Size());
            writer_.flush();                       WriteUncompressed -> FileWriter: WriteOrThrow / FSyncIgnoreUnsupported *)
Fixpoint writer_blocks (fd : Z) (blocks : list (list Z)) : M unit :=
  match blocks with
  | [] => ret tt
  | b :: r => bind (WriteOrThrow fd b) (fun _ => writer_blocks fd r)
  end.

Definition writer_thread (fd : Z) (blocks : list (list Z)) : M unit :=
  bind (writer_blocks fd blocks) (fun _ => FSyncIgnoreUnsupported fd).

(* shard: out[i] << line << '\n' for every line routed to output i *)
Definition line_ops (lines : list (list Z)) : list sop := flat_map (fun l => [SWrite l; SPut 10]) lines.

(* the stream object's life: producer ops, ~ThreadedBufferedStream (spill, poison, join), then the
   members: ~WriteCompressed { flush(); } (a destructor: noexcept), ~FileWriter -> ~scoped_fd *)
Definition threaded_file (fd : Z) (lines : list (list Z)) : M unit :=
  match t_run block_cap [] (line_ops lines) with
  | TOk b blocks =>
    bind (writer_thread fd (blocks ++ t_destroy b)) (fun _ =>
    bind (in_destructor (FSyncIgnoreUnsupported fd)) (fun _ => close_scoped_fd fd))
  | _ => fun orc => (Fuel, [], orc)          (* unreachable: C20_threaded_stream_safe *)
  end.

(* an exception in the writer thread is uncaught there: std::terminate *)
Definition threaded_file_run (fd : Z) (lines : list (list Z)) (orc : list outcome) : status * list event :=
  match threaded_file fd lines orc with
  | (Val _, ev, _) => (Exited 0, ev)
  | (r, ev, _) => (status_of (cast r), ev)
  end.

Definition file_content (lines : list (list Z)) : list Z := concat (map (fun l => l ++ [10]) lines).
