(* C11 -- proofs about Sys/ThreadedIODefs.v *)
From PP Require Import Sys.ThreadedIODefs Sys.ExitProofs ToStr.ToStringProofs.
From Coq Require Import Lia.
Local Open Scope Z_scope.

Lemma writer_blocks_sound fd blocks : forall orc, sound (writer_blocks fd blocks orc) orc.
Proof.
  induction blocks as [|b r IH]; intros orc; simpl; [apply ret_sound|].
  apply bind_sound; [apply WriteOrThrow_sound|]. intros; apply IH.
Qed.

Lemma writer_blocks_io fd blocks : forall orc u evs orc', writer_blocks fd blocks orc = (Val u, evs, orc') ->
  accepted fd evs = concat blocks.
Proof.
  induction blocks as [|b r IH]; intros orc u evs orc' E; simpl in E.
  - inversion E; subst. reflexivity.
  - apply bind_inv in E. destruct E as [(a & ev1 & orc1 & ev2 & Em & Ek & Ee)|(r1 & Em & Hv & Hr)]; [|destruct r1; simpl in *; discriminate].
    unfold WriteOrThrow in Em. apply write_or_throw_io in Em. destruct Em as (W & A). destruct a.
    subst evs. rewrite accepted_app, (A eq_refl), (IH _ _ _ _ Ek). reflexivity.
Qed.

Lemma line_ops_bytes lines : flat_map sop_bytes (line_ops lines) = file_content lines.
Proof.
  unfold line_ops, file_content. induction lines as [|l r IH]; simpl; [reflexivity|].
  rewrite IH. rewrite <- app_assoc. reflexivity.
Qed.

Lemma line_ops_ok lines : Forall (sop_ok 1) (line_ops lines).
Proof.
  unfold line_ops. induction lines as [|l r IH]; simpl; [constructor|].
  constructor; [exact I|]. constructor; [exact I|]. exact IH.
Qed.

Lemma block_cap_ge_1 : 1 <= 1 <= block_cap.
Proof. vm_compute. split; congruence. Qed.

Theorem threaded_file_spec_proof : forall fd lines orc st evs,
  threaded_file_run fd lines orc = (st, evs) ->
  st <> StFuel /\
  (any_failed evs = true -> st = Signaled SIGABRT) /\
  (any_failed evs = false -> st = Exited 0) /\
  (st = Exited 0 -> any_failed evs = false /\ accepted fd evs = file_content lines).
Proof.
  intros fd lines orc st evs. unfold threaded_file_run, threaded_file.
  destruct (t_stream_safe_proof block_cap 1 (line_ops lines) block_cap_ge_1 (line_ops_ok lines) [] ltac:(vm_compute; congruence))
    as (b & w & Et & Lb & _ & Fb & Cb).
  rewrite Et. simpl app in Cb. rewrite line_ops_bytes in Cb.
  set (blocks := w ++ t_destroy b) in *.
  assert (sound (bind (writer_thread fd blocks) (fun _ => bind (in_destructor (FSyncIgnoreUnsupported fd)) (fun _ => close_scoped_fd fd)) orc) orc) as Hs.
  { apply bind_sound.
    - unfold writer_thread. apply bind_sound; [apply writer_blocks_sound|]. intros; apply FSync_sound.
    - intros _ orc1 _. apply bind_sound; [apply in_destructor_sound, FSync_sound|]. intros; apply close_sound. }
  destruct (bind (writer_thread fd blocks) _ orc) as [[r ev] orc'] eqn:E. simpl in Hs. destruct Hs as (Hf & Hv & _).
  destruct r as [u| | |]; try congruence; intros H; inversion H; subst st evs; clear H; simpl in Hv.
  - assert (any_failed ev = false) as Hnf by (destruct (any_failed ev); simpl in *; congruence).
    repeat split; try congruence.
    apply bind_inv in E. destruct E as [(a & ev1 & orc1 & ev2 & Em & Ek & Ee)|(r1 & Em & Hv1 & Hr1)]; [|destruct r1; simpl in *; discriminate].
    unfold writer_thread in Em. apply bind_inv in Em.
    destruct Em as [(a2 & ev3 & orc3 & ev4 & Em2 & Ek2 & Ee2)|(r2 & Em2 & Hv2 & Hr2)]; [|destruct r2; simpl in *; discriminate].
    pose proof (writer_blocks_io _ _ _ _ _ _ Em2) as Hacc.
    pose proof (fsync_io _ _ _ _ _ Ek2 fd) as [_ Hf1].
    apply bind_inv in Ek. destruct Ek as [(a5 & ev5 & orc5 & ev6 & Em5 & Ek5 & Ee5)|(r5 & Em5 & Hv5 & Hr5)]; [|destruct r5; simpl in *; discriminate].
    apply in_destructor_inv in Em5. destruct Em5 as (r0 & Em5 & Hr0). rewrite (Hr0 a5 eq_refl) in Em5.
    pose proof (fsync_io _ _ _ _ _ Em5 fd) as [_ Hf2].
    pose proof (close_io _ _ _ _ _ Ek5 fd) as [_ Hc].
    subst ev ev1 ev2. rewrite !accepted_app, Hacc, Hf1, Hf2, Hc, !app_nil_r. exact Cb.
  - assert (any_failed ev = true) as Hnf by (destruct (any_failed ev); simpl in *; congruence).
    simpl. repeat split; try congruence; discriminate.
  - assert (any_failed ev = true) as Hnf by (destruct (any_failed ev); simpl in *; congruence).
    simpl. repeat split; try congruence; discriminate.
Qed.
