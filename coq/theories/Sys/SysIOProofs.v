(* Proofs about the transfer loops of util/file.cc over the scripted OS (C03; the
   read half is reused by the FilePiece proofs of C02). *)
From PP Require Import Sys.SysIODefs.
From Coq Require Import Lia Arith.
Local Open Scope nat_scope.

Lemma granted_le oc n : granted oc n <= n.
Proof. destruct oc; unfold granted; lia. Qed.

Lemma granted_pos oc n : 1 <= n -> 1 <= granted oc n.
Proof. destruct oc; unfold granted; lia. Qed.

Global Arguments granted : simpl never.

Lemma firstn_nil_inv {A} m (l : list A) : 1 <= m -> firstn m l = [] -> l = [].
Proof. intros Hm H. destruct l; [reflexivity|]. destruct m; [lia|]. simpl in H. discriminate. Qed.

Lemma firstn_app_le {A} (l1 l2 : list A) n : length l1 <= n -> firstn n (l1 ++ l2) = l1 ++ firstn (n - length l1) l2.
Proof. intros H. rewrite firstn_app. rewrite firstn_all2 by lia. reflexivity. Qed.

Lemma skipn_app_le {A} (l1 l2 : list A) n : length l1 <= n -> skipn n (l1 ++ l2) = skipn (n - length l1) l2.
Proof. intros H. rewrite skipn_app. rewrite skipn_all2 by lia. reflexivity. Qed.

(* what the next script entry is, for a script without Err *)
Lemma next_outcome_cases o :
  no_err (os_script o) = true ->
  exists oc rest, next_outcome o = (oc, rest) /\ no_err rest = true /\ (forall e, oc <> Err e) /\
    length rest <= length (os_script o) /\ (oc = Eintr -> S (length rest) = length (os_script o)).
Proof.
  intros H. unfold next_outcome. destruct (os_script o) as [|oc r] eqn:E.
  - exists Full, []. repeat split; try discriminate; auto.
  - simpl in H. exists oc, r. destruct oc; try discriminate; repeat split; simpl; try discriminate; auto.
Qed.

(* ---- PartialRead: returns a non-empty prefix of what the source still holds, or [] exactly at end of input ---- *)
Lemma partial_read_loop_ok : forall fuel n o,
  no_err (os_script o) = true -> length (os_script o) < fuel ->
  exists l o', partial_read_loop fuel n o = (Ok l, o') /\ os_src o = l ++ os_src o' /\ length l <= n /\
    (1 <= n -> l = [] -> os_src o = []) /\ no_err (os_script o') = true /\
    length (os_script o') <= length (os_script o) /\ os_sink o' = os_sink o.
Proof.
  induction fuel as [|f IH]; intros n o Hne Hf; [lia|].
  destruct (next_outcome_cases o Hne) as (oc & rest & Hn & Hr & Hoc & Hlen & Hei).
  simpl. unfold sys_read. rewrite Hn.
  destruct oc as [|k| |e].
  - eexists _, _. split; [reflexivity|]. simpl.
    pose proof (granted_le Full n). pose proof (granted_pos Full n).
    repeat split; auto.
    + symmetry. apply firstn_skipn.
    + rewrite firstn_length. lia.
    + intros H1 H2. eapply firstn_nil_inv; [|exact H2]. auto.
  - eexists _, _. split; [reflexivity|]. simpl.
    pose proof (granted_le (Short k) n). pose proof (granted_pos (Short k) n).
    repeat split; auto.
    + symmetry. apply firstn_skipn.
    + rewrite firstn_length. lia.
    + intros H1 H2. eapply firstn_nil_inv; [|exact H2]. auto.
  - specialize (Hei eq_refl).
    destruct (IH n (mkOs (os_src o) rest ((n, (-1)%Z) :: os_trace o) (os_sink o))) as (l & o' & E & H1 & H2 & H3 & H4 & H5 & H6).
    + exact Hr.
    + simpl. lia.
    + exists l, o'. simpl in *. repeat split; auto. lia.
  - exfalso. eapply Hoc. reflexivity.
Qed.

Lemma partial_read_ok n o :
  no_err (os_script o) = true ->
  exists l o', partial_read n o = (Ok l, o') /\ os_src o = l ++ os_src o' /\ length l <= n /\
    (1 <= n -> l = [] -> os_src o = []) /\ no_err (os_script o') = true /\
    length (os_script o') <= length (os_script o) /\ os_sink o' = os_sink o.
Proof. intros H. apply partial_read_loop_ok; [exact H|unfold eintr_fuel; lia]. Qed.

(* ---- ReadOrEOF: exactly the next `amount` bytes, or everything that is left ---- *)
Lemma read_or_eof_loop_ok : forall fuel remaining acc o,
  no_err (os_script o) = true -> remaining < fuel ->
  exists l o', read_or_eof_loop fuel remaining acc o = (Ok (acc ++ l), o') /\ os_src o = l ++ os_src o' /\
    length l <= remaining /\ (length l < remaining -> os_src o' = []) /\ no_err (os_script o') = true /\
    length (os_script o') <= length (os_script o) /\ os_sink o' = os_sink o.
Proof.
  induction fuel as [|f IH]; intros remaining acc o Hne Hf; [lia|].
  destruct remaining as [|r].
  - exists [], o. simpl. rewrite app_nil_r. repeat split; auto; lia.
  - cbn [read_or_eof_loop].
    destruct (partial_read_ok (S r) o Hne) as (l & o1 & E & H1 & H2 & H3 & H4 & H5 & H6).
    rewrite E. destruct l as [|b l].
    + exists [], o1. rewrite app_nil_r. simpl in *. repeat split; auto; try lia.
      intros _. rewrite H3 in H1 by (auto; lia). symmetry. exact H1.
    + destruct (IH (S r - length (b :: l)) (acc ++ b :: l) o1 H4) as (l2 & o2 & E2 & G1 & G2 & G3 & G4 & G5 & G6).
      { simpl in *. lia. }
      exists ((b :: l) ++ l2), o2. rewrite E2. rewrite <- app_assoc. split; [reflexivity|].
      repeat split; auto.
      * rewrite H1, G1. rewrite <- app_assoc. reflexivity.
      * rewrite app_length. simpl in *. lia.
      * intros HH. apply G3. rewrite app_length in HH. simpl in *. lia.
      * lia.
      * congruence.
Qed.

Lemma read_or_eof_ok amount o :
  no_err (os_script o) = true ->
  exists l o', read_or_eof amount o = (Ok l, o') /\ os_src o = l ++ os_src o' /\
    length l <= amount /\ (length l < amount -> os_src o' = []) /\ no_err (os_script o') = true /\
    length (os_script o') <= length (os_script o) /\ os_sink o' = os_sink o.
Proof.
  intros H. destruct (read_or_eof_loop_ok (S amount) amount [] o H) as (l & o' & E & R); [lia|].
  exists l, o'. split; [exact E|exact R].
Qed.

(* the bytes returned are exactly the first min(amount, |source|) source bytes *)
Lemma read_or_eof_exact amount o :
  no_err (os_script o) = true ->
  exists o', read_or_eof amount o = (Ok (firstn amount (os_src o)), o') /\ os_src o' = skipn amount (os_src o) /\
             no_err (os_script o') = true /\ os_sink o' = os_sink o.
Proof.
  intros H. destruct (read_or_eof_ok amount o H) as (l & o' & E & H1 & H2 & H3 & H4 & H5 & H6).
  assert (l = firstn amount (os_src o) /\ os_src o' = skipn amount (os_src o)) as [Hl Hs].
  { rewrite H1. destruct (Nat.eq_dec (length l) amount) as [Heq|Hne].
    - subst amount. rewrite firstn_app, Nat.sub_diag, firstn_all. simpl. rewrite app_nil_r.
      rewrite skipn_app, Nat.sub_diag, skipn_all. simpl. auto.
    - rewrite H3 by lia. rewrite app_nil_r. rewrite firstn_all2, skipn_all2 by lia. auto. }
  exists o'. subst l. repeat split; auto.
Qed.

(* ---- ReadOrThrow: the next `amount` bytes, or EndOfFileException when fewer remain ---- *)
Lemma read_or_throw_loop_ok : forall fuel amount acc o,
  no_err (os_script o) = true -> amount < fuel -> amount <= length (os_src o) ->
  exists o', read_or_throw_loop fuel amount acc o = (Ok (acc ++ firstn amount (os_src o)), o') /\
    os_src o' = skipn amount (os_src o) /\ no_err (os_script o') = true /\ os_sink o' = os_sink o.
Proof.
  induction fuel as [|f IH]; intros amount acc o Hne Hf Hlen; [lia|].
  destruct amount as [|r].
  - exists o. simpl. rewrite app_nil_r. auto.
  - cbn [read_or_throw_loop].
    destruct (partial_read_ok (S r) o Hne) as (l & o1 & E & H1 & H2 & H3 & H4 & H5 & H6).
    rewrite E. destruct l as [|b l].
    + exfalso. rewrite H3 in Hlen by (auto; lia). simpl in Hlen. lia.
    + destruct (IH (S r - length (b :: l)) (acc ++ b :: l) o1 H4) as (o2 & E2 & G1 & G2 & G3).
      { simpl in *. lia. }
      { rewrite H1 in Hlen. rewrite app_length in Hlen. simpl in *. lia. }
      assert (Hle : length (b :: l) <= S r) by exact H2.
      exists o2. rewrite E2. split.
      * f_equal. rewrite <- app_assoc. f_equal. rewrite H1.
        rewrite firstn_app_le by exact Hle. reflexivity.
      * repeat split; auto; try congruence.
        rewrite G1, H1. rewrite skipn_app_le by exact Hle. reflexivity.
Qed.

Lemma read_or_throw_ok amount o :
  no_err (os_script o) = true -> amount <= length (os_src o) ->
  exists o', read_or_throw amount o = (Ok (firstn amount (os_src o)), o') /\
    os_src o' = skipn amount (os_src o) /\ no_err (os_script o') = true /\ os_sink o' = os_sink o.
Proof.
  intros H Hl. destruct (read_or_throw_loop_ok (S amount) amount [] o H) as (o' & E & R); [lia|exact Hl|].
  exists o'. split; [exact E|exact R].
Qed.

(* ---- WriteOrThrow: the OS accepts exactly the data, once, in order ---- *)
Lemma write_retry_ok : forall fuel data o,
  no_err (os_script o) = true -> length (os_script o) < fuel -> data <> [] ->
  exists l o', write_retry fuel data o = (Ok l, o') /\ l <> [] /\ data = l ++ skipn (length l) data /\
    os_sink o' = os_sink o ++ l /\ os_src o' = os_src o /\ no_err (os_script o') = true /\
    length (os_script o') <= length (os_script o).
Proof.
  induction fuel as [|f IH]; intros data o Hne Hf Hd; [lia|].
  destruct (next_outcome_cases o Hne) as (oc & rest & Hn & Hr & Hoc & Hlen & Hei).
  assert (Hpos : 1 <= length data) by (destruct data; [congruence|simpl; lia]).
  simpl. unfold sys_write. rewrite Hn.
  assert (Hnn : forall oc', firstn (granted oc' (length data)) data <> []).
  { intros oc' Hc. apply firstn_nil_inv in Hc; [congruence|]. apply granted_pos. exact Hpos. }
  assert (Hdec : forall oc', data = firstn (granted oc' (length data)) data ++
                   skipn (length (firstn (granted oc' (length data)) data)) data).
  { intros oc'. rewrite firstn_length. pose proof (granted_le oc' (length data)).
    rewrite Nat.min_l by lia. symmetry. apply firstn_skipn. }
  destruct oc as [|k| |e].
  - eexists _, _. split; [reflexivity|]. cbn [os_sink os_src os_script].
    split; [apply (Hnn Full)|]. split; [apply (Hdec Full)|]. auto.
  - eexists _, _. split; [reflexivity|]. cbn [os_sink os_src os_script].
    split; [apply (Hnn (Short k))|]. split; [apply (Hdec (Short k))|]. auto.
  - specialize (Hei eq_refl).
    destruct (IH data (mkOs (os_src o) rest ((length data, (-1)%Z) :: os_trace o) (os_sink o))) as (l & o' & E & H1 & H2 & H3 & H4 & H5 & H6).
    + exact Hr.
    + simpl. lia.
    + exact Hd.
    + exists l, o'. simpl in *. repeat split; auto. lia.
  - exfalso. eapply Hoc. reflexivity.
Qed.

Lemma write_or_throw_loop_ok : forall fuel data o,
  no_err (os_script o) = true -> length data < fuel ->
  exists o', write_or_throw_loop fuel data o = (Ok tt, o') /\ os_sink o' = os_sink o ++ data /\
    os_src o' = os_src o /\ no_err (os_script o') = true /\ length (os_script o') <= length (os_script o).
Proof.
  induction fuel as [|f IH]; intros data o Hne Hf; [lia|].
  destruct data as [|b data].
  - exists o. simpl. rewrite app_nil_r. auto.
  - cbn [write_or_throw_loop].
    destruct (write_retry_ok (eintr_fuel o) (b :: data) o Hne) as (l & o1 & E & H1 & H2 & H3 & H4 & H5 & H6).
    { unfold eintr_fuel. lia. }
    { discriminate. }
    rewrite E.
    assert (Hl : (length l <? wr_min_progress) = false).
    { unfold wr_min_progress. apply Nat.ltb_ge. destruct l; [congruence|simpl; lia]. }
    rewrite Hl.
    assert (Hlen : length l <= length (b :: data)).
    { pose proof (f_equal (@length Z) H2) as HL. rewrite app_length in HL. lia. }
    destruct (IH (skipn (length l) (b :: data)) o1 H5) as (o2 & E2 & G1 & G2 & G3 & G4).
    { rewrite skipn_length. destruct l; [congruence|]. simpl in *. lia. }
    exists o2. rewrite E2. repeat split; auto; try congruence; try lia.
    rewrite G1, H3, <- app_assoc. f_equal. symmetry. exact H2.
Qed.

Lemma write_or_throw_ok data o :
  no_err (os_script o) = true ->
  exists o', write_or_throw data o = (Ok tt, o') /\ os_sink o' = os_sink o ++ data /\
    os_src o' = os_src o /\ no_err (os_script o') = true /\ length (os_script o') <= length (os_script o).
Proof. intros H. apply write_or_throw_loop_ok; [exact H|lia]. Qed.

(* ---- ErsatzPRead: exactly bytes [off, off+size) of the file ---- *)
Lemma ersatz_pread_loop_ok : forall fuel size off file acc o,
  no_err (os_script o) = true -> size + length (os_script o) < fuel -> off + size <= length file ->
  exists o', ersatz_pread_loop fuel size off file acc o = (Ok (acc ++ firstn size (skipn off file)), o') /\
    no_err (os_script o') = true /\ os_sink o' = os_sink o /\ os_src o' = os_src o.
Proof.
  induction fuel as [|f IH]; intros size off file acc o Hne Hf Hlen; [lia|].
  destruct size as [|r].
  - exists o. simpl. rewrite app_nil_r. auto.
  - cbn [ersatz_pread_loop]. unfold sys_pread.
    destruct (next_outcome_cases o Hne) as (oc & rest & Hn & Hr & Hoc & Hl & Hei). rewrite Hn.
    assert (Hdata : forall oc', (forall e, oc' <> Err e) -> oc' <> Eintr ->
              exists o', (let l := firstn (granted oc' (S r)) (skipn off file) in
                match l with
                | [] => (Fail EEndOfFile, mkOs (os_src o) rest ((S r, Z.of_nat (length l)) :: os_trace o) (os_sink o))
                | _ => ersatz_pread_loop f (S r - length l) (off + length l) file (acc ++ l)
                         (mkOs (os_src o) rest ((S r, Z.of_nat (length l)) :: os_trace o) (os_sink o))
                end) = (Ok (acc ++ firstn (S r) (skipn off file)), o') /\
                no_err (os_script o') = true /\ os_sink o' = os_sink o /\ os_src o' = os_src o).
    { intros oc' _ _. cbv zeta.
      pose proof (granted_le oc' (S r)) as Hg1. pose proof (granted_pos oc' (S r)) as Hg2.
      set (g := granted oc' (S r)) in *.
      assert (Hlg : length (firstn g (skipn off file)) = g) by (rewrite firstn_length, skipn_length; lia).
      destruct (firstn g (skipn off file)) as [|b l] eqn:El; [simpl in Hlg; lia|].
      rewrite <- El in *. rewrite Hlg.
      destruct (IH (S r - g) (off + g) file (acc ++ firstn g (skipn off file))
                  (mkOs (os_src o) rest ((S r, Z.of_nat g) :: os_trace o) (os_sink o))) as (o' & E & R); auto.
      { cbn [os_script]. lia. } { lia. }
      exists o'. rewrite E. split; [|exact R]. f_equal. f_equal. rewrite <- app_assoc. f_equal.
      rewrite <- (firstn_skipn g (firstn (S r) (skipn off file))).
      rewrite firstn_firstn. replace (Nat.min g (S r)) with g by lia. f_equal.
      rewrite skipn_firstn_comm. f_equal.
      clear. revert file. induction off as [|off IHo]; intros file; [reflexivity|].
      destruct file; simpl; [destruct g; reflexivity|apply IHo]. }
    destruct oc as [|k| |e].
    + apply Hdata; [exact Hoc|discriminate].
    + apply Hdata; [exact Hoc|discriminate].
    + specialize (Hei eq_refl).
      destruct (IH (S r) off file acc (mkOs (os_src o) rest ((S r, (-1)%Z) :: os_trace o) (os_sink o))) as (o' & E & R); auto.
      { cbn [os_script]. lia. }
      exists o'. split; [exact E|exact R].
    + exfalso. eapply Hoc. reflexivity.
Qed.

Lemma ersatz_pread_ok size off file o :
  no_err (os_script o) = true -> off + size <= length file ->
  exists o', ersatz_pread size off file o = (Ok (firstn size (skipn off file)), o') /\
    no_err (os_script o') = true /\ os_sink o' = os_sink o /\ os_src o' = os_src o.
Proof.
  intros H Hl. destruct (ersatz_pread_loop_ok (S size + length (os_script o)) size off file [] o H) as (o' & E & R); [lia|exact Hl|].
  exists o'. split; [exact E|exact R].
Qed.

(* ---- BufferedStream<FileWriter>: what reaches the descriptor is the concatenation of the writes ---- *)
Lemma bs_spill_ok b o : no_err (os_script o) = true ->
  exists o', bs_spill b o = (Ok (mkBs [] (bs_cap b)), o') /\ os_sink o' = os_sink o ++ bs_buf b /\
    no_err (os_script o') = true.
Proof.
  intros Hne. unfold bs_spill. destruct b as [buf cap]. simpl. destruct buf as [|x buf].
  - exists o. rewrite app_nil_r. auto.
  - destruct (write_or_throw_ok (x :: buf) o Hne) as (o' & E & H1 & H2 & H3 & H4). rewrite E.
    exists o'. auto.
Qed.

Lemma bs_write_ok data b o : no_err (os_script o) = true ->
  exists b' o', bs_write data b o = (Ok b', o') /\ os_sink o' ++ bs_buf b' = os_sink o ++ bs_buf b ++ data /\
    bs_cap b' = bs_cap b /\ no_err (os_script o') = true.
Proof.
  intros Hne. unfold bs_write.
  destruct (length (bs_buf b) + length data <=? bs_cap b).
  - eexists _, o. split; [reflexivity|]. simpl. auto.
  - destruct (bs_spill_ok b o Hne) as (o1 & E1 & S1 & N1). rewrite E1. cbn [bs_buf bs_cap].
    destruct (length (@nil Z) + length data <=? bs_cap b).
    + eexists _, o1. split; [reflexivity|]. cbn [bs_buf bs_cap]. rewrite S1, <- app_assoc. auto.
    + destruct (write_or_throw_ok data o1 N1) as (o2 & E2 & S2 & _ & N2 & _). rewrite E2.
      eexists _, o2. split; [reflexivity|]. cbn [bs_buf bs_cap]. rewrite S2, S1, app_nil_r, <- app_assoc. auto.
Qed.

Lemma bs_run_ok : forall ws b o, no_err (os_script o) = true ->
  exists b' o', bs_run ws b o = (Ok b', o') /\ os_sink o' = os_sink o ++ bs_buf b ++ concat ws /\
    no_err (os_script o') = true.
Proof.
  induction ws as [|w ws IH]; intros b o Hne.
  - simpl. unfold bs_flush. destruct (bs_spill_ok b o Hne) as (o' & E & S & N). rewrite E.
    eexists _, o'. rewrite app_nil_r. auto.
  - simpl. destruct (bs_write_ok w b o Hne) as (b1 & o1 & E1 & S1 & _ & N1). rewrite E1.
    destruct (IH b1 o1 N1) as (b2 & o2 & E2 & S2 & N2). rewrite E2.
    eexists _, o2. split; [reflexivity|]. split; [|exact N2].
    rewrite S2, app_assoc, S1, <- !app_assoc. reflexivity.
Qed.

Lemma skipn_add {A} (a b : nat) (l : list A) : skipn b (skipn a l) = skipn (a + b) l.
Proof.
  revert l. induction a as [|a IH]; intros l; [reflexivity|].
  destruct l as [|x l]; simpl; [destruct b; reflexivity|apply IH].
Qed.

(* ---- ErsatzPWrite: the file ends up with the data at [off, off+|data|), whatever the fragmentation ---- *)
Lemma overwrite_app file off l1 l2 :
  overwrite (overwrite file off l1) (off + length l1) l2 = overwrite file off (l1 ++ l2).
Proof.
  unfold overwrite.
  set (P := file ++ repeat 0%Z (off - length file)).
  assert (HP : off <= length P).
  { unfold P. rewrite app_length, repeat_length. lia. }
  set (F1 := firstn off P ++ l1 ++ skipn (off + length l1) P).
  assert (Hfo : length (firstn off P) = off) by (rewrite firstn_length; lia).
  assert (HF1 : off + length l1 <= length F1).
  { unfold F1. rewrite !app_length, Hfo. lia. }
  replace (off + length l1 - length F1) with 0 by lia. simpl repeat. rewrite app_nil_r.
  assert (H1 : firstn (off + length l1) F1 = firstn off P ++ l1).
  { unfold F1. rewrite app_assoc. rewrite firstn_app.
    replace (off + length l1 - length (firstn off P ++ l1)) with 0 by (rewrite app_length, Hfo; lia).
    simpl. rewrite app_nil_r. apply firstn_all2. rewrite app_length, Hfo. lia. }
  assert (H2 : skipn (off + length l1 + length l2) F1 = skipn (off + length (l1 ++ l2)) P).
  { unfold F1. rewrite app_assoc. rewrite skipn_app.
    rewrite skipn_all2 by (rewrite app_length, Hfo; lia). simpl.
    rewrite app_length, Hfo.
    replace (off + length l1 + length l2 - (off + length l1)) with (length l2) by lia.
    rewrite app_length. rewrite skipn_add. f_equal. lia. }
  rewrite H1, H2, <- !app_assoc. reflexivity.
Qed.

Lemma ersatz_pwrite_loop_ok : forall fuel data off file o,
  no_err (os_script o) = true -> length data + length (os_script o) < fuel -> data <> [] ->
  exists o', ersatz_pwrite_loop fuel data off file o = (Ok (overwrite file off data), o') /\
    no_err (os_script o') = true.
Proof.
  induction fuel as [|f IH]; intros data off file o Hne Hf Hd; [lia|].
  destruct data as [|b d]; [congruence|].
  cbn [ersatz_pwrite_loop]. unfold sys_pwrite.
  destruct (next_outcome_cases o Hne) as (oc & rest & Hn & Hr & Hoc & Hl & Hei). rewrite Hn.
  assert (Hdata : forall oc', exists o',
     (let l := firstn (granted oc' (length (b :: d))) (b :: d) in
      match l with
      | [] => (Fail EEndOfFile, mkOs (os_src o) rest ((length (b :: d), Z.of_nat (length l)) :: os_trace o) (os_sink o))
      | _ => ersatz_pwrite_loop f (skipn (length l) (b :: d)) (off + length l) (overwrite file off l)
               (mkOs (os_src o) rest ((length (b :: d), Z.of_nat (length l)) :: os_trace o) (os_sink o))
      end) = (Ok (overwrite file off (b :: d)), o') /\ no_err (os_script o') = true).
  { intros oc'. cbv zeta.
    pose proof (granted_le oc' (length (b :: d))) as Hg1.
    assert (Hg2 : 1 <= granted oc' (length (b :: d))) by (apply granted_pos; simpl; lia).
    set (g := granted oc' (length (b :: d))) in *.
    assert (Hlg : length (firstn g (b :: d)) = g) by (rewrite firstn_length; lia).
    destruct (firstn g (b :: d)) as [|x l] eqn:El; [simpl in Hlg; lia|].
    rewrite <- El in *. rewrite Hlg.
    destruct (skipn g (b :: d)) as [|y r] eqn:Es.
    - (* everything was accepted *)
      assert (Hall : firstn g (b :: d) = b :: d).
      { rewrite <- (firstn_skipn g (b :: d)) at 2. rewrite Es, app_nil_r. reflexivity. }
      rewrite Hall. destruct f; [cbn [os_script] in *; simpl in Hf; lia|].
      eexists. split; [reflexivity|]. exact Hr.
    - rewrite <- Es.
      destruct (IH (skipn g (b :: d)) (off + g) (overwrite file off (firstn g (b :: d)))
                  (mkOs (os_src o) rest ((length (b :: d), Z.of_nat g) :: os_trace o) (os_sink o))) as (o' & E & N); auto.
      { cbn [os_script]. rewrite skipn_length. lia. }
      { rewrite Es. discriminate. }
      exists o'. rewrite E. split; [|exact N]. f_equal. f_equal.
      replace (off + g) with (off + length (firstn g (b :: d))) by (rewrite Hlg; reflexivity).
      rewrite overwrite_app, firstn_skipn. reflexivity. }
  destruct oc as [|k| |e].
  - apply Hdata.
  - apply Hdata.
  - specialize (Hei eq_refl).
    destruct (IH (b :: d) off file (mkOs (os_src o) rest ((length (b :: d), (-1)%Z) :: os_trace o) (os_sink o))) as (o' & E & N); auto.
    { cbn [os_script]. lia. }
    exists o'. split; [exact E|exact N].
  - exfalso. eapply Hoc. reflexivity.
Qed.

Lemma ersatz_pwrite_ok data off file o :
  no_err (os_script o) = true -> data <> [] ->
  exists o', ersatz_pwrite data off file o = (Ok (overwrite file off data), o') /\ no_err (os_script o') = true.
Proof. intros H Hd. apply ersatz_pwrite_loop_ok; [exact H|lia|exact Hd]. Qed.

(* ---- ThreadedBufferedStream data path ---- *)
Lemma tbs_write_ok : forall fuel data buf bsize,
  1 <= bsize -> length buf <= bsize ->
  length data + (if length buf =? bsize then 1 else 0) < fuel ->
  exists blocks buf', tbs_write fuel data buf bsize = Ok (blocks, buf') /\
    concat blocks ++ buf' = buf ++ data /\ length buf' <= bsize /\
    Forall (fun b => length b = bsize) blocks.
Proof.
  induction fuel as [|f IH]; intros data buf bsize Hb Hbuf Hf; [lia|].
  cbn [tbs_write]. destruct (Nat.leb_spec (length buf + length data) bsize) as [Hfit|Hover].
  - exists [], (buf ++ data). simpl. repeat split; auto. rewrite app_length. lia.
  - set (room := bsize - length buf).
    assert (Hfl : length (buf ++ firstn room data) = bsize).
    { rewrite app_length, firstn_length. unfold room. lia. }
    destruct (buf ++ firstn room data) as [|x full] eqn:Efull; [simpl in Hfl; lia|].
    rewrite <- Efull in *.
    destruct (IH (skipn room data) [] bsize Hb) as (blocks & buf' & E & Hc & Hl & Hall).
    { simpl. lia. }
    { rewrite skipn_length. simpl length. replace (0 =? bsize) with false by (symmetry; apply Nat.eqb_neq; lia).
      unfold room. destruct (Nat.eqb_spec (length buf) bsize); lia. }
    rewrite E. exists ((buf ++ firstn room data) :: blocks), buf'. split; [reflexivity|].
    repeat split; auto.
    + simpl. rewrite <- app_assoc, Hc. simpl. rewrite <- app_assoc. f_equal. apply firstn_skipn.
Qed.

Lemma tbs_blocks_ok : forall ws buf bsize, 1 <= bsize -> length buf <= bsize ->
  exists blocks, tbs_blocks ws buf bsize = Ok blocks /\ concat blocks = buf ++ concat ws /\
    Forall (fun b => 1 <= length b <= bsize) blocks.
Proof.
  induction ws as [|w ws IH]; intros buf bsize Hb Hbuf.
  - simpl. destruct buf as [|x buf].
    + exists []. auto.
    + exists [x :: buf]. simpl. rewrite !app_nil_r. repeat split; auto. constructor; [simpl in *; lia|constructor].
  - cbn [tbs_blocks].
    destruct (tbs_write_ok (length w + 2) w buf bsize Hb Hbuf) as (blocks & buf' & E & Hc & Hl & Hall).
    { destruct (length buf =? bsize); lia. }
    rewrite E. destruct (IH buf' bsize Hb Hl) as (more & E2 & Hc2 & Hall2). rewrite E2.
    exists (blocks ++ more). split; [reflexivity|]. split.
    + rewrite concat_app, Hc2, app_assoc, Hc, <- app_assoc. reflexivity.
    + apply Forall_app. split; [|exact Hall2].
      eapply Forall_impl; [|exact Hall]. simpl. intros a Ha. lia.
Qed.

Lemma write_blocks_ok : forall blocks o, no_err (os_script o) = true ->
  exists o', write_blocks blocks o = (Ok tt, o') /\ os_sink o' = os_sink o ++ concat blocks /\
    no_err (os_script o') = true.
Proof.
  induction blocks as [|b r IH]; intros o Hne.
  - exists o. simpl. rewrite app_nil_r. auto.
  - simpl. destruct (write_or_throw_ok b o Hne) as (o1 & E & S & _ & N & _). rewrite E.
    destruct (IH o1 N) as (o2 & E2 & S2 & N2). exists o2. rewrite E2. repeat split; auto.
    rewrite S2, S, <- app_assoc. reflexivity.
Qed.

Lemma tbs_run_ok ws bsize o : 1 <= bsize -> no_err (os_script o) = true ->
  exists o', tbs_run ws bsize o = (Ok tt, o') /\ os_sink o' = os_sink o ++ concat ws.
Proof.
  intros Hb Hne. unfold tbs_run.
  destruct (tbs_blocks_ok ws [] bsize Hb) as (blocks & E & Hc & _); [simpl; lia|].
  rewrite E. destruct (write_blocks_ok blocks o Hne) as (o' & E2 & S & _).
  exists o'. split; [exact E2|]. rewrite S, Hc. reflexivity.
Qed.
