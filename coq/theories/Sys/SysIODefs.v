(* Executable model of the transfer loops of util/file.cc over a scripted OS
   (property C03; the read side is also the environment of FilePiece, C02).

   The operating system is an ORACLE: a finite script of outcomes, one per
   read(2)/write(2)/pread/pwrite call made on the descriptor, and "Full" for ever
   after the script is used up.
     Full      the call transfers everything that was asked for (reads: as much
               as the source still holds)
     Short k   the call transfers min(max(k,1), requested) bytes (never 0: a
               0-byte read is end of file, a 0-byte write is an error)
     Eintr     the call fails with EINTR and transfers nothing
     Err e     the call fails with errno e (property C11's business; present so
               that the same oracle serves both)
   Every call is recorded in os_trace as (requested, returned) so that the
   correspondence check can compare the per-syscall trace with the real code
   running under harness/libvfio.c. *)
From PP Require Export Base.Bytes Gen.Src_filepiece.
Local Open Scope Z_scope.

Inductive outcome := Full | Short (k : nat) | Eintr | Err (e : Z).

Record os := mkOs {
  os_src : list Z;            (* bytes the descriptor will still deliver to reads *)
  os_script : list outcome;   (* outcomes of the coming calls *)
  os_trace : list (nat * Z);  (* calls so far, newest first: (requested, returned); -1 = EINTR, -2 = error *)
  os_sink : list Z            (* bytes accepted from writes so far, in order *)
}.

Definition os_init (src : list Z) (script : list outcome) : os := mkOs src script [] [].

Inductive sysres := SData (l : list Z) | SEintr | SErr (e : Z).

(* how many bytes one call asking for n moves under outcome oc *)
Definition granted (oc : outcome) (n : nat) : nat :=
  match oc with
  | Short k => Nat.min n (Nat.max 1 k)
  | _ => n
  end.

Definition next_outcome (o : os) : outcome * list outcome :=
  match os_script o with
  | [] => (Full, [])
  | oc :: r => (oc, r)
  end.

(* read(fd, buf, n) *)
Definition sys_read (n : nat) (o : os) : sysres * os :=
  let (oc, rest) := next_outcome o in
  match oc with
  | Eintr => (SEintr, mkOs (os_src o) rest ((n, -1) :: os_trace o) (os_sink o))
  | Err e => (SErr e, mkOs (os_src o) rest ((n, -2) :: os_trace o) (os_sink o))
  | _ =>
    let m := granted oc n in
    let l := firstn m (os_src o) in
    (SData l, mkOs (skipn m (os_src o)) rest ((n, Z.of_nat (length l)) :: os_trace o) (os_sink o))
  end.

(* write(fd, data, |data|): SData l = the prefix that was accepted *)
Definition sys_write (data : list Z) (o : os) : sysres * os :=
  let n := length data in
  let (oc, rest) := next_outcome o in
  match oc with
  | Eintr => (SEintr, mkOs (os_src o) rest ((n, -1) :: os_trace o) (os_sink o))
  | Err e => (SErr e, mkOs (os_src o) rest ((n, -2) :: os_trace o) (os_sink o))
  | _ =>
    let m := granted oc n in
    let l := firstn m data in
    (SData l, mkOs (os_src o) rest ((n, Z.of_nat (length l)) :: os_trace o) (os_sink o ++ l))
  end.

(* results of the library loops *)
(* ECompressed: the input starts with a compression magic number -- the stream is then
   handled by the decompressor driver (property C15), outside this model. *)
Inductive ioerr := EFuel | EErrno (e : Z) | EEndOfFile | EWriteZero | ECompressed.
Inductive res (A : Type) := Ok (a : A) | Fail (e : ioerr).
Arguments Ok {A} a.
Arguments Fail {A} e.

(* fuel that is always enough for one EINTR-retry loop: every EINTR uses up one
   script entry *)
Definition eintr_fuel (o : os) : nat := S (length (os_script o)).

(* std::size_t PartialRead(int fd, void *to, std::size_t amount)
     do { ret = read(fd, to, amount); } while (ret == -1 && errno == EINTR);
     UTIL_THROW_IF_ARG(ret < 0, FDException, ...);  return ret; *)
Fixpoint partial_read_loop (fuel : nat) (amount : nat) (o : os) : res (list Z) * os :=
  match fuel with
  | O => (Fail EFuel, o)
  | S f =>
    match sys_read amount o with
    | (SEintr, o') => partial_read_loop f amount o'
    | (SErr e, o') => (Fail (EErrno e), o')
    | (SData l, o') => (Ok l, o')
    end
  end.
Definition partial_read (amount : nat) (o : os) : res (list Z) * os :=
  partial_read_loop (eintr_fuel o) amount o.

(* std::size_t ReadOrEOF(int fd, void *to, std::size_t amount)
     remaining = amount;
     while (remaining) { ret = PartialRead(fd, to, remaining); if (!ret) return amount - remaining;
                         remaining -= ret; to += ret; }
     return amount;
   The model returns the bytes stored (their number is the C++ return value). *)
Fixpoint read_or_eof_loop (fuel : nat) (remaining : nat) (acc : list Z) (o : os) : res (list Z) * os :=
  match remaining with
  | O => (Ok acc, o)
  | S _ =>
    match fuel with
    | O => (Fail EFuel, o)
    | S f =>
      match partial_read remaining o with
      | (Fail e, o') => (Fail e, o')
      | (Ok [], o') => (Ok acc, o')
      | (Ok l, o') => read_or_eof_loop f (remaining - length l) (acc ++ l) o'
      end
    end
  end.
Definition read_or_eof (amount : nat) (o : os) : res (list Z) * os :=
  read_or_eof_loop (S amount) amount [] o.

(* void ReadOrThrow(int fd, void *to, std::size_t amount)
     while (amount) { ret = PartialRead(fd, to, amount);
                      UTIL_THROW_IF(ret == 0, EndOfFileException, ...); amount -= ret; to += ret; } *)
Fixpoint read_or_throw_loop (fuel : nat) (amount : nat) (acc : list Z) (o : os) : res (list Z) * os :=
  match amount with
  | O => (Ok acc, o)
  | S _ =>
    match fuel with
    | O => (Fail EFuel, o)
    | S f =>
      match partial_read amount o with
      | (Fail e, o') => (Fail e, o')
      | (Ok [], o') => (Fail EEndOfFile, o')
      | (Ok l, o') => read_or_throw_loop f (amount - length l) (acc ++ l) o'
      end
    end
  end.
Definition read_or_throw (amount : nat) (o : os) : res (list Z) * os :=
  read_or_throw_loop (S amount) amount [] o.

(* void WriteOrThrow(int fd, const void *data, std::size_t size)
     while (size) { do { ret = write(fd, data, size); } while (ret == -1 && errno == EINTR);
                    UTIL_THROW_IF_ARG(ret < 1, FDException, ...); data += ret; size -= ret; } *)
Fixpoint write_retry (fuel : nat) (data : list Z) (o : os) : res (list Z) * os :=
  match fuel with
  | O => (Fail EFuel, o)
  | S f =>
    match sys_write data o with
    | (SEintr, o') => write_retry f data o'
    | (SErr e, o') => (Fail (EErrno e), o')
    | (SData l, o') => (Ok l, o')
    end
  end.

Fixpoint write_or_throw_loop (fuel : nat) (data : list Z) (o : os) : res unit * os :=
  match data with
  | [] => (Ok tt, o)
  | _ :: _ =>
    match fuel with
    | O => (Fail EFuel, o)
    | S f =>
      match write_retry (eintr_fuel o) data o with
      | (Fail e, o') => (Fail e, o')
      | (Ok l, o') =>
        if (length l <? wr_min_progress)%nat then (Fail EWriteZero, o')     (* UTIL_THROW_IF_ARG(ret < 1, ...) *)
        else write_or_throw_loop f (skipn (length l) data) o'
      end
    end
  end.
Definition write_or_throw (data : list Z) (o : os) : res unit * os :=
  write_or_throw_loop (S (length data)) data o.

(* void ErsatzPRead(int fd, void *to, std::size_t size, uint64_t off)
     while (size) { ret = pread(fd, to, size, off);
                    if (ret <= 0) { if (ret == -1 && errno == EINTR) continue;
                                    UTIL_THROW_IF(ret == 0, EndOfFileException, ...); UTIL_THROW_ARG(FDException ...); }
                    size -= ret; off += ret; to += ret; }
   One loop (EINTR re-enters the outer loop).  The file is os_src seen from
   offset 0; pread does not move a file position, so the model reads
   skipn off file.  The oracle is the same script. *)
Definition sys_pread (n : nat) (off : nat) (file : list Z) (o : os) : sysres * os :=
  let (oc, rest) := next_outcome o in
  match oc with
  | Eintr => (SEintr, mkOs (os_src o) rest ((n, -1) :: os_trace o) (os_sink o))
  | Err e => (SErr e, mkOs (os_src o) rest ((n, -2) :: os_trace o) (os_sink o))
  | _ =>
    let l := firstn (granted oc n) (skipn off file) in
    (SData l, mkOs (os_src o) rest ((n, Z.of_nat (length l)) :: os_trace o) (os_sink o))
  end.

Fixpoint ersatz_pread_loop (fuel : nat) (size off : nat) (file : list Z) (acc : list Z) (o : os) : res (list Z) * os :=
  match size with
  | O => (Ok acc, o)
  | S _ =>
    match fuel with
    | O => (Fail EFuel, o)
    | S f =>
      match sys_pread size off file o with
      | (SEintr, o') => ersatz_pread_loop f size off file acc o'
      | (SErr e, o') => (Fail (EErrno e), o')
      | (SData [], o') => (Fail EEndOfFile, o')
      | (SData l, o') => ersatz_pread_loop f (size - length l) (off + length l) file (acc ++ l) o'
      end
    end
  end.
Definition ersatz_pread (size off : nat) (file : list Z) (o : os) : res (list Z) * os :=
  ersatz_pread_loop (S size + length (os_script o)) size off file [] o.

(* void ErsatzPWrite(int fd, const void *from, std::size_t size, uint64_t off): the
   file is a list of bytes; pwrite at off overwrites/extends (holes = 0). *)
Definition overwrite (file : list Z) (off : nat) (l : list Z) : list Z :=
  let padded := file ++ repeat 0 (off - length file) in
  firstn off padded ++ l ++ skipn (off + length l) padded.

Definition sys_pwrite (data : list Z) (off : nat) (file : list Z) (o : os) : sysres * os * list Z :=
  let n := length data in
  let (oc, rest) := next_outcome o in
  match oc with
  | Eintr => (SEintr, mkOs (os_src o) rest ((n, -1) :: os_trace o) (os_sink o), file)
  | Err e => (SErr e, mkOs (os_src o) rest ((n, -2) :: os_trace o) (os_sink o), file)
  | _ =>
    let l := firstn (granted oc n) data in
    (SData l, mkOs (os_src o) rest ((n, Z.of_nat (length l)) :: os_trace o) (os_sink o), overwrite file off l)
  end.

Fixpoint ersatz_pwrite_loop (fuel : nat) (data : list Z) (off : nat) (file : list Z) (o : os) : res (list Z) * os :=
  match data with
  | [] => (Ok file, o)
  | _ :: _ =>
    match fuel with
    | O => (Fail EFuel, o)
    | S f =>
      match sys_pwrite data off file o with
      | (SEintr, o', file') => ersatz_pwrite_loop f data off file' o'
      | (SErr e, o', _) => (Fail (EErrno e), o')
      | (SData [], o', _) => (Fail EEndOfFile, o')
      | (SData l, o', file') => ersatz_pwrite_loop f (skipn (length l) data) (off + length l) file' o'
      end
    end
  end.
Definition ersatz_pwrite (data : list Z) (off : nat) (file : list Z) (o : os) : res (list Z) * os :=
  ersatz_pwrite_loop (S (length data) + length (os_script o)) data off file o.

(* ---- BufferedStream<FileWriter> (util/buffered_stream.hh): the bytes handed to
   WriteOrThrow.  State = the buffered bytes (current_ - buf_) and the
   capacity kBufferSize. ---- *)
Record bstream := mkBs { bs_buf : list Z; bs_cap : nat }.

(* void SpillBuffer(): if (current_ != buf_) { writer_.write(buf_, current_ - buf_); current_ = buf_; } *)
Definition bs_spill (b : bstream) (o : os) : res bstream * os :=
  match bs_buf b with
  | [] => (Ok b, o)
  | _ =>
    match write_or_throw (bs_buf b) o with
    | (Ok _, o') => (Ok (mkBs [] (bs_cap b)), o')
    | (Fail e, o') => (Fail e, o')
    end
  end.

(* BufferedStream &write(const void *data, std::size_t length) *)
Definition bs_write (data : list Z) (b : bstream) (o : os) : res bstream * os :=
  if (length (bs_buf b) + length data <=? bs_cap b)%nat then (Ok (mkBs (bs_buf b ++ data) (bs_cap b)), o)
  else
    match bs_spill b o with
    | (Fail e, o') => (Fail e, o')
    | (Ok b', o') =>
      if (length (bs_buf b') + length data <=? bs_cap b')%nat then (Ok (mkBs (bs_buf b' ++ data) (bs_cap b')), o')
      else
        match write_or_throw data o' with
        | (Ok _, o'') => (Ok b', o'')
        | (Fail e, o'') => (Fail e, o'')
        end
    end.

(* flush(): SpillBuffer(); writer_.flush()  (fsync: no data movement) *)
Definition bs_flush (b : bstream) (o : os) : res bstream * os := bs_spill b o.

(* a whole run: a sequence of writes, then the destructor's flush *)
Fixpoint bs_run (ws : list (list Z)) (b : bstream) (o : os) : res bstream * os :=
  match ws with
  | [] => bs_flush b o
  | w :: r =>
    match bs_write w b o with
    | (Ok b', o') => bs_run r b' o'
    | (Fail e, o') => (Fail e, o')
    end
  end.

Definition no_err (s : list outcome) : bool :=
  forallb (fun oc => match oc with Err _ => false | _ => true end) s.

(* ---- ThreadedBufferedStream<Writer> (util/threaded_buffered_stream.hh), data path only.
   The producer copies into fixed blocks of kBlockSize bytes and hands every full block to the
   writer thread (SpillBuffer -> lease_.SuccessNext()), which calls writer_.write(block) for the
   blocks in the order they were handed over (that hand-off is in order and loses nothing is
   property C16; here the hand-off is a list).  tbs_buf = [lease_.Base(), current_). ---- *)

(* ThreadedBufferedStream &write(const void *data, std::size_t length):
     while (current_ + length > end_) { memcpy(current_, data, end_ - current_); data += ..; length -= ..;
                                        current_ = end_; SpillBuffer(); }
     memcpy(current_, data, length); current_ += length;
   returns the blocks handed over, in order, and the new partial block *)
Fixpoint tbs_write (fuel : nat) (data buf : list Z) (bsize : nat) : res (list (list Z) * list Z) :=
  match fuel with
  | O => Fail EFuel
  | S f =>
    if (length buf + length data <=? bsize)%nat then Ok ([], buf ++ data)
    else
      let room := (bsize - length buf)%nat in
      let full := buf ++ firstn room data in
      match full with
      | [] => Fail EFuel        (* SpillBuffer returns at once when current_ == Base(): only if kBlockSize = 0; the loop would spin *)
      | _ =>
        match tbs_write f (skipn room data) [] bsize with
        | Ok (blocks, buf') => Ok (full :: blocks, buf')
        | Fail e => Fail e
        end
      end
  end.

(* all writes, then the destructor: SpillBuffer(); poison; join *)
Fixpoint tbs_blocks (ws : list (list Z)) (buf : list Z) (bsize : nat) : res (list (list Z)) :=
  match ws with
  | [] => Ok (match buf with [] => [] | _ => [buf] end)
  | w :: r =>
    match tbs_write (length w + 2) w buf bsize with
    | Fail e => Fail e
    | Ok (blocks, buf') =>
      match tbs_blocks r buf' bsize with
      | Ok more => Ok (blocks ++ more)
      | Fail e => Fail e
      end
    end
  end.

(* the writer thread: writer_.write(block) for every block, in order (FileWriter = WriteOrThrow) *)
Fixpoint write_blocks (blocks : list (list Z)) (o : os) : res unit * os :=
  match blocks with
  | [] => (Ok tt, o)
  | b :: r =>
    match write_or_throw b o with
    | (Ok _, o') => write_blocks r o'
    | (Fail e, o') => (Fail e, o')
    end
  end.

Definition tbs_run (ws : list (list Z)) (bsize : nat) (o : os) : res unit * os :=
  match tbs_blocks ws [] bsize with
  | Fail e => (Fail e, o)
  | Ok blocks => write_blocks blocks o
  end.
