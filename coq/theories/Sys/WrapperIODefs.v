(* C11 -- the data paths of the three wrappers over the OS oracle.
   feeder thread:    util::FileStream on the child's stdin  (one oracle: the calls of that thread)
   collector thread: util::FileStream on fd 1               (another oracle)
   The threads only share the queue of record descriptions (C04/C05/C16); each thread's system
   calls are sequential, so each gets its own outcome list.  What the child answers is
   abstracted to counts ([needs], [child_lines]); that both threads returning means status Wait(..) and anything
   else SIGABRT is taken over here from Sys/WrapperMainDefs.v, where the threads' control flow (incl. the
   reads) is modelled and the status is derived; this file adds WHICH BYTES were accepted.  No proofs here. *)
From PP Require Export Sys.ExitDefs.
Local Open Scope Z_scope.

(* out << piece_1 ... << piece_n on a BufferedStream *)
Fixpoint bs_write_all (s : bstream) (pieces : list (list Z)) : M bstream :=
  match pieces with
  | [] => ret s
  | p :: r => bind (bs_write s p) (fun s' => bs_write_all s' r)
  end.

(* feeder: { util::FileStream child_in(fd); for (...) child_in << ...;  [child_in.flush();]  }  ~FileStream: flush, close
   foldfilter and b64filter call flush() explicitly before the scope ends, cache does not *)
Definition explicit_flush (wr : wrapper) : bool :=
  match wr with Cache => false | Foldfilter => true | B64filter => true end.

Definition feeder (wr : wrapper) (fd : Z) (sent : list (list Z)) : M unit :=
  bind (bs_write_all (mkBS fd []) sent) (fun s =>
  bind (if explicit_flush wr then bs_flush s else ret s) (fun s' => bs_destroy s')).

(* collector: { util::FileStream out(1); for each record whose answers arrived: out << record << '\n'; }
   premature end of the child's output: exception (no unwinding, the buffered output is lost);
   b64filter: surplus child output: exception *)
Definition collector (wr : wrapper) (needs : list nat) (child_lines : nat) (records : list (list Z)) : M unit :=
  match collect needs child_lines with
  | None =>
    (* the records that could still be completed are written into the buffer, then ReadLine throws *)
    fun orc => (Exn, [], orc)
  | Some rest =>
    bind (bs_write_all (mkBS 1 []) records) (fun s =>
      match wr with
      | B64filter => if (0 <? rest)%nat then (fun orc => (Exn, [], orc)) else bs_destroy s
      | _ => bs_destroy s
      end)
  end.

(* main: Wait(child) and join; any exception in a thread => terminate *)
Definition wrapper_io_run (wr : wrapper) (fd_child : Z) (sent records : list (list Z)) (needs : list nat) (child_lines : nat)
    (t : term) (orc_feeder orc_collector : list outcome) : status * list event * list event :=
  match feeder wr fd_child sent orc_feeder, collector wr needs child_lines records orc_collector with
  | (Val _, evf, _), (Val _, evc, _) => (Exited (Wait (wstatus t) mod 256), evf, evc)
  | (Fuel, evf, _), (_, evc, _) => (StFuel, evf, evc)
  | (_, evf, _), (Fuel, evc, _) => (StFuel, evf, evc)
  | (_, evf, _), (_, evc, _) => (Signaled SIGABRT, evf, evc)
  end.

(* ------------------------------------------------------------------ *)
(* preprocess::Launch, parent side: after fork the parent reads the close-on-exec status pipe:
     while ((count = read(status_in, &err, sizeof(errno))) == -1) if (errno != EAGAIN && errno != EINTR) break;
     count == -1 -> ErrnoException;  count != 0 -> "child's execvp failed";  count == 0 -> the exec succeeded
   (an empty command line is rejected before forking when launch_checks_command) *)
Fixpoint launch_wait (fuel : nat) (fd : Z) (orc : list outcome) : res unit * list event * list outcome :=
  match fuel with
  | O => (Fuel, [], orc)
  | S f =>
    match sys OpRead fd 4 [] orc with
    | (Ok n _, ev, orc') => if n =? 0 then (Val tt, ev, orc') else (Exn, ev, orc')
    | (Err e, ev, orc') =>
      if zmem e launch_retry_errnos
      then match launch_wait f fd orc' with (r, ev', orc'') => (r, ev ++ ev', orc'') end
      else (Exn, ev, orc')
    end
  end.

Definition Launch (command_words : nat) (fd : Z) : M unit := fun orc =>
  if launch_checks_command && (command_words =? 0)%nat then (Exn, [], orc)
  else launch_wait (S (length orc)) fd orc.

(* a wrapper's main: Launch, then the two threads; a failed Launch is an exception leaving main *)
Definition launch_status (command_words : nat) (fd : Z) (orc : list outcome) (after : status) : status * list event :=
  match Launch command_words fd orc with
  | (Val _, ev, _) => (after, ev)
  | (r, ev, _) => (status_of (cast r), ev)
  end.

(* what the status read said last: the child reported nothing (exec succeeded) *)
Definition launch_ok (evs : list event) : bool :=
  match rev evs with
  | e :: _ => match ev_out e with Ok n _ => n =? 0 | Err _ => false end
  | [] => false
  end.
