(* Tool shape 4 (property C03): the input side of warc_parallel / WARCReader -- the WARC record reader of
   property C17 (Warc/WarcDefs.v: header lines through ReadMore, Content-Length, the body loop) running on
   util::ReadCompressed::Read over the scripted OS of Sys/SysIODefs.v.  C17's reader is generic in the
   byte source; here the source is instantiated with [rc_read] under an arbitrary outcome script. *)
From PP Require Import Warc.WarcDefs Warc.WarcProofs.
From PP Require Import Reader.FilePieceDefs Reader.FilePieceProofs Sys.SysIOProofs.
From Coq Require Import Lia NArith.
Local Open Scope nat_scope.

Definition wstate : Type := (rcstate * os)%type.

(* ReadCompressed::Read(to, n) as C17's reader interface: None = an exception (hard error) *)
Definition wrread (st : wstate) (n : N) : option (list Z * wstate) :=
  let '(rc, o) := st in
  match FilePieceDefs.rc_read (N.to_nat n) rc o with
  | (Ok l, rc', o') => Some (l, (rc', o'))
  | (Fail _, _, _) => None
  end.

Definition wrem (st : wstate) : list Z := rc_pending (fst st) ++ os_src (snd st).
Definition winv (st : wstate) : Prop := rc_wf (fst st) (snd st) /\ no_err (os_script (snd st)) = true.

(* WARCReader on a descriptor delivering src under an outcome script: ReadFactory, then records until EOF.
   The result type of C17 carries the status: AllOk records / AllErr error records-so-far *)
Definition warc_input_tool (n fuel : nat) (src : list Z) (script : list outcome) :=
  match read_factory (os_init src script) with
  | (Ok rc, o) => warc_read_all wstate wrread n fuel (rc, o) []
  | (Fail _, _) => AllErr WReader []
  end.

Lemma wrread_contract : rread_contract wstate wrread wrem winv.
Proof.
  intros [rc o] n [Hwf Hne] Hn. simpl in Hwf, Hne.
  destruct (rc_read_spec (N.to_nat n) rc o) as (l & rc' & o' & E & Hd & Hl & Hnil & Hwf' & Hne'); auto; [lia|].
  exists l, (rc', o'). unfold wrread. rewrite E. unfold wrem, winv. simpl.
  repeat split; auto.
  - unfold Compress.CompressDefs.len. lia.
  - intros Hl0. rewrite Hd, Hl0, (Hnil Hl0). reflexivity.
Qed.

Theorem warc_input_tool_records recs n fuel script :
  no_err script = true -> Forall wf_record recs -> FilePieceDefs.detect_magic (concat recs) = false ->
  length recs < n -> length (concat recs) + 1 < fuel ->
  warc_input_tool n fuel (concat recs) script = AllOk recs.
Proof.
  intros Hne Hwf Hm Hn Hf. unfold warc_input_tool.
  destruct (read_factory_spec (os_init (concat recs) script) Hne Hm) as (rc & o & E & Hp & Hw & Hne').
  rewrite E.
  apply (records_exact_proof wstate wrread wrem winv wrread_contract recs (rc, o) n fuel); auto.
  split; assumption.
Qed.

Theorem warc_input_status_invariant recs n fuel script :
  no_err script = true -> Forall wf_record recs -> FilePieceDefs.detect_magic (concat recs) = false ->
  length recs < n -> length (concat recs) + 1 < fuel ->
  warc_input_tool n fuel (concat recs) script = warc_input_tool n fuel (concat recs) [].
Proof.
  intros Hne Hwf Hm Hn Hf.
  rewrite (warc_input_tool_records recs n fuel script Hne Hwf Hm Hn Hf).
  rewrite (warc_input_tool_records recs n fuel [] eq_refl Hwf Hm Hn Hf). reflexivity.
Qed.
