(* C11 -- proofs about Sys/ExitDefs.v *)
From PP Require Import Sys.ExitDefs.
From Coq Require Import Lia ZifyBool.
Local Open Scope Z_scope.
Arguments zmem : simpl never.
Arguments Z.ltb : simpl never.
Arguments Z.leb : simpl never.

(* ------------------------------------------------------------------ *)
(* soundness of a computation's result w.r.t. the events it produced:
   it never runs out of fuel, it yields a value iff no event failed, and it
   only consumes oracle entries *)

Definition sound {A} (x : res A * list event * list outcome) (orc : list outcome) : Prop :=
  match x with
  | (r, evs, orc') => r <> Fuel /\ is_val r = negb (any_failed evs) /\ (length orc' <= length orc)%nat
  end.

Lemma any_failed_app a b : any_failed (a ++ b) = any_failed a || any_failed b.
Proof. unfold any_failed. apply existsb_app. Qed.

Lemma cast_not_fuel {A B} (r : res A) : r <> Fuel -> @cast A B r <> Fuel.
Proof. destruct r; simpl; congruence. Qed.

Lemma cast_not_val {A B} (r : res A) : is_val (@cast A B r) = false.
Proof. destruct r; reflexivity. Qed.

Lemma bind_sound {A B} (m : M A) (k : A -> M B) orc :
  sound (m orc) orc ->
  (forall a orc1, (length orc1 <= length orc)%nat -> sound (k a orc1) orc1) ->
  sound (bind m k orc) orc.
Proof.
  unfold bind. intros Hm Hk.
  destruct (m orc) as [[r ev] orc1] eqn:Em. simpl in Hm. destruct Hm as (Hf & Hv & Hl).
  destruct r as [a| | |].
  - specialize (Hk a orc1 Hl). destruct (k a orc1) as [[r2 ev2] orc2]. simpl in *.
    destruct Hk as (Hf2 & Hv2 & Hl2). rewrite any_failed_app.
    destruct (any_failed ev); simpl in *; try discriminate. repeat split; auto. lia.
  - simpl in *. repeat split; auto; congruence.
  - simpl in *. repeat split; auto; congruence.
  - congruence.
Qed.

Lemma ret_sound {A} (a : A) orc : sound (ret a orc) orc.
Proof. simpl. repeat split; auto; congruence. Qed.

Lemma sys_shape o fd req data orc :
  exists r orc', sys o fd req data orc = (r, [mkEv o fd req data r], orc') /\ (length orc' <= length orc)%nat /\
    (orc = [] -> r = default_outcome o req) /\ (orc <> [] -> S (length orc') = length orc).
Proof.
  destruct orc as [|r rest]; simpl.
  - exists (default_outcome o req), []. repeat split; auto. congruence.
  - exists r, rest. repeat split; auto. congruence.
Qed.

Lemma partial_read_sound fd amount : forall fuel orc, (length orc < fuel)%nat ->
  sound (partial_read fuel fd amount orc) orc.
Proof.
  induction fuel as [|f IH]; intros orc Hlt; [lia|].
  simpl partial_read.
  destruct (sys_shape OpRead fd amount [] orc) as (r & orc' & Es & Hl & Hd & Hn). rewrite Es.
  destruct r as [n d|e].
  - destruct (n <? read_throw_below) eqn:En; simpl; unfold any_failed; simpl; unfold ev_failed; simpl; rewrite En;
      repeat split; auto; congruence.
  - destruct (zmem e read_retry_errnos) eqn:Ez.
    + assert (orc <> []) as Hne by (intro H0; specialize (Hd H0); discriminate).
      specialize (Hn Hne).
      specialize (IH orc' ltac:(lia)). destruct (partial_read f fd amount orc') as [[r2 ev2] orc2]. simpl in *.
      destruct IH as (H1 & H2 & H3). split; [exact H1|]. split; [|lia].
      rewrite H2. unfold any_failed at 2. simpl. unfold ev_failed at 1. simpl. rewrite Ez. reflexivity.
    + simpl. unfold any_failed; simpl; unfold ev_failed; simpl. rewrite Ez. repeat split; auto; congruence.
Qed.

Lemma partial_read_consumes fd amount : forall fuel orc d ev orc',
  partial_read fuel fd amount orc = (Val d, ev, orc') -> d <> [] -> (length orc' < length orc)%nat.
Proof.
  induction fuel as [|f IH]; intros orc d ev orc' E Hd0; simpl in E; [discriminate|].
  destruct (sys_shape OpRead fd amount [] orc) as (o & orc1 & Es & Hl & Hd & Hn). rewrite Es in E.
  destruct o as [n dd|e].
  - destruct (n <? read_throw_below); [discriminate|]. inversion E; subst.
    destruct orc as [|x rest]; [specialize (Hd eq_refl); simpl in Hd; inversion Hd; subst; congruence|].
    specialize (Hn ltac:(congruence)). lia.
  - destruct (zmem e read_retry_errnos); [|discriminate].
    destruct (partial_read f fd amount orc1) as [[r2 ev2] orc2] eqn:E2. inversion E; subst.
    specialize (IH _ _ _ _ E2 Hd0). lia.
Qed.

Lemma PartialRead_sound fd amount orc : sound (PartialRead fd amount orc) orc.
Proof. unfold PartialRead. apply partial_read_sound. lia. Qed.

Lemma skipn_length_le {A} n (l : list A) : (length (skipn n l) <= length l)%nat.
Proof. rewrite skipn_length. lia. Qed.

Lemma write_or_throw_sound fd : forall fuel data orc, (length data + length orc < fuel)%nat ->
  sound (write_or_throw fuel fd data orc) orc.
Proof.
  induction fuel as [|f IH]; intros data orc Hlt; [lia|].
  destruct data as [|b data']; [simpl; repeat split; auto; congruence|].
  remember (b :: data') as data eqn:Ed.
  assert (write_or_throw (S f) fd data orc =
          match sys OpWrite fd (Z.of_nat (length data)) data orc with
          | (Ok n _, ev, orc') =>
            if n <? write_throw_below then (Exn, ev, orc')
            else match write_or_throw f fd (skipn (Z.to_nat n) data) orc' with (r, ev', orc'') => (r, ev ++ ev', orc'') end
          | (Err e, ev, orc') =>
            if zmem e write_retry_errnos
            then match write_or_throw f fd data orc' with (r, ev', orc'') => (r, ev ++ ev', orc'') end
            else (Exn, ev, orc')
          end) as Eq by (subst data; reflexivity).
  rewrite Eq; clear Eq.
  destruct (sys_shape OpWrite fd (Z.of_nat (length data)) data orc) as (r & orc' & Es & Hl & Hd & Hn). rewrite Es.
  destruct r as [n d|e].
  - destruct (n <? write_throw_below) eqn:En.
    + simpl. unfold any_failed; simpl; unfold ev_failed; simpl. rewrite En. repeat split; auto; congruence.
    + assert (length (skipn (Z.to_nat n) data) + length orc' < f)%nat as Hf.
      { destruct orc as [|x rest].
        - specialize (Hd eq_refl). simpl in Hd. injection Hd as Hn' _. subst n.
          rewrite Nat2Z.id. rewrite skipn_all. simpl in *. subst data. simpl in *. lia.
        - specialize (Hn ltac:(congruence)). pose proof (skipn_length_le (Z.to_nat n) data). lia. }
      specialize (IH _ _ Hf). destruct (write_or_throw f fd (skipn (Z.to_nat n) data) orc') as [[r2 ev2] orc2]. simpl in *.
      destruct IH as (H1 & H2 & H3). split; [exact H1|]. split; [|lia].
      rewrite H2. unfold any_failed at 2. simpl. unfold ev_failed at 1. simpl. rewrite En. reflexivity.
  - destruct (zmem e write_retry_errnos) eqn:Ez.
    + assert (orc <> []) as Hne by (intro H0; specialize (Hd H0); discriminate).
      specialize (Hn Hne).
      specialize (IH data orc' ltac:(lia)). destruct (write_or_throw f fd data orc') as [[r2 ev2] orc2]. simpl in *.
      destruct IH as (H1 & H2 & H3). split; [exact H1|]. split; [|lia].
      rewrite H2. unfold any_failed at 2. simpl. unfold ev_failed at 1. simpl. rewrite Ez. reflexivity.
    + simpl. unfold any_failed; simpl; unfold ev_failed; simpl. rewrite Ez. repeat split; auto; congruence.
Qed.

Lemma WriteOrThrow_sound fd data orc : sound (WriteOrThrow fd data orc) orc.
Proof. unfold WriteOrThrow. apply write_or_throw_sound. lia. Qed.

Lemma FSync_sound fd orc : sound (FSyncIgnoreUnsupported fd orc) orc.
Proof.
  unfold FSyncIgnoreUnsupported.
  destruct (sys_shape OpFsync fd 0 [] orc) as (r & orc' & Es & Hl & _). rewrite Es.
  destruct r as [n d|e]; simpl.
  - repeat split; auto; congruence.
  - destruct (zmem e fsync_ignored_errnos) eqn:Ez; simpl; unfold any_failed; simpl; unfold ev_failed; simpl; rewrite Ez;
      repeat split; auto; congruence.
Qed.

Lemma close_sound fd orc : sound (close_scoped_fd fd orc) orc.
Proof.
  unfold close_scoped_fd.
  destruct (sys_shape OpClose fd 0 [] orc) as (r & orc' & Es & Hl & _). rewrite Es.
  destruct r as [n d|e]; simpl.
  - repeat split; auto; congruence.
  - repeat split; auto; congruence.
Qed.

Lemma in_destructor_sound {A} (m : M A) orc : sound (m orc) orc -> sound (in_destructor m orc) orc.
Proof.
  unfold in_destructor. destruct (m orc) as [[r ev] orc']. destruct r; simpl; intros (H1 & H2 & H3); repeat split; auto; congruence.
Qed.

Lemma SpillBuffer_sound s orc : sound (SpillBuffer s orc) orc.
Proof.
  unfold SpillBuffer. destruct (bs_buf s); [apply ret_sound|].
  apply bind_sound; [apply WriteOrThrow_sound|]. intros; apply ret_sound.
Qed.

Lemma bs_write_sound s data orc : sound (bs_write s data orc) orc.
Proof.
  unfold bs_write. destruct (_ <=? _); [apply ret_sound|].
  apply bind_sound; [apply SpillBuffer_sound|]. intros s1 orc1 _.
  destruct (_ <=? _); [apply ret_sound|].
  apply bind_sound; [apply WriteOrThrow_sound|]. intros; apply ret_sound.
Qed.

Lemma bs_flush_sound s orc : sound (bs_flush s orc) orc.
Proof.
  unfold bs_flush. apply bind_sound; [apply SpillBuffer_sound|]. intros s1 orc1 _.
  apply bind_sound; [apply FSync_sound|]. intros; apply ret_sound.
Qed.

Lemma bs_destroy_sound s orc : sound (bs_destroy s orc) orc.
Proof.
  unfold bs_destroy. apply bind_sound; [apply in_destructor_sound, bs_flush_sound|]. intros; apply close_sound.
Qed.

Section ToolProofs.
  Context {St : Type}.
  Variable step : St -> list Z -> St * list Z.
  Variable fin : St -> list Z.
  Variable chunk : Z.

  Lemma tool_loop_sound : forall fuel s o orc, (length orc < fuel)%nat ->
    sound (tool_loop step chunk fuel s o orc) orc.
  Proof.
    induction fuel as [|f IH]; intros s o orc Hlt; [lia|].
    simpl tool_loop.
    pose proof (PartialRead_sound 0 chunk orc) as Hp.
    destruct (PartialRead 0 chunk orc) as [[r ev] orc1] eqn:Ep. simpl in Hp. destruct Hp as (Hf & Hv & Hl).
    destruct r as [d| | |]; simpl in *; try (repeat split; auto; congruence).
    destruct d as [|b d'].
    - simpl. repeat split; auto; congruence.
    - destruct (step s (b :: d')) as [s' out].
      pose proof (bs_write_sound o out orc1) as Hw.
      destruct (bs_write o out orc1) as [[r2 ev2] orc2]. simpl in Hw. destruct Hw as (Hf2 & Hv2 & Hl2).
      (* a successful non-empty read consumed an oracle entry *)
      assert (length orc1 < length orc)%nat as Hcons.
      { unfold PartialRead in Ep. eapply partial_read_consumes; [exact Ep|congruence]. }
      destruct r2 as [o'| | |]; simpl in *; try (rewrite any_failed_app; destruct (any_failed ev); simpl in *; try discriminate;
        repeat split; auto; try congruence; lia).
      specialize (IH s' o' orc2 ltac:(lia)).
      destruct (tool_loop step chunk f s' o' orc2) as [[r3 ev3] orc3]. simpl in *.
      destruct IH as (Hf3 & Hv3 & Hl3).
      rewrite !any_failed_app. destruct (any_failed ev); simpl in *; try discriminate.
      destruct (any_failed ev2); simpl in *; try discriminate.
      repeat split; auto. lia.
  Qed.

  Lemma tool_main_sound s0 orc : sound (tool_main step fin chunk s0 orc) orc.
  Proof.
    unfold tool_main.
    apply bind_sound; [apply tool_loop_sound; lia|]. intros so orc1 _.
    apply bind_sound; [apply bs_write_sound|]. intros o orc2 _.
    apply bind_sound; [apply bs_destroy_sound|]. intros _ orc3 _.
    apply bind_sound; [apply close_sound|]. intros; apply ret_sound.
  Qed.
End ToolProofs.

(* ------------------------------------------------------------------ *)
(* bytes accepted / delivered *)

Lemma accepted_app fd a b : accepted fd (a ++ b) = accepted fd a ++ accepted fd b.
Proof. induction a as [|e a IH]; simpl; [reflexivity|]. rewrite IH, app_assoc. reflexivity. Qed.

Lemma delivered_app fd a b : delivered fd (a ++ b) = delivered fd a ++ delivered fd b.
Proof. induction a as [|e a IH]; simpl; [reflexivity|]. rewrite IH, app_assoc. reflexivity. Qed.

(* a computation is a "writer on fd" when it delivers nothing and accepts only on fd *)
Lemma bind_inv {A B} (m : M A) (k : A -> M B) orc r evs orc' :
  bind m k orc = (r, evs, orc') ->
  (exists a ev1 orc1 ev2, m orc = (Val a, ev1, orc1) /\ k a orc1 = (r, ev2, orc') /\ evs = ev1 ++ ev2) \/
  (exists r1, m orc = (r1, evs, orc') /\ is_val r1 = false /\ r = cast r1).
Proof.
  unfold bind. destruct (m orc) as [[r1 ev1] orc1]. destruct r1 as [a| | |]; intros E.
  - left. destruct (k a orc1) as [[r2 ev2] orc2] eqn:Ek. inversion E; subst. exists a, ev1, orc1, ev2. auto.
  - right. inversion E; subst. exists Exn. auto.
  - right. inversion E; subst. exists Abort. auto.
  - right. inversion E; subst. exists Fuel. auto.
Qed.

(* events of a computation that only writes, and only on descriptor fd *)
Definition wr_spec (fd : Z) (evs : list event) : Prop :=
  (forall fd', delivered fd' evs = []) /\ (forall fd', fd' <> fd -> accepted fd' evs = []).

Lemma wr_spec_nil fd : wr_spec fd [].
Proof. split; intros; reflexivity. Qed.

Lemma wr_spec_app fd a b : wr_spec fd a -> wr_spec fd b -> wr_spec fd (a ++ b).
Proof.
  intros [A1 A2] [B1 B2]. split; intros.
  - rewrite delivered_app, A1, B1. reflexivity.
  - rewrite accepted_app, A2, B2 by assumption. reflexivity.
Qed.

Lemma partial_read_io fd amount : forall fuel orc r evs orc',
  partial_read fuel fd amount orc = (r, evs, orc') ->
  (forall fd', accepted fd' evs = []) /\
  (forall fd', fd' <> fd -> delivered fd' evs = []) /\
  delivered fd evs = match r with Val d => [d] | _ => [] end.
Proof.
  induction fuel as [|f IH]; intros orc r evs orc' E; simpl in E.
  - inversion E; subst. repeat split; intros; reflexivity.
  - destruct (sys_shape OpRead fd amount [] orc) as (o & orc1 & Es & _). rewrite Es in E.
    destruct o as [n d|e].
    + destruct (n <? read_throw_below) eqn:En; inversion E; subst; (split; [intros fd'; reflexivity|]);
        (split; [intros fd' Hne; simpl; rewrite (proj2 (Z.eqb_neq fd fd')) by congruence; reflexivity|]);
        simpl; rewrite Z.eqb_refl, En; reflexivity.
    + destruct (zmem e read_retry_errnos).
      * destruct (partial_read f fd amount orc1) as [[r2 ev2] orc2] eqn:E2. inversion E; subst.
        destruct (IH _ _ _ _ E2) as (Q1 & Q2 & Q3).
        split; [intros fd'; simpl; apply Q1|]. split; [intros fd' Hne; simpl; destruct (_ =? _); simpl; apply Q2; auto|].
        simpl. rewrite Z.eqb_refl. simpl. exact Q3.
      * inversion E; subst. repeat split; intros; simpl; try destruct (_ =? _); reflexivity.
Qed.

Lemma write_or_throw_io fd : forall fuel data orc r evs orc',
  write_or_throw fuel fd data orc = (r, evs, orc') ->
  wr_spec fd evs /\ (r = Val tt -> accepted fd evs = data).
Proof.
  induction fuel as [|f IH]; intros data orc r evs orc' E.
  - destruct data; simpl in E; inversion E; subst; (split; [apply wr_spec_nil|]); intros; try reflexivity; discriminate.
  - destruct data as [|b data'].
    { simpl in E; inversion E; subst. split; [apply wr_spec_nil|reflexivity]. }
    remember (b :: data') as data eqn:Ed.
    assert (write_or_throw (S f) fd data orc =
          match sys OpWrite fd (Z.of_nat (length data)) data orc with
          | (Ok n _, ev, orc') =>
            if n <? write_throw_below then (Exn, ev, orc')
            else match write_or_throw f fd (skipn (Z.to_nat n) data) orc' with (r, ev', orc'') => (r, ev ++ ev', orc'') end
          | (Err e, ev, orc') =>
            if zmem e write_retry_errnos
            then match write_or_throw f fd data orc' with (r, ev', orc'') => (r, ev ++ ev', orc'') end
            else (Exn, ev, orc')
          end) as Eq by (subst data; reflexivity).
    rewrite Eq in E; clear Eq.
    destruct (sys_shape OpWrite fd (Z.of_nat (length data)) data orc) as (o & orc1 & Es & _). rewrite Es in E.
    assert (forall o', wr_spec fd [mkEv OpWrite fd (Z.of_nat (length data)) data o']) as Hone.
    { intros o'. split; intros; simpl; [reflexivity|]. rewrite (proj2 (Z.eqb_neq fd fd')) by congruence. reflexivity. }
    destruct o as [n d|e].
    + destruct (n <? write_throw_below).
      * inversion E; subst r evs orc'. split; [apply Hone|discriminate].
      * destruct (write_or_throw f fd (skipn (Z.to_nat n) data) orc1) as [[r2 ev2] orc2] eqn:E2.
        inversion E; subst r evs orc'. destruct (IH _ _ _ _ _ E2) as (Q1 & Q2).
        split; [apply (wr_spec_app fd [_] ev2); [apply Hone|exact Q1]|].
        intros Hr. simpl. rewrite Z.eqb_refl. simpl. rewrite (Q2 Hr). apply firstn_skipn.
    + destruct (zmem e write_retry_errnos).
      * destruct (write_or_throw f fd data orc1) as [[r2 ev2] orc2] eqn:E2.
        inversion E; subst r evs orc'. destruct (IH _ _ _ _ _ E2) as (Q1 & Q2).
        split; [apply (wr_spec_app fd [_] ev2); [apply Hone|exact Q1]|].
        intros Hr. simpl. rewrite Z.eqb_refl. simpl. exact (Q2 Hr).
      * inversion E; subst r evs orc'. split; [apply Hone|discriminate].
Qed.

Lemma fsync_io fd orc r evs orc' : FSyncIgnoreUnsupported fd orc = (r, evs, orc') ->
  forall fd', delivered fd' evs = [] /\ accepted fd' evs = [].
Proof.
  unfold FSyncIgnoreUnsupported. destruct (sys_shape OpFsync fd 0 [] orc) as (o & orc1 & Es & _). rewrite Es.
  destruct o as [n d|e]; [|destruct (zmem e fsync_ignored_errnos)]; intros E; inversion E; subst; intros; split; reflexivity.
Qed.

Lemma close_io fd orc r evs orc' : close_scoped_fd fd orc = (r, evs, orc') ->
  forall fd', delivered fd' evs = [] /\ accepted fd' evs = [].
Proof.
  unfold close_scoped_fd. destruct (sys_shape OpClose fd 0 [] orc) as (o & orc1 & Es & _). rewrite Es.
  destruct o as [n d|e]; [|destruct close_failure_aborts]; intros E; inversion E; subst; intros; split; reflexivity.
Qed.

Lemma SpillBuffer_io s orc r evs orc' : SpillBuffer s orc = (r, evs, orc') ->
  wr_spec (bs_fd s) evs /\
  (forall s', r = Val s' -> bs_fd s' = bs_fd s /\ bs_buf s' = [] /\ accepted (bs_fd s) evs = bs_buf s).
Proof.
  unfold SpillBuffer. destruct (bs_buf s) as [|b l] eqn:Eb.
  - intros E. inversion E; subst. split; [apply wr_spec_nil|]. intros s' H. inversion H; subst. auto.
  - intros E. apply bind_inv in E. destruct E as [(a & ev1 & orc1 & ev2 & Em & Ek & Ee)|(r1 & Em & Hv & Hr)].
    + unfold WriteOrThrow in Em. apply write_or_throw_io in Em. destruct Em as (Q1 & Q2).
      inversion Ek; subst. rewrite app_nil_r. split; [exact Q1|]. intros s' H. inversion H; subst. simpl.
      destruct a. auto.
    + unfold WriteOrThrow in Em. apply write_or_throw_io in Em. destruct Em as (Q1 & Q2).
      split; [exact Q1|]. intros s' H. subst r. destruct r1; simpl in *; discriminate.
Qed.

Lemma bs_write_io s data orc r evs orc' : bs_write s data orc = (r, evs, orc') ->
  wr_spec (bs_fd s) evs /\
  (forall s', r = Val s' -> bs_fd s' = bs_fd s /\ accepted (bs_fd s) evs ++ bs_buf s' = bs_buf s ++ data).
Proof.
  unfold bs_write. destruct (blen (bs_buf s) + blen data <=? kBufferSize).
  - intros E. inversion E; subst. split; [apply wr_spec_nil|]. intros s' H. inversion H; subst. simpl. auto.
  - intros E. apply bind_inv in E. destruct E as [(s1 & ev1 & orc1 & ev2 & Em & Ek & Ee)|(r1 & Em & Hv & Hr)].
    + apply SpillBuffer_io in Em. destruct Em as (Q1 & Q2). destruct (Q2 s1 eq_refl) as (F1 & B1 & A1).
      destruct (blen (bs_buf s1) + blen data <=? kBufferSize).
      * inversion Ek; subst. rewrite app_nil_r. split; [exact Q1|]. intros s' H. inversion H; subst. simpl.
        rewrite B1, A1. auto.
      * apply bind_inv in Ek. destruct Ek as [(a & ev3 & orc3 & ev4 & Em2 & Ek2 & Ee2)|(r2 & Em2 & Hv2 & Hr2)].
        -- unfold WriteOrThrow in Em2. apply write_or_throw_io in Em2. destruct Em2 as (Q3 & Q4). rewrite F1 in *.
           inversion Ek2; subst. rewrite app_nil_r. split; [apply wr_spec_app; assumption|].
           intros s' H. inversion H; subst. split; [exact F1|]. rewrite accepted_app, A1, B1, app_nil_r.
           destruct a. rewrite (Q4 eq_refl). reflexivity.
        -- unfold WriteOrThrow in Em2. apply write_or_throw_io in Em2. destruct Em2 as (Q3 & Q4). rewrite F1 in *.
           subst evs. split; [apply wr_spec_app; assumption|]. intros s' H. subst r. destruct r2; simpl in *; discriminate.
    + apply SpillBuffer_io in Em. destruct Em as (Q1 & Q2). split; [exact Q1|].
      intros s' H. subst r. destruct r1; simpl in *; discriminate.
Qed.

Lemma wr_spec_quiet fd evs : (forall fd', delivered fd' evs = [] /\ accepted fd' evs = []) -> wr_spec fd evs.
Proof. intros H. split; intros; apply H. Qed.

Lemma bs_flush_io s orc r evs orc' : bs_flush s orc = (r, evs, orc') ->
  wr_spec (bs_fd s) evs /\
  (forall s', r = Val s' -> bs_fd s' = bs_fd s /\ accepted (bs_fd s) evs = bs_buf s).
Proof.
  unfold bs_flush. intros E. apply bind_inv in E.
  destruct E as [(s1 & ev1 & orc1 & ev2 & Em & Ek & Ee)|(r1 & Em & Hv & Hr)].
  - apply SpillBuffer_io in Em. destruct Em as (Q1 & Q2). destruct (Q2 s1 eq_refl) as (F1 & B1 & A1).
    apply bind_inv in Ek. destruct Ek as [(a & ev3 & orc3 & ev4 & Em2 & Ek2 & Ee2)|(r2 & Em2 & Hv2 & Hr2)].
    + pose proof (fsync_io _ _ _ _ _ Em2) as Qf. inversion Ek2; subst. rewrite app_nil_r.
      split; [apply wr_spec_app; [exact Q1|apply wr_spec_quiet, Qf]|].
      intros s' H. inversion H; subst. split; [exact F1|]. rewrite accepted_app, A1. rewrite (proj2 (Qf _)). apply app_nil_r.
    + pose proof (fsync_io _ _ _ _ _ Em2) as Qf. subst evs.
      split; [apply wr_spec_app; [exact Q1|apply wr_spec_quiet, Qf]|]. intros s' H. subst r. destruct r2; simpl in *; discriminate.
  - apply SpillBuffer_io in Em. destruct Em as (Q1 & Q2). split; [exact Q1|].
    intros s' H. subst r. destruct r1; simpl in *; discriminate.
Qed.

Lemma in_destructor_inv {A} (m : M A) orc r evs orc' : in_destructor m orc = (r, evs, orc') ->
  exists r0, m orc = (r0, evs, orc') /\ (forall a, r = Val a -> r0 = Val a).
Proof.
  unfold in_destructor. destruct (m orc) as [[r0 ev0] orc0]. destruct r0; intros E; inversion E; subst; eexists; split; eauto; intros; congruence.
Qed.

Lemma bs_destroy_io s orc r evs orc' : bs_destroy s orc = (r, evs, orc') ->
  wr_spec (bs_fd s) evs /\ (r = Val tt -> accepted (bs_fd s) evs = bs_buf s).
Proof.
  unfold bs_destroy. intros E. apply bind_inv in E.
  destruct E as [(s1 & ev1 & orc1 & ev2 & Em & Ek & Ee)|(r1 & Em & Hv & Hr)].
  - apply in_destructor_inv in Em. destruct Em as (r0 & Em & Hr0). rewrite (Hr0 s1 eq_refl) in Em.
    apply bs_flush_io in Em. destruct Em as (Q1 & Q2). destruct (Q2 s1 eq_refl) as (F1 & A1).
    pose proof (close_io _ _ _ _ _ Ek) as Qc. subst evs.
    split; [apply wr_spec_app; [exact Q1|apply wr_spec_quiet, Qc]|].
    intros _. rewrite accepted_app, A1, (proj2 (Qc _)). apply app_nil_r.
  - apply in_destructor_inv in Em. destruct Em as (r0 & Em & Hr0).
    apply bs_flush_io in Em. destruct Em as (Q1 & Q2). split; [exact Q1|].
    intros H. subst r. destruct r1; simpl in *; discriminate.
Qed.

Section ToolIO.
  Context {St : Type}.
  Variable step : St -> list Z -> St * list Z.
  Variable fin : St -> list Z.
  Variable chunk : Z.

  Lemma tool_loop_io : forall fuel s o orc r evs orc',
    tool_loop step chunk fuel s o orc = (r, evs, orc') -> bs_fd o = 1 ->
    forall s' o', r = Val (s', o') ->
      exists chunks, delivered 0 evs = chunks ++ [[]] /\ bs_fd o' = 1 /\
        accepted 1 evs ++ bs_buf o' ++ fin s' = bs_buf o ++ pure_out step fin s chunks.
  Proof.
    induction fuel as [|f IH]; intros s o orc r evs orc' E Hfd s' o' Hr; subst r; simpl in E; [inversion E|].
    destruct (PartialRead 0 chunk orc) as [[rp ev] orc1] eqn:Ep.
    unfold PartialRead in Ep. apply partial_read_io in Ep. destruct Ep as (P1 & P2 & P3).
    destruct rp as [d| | |]; try (inversion E; fail).
    destruct d as [|b d'].
    - inversion E; subst. exists []. simpl. rewrite P3, P1. auto.
    - destruct (step s (b :: d')) as [s1 out] eqn:Est.
      destruct (bs_write o out orc1) as [[r2 ev2] orc2] eqn:Ew.
      apply bs_write_io in Ew. destruct Ew as ((W1 & W2) & W3). rewrite Hfd in *.
      destruct r2 as [o1| | |]; try (inversion E; fail).
      destruct (W3 o1 eq_refl) as (F1 & A1).
      destruct (tool_loop step chunk f s1 o1 orc2) as [[r3 ev3] orc3] eqn:El.
      inversion E; subst r3 evs orc'.
      destruct (IH _ _ _ _ _ _ El F1 s' o' eq_refl) as (chunks & D3 & F3 & A3).
      exists ((b :: d') :: chunks). split; [|split; [exact F3|]].
      + rewrite !delivered_app, P3, W1, D3. reflexivity.
      + rewrite !accepted_app, P1. simpl. rewrite Est.
        rewrite <- app_assoc. rewrite A3. rewrite app_assoc, A1. rewrite <- app_assoc. reflexivity.
  Qed.

  Lemma tool_main_io s0 orc z evs orc' : tool_main step fin chunk s0 orc = (Val z, evs, orc') ->
    z = 0 /\ exists chunks, delivered 0 evs = chunks ++ [[]] /\ accepted 1 evs = pure_out step fin s0 chunks.
  Proof.
    unfold tool_main. intros E.
    apply bind_inv in E. destruct E as [(so & ev1 & orc1 & ev2 & Em & Ek & Ee)|(r1 & Em & Hv & Hr)];
      [|destruct r1; simpl in *; discriminate].
    destruct so as [s' o'].
    destruct (tool_loop_io _ _ _ _ _ _ _ Em eq_refl s' o' eq_refl) as (chunks & D1 & F1 & A1). simpl in A1.
    apply bind_inv in Ek. destruct Ek as [(o2 & ev3 & orc3 & ev4 & Em2 & Ek2 & Ee2)|(r2 & Em2 & Hv2 & Hr2)];
      [|destruct r2; simpl in *; discriminate].
    simpl in Em2. apply bs_write_io in Em2. rewrite F1 in Em2. destruct Em2 as ((W1 & W2) & W3).
    destruct (W3 o2 eq_refl) as (F2 & A2).
    apply bind_inv in Ek2. destruct Ek2 as [(u & ev5 & orc5 & ev6 & Em3 & Ek3 & Ee3)|(r3 & Em3 & Hv3 & Hr3)];
      [|destruct r3; simpl in *; discriminate].
    apply bs_destroy_io in Em3. rewrite F2 in Em3. destruct Em3 as ((X1 & X2) & X3). destruct u. specialize (X3 eq_refl).
    apply bind_inv in Ek3. destruct Ek3 as [(u & ev7 & orc7 & ev8 & Em4 & Ek4 & Ee4)|(r4 & Em4 & Hv4 & Hr4)];
      [|destruct r4; simpl in *; discriminate].
    pose proof (close_io _ _ _ _ _ Em4) as Qc. inversion Ek4; subst.
    split; [reflexivity|]. exists chunks. split.
    - rewrite !delivered_app, D1, W1, X1, (proj1 (Qc _)). simpl. rewrite !app_nil_r. reflexivity.
    - rewrite !accepted_app, X3, (proj2 (Qc _)). simpl. rewrite !app_nil_r.
      rewrite A2. exact A1.
  Qed.
End ToolIO.

(* ------------------------------------------------------------------ *)
(* tool-level theorems *)

Lemma status_of_nonval (r : res Z) : r <> Fuel -> is_val r = false -> status_of r = Signaled SIGABRT.
Proof. destruct r; simpl; intros; congruence. Qed.

Theorem tool_spec_proof : forall (St : Type) (step : St -> list Z -> St * list Z) (fin : St -> list Z) (chunk : Z) (s0 : St)
    (orc : list outcome) (st : status) (evs : list event),
  tool_run step fin chunk s0 orc = (st, evs) ->
  st <> StFuel /\
  (any_failed evs = true -> st = Signaled SIGABRT) /\
  (any_failed evs = false -> st = Exited 0) /\
  (st = Exited 0 -> any_failed evs = false /\
     exists chunks, delivered 0 evs = chunks ++ [[]] /\ accepted 1 evs = pure_out step fin s0 chunks).
Proof.
  intros St step fin chunk s0 orc st evs. unfold tool_run.
  pose proof (tool_main_sound step fin chunk s0 orc) as Hs.
  destruct (tool_main step fin chunk s0 orc) as [[r ev] orc'] eqn:E. simpl in Hs. destruct Hs as (Hf & Hv & _).
  intros H; inversion H; subst st evs; clear H.
  destruct r as [z| | |]; try congruence.
  - destruct (tool_main_io _ _ _ _ _ _ _ _ E) as (Hz & chunks & D & A). subst z.
    simpl in Hv. assert (any_failed ev = false) as Hnf by (destruct (any_failed ev); simpl in *; congruence).
    simpl. repeat split; try congruence. exists chunks. auto.
  - simpl in Hv. assert (any_failed ev = true) as Hnf by (destruct (any_failed ev); simpl in *; congruence).
    simpl. repeat split; try congruence; discriminate.
  - simpl in Hv. assert (any_failed ev = true) as Hnf by (destruct (any_failed ev); simpl in *; congruence).
    simpl. repeat split; try congruence; discriminate.
Qed.

(* ------------------------------------------------------------------ *)
(* scripts *)

Fixpoint script_writes (fd : Z) (acts : list act) : list Z :=
  match acts with
  | [] => []
  | a :: r => (match a with
               | AWrite f d => if f =? fd then d else []
               | AFlushClose f d => if f =? fd then d else []
               | _ => []
               end) ++ script_writes fd r
  end.

Lemma do_act_sound a orc : sound (do_act a orc) orc.
Proof.
  destruct a; simpl.
  - apply bind_sound; [apply PartialRead_sound|]. intros; apply ret_sound.
  - apply WriteOrThrow_sound.
  - apply FSync_sound.
  - apply close_sound.
  - apply bs_destroy_sound.
Qed.

Lemma run_script_sound acts : forall orc, sound (run_script acts orc) orc.
Proof.
  induction acts as [|a r IH]; intros orc; simpl; [apply ret_sound|].
  apply bind_sound; [apply do_act_sound|]. intros; apply IH.
Qed.

Lemma wr_spec_accepted fd evs d fd' : wr_spec fd evs -> accepted fd evs = d ->
  accepted fd' evs = if fd =? fd' then d else [].
Proof.
  intros [_ W] A. destruct (fd =? fd') eqn:E.
  - apply Z.eqb_eq in E. subst fd'. exact A.
  - apply Z.eqb_neq in E. apply W. congruence.
Qed.

Lemma do_act_io a orc u evs orc' : do_act a orc = (Val u, evs, orc') ->
  forall fd, accepted fd evs = script_writes fd [a].
Proof.
  destruct a; simpl; intros E fd0.
  - apply bind_inv in E. destruct E as [(a & ev1 & orc1 & ev2 & Em & Ek & Ee)|(r1 & Em & Hv & Hr)]; [|destruct r1; simpl in *; discriminate].
    unfold PartialRead in Em. apply partial_read_io in Em. destruct Em as (P1 & _). inversion Ek; subst. rewrite app_nil_r. apply P1.
  - unfold WriteOrThrow in E. apply write_or_throw_io in E. destruct E as (W & A). destruct u.
    rewrite app_nil_r. apply wr_spec_accepted; auto.
  - apply fsync_io with (fd' := fd0) in E. apply E.
  - apply close_io with (fd' := fd0) in E. apply E.
  - apply bs_destroy_io in E. simpl in E. destruct E as (W & A). destruct u. rewrite app_nil_r. apply wr_spec_accepted; auto.
Qed.

Lemma run_script_io acts : forall orc u evs orc', run_script acts orc = (Val u, evs, orc') ->
  forall fd, accepted fd evs = script_writes fd acts.
Proof.
  induction acts as [|a r IH]; intros orc u evs orc' E fd; simpl in E.
  - inversion E; subst. reflexivity.
  - apply bind_inv in E. destruct E as [(a0 & ev1 & orc1 & ev2 & Em & Ek & Ee)|(r1 & Em & Hv & Hr)]; [|destruct r1; simpl in *; discriminate].
    subst evs. rewrite accepted_app. rewrite (do_act_io _ _ _ _ _ Em fd). rewrite (IH _ _ _ _ Ek fd).
    simpl. rewrite app_nil_r. reflexivity.
Qed.

Theorem script_spec_proof : forall (catches : bool) (acts : list act) (orc : list outcome) (st : status) (evs : list event),
  script_run catches acts orc = (st, evs) ->
  st <> StFuel /\
  (any_failed evs = true -> st <> Exited 0) /\
  (any_failed evs = false -> st = Exited 0) /\
  (st = Exited 0 -> any_failed evs = false /\ forall fd, accepted fd evs = script_writes fd acts).
Proof.
  intros catches acts orc st evs. unfold script_run.
  pose proof (run_script_sound acts orc) as Hs.
  destruct (run_script acts orc) as [[r ev] orc'] eqn:E. simpl in Hs. destruct Hs as (Hf & Hv & _).
  destruct r as [u| | |]; try congruence; intros H; inversion H; subst st evs; clear H; simpl in Hv.
  - assert (any_failed ev = false) as Hnf by (destruct (any_failed ev); simpl in *; congruence).
    repeat split; try congruence. intros fd. eapply run_script_io; eauto.
  - assert (any_failed ev = true) as Hnf by (destruct (any_failed ev); simpl in *; congruence).
    destruct catches; repeat split; try congruence; try discriminate.
  - assert (any_failed ev = true) as Hnf by (destruct (any_failed ev); simpl in *; congruence).
    repeat split; try congruence; try discriminate.
Qed.

(* ------------------------------------------------------------------ *)
(* iostream tools *)

Lemma write_or_throw_no_abort fd : forall fuel data orc r evs orc',
  write_or_throw fuel fd data orc = (r, evs, orc') -> r <> Abort.
Proof.
  induction fuel as [|f IH]; intros data orc r evs orc' E.
  - destruct data; simpl in E; inversion E; congruence.
  - destruct data as [|b data']; [simpl in E; inversion E; congruence|].
    remember (b :: data') as data eqn:Ed.
    assert (write_or_throw (S f) fd data orc =
          match sys OpWrite fd (Z.of_nat (length data)) data orc with
          | (Ok n _, ev, orc') =>
            if n <? write_throw_below then (Exn, ev, orc')
            else match write_or_throw f fd (skipn (Z.to_nat n) data) orc' with (r, ev', orc'') => (r, ev ++ ev', orc'') end
          | (Err e, ev, orc') =>
            if zmem e write_retry_errnos
            then match write_or_throw f fd data orc' with (r, ev', orc'') => (r, ev ++ ev', orc'') end
            else (Exn, ev, orc')
          end) as Eq by (subst data; reflexivity).
    rewrite Eq in E; clear Eq.
    destruct (sys OpWrite fd (Z.of_nat (length data)) data orc) as [[o ev] orc1].
    destruct o as [n d|e].
    + destruct (n <? write_throw_below); [inversion E; congruence|].
      destruct (write_or_throw f fd (skipn (Z.to_nat n) data) orc1) as [[r2 ev2] orc2] eqn:E2.
      inversion E; subst. eapply IH; eauto.
    + destruct (zmem e write_retry_errnos); [|inversion E; congruence].
      destruct (write_or_throw f fd data orc1) as [[r2 ev2] orc2] eqn:E2.
      inversion E; subst. eapply IH; eauto.
Qed.

Lemma partial_read_no_abort fd amount : forall fuel orc r evs orc',
  partial_read fuel fd amount orc = (r, evs, orc') -> r <> Abort.
Proof.
  induction fuel as [|f IH]; intros orc r evs orc' E; simpl in E; [inversion E; congruence|].
  destruct (sys OpRead fd amount [] orc) as [[o ev] orc1].
  destruct o as [n d|e].
  - destruct (n <? read_throw_below); inversion E; congruence.
  - destruct (zmem e read_retry_errnos); [|inversion E; congruence].
    destruct (partial_read f fd amount orc1) as [[r2 ev2] orc2] eqn:E2. inversion E; subst. eapply IH; eauto.
Qed.

Lemma try_write_spec fd data orc r evs orc' : try_write fd data orc = (r, evs, orc') ->
  exists ok, r = Val ok /\ ok = negb (any_failed evs) /\ wr_spec fd evs /\ (ok = true -> accepted fd evs = data) /\
             (length orc' <= length orc)%nat.
Proof.
  unfold try_write. pose proof (WriteOrThrow_sound fd data orc) as Hs.
  destruct (WriteOrThrow fd data orc) as [[r0 ev0] orc0] eqn:E0. simpl in Hs. destruct Hs as (Hf & Hv & Hl).
  unfold WriteOrThrow in E0. pose proof (write_or_throw_no_abort _ _ _ _ _ _ _ E0) as Hna.
  apply write_or_throw_io in E0. destruct E0 as (W & A).
  destruct r0 as [u| | |]; try congruence; intros E; inversion E; subst; simpl in Hv.
  - exists true. destruct u. repeat split; auto; try apply W; try (destruct (any_failed evs); simpl in *; congruence).
  - exists false. repeat split; auto; try apply W; try discriminate; try (destruct (any_failed evs); simpl in *; congruence).
Qed.

Lemma cout_emit_spec : forall chunks bad orc r evs orc', cout_emit chunks bad orc = (r, evs, orc') ->
  exists b, r = Val b /\ b = bad || any_failed evs /\ wr_spec 1 evs /\
            (b = false -> accepted 1 evs = concat chunks) /\ (length orc' <= length orc)%nat.
Proof.
  induction chunks as [|c rest IH]; intros bad orc r evs orc' E; simpl in E.
  - inversion E; subst. exists bad. rewrite orb_false_r. repeat split; auto; apply wr_spec_nil.
  - destruct bad.
    + inversion E; subst. exists true. repeat split; auto; try apply wr_spec_nil. discriminate.
    + apply bind_inv in E. destruct E as [(ok & ev1 & orc1 & ev2 & Em & Ek & Ee)|(r1 & Em & Hv & Hr)].
      * apply try_write_spec in Em. destruct Em as (ok' & Hok & Hnf & W1 & A1 & L1). assert (ok = negb (any_failed ev1)) as Hnf' by congruence. assert (ok = true -> accepted 1 ev1 = c) as A1' by (intros; apply A1; congruence). clear Hok Hnf A1 ok'. rename Hnf' into Hnf. rename A1' into A1.
        destruct (IH _ _ _ _ _ Ek) as (b & Hb & Hbe & W2 & A2 & L2). subst evs.
        exists b. split; [exact Hb|]. rewrite any_failed_app. split; [rewrite Hbe, Hnf, negb_involutive; reflexivity|].
        split; [apply wr_spec_app; assumption|]. split; [|lia].
        intros Hbf. rewrite Hbf in Hbe. symmetry in Hbe. apply orb_false_iff in Hbe. destruct Hbe as (Hok1 & Hf2).
        rewrite accepted_app. simpl. rewrite A1 by (destruct ok; simpl in *; congruence). rewrite A2 by exact Hbf. reflexivity.
      * apply try_write_spec in Em. destruct Em as (ok' & Hok & _). subst r1. discriminate.
Qed.

Lemma cin_read_all_spec : forall fuel orc r evs orc', (length orc < fuel)%nat ->
  cin_read_all fuel orc = (r, evs, orc') ->
  exists rerr, r = Val rerr /\ rerr = any_failed evs /\ (forall fd, accepted fd evs = []) /\ (length orc' <= length orc)%nat.
Proof.
  induction fuel as [|f IH]; intros orc r evs orc' Hlt E; [lia|]. simpl in E.
  pose proof (PartialRead_sound 0 4096 orc) as Hs.
  destruct (PartialRead 0 4096 orc) as [[r0 ev0] orc0] eqn:E0. simpl in Hs. destruct Hs as (Hf & Hv & Hl).
  unfold PartialRead in E0. pose proof (partial_read_no_abort _ _ _ _ _ _ _ E0) as Hna.
  pose proof (partial_read_io _ _ _ _ _ _ _ E0) as (P1 & _).
  destruct r0 as [d| | |]; try congruence; simpl in Hv.
  - assert (any_failed ev0 = false) as Hnf by (destruct (any_failed ev0); simpl in *; congruence).
    destruct d as [|b d'].
    + inversion E; subst. exists false. auto.
    + pose proof (partial_read_consumes _ _ _ _ _ _ _ E0 ltac:(congruence)) as Hc.
      destruct (cin_read_all f orc0) as [[r2 ev2] orc2] eqn:E2. inversion E; subst.
      assert (length orc0 < f)%nat as Hlt2 by lia.
      destruct (IH _ _ _ _ Hlt2 E2) as (rerr & Hr & He & A & L).
      exists rerr. rewrite any_failed_app, Hnf. simpl. repeat split; auto; [|lia].
      intros fd. rewrite accepted_app, P1, A. reflexivity.
  - inversion E; subst. exists true. repeat split; auto. destruct (any_failed evs); simpl in *; congruence.
Qed.

Definition conf_checked (cf : ioconf) : Prop :=
  io_flushes cf = true /\ io_checks_cout cf = true /\ io_checks_cin cf = true /\ 1 <= io_fail_code cf < 256.

Lemma cout_part_spec cf early late orc r evs orc' : conf_checked cf -> cout_part cf early late orc = (r, evs, orc') ->
  exists z, r = Val z /\ (any_failed evs = true -> z = io_fail_code cf) /\
            (any_failed evs = false -> z = 0 /\ accepted 1 evs = concat (early ++ late)).
Proof.
  intros (Hfl & Hco & _ & Hcode). unfold cout_part. rewrite Hfl, Hco. intros E.
  apply bind_inv in E. destruct E as [(b1 & ev1 & orc1 & ev2 & Em & Ek & Ee)|(r1 & Em & Hv & Hr)].
  - apply cout_emit_spec in Em. destruct Em as (b1' & Hb1 & Hbe1 & W1 & A1 & L1).
    assert (b1 = any_failed ev1) as Hbe1' by (simpl in Hbe1; congruence).
    assert (b1 = false -> accepted 1 ev1 = concat early) as A1' by (intros; apply A1; congruence).
    clear Hb1 Hbe1 A1 b1'. rename Hbe1' into Hbe1. rename A1' into A1.
    apply bind_inv in Ek. destruct Ek as [(b2 & ev3 & orc3 & ev4 & Em2 & Ek2 & Ee2)|(r2 & Em2 & Hv2 & Hr2)].
    + apply cout_emit_spec in Em2. destruct Em2 as (b2' & Hb2 & Hbe2 & W2 & A2 & L2).
      assert (b2 = b1 || any_failed ev3) as Hbe2' by congruence.
      assert (b2 = false -> accepted 1 ev3 = concat late) as A2' by (intros; apply A2; congruence).
      clear Hb2 Hbe2 A2 b2'. rename Hbe2' into Hbe2. rename A2' into A2. subst b2.
      inversion Ek2; subst. rewrite app_nil_r, andb_true_r.
      exists (if any_failed ev1 || any_failed ev3 then io_fail_code cf else 0). split; [reflexivity|].
      rewrite any_failed_app. split.
      * intros Hany. rewrite Hany. reflexivity.
      * intros Hany. rewrite Hany. split; [reflexivity|]. pose proof Hany as Hany'. apply orb_false_iff in Hany'. destruct Hany' as (H1 & H3).
        rewrite accepted_app, concat_app. rewrite A1 by exact H1. rewrite A2 by exact Hany. reflexivity.
    + apply cout_emit_spec in Em2. destruct Em2 as (b2' & Hb2 & _). subst r2. discriminate.
  - apply cout_emit_spec in Em. destruct Em as (b1' & Hb1 & _). subst r1. discriminate.
Qed.

Theorem iostream_spec_proof : forall (cf : ioconf) (early late : list (list Z)) (orc : list outcome) (st : status) (evs : list event),
  conf_checked cf ->
  iostream_run cf early late orc = (st, evs) ->
  st <> StFuel /\
  (any_failed evs = true -> st <> Exited 0) /\
  (any_failed evs = false -> st = Exited 0) /\
  (st = Exited 0 -> any_failed evs = false /\ accepted 1 evs = concat (early ++ late)).
Proof.
  intros cf early late orc st evs Hc. pose proof Hc as (Hfl & Hco & Hci & Hcode).
  unfold iostream_run, iostream_main. rewrite Hci.
  destruct (bind _ _ orc) as [[r ev] orc'] eqn:E. intros H; inversion H; subst st evs; clear H.
  assert (io_fail_code cf mod 256 = io_fail_code cf) as Hmod by (apply Z.mod_small; lia).
  apply bind_inv in E. destruct E as [(rerr & ev1 & orc1 & ev2 & Em & Ek & Ee)|(r1 & Em & Hv & Hr)].
  - assert (rerr = any_failed ev1 /\ (forall fd, accepted fd ev1 = [])) as (Hra & Hacc).
    { destruct (io_uses_cin cf).
      - apply cin_read_all_spec in Em; [|lia]. destruct Em as (x & H1 & H2 & H3 & _). split; [congruence|exact H3].
      - inversion Em; subst. auto. }
    destruct rerr; rewrite ?andb_true_r in Ek; simpl in Ek.
    + inversion Ek; subst. rewrite app_nil_r. simpl. rewrite <- Hra. repeat split; try discriminate; congruence.
    + apply cout_part_spec in Ek; [|exact Hc]. destruct Ek as (z & Hz & Hz1 & Hz0). subst r ev.
      rewrite any_failed_app, <- Hra. simpl.
      destruct (any_failed ev2) eqn:Ha.
      * rewrite (Hz1 eq_refl), Hmod.
        assert (Exited (io_fail_code cf) <> Exited 0) as Hne by (intros H; inversion H; lia).
        split; [discriminate|]. split; [intros _; exact Hne|]. split; [discriminate|]. intros H; contradiction.
      * destruct (Hz0 eq_refl) as (Hzz & Hacc2). subst z. repeat split; try discriminate; try congruence.
        rewrite accepted_app, Hacc. exact Hacc2.
  - exfalso. destruct (io_uses_cin cf).
    + apply cin_read_all_spec in Em; [|lia]. destruct Em as (x & H1 & _). subst r1. discriminate.
    + inversion Em; subst. discriminate.
Qed.

(* ------------------------------------------------------------------ *)
(* Wait and the wrappers *)

Fixpoint zrange_from (start : Z) (n : nat) : list Z :=
  match n with O => [] | S k => start :: zrange_from (start + 1) k end.
Definition zrange (n : Z) : list Z := zrange_from 0 (Z.to_nat n).

Lemma zrange_from_in : forall n start w, start <= w < start + Z.of_nat n -> In w (zrange_from start n).
Proof.
  induction n as [|k IH]; intros start w H; [lia|]. simpl.
  destruct (Z.eq_dec start w) as [E|E]; [left; exact E|right]. apply IH. lia.
Qed.

Lemma zrange_in n w : 0 <= w < n -> In w (zrange n).
Proof. intros H. unfold zrange. apply zrange_from_in. lia. Qed.

Definition wait_ok_b (w : Z) : bool := (WIFEXITED w && (WEXITSTATUS w =? 0)) || negb (Wait w mod 256 =? 0).

Lemma wait_sweep : forallb wait_ok_b (zrange 65536) = true.
Proof. vm_compute. reflexivity. Qed.

Theorem Wait_nonzero_unless_success_proof : forall w, 0 <= w < 65536 ->
  (WIFEXITED w = true /\ WEXITSTATUS w = 0) \/ Wait w mod 256 <> 0.
Proof.
  intros w Hw. pose proof wait_sweep as Hs. rewrite forallb_forall in Hs. specialize (Hs w (zrange_in _ _ Hw)).
  unfold wait_ok_b in Hs. apply orb_true_iff in Hs. destruct Hs as [H|H].
  - left. apply andb_true_iff in H. destruct H as (H1 & H2). apply Z.eqb_eq in H2. auto.
  - right. apply negb_true_iff in H. apply Z.eqb_neq in H. exact H.
Qed.

Lemma wait_exit_sweep : forallb (fun c => Wait (wstatus (TExit c)) =? c) (zrange 256) = true.
Proof. vm_compute. reflexivity. Qed.

Lemma Wait_exit c : 0 <= c < 256 -> Wait (wstatus (TExit c)) = c.
Proof.
  intros Hc. pose proof wait_exit_sweep as Hs. rewrite forallb_forall in Hs.
  specialize (Hs c (zrange_in _ _ Hc)). apply Z.eqb_eq in Hs. exact Hs.
Qed.

Definition wait_sig_b (s : Z) : bool :=
  (s =? 0) ||
  ((Wait (wstatus (TSignal s false)) =? wait_signal_base + s) && (Wait (wstatus (TSignal s true)) =? wait_signal_base + s) &&
   negb ((wait_signal_base + s) mod 256 =? 0)).

Lemma wait_sig_sweep : forallb wait_sig_b (zrange 65) = true.
Proof. vm_compute. reflexivity. Qed.

Lemma Wait_signal s core : 1 <= s <= 64 ->
  Wait (wstatus (TSignal s core)) = wait_signal_base + s /\ Wait (wstatus (TSignal s core)) mod 256 <> 0.
Proof.
  intros Hs. pose proof wait_sig_sweep as Hw. rewrite forallb_forall in Hw.
  assert (0 <= s < 65) as Hr by lia. specialize (Hw s (zrange_in _ _ Hr)). unfold wait_sig_b in Hw.
  apply orb_true_iff in Hw. destruct Hw as [H|H]; [apply Z.eqb_eq in H; lia|].
  apply andb_true_iff in H. destruct H as (H12 & H3). apply andb_true_iff in H12. destruct H12 as (H1 & H2).
  apply Z.eqb_eq in H1, H2. apply negb_true_iff in H3. apply Z.eqb_neq in H3.
  destruct core; [rewrite H2|rewrite H1]; auto.
Qed.

Lemma swallows_false wr : swallows wr = false.
Proof. destruct wr; reflexivity. Qed.

(* collect fails exactly when the child produced fewer lines than the records need *)
Lemma collect_spec needs : forall avail,
  collect needs avail = if (fold_right Nat.add 0%nat needs <=? avail)%nat then Some (avail - fold_right Nat.add 0%nat needs)%nat else None.
Proof.
  induction needs as [|n r IH]; intros avail; simpl.
  - rewrite Nat.sub_0_r. reflexivity.
  - destruct (n <=? avail)%nat eqn:E1.
    + rewrite IH. apply Nat.leb_le in E1.
      destruct (fold_right Nat.add 0%nat r <=? avail - n)%nat eqn:E2.
      * apply Nat.leb_le in E2. rewrite (proj2 (Nat.leb_le _ _)) by lia. f_equal. lia.
      * apply Nat.leb_gt in E2. rewrite (proj2 (Nat.leb_gt _ _)) by lia. reflexivity.
    + apply Nat.leb_gt in E1. rewrite (proj2 (Nat.leb_gt _ _)) by lia. reflexivity.
Qed.

(* ------------------------------------------------------------------ *)
(* ReadOrEOF / ReadOrThrow *)

Lemma read_or_eof_spec fd : forall fuel remaining acc orc r evs orc', (length orc < fuel)%nat ->
  read_or_eof fuel fd remaining acc orc = (r, evs, orc') ->
  r <> Fuel /\ r <> Abort /\ is_val r = negb (any_failed evs) /\
  (forall data, r = Val data -> data = acc ++ concat (delivered fd evs)) /\ (length orc' <= length orc)%nat.
Proof.
  induction fuel as [|f IH]; intros remaining acc orc r evs orc' Hlt E; [lia|].
  cbn [read_or_eof] in E. destruct (remaining <=? 0).
  - inversion E; subst. simpl. rewrite app_nil_r. repeat split; auto; try congruence; try (intros data H; inversion H; reflexivity).
  - pose proof (PartialRead_sound fd remaining orc) as Hs.
    destruct (PartialRead fd remaining orc) as [[rp ev] orc1] eqn:Ep. simpl in Hs. destruct Hs as (Hf & Hv & Hl).
    unfold PartialRead in Ep. pose proof (partial_read_no_abort _ _ _ _ _ _ _ Ep) as Hna.
    pose proof (partial_read_io _ _ _ _ _ _ _ Ep) as (P1 & P2 & P3).
    destruct rp as [d| | |]; try congruence.
    + simpl in Hv. assert (any_failed ev = false) as Hnf by (destruct (any_failed ev); simpl in *; congruence).
      destruct d as [|b d'].
      * inversion E; subst. rewrite Hnf, P3. simpl. rewrite app_nil_r. repeat split; auto; try congruence; try (intros data H; inversion H; reflexivity).
      * pose proof (partial_read_consumes _ _ _ _ _ _ _ Ep ltac:(congruence)) as Hc.
        destruct (read_or_eof f fd (remaining - blen (b :: d')) (acc ++ b :: d') orc1) as [[r2 ev2] orc2] eqn:E2.
        inversion E; subst r evs orc'.
        assert (length orc1 < f)%nat as Hlt2 by lia.
        destruct (IH _ _ _ _ _ _ Hlt2 E2) as (H1 & H2 & H3 & H4 & H5).
        rewrite any_failed_app, Hnf, delivered_app, P3. simpl orb. repeat split; auto; [|lia].
        intros data Hd. rewrite (H4 data Hd). simpl. rewrite <- app_assoc. reflexivity.
    + inversion E; subst. simpl in *. repeat split; auto; try congruence; try (intros data H; discriminate).
Qed.

Lemma read_or_throw_spec fd : forall fuel remaining acc orc r evs orc', (length orc < fuel)%nat ->
  read_or_throw fuel fd remaining acc orc = (r, evs, orc') ->
  r <> Fuel /\ r <> Abort /\ (any_failed evs = true -> r = Exn) /\
  (forall data, r = Val data -> any_failed evs = false /\ data = acc ++ concat (delivered fd evs) /\ ~ In [] (delivered fd evs)).
Proof.
  induction fuel as [|f IH]; intros remaining acc orc r evs orc' Hlt E; [lia|].
  cbn [read_or_throw] in E. destruct (remaining <=? 0).
  - inversion E; subst. simpl. rewrite app_nil_r. repeat split; auto; try congruence; try discriminate; try (intros data H; inversion H; reflexivity).
  - pose proof (PartialRead_sound fd remaining orc) as Hs.
    destruct (PartialRead fd remaining orc) as [[rp ev] orc1] eqn:Ep. simpl in Hs. destruct Hs as (Hf & Hv & Hl).
    unfold PartialRead in Ep. pose proof (partial_read_no_abort _ _ _ _ _ _ _ Ep) as Hna.
    pose proof (partial_read_io _ _ _ _ _ _ _ Ep) as (P1 & P2 & P3).
    destruct rp as [d| | |]; try congruence.
    + simpl in Hv. assert (any_failed ev = false) as Hnf by (destruct (any_failed ev); simpl in *; congruence).
      destruct d as [|b d'].
      * inversion E; subst. repeat split; auto; try congruence; try discriminate.
      * pose proof (partial_read_consumes _ _ _ _ _ _ _ Ep ltac:(congruence)) as Hc.
        destruct (read_or_throw f fd (remaining - blen (b :: d')) (acc ++ b :: d') orc1) as [[r2 ev2] orc2] eqn:E2.
        inversion E; subst r evs orc'.
        assert (length orc1 < f)%nat as Hlt2 by lia.
        destruct (IH _ _ _ _ _ _ Hlt2 E2) as (H1 & H2 & H3 & H4).
        rewrite any_failed_app, Hnf, delivered_app, P3. simpl orb. repeat split; auto.
        -- apply (H4 data H).
        -- destruct (H4 data H) as (_ & Hd & _). rewrite Hd. simpl. rewrite <- app_assoc. reflexivity.
        -- destruct (H4 data H) as (_ & _ & Hn). simpl. intros [Hc0|Hc0]; [discriminate|contradiction].
    + inversion E; subst. simpl in *. repeat split; auto; try congruence; try (intros data H; discriminate).
Qed.

Theorem read_loops_proof :
  (forall fd amount orc r evs orc', ReadOrEOF fd amount orc = (r, evs, orc') ->
     r <> Fuel /\ r <> Abort /\ is_val r = negb (any_failed evs) /\
     (forall data, r = Val data -> data = concat (delivered fd evs))) /\
  (forall fd amount orc r evs orc', ReadOrThrow fd amount orc = (r, evs, orc') ->
     r <> Fuel /\ r <> Abort /\ (any_failed evs = true -> r = Exn) /\
     (forall data, r = Val data -> any_failed evs = false /\ data = concat (delivered fd evs) /\ ~ In [] (delivered fd evs))).
Proof.
  split; intros fd amount orc r evs orc' E.
  - unfold ReadOrEOF in E. destruct (read_or_eof_spec fd _ _ _ _ _ _ _ (Nat.lt_succ_diag_r _) E) as (H1 & H2 & H3 & H4 & _). auto.
  - unfold ReadOrThrow in E. destruct (read_or_throw_spec fd _ _ _ _ _ _ _ (Nat.lt_succ_diag_r _) E) as (H1 & H2 & H3 & H4). auto.
Qed.

Theorem iostream_tools_are_checked_proof :
  conf_checked conf_process_unicode /\ conf_checked conf_mmhsum /\
  conf_checked conf_gigaword_unwrap /\ conf_checked conf_order_independent_hash.
Proof. unfold conf_checked; cbv; intuition congruence. Qed.
