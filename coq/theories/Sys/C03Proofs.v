(* Proofs of the C03 statements (Props/Properties_C03.v) from the lemmas of Sys/SysIOProofs.v and
   Reader/FilePieceProofs.v. *)
From PP Require Import Reader.FilePieceDefs Reader.FilePieceProofs Sys.SysIOProofs.
From Coq Require Import Lia.
Local Open Scope nat_scope.

Lemma C03_write_or_throw_all_proof :
  forall data src script, no_err script = true ->
  exists o', write_or_throw data (os_init src script) = (Ok tt, o') /\ os_sink o' = data.
Proof.
  intros data src script H. destruct (write_or_throw_ok data (os_init src script) H) as (o' & E & S & _).
  exists o'. split; [exact E|exact S].
Qed.

Lemma C03_read_or_eof_all_proof :
  forall amount src script, no_err script = true ->
  exists o', read_or_eof amount (os_init src script) = (Ok (firstn amount src), o') /\ os_src o' = skipn amount src.
Proof.
  intros amount src script H. destruct (read_or_eof_exact amount (os_init src script) H) as (o' & E & S & _).
  exists o'. split; [exact E|exact S].
Qed.

Lemma C03_read_or_throw_all_proof :
  forall amount src script, no_err script = true -> amount <= length src ->
  exists o', read_or_throw amount (os_init src script) = (Ok (firstn amount src), o') /\ os_src o' = skipn amount src.
Proof.
  intros amount src script H Hl. destruct (read_or_throw_ok amount (os_init src script) H Hl) as (o' & E & S & _).
  exists o'. split; [exact E|exact S].
Qed.

Lemma C03_partial_read_progress_proof :
  forall amount src script, no_err script = true -> 1 <= amount ->
  exists l o', partial_read amount (os_init src script) = (Ok l, o') /\ src = l ++ os_src o' /\
    length l <= amount /\ (l = [] -> src = []).
Proof.
  intros amount src script H Ha. destruct (partial_read_ok amount (os_init src script) H) as (l & o' & E & H1 & H2 & H3 & _).
  exists l, o'. repeat split; auto.
Qed.

Lemma C03_ersatz_pread_all_proof :
  forall size off file script, no_err script = true -> off + size <= length file ->
  exists o', ersatz_pread size off file (os_init [] script) = (Ok (firstn size (skipn off file)), o').
Proof.
  intros size off file script H Hl. destruct (ersatz_pread_ok size off file (os_init [] script) H Hl) as (o' & E & _).
  exists o'. exact E.
Qed.

Lemma C03_buffered_stream_all_proof :
  forall ws cap script, no_err script = true ->
  exists b' o', bs_run ws (mkBs [] cap) (os_init [] script) = (Ok b', o') /\ os_sink o' = concat ws.
Proof.
  intros ws cap script H. destruct (bs_run_ok ws (mkBs [] cap) (os_init [] script) H) as (b' & o' & E & S & _).
  exists b', o'. split; [exact E|exact S].
Qed.

Lemma C03_read_compressed_plain_all_proof :
  forall amount src script, no_err script = true -> detect_magic src = false ->
  exists o', rc_open_read_or_eof amount (os_init src script) = (Ok (firstn amount src), o').
Proof. exact rc_open_read_or_eof_exact. Qed.

Lemma C03_read_stream_refills_all_proof :
  forall bufsize src script, 1 <= bufsize -> no_err script = true ->
  exists ls o', read_stream_refills (S (length src)) bufsize (os_init src script) = (Ok ls, o') /\
    concat ls = src /\ Forall (fun l => 1 <= length l <= bufsize) ls.
Proof.
  intros bufsize src script Hb H.
  destruct (read_stream_refills_ok (S (length src)) bufsize (os_init src script) Hb H) as (ls & o' & E & C & F & _).
  { simpl. lia. }
  exists ls, o'. repeat split; auto.
Qed.

Lemma C03_warc_body_all_proof :
  forall missing src script, no_err script = true -> missing <= length src ->
  exists rc' o', warc_body missing RcFd (os_init src script) = (Ok (firstn missing src), rc', o') /\
    rc_pending rc' ++ os_src o' = skipn missing src.
Proof.
  intros missing src script H Hl. unfold warc_body.
  destruct (warc_body_loop_ok (S missing) missing [] RcFd (os_init src script) I H) as (rc' & o' & E & S & _); [lia|exact Hl|].
  exists rc', o'. split; [exact E|exact S].
Qed.

Lemma C03_reader_independent_of_outcomes_proof :
  forall cap src script1 script2 d cr,
  1 <= cap -> no_err script1 = true -> no_err script2 = true -> detect_magic src = false ->
  exists s1 s2 f1 f2,
    fp_open_read cap (os_init src script1) = Ok s1 /\ fp_open_read cap (os_init src script2) = Ok s2 /\
    read_all d cr s1 = (Ok (records d cr src), f1) /\ read_all d cr s2 = (Ok (records d cr src), f2).
Proof.
  intros cap src sc1 sc2 d cr Hc H1 H2 Hm.
  destruct (read_path_records cap src sc1 d cr Hc H1 Hm) as (s1 & f1 & E1 & R1 & _).
  destruct (read_path_records cap src sc2 d cr Hc H2 Hm) as (s2 & f2 & E2 & R2 & _).
  exists s1, s2, f1, f2. auto.
Qed.

Lemma C03_line_filter_tool_output_proof :
  forall keep cap bcap src rscript wscript,
  1 <= cap -> no_err rscript = true -> no_err wscript = true -> detect_magic src = false ->
  line_filter_tool keep cap bcap src rscript wscript = Ok (unrecords 10%Z (filter keep (records 10%Z true src))).
Proof.
  intros keep cap bcap src rs ws Hc Hr Hw Hm. unfold line_filter_tool.
  destruct (read_path_records cap src rs 10%Z true Hc Hr Hm) as (s & sf & E & R & _). rewrite E, R.
  destruct (bs_run_ok (flat_map (fun r => [r; [10%Z]]) (filter keep (records 10%Z true src))) (mkBs [] bcap) (os_init [] ws) Hw)
    as (b' & o' & Eb & S & _).
  rewrite Eb. f_equal. rewrite S. simpl. unfold unrecords.
  assert (Hcat : forall l : list (list Z), concat (flat_map (fun r => [r; [10%Z]]) l) = flat_map (fun r => r ++ [10%Z]) l).
  { induction l as [|r l IH]; [reflexivity|]. simpl. rewrite IH, <- app_assoc. reflexivity. }
  apply Hcat.
Qed.


Lemma C03_ersatz_pwrite_all_proof :
  forall data off file script, no_err script = true -> data <> [] ->
  exists o', ersatz_pwrite data off file (os_init [] script) = (Ok (overwrite file off data), o').
Proof.
  intros data off file script H Hd. destruct (ersatz_pwrite_ok data off file (os_init [] script) H Hd) as (o' & E & _).
  exists o'. exact E.
Qed.

Lemma C03_threaded_buffered_stream_all_proof :
  forall ws bsize script, 1 <= bsize -> no_err script = true ->
  exists o', tbs_run ws bsize (os_init [] script) = (Ok tt, o') /\ os_sink o' = concat ws.
Proof.
  intros ws bsize script Hb H. destruct (tbs_run_ok ws bsize (os_init [] script) Hb H) as (o' & E & S).
  exists o'. split; [exact E|exact S].
Qed.

(* tool level for C02: remove_long_lines with a limit no line exceeds, with the window the constructor computes *)
Lemma C02_identity_filter_tool_proof :
  forall page min_buffer bcap src rscript wscript,
  1 <= page -> no_err rscript = true -> no_err wscript = true -> detect_magic src = false ->
  line_filter_tool (fun _ => true) (initial_cap page min_buffer) bcap src rscript wscript
  = Ok (unrecords 10%Z (records 10%Z true src)).
Proof.
  intros page mb bcap src rs ws Hp Hr Hw Hm.
  destruct (initial_cap_ok page mb Hp) as [_ Hc].
  rewrite (C03_line_filter_tool_output_proof (fun _ => true) (initial_cap page mb) bcap src rs ws Hc Hr Hw Hm).
  f_equal. f_equal. induction (records 10%Z true src) as [|r l IH]; [reflexivity|]. simpl. f_equal. exact IH.
Qed.
