(* C11 -- proofs about Sys/WrapperMainDefs.v *)
From PP Require Import Sys.WrapperMainDefs Sys.ExitProofs Sys.WrapperIOProofs.
From Coq Require Import Lia ZifyBool.
Local Open Scope Z_scope.
Arguments zmem : simpl never.
Arguments Z.ltb : simpl never.
Arguments Z.leb : simpl never.
Arguments Z.eqb : simpl never.

(* ------------------------------------------------------------------ *)
(* counting lines *)

Lemma split_line_some : forall l acc line rest, split_line l acc = Some (line, rest) ->
  forall m p, lines_from (l ++ m) p = S (lines_from (rest ++ m) false).
Proof.
  induction l as [|c l IH]; intros acc line rest E m p; cbn [split_line] in E; [discriminate|].
  cbn [app lines_from]. destruct (c =? 10).
  - inversion E; subst. reflexivity.
  - eapply IH; eauto.
Qed.

Lemma split_line_none : forall l acc, split_line l acc = None ->
  forall p, lines_from l p = if p || nonempty l then 1%nat else 0%nat.
Proof.
  induction l as [|c l IH]; intros acc E p; cbn [split_line] in E.
  - cbn. rewrite orb_false_r. reflexivity.
  - cbn [lines_from nonempty]. destruct (c =? 10); [discriminate|]. rewrite (IH _ E true). rewrite orb_true_r. reflexivity.
Qed.

Lemma lines_from_le : forall l p, (lines_from l p <= length l + (if p then 1 else 0))%nat.
Proof.
  induction l as [|c l IH]; intros p; cbn [lines_from length].
  - destruct p; lia.
  - destruct (c =? 10); [specialize (IH false)|specialize (IH true)]; cbn in IH; destruct p; lia.
Qed.

Lemma lines_of_nil_iff l : lines_of l = 0%nat <-> l = [].
Proof.
  unfold lines_of. split; [|intros ->; reflexivity].
  destruct l as [|c l]; [reflexivity|]. cbn [lines_from]. destruct (c =? 10); [discriminate|].
  intros H. exfalso. revert H. generalize l. induction l0 as [|c' l' IH]; cbn [lines_from]; [discriminate|].
  destruct (c' =? 10); [discriminate|exact IH].
Qed.

(* ------------------------------------------------------------------ *)
(* the reader *)

Definition wf (r : rdr) : Prop := r_eof r = true -> r_src r = [].

Lemma read_more_sound r : forall fuel orc, (length orc < fuel)%nat -> sound (read_more fuel r orc) orc.
Proof.
  induction fuel as [|f IH]; intros orc Hlt; [lia|].
  cbn [read_more].
  destruct (sys_shape OpRead (r_fd r) kReadChunk [] orc) as (o & orc' & Es & Hl & Hd & Hn). rewrite Es.
  destruct o as [n d|e].
  - destruct (n <? read_throw_below) eqn:En.
    + simpl; unfold any_failed; simpl; unfold ev_failed; simpl; rewrite En; repeat split; auto; congruence.
    + destruct (r_src r); simpl; unfold any_failed; simpl; unfold ev_failed; simpl; rewrite En; repeat split; auto; congruence.
  - destruct (zmem e read_retry_errnos) eqn:Ez.
    + assert (orc <> []) as Hne by (intro H0; specialize (Hd H0); discriminate).
      specialize (Hn Hne).
      specialize (IH orc' ltac:(lia)). destruct (read_more f r orc') as [[r2 ev2] orc2]. simpl in *.
      destruct IH as (H1 & H2 & H3). split; [exact H1|]. split; [|lia].
      rewrite H2. unfold any_failed at 2. simpl. unfold ev_failed at 1. simpl. rewrite Ez. reflexivity.
    + simpl. unfold any_failed; simpl; unfold ev_failed; simpl. rewrite Ez. repeat split; auto; congruence.
Qed.

Lemma read_more_val r : forall fuel orc r' evs orc', read_more fuel r orc = (Val r', evs, orc') ->
  r_fd r' = r_fd r /\ r_buf r' ++ r_src r' = r_buf r ++ r_src r /\
  (r_src r = [] -> r_eof r' = true /\ r_src r' = [] /\ r_buf r' = r_buf r) /\
  (r_src r <> [] -> r_eof r' = false /\ (length (r_src r') < length (r_src r))%nat).
Proof.
  induction fuel as [|f IH]; intros orc r' evs orc' E; cbn [read_more] in E; [discriminate|].
  destruct (sys_shape OpRead (r_fd r) kReadChunk [] orc) as (o & orc1 & Es & _). rewrite Es in E.
  destruct o as [n d|e].
  - destruct (n <? read_throw_below); [discriminate|].
    destruct (r_src r) as [|c src] eqn:Esrc.
    + inversion E; subst; cbn. repeat split; auto; try congruence.
    + inversion E; subst; cbn [r_fd r_buf r_src r_eof]. split; [reflexivity|]. split.
      * rewrite <- app_assoc, firstn_skipn. reflexivity.
      * split; [congruence|]. intros _. split; [reflexivity|]. rewrite skipn_length. cbn [length]. destruct (Z.to_nat n); lia.
  - destruct (zmem e read_retry_errnos); [|discriminate].
    destruct (read_more f r orc1) as [[x ev2] orc2] eqn:E2. inversion E; subst. eapply IH; eauto.
Qed.

Lemma read_more_no_abort r : forall fuel orc evs orc', read_more fuel r orc <> (Abort, evs, orc').
Proof.
  induction fuel as [|f IH]; intros orc evs orc' E; cbn [read_more] in E; [discriminate|].
  destruct (sys_shape OpRead (r_fd r) kReadChunk [] orc) as (o & orc1 & Es & _). rewrite Es in E.
  destruct o as [n d|e].
  - destruct (n <? read_throw_below); [discriminate|]. destruct (r_src r); discriminate.
  - destruct (zmem e read_retry_errnos); [|discriminate].
    destruct (read_more f r orc1) as [[x ev2] orc2] eqn:E2. inversion E; subst. eapply IH; eauto.
Qed.

Definition measure (r : rdr) : nat := (length (r_src r) + (if r_eof r then 0 else 1))%nat.

Lemma read_line_sound : forall fuel r orc, (measure r < fuel)%nat -> sound (read_line fuel r orc) orc.
Proof.
  induction fuel as [|f IH]; intros r orc Hlt; [lia|].
  cbn [read_line]. destruct (split_line (r_buf r) []) as [[line rest]|]; [apply ret_sound|].
  destruct (r_eof r) eqn:Ee; [destruct (r_buf r); apply ret_sound|].
  unfold ReadMore. pose proof (read_more_sound r (S (length orc)) orc ltac:(lia)) as Hs.
  destruct (read_more (S (length orc)) r orc) as [[x ev] orc1] eqn:Em. destruct x as [r'| | |].
  - apply read_more_val in Em. destruct Em as (_ & _ & H1 & H2).
    assert (measure r' < f)%nat as Hm.
    { unfold measure in *. rewrite Ee in Hlt. destruct (r_src r) as [|c s] eqn:Es.
      - destruct (H1 eq_refl) as (A & B & _). rewrite A, B. cbn. lia.
      - destruct (H2 ltac:(congruence)) as (A & B). rewrite A. cbn [length] in *. lia. }
    specialize (IH r' orc1 Hm). destruct (read_line f r' orc1) as [[x2 ev2] orc2]. simpl in *.
    destruct Hs as (_ & Hv & Hl). destruct IH as (G1 & G2 & G3). rewrite any_failed_app.
    destruct (any_failed ev); simpl in *; try discriminate. repeat split; auto. lia.
  - destruct Hs as (A & B & C). simpl. repeat split; auto; discriminate.
  - destruct Hs as (A & B & C). simpl. repeat split; auto; discriminate.
  - destruct Hs as (A & B & C). congruence.
Qed.

Lemma ReadLine_sound r orc : sound (ReadLine r orc) orc.
Proof. unfold ReadLine. apply read_line_sound. unfold measure. destruct (r_eof r); lia. Qed.

Lemma lines_left_split r line rest :
  split_line (r_buf r) [] = Some (line, rest) ->
  lines_left r = S (lines_left (mkRd (r_fd r) rest (r_src r) (r_eof r))).
Proof. intros E. unfold lines_left, lines_of. cbn [r_buf r_src]. eapply split_line_some; eauto. Qed.

Lemma read_line_val : forall fuel r orc o r' evs orc', wf r ->
  read_line fuel r orc = (Val (o, r'), evs, orc') ->
  wf r' /\ r_fd r' = r_fd r /\
  match o with
  | Some _ => lines_left r = S (lines_left r')
  | None => lines_left r = 0%nat /\ lines_left r' = 0%nat
  end.
Proof.
  assert (forall r (orc : list outcome) o r' (evs : list event) (orc' : list outcome), wf r ->
    match split_line (r_buf r) [] with
    | Some (line, rest) => (Val (Some line, mkRd (r_fd r) rest (r_src r) (r_eof r)), @nil event, orc)
    | None => match r_buf r with
              | [] => (Val (None, r), [], orc)
              | _ :: _ => (Val (Some (r_buf r), mkRd (r_fd r) [] (r_src r) true), [], orc)
              end
    end = (Val (o, r'), evs, orc') ->
    (split_line (r_buf r) [] = None -> r_eof r = true) ->
    wf r' /\ r_fd r' = r_fd r /\
    match o with
    | Some _ => lines_left r = S (lines_left r')
    | None => lines_left r = 0%nat /\ lines_left r' = 0%nat
    end) as Common.
  { intros r orc o r' evs orc' Hwf E He.
    destruct (split_line (r_buf r) []) as [[line rest]|] eqn:Esp.
    - inversion E; subst. split; [exact Hwf|]. split; [reflexivity|]. eapply lines_left_split. exact Esp.
    - specialize (He eq_refl). pose proof (Hwf He) as Hsrc.
      pose proof (split_line_none _ _ Esp false) as Hn. cbn [orb] in Hn.
      destruct (r_buf r) as [|b bs] eqn:Eb.
      + inversion E; subst. split; [exact Hwf|]. split; [reflexivity|].
        unfold lines_left, lines_of. rewrite Eb, Hsrc. cbn. auto.
      + inversion E; subst. split; [intros _; exact Hsrc|]. split; [reflexivity|].
        unfold lines_left, lines_of. cbn [r_buf r_src]. rewrite Eb, Hsrc, app_nil_r. rewrite Hn. reflexivity. }
  induction fuel as [|f IH]; intros r orc o r' evs orc' Hwf E; cbn [read_line] in E.
  - destruct (split_line (r_buf r) []) as [[line rest]|] eqn:Esp.
    + eapply Common; eauto. rewrite Esp. exact E. congruence.
    + destruct (r_eof r) eqn:Ee; [|discriminate]. eapply Common; eauto. rewrite Esp. exact E.
  - destruct (split_line (r_buf r) []) as [[line rest]|] eqn:Esp.
    + eapply Common; eauto. rewrite Esp. exact E. congruence.
    + destruct (r_eof r) eqn:Ee; [eapply Common; eauto; rewrite Esp; exact E|].
      unfold ReadMore in E. destruct (read_more (S (length orc)) r orc) as [[x ev] orc1] eqn:Em.
      destruct x as [r1| | |]; try discriminate.
      destruct (read_line f r1 orc1) as [[x2 ev2] orc2] eqn:E2. inversion E; subst x2 evs orc'.
      apply read_more_val in Em. destruct Em as (Hfd & Hcat & H1 & H2).
      assert (wf r1) as Hwf1.
      { intros He1. destruct (r_src r) eqn:Es; [apply H1; reflexivity|]. destruct (H2 ltac:(congruence)) as (A & _). congruence. }
      destruct (IH _ _ _ _ _ _ Hwf1 E2) as (G1 & G2 & G3). split; [exact G1|]. split; [congruence|].
      assert (lines_left r = lines_left r1) as Hll by (unfold lines_left; rewrite Hcat; reflexivity).
      rewrite Hll. exact G3.
Qed.

Lemma ReadLine_val r orc o r' evs orc' : wf r -> ReadLine r orc = (Val (o, r'), evs, orc') ->
  wf r' /\ r_fd r' = r_fd r /\
  match o with
  | Some _ => lines_left r = S (lines_left r')
  | None => lines_left r = 0%nat /\ lines_left r' = 0%nat
  end.
Proof. unfold ReadLine. apply read_line_val. Qed.

(* ---- content of the lines *)
Lemma split_line_text : forall l acc line rest, split_line l acc = Some (line, rest) ->
  forall m, text_lines (l ++ m) acc = line :: text_lines (rest ++ m) [].
Proof.
  induction l as [|c l IH]; intros acc line rest E m; cbn [split_line] in E; [discriminate|].
  cbn [app text_lines]. destruct (c =? 10).
  - inversion E; subst. reflexivity.
  - eapply IH; eauto.
Qed.

Lemma split_line_none_text : forall l acc, split_line l acc = None ->
  text_lines l acc = match rev acc ++ l with [] => [] | _ :: _ => [rev acc ++ l] end.
Proof.
  induction l as [|c l IH]; intros acc E; cbn [split_line] in E.
  - cbn [text_lines]. rewrite app_nil_r. destruct acc as [|a acc]; [reflexivity|].
    destruct (rev (a :: acc)) eqn:Er; [|reflexivity].
    apply (f_equal (@length Z)) in Er. rewrite rev_length in Er. discriminate.
  - cbn [text_lines]. destruct (c =? 10); [discriminate|]. rewrite (IH _ E). cbn [rev]. rewrite <- app_assoc. reflexivity.
Qed.

Lemma lines_from_text : forall l cur, lines_from l (nonempty cur) = length (text_lines l cur).
Proof.
  induction l as [|c l IH]; intros cur; cbn [lines_from text_lines].
  - destruct cur; reflexivity.
  - destruct (c =? 10); [cbn [length]; rewrite <- (IH []); reflexivity|]. rewrite <- (IH (c :: cur)). reflexivity.
Qed.

Lemma lines_of_text l : lines_of l = length (text_lines l []).
Proof. unfold lines_of. rewrite <- lines_from_text. reflexivity. Qed.

Definition rcat (r : rdr) : list Z := r_buf r ++ r_src r.

Lemma read_line_text : forall fuel r orc o r' evs orc', wf r ->
  read_line fuel r orc = (Val (o, r'), evs, orc') ->
  match o with
  | Some l => text_lines (rcat r) [] = l :: text_lines (rcat r') []
  | None => text_lines (rcat r) [] = []
  end.
Proof.
  assert (forall r (orc : list outcome) o r' (evs : list event) (orc' : list outcome), wf r ->
    match split_line (r_buf r) [] with
    | Some (line, rest) => (Val (Some line, mkRd (r_fd r) rest (r_src r) (r_eof r)), @nil event, orc)
    | None => match r_buf r with
              | [] => (Val (None, r), [], orc)
              | _ :: _ => (Val (Some (r_buf r), mkRd (r_fd r) [] (r_src r) true), [], orc)
              end
    end = (Val (o, r'), evs, orc') ->
    (split_line (r_buf r) [] = None -> r_eof r = true) ->
    match o with
    | Some l => text_lines (rcat r) [] = l :: text_lines (rcat r') []
    | None => text_lines (rcat r) [] = []
    end) as Common.
  { intros r orc o r' evs orc' Hwf E He. unfold rcat.
    destruct (split_line (r_buf r) []) as [[line rest]|] eqn:Esp.
    - inversion E; subst. cbn [r_buf r_src]. eapply split_line_text; eauto.
    - specialize (He eq_refl). pose proof (Hwf He) as Hsrc.
      pose proof (split_line_none_text _ _ Esp) as Hn. cbn [rev app] in Hn.
      destruct (r_buf r) as [|b bs] eqn:Eb.
      + inversion E; subst. rewrite Hsrc. reflexivity.
      + inversion E; subst. cbn [r_buf r_src]. rewrite Hsrc, app_nil_r. rewrite Hn. reflexivity. }
  induction fuel as [|f IH]; intros r orc o r' evs orc' Hwf E; cbn [read_line] in E.
  - destruct (split_line (r_buf r) []) as [[line rest]|] eqn:Esp.
    + eapply Common; eauto. rewrite Esp. exact E. congruence.
    + destruct (r_eof r) eqn:Ee; [|discriminate]. eapply Common; eauto. rewrite Esp. exact E.
  - destruct (split_line (r_buf r) []) as [[line rest]|] eqn:Esp.
    + eapply Common; eauto. rewrite Esp. exact E. congruence.
    + destruct (r_eof r) eqn:Ee; [eapply Common; eauto; rewrite Esp; exact E|].
      unfold ReadMore in E. destruct (read_more (S (length orc)) r orc) as [[x ev] orc1] eqn:Em.
      destruct x as [r1| | |]; try discriminate.
      destruct (read_line f r1 orc1) as [[x2 ev2] orc2] eqn:E2. inversion E; subst x2 evs orc'.
      apply read_more_val in Em. destruct Em as (Hfd & Hcat & H1 & H2).
      assert (wf r1) as Hwf1.
      { intros He1. destruct (r_src r) eqn:Es; [apply H1; reflexivity|]. destruct (H2 ltac:(congruence)) as (A & _). congruence. }
      pose proof (IH _ _ _ _ _ _ Hwf1 E2) as G. unfold rcat in *. rewrite <- Hcat. exact G.
Qed.

(* ------------------------------------------------------------------ *)
(* weak and strong soundness without the oracle-length component *)

Definition snd2 {A} (x : res A * list event * list outcome) : Prop :=
  match x with (r, evs, _) => r <> Fuel /\ is_val r = negb (any_failed evs) end.
Definition wk {A} (x : res A * list event * list outcome) : Prop :=
  match x with (r, evs, _) => r <> Fuel /\ (any_failed evs = true -> is_val r = false) end.

Lemma sound_snd2 {A} (x : res A * list event * list outcome) orc : sound x orc -> snd2 x.
Proof. destruct x as [[r e] o]. simpl. tauto. Qed.
Lemma snd2_wk {A} (x : res A * list event * list outcome) : snd2 x -> wk x.
Proof. destruct x as [[r e] o]. simpl. intros (H1 & H2). split; [exact H1|]. intros H. rewrite H in H2. exact H2. Qed.

Lemma bind_snd2 {A B} (m : M A) (k : A -> M B) orc :
  snd2 (m orc) -> (forall a ev orc1, m orc = (Val a, ev, orc1) -> snd2 (k a orc1)) -> snd2 (bind m k orc).
Proof.
  unfold bind. intros Hm Hk. destruct (m orc) as [[r ev] orc1] eqn:Em. simpl in Hm. destruct Hm as (Hf & Hv).
  destruct r as [a| | |].
  - specialize (Hk a ev orc1 eq_refl). destruct (k a orc1) as [[r2 ev2] orc2]. simpl in *.
    destruct Hk as (Hf2 & Hv2). rewrite any_failed_app. destruct (any_failed ev); simpl in *; try discriminate. auto.
  - simpl in *. split; [discriminate|exact Hv].
  - simpl in *. split; [discriminate|exact Hv].
  - congruence.
Qed.

Lemma bind_wk {A B} (m : M A) (k : A -> M B) orc :
  wk (m orc) -> (forall a ev orc1, m orc = (Val a, ev, orc1) -> wk (k a orc1)) -> wk (bind m k orc).
Proof.
  unfold bind. intros Hm Hk. destruct (m orc) as [[r ev] orc1] eqn:Em. simpl in Hm. destruct Hm as (Hf & Hv).
  destruct r as [a| | |].
  - specialize (Hk a ev orc1 eq_refl). destruct (k a orc1) as [[r2 ev2] orc2]. simpl in *.
    destruct Hk as (Hf2 & Hv2). rewrite any_failed_app. split; [exact Hf2|]. intros H.
    destruct (any_failed ev); simpl in *; [specialize (Hv eq_refl); discriminate|auto].
  - simpl in *. split; [discriminate|reflexivity].
  - simpl in *. split; [discriminate|reflexivity].
  - congruence.
Qed.

Lemma ret_snd2 {A} (a : A) orc : snd2 (ret a orc).
Proof. simpl. split; [discriminate|reflexivity]. Qed.
Lemma raise_wk {A} orc : wk (@raise A orc).
Proof. simpl. split; [discriminate|reflexivity]. Qed.

(* no failed event and still no value: only for the weak computations *)
Lemma snd2_progress {A} (r : res A) evs orc : snd2 (r, evs, orc) -> any_failed evs = false -> is_val r = true.
Proof. simpl. intros (_ & H) E. rewrite E in H. exact H. Qed.

(* ------------------------------------------------------------------ *)
(* read_lines, peek_eof *)

Lemma ReadLine_snd2 r orc : snd2 (ReadLine r orc).
Proof. eapply sound_snd2. apply ReadLine_sound. Qed.

Lemma read_lines_wk : forall n r acc orc, wk (read_lines n r acc orc).
Proof.
  induction n as [|n IH]; intros r acc orc; cbn [read_lines].
  - apply snd2_wk, ret_snd2.
  - apply bind_wk; [apply snd2_wk, ReadLine_snd2|]. intros [o r1] ev orc1 _. cbn [fst snd].
    destruct o; [apply IH|apply raise_wk].
Qed.

Lemma read_lines_val : forall n r acc orc ls r' evs orc', wf r ->
  read_lines n r acc orc = (Val (ls, r'), evs, orc') ->
  wf r' /\ r_fd r' = r_fd r /\ lines_left r = (n + lines_left r')%nat.
Proof.
  induction n as [|n IH]; intros r acc orc ls r' evs orc' Hwf E; cbn [read_lines] in E.
  - inversion E; subst. auto.
  - apply bind_inv in E. destruct E as [([o r1] & ev1 & orc1 & ev2 & Em & Ek & Ee)|(r1 & Em & Hv & Hr)]; [|destruct r1; discriminate].
    cbn [fst snd] in Ek. destruct (ReadLine_val _ _ _ _ _ _ Hwf Em) as (W1 & F1 & L1).
    destruct o as [l|]; [|discriminate].
    destruct (IH _ _ _ _ _ _ _ W1 Ek) as (W2 & F2 & L2). split; [exact W2|]. split; [congruence|]. lia.
Qed.

Lemma read_lines_progress : forall n r acc orc x evs orc', wf r ->
  read_lines n r acc orc = (x, evs, orc') -> any_failed evs = false -> (n <= lines_left r)%nat -> is_val x = true.
Proof.
  induction n as [|n IH]; intros r acc orc x evs orc' Hwf E Hnf Hle; cbn [read_lines] in E.
  - inversion E; subst. reflexivity.
  - apply bind_inv in E. destruct E as [([o r1] & ev1 & orc1 & ev2 & Em & Ek & Ee)|(r1 & Em & Hv & Hr)].
    + cbn [fst snd] in Ek. destruct (ReadLine_val _ _ _ _ _ _ Hwf Em) as (W1 & F1 & L1).
      subst evs. rewrite any_failed_app in Hnf. apply orb_false_iff in Hnf. destruct Hnf as (N1 & N2).
      destruct o as [l|]; [|destruct L1; lia].
      eapply IH; eauto. lia.
    + pose proof (ReadLine_snd2 r orc) as Hs. rewrite Em in Hs.
      pose proof (snd2_progress _ _ _ Hs Hnf). congruence.
Qed.

Lemma ReadMore_snd2 r orc : snd2 (ReadMore r orc).
Proof. eapply sound_snd2. unfold ReadMore. apply read_more_sound. lia. Qed.

Lemma peek_eof_wk r orc : wk (peek_eof r orc).
Proof.
  unfold peek_eof. destruct (r_buf r); [|apply raise_wk]. destruct (r_eof r); [apply snd2_wk, ret_snd2|].
  apply bind_wk; [apply snd2_wk, ReadMore_snd2|]. intros r' ev orc1 _. destruct (r_buf r'); [apply snd2_wk, ret_snd2|apply raise_wk].
Qed.

Lemma rcat_nil r : lines_left r = 0%nat -> r_buf r = [] /\ r_src r = [].
Proof. unfold lines_left. intros H. apply lines_of_nil_iff in H. apply app_eq_nil in H. exact H. Qed.

Lemma peek_eof_val r orc u evs orc' : wf r -> peek_eof r orc = (Val u, evs, orc') -> lines_left r = 0%nat.
Proof.
  unfold peek_eof. intros Hwf E. destruct (r_buf r) as [|b bs] eqn:Eb; [|discriminate].
  destruct (r_eof r) eqn:Ee.
  - unfold lines_left. rewrite Eb, (Hwf Ee). reflexivity.
  - apply bind_inv in E. destruct E as [(r1 & ev1 & orc1 & ev2 & Em & Ek & Ee2)|(r1 & Em & Hv & Hr)]; [|destruct r1; discriminate].
    unfold ReadMore in Em. apply read_more_val in Em. destruct Em as (_ & Hcat & H1 & H2).
    destruct (r_buf r1) as [|c cs] eqn:Eb1; [|discriminate].
    destruct (r_src r) as [|s ss] eqn:Es.
    + unfold lines_left. rewrite Eb, Es. reflexivity.
    + destruct (H2 ltac:(congruence)) as (_ & Hlen). rewrite Eb in Hcat. cbn [app] in Hcat.
      rewrite <- Hcat in Hlen. lia.
Qed.

Lemma peek_eof_progress r orc x evs orc' : peek_eof r orc = (x, evs, orc') ->
  any_failed evs = false -> lines_left r = 0%nat -> is_val x = true.
Proof.
  unfold peek_eof. intros E Hnf H0. destruct (rcat_nil _ H0) as (Hb & Hs). rewrite Hb in E.
  destruct (r_eof r); [inversion E; reflexivity|].
  apply bind_inv in E. destruct E as [(r1 & ev1 & orc1 & ev2 & Em & Ek & Ee2)|(r1 & Em & Hv & Hr)].
  - unfold ReadMore in Em. apply read_more_val in Em. destruct Em as (_ & _ & H1 & _).
    destruct (H1 Hs) as (_ & _ & Hb1). rewrite Hb1, Hb in Ek. inversion Ek; reflexivity.
  - pose proof (ReadMore_snd2 r orc) as Hs2. rewrite Em in Hs2.
    pose proof (snd2_progress _ _ _ Hs2 Hnf). congruence.
Qed.

(* ------------------------------------------------------------------ *)
Section Main.
  Context {D Sf Sc : Type}.
  Variable feed : Sf -> list Z -> Sf * D * list (list Z).
  Variable need : D -> nat.
  Variable emit : Sc -> D -> list (list Z) -> Sc * list (list Z).
  Variable wr : wrapper.
  Variable flush_rate : nat.

  Notation collect_loop := (collect_loop need emit).
  Notation collector_thread := (collector_thread need emit wr).
  Notation feed_loop := (feed_loop feed flush_rate).
  Notation feeder_thread := (feeder_thread feed wr flush_rate).
  Notation total_need := (total_need need).

  Lemma bs_write_all_snd2 pieces s orc : snd2 (bs_write_all s pieces orc).
  Proof. eapply sound_snd2. apply bs_write_all_sound. Qed.

  Lemma collect_loop_wk : forall ds sc r o orc, wk (collect_loop ds sc r o orc).
  Proof.
    induction ds as [|d ds IH]; intros sc r o orc; cbn [WrapperMainDefs.collect_loop].
    - apply snd2_wk, ret_snd2.
    - apply bind_wk; [apply read_lines_wk|]. intros [ls r1] ev orc1 _. cbn [fst snd].
      destruct (emit sc d ls) as [sc' out].
      apply bind_wk; [apply snd2_wk, bs_write_all_snd2|]. intros o' ev' orc2 _. apply IH.
  Qed.

  Lemma collect_loop_val : forall ds sc r o orc r' o' evs orc', wf r ->
    collect_loop ds sc r o orc = (Val (r', o'), evs, orc') ->
    wf r' /\ r_fd r' = r_fd r /\ lines_left r = (total_need ds + lines_left r')%nat.
  Proof.
    induction ds as [|d ds IH]; intros sc r o orc r' o' evs orc' Hwf E; cbn [WrapperMainDefs.collect_loop] in E.
    - inversion E; subst. auto.
    - apply bind_inv in E. destruct E as [([ls r1] & ev1 & orc1 & ev2 & Em & Ek & Ee)|(r1 & Em & Hv & Hr)]; [|destruct r1; discriminate].
      cbn [fst snd] in Ek. destruct (read_lines_val _ _ _ _ _ _ _ _ Hwf Em) as (W1 & F1 & L1).
      destruct (emit sc d ls) as [sc' out].
      apply bind_inv in Ek. destruct Ek as [(o1 & ev3 & orc3 & ev4 & Em2 & Ek2 & Ee2)|(r2 & Em2 & Hv2 & Hr2)]; [|destruct r2; discriminate].
      destruct (IH _ _ _ _ _ _ _ _ W1 Ek2) as (W2 & F2 & L2). split; [exact W2|]. split; [congruence|].
      unfold WrapperMainDefs.total_need in *. cbn [map fold_right]. lia.
  Qed.

  Lemma collect_loop_progress : forall ds sc r o orc x evs orc', wf r ->
    collect_loop ds sc r o orc = (x, evs, orc') -> any_failed evs = false ->
    (total_need ds <= lines_left r)%nat -> is_val x = true.
  Proof.
    induction ds as [|d ds IH]; intros sc r o orc x evs orc' Hwf E Hnf Hle; cbn [WrapperMainDefs.collect_loop] in E.
    - inversion E; subst. reflexivity.
    - unfold WrapperMainDefs.total_need in Hle. cbn [map fold_right] in Hle.
      apply bind_inv in E. destruct E as [([ls r1] & ev1 & orc1 & ev2 & Em & Ek & Ee)|(r1 & Em & Hv & Hr)].
      + cbn [fst snd] in Ek. destruct (read_lines_val _ _ _ _ _ _ _ _ Hwf Em) as (W1 & F1 & L1).
        subst evs. rewrite any_failed_app in Hnf. apply orb_false_iff in Hnf. destruct Hnf as (N1 & N2).
        destruct (emit sc d ls) as [sc' out].
        apply bind_inv in Ek. destruct Ek as [(o1 & ev3 & orc3 & ev4 & Em2 & Ek2 & Ee2)|(r2 & Em2 & Hv2 & Hr2)].
        * subst ev2. rewrite any_failed_app in N2. apply orb_false_iff in N2. destruct N2 as (N3 & N4).
          eapply IH; eauto. unfold WrapperMainDefs.total_need. lia.
        * pose proof (bs_write_all_snd2 out o orc1) as Hs. rewrite Em2 in Hs.
          pose proof (snd2_progress _ _ _ Hs N2). congruence.
      + pose proof (read_lines_progress _ _ _ _ _ _ _ Hwf Em Hnf ltac:(lia)). congruence.
  Qed.

  Lemma close_snd2 fd orc : snd2 (close_scoped_fd fd orc).
  Proof. eapply sound_snd2. apply close_sound. Qed.
  Lemma bs_destroy_snd2 s orc : snd2 (bs_destroy s orc).
  Proof. eapply sound_snd2. apply bs_destroy_sound. Qed.
  Lemma bs_flush_snd2 s orc : snd2 (bs_flush s orc).
  Proof. eapply sound_snd2. apply bs_flush_sound. Qed.

  Lemma collector_thread_wk sc0 fd_c ds child_out orc : wk (collector_thread sc0 fd_c ds child_out orc).
  Proof.
    unfold WrapperMainDefs.collector_thread. apply bind_wk; [apply collect_loop_wk|]. intros [r o] ev orc1 _.
    apply bind_wk; [destruct (surplus_check wr); [apply peek_eof_wk|apply snd2_wk, ret_snd2]|]. intros _ ev2 orc2 _.
    apply bind_wk; [apply snd2_wk, close_snd2|]. intros _ ev3 orc3 _. apply snd2_wk, bs_destroy_snd2.
  Qed.

  Lemma rd0_wf fd src : wf (mkRd fd [] src false).
  Proof. intros H. discriminate. Qed.
  Lemma rd0_left fd src : lines_left (mkRd fd [] src false) = lines_of src.
  Proof. reflexivity. Qed.

  Lemma collector_thread_val sc0 fd_c ds child_out orc u evs orc' :
    collector_thread sc0 fd_c ds child_out orc = (Val u, evs, orc') ->
    (total_need ds <= lines_of child_out)%nat /\ (surplus_check wr = true -> total_need ds = lines_of child_out).
  Proof.
    unfold WrapperMainDefs.collector_thread. intros E.
    apply bind_inv in E. destruct E as [([r o] & ev1 & orc1 & ev2 & Em & Ek & Ee)|(r1 & Em & Hv & Hr)]; [|destruct r1; discriminate].
    destruct (collect_loop_val _ _ _ _ _ _ _ _ _ (rd0_wf _ _) Em) as (W & _ & L). rewrite rd0_left in L.
    split; [lia|]. intros Hs. rewrite Hs in Ek. cbn [fst] in Ek.
    apply bind_inv in Ek. destruct Ek as [(u1 & ev3 & orc3 & ev4 & Em2 & _ & _)|(r2 & Em2 & Hv2 & Hr2)]; [|destruct r2; discriminate].
    pose proof (peek_eof_val _ _ _ _ _ W Em2). lia.
  Qed.

  Lemma collector_thread_progress sc0 fd_c ds child_out orc x evs orc' :
    collector_thread sc0 fd_c ds child_out orc = (x, evs, orc') -> any_failed evs = false ->
    (total_need ds <= lines_of child_out)%nat -> (surplus_check wr = true -> total_need ds = lines_of child_out) ->
    is_val x = true.
  Proof.
    unfold WrapperMainDefs.collector_thread. intros E Hnf Hle Heq.
    apply bind_inv in E. destruct E as [([r o] & ev1 & orc1 & ev2 & Em & Ek & Ee)|(r1 & Em & Hv & Hr)].
    - destruct (collect_loop_val _ _ _ _ _ _ _ _ _ (rd0_wf _ _) Em) as (W & _ & L). rewrite rd0_left in L.
      subst evs. rewrite any_failed_app in Hnf. apply orb_false_iff in Hnf. destruct Hnf as (N1 & N2). cbn [fst snd] in Ek.
      apply bind_inv in Ek. destruct Ek as [(u1 & ev3 & orc3 & ev4 & Em2 & Ek2 & Ee2)|(r2 & Em2 & Hv2 & Hr2)].
      + subst ev2. rewrite any_failed_app in N2. apply orb_false_iff in N2. destruct N2 as (N3 & N4).
        apply bind_inv in Ek2. destruct Ek2 as [(u2 & ev5 & orc5 & ev6 & Em3 & Ek3 & Ee3)|(r3 & Em3 & Hv3 & Hr3)].
        * subst ev4. rewrite any_failed_app in N4. apply orb_false_iff in N4. destruct N4 as (N5 & N6).
          pose proof (bs_destroy_snd2 o orc5) as Hs. rewrite Ek3 in Hs. exact (snd2_progress _ _ _ Hs N6).
        * pose proof (close_snd2 fd_c orc3) as Hs. rewrite Em3 in Hs. pose proof (snd2_progress _ _ _ Hs N4). congruence.
      + destruct (surplus_check wr) eqn:Esc.
        * pose proof (peek_eof_progress _ _ _ _ _ Em2 N2 ltac:(specialize (Heq eq_refl); lia)). congruence.
        * inversion Em2; subst. discriminate.
    - pose proof (collect_loop_progress _ _ _ _ _ _ _ _ (rd0_wf _ _) Em Hnf ltac:(rewrite rd0_left; lia)). congruence.
  Qed.

  (* ---- feeder *)
  Lemma periodic_flush_snd2 sent cnt o orc : snd2 (periodic_flush flush_rate sent cnt o orc).
  Proof.
    unfold periodic_flush. destruct (sent && (0 <? flush_rate)%nat); [|apply ret_snd2].
    destruct (cnt <=? 1)%nat; [|apply ret_snd2].
    apply bind_snd2; [apply bs_flush_snd2|]. intros; apply ret_snd2.
  Qed.

  Lemma feed_loop_snd2 : forall fuel sf cnt r o acc orc, wf r -> (lines_left r < fuel)%nat ->
    snd2 (feed_loop fuel sf cnt r o acc orc).
  Proof.
    induction fuel as [|f IH]; intros sf cnt r o acc orc Hwf Hlt; [lia|]. cbn [WrapperMainDefs.feed_loop].
    apply bind_snd2; [apply ReadLine_snd2|]. intros [ol r1] ev orc1 Em. cbn [fst snd].
    destruct (ReadLine_val _ _ _ _ _ _ Hwf Em) as (W1 & _ & L1).
    destruct ol as [l|]; [|apply ret_snd2].
    destruct (feed sf l) as [[sf' d] pieces].
    apply bind_snd2; [apply bs_write_all_snd2|]. intros o1 ev2 orc2 _.
    apply bind_snd2; [apply periodic_flush_snd2|]. intros oc ev3 orc3 _.
    apply IH; [exact W1|lia].
  Qed.

  Lemma feed_loop_val : forall fuel sf cnt r o acc orc ds o' r' evs orc', wf r ->
    feed_loop fuel sf cnt r o acc orc = (Val (ds, o', r'), evs, orc') ->
    ds = rev acc ++ descs feed sf (text_lines (rcat r) []).
  Proof.
    induction fuel as [|f IH]; intros sf cnt r o acc orc ds o' r' evs orc' Hwf E; cbn [WrapperMainDefs.feed_loop] in E; [discriminate|].
    apply bind_inv in E. destruct E as [([ol r1] & ev1 & orc1 & ev2 & Em & Ek & Ee)|(r1 & Em & Hv & Hr)]; [|destruct r1; discriminate].
    cbn [fst snd] in Ek. destruct (ReadLine_val _ _ _ _ _ _ Hwf Em) as (W1 & _ & _).
    pose proof (read_line_text _ _ _ _ _ _ _ Hwf Em) as Ht.
    destruct ol as [l|].
    - rewrite Ht. cbn [descs]. destruct (feed sf l) as [[sf' d] pieces].
      apply bind_inv in Ek. destruct Ek as [(o1 & ev3 & orc3 & ev4 & Em2 & Ek2 & Ee2)|(r2 & Em2 & Hv2 & Hr2)]; [|destruct r2; discriminate].
      apply bind_inv in Ek2. destruct Ek2 as [(oc & ev5 & orc5 & ev6 & Em3 & Ek3 & Ee3)|(r3 & Em3 & Hv3 & Hr3)]; [|destruct r3; discriminate].
      rewrite (IH _ _ _ _ _ _ _ _ _ _ _ W1 Ek3). cbn [rev]. rewrite <- app_assoc. reflexivity.
    - rewrite Ht. inversion Ek; subst. cbn [descs]. rewrite app_nil_r. reflexivity.
  Qed.

  Lemma feeder_thread_snd2 sf0 fd input orc : snd2 (feeder_thread sf0 fd input orc).
  Proof.
    unfold WrapperMainDefs.feeder_thread. apply bind_snd2.
    - apply feed_loop_snd2; [apply rd0_wf|]. rewrite rd0_left. unfold lines_of.
      pose proof (lines_from_le input false). cbn in H. lia.
    - intros [[ds o] r] ev orc1 _.
      apply bind_snd2; [destruct (explicit_flush wr); [apply bs_flush_snd2|apply ret_snd2]|]. intros o' ev2 orc2 _.
      apply bind_snd2; [apply bs_destroy_snd2|]. intros _ ev3 orc3 _.
      apply bind_snd2; [apply close_snd2|]. intros; apply ret_snd2.
  Qed.

  Lemma feeder_thread_val sf0 fd input orc ds evs orc' :
    feeder_thread sf0 fd input orc = (Val ds, evs, orc') -> ds = descs feed sf0 (text_lines input []).
  Proof.
    unfold WrapperMainDefs.feeder_thread. intros E.
    apply bind_inv in E. destruct E as [([[ds0 o] r] & ev1 & orc1 & ev2 & Em & Ek & Ee)|(r1 & Em & Hv & Hr)]; [|destruct r1; discriminate].
    pose proof (feed_loop_val _ _ _ _ _ _ _ _ _ _ _ _ (rd0_wf _ _) Em) as Hd. cbn in Hd.
    apply bind_inv in Ek. destruct Ek as [(o1 & ev3 & orc3 & ev4 & Em2 & Ek2 & Ee2)|(r2 & Em2 & Hv2 & Hr2)]; [|destruct r2; discriminate].
    apply bind_inv in Ek2. destruct Ek2 as [(u1 & ev5 & orc5 & ev6 & Em3 & Ek3 & Ee3)|(r3 & Em3 & Hv3 & Hr3)]; [|destruct r3; discriminate].
    apply bind_inv in Ek3. destruct Ek3 as [(u2 & ev7 & orc7 & ev8 & Em4 & Ek4 & Ee4)|(r4 & Em4 & Hv4 & Hr4)]; [|destruct r4; discriminate].
    inversion Ek4; subst. reflexivity.
  Qed.
End Main.

(* ------------------------------------------------------------------ *)
(* the process status *)

Lemma ev_sigpipe_failed e : ev_sigpipe e = true -> ev_failed e = true.
Proof.
  unfold ev_sigpipe, ev_failed. destruct (ev_op e); cbn [is_write andb]; try discriminate.
  destruct (ev_out e) as [n d|x]; [discriminate|]. intros H. apply Z.eqb_eq in H. subst x. reflexivity.
Qed.

Lemma sigpipe_failed evs : any_failed evs = false -> sigpipe evs = false.
Proof.
  unfold any_failed, sigpipe. induction evs as [|e evs IH]; [reflexivity|]. cbn [existsb]. intros H.
  apply orb_false_iff in H. destruct H as (H1 & H2). rewrite (IH H2), orb_false_r.
  destruct (ev_sigpipe e) eqn:E; [apply ev_sigpipe_failed in E; congruence|reflexivity].
Qed.

Definition killed (st : status) : Prop := st = Signaled SIGABRT \/ st = Signaled SIGPIPE.

Lemma killed_not_exit st c : killed st -> st <> Exited c.
Proof. intros [H|H]; rewrite H; discriminate. Qed.

Lemma not_val_cases {A} (r : res A) : r <> Fuel -> is_val r = false -> r = Exn \/ r = Abort.
Proof. destruct r; simpl; intros; try congruence; auto. Qed.

Theorem wrapper_main_spec_proof :
  forall (D Sf Sc : Type) (feed : Sf -> list Z -> Sf * D * list (list Z)) (need : D -> nat)
         (emit : Sc -> D -> list (list Z) -> Sc * list (list Z)) (wr : wrapper) (flush_rate : nat)
         (sf0 : Sf) (sc0 : Sc) (fd_child fd_c : Z) (input child_out : list Z) (t : term)
         (orc_f orc_c : list outcome) (st : status) (evf evc : list event),
  wrapper_main_run feed need emit wr flush_rate sf0 sc0 fd_child fd_c input child_out t orc_f orc_c = (st, evf, evc) ->
  let total := total_need need (descs feed sf0 (text_lines input [])) in
  let have := length (text_lines child_out []) in
  st <> StFuel /\
  (any_failed evf = true \/ any_failed evc = true -> killed st) /\
  ((have < total)%nat -> killed st) /\
  (wr = B64filter -> have <> total -> killed st) /\
  (any_failed evf = false -> any_failed evc = false -> (total <= have)%nat -> (wr = B64filter -> have = total) ->
     st = Exited (Wait (wstatus t) mod 256)) /\
  (st = Exited 0 -> any_failed evf = false /\ any_failed evc = false /\ (total <= have)%nat /\
                    (wr = B64filter -> have = total) /\ Wait (wstatus t) mod 256 = 0).
Proof.
  intros D Sf Sc feed need emit wr rate sf0 sc0 fdi fdc input child_out t orc_f orc_c st evf evc E total have.
  unfold wrapper_main_run in E. rewrite swallows_false in E.
  pose proof (feeder_thread_snd2 feed wr rate sf0 fdi input orc_f) as Hf.
  destruct (feeder_thread feed wr rate sf0 fdi input orc_f) as [[rf ef] of'] eqn:Ef.
  destruct Hf as (Hf1 & Hf2).
  assert (forall s : status, (if sigpipe ef then Signaled SIGPIPE else s) = s \/ (if sigpipe ef then Signaled SIGPIPE else s) = Signaled SIGPIPE) as Hsp
    by (intros s; destruct (sigpipe ef); auto).
  destruct rf as [ds| | |]; [| | |congruence].
  2,3: (inversion E; subst st evf evc; clear E; simpl in Hf2;
        assert (any_failed ef = true) as Hfe by (destruct (any_failed ef); simpl in *; congruence);
        assert (killed (if sigpipe ef then Signaled SIGPIPE else Signaled SIGABRT)) as Hk
          by (unfold killed; destruct (sigpipe ef); auto);
        split; [destruct (sigpipe ef); discriminate|];
        split; [intros _; exact Hk|]; split; [intros _; exact Hk|]; split; [intros _ _; exact Hk|];
        split; [intros H; congruence|]; intros H; exfalso; exact (killed_not_exit _ _ Hk H)).
  simpl in Hf2. assert (any_failed ef = false) as Hfe by (destruct (any_failed ef); simpl in *; congruence).
  pose proof (feeder_thread_val _ _ _ _ _ _ _ _ _ _ Ef) as Hds.
  pose proof (collector_thread_wk need emit wr sc0 fdc ds child_out orc_c) as Hc.
  destruct (collector_thread need emit wr sc0 fdc ds child_out orc_c) as [[rc ec] oc'] eqn:Ec.
  destruct Hc as (Hc1 & Hc2).
  assert (lines_of child_out = have) as Hhave by apply lines_of_text.
  assert (total_need need ds = total) as Htot by (subst ds; reflexivity).
  assert (surplus_check wr = true <-> wr = B64filter) as Hsur by (destruct wr; cbn; split; congruence).
  destruct rc as [u| | |]; [| | |congruence].
  - (* both threads ran to the end *)
    assert (any_failed ec = false) as Hce by (destruct (any_failed ec); [specialize (Hc2 eq_refl); discriminate|reflexivity]).
    rewrite (sigpipe_failed _ Hfe), (sigpipe_failed _ Hce) in E. cbn [orb] in E. inversion E; subst st evf evc; clear E.
    destruct (collector_thread_val _ _ _ _ _ _ _ _ _ _ _ Ec) as (V1 & V2). rewrite Hhave, Htot in V1, V2.
    split; [discriminate|]. split; [intros [H|H]; congruence|]. split; [intros H; lia|].
    split; [intros Hb Hne; exfalso; apply Hne; symmetry; apply V2; apply Hsur; exact Hb|].
    split; [reflexivity|]. intros H. inversion H as [Hw]. repeat split; auto.
    intros Hb. symmetry. apply V2. apply Hsur. exact Hb.
  - (* exception in the collector *)
    inversion E; subst st evf evc; clear E.
    assert (killed (if sigpipe ef || sigpipe ec then Signaled SIGPIPE else Signaled SIGABRT)) as Hk
      by (unfold killed; destruct (sigpipe ef || sigpipe ec); auto).
    split; [destruct (sigpipe ef || sigpipe ec); discriminate|].
    split; [intros _; exact Hk|]. split; [intros _; exact Hk|]. split; [intros _ _; exact Hk|].
    split; [|intros H; exfalso; exact (killed_not_exit _ _ Hk H)].
    intros _ Hce Hle Hb.
    pose proof (collector_thread_progress _ _ _ _ _ _ _ _ _ _ _ Ec Hce ltac:(lia) ltac:(intros Hs; apply Hsur in Hs; specialize (Hb Hs); lia)).
    discriminate.
  - (* abort in the collector *)
    inversion E; subst st evf evc; clear E.
    assert (killed (if sigpipe ef || sigpipe ec then Signaled SIGPIPE else Signaled SIGABRT)) as Hk
      by (unfold killed; destruct (sigpipe ef || sigpipe ec); auto).
    split; [destruct (sigpipe ef || sigpipe ec); discriminate|].
    split; [intros _; exact Hk|]. split; [intros _; exact Hk|]. split; [intros _ _; exact Hk|].
    split; [|intros H; exfalso; exact (killed_not_exit _ _ Hk H)].
    intros _ Hce Hle Hb.
    pose proof (collector_thread_progress _ _ _ _ _ _ _ _ _ _ _ Ec Hce ltac:(lia) ltac:(intros Hs; apply Hsur in Hs; specialize (Hb Hs); lia)).
    discriminate.
Qed.

(* ---- the clauses of the property, one by one *)
Section Clauses.
  Variables D Sf Sc : Type.
  Variable feed : Sf -> list Z -> Sf * D * list (list Z).
  Variable need : D -> nat.
  Variable emit : Sc -> D -> list (list Z) -> Sc * list (list Z).
  Variables (wr : wrapper) (flush_rate : nat) (sf0 : Sf) (sc0 : Sc) (fd_child fd_c : Z) (input child_out : list Z).
  Variables (orc_f orc_c : list outcome) (st : status) (evf evc : list event).

  Notation run t := (wrapper_main_run feed need emit wr flush_rate sf0 sc0 fd_child fd_c input child_out t orc_f orc_c).
  Notation total := (total_need need (descs feed sf0 (text_lines input []))).
  Notation have := (length (text_lines child_out [])).

  Theorem wm_io_error_nonzero_proof t : run t = (st, evf, evc) ->
    any_failed evf = true \/ any_failed evc = true -> killed st.
  Proof. intros E. apply (wrapper_main_spec_proof _ _ _ _ _ _ _ _ _ _ _ _ _ _ _ _ _ _ _ _ E). Qed.

  Theorem wm_premature_eof_nonzero_proof t : run t = (st, evf, evc) -> (have < total)%nat -> killed st.
  Proof. intros E. apply (wrapper_main_spec_proof _ _ _ _ _ _ _ _ _ _ _ _ _ _ _ _ _ _ _ _ E). Qed.

  Theorem wm_child_exit_propagates_proof c : run (TExit c) = (st, evf, evc) -> 0 <= c < 256 ->
    any_failed evf = false -> any_failed evc = false -> (total <= have)%nat -> (wr = B64filter -> have = total) ->
    st = Exited c.
  Proof.
    intros E Hc H1 H2 H3 H4.
    destruct (wrapper_main_spec_proof _ _ _ _ _ _ _ _ _ _ _ _ _ _ _ _ _ _ _ _ E) as (_ & _ & _ & _ & Hcl & _).
    rewrite (Hcl H1 H2 H3 H4), (Wait_exit c Hc), Z.mod_small by lia. reflexivity.
  Qed.

  Theorem wm_child_signal_nonzero_proof s core : run (TSignal s core) = (st, evf, evc) -> 1 <= s <= 64 -> st <> Exited 0 /\ st <> StFuel.
  Proof.
    intros E Hs.
    destruct (wrapper_main_spec_proof _ _ _ _ _ _ _ _ _ _ _ _ _ _ _ _ _ _ _ _ E) as (Hnf & _ & _ & _ & _ & H0).
    split; [|exact Hnf]. intros H. destruct (H0 H) as (_ & _ & _ & _ & Hw). destruct (Wait_signal s core Hs) as (_ & Hnz). contradiction.
  Qed.

  Theorem wm_child_failure_nonzero_proof c : run (TExit c) = (st, evf, evc) -> 1 <= c <= 255 -> st <> Exited 0 /\ st <> StFuel.
  Proof.
    intros E Hc.
    destruct (wrapper_main_spec_proof _ _ _ _ _ _ _ _ _ _ _ _ _ _ _ _ _ _ _ _ E) as (Hnf & _ & _ & _ & _ & H0).
    split; [|exact Hnf]. intros H. destruct (H0 H) as (_ & _ & _ & _ & Hw).
    rewrite Wait_exit, Z.mod_small in Hw by lia. lia.
  Qed.
End Clauses.
