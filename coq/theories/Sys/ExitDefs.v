(* C11 -- executable model of the error paths: util/file.cc (PartialRead,
   WriteOrThrow, FSyncIgnoreUnsupported, ~scoped_fd), util/file.hh (FileWriter),
   util/buffered_stream.hh (BufferedStream), a util-stream tool skeleton, the
   iostream tool skeleton, preprocess/captive_child.cc (Wait) and what the three
   wrappers return from main.  The operating system is an ORACLE: a list of
   outcomes, one per system call in program order; when the list is exhausted
   the OS behaves perfectly (full write, end of file, success).
   Constants and "which errors are ignored" come from Gen/Src_exit.v.
   No proofs here. *)
From PP Require Export Base.Bytes Gen.Src_exit.
Local Open Scope Z_scope.

(* ------------------------------------------------------------------ *)
(* system calls, outcomes, events                                      *)

Inductive op := OpRead | OpWrite | OpFsync | OpClose.

(* [Ok n data]: the call returned n >= 0; for a read, [data] are the n bytes
   delivered.  [Err e]: the call returned -1 with errno e. *)
Inductive outcome := Ok (n : Z) (data : list Z) | Err (e : Z).

Record event := mkEv { ev_op : op; ev_fd : Z; ev_req : Z; ev_data : list Z; ev_out : outcome }.

Definition default_outcome (o : op) (req : Z) : outcome :=
  match o with
  | OpRead => Ok 0 []
  | OpWrite => Ok req []
  | OpFsync => Ok 0 []
  | OpClose => Ok 0 []
  end.

(* result of a C++ computation: a value, an exception in flight, std::abort()
   called, or the model's fuel ran out (proved unreachable) *)
Inductive res (A : Type) := Val (a : A) | Exn | Abort | Fuel.
Arguments Val {A} a.
Arguments Exn {A}.
Arguments Abort {A}.
Arguments Fuel {A}.

Definition cast {A B} (r : res A) : res B :=
  match r with Val _ => Exn | Exn => Exn | Abort => Abort | Fuel => Fuel end.

Definition is_val {A} (r : res A) : bool := match r with Val _ => true | _ => false end.

(* a computation consumes oracle entries and emits events (oldest first) *)
Definition M (A : Type) := list outcome -> res A * list event * list outcome.

Definition ret {A} (a : A) : M A := fun orc => (Val a, [], orc).

Definition bind {A B} (m : M A) (k : A -> M B) : M B := fun orc =>
  match m orc with
  | (Val a, ev, orc') => match k a orc' with (r, ev', orc'') => (r, ev ++ ev', orc'') end
  | (r, ev, orc') => (cast r, ev, orc')
  end.

Definition sys (o : op) (fd req : Z) (data : list Z) : list outcome -> outcome * list event * list outcome :=
  fun orc =>
  match orc with
  | [] => let r := default_outcome o req in (r, [mkEv o fd req data r], [])
  | r :: rest => (r, [mkEv o fd req data r], rest)
  end.

Definition zmem (x : Z) (l : list Z) : bool := existsb (Z.eqb x) l.

(* ------------------------------------------------------------------ *)
(* util/file.cc                                                        *)

(* std::size_t PartialRead(int fd, void *to, std::size_t amount):
     do { ret = read(fd, to, amount); } while (ret == -1 && errno == EINTR);
     UTIL_THROW_IF_ARG(ret < 0, FDException, ...);  return ret;            *)
Fixpoint partial_read (fuel : nat) (fd amount : Z) (orc : list outcome) : res (list Z) * list event * list outcome :=
  match fuel with
  | O => (Fuel, [], orc)
  | S f =>
    match sys OpRead fd amount [] orc with
    | (Ok n d, ev, orc') => if n <? read_throw_below then (Exn, ev, orc') else (Val d, ev, orc')
    | (Err e, ev, orc') =>
      if zmem e read_retry_errnos
      then match partial_read f fd amount orc' with (r, ev', orc'') => (r, ev ++ ev', orc'') end
      else (Exn, ev, orc')
    end
  end.

Definition PartialRead (fd amount : Z) : M (list Z) := fun orc => partial_read (S (length orc)) fd amount orc.

(* void WriteOrThrow(int fd, const void *data, std::size_t size):
     while (size) { do { ret = write(fd, data, size); } while (ret == -1 && errno == EINTR);
                    UTIL_THROW_IF_ARG(ret < 1, FDException, ...); data += ret; size -= ret; }  *)
Fixpoint write_or_throw (fuel : nat) (fd : Z) (data : list Z) (orc : list outcome) : res unit * list event * list outcome :=
  match data with
  | [] => (Val tt, [], orc)
  | _ :: _ =>
    match fuel with
    | O => (Fuel, [], orc)
    | S f =>
      match sys OpWrite fd (Z.of_nat (length data)) data orc with
      | (Ok n _, ev, orc') =>
        if n <? write_throw_below then (Exn, ev, orc')
        else match write_or_throw f fd (skipn (Z.to_nat n) data) orc' with (r, ev', orc'') => (r, ev ++ ev', orc'') end
      | (Err e, ev, orc') =>
        if zmem e write_retry_errnos
        then match write_or_throw f fd data orc' with (r, ev', orc'') => (r, ev ++ ev', orc'') end
        else (Exn, ev, orc')
      end
    end
  end.

Definition WriteOrThrow (fd : Z) (data : list Z) : M unit :=
  fun orc => write_or_throw (S (length data + length orc)) fd data orc.

(* void FSyncIgnoreUnsupported(int fd):
     if (!fsync(fd)) return;  if (errno == EROFS || errno == EINVAL || errno == ENOTSUP) return;  throw FDException *)
Definition FSyncIgnoreUnsupported (fd : Z) : M unit := fun orc =>
  match sys OpFsync fd 0 [] orc with
  | (Ok _ _, ev, orc') => (Val tt, ev, orc')
  | (Err e, ev, orc') => if zmem e fsync_ignored_errnos then (Val tt, ev, orc') else (Exn, ev, orc')
  end.

(* scoped_fd::~scoped_fd(): if (fd_ != -1 && close(fd_)) { ...; std::abort(); } *)
Definition close_scoped_fd (fd : Z) : M unit := fun orc =>
  match sys OpClose fd 0 [] orc with
  | (Ok _ _, ev, orc') => (Val tt, ev, orc')
  | (Err _, ev, orc') => if close_failure_aborts then (Abort, ev, orc') else (Val tt, ev, orc')
  end.

(* a destructor is noexcept: an exception leaving it calls std::terminate -> abort *)
Definition in_destructor {A} (m : M A) : M A := fun orc =>
  match m orc with
  | (Exn, ev, orc') => (Abort, ev, orc')
  | x => x
  end.

(* ------------------------------------------------------------------ *)
(* util/buffered_stream.hh  BufferedStream<FileWriter> (= util::FileStream) *)

Record bstream := mkBS { bs_fd : Z; bs_buf : list Z }.   (* bs_buf = [buf_.get(), current_) *)

Definition blen (l : list Z) : Z := Z.of_nat (length l).

(* void SpillBuffer(): if (current_ != buf_.get()) { writer_.write(buf_.get(), current_ - buf_.get()); current_ = buf_.get(); } *)
Definition SpillBuffer (s : bstream) : M bstream :=
  match bs_buf s with
  | [] => ret s
  | _ :: _ => bind (WriteOrThrow (bs_fd s) (bs_buf s)) (fun _ => ret (mkBS (bs_fd s) []))
  end.

(* BufferedStream &write(const void *data, std::size_t length) *)
Definition bs_write (s : bstream) (data : list Z) : M bstream :=
  if blen (bs_buf s) + blen data <=? kBufferSize
  then ret (mkBS (bs_fd s) (bs_buf s ++ data))
  else bind (SpillBuffer s) (fun s1 =>
         if blen (bs_buf s1) + blen data <=? kBufferSize
         then ret (mkBS (bs_fd s1) (bs_buf s1 ++ data))
         else bind (WriteOrThrow (bs_fd s1) data) (fun _ => ret s1)).

(* flush(): SpillBuffer(); writer_.flush(); *)
Definition bs_flush (s : bstream) : M bstream :=
  bind (SpillBuffer s) (fun s1 => bind (FSyncIgnoreUnsupported (bs_fd s1)) (fun _ => ret s1)).

(* ~BufferedStream() { flush(); }  then the members: ~FileWriter -> ~scoped_fd *)
Definition bs_destroy (s : bstream) : M unit :=
  bind (in_destructor (bs_flush s)) (fun s1 => close_scoped_fd (bs_fd s1)).

(* ------------------------------------------------------------------ *)
(* exit status of the process                                          *)

Inductive status := Exited (c : Z) | Signaled (s : Z) | StFuel.

(* main returning c => exit(c) => status c mod 256; an exception leaving main
   or a thread, or one thrown by a destructor => std::terminate => abort() => SIGABRT *)
Definition status_of (r : res Z) : status :=
  match r with
  | Val c => Exited (c mod 256)
  | Exn => Signaled SIGABRT
  | Abort => Signaled SIGABRT
  | Fuel => StFuel
  end.

(* ------------------------------------------------------------------ *)
(* util-stream tool skeleton:
     int main() { util::scoped_fd in(0); util::FileStream out(1);
                  while ((n = PartialRead(0, buf, chunk))) { out << step(buf[0..n)); }
                  out << fin;  return 0; }      destructors: ~out (flush, close 1), ~in (close 0) *)
Section Tool.
  Context {St : Type}.
  Variable step : St -> list Z -> St * list Z.
  Variable fin : St -> list Z.
  Variable chunk : Z.

  Fixpoint tool_loop (fuel : nat) (s : St) (o : bstream) (orc : list outcome) : res (St * bstream) * list event * list outcome :=
    match fuel with
    | O => (Fuel, [], orc)
    | S f =>
      match PartialRead 0 chunk orc with
      | (Val [], ev, orc1) => (Val (s, o), ev, orc1)
      | (Val d, ev, orc1) =>
        let (s', out) := step s d in
        match bs_write o out orc1 with
        | (Val o', ev2, orc2) =>
          match tool_loop f s' o' orc2 with (r, ev3, orc3) => (r, ev ++ ev2 ++ ev3, orc3) end
        | (r, ev2, orc2) => (cast r, ev ++ ev2, orc2)
        end
      | (r, ev, orc1) => (cast r, ev, orc1)
      end
    end.

  Definition tool_main (s0 : St) : M Z :=
    bind (fun orc => tool_loop (S (length orc)) s0 (mkBS 1 []) orc) (fun so =>
    bind (bs_write (snd so) (fin (fst so))) (fun o =>
    bind (bs_destroy o) (fun _ =>
    bind (close_scoped_fd 0) (fun _ => ret 0)))).

  Definition tool_run (s0 : St) (orc : list outcome) : status * list event :=
    match tool_main s0 orc with (r, ev, _) => (status_of r, ev) end.

  (* what the tool should have written, as a function of the chunks it read *)
  Fixpoint pure_out (s : St) (chunks : list (list Z)) : list Z :=
    match chunks with
    | [] => fin s
    | c :: r => let (s', o) := step s c in o ++ pure_out s' r
    end.
End Tool.

(* ------------------------------------------------------------------ *)
(* straight-line scripts of library calls (the shape of a small run of a real tool) *)

Inductive act := ARead (fd req : Z) | AWrite (fd : Z) (data : list Z) | AFsync (fd : Z) | AClose (fd : Z)
               | AFlushClose (fd : Z) (data : list Z).   (* ~FileStream with [data] pending: write, fsync, close; exceptions => terminate *)

Definition do_act (a : act) : M unit :=
  match a with
  | ARead fd req => bind (PartialRead fd req) (fun _ => ret tt)
  | AWrite fd d => WriteOrThrow fd d
  | AFsync fd => FSyncIgnoreUnsupported fd
  | AClose fd => close_scoped_fd fd
  | AFlushClose fd d => bs_destroy (mkBS fd d)
  end.

Fixpoint run_script (acts : list act) : M unit :=
  match acts with
  | [] => ret tt
  | a :: r => bind (do_act a) (fun _ => run_script r)
  end.

(* [catches]: main wraps everything in try { } catch (std::exception&) { return 1; }
   (commoncrawl_dedupe); stack unwinding then runs the pending destructors, here
   abstracted to "status 1 unless something aborts" *)
Definition script_run (catches : bool) (acts : list act) (orc : list outcome) : status * list event :=
  match run_script acts orc with
  | (Val _, ev, _) => (Exited 0, ev)
  | (Exn, ev, _) => (if catches then Exited 1 else Signaled SIGABRT, ev)
  | (Abort, ev, _) => (Signaled SIGABRT, ev)
  | (Fuel, ev, _) => (StFuel, ev)
  end.

(* ------------------------------------------------------------------ *)
(* classification of events (used by the theorems and by the check)    *)

Definition ev_failed (e : event) : bool :=
  match ev_out e with
  | Ok n _ => match ev_op e with
              | OpWrite => n <? write_throw_below
              | OpRead => n <? read_throw_below
              | _ => false
              end
  | Err x => match ev_op e with
             | OpRead => negb (zmem x read_retry_errnos)
             | OpWrite => negb (zmem x write_retry_errnos)
             | OpFsync => negb (zmem x fsync_ignored_errnos)
             | OpClose => close_failure_aborts
             end
  end.

Definition any_failed (evs : list event) : bool := existsb ev_failed evs.

Definition is_write (o : op) : bool := match o with OpWrite => true | _ => false end.
Definition is_read (o : op) : bool := match o with OpRead => true | _ => false end.

(* bytes the operating system accepted on descriptor fd *)
Fixpoint accepted (fd : Z) (evs : list event) : list Z :=
  match evs with
  | [] => []
  | e :: r =>
    (if is_write (ev_op e) && (ev_fd e =? fd)
     then match ev_out e with Ok n _ => firstn (Z.to_nat n) (ev_data e) | Err _ => [] end
     else []) ++ accepted fd r
  end.

(* chunks delivered by successful reads on descriptor fd *)
Fixpoint delivered (fd : Z) (evs : list event) : list (list Z) :=
  match evs with
  | [] => []
  | e :: r =>
    (if is_read (ev_op e) && (ev_fd e =? fd)
     then match ev_out e with Ok n d => if n <? read_throw_below then [] else [d] | Err _ => [] end
     else []) ++ delivered fd r
  end.

(* ------------------------------------------------------------------ *)
(* iostream tools: std::cout (synchronised with stdio).  [chunks] is the
   segmentation of the output into write(2) calls chosen by stdio (arbitrary);
   a failed write sets the stream's badbit: everything after it is dropped.
   At the end main optionally flushes and tests the stream. *)

Definition try_write (fd : Z) (data : list Z) : M bool := fun orc =>
  match WriteOrThrow fd data orc with
  | (Val _, ev, orc') => (Val true, ev, orc')
  | (Exn, ev, orc') => (Val false, ev, orc')       (* stdio reports EOF/short count; no exception *)
  | (r, ev, orc') => (cast r, ev, orc')
  end.

Fixpoint cout_emit (chunks : list (list Z)) (bad : bool) : M bool :=
  match chunks with
  | [] => ret bad
  | c :: r => if bad then ret true
              else bind (try_write 1 c) (fun ok => cout_emit r (negb ok))
  end.

(* std::cin through stdio: a failing read looks like end of file; ferror(stdin) remembers *)
Fixpoint cin_read_all (fuel : nat) (orc : list outcome) : res bool (* true = read error seen *) * list event * list outcome :=
  match fuel with
  | O => (Fuel, [], orc)
  | S f =>
    match PartialRead 0 4096 orc with
    | (Val [], ev, orc') => (Val false, ev, orc')
    | (Val _, ev, orc') => match cin_read_all f orc' with (r, ev', orc'') => (r, ev ++ ev', orc'') end
    | (Exn, ev, orc') => (Val true, ev, orc')
    | (r, ev, orc') => (cast r, ev, orc')
    end
  end.

Record ioconf := mkIO { io_flushes : bool; io_checks_cout : bool; io_fail_code : Z; io_checks_cin : bool; io_uses_cin : bool }.

(* [early]: segments written before the end of main; [late]: what is still buffered when main is
   about to return (written by the explicit flush when the tool flushes, else by exit(), too late to matter) *)
Definition cout_part (cf : ioconf) (early late : list (list Z)) : M Z :=
  bind (cout_emit early false) (fun bad1 =>
  if io_flushes cf then
    bind (cout_emit late bad1) (fun bad2 =>
      ret (if bad2 && io_checks_cout cf then io_fail_code cf else 0))
  else
    (* main decides first, exit() flushes afterwards and its result is ignored *)
    let code := if bad1 && io_checks_cout cf then io_fail_code cf else 0 in
    bind (cout_emit late bad1) (fun _ => ret code)).

Definition iostream_main (cf : ioconf) (early late : list (list Z)) : M Z :=
  bind (if io_uses_cin cf then (fun orc => cin_read_all (S (length orc)) orc) else ret false) (fun rerr =>
  if rerr && io_checks_cin cf then ret 1 else cout_part cf early late).

Definition iostream_run (cf : ioconf) (early late : list (list Z)) (orc : list outcome) : status * list event :=
  match iostream_main cf early late orc with (r, ev, _) => (status_of r, ev) end.

Definition conf_process_unicode := mkIO process_unicode_flushes_cout process_unicode_checks_cout process_unicode_cout_fail_code process_unicode_checks_cin true.
Definition conf_mmhsum := mkIO mmhsum_flushes_cout mmhsum_checks_cout mmhsum_cout_fail_code mmhsum_checks_cin true.
Definition conf_gigaword_unwrap := mkIO gigaword_unwrap_flushes_cout gigaword_unwrap_checks_cout gigaword_unwrap_cout_fail_code gigaword_unwrap_checks_cin false.
Definition conf_order_independent_hash := mkIO order_independent_hash_flushes_cout order_independent_hash_checks_cout order_independent_hash_cout_fail_code order_independent_hash_checks_cin false.

(* ------------------------------------------------------------------ *)
(* preprocess/captive_child.cc: Wait, over the Linux wait-status encoding *)

Inductive term := TExit (c : Z) | TSignal (s : Z) (core : bool).

(* status word filled in by waitpid (Linux): exit code in bits 8..15; terminating signal in bits 0..6, bit 7 = core dumped *)
Definition wstatus (t : term) : Z :=
  match t with
  | TExit c => (c mod 256) * 256
  | TSignal s core => s mod 128 + (if core then 128 else 0)
  end.

Definition WIFEXITED (w : Z) : bool := Z.land w 127 =? 0.
Definition WEXITSTATUS (w : Z) : Z := Z.land (Z.shiftr w 8) 255.
Definition WTERMSIG (w : Z) : Z := Z.land w 127.
(* ((signed char)((w & 0x7f) + 1) >> 1) > 0 *)
Definition WIFSIGNALED (w : Z) : bool := (0 <? Z.land w 127) && (Z.land w 127 <? 127).

Definition Wait (w : Z) : Z :=
  if WIFEXITED w then WEXITSTATUS w
  else if wait_has_signal_branch && WIFSIGNALED w then wait_signal_base + WTERMSIG w
  else wait_fallback.

(* ------------------------------------------------------------------ *)
(* the three wrappers.  needs: child lines the collector consumes per record (cache: 1 per new key,
   foldfilter: one per piece, b64filter: line_cnt); child_lines: lines the
   child produced before its stdout reached end of file. *)

Inductive wrapper := Cache | Foldfilter | B64filter.

Fixpoint collect (needs : list nat) (avail : nat) : option nat :=
  match needs with
  | [] => Some avail
  | n :: r => if (n <=? avail)%nat then collect r (avail - n) else None
  end.

Definition swallows (wr : wrapper) : bool :=
  match wr with
  | Cache => cache_main_swallows_exceptions
  | Foldfilter => foldfilter_main_swallows_exceptions
  | B64filter => b64filter_main_swallows_exceptions
  end.

(* what main returns is derived from the wrappers' threads in Sys/WrapperMainDefs.v *)

Definition status_ok (s : status) : bool := match s with Exited 0 => true | _ => false end.

(* ------------------------------------------------------------------ *)
(* the two read loops of util/file.cc built on PartialRead *)

(* std::size_t ReadOrEOF(int fd, void *to, std::size_t amount):
     while (remaining) { ret = PartialRead(fd, to, remaining); if (!ret) return amount - remaining; remaining -= ret; to += ret; } *)
Fixpoint read_or_eof (fuel : nat) (fd remaining : Z) (acc : list Z) (orc : list outcome) : res (list Z) * list event * list outcome :=
  if remaining <=? 0 then (Val acc, [], orc) else
  match fuel with
  | O => (Fuel, [], orc)
  | S f =>
    match PartialRead fd remaining orc with
    | (Val [], ev, orc') => (Val acc, ev, orc')
    | (Val d, ev, orc') =>
      match read_or_eof f fd (remaining - blen d) (acc ++ d) orc' with (r, ev', orc'') => (r, ev ++ ev', orc'') end
    | (r, ev, orc') => (cast r, ev, orc')
    end
  end.
Definition ReadOrEOF (fd amount : Z) : M (list Z) := fun orc => read_or_eof (S (length orc)) fd amount [] orc.

(* void ReadOrThrow(int fd, void *to, std::size_t amount): the same loop, but end of file is an EndOfFileException *)
Fixpoint read_or_throw (fuel : nat) (fd remaining : Z) (acc : list Z) (orc : list outcome) : res (list Z) * list event * list outcome :=
  if remaining <=? 0 then (Val acc, [], orc) else
  match fuel with
  | O => (Fuel, [], orc)
  | S f =>
    match PartialRead fd remaining orc with
    | (Val [], ev, orc') => (Exn, ev, orc')
    | (Val d, ev, orc') =>
      match read_or_throw f fd (remaining - blen d) (acc ++ d) orc' with (r, ev', orc'') => (r, ev ++ ev', orc'') end
    | (r, ev, orc') => (cast r, ev, orc')
    end
  end.
Definition ReadOrThrow (fd amount : Z) : M (list Z) := fun orc => read_or_throw (S (length orc)) fd amount [] orc.
