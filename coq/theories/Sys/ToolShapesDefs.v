(* The shapes of the 24 executables' main functions, as compositions of the reader (FilePiece) and of the
   writers (FileStream, ThreadedBufferedStream) over SEPARATE descriptors, each with its own outcome script
   (property C03, tool level).  The result type carries the exit status: [Ok x] = main returns (status 0)
   after having produced x; [Fail e] = an exception escapes main or a thread (abort, status 134, or the
   status the tool maps it to; property C11).  No proofs here.

   Sequentialisation: the tools with threads (wrappers, shard) are modelled with the threads' system
   calls in sequence, descriptor by descriptor.  Each descriptor is used by one thread only, so its
   sequence of outcomes is well defined; which interleaving the scheduler picks is property C04/C05/C16. *)
From PP Require Export Reader.FilePieceDefs.
Local Open Scope Z_scope.

(* exit status of a model run *)
Definition exit_status {A} (r : res A) : nat := match r with Ok _ => 0%nat | Fail _ => 134%nat end.

(* ---- shape 1: line filter  FilePiece(0) -> predicate -> FileStream(1)
   remove_long_lines, remove_invalid_utf8(_base64), dedupe, commoncrawl_dedupe, subtract_lines, substitute,
   simple_cleaning, truecase, apply_case, base64_number ...: what differs is the predicate / the per-line map.
   [opened] = how stdin was opened (pipe, regular file through mmap, decompressing reader). *)
Definition line_filter_on (keep : list Z -> bool) (bcap : nat) (opened : res fp) (wscript : list outcome) : res (list Z) :=
  match opened with
  | Fail e => Fail e
  | Ok s =>
    match read_all 10 true s with
    | (Fail e, _) => Fail e
    | (Ok recs, _) =>
      match bs_run (flat_map (fun r => [r; [10]]) (filter keep recs)) (mkBs [] bcap) (os_init [] wscript) with
      | (Ok _, o) => Ok (os_sink o)
      | (Fail e, _) => Fail e
      end
    end
  end.

(* stdin is a regular file whose descriptor stands at offset off *)
Definition line_filter_tool_file (keep : list Z -> bool) (page cap bcap : nat) (file : list Z) (off : nat)
    (rscript wscript : list outcome) : res (list Z) :=
  line_filter_on keep bcap (fp_open_file page cap file off rscript) wscript.

(* stdin is a gz / bz2 / xz / multi-member stream: the decompressing reader hands out the plain bytes in some
   chunking (contract of property C15; the chunking is the script) *)
Definition line_filter_tool_stream (keep : list Z -> bool) (cap bcap : nat) (plain : list Z)
    (chunking wscript : list outcome) : res (list Z) :=
  line_filter_on keep bcap (Ok (fp_open_stream cap plain chunking)) wscript.

(* the same with a per-line map instead of a predicate (process_unicode-like, truecase, apply_case ...) *)
Definition line_map_tool (f : list Z -> list Z) (cap bcap : nat) (src : list Z) (rscript wscript : list outcome) : res (list Z) :=
  match fp_open_read cap (os_init src rscript) with
  | Fail e => Fail e
  | Ok s =>
    match read_all 10 true s with
    | (Fail e, _) => Fail e
    | (Ok recs, _) =>
      match bs_run (flat_map (fun r => [f r; [10]]) recs) (mkBs [] bcap) (os_init [] wscript) with
      | (Ok _, o) => Ok (os_sink o)
      | (Fail e, _) => Fail e
      end
    end
  end.

(* ---- shape 2: wrapper  (cache, foldfilter, b64filter, base64_number-with-child, warc_parallel's workers)
   feeder thread:    FilePiece(0) [script r1] -> g -> FileStream(child's stdin) [script w1]
   child:            any function of the bytes it is given
   collector thread: FilePiece(child's stdout, strip_cr = cr2) [script r2] -> h -> FileStream(1) [script w2]
   result: (bytes delivered to the child, bytes on stdout).  g = what the feeder writes for the input records,
   h = what the collector writes for the input records and the child's answer lines. *)
Definition wrapper_tool (g : list (list Z) -> list (list Z)) (child : list Z -> list Z)
    (h : list (list Z) -> list (list Z) -> list (list Z)) (cr2 : bool) (cap bcap : nat) (src : list Z)
    (r1 w1 r2 w2 : list outcome) : res (list Z * list Z) :=
  match fp_open_read cap (os_init src r1) with
  | Fail e => Fail e
  | Ok s =>
    match read_all 10 true s with
    | (Fail e, _) => Fail e
    | (Ok recs, _) =>
      match bs_run (g recs) (mkBs [] bcap) (os_init [] w1) with
      | (Fail e, _) => Fail e
      | (Ok _, o1) =>
        let delivered := os_sink o1 in
        match fp_open_read cap (os_init (child delivered) r2) with
        | Fail e => Fail e
        | Ok s2 =>
          match read_all 10 cr2 s2 with
          | (Fail e, _) => Fail e
          | (Ok answers, _) =>
            match bs_run (h recs answers) (mkBs [] bcap) (os_init [] w2) with
            | (Fail e, _) => Fail e
            | (Ok _, o2) => Ok (delivered, os_sink o2)
            end
          end
        end
      end
    end
  end.

(* ---- shape 3: shard  FilePiece(0) -> route -> N outputs, each a ThreadedBufferedStream over a writer with
   its own descriptor and outcome script.  [wr] is the writer layer between the blocks the writer thread
   is handed and the buffers that reach WriteOrThrow: the identity for FileWriter / WriteCompressed(NONE);
   a compressor for WriteCompressed(GZIP|BZIP) (contract in the theorem, property C15). *)
Fixpoint shard_outputs (wr : list (list Z) -> list (list Z)) (bsize : nat) (per_out : list (list (list Z)))
    (wscripts : list (list outcome)) : res (list (list Z)) :=
  match per_out with
  | [] => Ok []
  | ws :: rest =>
    match tbs_blocks ws [] bsize with
    | Fail e => Fail e
    | Ok blocks =>
      match write_blocks (wr blocks) (os_init [] (hd [] wscripts)) with
      | (Fail e, _) => Fail e
      | (Ok _, o) =>
        match shard_outputs wr bsize rest (tl wscripts) with
        | Fail e => Fail e
        | Ok sinks => Ok (os_sink o :: sinks)
        end
      end
    end
  end.

Definition shard_lines (route : list Z -> nat) (n i : nat) (recs : list (list Z)) : list (list Z) :=
  filter (fun r => (route r mod n =? i)%nat) recs.

Definition shard_tool (route : list Z -> nat) (n : nat) (wr : list (list Z) -> list (list Z)) (bsize cap : nat)
    (src : list Z) (rscript : list outcome) (wscripts : list (list outcome)) : res (list (list Z)) :=
  match fp_open_read cap (os_init src rscript) with
  | Fail e => Fail e
  | Ok s =>
    match read_all 10 true s with
    | (Fail e, _) => Fail e
    | (Ok recs, _) =>
      shard_outputs wr bsize
        (map (fun i => flat_map (fun r => [r; [10]]) (shard_lines route n i recs)) (seq 0 n)) wscripts
    end
  end.
