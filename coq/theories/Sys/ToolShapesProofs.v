(* Proofs for Sys/ToolShapesDefs.v: every tool shape produces the same bytes and the same exit status under
   every Full/Short/EINTR script on every one of its descriptors. *)
From PP Require Import Sys.ToolShapesDefs Reader.FilePieceProofs Sys.SysIOProofs Sys.C03Proofs.
From Coq Require Import Lia.
Local Open Scope nat_scope.

Lemma concat_line_writes (l : list (list Z)) :
  concat (flat_map (fun r => [r; [10%Z]]) l) = unrecords 10%Z l.
Proof.
  unfold unrecords. induction l as [|r l IH]; [reflexivity|]. simpl. rewrite IH, <- app_assoc. reflexivity.
Qed.

Lemma concat_line_writes_map (f : list Z -> list Z) (l : list (list Z)) :
  concat (flat_map (fun r => [f r; [10%Z]]) l) = unrecords 10%Z (map f l).
Proof.
  unfold unrecords. induction l as [|r l IH]; [reflexivity|]. simpl. rewrite IH, <- app_assoc. reflexivity.
Qed.

Lemma line_filter_on_ok keep bcap s sf recs wscript :
  read_all 10%Z true s = (Ok recs, sf) -> no_err wscript = true ->
  line_filter_on keep bcap (Ok s) wscript = Ok (unrecords 10%Z (filter keep recs)).
Proof.
  intros R Hw. unfold line_filter_on. rewrite R.
  destruct (bs_run_ok (flat_map (fun r => [r; [10%Z]]) (filter keep recs)) (mkBs [] bcap) (os_init [] wscript) Hw)
    as (b' & o' & Eb & S & _).
  rewrite Eb, S. simpl. rewrite concat_line_writes. reflexivity.
Qed.

Theorem line_filter_tool_file_output keep page cap bcap file off rscript wscript :
  1 <= page -> page <= cap -> off <= length file -> no_err rscript = true -> no_err wscript = true ->
  detect_magic (skipn off file) = false ->
  line_filter_tool_file keep page cap bcap file off rscript wscript
  = Ok (unrecords 10%Z (filter keep (records 10%Z true (skipn off file)))).
Proof.
  intros Hp Hpc Ho Hr Hw Hm. unfold line_filter_tool_file.
  destruct (file_path_records page cap file off rscript 10%Z true Hp Hpc Ho Hr Hm) as (s & sf & E & R & _).
  rewrite E. eapply line_filter_on_ok; eauto.
Qed.

Theorem line_filter_tool_stream_output keep cap bcap plain chunking wscript :
  1 <= cap -> no_err chunking = true -> no_err wscript = true ->
  line_filter_tool_stream keep cap bcap plain chunking wscript
  = Ok (unrecords 10%Z (filter keep (records 10%Z true plain))).
Proof.
  intros Hc Hr Hw. unfold line_filter_tool_stream.
  destruct (stream_reader_records cap plain chunking 10%Z true Hc Hr) as (sf & R & _).
  eapply line_filter_on_ok; eauto.
Qed.

Theorem line_map_tool_output f cap bcap src rscript wscript :
  1 <= cap -> no_err rscript = true -> no_err wscript = true -> detect_magic src = false ->
  line_map_tool f cap bcap src rscript wscript = Ok (unrecords 10%Z (map f (records 10%Z true src))).
Proof.
  intros Hc Hr Hw Hm. unfold line_map_tool.
  destruct (read_path_records cap src rscript 10%Z true Hc Hr Hm) as (s & sf & E & R & _). rewrite E, R.
  destruct (bs_run_ok (flat_map (fun r => [f r; [10%Z]]) (records 10%Z true src)) (mkBs [] bcap) (os_init [] wscript) Hw)
    as (b' & o' & Eb & S & _).
  rewrite Eb, S. simpl. rewrite concat_line_writes_map. reflexivity.
Qed.

(* wrapper: the child receives exactly what the feeder wrote; the answers are the records of what the child
   wrote; stdout is what the collector wrote -- under any four scripts *)
Theorem wrapper_tool_output g child h cr2 cap bcap src r1 w1 r2 w2 :
  1 <= cap -> no_err r1 = true -> no_err w1 = true -> no_err r2 = true -> no_err w2 = true ->
  detect_magic src = false ->
  detect_magic (child (concat (g (records 10%Z true src)))) = false ->
  wrapper_tool g child h cr2 cap bcap src r1 w1 r2 w2 =
  let recs := records 10%Z true src in
  let delivered := concat (g recs) in
  Ok (delivered, concat (h recs (records 10%Z cr2 (child delivered)))).
Proof.
  intros Hc H1 H2 H3 H4 Hm Hm2. unfold wrapper_tool. cbv zeta.
  destruct (read_path_records cap src r1 10%Z true Hc H1 Hm) as (s & sf & E & R & _). rewrite E, R.
  destruct (bs_run_ok (g (records 10%Z true src)) (mkBs [] bcap) (os_init [] w1) H2) as (b1 & o1 & Eb1 & S1 & _).
  rewrite Eb1. simpl in S1. rewrite S1.
  destruct (read_path_records cap (child (concat (g (records 10%Z true src)))) r2 10%Z cr2 Hc H3 Hm2)
    as (s2 & sf2 & E2 & R2 & _).
  rewrite E2, R2.
  destruct (bs_run_ok (h (records 10%Z true src) (records 10%Z cr2 (child (concat (g (records 10%Z true src))))))
              (mkBs [] bcap) (os_init [] w2) H4) as (b2 & o2 & Eb2 & S2 & _).
  rewrite Eb2. simpl in S2. rewrite S2. reflexivity.
Qed.

(* shard *)
Lemma shard_outputs_ok wr dec bsize :
  1 <= bsize -> (forall bl, dec (concat (wr bl)) = concat bl) ->
  forall per_out wscripts, Forall (fun sc => no_err sc = true) wscripts ->
  exists sinks, shard_outputs wr bsize per_out wscripts = Ok sinks /\ map dec sinks = map (@concat Z) per_out.
Proof.
  intros Hb Hdec. induction per_out as [|ws rest IH]; intros wscripts Hall.
  - exists []. auto.
  - cbn [shard_outputs].
    destruct (tbs_blocks_ok ws [] bsize Hb) as (blocks & E & Hc & _); [simpl; lia|]. rewrite E.
    assert (Hhd : no_err (hd [] wscripts) = true) by (destruct Hall; auto).
    assert (Htl : Forall (fun sc => no_err sc = true) (tl wscripts)) by (destruct Hall; simpl; auto).
    destruct (write_blocks_ok (wr blocks) (os_init [] (hd [] wscripts)) Hhd) as (o & Ew & S & _). rewrite Ew.
    destruct (IH (tl wscripts) Htl) as (sinks & Es & Hm). rewrite Es.
    exists (os_sink o :: sinks). split; [reflexivity|]. simpl. rewrite Hm. f_equal.
    rewrite S. simpl. rewrite Hdec, Hc. reflexivity.
Qed.

Theorem shard_tool_output route n wr dec bsize cap src rscript wscripts :
  1 <= cap -> 1 <= bsize -> no_err rscript = true -> Forall (fun sc => no_err sc = true) wscripts ->
  detect_magic src = false -> (forall bl, dec (concat (wr bl)) = concat bl) ->
  exists sinks, shard_tool route n wr bsize cap src rscript wscripts = Ok sinks /\
    map dec sinks = map (fun i => unrecords 10%Z (shard_lines route n i (records 10%Z true src))) (seq 0 n).
Proof.
  intros Hc Hb Hr Hw Hm Hdec. unfold shard_tool.
  destruct (read_path_records cap src rscript 10%Z true Hc Hr Hm) as (s & sf & E & R & _). rewrite E, R.
  destruct (shard_outputs_ok wr dec bsize Hb Hdec
              (map (fun i => flat_map (fun r => [r; [10%Z]]) (shard_lines route n i (records 10%Z true src))) (seq 0 n))
              wscripts Hw) as (sinks & Es & Hmap).
  exists sinks. split; [exact Es|]. rewrite Hmap, map_map. apply map_ext. intros i. apply concat_line_writes.
Qed.

(* with plain FileWriter outputs the files themselves are determined *)
Theorem shard_tool_plain_output route n bsize cap src rscript wscripts :
  1 <= cap -> 1 <= bsize -> no_err rscript = true -> Forall (fun sc => no_err sc = true) wscripts ->
  detect_magic src = false ->
  shard_tool route n (fun bl => bl) bsize cap src rscript wscripts
  = Ok (map (fun i => unrecords 10%Z (shard_lines route n i (records 10%Z true src))) (seq 0 n)).
Proof.
  intros Hc Hb Hr Hw Hm.
  destruct (shard_tool_output route n (fun bl => bl) (fun x => x) bsize cap src rscript wscripts Hc Hb Hr Hw Hm)
    as (sinks & E & Hmap); [reflexivity|].
  rewrite E. f_equal. rewrite map_id in Hmap. exact Hmap.
Qed.

(* ---- exit status: under every Full/Short/EINTR script on every descriptor the run is the run under the
   all-Full scripts (same status, same bytes); in particular it ends with status 0 ---- *)
Lemma no_err_nil : no_err [] = true. Proof. reflexivity. Qed.

Theorem line_filter_status_invariant keep cap bcap src rscript wscript :
  1 <= cap -> no_err rscript = true -> no_err wscript = true -> detect_magic src = false ->
  line_filter_tool keep cap bcap src rscript wscript = line_filter_tool keep cap bcap src [] [] /\
  exit_status (line_filter_tool keep cap bcap src rscript wscript) = 0.
Proof.
  intros Hc Hr Hw Hm.
  rewrite (Sys.C03Proofs.C03_line_filter_tool_output_proof keep cap bcap src rscript wscript Hc Hr Hw Hm).
  rewrite (Sys.C03Proofs.C03_line_filter_tool_output_proof keep cap bcap src [] [] Hc no_err_nil no_err_nil Hm).
  split; reflexivity.
Qed.

Theorem line_filter_file_status_invariant keep page cap bcap file off rscript wscript :
  1 <= page -> page <= cap -> off <= length file -> no_err rscript = true -> no_err wscript = true ->
  detect_magic (skipn off file) = false ->
  line_filter_tool_file keep page cap bcap file off rscript wscript = line_filter_tool_file keep page cap bcap file off [] [] /\
  exit_status (line_filter_tool_file keep page cap bcap file off rscript wscript) = 0.
Proof.
  intros Hp Hpc Ho Hr Hw Hm.
  rewrite (line_filter_tool_file_output keep page cap bcap file off rscript wscript Hp Hpc Ho Hr Hw Hm).
  rewrite (line_filter_tool_file_output keep page cap bcap file off [] [] Hp Hpc Ho no_err_nil no_err_nil Hm).
  split; reflexivity.
Qed.

Theorem line_filter_stream_status_invariant keep cap bcap plain chunking wscript :
  1 <= cap -> no_err chunking = true -> no_err wscript = true ->
  line_filter_tool_stream keep cap bcap plain chunking wscript = line_filter_tool_stream keep cap bcap plain [] [] /\
  exit_status (line_filter_tool_stream keep cap bcap plain chunking wscript) = 0.
Proof.
  intros Hc Hr Hw.
  rewrite (line_filter_tool_stream_output keep cap bcap plain chunking wscript Hc Hr Hw).
  rewrite (line_filter_tool_stream_output keep cap bcap plain [] [] Hc no_err_nil no_err_nil).
  split; reflexivity.
Qed.

Theorem wrapper_status_invariant g child h cr2 cap bcap src r1 w1 r2 w2 :
  1 <= cap -> no_err r1 = true -> no_err w1 = true -> no_err r2 = true -> no_err w2 = true ->
  detect_magic src = false -> detect_magic (child (concat (g (records 10%Z true src)))) = false ->
  wrapper_tool g child h cr2 cap bcap src r1 w1 r2 w2 = wrapper_tool g child h cr2 cap bcap src [] [] [] [] /\
  exit_status (wrapper_tool g child h cr2 cap bcap src r1 w1 r2 w2) = 0.
Proof.
  intros Hc H1 H2 H3 H4 Hm Hm2.
  rewrite (wrapper_tool_output g child h cr2 cap bcap src r1 w1 r2 w2 Hc H1 H2 H3 H4 Hm Hm2).
  rewrite (wrapper_tool_output g child h cr2 cap bcap src [] [] [] [] Hc no_err_nil no_err_nil no_err_nil no_err_nil Hm Hm2).
  split; reflexivity.
Qed.

Theorem shard_status_invariant route n bsize cap src rscript wscripts :
  1 <= cap -> 1 <= bsize -> no_err rscript = true -> Forall (fun sc => no_err sc = true) wscripts ->
  detect_magic src = false ->
  shard_tool route n (fun bl => bl) bsize cap src rscript wscripts = shard_tool route n (fun bl => bl) bsize cap src [] [] /\
  exit_status (shard_tool route n (fun bl => bl) bsize cap src rscript wscripts) = 0.
Proof.
  intros Hc Hb Hr Hw Hm.
  rewrite (shard_tool_plain_output route n bsize cap src rscript wscripts Hc Hb Hr Hw Hm).
  rewrite (shard_tool_plain_output route n bsize cap src [] [] Hc Hb no_err_nil (Forall_nil _) Hm).
  split; reflexivity.
Qed.

(* C02 tool level for the other backings: identity filter *)
Lemma filter_true {A} (l : list A) : filter (fun _ => true) l = l.
Proof. induction l as [|x l IH]; [reflexivity|]. simpl. f_equal. exact IH. Qed.

Theorem identity_filter_tool_file page min_buffer bcap file off rscript wscript :
  1 <= page -> off <= length file -> no_err rscript = true -> no_err wscript = true ->
  detect_magic (skipn off file) = false ->
  line_filter_tool_file (fun _ => true) page (initial_cap page min_buffer) bcap file off rscript wscript
  = Ok (unrecords 10%Z (records 10%Z true (skipn off file))).
Proof.
  intros Hp Ho Hr Hw Hm. destruct (initial_cap_ok page min_buffer Hp) as [Hpc _].
  rewrite (line_filter_tool_file_output _ page _ bcap file off rscript wscript Hp Hpc Ho Hr Hw Hm).
  rewrite filter_true. reflexivity.
Qed.

Theorem identity_filter_tool_stream page min_buffer bcap plain chunking wscript :
  1 <= page -> no_err chunking = true -> no_err wscript = true ->
  line_filter_tool_stream (fun _ => true) (initial_cap page min_buffer) bcap plain chunking wscript
  = Ok (unrecords 10%Z (records 10%Z true plain)).
Proof.
  intros Hp Hr Hw. destruct (initial_cap_ok page min_buffer Hp) as [_ Hc].
  rewrite (line_filter_tool_stream_output _ _ bcap plain chunking wscript Hc Hr Hw).
  rewrite filter_true. reflexivity.
Qed.
