(* C11 -- the mains of the three child wrappers (cache_main.cc, foldfilter_main.cc,
   b64filter_main.cc) as they are coded, over the OS oracle and a behaviour of the child.

     feeder thread    { util::FilePiece in(0); util::FileStream child_in(fd);
                        for each line of stdin: describe it, queue the description, child_in << pieces;
                        [cache: child_in.flush() every flush_rate sends]
                        queue poison; [foldfilter, b64filter: child_in.flush();] }   ~FileStream, ~FilePiece
     collector thread { util::FileStream out(1); util::FilePiece child_out(fd_c);
                        for each description: ReadLine() need-many times (EndOfFileException => exception),
                        out << record;
                        [b64filter: child_out.peek() must hit end of file, else exception] } ~FilePiece, ~FileStream
     main             Launch; start the threads (cache: the collector runs in the main thread);
                      Wait(child); join; return what Wait said.
     an exception leaving a thread function or main => std::terminate => abort();
     a write that fails with EPIPE: SIGPIPE is not ignored by the wrappers, the process is killed by it.

   Reads are real: every read(2) of the wrapper's stdin and of the child's stdout pipe is a call
   answered by the oracle (it can fail, be interrupted, or deliver fewer bytes); WHAT can be delivered
   is the environment: the bytes on stdin, and the bytes the child writes to its stdout before
   that reaches end of file ([child_out]: "answers k lines then exits / dies / closes stdout early"
   are the prefixes of the full answer).  How the child ended is [t : term] (exit code or signal).
   The queue between the threads is unbounded FIFO; each thread's system calls are sequential and
   have their own oracle, so the feeder can be run first and the collector on the descriptions it
   produced (blocking and timing are not modelled: "no hang" is not a theorem here).
   What a record is, how many child lines it needs and how it is rebuilt are PARAMETERS (feed,
   need, emit): the theorems hold for every choice, in particular for the three wrappers'.
   No proofs here. *)
From PP Require Export Sys.WrapperIODefs.
Local Open Scope Z_scope.

Definition raise {A} : M A := fun orc => (Exn, [], orc).

(* ------------------------------------------------------------------ *)
(* util::FilePiece on a descriptor, line by line.
   r_buf: bytes read and not yet handed out; r_src: bytes the other side will still deliver;
   r_eof: read() returned 0 (FilePiece::at_end_: no further read is issued). *)
Record rdr := mkRd { r_fd : Z; r_buf : list Z; r_src : list Z; r_eof : bool }.

Definition kReadChunk : Z := 4096.

(* one successful ReadShift: read() retried on EINTR (PartialRead); the oracle's [Ok n _] is how many
   bytes the kernel is willing to hand over at most (at least one while the source has bytes; nothing
   left at the source = end of file); [Err e] is a failing read *)
Fixpoint read_more (fuel : nat) (r : rdr) (orc : list outcome) : res rdr * list event * list outcome :=
  match fuel with
  | O => (Fuel, [], orc)
  | S f =>
    match sys OpRead (r_fd r) kReadChunk [] orc with
    | (Ok n _, ev, orc') =>
      if n <? read_throw_below then (Exn, ev, orc')
      else match r_src r with
           | [] => (Val (mkRd (r_fd r) (r_buf r) [] true), ev, orc')
           | _ :: _ =>
             let k := Nat.max 1 (Z.to_nat n) in
             (Val (mkRd (r_fd r) (r_buf r ++ firstn k (r_src r)) (skipn k (r_src r)) false), ev, orc')
           end
    | (Err e, ev, orc') =>
      if zmem e read_retry_errnos
      then match read_more f r orc' with (x, ev', orc'') => (x, ev ++ ev', orc'') end
      else (Exn, ev, orc')
    end
  end.

Definition ReadMore (r : rdr) : M rdr := fun orc => read_more (S (length orc)) r orc.

(* first '\n' of l: (bytes before it, bytes after it) *)
Fixpoint split_line (l acc : list Z) : option (list Z * list Z) :=
  match l with
  | [] => None
  | c :: rest => if c =? 10 then Some (rev acc, rest) else split_line rest (c :: acc)
  end.

(* ReadLineOrEOF: the next line without its '\n'; at end of file the unterminated rest is a last line;
   None = end of file with nothing left *)
Fixpoint read_line (fuel : nat) (r : rdr) (orc : list outcome) : res (option (list Z) * rdr) * list event * list outcome :=
  match split_line (r_buf r) [] with
  | Some (line, rest) => (Val (Some line, mkRd (r_fd r) rest (r_src r) (r_eof r)), [], orc)
  | None =>
    if r_eof r then
      match r_buf r with
      | [] => (Val (None, r), [], orc)
      | _ :: _ => (Val (Some (r_buf r), mkRd (r_fd r) [] (r_src r) true), [], orc)
      end
    else
      match fuel with
      | O => (Fuel, [], orc)
      | S f =>
        match ReadMore r orc with
        | (Val r', ev, orc') => match read_line f r' orc' with (x, ev', orc'') => (x, ev ++ ev', orc'') end
        | (x, ev, orc') => (cast x, ev, orc')
        end
      end
  end.

Definition ReadLine (r : rdr) : M (option (list Z) * rdr) := fun orc => read_line (S (S (length (r_src r)))) r orc.

(* number of lines ReadLine can still return from a byte string *)
Fixpoint lines_from (l : list Z) (pending : bool) : nat :=
  match l with
  | [] => if pending then 1 else 0
  | c :: rest => if c =? 10 then S (lines_from rest false) else lines_from rest true
  end.
Definition lines_of (l : list Z) : nat := lines_from l false.
Definition lines_left (r : rdr) : nat := lines_of (r_buf r ++ r_src r).

(* the lines of a byte string as ReadLine hands them out ('\n'-terminated pieces, plus an unterminated rest) *)
Fixpoint text_lines (l cur : list Z) : list (list Z) :=
  match l with
  | [] => match cur with [] => [] | _ :: _ => [rev cur] end
  | c :: rest => if c =? 10 then rev cur :: text_lines rest [] else text_lines rest (c :: cur)
  end.

(* n times ReadLine(); end of file before that: EndOfFileException (foldfilter/b64filter rethrow it as util::Exception) *)
Fixpoint read_lines (n : nat) (r : rdr) (acc : list (list Z)) : M (list (list Z) * rdr) :=
  match n with
  | O => ret (rev acc, r)
  | S m => bind (ReadLine r) (fun x =>
             match fst x with
             | None => raise
             | Some l => read_lines m (snd x) (l :: acc)
             end)
  end.

(* peek() at a place where end of file is expected; anything else: "more output than input" *)
Definition peek_eof (r : rdr) : M unit :=
  match r_buf r with
  | _ :: _ => raise
  | [] => if r_eof r then ret tt
          else bind (ReadMore r) (fun r' => match r_buf r' with [] => ret tt | _ :: _ => raise end)
  end.

(* ------------------------------------------------------------------ *)
Section WrapperMain.
  Context {D Sf Sc : Type}.
  Variable feed : Sf -> list Z -> Sf * D * list (list Z).      (* description of the record, pieces sent to the child *)
  Variable need : D -> nat.                                     (* child lines the collector reads for it *)
  Variable emit : Sc -> D -> list (list Z) -> Sc * list (list Z). (* pieces written to stdout *)
  Variable wr : wrapper.
  Variable flush_rate : nat.     (* cache: kFlushRate; 0: no periodic flush *)

  (* cache: if (!--flush_count) { process.flush(); flush_count = flush_rate; } after each send *)
  Definition periodic_flush (sent : bool) (cnt : nat) (o : bstream) : M (bstream * nat) :=
    if sent && (0 <? flush_rate)%nat then
      if (cnt <=? 1)%nat then bind (bs_flush o) (fun o' => ret (o', flush_rate))
      else ret (o, (cnt - 1)%nat)
    else ret (o, cnt).

  Definition nonempty {A} (l : list A) : bool := match l with [] => false | _ => true end.

  Fixpoint feed_loop (fuel : nat) (sf : Sf) (cnt : nat) (r : rdr) (o : bstream) (acc : list D) : M (list D * bstream * rdr) :=
    match fuel with
    | O => fun orc => (Fuel, [], orc)
    | S f =>
      bind (ReadLine r) (fun x =>
        match fst x with
        | None => ret (rev acc, o, snd x)
        | Some l =>
          let '(sf', d, pieces) := feed sf l in
          bind (bs_write_all o pieces) (fun o1 =>
          bind (periodic_flush (nonempty pieces) cnt o1) (fun oc =>
          feed_loop f sf' (snd oc) (snd x) (fst oc) (d :: acc)))
        end)
    end.

  (* the descriptions the feeder queues for given input lines *)
  Fixpoint descs (sf : Sf) (lines : list (list Z)) : list D :=
    match lines with
    | [] => []
    | l :: rest => let '(sf', d, _) := feed sf l in d :: descs sf' rest
    end.
  Definition total_need (ds : list D) : nat := fold_right Nat.add 0%nat (map need ds).

  Definition feeder_thread (sf0 : Sf) (fd_child : Z) (input : list Z) : M (list D) :=
    bind (feed_loop (S (length input)) sf0 flush_rate (mkRd 0 [] input false) (mkBS fd_child []) []) (fun x =>
    let '(ds, o, r) := x in
    bind (if explicit_flush wr then bs_flush o else ret o) (fun o' =>
    bind (bs_destroy o') (fun _ =>            (* ~FileStream child_in: flush, close the child's stdin *)
    bind (close_scoped_fd (r_fd r)) (fun _ => (* ~FilePiece in *)
    ret ds)))).

  Fixpoint collect_loop (ds : list D) (sc : Sc) (r : rdr) (o : bstream) : M (rdr * bstream) :=
    match ds with
    | [] => ret (r, o)
    | d :: rest =>
      bind (read_lines (need d) r []) (fun x =>
        let (sc', out) := emit sc d (fst x) in
        bind (bs_write_all o out) (fun o' => collect_loop rest sc' (snd x) o'))
    end.

  Definition surplus_check (w : wrapper) : bool := match w with B64filter => true | _ => false end.

  Definition collector_thread (sc0 : Sc) (fd_c : Z) (ds : list D) (child_out : list Z) : M unit :=
    bind (collect_loop ds sc0 (mkRd fd_c [] child_out false) (mkBS 1 [])) (fun x =>
    bind (if surplus_check wr then peek_eof (fst x) else ret tt) (fun _ =>
    bind (close_scoped_fd fd_c) (fun _ =>     (* ~FilePiece child_out *)
    bs_destroy (snd x)))).                    (* ~FileStream out: flush, close stdout *)

  (* a write answered EPIPE: the kernel has sent SIGPIPE first; default action *)
  Definition ev_sigpipe (e : event) : bool :=
    is_write (ev_op e) && match ev_out e with Err x => x =? EPIPE | Ok _ _ => false end.
  Definition sigpipe (evs : list event) : bool := existsb ev_sigpipe evs.

  (* the process status.  [swallows wr] (regenerated: does main contain a catch that turns an
     exception into a normal return?) is kept as the worst case "whatever happened, main returns
     Wait's value"; it is false for the three sources. *)
  Definition wrapper_main_run (sf0 : Sf) (sc0 : Sc) (fd_child fd_c : Z) (input child_out : list Z) (t : term)
      (orc_f orc_c : list outcome) : status * list event * list event :=
    let code := Exited (Wait (wstatus t) mod 256) in
    match feeder_thread sf0 fd_child input orc_f with
    | (Fuel, evf, _) => (StFuel, evf, [])
    | (Val ds, evf, _) =>
      match collector_thread sc0 fd_c ds child_out orc_c with
      | (Fuel, evc, _) => (StFuel, evf, evc)
      | (Val _, evc, _) =>
        (if sigpipe evf || sigpipe evc then Signaled SIGPIPE else code, evf, evc)
      | (_, evc, _) =>
        (if sigpipe evf || sigpipe evc then Signaled SIGPIPE
         else if swallows wr then code else Signaled SIGABRT, evf, evc)
      end
    | (_, evf, _) =>
      (* the feeder thread died: terminate; whatever the collector did until then does not matter *)
      (if sigpipe evf then Signaled SIGPIPE else if swallows wr then code else Signaled SIGABRT, evf, [])
    end.
End WrapperMain.
