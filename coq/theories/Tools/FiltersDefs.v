(* Executable models of the six line filters of property C18.  No proofs here.
     remove_long_lines, remove_invalid_utf8, remove_invalid_utf8_base64   (stateless)
     simple_cleaning                                                       (stateless; ICU classes are parameters)
     subtract_lines, commoncrawl_dedupe                                    (seen-set = the AutoProbing model)
   A line is a record of the input (Base/Lines.v [records] 10 true: what FilePiece::ReadLine /
   ReadLineOrEOF / LineIterator hand out).  Every tool writes `line << '\n'`. *)
From Coq Require Import List ZArith NArith Bool.
From PP Require Import Base.Lines Gen.Src_probing Gen.Src_filters Probing.ProbingDefs Tools.DedupeDefs B64.Base64Defs.
Import ListNotations.
Local Open Scope Z_scope.

Definition line : Type := list Z.

(* ------------------------------------------------------------------ remove_long_lines *)
(* if (l.size() <= limit) out << l << '\n'; *)
Definition long_keep (limit : N) (l : line) : bool := (N.of_nat (length l) <=? limit)%N.
Definition remove_long_lines (limit : N) (ls : list line) : list line := filter (long_keep limit) ls.

(* ------------------------------------------------------------------ well-formed UTF-8 (Unicode Table 3-7) *)
Definition trail (b : Z) : bool := (128 <=? b) && (b <=? 191).

(* first well-formed sequence of a byte string: (code point, rest) *)
Definition decode1 (bs : list Z) : option (Z * list Z) :=
  match bs with
  | [] => None
  | b0 :: r0 =>
    if b0 <? 128 then Some (b0, r0) else
    match r0 with
    | [] => None
    | b1 :: r1 =>
      if (194 <=? b0) && (b0 <=? 223) && trail b1 then Some ((b0 - 192) * 64 + (b1 - 128), r1) else
      match r1 with
      | [] => None
      | b2 :: r2 =>
        if (((b0 =? 224) && (160 <=? b1) && (b1 <=? 191))
            || ((225 <=? b0) && (b0 <=? 236) && trail b1)
            || ((b0 =? 237) && (128 <=? b1) && (b1 <=? 159))
            || ((238 <=? b0) && (b0 <=? 239) && trail b1)) && trail b2
        then Some ((b0 - 224) * 4096 + (b1 - 128) * 64 + (b2 - 128), r2) else
        match r2 with
        | [] => None
        | b3 :: r3 =>
          if (((b0 =? 240) && (144 <=? b1) && (b1 <=? 191))
              || ((241 <=? b0) && (b0 <=? 243) && trail b1)
              || ((b0 =? 244) && (128 <=? b1) && (b1 <=? 143))) && trail b2 && trail b3
          then Some ((b0 - 240) * 262144 + (b1 - 128) * 4096 + (b2 - 128) * 64 + (b3 - 128), r3) else None
        end
      end
    end
  end.

(* the whole string is a concatenation of well-formed sequences *)
Fixpoint wf_utf8_fuel (fuel : nat) (bs : list Z) : bool :=
  match bs with
  | [] => true
  | _ =>
    match fuel with
    | O => false
    | S f => match decode1 bs with Some (_, r) => wf_utf8_fuel f r | None => false end
    end
  end.
Definition wf_utf8 (bs : list Z) : bool := wf_utf8_fuel (length bs) bs.

(* ------------------------------------------------------------------ remove_invalid_utf8 *)
Definition remove_invalid_utf8 (ls : list line) : list line := filter wf_utf8 ls.

(* ------------------------------------------------------------------ remove_invalid_utf8_base64 *)
(* every line is a base64 document; an undecodable line makes base64_decode throw (uncaught: abort).
   A document that is not UTF-8 is REPLACED by the empty document (base64_encode("") = ""), not removed. *)
Fixpoint remove_invalid_utf8_base64 (ls : list line) : option (list line) :=
  match ls with
  | [] => Some []
  | l :: r =>
    match base64_decode l with
    | DOk decoded =>
      match remove_invalid_utf8_base64 r with
      | Some out => Some ((if wf_utf8 decoded then l else []) :: out)
      | None => None
      end
    | _ => None          (* util::Exception / std::length_error escapes main *)
    end
  end.

(* ------------------------------------------------------------------ subtract_lines *)
Section Keyed.
  Variable key : line -> N.            (* MurmurHashNative(line, seed 1) *)

  (* load: FindOrInsert every line of the subtrahend; (after the fix) key 0 sets the flag instead *)
  Fixpoint subtract_load (s : dstate) (sub : list line) : res dstate :=
    match sub with
    | [] => Ok s
    | l :: r => bind (seen_pass subtract_has_reserved_guard invalid s (key l)) (fun x => subtract_load (snd x) r)
    end.
  Fixpoint subtract_filter (s : dstate) (ls : list line) : res (list line) :=
    match ls with
    | [] => Ok []
    | l :: r =>
      bind (seen_find subtract_has_reserved_guard invalid s (key l)) (fun present =>
      bind (subtract_filter s r) (fun out => Ok (if present then out else l :: out)))
    end.
  Definition subtract_lines (sub ls : list line) : res (list line) :=
    bind (subtract_load dedupe_init sub) (fun s => subtract_filter s ls).

  (* ---------------------------------------------------------------- commoncrawl_dedupe *)
  Definition is_space (b : Z) : bool := nth (Z.to_nat b) kSpaces false.
  Fixpoint drop_spaces (l : line) : line :=
    match l with
    | b :: r => if is_space b then drop_spaces r else l
    | [] => []
    end.
  Definition strip_spaces (l : line) : line := rev (drop_spaces (rev (drop_spaces l))).

  Fixpoint starts_with (l p : line) : bool :=
    match p with
    | [] => true
    | c :: p' => match l with b :: l' => (b =? c) && starts_with l' p' | [] => false end
    end.

  Definition is_new_line (s : dstate) (l : line) : res (bool * dstate) :=
    seen_pass cc_has_reserved_guard invalid s (key l).

  Fixpoint cc_load (s : dstate) (rem : list line) : res dstate :=
    match rem with
    | [] => Ok s
    | l :: r => bind (is_new_line s (strip_spaces l)) (fun x => cc_load (snd x) r)
    end.

  (* l = StripSpaces(l); if (!starts_with(l, remove_line) && IsNewLine(table, l) && IsUTF8(l)) out << l *)
  Fixpoint cc_filter (s : dstate) (ls : list line) : res (list line) :=
    match ls with
    | [] => Ok []
    | l0 :: r =>
      let l := strip_spaces l0 in
      if starts_with l cc_magic then cc_filter s r
      else
        bind (is_new_line s l) (fun x =>
        bind (cc_filter (snd x) r) (fun out => Ok (if fst x && wf_utf8 l then l :: out else out)))
    end.
  Definition commoncrawl_dedupe (rem ls : list line) : res (list line) :=
    bind (cc_load dedupe_init rem) (fun s => cc_filter s ls).

  (* reference semantics *)
  Definition subtract_spec (sub ls : list line) : list line :=
    filter (fun l => negb (mem (key l) (map key sub))) ls.
  Definition cc_spec (rem ls : list line) : list line :=
    filter wf_utf8
      (first_occ_from line key (map key (map strip_spaces rem))
         (filter (fun l => negb (starts_with l cc_magic)) (map strip_spaces ls))).
End Keyed.

(* ------------------------------------------------------------------ simple_cleaning *)
Record sc_options : Type := mkSC {
  sc_min_chars : N;
  sc_character_run : N;
  sc_min_punct_sample_size : N;
  sc_nscripts : nat                     (* options_.scripts.size(), only its emptiness matters to the model *)
}.

Section SimpleCleaning.
  (* ICU, as environment: script code of a code point (None = U_FAILURE or USCRIPT_INVALID_CODE),
     u_ispunct, u_isspace; USCRIPT_COMMON / USCRIPT_INHERITED codes *)
  Variable script_of : Z -> option N.
  Variable is_punct : Z -> bool.
  Variable is_uspace : Z -> bool.
  Variable script_common script_inherited : N.
  (* the three floating-point threshold tests, as environment (single-precision arithmetic of the C++):
       too_common ci chars      = (float)ci > max_common_inherited * (float)chars
       little_punct punct chars = punct < min_punct * chars
       script_low counts chars  = in_script / after_common_inherited < min_scripts   *)
  Variable too_common : N -> N -> bool.
  Variable little_punct : N -> N -> bool.
  Variable script_low : (N -> N) -> N -> bool.
  Variable o : sc_options.

  Definition two64 : N := 18446744073709551616%N.

  (* per-line state of SimpleCleaningFilter::operator(): counts[], punct, spaces, previous, previous_run *)
  Record sc_state : Type := mkS { counts : N -> N; punct : N; spaces : N; total : N; previous : Z; previous_run : N }.
  Definition sc_init : sc_state := mkS (fun _ => 0%N) 0 0 0 0 0.

  (* one iteration of the while loop; None = return false *)
  Definition sc_char (st : sc_state) (c : Z) : option sc_state :=
    if (c <? sc_control_bound) && negb (c =? 9) && negb (c =? 13) then None else
    match script_of c with
    | None => None
    | Some sc =>
      let counts' := fun x => if (x =? sc)%N then (counts st x + 1)%N else counts st x in
      let punct' := if is_punct c then (punct st + 1)%N else punct st in
      let spaces' := if is_uspace c then (spaces st + 1)%N else spaces st in
      if previous st =? c then
        let run := (previous_run st + 1)%N in
        if (sc_character_run o <=? run)%N && negb (is_uspace c) then None
        else Some (mkS counts' punct' spaces' (total st + 1)%N (previous st) run)
      else Some (mkS counts' punct' spaces' (total st + 1)%N c 1%N)
    end.

  (* while (offset < length) { U8_NEXT(...); ... }: an ill-formed sequence gives a negative character => false *)
  Fixpoint sc_loop (fuel : nat) (st : sc_state) (bs : list Z) : option sc_state :=
    match bs with
    | [] => Some st
    | _ =>
      match fuel with
      | O => None
      | S f =>
        match decode1 bs with
        | None => None
        | Some (c, r) => match sc_char st c with None => None | Some st' => sc_loop f st' r end
        end
      end
    end.

  (* bool SimpleCleaningFilter::operator()(const StringPiece &line) const *)
  Definition sc_filter (l : line) : bool :=
    match sc_loop (length l) sc_init l with
    | None => false
    | Some st =>
      let characters := total st in
      if (characters <? sc_min_chars o)%N then false else
      let common_inherited := ((counts st script_inherited + counts st script_common + two64 - spaces st) mod two64)%N in
      if too_common common_inherited characters then false else
      if (sc_min_punct_sample_size o <? characters)%N && little_punct (punct st) characters then false else
      if negb (Nat.eqb (sc_nscripts o) 0) && script_low (counts st) characters then false else true
    end.

  (* IndividualFields(str, indices, delim, callback): indices = sorted disjoint [begin, end) ranges,
     end = None for kInfiniteEnd.  `rest` = the bytes from `begin` to the end of the line. *)
  Fixpoint split_first (d : Z) (bs : list Z) (acc : list Z) : list Z * option (list Z) :=
    match bs with
    | [] => (rev acc, None)                         (* std::find returned end *)
    | b :: r => if b =? d then (rev acc, Some r) else split_first d r (b :: acc)
    end.

  (* for (; index < f.begin; ++index) { found = find(begin, end, delim); if (found == end) return true; begin = found + 1; } *)
  Fixpoint skip_fields (n : nat) (d : Z) (rest : list Z) : option (list Z) :=
    match n with
    | O => Some rest
    | S n' =>
      match snd (split_first d rest []) with
      | None => None                                  (* the line has fewer fields than requested *)
      | Some r => skip_fields n' d r
      end
    end.

  (* for (; index < f.end; ++index) { found = find(..); if (!callback(field)) return false;
                                      if (found == end) return true; begin = found + 1; }
     result: inl b = returned b; inr rest = range exhausted, continue with the next range.
     `fuel` bounds the unbounded kInfiniteEnd range by the number of bytes + 1. *)
  Fixpoint take_fields (fuel : nat) (n : option nat) (d : Z) (rest : list Z) : bool + list Z :=
    match fuel with
    | O => inl true
    | S fuel' =>
      match n with
      | Some O => inr rest
      | _ =>
        let (field, after) := split_first d rest [] in
        if negb (sc_filter field) then inl false else
        match after with
        | None => inl true                            (* that was the last field of the line *)
        | Some r => take_fields fuel' (match n with Some (S k) => Some k | _ => None end) d r
        end
      end
    end.

  Fixpoint individual_fields (ranges : list (nat * option nat)) (index : nat) (d : Z) (rest : list Z) : bool :=
    match ranges with
    | [] => true
    | (b, e) :: more =>
      match skip_fields (b - index) d rest with
      | None => true
      | Some rest1 =>
        let idx1 := Nat.max index b in
        match take_fields (S (S (length rest1))) (match e with Some e' => Some (e' - idx1)%nat | None => None end) d rest1 with
        | inl r => r
        | inr rest2 => individual_fields more (match e with Some e' => Nat.max idx1 e' | None => idx1 end) d rest2
        end
      end
    end.

  (* ---- the filter as an OBJECT: what a call finds in the per-call variables ----
     counts[], punct/spaces, previous, previous_run are declared and initialised inside operator() in the
     source (flags regenerated from simple_cleaning_main.cc).  Were one of them hoisted into the object, a call
     would start from what the previous call (previous field, previous line) left: the model follows the flags. *)
  Definition sc_call_init (carried : sc_state) : sc_state :=
    mkS (if sc_counts_fresh_each_call then (fun _ => 0%N) else counts carried)
        (if sc_punct_spaces_fresh_each_call then 0%N else punct carried)
        (if sc_punct_spaces_fresh_each_call then 0%N else spaces carried)
        (if sc_counts_fresh_each_call then 0%N else total carried)
        (if sc_previous_fresh_each_call then 0 else previous carried)
        (if sc_previous_run_fresh_each_call then 0%N else previous_run carried).

  Definition sc_post (st : sc_state) : bool :=
    let characters := total st in
    if (characters <? sc_min_chars o)%N then false else
    let common_inherited := ((counts st script_inherited + counts st script_common + two64 - spaces st) mod two64)%N in
    if too_common common_inherited characters then false else
    if (sc_min_punct_sample_size o <? characters)%N && little_punct (punct st) characters then false else
    if negb (Nat.eqb (sc_nscripts o) 0) && script_low (counts st) characters then false else true.

  (* one call of the object on a field: decision and what the call leaves behind
     (on an early `return false` approximated by the state the call started from) *)
  Definition sc_filter_obj (carried : sc_state) (l : line) : bool * sc_state :=
    let st0 := sc_call_init carried in
    match sc_loop (length l) st0 l with
    | None => (false, st0)
    | Some st => (sc_post st, st)
    end.

  (* IndividualFields with the callback object threaded through every call *)
  Fixpoint take_fields_obj (fuel : nat) (n : option nat) (d : Z) (rest : list Z) (c : sc_state) : (bool + list Z) * sc_state :=
    match fuel with
    | O => (inl true, c)
    | S fuel' =>
      match n with
      | Some O => (inr rest, c)
      | _ =>
        let (field, after) := split_first d rest [] in
        let (ok, c') := sc_filter_obj c field in
        if negb ok then (inl false, c') else
        match after with
        | None => (inl true, c')
        | Some r => take_fields_obj fuel' (match n with Some (S k) => Some k | _ => None end) d r c'
        end
      end
    end.

  Fixpoint individual_fields_obj (ranges : list (nat * option nat)) (index : nat) (d : Z) (rest : list Z) (c : sc_state) : bool * sc_state :=
    match ranges with
    | [] => (true, c)
    | (b, e) :: more =>
      match skip_fields (b - index) d rest with
      | None => (true, c)
      | Some rest1 =>
        let idx1 := Nat.max index b in
        match take_fields_obj (S (S (length rest1))) (match e with Some e' => Some (e' - idx1)%nat | None => None end) d rest1 c with
        | (inl r, c') => (r, c')
        | (inr rest2, c') => individual_fields_obj more (match e with Some e' => Nat.max idx1 e' | None => idx1 end) d rest2 c'
        end
      end
    end.

  (* SimpleCleaningFilterFields::operator() *)
  Definition sc_line_keep (ranges : list (nat * option nat)) (d : Z) (l : line) : bool :=
    individual_fields ranges 0 d l.
  Definition simple_cleaning (ranges : list (nat * option nat)) (d : Z) (ls : list line) : list line :=
    filter (sc_line_keep ranges d) ls.
End SimpleCleaning.

(* ------------------------------------------------------------------ the tools as the LOOPS they are
   `while (read a line) { if (pass(line)) out << line << '\n'; }` with everything that lives across iterations in
   the C++ as explicit state: the pass object (S), the line variable (declared outside the loop in
   remove_invalid_utf8 and FilterParallel and overwritten by every read), the input/output counters of
   FilterParallel, the output stream.  [l_out] is what was written. *)
Section LineLoop.
  Variable S : Type.
  Variable pass : S -> line -> bool * S.
  Record loop_state : Type := mkLoop { l_obj : S; l_line : line; l_input : N; l_output : N; l_out : list line }.
  Definition loop_step (st : loop_state) (rec : line) : loop_state :=
    let st1 := mkLoop (l_obj st) rec (l_input st + 1)%N (l_output st) (l_out st) in      (* line = in.ReadLine(); ++input *)
    let (keep, obj') := pass (l_obj st1) (l_line st1) in                                 (* pass(line) reads the variable *)
    if keep then mkLoop obj' (l_line st1) (l_input st1) (l_output st1 + 1)%N (l_out st1 ++ [l_line st1])
    else mkLoop obj' (l_line st1) (l_input st1) (l_output st1) (l_out st1).
  Definition run_loop (obj0 : S) (recs : list line) : loop_state :=
    fold_left loop_step recs (mkLoop obj0 [] 0%N 0%N []).
End LineLoop.
Arguments l_out {S}.
Arguments l_input {S}.
Arguments l_output {S}.

Definition remove_long_lines_loop (limit : N) (recs : list line) : list line :=
  l_out (run_loop unit (fun _ l => (long_keep limit l, tt)) tt recs).
Definition remove_invalid_utf8_loop (recs : list line) : list line :=
  l_out (run_loop unit (fun _ l => (wf_utf8 l, tt)) tt recs).
Definition simple_cleaning_loop script_of is_punct is_uspace script_common script_inherited too_common little_punct script_low o
    (ranges : list (nat * option nat)) (d : Z) (recs : list line) : list line :=
  l_out (run_loop sc_state
           (fun c l => individual_fields_obj script_of is_punct is_uspace script_common script_inherited too_common little_punct script_low o ranges 0 d l c)
           sc_init recs).

(* ------------------------------------------------------------------ the tools on bytes *)
Definition lines_of (input : list Z) : list line := records newline true input.
(* simple_cleaning reads through FilterParallel: same flag as dedupe (regenerated from parallel.hh) *)
Definition lines_of_parallel (input : list Z) : list line := tool_lines input.
(* remove_invalid_utf8 passes its own strip_cr argument to ReadLineOrEOF (regenerated) *)
Definition lines_of_utf8_tool (input : list Z) : list line := records newline utf8_strip_cr input.
Definition bytes_of (ls : list line) : list Z := unrecords newline ls.
