(* Executable model of preprocess/dedupe_main.cc on top of preprocess/parallel.hh (FilterParallel)
   and the AutoProbing model.  No proofs here.

   A "line" is what FilePiece::ReadLine hands to the pass: a record of the input (Base/Lines.v
   [records] 10 true).  The 64-bit key of a line (MurmurHashNative(line, seed 1), or the HashCallback
   fold over the -f/-d selection) is the function parameter [key]: every theorem quantifies over it. *)
From Coq Require Import List NArith Bool.
From PP Require Import Base.Lines Gen.Src_probing Gen.Src_dedupe Probing.ProbingDefs.
Import ListNotations.
Local Open Scope N_scope.

(* Entry of dedupe_main.cc: the key only; no other bytes *)
Definition dtable : Type := auto unit.
Definition idhash (x : N) : N := x.       (* util::IdentityHash *)

(* class Dedupe: table_ and (when the source has the reserved-key guard) seen_zero_ *)
Record dstate : Type := mkD { d_tab : dtable; d_seen_zero : bool }.
Definition dedupe_init : dstate := mkD (auto_init unit tt) false.

(* insert-if-absent on the seen-set with an optional guard for the key the table reserves:
   `if (key == rk) { bool first = !seen_zero_; seen_zero_ = true; return first; }` then
   `return !table_.FindOrInsert(entry, it)`.  Returns "is new". *)
Definition seen_pass (guard : bool) (rk : N) (s : dstate) (k : N) : res (bool * dstate) :=
  if guard && (k =? rk) then
    Ok (negb (d_seen_zero s), mkD (d_tab s) true)
  else
    bind (auto_find_or_insert unit tt idhash (d_tab s) (k, tt)) (fun r =>
      match r with (found, _, t') => Ok (negb found, mkD t' (d_seen_zero s)) end).

(* membership test only (`table.Find(key, it)`), with the same optional guard.  Returns "is present". *)
Definition seen_find (guard : bool) (rk : N) (s : dstate) (k : N) : res bool :=
  if guard && (k =? rk) then Ok (d_seen_zero s)
  else bind (auto_find unit idhash (d_tab s) k) (fun r => Ok (match r with Some _ => true | None => false end)).

(* bool Dedupe::operator()(uint64_t key) *)
Definition dedupe_pass : dstate -> N -> res (bool * dstate) :=
  seen_pass dedupe_has_reserved_guard dedupe_reserved_key.

Section Lines.
  Variable A : Type.                 (* a line *)
  Variable key : A -> N.             (* its 64-bit key *)

  (* FilterParallel, files.empty(): while (ReadLine) { if (pass(line)) out << line << '\n'; } *)
  Fixpoint filter_loop (s : dstate) (ls : list A) : res (list A) :=
    match ls with
    | [] => Ok []
    | l :: r =>
      bind (dedupe_pass s (key l)) (fun x =>
      bind (filter_loop (snd x) r) (fun out => Ok (if fst x then l :: out else out)))
    end.
  Definition dedupe (ls : list A) : res (list A) := filter_loop dedupe_init ls.

  (* FilterParallel, 4 files.  Exit status of the process. *)
  Inductive pstatus : Type :=
  | PDone                (* return 0 *)
  | PUnbalanced          (* in1 has lines left: "Input is not balaced", return 2 *)
  | PAbort.              (* in1 ran out first: EndOfFileException from in1.ReadLine() is not caught *)

  Variable key1 : A -> N.            (* key function of the second side (same options => same function) *)

  Fixpoint par_loop (s0 s1 : dstate) (in0 in1 : list A) : res (pstatus * list (A * A)) :=
    match in0 with
    | [] => Ok (match in1 with [] => PDone | _ => PUnbalanced end, [])
    | l0 :: r0 =>
      match in1 with
      | [] => Ok (PAbort, [])
      | l1 :: r1 =>
        bind (dedupe_pass s0 (key l0)) (fun x0 =>
          if fst x0 then
            (* pass0(line0) && pass1(line1): pass1 runs only when pass0 returned true *)
            bind (dedupe_pass s1 (key1 l1)) (fun x1 =>
            bind (par_loop (snd x0) (snd x1) r0 r1) (fun rest =>
              Ok (fst rest, if fst x1 then (l0, l1) :: snd rest else snd rest)))
          else
            par_loop (snd x0) s1 r0 r1)
      end
    end.
  Definition dedupe_par (in0 in1 : list A) : res (pstatus * list (A * A)) :=
    par_loop dedupe_init dedupe_init in0 in1.

  (* ---- reference semantics ---- *)
  Definition mem (k : N) (seen : list N) : bool := existsb (N.eqb k) seen.

  (* stable first-occurrence filter *)
  Fixpoint first_occ_from (seen : list N) (ls : list A) : list A :=
    match ls with
    | [] => []
    | l :: r => if mem (key l) seen then first_occ_from seen r else l :: first_occ_from (key l :: seen) r
    end.
  Definition first_occ (ls : list A) : list A := first_occ_from [] ls.

  (* the pairs -p keeps: a pair is dropped when its first side repeats, or (first side new and)
     its second side repeats among the second sides that were looked at *)
  Fixpoint par_spec_from (seen0 seen1 : list N) (ps : list (A * A)) : list (A * A) :=
    match ps with
    | [] => []
    | (l0, l1) :: r =>
      if mem (key l0) seen0 then par_spec_from seen0 seen1 r
      else if mem (key1 l1) seen1 then par_spec_from (key l0 :: seen0) seen1 r
      else (l0, l1) :: par_spec_from (key l0 :: seen0) (key1 l1 :: seen1) r
    end.
  Definition par_spec (ps : list (A * A)) : list (A * A) := par_spec_from [] [] ps.
End Lines.


(* ---- the tool on bytes: stdin -> stdout ---- *)
Definition newline : Z := 10%Z.
(* the lines FilterParallel hands to the pass: ReadLine('\n', strip_cr) with the flag regenerated from parallel.hh *)
Definition tool_lines (input : list Z) : list (list Z) := records newline parallel_strip_cr input.
Definition dedupe_tool (key : list Z -> N) (input : list Z) : res (list Z) :=
  bind (dedupe (list Z) key (tool_lines input)) (fun out => Ok (unrecords newline out)).

Definition dedupe_par_tool (key : list Z -> N) (input0 input1 : list Z) : res (pstatus * list Z * list Z) :=
  bind (dedupe_par (list Z) key key (tool_lines input0) (tool_lines input1)) (fun r =>
    Ok (fst r, unrecords newline (map fst (snd r)), unrecords newline (map snd (snd r)))).
