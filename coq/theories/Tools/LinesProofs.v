(* Facts about the record specification of Base/Lines.v used by the tool-level theorems of C01/C18:
   records never contain the delimiter; reading back what was written gives the same lines when CR
   stripping is the identity on them. *)
From Coq Require Import List ZArith Bool Lia.
From PP Require Import Base.Lines.
Import ListNotations.
Local Open Scope Z_scope.

Lemma no_delim_app d a b : no_delim d (a ++ b) = no_delim d a && no_delim d b.
Proof. unfold no_delim. apply forallb_app. Qed.

Lemma no_delim_rev d l : no_delim d (rev l) = no_delim d l.
Proof.
  induction l as [|x l IH]; [reflexivity|]. simpl. rewrite no_delim_app, IH. simpl.
  rewrite andb_true_r. apply andb_comm.
Qed.

Lemma split_at_nodelim d : forall bs cur rs t, no_delim d cur = true -> split_at d bs cur = (rs, t) ->
  forallb (no_delim d) rs = true /\ no_delim d t = true.
Proof.
  induction bs as [|b r IH]; intros cur rs t Hc H; simpl in H.
  - injection H as <- <-. split; [reflexivity|]. now rewrite no_delim_rev.
  - destruct (b =? d) eqn:E.
    + destruct (split_at d r []) as [rs' t'] eqn:S. injection H as <- <-.
      destruct (IH [] rs' t' eq_refl S) as [A B]. split; auto. simpl. rewrite no_delim_rev, Hc. exact A.
    + apply (IH (b :: cur)); auto. simpl. rewrite E. exact Hc.
Qed.

Lemma strip_cr_nodelim d l : no_delim d l = true -> no_delim d (strip_cr l) = true.
Proof.
  intros H. unfold strip_cr. destruct (rev l) as [|x r] eqn:E; auto.
  assert (Hl : l = rev r ++ [x]) by (rewrite <- (rev_involutive l), E; reflexivity).
  assert (Hr : no_delim d (rev r) = true).
  { rewrite Hl, no_delim_app in H. now apply andb_true_iff in H. }
  destruct x; auto. repeat (destruct p; auto).
Qed.

Theorem records_nodelim d cr bs : forallb (no_delim d) (records d cr bs) = true.
Proof.
  unfold records. destruct (split_at d bs []) as [rs t] eqn:S.
  destruct (split_at_nodelim d bs [] rs t eq_refl S) as [A B].
  rewrite forallb_app. apply andb_true_iff. split.
  - destruct cr; [|now rewrite map_id]. apply forallb_forall. intros x Hx. apply in_map_iff in Hx.
    destruct Hx as (y & <- & Hy). apply strip_cr_nodelim. eapply forallb_forall in A; eauto.
  - destruct t as [|z t']; [reflexivity|]. cbn [forallb]. rewrite B. reflexivity.
Qed.

(* writing lines and reading them back *)
Theorem records_unrecords_cr d rs : forallb (no_delim d) rs = true ->
  (forall l, In l rs -> strip_cr l = l) -> records d true (unrecords d rs) = rs.
Proof.
  intros H Hs. unfold records. rewrite split_at_unrecords by exact H. rewrite app_nil_r.
  rewrite <- (map_id rs) at 2. apply map_ext_in. exact Hs.
Qed.
