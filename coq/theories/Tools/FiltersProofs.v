(* Proofs for the line-filter models (property C18). *)
From Coq Require Import List ZArith NArith Lia Bool Permutation.
From PP Require Import Base.Lines Gen.Src_probing Gen.Src_filters Probing.ProbingDefs Probing.ProbingProofs
  Tools.DedupeDefs Tools.DedupeProofs Tools.FiltersDefs B64.Base64Defs.
Import ListNotations.
Local Open Scope Z_scope.

Lemma filter_subseq {A} (p : A -> bool) (l : list A) : Subseq (filter p l) l.
Proof. induction l as [|x l IH]; simpl; [constructor|]. destruct (p x); [apply SubTake|apply SubSkip]; auto. Qed.

(* ---- the record splitter is a homomorphism at line boundaries ---- *)
Lemma split_at_terminated d : forall A cur B,
  split_at d (A ++ d :: B) cur =
    (fst (split_at d A cur) ++ snd (split_at d A cur) :: fst (split_at d B []), snd (split_at d B [])).
Proof.
  induction A as [|a A IH]; intros cur B; simpl.
  - rewrite Z.eqb_refl. destruct (split_at d B []); reflexivity.
  - destruct (a =? d) eqn:E.
    + rewrite IH. destruct (split_at d A []) as [rs t]; simpl. reflexivity.
    + apply IH.
Qed.

Theorem records_app_terminated d cr (A B : list Z) :
  records d cr (A ++ d :: B) = records d cr (A ++ [d]) ++ records d cr B.
Proof.
  unfold records. rewrite split_at_terminated. rewrite (split_at_terminated d A [] []). simpl.
  destruct (split_at d A []) as [rsA tA]; destruct (split_at d B []) as [rsB tB]; simpl.
  rewrite !map_app. simpl. rewrite app_nil_r. rewrite <- !app_assoc. simpl. reflexivity.
Qed.

(* ---- remove_long_lines ---- *)
Theorem long_keep_exact limit l : long_keep limit l = true <-> (N.of_nat (length l) <= limit)%N.
Proof. unfold long_keep. apply N.leb_le. Qed.

Theorem remove_long_lines_app limit a b :
  remove_long_lines limit (a ++ b) = remove_long_lines limit a ++ remove_long_lines limit b.
Proof. apply filter_app. Qed.
