(* Proofs for the line-filter models (property C18). *)
From Coq Require Import List ZArith NArith Lia Bool Permutation.
From PP Require Import Base.Lines Gen.Src_probing Gen.Src_filters Probing.ProbingDefs Probing.ProbingProofs
  Tools.DedupeDefs Tools.DedupeProofs Tools.FiltersDefs B64.Base64Defs.
Import ListNotations.
Local Open Scope Z_scope.

Lemma filter_subseq {A} (p : A -> bool) (l : list A) : Subseq (filter p l) l.
Proof. induction l as [|x l IH]; simpl; [constructor|]. destruct (p x); [apply SubTake|apply SubSkip]; auto. Qed.

Lemma Subseq_trans {A} (a b c : list A) : Subseq a b -> Subseq b c -> Subseq a c.
Proof.
  intros H1 H2. revert a H1. induction H2 as [|x s l H IH|x s l H IH]; intros a H1.
  - exact H1.
  - apply SubSkip. apply IH. exact H1.
  - inversion H1; subst.
    + apply SubSkip. apply IH. assumption.
    + apply SubTake. apply IH. assumption.
Qed.

(* ---- the record splitter is a homomorphism at line boundaries ---- *)
Lemma split_at_terminated d : forall A cur B,
  split_at d (A ++ d :: B) cur =
    (fst (split_at d A cur) ++ snd (split_at d A cur) :: fst (split_at d B []), snd (split_at d B [])).
Proof.
  induction A as [|a A IH]; intros cur B; simpl.
  - rewrite Z.eqb_refl. destruct (split_at d B []); reflexivity.
  - destruct (a =? d) eqn:E.
    + rewrite IH. destruct (split_at d A []) as [rs t]; simpl. reflexivity.
    + apply IH.
Qed.

Theorem records_app_terminated d cr (A B : list Z) :
  records d cr (A ++ d :: B) = records d cr (A ++ [d]) ++ records d cr B.
Proof.
  unfold records. rewrite split_at_terminated. rewrite (split_at_terminated d A [] []). simpl.
  destruct (split_at d A []) as [rsA tA]; destruct (split_at d B []) as [rsB tB]; simpl.
  rewrite !map_app. simpl. rewrite app_nil_r. rewrite <- !app_assoc. simpl. reflexivity.
Qed.

(* ---- remove_long_lines ---- *)
Theorem long_keep_exact limit l : long_keep limit l = true <-> (N.of_nat (length l) <= limit)%N.
Proof. unfold long_keep. apply N.leb_le. Qed.

Theorem remove_long_lines_app limit a b :
  remove_long_lines limit (a ++ b) = remove_long_lines limit a ++ remove_long_lines limit b.
Proof. apply filter_app. Qed.

Theorem remove_long_lines_subseq limit ls : Subseq (remove_long_lines limit ls) ls.
Proof. apply filter_subseq. Qed.

(* ---- remove_invalid_utf8 ---- *)
Theorem remove_invalid_utf8_app a b : remove_invalid_utf8 (a ++ b) = remove_invalid_utf8 a ++ remove_invalid_utf8 b.
Proof. apply filter_app. Qed.
Theorem remove_invalid_utf8_subseq ls : Subseq (remove_invalid_utf8 ls) ls.
Proof. apply filter_subseq. Qed.

(* ---- remove_invalid_utf8_base64: a per-line map ---- *)
Definition b64_line (l : line) : option line :=
  match base64_decode l with DOk d => Some (if wf_utf8 d then l else []) | _ => None end.

Theorem b64_linewise : forall ls out, remove_invalid_utf8_base64 ls = Some out ->
  length out = length ls /\ forall i, nth_error out i = match nth_error ls i with Some l => b64_line l | None => None end.
Proof.
  induction ls as [|l r IH]; intros out H; simpl in H.
  - injection H as <-. split; auto. intros [|i]; reflexivity.
  - destruct (base64_decode l) as [d| |] eqn:E; try discriminate.
    destruct (remove_invalid_utf8_base64 r) as [o|] eqn:Er; try discriminate. injection H as <-.
    destruct (IH o eq_refl) as [Hl Hn]. split; [simpl; now rewrite Hl|].
    intros [|i]; simpl; [unfold b64_line; now rewrite E|apply Hn].
Qed.

Theorem b64_app : forall a b,
  remove_invalid_utf8_base64 (a ++ b) =
    match remove_invalid_utf8_base64 a, remove_invalid_utf8_base64 b with
    | Some x, Some y => Some (x ++ y)
    | _, _ => None
    end.
Proof.
  induction a as [|l r IH]; intros b; simpl.
  - destruct (remove_invalid_utf8_base64 b); reflexivity.
  - destruct (base64_decode l); auto. rewrite IH.
    destruct (remove_invalid_utf8_base64 r), (remove_invalid_utf8_base64 b); reflexivity.
Qed.

(* ---- the tools on bytes: splitting the input at a line boundary splits the output ---- *)
Lemma bytes_of_app a b : bytes_of (a ++ b) = bytes_of a ++ bytes_of b.
Proof. unfold bytes_of, unrecords. apply flat_map_app. Qed.

Theorem stateless_tool_split (F : list line -> list line) (cr : bool) :
  (forall a b, F (a ++ b) = F a ++ F b) ->
  forall A B, bytes_of (F (records newline cr (A ++ newline :: B))) =
              bytes_of (F (records newline cr (A ++ [newline]))) ++ bytes_of (F (records newline cr B)).
Proof.
  intros HF A B. rewrite records_app_terminated, HF. apply bytes_of_app.
Qed.

(* ---- subtract_lines and commoncrawl_dedupe on the seen-set ---- *)
Lemma subtract_guard : subtract_has_reserved_guard = true.
Proof. reflexivity. Qed.
Lemma cc_guard : cc_has_reserved_guard = true.
Proof. reflexivity. Qed.

Section Keyed.
  Variable key : line -> N.

  Lemma subtract_load_spec : forall sub s seen, SInv s seen ->
    exists s', subtract_load key s sub = Ok s' /\ SInv s' (map key sub ++ seen).
  Proof.
    induction sub as [|l r IH]; intros s seen Hs.
    - exists s. split; auto.
    - cbn [subtract_load]. rewrite subtract_guard.
      destruct (seen_pass_spec s seen (key l) Hs) as (s1 & Hp & Hs1). rewrite Hp. cbn [bind snd].
      destruct (IH s1 (key l :: seen) Hs1) as (s2 & Hl & Hs2). exists s2. split; auto.
      eapply SInv_ext; [exact Hs2|]. intros k. cbn [map app]. rewrite !in_app_iff. simpl. rewrite in_app_iff. tauto.
  Qed.

  Lemma subtract_filter_spec : forall ls s seen, SInv s seen ->
    subtract_filter key s ls = Ok (filter (fun l => negb (mem (key l) seen)) ls).
  Proof.
    induction ls as [|l r IH]; intros s seen Hs; [reflexivity|].
    cbn [subtract_filter filter]. rewrite subtract_guard. rewrite (seen_find_spec s seen (key l) Hs). cbn [bind].
    rewrite (IH s seen Hs). cbn [bind]. destruct (mem (key l) seen); reflexivity.
  Qed.

  Theorem subtract_lines_spec sub ls : subtract_lines key sub ls = Ok (subtract_spec key sub ls).
  Proof.
    unfold subtract_lines, subtract_spec.
    destruct (subtract_load_spec sub dedupe_init [] SInv_init) as (s & Hl & Hs). rewrite Hl. cbn [bind].
    rewrite (subtract_filter_spec ls s _ Hs). f_equal. apply filter_ext. intros l. f_equal.
    apply mem_ext. intros k. rewrite app_nil_r. tauto.
  Qed.

  Lemma cc_load_spec : forall rem s seen, SInv s seen ->
    exists s', cc_load key s rem = Ok s' /\ SInv s' (map key (map strip_spaces rem) ++ seen).
  Proof.
    induction rem as [|l r IH]; intros s seen Hs.
    - exists s. split; auto.
    - cbn [cc_load]. unfold is_new_line. rewrite cc_guard.
      destruct (seen_pass_spec s seen (key (strip_spaces l)) Hs) as (s1 & Hp & Hs1). rewrite Hp. cbn [bind snd].
      destruct (IH s1 (key (strip_spaces l) :: seen) Hs1) as (s2 & Hl & Hs2). exists s2. split; auto.
      eapply SInv_ext; [exact Hs2|]. intros k. cbn [map app]. rewrite !in_app_iff. simpl. rewrite in_app_iff. tauto.
  Qed.

  Lemma cc_filter_spec : forall ls s seen, SInv s seen ->
    cc_filter key s ls =
      Ok (filter wf_utf8 (first_occ_from line key seen
            (filter (fun l => negb (starts_with l cc_magic)) (map strip_spaces ls)))).
  Proof.
    induction ls as [|l0 r IH]; intros s seen Hs; [reflexivity|].
    cbn [cc_filter map filter]. destruct (starts_with (strip_spaces l0) cc_magic) eqn:Mg; cbn [negb].
    - apply IH; auto.
    - unfold is_new_line. rewrite cc_guard.
      destruct (seen_pass_spec s seen (key (strip_spaces l0)) Hs) as (s1 & Hp & Hs1). rewrite Hp. cbn [bind fst snd].
      cbn [first_occ_from]. destruct (mem (key (strip_spaces l0)) seen) eqn:M; cbn [negb andb].
      + assert (Hs1' : SInv s1 seen) by (eapply SInv_repeat; eauto; now apply mem_In).
        rewrite (IH s1 seen Hs1'). reflexivity.
      + rewrite (IH s1 _ Hs1). cbn [bind filter]. destruct (wf_utf8 (strip_spaces l0)); reflexivity.
  Qed.

  Theorem commoncrawl_dedupe_spec rem ls : commoncrawl_dedupe key rem ls = Ok (cc_spec key rem ls).
  Proof.
    unfold commoncrawl_dedupe, cc_spec.
    destruct (cc_load_spec rem dedupe_init [] SInv_init) as (s & Hl & Hs). rewrite Hl. cbn [bind].
    rewrite app_nil_r in Hs. rewrite (cc_filter_spec ls s _ Hs). reflexivity.
  Qed.

  (* set subtraction, stated on membership: every copy of every subtrahend key is removed and nothing else *)
  Theorem subtract_spec_in sub ls l :
    In l (subtract_spec key sub ls) <-> In l ls /\ ~ In (key l) (map key sub).
  Proof.
    unfold subtract_spec. rewrite filter_In. rewrite negb_true_iff. split; intros [H1 H2]; split; auto.
    - intros Hin. apply mem_In in Hin. congruence.
    - destruct (mem (key l) (map key sub)) eqn:M; auto. apply mem_In in M. contradiction.
  Qed.
End Keyed.

(* ---- well-formed UTF-8: structure lemmas ---- *)
Definition safe_byte (b : Z) : bool := (32 <=? b) || (b =? 9) || (b =? 13).
Definition safe_bytes (l : line) : bool := forallb safe_byte l.

Ltac boolz :=
  unfold trail in *;
  repeat match goal with
         | H : _ && _ = true |- _ => apply andb_true_iff in H; destruct H
         | H : _ || _ = true |- _ => apply orb_true_iff in H
         | H : (_ <=? _) = true |- _ => apply Z.leb_le in H
         | H : (_ <? _) = true |- _ => apply Z.ltb_lt in H
         | H : (_ <? _) = false |- _ => apply Z.ltb_ge in H
         | H : (_ =? _) = true |- _ => apply Z.eqb_eq in H
         end.

(* what decode1 consumed: one byte below 128 that IS the code point, or 2-4 bytes all >= 128 *)
Lemma decode1_inv bs c r : decode1 bs = Some (c, r) ->
  exists pre, bs = pre ++ r /\ pre <> [] /\
    ((pre = [c] /\ c < 128) \/ (128 <= c /\ forall b, In b pre -> 128 <= b)).
Proof.
  unfold decode1. destruct bs as [|b0 r0]; [discriminate|].
  destruct (b0 <? 128) eqn:E0.
  { intros H; injection H as <- <-. exists [b0]. boolz. split; auto. split; [discriminate|]. left. auto. }
  destruct r0 as [|b1 r1]; [discriminate|].
  destruct ((194 <=? b0) && (b0 <=? 223) && trail b1) eqn:E1.
  { intros H; injection H as <- <-. exists [b0; b1]. split; auto. split; [discriminate|]. right. boolz.
    split; [lia|]. intros b [<-|[<-|[]]]; lia. }
  destruct r1 as [|b2 r2]; [discriminate|].
  match goal with |- context [if ?c then _ else _] => destruct c eqn:E2 end.
  { intros H; injection H as <- <-. exists [b0; b1; b2]. split; auto. split; [discriminate|]. right. boolz.
    assert (224 <= b0 /\ 128 <= b1 /\ 128 <= b2) by (repeat match goal with H : _ \/ _ |- _ => destruct H end; boolz; lia).
    split; [lia|]. intros b [<-|[<-|[<-|[]]]]; lia. }
  destruct r2 as [|b3 r3]; [discriminate|].
  match goal with |- context [if ?c then _ else _] => destruct c eqn:E3 end; [|discriminate].
  intros H; injection H as <- <-. exists [b0; b1; b2; b3]. split; auto. split; [discriminate|]. right. boolz.
  assert (240 <= b0 /\ 128 <= b1 /\ 128 <= b2 /\ 128 <= b3) by (repeat match goal with H : _ \/ _ |- _ => destruct H end; boolz; lia).
  split; [lia|]. intros b [<-|[<-|[<-|[<-|[]]]]]; lia.
Qed.

(* decode1 looks only at the sequence it consumes *)
Lemma decode1_app a b c r : decode1 a = Some (c, r) -> decode1 (a ++ b) = Some (c, r ++ b).
Proof.
  unfold decode1. destruct a as [|b0 r0]; [discriminate|]. cbn [app].
  destruct (b0 <? 128); [intros H; injection H as <- <-; reflexivity|].
  destruct r0 as [|b1 r1]; [discriminate|]. cbn [app].
  destruct ((194 <=? b0) && (b0 <=? 223) && trail b1); [intros H; injection H as <- <-; reflexivity|].
  destruct r1 as [|b2 r2]; [discriminate|]. cbn [app].
  match goal with |- context [if ?c then _ else _] => destruct c end; [intros H; injection H as <- <-; reflexivity|].
  destruct r2 as [|b3 r3]; [discriminate|]. cbn [app].
  match goal with |- context [if ?c then _ else _] => destruct c end; [intros H; injection H as <- <-; reflexivity|discriminate].
Qed.

Lemma wf_fuel_nil f : wf_utf8_fuel f [] = true.
Proof. destruct f; reflexivity. Qed.

Lemma wf_fuel_mono : forall f bs, wf_utf8_fuel f bs = true -> forall f', (length bs <= f')%nat -> wf_utf8_fuel f' bs = true.
Proof.
  induction f as [|f IH]; intros bs H f' Hf'; destruct bs as [|b r]; try apply wf_fuel_nil; try discriminate.
  cbn [wf_utf8_fuel] in H. destruct (decode1 (b :: r)) as [[c r']|] eqn:D; [|discriminate].
  destruct (decode1_inv _ _ _ D) as (pre & E & Hne & _).
  assert (Hlen : (length r' < length (b :: r))%nat).
  { rewrite E, app_length. destruct pre; [congruence|simpl; lia]. }
  destruct f' as [|f']; [simpl in Hf'; lia|]. cbn [wf_utf8_fuel]. rewrite D. apply IH; auto. lia.
Qed.

Lemma wf_utf8_of_fuel f bs : wf_utf8_fuel f bs = true -> wf_utf8 bs = true.
Proof. intros H. unfold wf_utf8. eapply wf_fuel_mono; eauto. Qed.

Lemma wf_utf8_app : forall a b, wf_utf8 a = true -> wf_utf8 b = true -> wf_utf8 (a ++ b) = true.
Proof.
  assert (G : forall f a b, wf_utf8_fuel f a = true -> wf_utf8 b = true -> wf_utf8 (a ++ b) = true).
  { induction f as [|f IH]; intros a b Ha Hb; destruct a as [|x a]; try exact Hb; try discriminate.
    cbn [wf_utf8_fuel] in Ha. destruct (decode1 (x :: a)) as [[c r]|] eqn:D; [|discriminate].
    pose proof (decode1_app _ b _ _ D) as D'. specialize (IH r b Ha Hb).
    apply (wf_utf8_of_fuel (S (length (r ++ b)))). cbn [wf_utf8_fuel app]. cbn [app] in D'. rewrite D'. exact IH. }
  intros a b Ha Hb. eapply G; eauto.
Qed.

Lemma wf_utf8_ascii d : 0 <= d < 128 -> wf_utf8 [d] = true.
Proof. intros H. unfold wf_utf8. simpl. destruct (Z.ltb_spec d 128); [reflexivity|lia]. Qed.

(* ---- simple_cleaning: what passes the per-field filter is well-formed and free of C0 controls ---- *)
Section SimpleCleaning.
  Variable script_of : Z -> option N.
  Variable is_punct is_uspace : Z -> bool.
  Variable script_common script_inherited : N.
  Variable too_common little_punct : N -> N -> bool.
  Variable script_low : (N -> N) -> N -> bool.
  Variable o : sc_options.

  Notation sc_char := (sc_char script_of is_punct is_uspace o).
  Notation sc_loop := (sc_loop script_of is_punct is_uspace o).
  Notation sc_filter := (sc_filter script_of is_punct is_uspace script_common script_inherited too_common little_punct script_low o).

  Lemma sc_char_safe st c st' : sc_char st c = Some st' -> 32 <= c \/ c = 9 \/ c = 13.
  Proof.
    unfold FiltersDefs.sc_char, sc_control_bound.
    destruct (Z.ltb_spec c 32); [|intros _; lia]. cbn [andb].
    destruct (Z.eqb_spec c 9); [intros _; lia|]. destruct (Z.eqb_spec c 13); [intros _; lia|]. discriminate.
  Qed.

  Lemma sc_loop_safe : forall fuel st bs st', sc_loop fuel st bs = Some st' ->
    wf_utf8_fuel fuel bs = true /\ safe_bytes bs = true.
  Proof.
    induction fuel as [|fuel IH]; intros st bs st' H; destruct bs as [|b r]; try (split; [apply wf_fuel_nil|reflexivity]); try discriminate.
    cbn [FiltersDefs.sc_loop] in H. cbn [wf_utf8_fuel].
    destruct (decode1 (b :: r)) as [[c r']|] eqn:D; [|discriminate].
    destruct (sc_char st c) as [st1|] eqn:C; [|discriminate].
    destruct (IH _ _ _ H) as [W S]. split; auto.
    destruct (decode1_inv _ _ _ D) as (pre & E & _ & Hpre). rewrite E. unfold safe_bytes. rewrite forallb_app.
    fold (safe_bytes r'). rewrite S, andb_true_r.
    pose proof (sc_char_safe _ _ _ C) as Hc.
    destruct Hpre as [[-> _]|[_ Hall]].
    - simpl. rewrite andb_true_r. unfold safe_byte.
      destruct Hc as [Hc|[-> | ->]]; [|reflexivity|reflexivity]. destruct (Z.leb_spec 32 c); [reflexivity|lia].
    - apply forallb_forall. intros x Hx. specialize (Hall x Hx). unfold safe_byte.
      destruct (Z.leb_spec 32 x); [reflexivity|lia].
  Qed.

  Theorem sc_filter_safe l : sc_filter l = true -> wf_utf8 l = true /\ safe_bytes l = true.
  Proof.
    unfold FiltersDefs.sc_filter. destruct (sc_loop (length l) (sc_init) l) as [st|] eqn:H; [|discriminate].
    intros _. destruct (sc_loop_safe _ _ _ _ H) as [W S]. split; auto.
  Qed.

  (* ---- exact threshold --min-chars: the count compared with it is the number of code points ---- *)
  Fixpoint codepoints_fuel (fuel : nat) (bs : list Z) : option (list Z) :=
    match bs with
    | [] => Some []
    | _ =>
      match fuel with
      | O => None
      | S f => match decode1 bs with
               | Some (c, r) => match codepoints_fuel f r with Some cs => Some (c :: cs) | None => None end
               | None => None
               end
      end
    end.
  Definition codepoints (bs : list Z) : option (list Z) := codepoints_fuel (length bs) bs.

  Lemma sc_char_total st c st' : sc_char st c = Some st' -> total st' = (total st + 1)%N.
  Proof.
    unfold FiltersDefs.sc_char.
    destruct ((c <? sc_control_bound) && negb (c =? 9) && negb (c =? 13)); [discriminate|].
    destruct (script_of c); [|discriminate].
    destruct (previous st =? c).
    - match goal with |- context [if ?b then None else _] => destruct b end; [discriminate|].
      intros H; injection H as <-. reflexivity.
    - intros H; injection H as <-. reflexivity.
  Qed.

  Lemma sc_loop_total : forall fuel st bs st', sc_loop fuel st bs = Some st' ->
    exists cps, codepoints_fuel fuel bs = Some cps /\ total st' = (total st + N.of_nat (length cps))%N.
  Proof.
    induction fuel as [|fuel IH]; intros st bs st' H; destruct bs as [|b r].
    - injection H as <-. exists []. split; [reflexivity|simpl; lia].
    - discriminate.
    - injection H as <-. exists []. split; [reflexivity|simpl; lia].
    - cbn [FiltersDefs.sc_loop] in H. cbn [codepoints_fuel].
      destruct (decode1 (b :: r)) as [[c r']|] eqn:D; [|discriminate].
      destruct (sc_char st c) as [st1|] eqn:C; [|discriminate].
      destruct (IH _ _ _ H) as (cps & Hc & Ht). rewrite Hc. exists (c :: cps). split; [reflexivity|].
      rewrite Ht, (sc_char_total _ _ _ C). simpl length. lia.
  Qed.

  (* a field that passes has at least --min-chars code points (one fewer and it is dropped) *)
  Theorem sc_filter_min_chars l : sc_filter l = true ->
    exists cps, codepoints l = Some cps /\ (sc_min_chars o <= N.of_nat (length cps))%N.
  Proof.
    unfold FiltersDefs.sc_filter. destruct (sc_loop (length l) sc_init l) as [st|] eqn:H; [|discriminate].
    destruct (sc_loop_total _ _ _ _ H) as (cps & Hc & Ht). cbn [total sc_init] in Ht.
    destruct (N.ltb_spec (total st) (sc_min_chars o)); [discriminate|]. intros _.
    exists cps. split; [exact Hc|]. lia.
  Qed.

  (* ---- exact threshold --character-run: no kept field contains `character_run` equal consecutive
          non-space code points (for character_run >= 2) ---- *)
  Definition sc_fold (st : sc_state) (cps : list Z) : option sc_state :=
    fold_left (fun acc c => match acc with Some s => sc_char s c | None => None end) cps (Some st).

  Lemma sc_fold_none cps : fold_left (fun acc c => match acc with Some s => sc_char s c | None => None end) cps None = None.
  Proof. induction cps; simpl; auto. Qed.

  Lemma sc_loop_fold : forall fuel st bs st', sc_loop fuel st bs = Some st' ->
    exists cps, codepoints_fuel fuel bs = Some cps /\ sc_fold st cps = Some st'.
  Proof.
    induction fuel as [|fuel IH]; intros st bs st' H; destruct bs as [|b r].
    - injection H as <-. exists []. split; reflexivity.
    - discriminate.
    - injection H as <-. exists []. split; reflexivity.
    - cbn [FiltersDefs.sc_loop] in H. cbn [codepoints_fuel].
      destruct (decode1 (b :: r)) as [[c r']|] eqn:D; [|discriminate].
      destruct (sc_char st c) as [st1|] eqn:C; [|discriminate].
      destruct (IH _ _ _ H) as (cps & Hc & Hf). rewrite Hc. exists (c :: cps). split; [reflexivity|].
      unfold sc_fold. simpl. rewrite C. exact Hf.
  Qed.

  (* number of trailing elements of p equal to c *)
  Fixpoint lead_count (c : Z) (l : list Z) : nat :=
    match l with x :: r => if x =? c then S (lead_count c r) else O | [] => O end.
  Definition trail_count (c : Z) (p : list Z) : nat := lead_count c (rev p).

  Lemma trail_count_snoc c p x : trail_count c (p ++ [x]) = if x =? c then S (trail_count c p) else O.
  Proof. unfold trail_count. rewrite rev_app_distr. reflexivity. Qed.

  Lemma trail_count_repeat c pre n : (n <= trail_count c (pre ++ repeat c n))%nat.
  Proof.
    induction n as [|n IH]; [lia|].
    replace (pre ++ repeat c (S n)) with ((pre ++ repeat c n) ++ [c]).
    - rewrite trail_count_snoc, Z.eqb_refl. lia.
    - rewrite <- app_assoc. f_equal. cbn [repeat]. symmetry. apply repeat_cons.
  Qed.

  Lemma sc_char_prev st c st' : sc_char st c = Some st' ->
    previous st' = c /\
    previous_run st' = (if previous st =? c then (previous_run st + 1)%N else 1%N) /\
    ((previous st =? c) = true -> is_uspace c = false -> (previous_run st + 1 < sc_character_run o)%N).
  Proof.
    unfold FiltersDefs.sc_char.
    destruct ((c <? sc_control_bound) && negb (c =? 9) && negb (c =? 13)); [discriminate|].
    destruct (script_of c); [|discriminate].
    destruct (Z.eqb_spec (previous st) c) as [E|E].
    - destruct (N.leb_spec (sc_character_run o) (previous_run st + 1)) as [Hle|Hlt]; destruct (is_uspace c) eqn:Sp; cbn [negb andb];
        try discriminate; intros H0; injection H0 as <-; cbn [previous previous_run];
        (split; [exact E|]; split; [reflexivity|]; intros _ Hs; first [congruence | lia]).
    - intros H0; injection H0 as <-. cbn [previous previous_run]. split; [reflexivity|]. split; [reflexivity|].
      intros Hc _. congruence.
  Qed.

  (* after a non-empty prefix: previous = its last code point, previous_run = length of its final run *)
  Lemma sc_fold_inv : forall p st, sc_fold sc_init p = Some st -> p <> [] ->
    previous st = last p 0 /\ previous_run st = N.of_nat (trail_count (last p 0) p).
  Proof.
    induction p as [|x p IH] using rev_ind; intros st H Hne; [congruence|].
    unfold sc_fold in H. rewrite fold_left_app in H. cbn [fold_left] in H.
    destruct (fold_left _ p (Some sc_init)) as [s|] eqn:F; [|discriminate].
    destruct (sc_char_prev _ _ _ H) as (P1 & P2 & _). rewrite last_last, trail_count_snoc, Z.eqb_refl.
    split; [exact P1|]. rewrite P2.
    destruct p as [|y p'] using rev_ind.
    - (* first code point: previous = 0 initially *)
      simpl in F. injection F as <-. cbn [previous previous_run sc_init].
      destruct (Z.eqb_spec 0 x) as [<-|Nx].
      + (* x = 0 is a control character: sc_char rejects it *)
        exfalso. unfold FiltersDefs.sc_char, sc_control_bound in H. simpl in H. discriminate.
      + unfold trail_count. simpl. reflexivity.
    - clear IHp'. destruct (IH s F) as [Q1 Q2]; [intros E; apply app_eq_nil in E; destruct E; discriminate|].
      rewrite last_last in Q1, Q2. rewrite Q1, Q2, trail_count_snoc.
      destruct (Z.eqb_spec y x) as [->|Ne].
      + rewrite Z.eqb_refl. rewrite trail_count_snoc, Z.eqb_refl. lia.
      + rewrite trail_count_snoc. destruct (Z.eqb_spec y x); [contradiction|reflexivity].
  Qed.

  Theorem sc_filter_no_long_run l cps : (2 <= sc_character_run o)%N -> sc_filter l = true -> codepoints l = Some cps ->
    forall pre c post, cps = pre ++ repeat c (N.to_nat (sc_character_run o)) ++ post -> is_uspace c = true.
  Proof.
    intros HR HF Hc pre c post E.
    unfold FiltersDefs.sc_filter in HF. destruct (sc_loop (length l) sc_init l) as [st|] eqn:H; [|discriminate].
    destruct (sc_loop_fold _ _ _ _ H) as (cps' & Hc' & Hf). unfold codepoints in Hc. rewrite Hc in Hc'. injection Hc' as <-.
    destruct (is_uspace c) eqn:Sp; [reflexivity|exfalso].
    set (R := N.to_nat (sc_character_run o)) in *.
    assert (HR' : (2 <= R)%nat) by (unfold R; lia).
    (* split the fold at the last copy of the run *)
    destruct R as [|R'] eqn:ER; [lia|].
    assert (E' : cps = ((pre ++ repeat c R') ++ [c]) ++ post).
    { rewrite E. cbn [repeat]. rewrite repeat_cons. rewrite <- !app_assoc. reflexivity. }
    rewrite E' in Hf. unfold sc_fold in Hf.
    rewrite (fold_left_app _ ((pre ++ repeat c R') ++ [c]) post) in Hf.
    rewrite (fold_left_app _ (pre ++ repeat c R') [c]) in Hf. cbn [fold_left] in Hf.
    destruct (fold_left _ (pre ++ repeat c R') (Some sc_init)) as [s|] eqn:F.
    - destruct (sc_char s c) as [s1|] eqn:C.
      + destruct (sc_fold_inv (pre ++ repeat c R') s F) as [Q1 Q2].
        { intros En. apply app_eq_nil in En. destruct En as [_ En]. destruct R'; [lia|discriminate]. }
        assert (Hl : last (pre ++ repeat c R') 0 = c).
        { destruct R' as [|R'']; [lia|]. cbn [repeat]. rewrite repeat_cons. rewrite app_assoc. apply last_last. }
        rewrite Hl in Q1, Q2.
        destruct (sc_char_prev _ _ _ C) as (_ & _ & P3).
        assert (Hlt : (previous_run s + 1 < sc_character_run o)%N) by (apply P3; auto; rewrite Q1; apply Z.eqb_refl).
        pose proof (trail_count_repeat c pre R'). lia.
      + cbn in Hf. rewrite sc_fold_none in Hf. discriminate.
    - cbn in Hf. rewrite sc_fold_none in Hf. discriminate.
  Qed.

  (* whole lines: all fields selected (the default -f 1-), delimiter an ASCII byte that is itself allowed *)
  Lemma split_first_spec d : forall bs acc field after, split_first d bs acc = (field, after) ->
    rev acc ++ bs = field ++ (match after with None => [] | Some r => d :: r end).
  Proof.
    induction bs as [|b r IH]; intros acc field after H; simpl in H.
    - injection H as <- <-. reflexivity.
    - destruct (Z.eqb_spec b d) as [->|Ne].
      + injection H as <- <-. reflexivity.
      + apply IH in H. rewrite <- H. simpl. rewrite <- app_assoc. reflexivity.
  Qed.

  Lemma take_fields_all_safe d : 0 <= d < 128 -> safe_byte d = true ->
    forall fuel rest, take_fields script_of is_punct is_uspace script_common script_inherited too_common little_punct script_low o
                                  fuel None d rest = inl true ->
    (fuel > S (length rest))%nat -> wf_utf8 rest = true /\ safe_bytes rest = true.
  Proof.
    intros Hd Sd. induction fuel as [|fuel IH]; intros rest H Hf; [lia|].
    cbn [take_fields] in H. destruct (split_first d rest []) as [field after] eqn:Sp.
    pose proof (split_first_spec d rest [] field after Sp) as E. cbn [rev app] in E.
    destruct (sc_filter field) eqn:F; cbn [negb] in H; [|discriminate].
    destruct (sc_filter_safe field F) as [Wf Sf].
    assert (Wd : wf_utf8 [d] = true) by (apply wf_utf8_ascii; auto).
    destruct after as [r|].
    - assert (Hlen : (length r < length rest)%nat).
      { rewrite E, app_length. simpl. lia. }
      destruct (IH r H ltac:(lia)) as [Wr Sr]. rewrite E. split.
      + apply wf_utf8_app; auto. change (d :: r) with ([d] ++ r). apply wf_utf8_app; auto.
      + unfold safe_bytes. rewrite forallb_app. fold (safe_bytes field). rewrite Sf. cbn [forallb andb].
        rewrite Sd. exact Sr.
    - rewrite E, app_nil_r. auto.
  Qed.

  Theorem sc_line_keep_safe d l : 0 <= d < 128 -> safe_byte d = true ->
    sc_line_keep script_of is_punct is_uspace script_common script_inherited too_common little_punct script_low o [(0%nat, None)] d l = true ->
    wf_utf8 l = true /\ safe_bytes l = true.
  Proof.
    intros Hd Sd. unfold sc_line_keep. cbn [individual_fields Nat.sub skip_fields Nat.max].
    destruct (take_fields script_of is_punct is_uspace script_common script_inherited too_common little_punct script_low o
                          (S (S (length l))) None d l) as [[|]|rest] eqn:T; try discriminate.
    - intros _. eapply take_fields_all_safe; eauto.
    - (* the unbounded range is never "exhausted" *)
      exfalso. revert T. generalize (S (S (length l))) as fuel. intros fuel; revert l.
      induction fuel as [|fuel IH]; intros l T; [discriminate|].
      cbn [take_fields] in T. destruct (split_first d l []) as [field after].
      destruct (negb (sc_filter field)); [discriminate|]. destruct after as [r|]; try discriminate. eauto.
  Qed.
  (* ---- the per-call variables really are per call: nothing a call leaves behind reaches the next one ---- *)
  Lemma sc_call_init_fresh carried : sc_call_init carried = sc_init.
  Proof. reflexivity. Qed.   (* the four regenerated *_fresh_each_call flags are all true *)

  Notation sc_filter_obj := (sc_filter_obj script_of is_punct is_uspace script_common script_inherited too_common little_punct script_low o).

  Theorem sc_filter_obj_decision carried l : fst (sc_filter_obj carried l) = sc_filter l.
  Proof.
    unfold FiltersDefs.sc_filter_obj, FiltersDefs.sc_filter. rewrite sc_call_init_fresh.
    destruct (sc_loop (length l) sc_init l); reflexivity.
  Qed.

  Lemma take_fields_obj_fst d : forall fuel n rest c,
    fst (take_fields_obj script_of is_punct is_uspace script_common script_inherited too_common little_punct script_low o fuel n d rest c) =
    take_fields script_of is_punct is_uspace script_common script_inherited too_common little_punct script_low o fuel n d rest.
  Proof.
    induction fuel as [|fuel IH]; intros n rest c; [reflexivity|]. cbn [take_fields_obj take_fields].
    destruct n as [[|k]|]; try reflexivity;
      destruct (split_first d rest []) as [field after];
      pose proof (sc_filter_obj_decision c field) as Hd; destruct (sc_filter_obj c field) as [ok c']; cbn [fst] in Hd; rewrite <- Hd;
      destruct ok; cbn [negb]; try reflexivity; destruct after; try reflexivity; apply IH.
  Qed.

  Theorem individual_fields_obj_fst d : forall ranges index rest c,
    fst (individual_fields_obj script_of is_punct is_uspace script_common script_inherited too_common little_punct script_low o ranges index d rest c) =
    individual_fields script_of is_punct is_uspace script_common script_inherited too_common little_punct script_low o ranges index d rest.
  Proof.
    induction ranges as [|[b e] more IH]; intros index rest c; [reflexivity|]. cbn [individual_fields_obj individual_fields].
    destruct (skip_fields (b - index) d rest) as [rest1|]; [|reflexivity].
    pose proof (take_fields_obj_fst d (S (S (length rest1))) (match e with Some e' => Some (e' - Nat.max index b)%nat | None => None end) rest1 c) as Ht.
    destruct (take_fields_obj _ _ _ _ _ _ _ _ _ _ _ _ rest1 c) as [[r|rest2] c']; cbn [fst] in Ht; rewrite <- Ht; [reflexivity|apply IH].
  Qed.
End SimpleCleaning.

(* ---- the tools as loops: the state carried across iterations never influences the decision ---- *)
Section LoopIsFilter.
  Variable S : Type.
  Variable pass : S -> line -> bool * S.
  Variable p : line -> bool.
  Hypothesis Hindep : forall s l, fst (pass s l) = p l.     (* whatever the object carries, the decision is p of the line *)

  Lemma loop_fold_spec : forall recs st,
    l_out (fold_left (loop_step S pass) recs st) = l_out st ++ filter p recs /\
    l_input (fold_left (loop_step S pass) recs st) = (l_input st + N.of_nat (length recs))%N /\
    l_output (fold_left (loop_step S pass) recs st) = (l_output st + N.of_nat (length (filter p recs)))%N.
  Proof.
    induction recs as [|r recs IH]; intros st.
    - cbn [fold_left filter length]. rewrite app_nil_r. repeat split; lia.
    - cbn [fold_left filter]. destruct (IH (loop_step S pass st r)) as (A & B & C). rewrite A, B, C.
      unfold loop_step. cbn [l_obj l_line l_input l_output l_out].
      pose proof (Hindep (l_obj S st) r) as Hd. destruct (pass (l_obj S st) r) as [keep obj']. cbn [fst] in Hd. rewrite <- Hd.
      destruct keep; cbn [l_out l_input l_output length]; repeat split; try lia.
      rewrite <- app_assoc. reflexivity.
  Qed.

  Theorem loop_is_filter obj0 recs :
    l_out (run_loop S pass obj0 recs) = filter p recs /\
    l_input (run_loop S pass obj0 recs) = N.of_nat (length recs) /\
    l_output (run_loop S pass obj0 recs) = N.of_nat (length (filter p recs)).
  Proof. unfold run_loop. destruct (loop_fold_spec recs (mkLoop S obj0 [] 0%N 0%N [])) as (A & B & C). rewrite A, B, C. cbn. repeat split; lia. Qed.
End LoopIsFilter.

Theorem remove_long_lines_loop_spec limit recs : remove_long_lines_loop limit recs = remove_long_lines limit recs.
Proof. unfold remove_long_lines_loop. apply (loop_is_filter unit _ (long_keep limit)). reflexivity. Qed.

Theorem remove_invalid_utf8_loop_spec recs : remove_invalid_utf8_loop recs = remove_invalid_utf8 recs.
Proof. unfold remove_invalid_utf8_loop. apply (loop_is_filter unit _ wf_utf8). reflexivity. Qed.

Theorem simple_cleaning_loop_spec script_of is_punct is_uspace sc si too_common little_punct script_low o ranges d recs :
  simple_cleaning_loop script_of is_punct is_uspace sc si too_common little_punct script_low o ranges d recs =
  simple_cleaning script_of is_punct is_uspace sc si too_common little_punct script_low o ranges d recs.
Proof.
  unfold simple_cleaning_loop, simple_cleaning.
  apply (loop_is_filter sc_state _ (sc_line_keep script_of is_punct is_uspace sc si too_common little_punct script_low o ranges d)).
  intros c l. unfold sc_line_keep. apply individual_fields_obj_fst.
Qed.
