(* Proofs for the dedupe model (property C01), on top of the seen-set refinement of C13. *)
From Coq Require Import List ZArith NArith Lia Bool Permutation.
From PP Require Import Base.Lines Gen.Src_probing Gen.Src_dedupe Probing.ProbingDefs Probing.ProbingProofs Tools.DedupeDefs.
Import ListNotations.
Local Open Scope N_scope.

(* the source has the reserved-key guard, and it guards exactly the table's empty marker
   (both are regenerated from dedupe_main.cc / probing_hash_table.hh; these break when the guard is absent) *)
Lemma guard_present : dedupe_has_reserved_guard = true.
Proof. reflexivity. Qed.
Lemma guard_is_invalid : dedupe_reserved_key = invalid.
Proof. reflexivity. Qed.

Inductive Subseq {A : Type} : list A -> list A -> Prop :=
| SubNil : Subseq [] []
| SubSkip x s l : Subseq s l -> Subseq s (x :: l)
| SubTake x s l : Subseq s l -> Subseq (x :: s) (x :: l).

Lemma Subseq_In {A} (s l : list A) x : Subseq s l -> In x s -> In x l.
Proof. induction 1 as [|y s l H IH|y s l H IH]; simpl; intros Hin; auto. destruct Hin as [->|Hin]; auto. Qed.

Lemma Subseq_refl {A} (l : list A) : Subseq l l.
Proof. induction l; [apply SubNil|apply SubTake; auto]. Qed.

Lemma mem_In k seen : mem k seen = true <-> In k seen.
Proof.
  unfold mem. rewrite existsb_exists. split.
  - intros (x & Hx & E). apply N.eqb_eq in E. now subst.
  - intros H. exists k. split; auto. apply N.eqb_refl.
Qed.

Lemma mem_ext s1 s2 : (forall k, In k s1 <-> In k s2) -> forall k, mem k s1 = mem k s2.
Proof.
  intros H k. destruct (mem k s1) eqn:E1, (mem k s2) eqn:E2; auto.
  - apply mem_In in E1. apply H in E1. apply mem_In in E1. congruence.
  - apply mem_In in E2. apply H in E2. apply mem_In in E2. congruence.
Qed.

(* ------------------------------------------------------------ the pass refines a set of seen keys *)
Definition SInv (s : dstate) (seen : list N) : Prop :=
  exists e m, AValid unit idhash (d_tab s) e /\ Rep unit (d_tab s) m /\
    forall k, In k seen <-> (k = invalid /\ d_seen_zero s = true) \/ (k <> invalid /\ In k (map ekey m)).

Lemma SInv_init : SInv dedupe_init [].
Proof.
  destruct (init_valid unit tt idhash 3) as [Hv Hr].
  exists 3, []. split; [exact Hv|]. split; [exact Hr|]. intros k. simpl. split; [tauto|].
  intros [[_ H]|[_ H]]; [discriminate|auto].
Qed.

Lemma foi_refines (a : auto unit) e m k : AValid unit idhash a e -> Rep unit a m -> k <> invalid ->
  exists pos a' e',
    auto_find_or_insert unit tt idhash a (k, tt) = Ok (match assoc unit m k with Some _ => true | None => false end, pos, a') /\
    AValid unit idhash a' e' /\
    Rep unit a' (match assoc unit m k with Some _ => m | None => (k, tt) :: m end).
Proof.
  intros Hv Hr Hk.
  assert (Hs : exists sa m', spec_step unit m (OpFindOrInsert k tt) = Some (sa, m') /\
                 m' = (match assoc unit m k with Some _ => m | None => (k, tt) :: m end) /\
                 sa = SFoundOrInserted unit (match assoc unit m k with Some _ => true | None => false end)
                                       (match assoc unit m k with Some v => Some v | None => Some tt end)).
  { cbn [spec_step]. destruct (N.eqb_spec k invalid); [contradiction|].
    destruct (assoc unit m k); eexists _, _; split; try reflexivity; auto. }
  destruct Hs as (sa & m' & Hs & -> & ->).
  destruct (step_refines unit tt idhash a e m _ _ _ Hv Hr Hs) as (ans & a' & e' & Hst & Hv' & Hr' & He).
  cbn [step] in Hst.
  destruct (auto_find_or_insert unit tt idhash a (k, tt)) as [[[f p] a1]| | |]; cbn [bind] in Hst; try discriminate.
  injection Hst as <- <-. cbn [erase] in He. injection He as -> _.
  exists p, a1, e'. auto.
Qed.

Lemma assoc_some_in_keys (m : list (N * unit)) k : (exists v, assoc unit m k = Some v) <-> In k (map ekey m).
Proof.
  destruct (assoc unit m k) eqn:E.
  - split; [intros _|intros _; eexists; reflexivity]. apply assoc_in in E. apply (in_map ekey) in E. exact E.
  - split; [intros [v H]; discriminate|]. intros H. apply (assoc_none unit idhash) in E. contradiction.
Qed.

Lemma seen_pass_spec s seen k : SInv s seen ->
  exists s', seen_pass true invalid s k = Ok (negb (mem k seen), s') /\ SInv s' (k :: seen).
Proof.
  intros (e & m & Hv & Hr & Hseen). unfold seen_pass. cbn [andb].
  destruct (N.eqb_spec k invalid) as [->|Hk].
  - eexists. split.
    + f_equal. f_equal. f_equal.
      destruct (d_seen_zero s) eqn:Z, (mem invalid seen) eqn:M; auto; exfalso.
      * assert (In invalid seen) by (apply Hseen; auto). apply mem_In in H. congruence.
      * apply mem_In in M. apply Hseen in M. destruct M as [[_ M]|[M _]]; congruence.
    + exists e, m. cbn [d_tab d_seen_zero]. split; auto. split; auto. intros k. simpl. rewrite Hseen.
      split.
      * intros [<-|[[-> _]|H]]; auto.
      * intros [[-> _]|H]; auto.
  - destruct (foi_refines (d_tab s) e m k Hv Hr Hk) as (pos & a' & e' & Hf & Hv' & Hr').
    rewrite Hf. cbn [bind]. eexists. split.
    + f_equal. f_equal. f_equal.
      destruct (assoc unit m k) eqn:E, (mem k seen) eqn:M; auto; exfalso.
      * assert (In k seen) by (apply Hseen; right; split; auto; apply assoc_some_in_keys; eauto).
        apply mem_In in H. congruence.
      * apply mem_In in M. apply Hseen in M. destruct M as [[M _]|[_ M]]; [contradiction|].
        apply assoc_some_in_keys in M. destruct M as [v M]. congruence.
    + exists e', (match assoc unit m k with Some _ => m | None => (k, tt) :: m end).
      cbn [d_tab d_seen_zero]. split; auto. split; auto. intros k'. simpl. rewrite Hseen.
      destruct (assoc unit m k) eqn:E.
      * split; [|tauto]. intros [<-|H]; auto. right. split; auto. apply assoc_some_in_keys; eauto.
      * simpl. split.
        -- intros [<-|[H|[H1 H2]]]; auto.
        -- intros [H|[H1 [H2|H2]]]; auto.
Qed.

(* a repeated key leaves the represented set unchanged *)
Lemma SInv_repeat s k seen : SInv s (k :: seen) -> In k seen -> SInv s seen.
Proof.
  intros (e & m & Hv & Hr & Hseen) Hin. exists e, m. split; auto. split; auto.
  intros k'. rewrite <- Hseen. simpl. split; auto. intros [<-|H]; auto.
Qed.

Lemma SInv_ext s seen seen' : SInv s seen -> (forall k, In k seen <-> In k seen') -> SInv s seen'.
Proof.
  intros (e & m & Hv & Hr & Hseen) H. exists e, m. split; auto. split; auto. intros k. rewrite <- H. apply Hseen.
Qed.

Lemma seen_find_spec s seen k : SInv s seen -> seen_find true invalid s k = Ok (mem k seen).
Proof.
  intros (e & m & Hv & Hr & Hseen). unfold seen_find. cbn [andb].
  destruct (N.eqb_spec k invalid) as [->|Hk].
  - f_equal. destruct (d_seen_zero s) eqn:Z, (mem invalid seen) eqn:M; auto; exfalso.
    + assert (In invalid seen) by (apply Hseen; auto). apply mem_In in H. congruence.
    + apply mem_In in M. apply Hseen in M. destruct M as [[_ M]|[M _]]; congruence.
  - destruct (auto_find_spec unit idhash (d_tab s) e k Hv Hk) as [Hpres Habs].
    destruct (mem k seen) eqn:M.
    + apply mem_In in M. apply Hseen in M. destruct M as [[M _]|[_ M]]; [contradiction|].
      assert (Hin : In k (map ekey (abs unit (d_tab s)))).
      { eapply Permutation_in; [symmetry; apply Permutation_map; exact Hr|exact M]. }
      apply in_map_iff in Hin. destruct Hin as ([k' []] & <- & Hin).
      destruct (Hpres tt Hin) as (i & Hf & _). cbn [ekey fst] in *. rewrite Hf. reflexivity.
    + rewrite Habs; [reflexivity|]. intros Hin.
      assert (In k seen).
      { apply Hseen. right. split; auto. eapply Permutation_in; [apply Permutation_map; exact Hr|exact Hin]. }
      apply mem_In in H. congruence.
Qed.

Lemma pass_spec s seen k : SInv s seen ->
  exists s', dedupe_pass s k = Ok (negb (mem k seen), s') /\ SInv s' (k :: seen).
Proof. unfold dedupe_pass. rewrite guard_present, guard_is_invalid. apply seen_pass_spec. Qed.

Section Lines.
  Variable A : Type.
  Variable key : A -> N.

  Lemma filter_loop_spec : forall ls s seen, SInv s seen ->
    filter_loop A key s ls = Ok (first_occ_from A key seen ls).
  Proof.
    induction ls as [|l r IH]; intros s seen Hs; [reflexivity|].
    cbn [filter_loop first_occ_from].
    destruct (pass_spec s seen (key l) Hs) as (s' & Hp & Hs'). rewrite Hp. cbn [bind fst snd].
    destruct (mem (key l) seen) eqn:M; cbn [negb].
    - (* repeat: dropped; the seen set is unchanged as a set *)
      assert (Hs'' : SInv s' seen).
      { destruct Hs' as (e & m & Hv & Hr & Hseen). exists e, m. split; auto. split; auto.
        intros k. rewrite <- Hseen. simpl. apply mem_In in M. split; auto. intros [<-|H]; auto. }
      rewrite (IH s' seen Hs''). reflexivity.
    - rewrite (IH s' (key l :: seen) Hs'). reflexivity.
  Qed.

  Theorem dedupe_first_occ ls : dedupe A key ls = Ok (first_occ A key ls).
  Proof. unfold dedupe, first_occ. apply filter_loop_spec. apply SInv_init. Qed.

  (* ---- properties of the first-occurrence filter ---- *)
  Lemma first_occ_from_ext : forall ls s1 s2, (forall k, In k s1 <-> In k s2) ->
    first_occ_from A key s1 ls = first_occ_from A key s2 ls.
  Proof.
    induction ls as [|l r IH]; intros s1 s2 H; [reflexivity|]. cbn [first_occ_from].
    rewrite (mem_ext s1 s2 H). destruct (mem (key l) s2); [apply IH; auto|].
    f_equal. apply IH. intros k. simpl. rewrite H. tauto.
  Qed.

  Lemma first_occ_from_subseq : forall ls seen, Subseq (first_occ_from A key seen ls) ls.
  Proof.
    induction ls as [|l r IH]; intros seen; cbn [first_occ_from]; [constructor|].
    destruct (mem (key l) seen); [apply SubSkip|apply SubTake]; auto.
  Qed.

  Lemma first_occ_from_fresh : forall ls seen x, In x (first_occ_from A key seen ls) -> ~ In (key x) seen.
  Proof.
    induction ls as [|l r IH]; intros seen x; cbn [first_occ_from]; [tauto|].
    destruct (mem (key l) seen) eqn:M; [apply IH|].
    intros [<-|H].
    - intros Hin. apply mem_In in Hin. congruence.
    - intros Hin. apply (IH _ _ H). right. exact Hin.
  Qed.

  Lemma first_occ_from_nodup : forall ls seen, NoDup (map key (first_occ_from A key seen ls)).
  Proof.
    induction ls as [|l r IH]; intros seen; cbn [first_occ_from]; [constructor|].
    destruct (mem (key l) seen); [apply IH|]. cbn [map]. constructor; [|apply IH].
    intros Hin. apply in_map_iff in Hin. destruct Hin as (x & K & Hx).
    apply first_occ_from_fresh in Hx. apply Hx. left. auto.
  Qed.

  Lemma first_occ_from_covers : forall ls seen k, In k (map key ls) ->
    In k seen \/ In k (map key (first_occ_from A key seen ls)).
  Proof.
    induction ls as [|l r IH]; intros seen k; cbn [first_occ_from map]; [simpl; tauto|].
    intros [<-|H].
    - destruct (mem (key l) seen) eqn:M; [left; now apply mem_In|right; left; reflexivity].
    - destruct (mem (key l) seen) eqn:M; [apply IH; auto|].
      destruct (IH (key l :: seen) k H) as [[<-|H']|H']; [right; left; reflexivity|left; auto|right; right; auto].
  Qed.

  Lemma first_occ_from_idem : forall ls seen,
    first_occ_from A key seen (first_occ_from A key seen ls) = first_occ_from A key seen ls.
  Proof.
    induction ls as [|l r IH]; intros seen; cbn [first_occ_from]; [reflexivity|].
    destruct (mem (key l) seen) eqn:M; [apply IH|]. cbn [first_occ_from]. rewrite M. f_equal. apply IH.
  Qed.

  Lemma first_occ_from_app : forall a b seen,
    first_occ_from A key seen (a ++ b) = first_occ_from A key seen a ++ first_occ_from A key (map key a ++ seen) b.
  Proof.
    induction a as [|l a IH]; intros b seen; [reflexivity|]. cbn [app first_occ_from map].
    destruct (mem (key l) seen) eqn:M.
    - rewrite IH. f_equal. apply first_occ_from_ext. intros k. simpl. apply mem_In in M.
      split; [tauto|]. intros [<-|H]; auto. apply in_or_app. auto.
    - cbn [app]. f_equal. rewrite IH. f_equal. apply first_occ_from_ext. intros k.
      rewrite !in_app_iff. simpl. rewrite in_app_iff. tauto.
  Qed.

  (* the line at any position is written iff its key did not occur on an earlier line *)
  Theorem first_occ_position pre l post :
    first_occ A key (pre ++ l :: post) =
      first_occ A key pre ++ (if mem (key l) (map key pre) then [] else [l]) ++
      first_occ_from A key (map key (pre ++ [l])) post.
  Proof.
    unfold first_occ. rewrite first_occ_from_app. f_equal. rewrite app_nil_r. cbn [first_occ_from].
    destruct (mem (key l) (map key pre)) eqn:M; cbn [app].
    - apply first_occ_from_ext. intros k. rewrite map_app, in_app_iff. simpl. apply mem_In in M.
      split; [tauto|]. intros [H|[<-|[]]]; auto.
    - f_equal. apply first_occ_from_ext. intros k. rewrite map_app, in_app_iff. simpl. tauto.
  Qed.

  (* ---- parallel mode ---- *)
  Variable key1 : A -> N.

  Definition pstat (in0 in1 : list A) : pstatus :=
    if (length in0 =? length in1)%nat then PDone else if (length in0 <? length in1)%nat then PUnbalanced else PAbort.

  Lemma par_loop_spec : forall in0 in1 s0 s1 seen0 seen1, SInv s0 seen0 -> SInv s1 seen1 ->
    par_loop A key key1 s0 s1 in0 in1 = Ok (pstat in0 in1, par_spec_from A key key1 seen0 seen1 (combine in0 in1)).
  Proof.
    induction in0 as [|l0 r0 IH]; intros in1 s0 s1 seen0 seen1 H0 H1.
    - destruct in1; reflexivity.
    - destruct in1 as [|l1 r1]; [reflexivity|]. cbn [par_loop combine par_spec_from].
      destruct (pass_spec s0 seen0 (key l0) H0) as (s0' & Hp0 & H0'). rewrite Hp0. cbn [bind fst snd].
      assert (Hst : pstat (l0 :: r0) (l1 :: r1) = pstat r0 r1) by reflexivity.
      destruct (mem (key l0) seen0) eqn:M0; cbn [negb].
      + assert (H0'' : SInv s0' seen0).
        { destruct H0' as (e & m & Hv & Hr & Hseen). exists e, m. split; auto. split; auto.
          intros k. rewrite <- Hseen. simpl. apply mem_In in M0. split; auto. intros [<-|H]; auto. }
        rewrite (IH r1 s0' s1 seen0 seen1 H0'' H1). rewrite Hst. reflexivity.
      + destruct (pass_spec s1 seen1 (key1 l1) H1) as (s1' & Hp1 & H1'). rewrite Hp1. cbn [bind fst snd].
        destruct (mem (key1 l1) seen1) eqn:M1; cbn [negb].
        * assert (H1'' : SInv s1' seen1).
          { destruct H1' as (e & m & Hv & Hr & Hseen). exists e, m. split; auto. split; auto.
            intros k. rewrite <- Hseen. simpl. apply mem_In in M1. split; auto. intros [<-|H]; auto. }
          rewrite (IH r1 s0' s1' (key l0 :: seen0) seen1 H0' H1''). cbn [bind fst snd]. rewrite Hst. reflexivity.
        * rewrite (IH r1 s0' s1' (key l0 :: seen0) (key1 l1 :: seen1) H0' H1'). cbn [bind fst snd]. rewrite Hst. reflexivity.
  Qed.

  Theorem dedupe_par_spec in0 in1 :
    dedupe_par A key key1 in0 in1 = Ok (pstat in0 in1, par_spec A key key1 (combine in0 in1)).
  Proof. unfold dedupe_par, par_spec. apply par_loop_spec; apply SInv_init. Qed.

  Lemma par_spec_from_subseq : forall ps s0 s1, Subseq (par_spec_from A key key1 s0 s1 ps) ps.
  Proof.
    induction ps as [|[l0 l1] r IH]; intros s0 s1; cbn [par_spec_from]; [constructor|].
    destruct (mem (key l0) s0); [apply SubSkip; auto|]. destruct (mem (key1 l1) s1); [apply SubSkip|apply SubTake]; auto.
  Qed.

  Lemma par_spec_from_fresh : forall ps s0 s1 p, In p (par_spec_from A key key1 s0 s1 ps) ->
    ~ In (key (fst p)) s0 /\ ~ In (key1 (snd p)) s1.
  Proof.
    induction ps as [|[l0 l1] r IH]; intros s0 s1 p; cbn [par_spec_from]; [tauto|].
    destruct (mem (key l0) s0) eqn:M0; [apply IH|].
    destruct (mem (key1 l1) s1) eqn:M1.
    - intros H. destruct (IH _ _ _ H) as [A0 A1]. split; auto. intros Hin. apply A0. right. auto.
    - intros [<-|H]; cbn [fst snd].
      + split; intros Hin; apply mem_In in Hin; congruence.
      + destruct (IH _ _ _ H) as [A0 A1]. split; intros Hin; [apply A0|apply A1]; right; auto.
  Qed.

  Lemma par_spec_from_nodup : forall ps s0 s1,
    NoDup (map key (map fst (par_spec_from A key key1 s0 s1 ps))) /\
    NoDup (map key1 (map snd (par_spec_from A key key1 s0 s1 ps))).
  Proof.
    induction ps as [|[l0 l1] r IH]; intros s0 s1; cbn [par_spec_from]; [split; constructor|].
    destruct (mem (key l0) s0) eqn:M0; [apply IH|].
    destruct (mem (key1 l1) s1) eqn:M1; [apply IH|].
    cbn [map fst snd]. destruct (IH (key l0 :: s0) (key1 l1 :: s1)) as [N0 N1]. split; constructor; auto.
    - intros Hin. apply in_map_iff in Hin. destruct Hin as (x & K & Hx). apply in_map_iff in Hx.
      destruct Hx as (p & <- & Hp). apply par_spec_from_fresh in Hp. apply (proj1 Hp). left. auto.
    - intros Hin. apply in_map_iff in Hin. destruct Hin as (x & K & Hx). apply in_map_iff in Hx.
      destruct Hx as (p & <- & Hp). apply par_spec_from_fresh in Hp. apply (proj2 Hp). left. auto.
  Qed.

  (* seen1 only ever holds keys of second sides that were looked at: a subset of all earlier second sides *)
  Lemma par_spec_both_new : forall pre p post s0 s1,
    (forall k, In k s0 -> False) -> (forall k, In k s1 -> False) ->
    ~ In (key (fst p)) (map key (map fst pre)) -> ~ In (key1 (snd p)) (map key1 (map snd pre)) ->
    In p (par_spec_from A key key1 s0 s1 (pre ++ p :: post)).
  Proof.
    assert (G : forall pre p post s0 s1,
      ~ In (key (fst p)) (map key (map fst pre) ++ s0) -> ~ In (key1 (snd p)) (map key1 (map snd pre) ++ s1) ->
      In p (par_spec_from A key key1 s0 s1 (pre ++ p :: post))).
    { induction pre as [|[a0 a1] pre IH]; intros [p0 p1] post s0 s1 N0 N1; cbn [app par_spec_from map fst snd] in *.
      - destruct (mem (key p0) s0) eqn:M0; [apply mem_In in M0; contradiction|].
        destruct (mem (key1 p1) s1) eqn:M1; [apply mem_In in M1; contradiction|]. left. reflexivity.
      - destruct (mem (key a0) s0) eqn:M0.
        + apply IH; cbn [fst snd]; intros Hc; apply in_app_iff in Hc; simpl in Hc; [apply N0|apply N1]; simpl; rewrite in_app_iff; tauto.
        + destruct (mem (key1 a1) s1) eqn:M1.
          * apply IH; cbn [fst snd]; intros Hc; apply in_app_iff in Hc; simpl in Hc; [apply N0|apply N1]; simpl; rewrite in_app_iff; tauto.
          * right. apply IH; cbn [fst snd]; intros Hc; apply in_app_iff in Hc; simpl in Hc; [apply N0|apply N1]; simpl; rewrite in_app_iff; tauto. }
    intros pre p post s0 s1 E0 E1 N0 N1. apply G; rewrite in_app_iff; intros [H|H]; eauto.
  Qed.
End Lines.
