(* The complete dedupe tool: option string -> key spec (Fields model, C10) -> 64-bit key of a line
   (Fields + MurmurHash64A model, C14) -> read-test-write loop over the seen-set model (C13) -> bytes.
   No key comes from the implementation here.  No proofs. *)
From Coq Require Import List ZArith NArith Bool.
From PP Require Import Base.Lines Probing.ProbingDefs Tools.DedupeDefs Fields.FieldsDefs Hash.MurmurDefs.
Import ListNotations.
Local Open Scope Z_scope.

(* the key Dedupe / FieldDedupe compute for a line under the parsed -f LIST and -d CHAR.
   [dedupe_key] returns None only on the model's fuel/length errors, which C10 proves unreachable;
   they are mapped to a distinguished tool error below, never to a key. *)
Definition real_key (ranges : list range) (d : Z) (l : list Z) : option N :=
  match dedupe_key l ranges d with Some k => Some (Z.to_N k) | None => None end.

Inductive tool_result : Type :=
| ToolOk (stdout : list Z)
| ToolBadOptions              (* ParseFields / DefragmentFields threw: the tool aborts before reading *)
| ToolKeyError                (* a Fields-model error constructor (proved unreachable in C10) *)
| ToolSetError.               (* a seen-set error constructor (proved unreachable in C13/C01) *)

Definition all_keys (ranges : list range) (d : Z) (ls : list (list Z)) : option (list (list Z * N)) :=
  fold_right (fun l acc => match real_key ranges d l, acc with
                           | Some k, Some r => Some ((l, k) :: r)
                           | _, _ => None
                           end) (Some []) ls.

(* dedupe -f FIELDS -d DELIM < input *)
Definition dedupe_tool_real (fields : list Z) (d : Z) (input : list Z) : tool_result :=
  match parse_key_spec fields with
  | None => ToolBadOptions
  | Some ranges =>
    match all_keys ranges d (tool_lines input) with
    | None => ToolKeyError
    | Some keyed =>
      match dedupe (list Z * N) snd keyed with
      | Ok out => ToolOk (unrecords newline (map fst out))
      | _ => ToolSetError
      end
    end
  end.

(* dedupe -p in0 in1 out0 out1 (default key) *)
Definition dedupe_par_tool_real (fields : list Z) (d : Z) (input0 input1 : list Z) : option (pstatus * list Z * list Z) :=
  match parse_key_spec fields with
  | None => None
  | Some ranges =>
    match all_keys ranges d (tool_lines input0), all_keys ranges d (tool_lines input1) with
    | Some k0, Some k1 =>
      match dedupe_par (list Z * N) snd snd k0 k1 with
      | Ok (st, pairs) => Some (st, unrecords newline (map (fun p => fst (fst p)) pairs), unrecords newline (map (fun p => fst (snd p)) pairs))
      | _ => None
      end
    | _, _ => None
    end
  end.
