(* The complete dedupe tool (options + Fields/Murmur keys + seen-set + writer) is the
   first-occurrence filter by the real key: instantiation of the C01 theorems with the C10/C14 models. *)
From Coq Require Import List ZArith NArith Bool Lia.
From PP Require Import Base.Lines Probing.ProbingDefs Tools.DedupeDefs Tools.DedupeProofs Tools.DedupeFull
  Fields.FieldsDefs Fields.FieldsProofs Hash.MurmurDefs.
Import ListNotations.
Local Open Scope Z_scope.

Lemma dedupe_key_total l rs d : canonical rs -> exists k, dedupe_key l rs d = Some k.
Proof.
  intros C. unfold dedupe_key.
  assert (K : exists k, key_of dedupe_field_seed l rs d = Some k) by (rewrite (key_of_spec_proof _ _ _ _ C); eauto).
  destruct rs as [|[b e] [|r rs']]; try exact K.
  - destruct b; try exact K. destruct (e =? kInfiniteEnd); [eexists; reflexivity|exact K].
  - destruct b; exact K.
Qed.

(* the (total) key function of a line under a canonical key spec *)
Definition key_fn (rs : list range) (d : Z) (l : list Z) : N :=
  match real_key rs d l with Some k => k | None => 0%N end.

Lemma all_keys_total rs d : canonical rs -> forall ls,
  all_keys rs d ls = Some (map (fun l => (l, key_fn rs d l)) ls).
Proof.
  intros C. induction ls as [|l r IH]; [reflexivity|]. cbn [all_keys fold_right map].
  change (fold_right _ (Some []) r) with (all_keys rs d r). rewrite IH.
  unfold key_fn, real_key. destruct (dedupe_key_total l rs d C) as [k ->]. reflexivity.
Qed.

Lemma first_occ_from_pairs {A} (key : A -> N) : forall ls seen,
  first_occ_from (A * N) snd seen (map (fun l => (l, key l)) ls) =
  map (fun l => (l, key l)) (first_occ_from A key seen ls).
Proof.
  induction ls as [|l r IH]; intros seen; [reflexivity|]. cbn [map first_occ_from snd].
  destruct (mem (key l) seen); [apply IH|]. cbn [map]. f_equal. apply IH.
Qed.

Theorem dedupe_tool_real_spec fields d input rs :
  nonul fields -> parse_key_spec fields = Some rs ->
  dedupe_tool_real fields d input =
    ToolOk (unrecords newline (first_occ (list Z) (key_fn rs d) (records newline true input))).
Proof.
  intros Hn Hp. destruct (parse_key_spec_proof fields rs Hn Hp) as (rs0 & _ & _ & C & _).
  unfold dedupe_tool_real. rewrite Hp. rewrite (all_keys_total rs d C).
  rewrite dedupe_first_occ. unfold first_occ. rewrite first_occ_from_pairs.
  rewrite map_map. cbn [fst]. rewrite map_id. reflexivity.
Qed.

Theorem dedupe_tool_real_bad_options fields d input :
  parse_key_spec fields = None -> dedupe_tool_real fields d input = ToolBadOptions.
Proof. intros H. unfold dedupe_tool_real. now rewrite H. Qed.
