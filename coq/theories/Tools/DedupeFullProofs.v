(* The complete dedupe tool (options + Fields/Murmur keys + seen-set + writer) is the
   first-occurrence filter by the real key: instantiation of the C01 theorems with the C10/C14 models. *)
From Coq Require Import List ZArith NArith Bool Lia.
From PP Require Import Base.Lines Probing.ProbingDefs Tools.DedupeDefs Tools.DedupeProofs Tools.DedupeFull
  Fields.FieldsDefs Fields.FieldsProofs Hash.MurmurDefs.
Import ListNotations.
Local Open Scope Z_scope.

Lemma dedupe_key_total l rs d : canonical rs -> exists k, dedupe_key l rs d = Some k.
Proof.
  intros C. unfold dedupe_key.
  assert (K : exists k, key_of dedupe_field_seed l rs d = Some k) by (rewrite (key_of_spec_proof _ _ _ _ C); eauto).
  destruct rs as [|[b e] [|r rs']]; try exact K.
  - destruct b; try exact K. destruct (e =? kInfiniteEnd); [eexists; reflexivity|exact K].
  - destruct b; exact K.
Qed.

(* the (total) key function of a line under a canonical key spec *)
Definition key_fn (rs : list range) (d : Z) (l : list Z) : N :=
  match real_key rs d l with Some k => k | None => 0%N end.

Lemma all_keys_total rs d : canonical rs -> forall ls,
  all_keys rs d ls = Some (map (fun l => (l, key_fn rs d l)) ls).
Proof.
  intros C. induction ls as [|l r IH]; [reflexivity|]. cbn [all_keys fold_right map].
  change (fold_right _ (Some []) r) with (all_keys rs d r). rewrite IH.
  unfold key_fn, real_key. destruct (dedupe_key_total l rs d C) as [k ->]. reflexivity.
Qed.

Lemma first_occ_from_pairs {A} (key : A -> N) : forall ls seen,
  first_occ_from (A * N) snd seen (map (fun l => (l, key l)) ls) =
  map (fun l => (l, key l)) (first_occ_from A key seen ls).
Proof.
  induction ls as [|l r IH]; intros seen; [reflexivity|]. cbn [map first_occ_from snd].
  destruct (mem (key l) seen); [apply IH|]. cbn [map]. f_equal. apply IH.
Qed.

Theorem dedupe_tool_real_spec fields d input rs :
  nonul fields -> parse_key_spec fields = Some rs ->
  dedupe_tool_real fields d input =
    ToolOk (unrecords newline (first_occ (list Z) (key_fn rs d) (tool_lines input))).
Proof.
  intros Hn Hp. destruct (parse_key_spec_proof fields rs Hn Hp) as (rs0 & _ & _ & C & _).
  unfold dedupe_tool_real. rewrite Hp. rewrite (all_keys_total rs d C).
  rewrite dedupe_first_occ. unfold first_occ. rewrite first_occ_from_pairs.
  rewrite map_map. cbn [fst]. rewrite map_id. reflexivity.
Qed.

Theorem dedupe_tool_real_bad_options fields d input :
  parse_key_spec fields = None -> dedupe_tool_real fields d input = ToolBadOptions.
Proof. intros H. unfold dedupe_tool_real. now rewrite H. Qed.

(* ---- from keys to line content: which earlier lines make the complete tool drop a line ---- *)

(* under a canonical key spec the tool's key is the seeded hash fold over the cut-selected pieces *)
Lemma dedupe_key_is_fold l rs d : canonical rs ->
  dedupe_key l rs d = Some (hash_fold dedupe_field_seed (spec_pieces d l rs)).
Proof.
  intros C. pose proof (key_of_spec_proof dedupe_field_seed l rs d C) as K.
  unfold dedupe_key. destruct rs as [|[b e] [|r rs']]; try exact K.
  - destruct b; try exact K. destruct (Z.eqb_spec e kInfiniteEnd) as [->|Ne]; [|exact K].
    destruct (dedupe_shortcut_consistent_proof l d) as [A B]. unfold dedupe_key in A. rewrite Z.eqb_refl in A.
    rewrite A. exact K.
  - destruct b; exact K.
Qed.

Lemma key_fn_is_fold l rs d : canonical rs ->
  key_fn rs d l = Z.to_N (hash_fold dedupe_field_seed (spec_pieces d l rs)).
Proof. intros C. unfold key_fn, real_key. now rewrite (dedupe_key_is_fold l rs d C). Qed.

(* A line is dropped iff an earlier line has the same cut-selected fields -- for lines that contain every
   selected field, and provided the 64-bit hash does not collide on the selections that occur in the input
   (the documented permitted deviation, as an explicit hypothesis). *)
Theorem dropped_iff_same_selected_fields rs d (pre : list (list Z)) (l : list Z) :
  canonical rs ->
  (forall x, In x (l :: pre) -> contains_all (Z.of_nat (length (split_fields d x))) rs) ->
  (forall x y, In x (l :: pre) -> In y (l :: pre) ->
     Z.to_N (hash_fold dedupe_field_seed (spec_pieces d x rs)) = Z.to_N (hash_fold dedupe_field_seed (spec_pieces d y rs)) ->
     spec_pieces d x rs = spec_pieces d y rs) ->
  (mem (key_fn rs d l) (map (key_fn rs d) pre) = true <->
   exists x, In x pre /\ select (split_fields d x) rs = select (split_fields d l) rs).
Proof.
  intros C Hall Hinj.
  assert (Hsel : forall x, In x (l :: pre) ->
            (spec_pieces d x rs = spec_pieces d l rs <-> select (split_fields d x) rs = select (split_fields d l) rs)).
  { intros x Hx. rewrite <- (key_iff_selected_proof d x l rs C (Hall x Hx) (Hall l (or_introl eq_refl))).
    rewrite !range_fields_spec_proof by exact C. split; [intros ->; reflexivity|intros H; now injection H]. }
  rewrite mem_In, in_map_iff. split.
  - intros (x & E & Hx). exists x. split; auto. apply Hsel; [now right|].
    apply Hinj; [now right|now left|]. rewrite <- !key_fn_is_fold by exact C. exact E.
  - intros (x & Hx & E). exists x. split; auto. rewrite !key_fn_is_fold by exact C.
    apply Hsel in E; [|now right]. now rewrite E.
Qed.
