(* Executable model of preprocess/warc.cc (C17): ReadMore, HeaderReader::Line,
   WARCReader::Read with overhang_, strtoll and size_t arithmetic, over an
   abstract byte source [rread] (util::ReadCompressed::Read: any number of bytes
   between 1 and the request, 0 only at end of file, or an exception).
   No proofs in this file. *)
From PP Require Export Base.Bytes Gen.Src_warc Compress.CompressDefs.
Local Open Scope Z_scope.

Inductive werr := WEof | WFormat | WLength | WReader | WHang.

(* ---- strtoll(p, &end, 10) on the bytes from p to the end of the buffer
   (std::string keeps a NUL behind its last byte; NUL stops every scan) *)
Definition is_space (b : Z) : bool := (b =? 32) || ((9 <=? b) && (b <=? 13)).
Definition is_digit (b : Z) : bool := (48 <=? b) && (b <=? 57).

Fixpoint skip_space (l : list Z) (n : nat) : list Z * nat :=
  match l with
  | b :: r => if is_space b then skip_space r (S n) else (l, n)
  | [] => ([], n)
  end.

Fixpoint scan_digits (l : list Z) (acc : Z) (cnt : nat) : Z * nat :=
  match l with
  | b :: r => if is_digit b then scan_digits r (acc * 10 + (b - 48)) (S cnt) else (acc, cnt)
  | [] => (acc, cnt)
  end.

Definition llong_max : Z := 9223372036854775807.
Definition llong_min : Z := -9223372036854775808.
Definition clamp_ll (v : Z) : Z := if v >? llong_max then llong_max else if v <? llong_min then llong_min else v.

(* value and number of bytes consumed (0 = no conversion: end == nptr) *)
Definition strtoll (l : list Z) : Z * nat :=
  let (l1, n1) := skip_space l 0 in
  let '(neg, l2, n2) :=
    match l1 with
    | 45 :: r => (true, r, S n1)
    | 43 :: r => (false, r, S n1)
    | _ => (false, l1, n1)
    end in
  let (v, cnt) := scan_digits l2 0 0 in
  match cnt with
  | O => (0, O)
  | _ => (clamp_ll (if neg then - v else v), (n2 + cnt)%nat)
  end.

(* strncasecmp(line, "Content-Length:", 15) == 0 in the C locale *)
Definition lower (b : Z) : Z := if (65 <=? b) && (b <=? 90) then b + 32 else b.
Fixpoint ci_prefix (p l : list Z) : bool :=
  match p, l with
  | [], _ => true
  | a :: p', b :: l' => (lower a =? lower b) && ci_prefix p' l'
  | _ :: _, [] => false
  end.

Fixpoint find_nl (l : list Z) (i : nat) : option nat :=
  match l with
  | [] => None
  | b :: r => if b =? 10 then Some i else find_nl r (S i)
  end.
(* out_.find('\n', start) *)
Definition find_from (out : list Z) (start : nat) : option nat := find_nl (skipn start out) start.

Definition strip_cr_end (l : list Z) : list Z :=
  match rev l with
  | 13 :: r => rev r
  | _ => l
  end.

Fixpoint list_eqb (a b : list Z) : bool :=
  match a, b with
  | [], [] => true
  | x :: a', y :: b' => (x =? y) && list_eqb a' b'
  | _, _ => false
  end.

Definition size_max : Z := 18446744073709551616.
(* a request above this cannot be allocated: std::length_error / std::bad_alloc *)
Definition alloc_limit : Z := 70368744177664.

(* if (total_length < out.size()), or <= : both are the same program *)
Definition overhang_test (total size : Z) : bool :=
  if warc_overhang_le then total <=? size else total <? size.

Section Warc.
  Variable rstate : Type.
  (* reader_.Read(buf, n), n > 0: None = exception from the reader *)
  Variable rread : rstate -> N -> option (list Z * rstate).

  Inductive more_res := MoreOk (out : list Z) (rs : rstate) | MoreEnd (rs : rstate) | MoreErr (e : werr).

  (* ReadMore *)
  Definition read_more (rs : rstate) (out : list Z) : more_res :=
    match rread rs warc_kRead with
    | None => MoreErr WReader
    | Some (got, rs') =>
      match got with
      | [] => match out with [] => MoreEnd rs' | _ => MoreErr WEof end
      | _ => MoreOk (out ++ got) rs'
      end
    end.

  Inductive line_res :=
  | LineOk (line : list Z) (consumed : nat) (out : list Z) (rs : rstate)
  | LineEnd (rs : rstate)
  | LineErr (e : werr).

  (* HeaderReader::Line *)
  Fixpoint hline (fuel : nat) (rs : rstate) (out : list Z) (consumed nstart : nat) : line_res :=
    match find_from out nstart with
    | Some nl =>
      LineOk (strip_cr_end (firstn (nl - consumed) (skipn consumed out))) (S nl) out rs
    | None =>
      match fuel with
      | O => LineErr WHang
      | S f =>
        match read_more rs out with
        | MoreOk out' rs' => hline f rs' out' consumed (length out)
        | MoreEnd rs' => LineEnd rs'
        | MoreErr e => LineErr e
        end
      end
    end.

  Inductive hdr_res :=
  | HdrOk (rs : rstate) (out : list Z) (consumed : nat) (length_ : Z)
  | HdrErr (e : werr).

  Definition is_content_length (line : list Z) : bool :=
    (length warc_cl_name <=? length line)%nat && ci_prefix warc_cl_name line.

  (* while (!line.empty()) { Line; Content-Length? } *)
  Fixpoint header_loop (fuel lfuel : nat) (rs : rstate) (out : list Z) (consumed : nat) (line : list Z)
           (seen : bool) (length_ : Z) : hdr_res :=
    match line with
    | [] => if seen then HdrOk rs out consumed length_ else HdrErr WFormat
    | _ =>
      match fuel with
      | O => HdrErr WHang
      | S f =>
        match hline lfuel rs out consumed consumed with
        | LineEnd _ => HdrErr WEof
        | LineErr e => HdrErr e
        | LineOk line' consumed' out' rs' =>
          if is_content_length line' then
            if seen then HdrErr WFormat
            else
              let namelen := length warc_cl_name in
              let (v, used) := strtoll (skipn (consumed + namelen) out') in
              if (warc_reject_nodigit && Nat.eqb used 0) || negb (Nat.eqb used (length line' - namelen))
              then HdrErr WFormat
              else if warc_reject_negative && (v <? 0) then HdrErr WFormat
              else header_loop f lfuel rs' out' consumed' line' true v
          else header_loop f lfuel rs' out' consumed' line' seen length_
        end
      end
    end.

  Inductive rec_res :=
  | RecOk (record : list Z) (rs : rstate) (overhang : list Z)
  | RecEnd
  | RecErr (e : werr).

  (* while (start != out.size()) { got = reader_.Read(...); throw if 0 } *)
  Fixpoint read_exact (fuel : nat) (rs : rstate) (out : list Z) (total : Z) : (list Z * rstate) + werr :=
    if Z.of_nat (length out) =? total then inl (out, rs)
    else
      match fuel with
      | O => inr WHang
      | S f =>
        match rread rs (Z.to_N (total - Z.of_nat (length out))) with
        | None => inr WReader
        | Some (got, rs') =>
          match got with
          | [] => inr WEof
          | _ => read_exact f rs' (out ++ got) total
          end
        end
      end.

  (* WARCReader::Read *)
  Definition warc_read (fuel : nat) (rs : rstate) (overhang : list Z) : rec_res :=
    match hline fuel rs overhang 0 0 with
    | LineEnd _ => RecEnd
    | LineErr e => RecErr e
    | LineOk line consumed out rs1 =>
      if negb (list_eqb line warc_version) then RecErr WFormat
      else
        match header_loop fuel fuel rs1 out consumed line false 0 with
        | HdrErr e => RecErr e
        | HdrOk rs2 out2 consumed2 len =>
          (* size_t arithmetic *)
          let total := (Z.of_nat consumed2 + (len mod size_max) + Z.of_N warc_trailer_len) mod size_max in
          if overhang_test total (Z.of_nat (length out2)) then
            let rec := firstn (Z.to_nat total) out2 in
            if list_eqb (skipn (length rec - N.to_nat warc_trailer_len) rec) warc_trailer
            then RecOk rec rs2 (skipn (Z.to_nat total) out2)
            else RecErr WFormat
          else if total >=? alloc_limit then RecErr WLength
          else
            match read_exact fuel rs2 out2 total with
            | inr e => RecErr e
            | inl (rec, rs3) =>
              if list_eqb (skipn (length rec - N.to_nat warc_trailer_len) rec) warc_trailer
              then RecOk rec rs3 []
              else RecErr WFormat
            end
        end
    end.

  Inductive all_res := AllOk (records : list (list Z)) | AllErr (e : werr) (records : list (list Z)).

  (* while (reader.Read(str)) ... *)
  Fixpoint warc_read_all (n fuel : nat) (rs : rstate) (overhang : list Z) : all_res :=
    match n with
    | O => AllErr WHang []
    | S n' =>
      match warc_read fuel rs overhang with
      | RecEnd => AllOk []
      | RecErr e => AllErr e []
      | RecOk rec rs' ov =>
        match warc_read_all n' fuel rs' ov with
        | AllOk l => AllOk (rec :: l)
        | AllErr e l => AllErr e (rec :: l)
        end
      end
    end.
End Warc.

(* ---- the reader of WARCReader is util::ReadCompressed: for plain input its
   model from C15 (magic detection of the first kMagicSize bytes, then the
   fragments as they arrive).  The codec is never called on this path. *)
Definition no_codec_new (w : unit) (k : kind) : unit * unit := (tt, tt).
Definition no_codec_call (k : kind) (st : unit) (a : Z) (inp : list Z) (cap : N) : cres unit :=
  mkcres tt 0%N [] (-100).

Definition rc_read (s : rstate unit unit) (n : N) : option (list Z * rstate unit unit) :=
  match rd unit unit no_codec_new no_codec_call 1 s n with
  | ROk _ _ out s' => Some (out, s')
  | RErr _ _ _ => None
  end.

Definition warc_file (n fuel : nat) (f : frags) : all_res :=
  match rc_open unit unit no_codec_new f tt with
  | None => AllErr WReader []
  | Some s => warc_read_all (rstate unit unit) rc_read n fuel s []
  end.
