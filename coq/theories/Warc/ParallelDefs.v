(* Model of preprocess/warc_parallel_main.cc (C17) as an executable transition
   system, one label per thread, one step = the code between two scheduling points.

     reader thread i   ReadInput:       while (reader.Read(str)) queue->ProduceSwap(str);
     main thread       Run/Join:        join the readers; then Produce one empty string per
                                        worker (the end markers); then join the workers
     worker w, input   InputToProcess:  loop { ConsumeSwap(warc); if (warc.empty()) return;
                                        write warc to the child's stdin }   (returning closes the pipe)
     worker w, child                    the identity on records (cat); exits at end of input
     worker w, output  OutputFromProcess: while (reader.Read(str)) { [GZCompress(str, compressed);]
                                        lock out_mutex; *out << bytes; unlock }

   The queue is util::PCQueue taken at the granularity of whole Produce / Consume calls
   (their atomicity and FIFO order are C16's theorems).  The ring with its swap semantics
   is kept exactly: [p_live] are the filled slots from consume_at_ to produce_at_,
   [p_free] the slots from produce_at_ round to consume_at_ with the strings they still
   hold.  ProduceSwap exchanges the caller's string with the first free slot, ConsumeSwap
   exchanges the caller's string with the first filled slot (which becomes the last free
   one), Produce copies.  Writing to stdout is one step PER BYTE, so holding the mutex is
   what keeps two records apart.  [p_emitted] is a history variable (never read by a step).

   Two things are regenerated from the source text (Gen/Src_warc.v):
     wp_join_swaps  Join hands over its markers with ProduceSwap (true) or Produce (false)
     wp_out_locked  every `*out << ...` of OutputFromProcess happens under a lock_guard
   Merged steps (both merge a thread-local action into the preceding step): ConsumeSwap
   with the test for the marker and the write to the child's stdin; Read with ProduceSwap. *)
From PP Require Export Base.Bytes Base.LTS Gen.Src_warc.
From Coq Require Export List.
Import ListNotations.

Definition rec := list Z.

Definition is_nil {A} (l : list A) : bool := match l with [] => true | _ => false end.

Fixpoint set_nth {A} (l : list A) (i : nat) (x : A) : list A :=
  match l, i with
  | [], _ => []
  | _ :: r, O => x :: r
  | y :: r, S j => y :: set_nth r j x
  end.

(* output thread: in reader.Read | has a record, about to lock | holds the mutex, bytes
   still to write | returned *)
Inductive ostate := ORead | OLock (r : rec) | OWrite (r : rec) (rest : list Z) | ODone.

Record worker := mkw {
  w_in : option rec;      (* input thread: Some warc = running, its local string; None = returned (pipe closed) *)
  w_pin : list rec;       (* child's stdin: written, not yet processed *)
  w_cdone : bool;         (* child has exited (its stdout is at end of file once drained) *)
  w_pout : list rec;      (* child's stdout: produced, not yet read by the output thread *)
  w_out : ostate }.

Record pstate := mkp {
  p_readers : list (list rec);   (* per reader thread: the records its WARCReader will still return *)
  p_live : list rec;             (* filled queue slots, oldest first *)
  p_free : list rec;             (* free queue slots in the order Produce will use them, with their stale strings *)
  p_markers : nat;               (* Join: end markers still to produce *)
  p_mstr : rec;                  (* Join: its local std::string str *)
  p_workers : list worker;
  p_mutex : bool;                (* out_mutex_ held *)
  p_stdout : list Z;             (* bytes written to stdout so far *)
  p_emitted : list rec }.        (* history: records whose writing has begun (mutex taken), in order *)

Inductive plabel := LReader (i : nat) | LMain | LIn (w : nat) | LChild (w : nat) | LOut (w : nat).

Section Par.
  (* the bytes the output thread writes for a record: the record itself, or with -z
     util::GZCompress of it *)
  Variable enc : rec -> list Z.

  Definition with_worker (s : pstate) (i : nat) (wk : worker) (mutex : bool) (out : list Z) (em : list rec) : pstate :=
    mkp (p_readers s) (p_live s) (p_free s) (p_markers s) (p_mstr s) (set_nth (p_workers s) i wk) mutex out em.

  Definition pstep (s : pstate) (l : plabel) : option pstate :=
    match l with
    | LReader i =>
      match nth_error (p_readers s) i with
      | Some (r :: todo) =>
        match p_free s with
        | _ :: fr => Some (mkp (set_nth (p_readers s) i todo) (p_live s ++ [r]) fr (p_markers s) (p_mstr s)
                               (p_workers s) (p_mutex s) (p_stdout s) (p_emitted s))
        | [] => None                  (* queue full: blocked in empty_.wait() *)
        end
      | _ => None                     (* returned *)
      end
    | LMain =>
      if forallb is_nil (p_readers s) then   (* r.join() for every reader has returned *)
        match p_markers s, p_free s with
        | S k, f :: fr => Some (mkp (p_readers s) (p_live s ++ [p_mstr s]) fr k (if wp_join_swaps then f else p_mstr s)
                                    (p_workers s) (p_mutex s) (p_stdout s) (p_emitted s))
        | _, _ => None
        end
      else None
    | LIn w =>
      match nth_error (p_workers s) w with
      | Some wk =>
        match w_in wk, p_live s with
        | Some held, r :: lv =>
          let wk' := if is_nil r then mkw None (w_pin wk) (w_cdone wk) (w_pout wk) (w_out wk)
                     else mkw (Some r) (w_pin wk ++ [r]) (w_cdone wk) (w_pout wk) (w_out wk) in
          Some (mkp (p_readers s) lv (p_free s ++ [held]) (p_markers s) (p_mstr s)
                    (set_nth (p_workers s) w wk') (p_mutex s) (p_stdout s) (p_emitted s))
        | _, _ => None                (* returned, or queue empty: blocked in used_.wait() *)
        end
      | None => None
      end
    | LChild w =>
      match nth_error (p_workers s) w with
      | Some wk =>
        if w_cdone wk then None
        else
          match w_pin wk with
          | r :: rest => Some (with_worker s w (mkw (w_in wk) rest false (w_pout wk ++ [r]) (w_out wk))
                                           (p_mutex s) (p_stdout s) (p_emitted s))
          | [] =>
            match w_in wk with
            | None => Some (with_worker s w (mkw None [] true (w_pout wk) (w_out wk)) (p_mutex s) (p_stdout s) (p_emitted s))
            | Some _ => None          (* blocked reading its stdin *)
            end
          end
      | None => None
      end
    | LOut w =>
      match nth_error (p_workers s) w with
      | Some wk =>
        match w_out wk with
        | ORead =>
          match w_pout wk with
          | r :: rest => Some (with_worker s w (mkw (w_in wk) (w_pin wk) (w_cdone wk) rest (OLock r))
                                           (p_mutex s) (p_stdout s) (p_emitted s))
          | [] => if w_cdone wk
                  then Some (with_worker s w (mkw (w_in wk) (w_pin wk) (w_cdone wk) [] ODone) (p_mutex s) (p_stdout s) (p_emitted s))
                  else None           (* blocked reading the child's stdout *)
          end
        | OLock r =>
          if wp_out_locked && p_mutex s then None      (* blocked on the mutex *)
          else Some (with_worker s w (mkw (w_in wk) (w_pin wk) (w_cdone wk) (w_pout wk) (OWrite r (enc r)))
                                 (wp_out_locked || p_mutex s) (p_stdout s) (p_emitted s ++ [r]))
        | OWrite r (b :: bs) =>
          Some (with_worker s w (mkw (w_in wk) (w_pin wk) (w_cdone wk) (w_pout wk) (OWrite r bs))
                            (p_mutex s) (p_stdout s ++ [b]) (p_emitted s))
        | OWrite r [] =>
          Some (with_worker s w (mkw (w_in wk) (w_pin wk) (w_cdone wk) (w_pout wk) ORead)
                            (if wp_out_locked then false else p_mutex s) (p_stdout s) (p_emitted s))
        | ODone => None
        end
      | None => None
      end
    end.

  (* every thread has returned (main returns from Join when all workers have) *)
  Definition in_done (wk : worker) : bool := match w_in wk with None => true | Some _ => false end.
  Definition out_done (wk : worker) : bool := match w_out wk with ODone => true | _ => false end.
  Definition wdone (wk : worker) : bool := in_done wk && w_cdone wk && out_done wk.

  Definition pterminated (s : pstate) : bool :=
    forallb is_nil (p_readers s) && Nat.eqb (p_markers s) 0 && forallb wdone (p_workers s).
End Par.

Definition worker0 : worker := mkw (Some []) [] false [] ORead.

(* [inputs]: per reader thread the records of its input; [jobs] workers; a queue of
   [cap] slots holding empty strings (the tool uses cap = jobs) *)
Definition pinit (inputs : list (list rec)) (jobs cap : nat) : pstate :=
  mkp inputs [] (repeat [] cap) jobs [] (repeat worker0 jobs) false [] [].

(* ---- the front end of the tool: every input (stdin or each -i file) is framed by
   its own WARCReader in a reader thread; an exception there is not caught
   (ReadInput has no handler): the process aborts.  [read] = the reader on one
   input; None = it threw. *)
Definition ptool_inputs (read : list Z -> option (list rec)) (streams : list (list Z)) : option (list (list rec)) :=
  fold_right (fun s acc =>
                match read s, acc with
                | Some r, Some l => Some (r :: l)
                | _, _ => None
                end) (Some []) streams.

(* the state the threads start from: None = abnormal end *)
Definition ptool (read : list Z -> option (list rec)) (streams : list (list Z)) (jobs : nat) : option pstate :=
  match ptool_inputs read streams with
  | Some inputs => Some (pinit inputs jobs jobs)
  | None => None
  end.
