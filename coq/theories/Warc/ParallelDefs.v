(* Model of preprocess/warc_parallel_main.cc (C17) as a transition system over
   whole records.  Readers (one per input) frame records with WARCReader and
   Produce them into the PCQueue; worker w's input thread Consumes the head of the
   queue and writes it to its child; the child is the identity (cat); worker w's
   output thread re-frames the child's output with WARCReader (exact by
   C17_records_exact) and appends the record to stdout while holding out_mutex_.
   Environment assumptions (C16 / std::mutex): the queue hands every produced item
   to exactly one consumer in FIFO order; the mutex makes `*out << record` atomic.
   A schedule is any list of actions; an action that is not enabled does nothing. *)
From PP Require Export Base.Bytes.
From Coq Require Export List.
Import ListNotations.

Definition rec := list Z.

Record pstate := mkp {
  p_inputs : list (list rec);     (* records each reader has not produced yet *)
  p_queue : list rec;             (* PCQueue in_ *)
  p_flight : list (list rec);     (* per worker: written to the child, not yet emitted *)
  p_out : list rec                (* stdout, in order of emission *)
}.

Inductive action := ARead (i : nat) | AFeed (w : nat) | AEmit (w : nat).

Fixpoint set_nth {A} (l : list A) (i : nat) (x : A) : list A :=
  match l, i with
  | [], _ => []
  | _ :: r, O => x :: r
  | y :: r, S j => y :: set_nth r j x
  end.

Definition pstep (s : pstate) (a : action) : pstate :=
  match a with
  | ARead i =>
    match nth i (p_inputs s) [] with
    | r :: rest => mkp (set_nth (p_inputs s) i rest) (p_queue s ++ [r]) (p_flight s) (p_out s)
    | [] => s
    end
  | AFeed w =>
    match p_queue s with
    | r :: q => if Nat.ltb w (length (p_flight s))
                then mkp (p_inputs s) q (set_nth (p_flight s) w (nth w (p_flight s) [] ++ [r])) (p_out s)
                else s
    | [] => s
    end
  | AEmit w =>
    match nth w (p_flight s) [] with
    | r :: rest => mkp (p_inputs s) (p_queue s) (set_nth (p_flight s) w rest) (p_out s ++ [r])
    | [] => s
    end
  end.

Definition prun (s : pstate) (sched : list action) : pstate := fold_left pstep sched s.

Definition pinit (inputs : list (list rec)) (jobs : nat) : pstate := mkp inputs [] (repeat [] jobs) [].

(* everything is drained: the tool can exit *)
Definition pdone (s : pstate) : Prop :=
  Forall (fun l => l = []) (p_inputs s) /\ p_queue s = [] /\ Forall (fun l => l = []) (p_flight s).

(* what stdout holds: the records' bytes one after another *)
Definition pbytes (s : pstate) : list Z := concat (p_out s).

(* ---- the front end of the tool: every input (stdin or each -i file) is framed by
   its own WARCReader in a reader thread; an exception there is not caught
   (ReadInput has no handler): the process aborts.  [read] = the reader on one
   input; None = it threw. *)
Definition ptool_inputs (read : list Z -> option (list rec)) (streams : list (list Z)) : option (list (list rec)) :=
  fold_right (fun s acc =>
                match read s, acc with
                | Some r, Some l => Some (r :: l)
                | _, _ => None
                end) (Some []) streams.

(* whole tool under a schedule: None = abnormal end *)
Definition ptool (read : list Z -> option (list rec)) (streams : list (list Z)) (jobs : nat) (sched : list action)
  : option pstate :=
  match ptool_inputs read streams with
  | Some inputs => Some (prun (pinit inputs jobs) sched)
  | None => None
  end.
