(* Proofs about the WARC reader model (C17). *)
From PP Require Import Warc.WarcDefs Compress.CompressProofs.
From Coq Require Import Lia ZifyBool.
Local Open Scope Z_scope.

Definition no10 (l : list Z) : Prop := Forall (fun b => b <> 10) l.

Lemma no10_app a b : no10 (a ++ b) <-> no10 a /\ no10 b.
Proof. unfold no10. apply Forall_app. Qed.

(* ------------------------------------------------------------ find *)
Lemma find_nl_none l i : no10 l -> find_nl l i = None.
Proof.
  revert i. induction l as [|b l IH]; intros i H; [reflexivity|].
  inversion H; subst. simpl. destruct (b =? 10) eqn:E; [lia|]. apply IH. assumption.
Qed.

Lemma find_nl_hit a b i : no10 a -> find_nl (a ++ 10 :: b) i = Some (i + length a)%nat.
Proof.
  revert i. induction a as [|x a IH]; intros i H.
  - simpl. f_equal. lia.
  - inversion H; subst. simpl. destruct (x =? 10) eqn:E; [lia|].
    rewrite IH by assumption. f_equal. lia.
Qed.

Lemma no10_skipn n l : no10 l -> no10 (skipn n l).
Proof.
  intros H. rewrite <- (firstn_skipn n l) in H. apply no10_app in H. tauto.
Qed.

Lemma no10_firstn n l : no10 l -> no10 (firstn n l).
Proof.
  intros H. rewrite <- (firstn_skipn n l) in H. apply no10_app in H. tauto.
Qed.

(* ------------------------------------------------------------ strtoll *)
Definition all_space (l : list Z) : Prop := Forall (fun b => is_space b = true) l.
Definition all_digit (l : list Z) : Prop := Forall (fun b => is_digit b = true) l.

(* value of a digit string *)
Definition dval (ds : list Z) : Z := fold_left (fun acc b => acc * 10 + (b - 48)) ds 0.

Lemma skip_space_app ws : forall t n, all_space ws ->
  (match t with [] => True | c :: _ => is_space c = false end) ->
  skip_space (ws ++ t) n = (t, (n + length ws)%nat).
Proof.
  induction ws as [|b ws IH]; intros t n Hs Ht.
  - simpl. rewrite Nat.add_0_r. destruct t as [|c t]; [reflexivity|]. simpl. rewrite Ht. reflexivity.
  - inversion Hs; subst. simpl. rewrite H1. rewrite IH by assumption. f_equal. lia.
Qed.

Lemma scan_digits_app ds : forall t acc cnt, all_digit ds ->
  (match t with [] => True | c :: _ => is_digit c = false end) ->
  scan_digits (ds ++ t) acc cnt = (fold_left (fun a b => a * 10 + (b - 48)) ds acc, (cnt + length ds)%nat).
Proof.
  induction ds as [|b ds IH]; intros t acc cnt Hd Ht.
  - simpl. rewrite Nat.add_0_r. destruct t as [|c t]; [reflexivity|]. simpl. rewrite Ht. reflexivity.
  - inversion Hd; subst. simpl. rewrite H1. rewrite IH by assumption. f_equal. lia.
Qed.

Lemma dval_nonneg_gen ds : forall acc, all_digit ds -> 0 <= acc -> 0 <= fold_left (fun a b => a * 10 + (b - 48)) ds acc.
Proof.
  induction ds as [|b ds IH]; intros acc Hd Ha; [exact Ha|].
  inversion Hd; subst. simpl. apply IH; [assumption|]. unfold is_digit in H1. lia.
Qed.

Lemma sign_match_digit (d : Z) (r : list Z) (n : nat) : is_digit d = true ->
  (match d :: r with
   | 45 :: r' => (true, r', S n)
   | 43 :: r' => (false, r', S n)
   | _ => (false, d :: r, n)
   end) = (false, d :: r, n).
Proof.
  intros H. destruct d as [|p|p]; try reflexivity.
  destruct p as [p|p|]; try reflexivity; destruct p as [p|p|]; try reflexivity;
    destruct p as [p|p|]; try reflexivity; destruct p as [p|p|]; try reflexivity;
    destruct p as [p|p|]; try reflexivity; destruct p as [p|p|]; try reflexivity;
    exfalso; vm_compute in H; discriminate H.
Qed.

(* a Content-Length value: optional white space, optional '+', at least one digit *)
Lemma strtoll_value ws (plus : bool) ds t :
  all_space ws -> all_digit ds -> ds <> [] -> dval ds <= llong_max ->
  (match t with [] => True | c :: _ => is_digit c = false end) ->
  strtoll (ws ++ (if plus then [43] else []) ++ ds ++ t) =
  (dval ds, (length ws + (if plus then 1 else 0) + length ds)%nat).
Proof.
  intros Hs Hd Hne Hmax Ht. unfold strtoll.
  pose proof (dval_nonneg_gen ds 0 Hd ltac:(lia)) as Hnn. fold (dval ds) in Hnn.
  assert (Hclamp : clamp_ll (dval ds) = dval ds).
  { unfold clamp_ll. destruct (dval ds >? llong_max) eqn:E1; [lia|].
    destruct (dval ds <? llong_min) eqn:E2; [unfold llong_min in *; lia|]. reflexivity. }
  assert (Hlen : (0 < length ds)%nat) by (destruct ds; [congruence|simpl; lia]).
  destruct plus.
  - change (ws ++ [43] ++ ds ++ t) with (ws ++ (43 :: ds ++ t)).
    rewrite (skip_space_app ws (43 :: ds ++ t) 0 Hs) by reflexivity.
    cbv iota beta. rewrite (scan_digits_app ds t 0 0 Hd Ht). fold (dval ds).
    destruct (0 + length ds)%nat eqn:EL; [lia|]. rewrite <- EL. rewrite Hclamp. f_equal. lia.
  - change (ws ++ [] ++ ds ++ t) with (ws ++ (ds ++ t)).
    destruct ds as [|d0 ds]; [congruence|].
    inversion Hd as [|? ? Hd0 Hds]; subst.
    assert (Hns : is_space d0 = false) by (unfold is_digit in Hd0; unfold is_space; lia).
    rewrite (skip_space_app ws ((d0 :: ds) ++ t) 0 Hs) by (simpl; exact Hns).
    change ((d0 :: ds) ++ t) with (d0 :: (ds ++ t)).
    pose proof (sign_match_digit d0 (ds ++ t) (0 + length ws) Hd0) as Hsm.
    cbv iota in Hsm |- *. rewrite Hsm. clear Hsm.
    change (d0 :: (ds ++ t)) with ((d0 :: ds) ++ t).
    rewrite (scan_digits_app (d0 :: ds) t 0 0 Hd Ht). fold (dval (d0 :: ds)).
    destruct (0 + length (d0 :: ds))%nat eqn:EL; [simpl in EL; lia|]. rewrite <- EL. rewrite Hclamp. f_equal. lia.
Qed.

Lemma app_split_nat {A} (a b c d : list A) :
  a ++ b = c ++ d -> (length a <= length c)%nat -> exists t, c = a ++ t /\ b = t ++ d.
Proof. intros H L. apply app_eq_app_len; [exact H|]. unfold len. lia. Qed.

Lemma strip_cr_end_nil : strip_cr_end [] = [].
Proof. reflexivity. Qed.

Lemma strip_cr_end_cr x : strip_cr_end (x ++ [13]) = x.
Proof. unfold strip_cr_end. rewrite rev_app_distr. simpl. apply rev_involutive. Qed.

Lemma strip_cr_end_other y d : d <> 13 -> strip_cr_end (y ++ [d]) = y ++ [d].
Proof.
  intros H. unfold strip_cr_end. rewrite rev_app_distr. simpl.
  destruct d as [|p|p]; try reflexivity.
  destruct p as [p|p|]; try reflexivity; destruct p as [p|p|]; try reflexivity;
    destruct p as [p|p|]; try reflexivity; destruct p as [p|p|]; try reflexivity.
  congruence.
Qed.

Lemma ci_prefix_app p : forall p' x, ci_prefix p p' = true -> ci_prefix p (p' ++ x) = true.
Proof.
  induction p as [|a p IH]; intros p' x H; [reflexivity|].
  destruct p' as [|b p']; [discriminate|]. simpl in *.
  apply andb_true_iff in H. destruct H as [H1 H2]. rewrite H1. simpl. apply IH. exact H2.
Qed.

Lemma list_eqb_refl l : list_eqb l l = true.
Proof. induction l as [|x l IH]; [reflexivity|]. simpl. rewrite Z.eqb_refl. exact IH. Qed.

Lemma all_digit_no10 ds : all_digit ds -> no10 ds.
Proof. intros H. induction H as [|b ds Hb H IH]; constructor; auto. unfold is_digit in Hb. lia. Qed.

Ltac norm_app := cbn [app]; repeat (rewrite <- app_assoc || rewrite <- app_comm_cons); cbn [app].

Section WarcProofs.
  Variable rstate : Type.
  Variable rread : rstate -> N -> option (list Z * rstate).
  (* ghost: the bytes the source has not delivered yet *)
  Variable rem : rstate -> list Z.
  (* ghost: the states the source can be in *)
  Variable rinv : rstate -> Prop.

  (* util::ReadCompressed::Read on an intact source: 1..n bytes, nothing only at end of file *)
  Definition rread_contract : Prop :=
    forall rs n, rinv rs -> (0 < n)%N ->
      exists got rs', rread rs n = Some (got, rs') /\ rem rs = got ++ rem rs' /\
                      (len got <= n)%N /\ (got = [] -> rem rs = []) /\ rinv rs'.
  Hypothesis rread_spec : rread_contract.

  Notation hline := (hline rstate rread).
  Notation read_more := (read_more rstate rread).
  Notation header_loop := (header_loop rstate rread).
  Notation read_exact := (read_exact rstate rread).
  Notation warc_read := (warc_read rstate rread).
  Notation warc_read_all := (warc_read_all rstate rread).

  Lemma kread_pos : (0 < warc_kRead)%N.
  Proof. vm_compute. reflexivity. Qed.

  Lemma read_more_some rs out : rinv rs -> rem rs <> [] ->
    exists got rs', read_more rs out = MoreOk _ (out ++ got) rs' /\ got <> [] /\ rem rs = got ++ rem rs' /\ rinv rs'.
  Proof.
    intros Hi Hne. destruct (rread_spec rs warc_kRead Hi kread_pos) as [got [rs' [HR [Hrem [_ [Hz Hi']]]]]].
    exists got, rs'. unfold WarcDefs.read_more. rewrite HR.
    destruct got as [|g got]; [exfalso; apply Hne; apply Hz; reflexivity|].
    repeat split; auto; discriminate.
  Qed.

  Lemma read_more_end rs : rinv rs -> rem rs = [] -> exists rs', read_more rs [] = MoreEnd _ rs'.
  Proof.
    intros Hi He. destruct (rread_spec rs warc_kRead Hi kread_pos) as [got [rs' [HR [Hrem _]]]].
    rewrite He in Hrem. symmetry in Hrem. apply app_eq_nil in Hrem. destruct Hrem as [Hg _]. subst got.
    exists rs'. unfold WarcDefs.read_more. rewrite HR. reflexivity.
  Qed.

  Lemma hline_ok : forall fuel rs out consumed nstart pre line post, rinv rs ->
    out ++ rem rs = pre ++ line ++ 10 :: post -> length pre = consumed -> no10 line ->
    (consumed <= nstart <= consumed + length line)%nat -> (nstart <= length out)%nat ->
    (length (rem rs) < fuel)%nat ->
    exists out' rs',
      hline fuel rs out consumed nstart = LineOk _ (strip_cr_end line) (S (consumed + length line)) out' rs' /\
      out' ++ rem rs' = pre ++ line ++ 10 :: post /\ (consumed + length line < length out')%nat /\
      (length (rem rs') <= length (rem rs))%nat /\ (exists t, out' = out ++ t) /\ rinv rs'.
  Proof.
    induction fuel as [|fuel IH]; intros rs out consumed nstart pre line post Hi HS Hpre Hno Hns Hno2 Hf; [lia|].
    destruct (Nat.lt_ge_cases (consumed + length line) (length out)) as [L|L].
    - (* the newline is already in the buffer *)
      assert (HS' : (pre ++ line) ++ (10 :: post) = out ++ rem rs) by (rewrite <- app_assoc; symmetry; exact HS).
      destruct (app_split_nat _ _ _ _ HS') as [t [Ho Hr]]; [rewrite app_length; lia|].
      destruct t as [|t0 t].
      { exfalso. rewrite app_nil_r in Ho. rewrite Ho, app_length in L. lia. }
      simpl in Hr. injection Hr as Ht0 Hpost. subst t0.
      assert (Hfind : find_from out nstart = Some (consumed + length line)%nat).
      { unfold find_from. rewrite Ho. rewrite <- app_assoc.
        rewrite skipn_app. rewrite skipn_all2 by lia. simpl app.
        replace (nstart - length pre)%nat with (nstart - consumed)%nat by lia.
        rewrite skipn_app.
        replace (nstart - consumed - length line)%nat with 0%nat by lia. simpl skipn.
        rewrite find_nl_hit by (apply no10_skipn; exact Hno).
        f_equal. rewrite skipn_length. lia. }
      exists out, rs. destruct fuel; simpl; rewrite Hfind.
      all: (split; [|split; [exact HS|split; [lia|split; [lia|split; [exists []; rewrite app_nil_r; reflexivity|exact Hi]]]]]).
      all: f_equal.
      all: rewrite Ho, <- app_assoc.
      all: rewrite skipn_app, skipn_all2 by lia.
      all: replace (consumed - length pre)%nat with 0%nat by lia; simpl skipn; simpl app.
      all: replace (consumed + length line - consumed)%nat with (length line) by lia.
      all: rewrite firstn_app, firstn_all, Nat.sub_diag; simpl; rewrite app_nil_r; reflexivity.
    - (* not yet: the searched part has no newline; read more *)
      assert (Hpo : (length pre <= length out)%nat) by lia.
      destruct (app_split_nat _ _ _ _ (eq_sym HS) Hpo) as [m [Ho Hr]].
      assert (Hm : (length m <= length line)%nat) by (rewrite Ho, app_length in L; lia).
      destruct (app_split_nat _ _ _ _ (eq_sym Hr) Hm) as [m2 [Hline Hrem]].
      assert (Hfind : find_from out nstart = None).
      { unfold find_from. apply find_nl_none. rewrite Ho. rewrite skipn_app, skipn_all2 by lia. simpl app.
        apply no10_skipn. rewrite Hline in Hno. apply no10_app in Hno. tauto. }
      assert (Hrne : rem rs <> []) by (rewrite Hrem; destruct m2; discriminate).
      destruct (read_more_some rs out Hi Hrne) as [got [rs' [HM [Hgne [Hrr Hi']]]]].
      assert (Hlo : length out = (length pre + length m)%nat) by (rewrite Ho, app_length; reflexivity).
      destruct (IH rs' (out ++ got) consumed (length out) pre line post) as [out' [rs'' [HL [HS2 [Hlen [Hrl [[t Ht] Hi'']]]]]]]; try assumption.
      + rewrite <- app_assoc, <- Hrr. exact HS.
      + lia.
      + rewrite app_length. lia.
      + rewrite Hrr, app_length in Hf. destruct got; [congruence|]. simpl in Hf. lia.
      + exists out', rs''. cbn [WarcDefs.hline]. rewrite Hfind, HM.
        split; [exact HL|]. split; [exact HS2|]. split; [exact Hlen|]. split; [|split].
        * rewrite Hrr, app_length. lia.
        * exists (got ++ t). rewrite Ht, app_assoc. reflexivity.
        * exact Hi''.
  Qed.

  (* ------------------------------------------------------------ well-formed records *)
  Definition plain_hdr (h : list Z) : Prop :=
    no10 h /\ strip_cr_end h <> [] /\ is_content_length (strip_cr_end h) = false.

  (* "Content-Length:" in any case, optional blanks, optional '+', the decimal
     body length, optional CR *)
  Definition cl_line (h : list Z) (n : nat) : Prop :=
    exists name ws (plus : bool) ds (cr : bool),
      h = name ++ ws ++ (if plus then [43] else []) ++ ds ++ (if cr then [13] else []) /\
      length name = length warc_cl_name /\ ci_prefix warc_cl_name name = true /\ no10 name /\
      all_space ws /\ no10 ws /\ all_digit ds /\ ds <> [] /\ dval ds = Z.of_nat n /\ dval ds <= llong_max.

  (* header lines after the version line: seen-flag before, the lines, the body length *)
  Inductive hdrs : bool -> list (list Z) -> nat -> Prop :=
  | hdrs_nil n : hdrs true [] n
  | hdrs_plain seen h hs n : plain_hdr h -> hdrs seen hs n -> hdrs seen (h :: hs) n
  | hdrs_cl h hs n : cl_line h n -> hdrs true hs n -> hdrs false (h :: hs) n.

  Definition lines_bytes (hs : list (list Z)) : list Z := concat (map (fun h => h ++ [10]) hs).

  Lemma cl_line_facts h n : cl_line h n ->
    no10 h /\ is_content_length (strip_cr_end h) = true /\
    forall more, exists used,
      strtoll (skipn (length warc_cl_name) h ++ 10 :: more) = (Z.of_nat n, used) /\
      used = (length (strip_cr_end h) - length warc_cl_name)%nat /\ used <> 0%nat.
  Proof.
    intros [name [ws [plus [ds [cr [Eh [Hnl [Hci [Hnn [Hws [Hwn [Hds [Hne [Hv Hmax]]]]]]]]]]]]]].
    set (sg := if plus then [43] else []) in *.
    set (crb := if cr then [13] else []) in *.
    assert (Hstrip : strip_cr_end h = name ++ ws ++ sg ++ ds).
    { rewrite Eh. destruct cr; unfold crb.
      - rewrite !app_assoc. apply strip_cr_end_cr.
      - rewrite app_nil_r.
        destruct (exists_last Hne) as [ds' [dl Eds]]. rewrite Eds.
        rewrite !app_assoc. apply strip_cr_end_other.
        rewrite Eds in Hds. apply Forall_app in Hds. destruct Hds as [_ Hdl]. inversion Hdl; subst.
        unfold is_digit in H1. lia. }
    split; [|split].
    - rewrite Eh. repeat (apply no10_app; split); auto.
      + destruct plus; unfold sg; repeat constructor. lia.
      + apply all_digit_no10. exact Hds.
      + destruct cr; unfold crb; repeat constructor. lia.
    - rewrite Hstrip. unfold is_content_length. rewrite (ci_prefix_app _ _ _ Hci).
      rewrite app_length, Hnl. rewrite andb_true_r. apply Nat.leb_le. lia.
    - intros more.
      assert (Hsk : skipn (length warc_cl_name) h = ws ++ sg ++ ds ++ crb).
      { rewrite Eh, <- Hnl. rewrite skipn_app, skipn_all, Nat.sub_diag. reflexivity. }
      rewrite Hsk. rewrite <- !app_assoc.
      pose proof (strtoll_value ws plus ds (crb ++ 10 :: more) Hws Hds Hne Hmax) as HS.
      fold sg in HS. rewrite HS.
      + eexists. split; [rewrite Hv; reflexivity|]. split.
        * rewrite Hstrip. rewrite <- Hnl. rewrite !app_length. unfold sg. destruct plus; simpl length; lia.
        * destruct ds; [congruence|]. simpl. lia.
      + destruct cr; unfold crb; simpl; reflexivity.
  Qed.

  Lemma header_ok : forall hs seen n, hdrs seen hs n ->
    forall fuel lfuel rs out consumed line len0 pre post blank, rinv rs ->
    line <> [] ->
    out ++ rem rs = pre ++ lines_bytes hs ++ blank ++ 10 :: post -> length pre = consumed ->
    (consumed <= length out)%nat -> (blank = [] \/ blank = [13]) ->
    (length hs < fuel)%nat -> (length (rem rs) < lfuel)%nat ->
    exists out' rs',
      header_loop fuel lfuel rs out consumed line seen len0 =
        HdrOk _ rs' out' (consumed + length (lines_bytes hs) + length blank + 1)
              (if seen then len0 else Z.of_nat n) /\
      out' ++ rem rs' = pre ++ lines_bytes hs ++ blank ++ 10 :: post /\
      (consumed + length (lines_bytes hs) + length blank + 1 <= length out')%nat /\
      (length (rem rs') <= length (rem rs))%nat /\ rinv rs'.
  Proof.
    intros hs seen n H. induction H as [n|seen h hs n Hp Hh IH|h hs n Hc Hh IH];
      intros fuel lfuel rs out consumed line len0 pre post blank Hi Hline HS Hpre Hco Hbl Hfu Hlf.
    - (* only the blank line is left *)
      destruct fuel as [|fuel]; [simpl in Hfu; lia|].
      unfold lines_bytes in *. simpl concat in *. simpl app in HS.
      assert (Hnb : no10 blank) by (destruct Hbl; subst; repeat constructor; lia).
      destruct (hline_ok lfuel rs out consumed consumed pre blank post Hi HS Hpre Hnb ltac:(lia) Hco Hlf)
        as [out' [rs' [HL [HS' [Hlen [Hrl [_ Hi']]]]]]].
      exists out', rs'. destruct line as [|l0 line]; [congruence|].
      cbn [WarcDefs.header_loop]. rewrite HL.
      assert (Hsb : strip_cr_end blank = []) by (destruct Hbl; subst; reflexivity).
      rewrite Hsb. change (is_content_length []) with false. cbv iota.
      destruct fuel; simpl; (split; [f_equal; simpl; lia|]); (split; [exact HS'|]); (split; [simpl; lia|]); (split; [lia|exact Hi']).
    - (* an ordinary header line *)
      destruct fuel as [|fuel]; [simpl in Hfu; lia|].
      destruct Hp as [Hno [Hsne Hncl]].
      unfold lines_bytes in HS. simpl concat in HS. rewrite <- !app_assoc in HS. simpl app in HS.
      destruct (hline_ok lfuel rs out consumed consumed pre h _ Hi HS Hpre Hno ltac:(lia) Hco Hlf)
        as [out1 [rs1 [HL [HS1 [Hlen [Hrl [_ Hi1]]]]]]].
      destruct (IH fuel lfuel rs1 out1 (S (consumed + length h)) (strip_cr_end h) len0 (pre ++ h ++ [10]) post blank)
        as [out' [rs' [HH [HS' [Hlen' [Hrl' Hi']]]]]]; auto.
      + rewrite HS1. unfold lines_bytes. rewrite <- !app_assoc. reflexivity.
      + rewrite !app_length. simpl. lia.
      + simpl in Hfu. lia.
      + lia.
      + exists out', rs'. destruct line as [|l0 line]; [congruence|].
        cbn [WarcDefs.header_loop]. rewrite HL. rewrite Hncl.
        rewrite HH. unfold lines_bytes. simpl concat. rewrite !app_length. simpl length.
        split; [f_equal; lia|]. split.
        * rewrite HS'. unfold lines_bytes. simpl concat. rewrite <- !app_assoc. reflexivity.
        * unfold lines_bytes in Hlen'. split; [lia|]. split; [lia|exact Hi'].
    - (* the Content-Length line *)
      destruct fuel as [|fuel]; [simpl in Hfu; lia|].
      destruct (cl_line_facts h n Hc) as [Hno [Hcl Hst]].
      unfold lines_bytes in HS. simpl concat in HS. rewrite <- !app_assoc in HS. simpl app in HS.
      destruct (hline_ok lfuel rs out consumed consumed pre h _ Hi HS Hpre Hno ltac:(lia) Hco Hlf)
        as [out1 [rs1 [HL [HS1 [Hlen [Hrl [_ Hi1]]]]]]].
      (* what strtoll sees: the rest of this line, its LF, and whatever is buffered behind *)
      assert (Hout1 : exists more, out1 = pre ++ h ++ 10 :: more).
      { assert (HS1' : (pre ++ h ++ [10]) ++ (lines_bytes hs ++ blank ++ 10 :: post) = out1 ++ rem rs1).
        { rewrite HS1. rewrite <- !app_assoc. reflexivity. }
        destruct (app_split_nat _ _ _ _ HS1') as [t [Ho _]]; [rewrite !app_length; simpl; lia|].
        exists t. rewrite Ho. rewrite <- !app_assoc. reflexivity. }
      destruct Hout1 as [more Hout1].
      destruct (Hst more) as [used [Hstr [Hused Hnz]]].
      assert (Hskip : skipn (consumed + length warc_cl_name) out1 = skipn (length warc_cl_name) h ++ 10 :: more).
      { assert (Hle : (length warc_cl_name <= length h)%nat).
        { destruct Hc as [name [ws [plus [ds [cr [Eh [Hnl _]]]]]]]. rewrite Eh, app_length. lia. }
        rewrite Hout1. rewrite skipn_app. rewrite skipn_all2 by lia. rewrite app_nil_l.
        replace (consumed + length warc_cl_name - length pre)%nat with (length warc_cl_name) by lia.
        rewrite skipn_app.
        replace (length warc_cl_name - length h)%nat with 0%nat by lia. reflexivity. }
      destruct (IH fuel lfuel rs1 out1 (S (consumed + length h)) (strip_cr_end h) (Z.of_nat n) (pre ++ h ++ [10]) post blank)
        as [out' [rs' [HH [HS' [Hlen' [Hrl' Hi']]]]]]; auto.
      + intros E. rewrite E in Hcl. discriminate.
      + rewrite HS1. unfold lines_bytes. rewrite <- !app_assoc. reflexivity.
      + rewrite !app_length. simpl. lia.
      + simpl in Hfu. lia.
      + lia.
      + exists out', rs'. destruct line as [|l0 line]; [congruence|].
        cbn [WarcDefs.header_loop]. rewrite HL. rewrite Hcl. cbv iota.
        rewrite Hskip, Hstr.
        assert (Hu0 : Nat.eqb used 0 = false) by (apply Nat.eqb_neq; exact Hnz).
        rewrite Hu0. rewrite andb_false_r. simpl orb.
        rewrite Hused. rewrite Nat.eqb_refl. simpl negb. cbv iota.
        assert (Hneg : (Z.of_nat n <? 0) = false) by lia.
        rewrite Hneg. rewrite andb_false_r. cbv iota.
        rewrite HH. unfold lines_bytes. simpl concat. rewrite !app_length. simpl length.
        split; [f_equal; lia|]. split.
        * rewrite HS'. unfold lines_bytes. simpl concat. rewrite <- !app_assoc. reflexivity.
        * unfold lines_bytes in Hlen'. split; [lia|]. split; [lia|exact Hi'].
  Qed.

  Lemma read_exact_ok : forall fuel rs out r rest, rinv rs ->
    out ++ rem rs = r ++ rest -> (length out <= length r)%nat -> (length r - length out < fuel)%nat ->
    exists rs', read_exact fuel rs out (Z.of_nat (length r)) = inl (r, rs') /\ rem rs' = rest /\ rinv rs'.
  Proof.
    induction fuel as [|fuel IH]; intros rs out r rest Hi HS Hle Hf; [lia|].
    destruct (Nat.eq_dec (length out) (length r)) as [E|E].
    - destruct (app_split_nat _ _ _ _ HS) as [t [Hr Hrem]]; [lia|].
      assert (t = []) by (destruct t; [reflexivity|rewrite Hr, app_length in E; simpl in E; lia]).
      subst t. rewrite app_nil_r in Hr. subst r. simpl in Hrem.
      exists rs. cbn [WarcDefs.read_exact]. rewrite Z.eqb_refl. auto.
    - cbn [WarcDefs.read_exact].
      destruct (Z.of_nat (length out) =? Z.of_nat (length r)) eqn:E1; [lia|].
      assert (Hn : (0 < Z.to_N (Z.of_nat (length r) - Z.of_nat (length out)))%N) by lia.
      destruct (rread_spec rs _ Hi Hn) as [got [rs' [HR [Hrem [Hlen [Hz Hi']]]]]].
      rewrite HR.
      destruct (app_split_nat _ _ _ _ HS Hle) as [t [Hr Hrs]].
      assert (Hrne : rem rs <> []).
      { rewrite Hrs. destruct t; [rewrite Hr, app_nil_r in E; congruence|discriminate]. }
      destruct got as [|g got]; [exfalso; apply Hrne; apply Hz; reflexivity|].
      destruct (IH rs' (out ++ g :: got) r rest Hi') as [rs'' [HX [Hr'' Hi'']]].
      + rewrite <- app_assoc. rewrite <- Hrem. exact HS.
      + rewrite app_length. unfold len in Hlen. lia.
      + rewrite app_length. simpl. lia.
      + exists rs''. rewrite HX. auto.
  Qed.

  Lemma lines_bytes_length hs : (length hs <= length (lines_bytes hs))%nat.
  Proof.
    unfold lines_bytes. induction hs as [|h hs IH]; [simpl; lia|].
    simpl. rewrite !app_length. simpl. lia.
  Qed.

  (* one WARC record: version line, header lines with exactly one Content-Length
     giving the body length, blank line, body, CR LF CR LF.  Lines end in LF;
     a CR before it belongs to the raw line. *)
  Definition wf_record (r : list Z) : Prop :=
    exists vline hs blank body,
      r = vline ++ [10] ++ lines_bytes hs ++ blank ++ [10] ++ body ++ warc_trailer /\
      no10 vline /\ strip_cr_end vline = warc_version /\ hdrs false hs (length body) /\
      (blank = [] \/ blank = [13]) /\ Z.of_nat (length r) < alloc_limit.

  Lemma warc_read_ok fuel rs ov r rest : rinv rs -> wf_record r ->
    ov ++ rem rs = r ++ rest -> (length (r ++ rest) + 1 < fuel)%nat ->
    exists rs' ov', warc_read fuel rs ov = RecOk _ r rs' ov' /\ ov' ++ rem rs' = rest /\ rinv rs'.
  Proof.
    intros Hi [vline [hs [blank [body [Er [Hnv [Hsv [Hh [Hbl Hsz]]]]]]]]] HS Hf.
    assert (Hrem_le : (length (rem rs) <= length (r ++ rest))%nat).
    { rewrite <- HS, app_length. lia. }
    unfold WarcDefs.warc_read.
    (* the version line *)
    assert (HS0 : ov ++ rem rs = [] ++ vline ++ 10 :: (lines_bytes hs ++ blank ++ [10] ++ body ++ warc_trailer) ++ rest).
    { rewrite HS, Er. norm_app. reflexivity. }
    destruct (hline_ok fuel rs ov 0 0 [] vline _ Hi HS0 eq_refl Hnv ltac:(lia) ltac:(lia) ltac:(lia))
      as [out1 [rs1 [HL [HS1 [Hlen1 [Hrl1 [_ Hi1]]]]]]].
    rewrite HL. rewrite Hsv. rewrite list_eqb_refl. cbn [negb].
    (* the header lines *)
    assert (HS1' : out1 ++ rem rs1 = (vline ++ [10]) ++ lines_bytes hs ++ blank ++ 10 :: (body ++ warc_trailer ++ rest)).
    { rewrite HS1. norm_app. reflexivity. }
    pose proof (lines_bytes_length hs) as Hlb.
    assert (Hrl : (length r = length vline + 1 + length (lines_bytes hs) + length blank + 1 + length body + 4)%nat).
    { rewrite Er. rewrite !app_length. simpl. change (length warc_trailer) with 4%nat. lia. }
    assert (Hvne : warc_version <> []) by discriminate.
    assert (Hp1 : length (vline ++ [10]) = S (0 + length vline)) by (rewrite app_length; simpl; lia).
    assert (Hc1 : (S (0 + length vline) <= length out1)%nat) by lia.
    assert (Hf1 : (length hs < fuel)%nat) by (rewrite app_length in Hf; lia).
    assert (Hf2 : (length (rem rs1) < fuel)%nat) by lia.
    destruct (header_ok hs false (length body) Hh fuel fuel rs1 out1 (S (0 + length vline)) warc_version 0
                        (vline ++ [10]) (body ++ warc_trailer ++ rest) blank Hi1 Hvne HS1' Hp1 Hc1 Hbl Hf1 Hf2)
      as [out2 [rs2 [HH [HS2 [Hlen2 [Hrl2 Hi2]]]]]].
    rewrite HH. cbv iota.
    set (consumed2 := (S (0 + length vline) + length (lines_bytes hs) + length blank + 1)%nat) in *.
    assert (Htot : (Z.of_nat consumed2 + Z.of_nat (length body) mod size_max + Z.of_N warc_trailer_len) mod size_max
                   = Z.of_nat (length r)).
    { change (Z.of_N warc_trailer_len) with 4. unfold alloc_limit in Hsz. unfold size_max.
      rewrite (Z.mod_small (Z.of_nat (length body))) by lia.
      rewrite Z.mod_small by (unfold consumed2; lia). unfold consumed2. lia. }
    rewrite Htot.
    assert (HS2' : out2 ++ rem rs2 = r ++ rest).
    { rewrite HS2, Er. norm_app. reflexivity. }
    assert (Htrail : list_eqb (skipn (length r - N.to_nat warc_trailer_len) r) warc_trailer = true).
    { change (N.to_nat warc_trailer_len) with 4%nat.
      assert (Er2 : r = (vline ++ [10] ++ lines_bytes hs ++ blank ++ [10] ++ body) ++ warc_trailer).
      { rewrite Er. norm_app. reflexivity. }
      set (X := vline ++ [10] ++ lines_bytes hs ++ blank ++ [10] ++ body) in *.
      assert (HX : length X = (length r - 4)%nat).
      { rewrite Er2, app_length. change (length warc_trailer) with 4%nat. lia. }
      rewrite Er2 at 2. rewrite skipn_app. rewrite skipn_all2 by lia. rewrite app_nil_l.
      replace (length r - 4 - length X)%nat with 0%nat by lia.
      apply list_eqb_refl. }
    destruct (overhang_test (Z.of_nat (length r)) (Z.of_nat (length out2))) eqn:Elt.
    - (* the whole record (and possibly more) is already in the buffer *)
      assert (Hle : (length r <= length out2)%nat) by (unfold overhang_test in Elt; destruct warc_overhang_le; lia).
      destruct (app_split_nat _ _ _ _ (eq_sym HS2') Hle) as [t [Ho Hr]].
      rewrite Nat2Z.id.
      assert (Hfr : firstn (length r) out2 = r).
      { rewrite Ho. rewrite firstn_app, firstn_all, Nat.sub_diag. simpl. apply app_nil_r. }
      rewrite Hfr. rewrite Htrail.
      exists rs2, (skipn (length r) out2). split; [reflexivity|]. split; [|exact Hi2].
      rewrite Ho. rewrite skipn_app, skipn_all, Nat.sub_diag. simpl. symmetry. exact Hr.
    - assert (Hal : (Z.of_nat (length r) >=? alloc_limit) = false) by lia.
      rewrite Hal.
      assert (Hge : (length out2 <= length r)%nat) by (unfold overhang_test in Elt; destruct warc_overhang_le; lia).
      destruct (read_exact_ok fuel rs2 out2 r rest Hi2 HS2') as [rs3 [HX [Hr3 Hi3]]]; [lia| |].
      { rewrite app_length in Hf. lia. }
      rewrite HX. rewrite Htrail.
      exists rs3, []. split; [reflexivity|]. split; [exact Hr3|exact Hi3].
  Qed.

  Lemma warc_read_all_ok : forall recs n fuel rs ov, rinv rs -> Forall wf_record recs ->
    ov ++ rem rs = concat recs -> (length recs < n)%nat -> (length (concat recs) + 1 < fuel)%nat ->
    warc_read_all n fuel rs ov = AllOk recs.
  Proof.
    induction recs as [|r recs IH]; intros n fuel rs ov Hi Hwf HS Hn Hf.
    - simpl in HS. apply app_eq_nil in HS. destruct HS as [Ho Hr]. subst ov.
      destruct n as [|n]; [lia|]. destruct fuel as [|fuel]; [lia|].
      destruct (read_more_end rs Hi Hr) as [rs' HM].
      cbn [WarcDefs.warc_read_all]. unfold WarcDefs.warc_read. cbn [WarcDefs.hline].
      change (find_from [] 0) with (@None nat). rewrite HM. reflexivity.
    - inversion Hwf as [|? ? Hr Hrs]; subst.
      destruct n as [|n]; [lia|].
      simpl concat in HS, Hf.
      destruct (warc_read_ok fuel rs ov r (concat recs) Hi Hr HS Hf) as [rs' [ov' [HR [HS' Hi']]]].
      cbn [WarcDefs.warc_read_all]. rewrite HR.
      rewrite (IH n fuel rs' ov' Hi' Hrs HS'); [reflexivity| |].
      + simpl in Hn. lia.
      + rewrite app_length in Hf. lia.
  Qed.

  (* C17 records_exact: whatever pieces the source delivers, the reader returns
     exactly the records, byte for byte, and then a clean end of file *)
  Theorem records_exact_proof : forall recs rs n fuel,
    rinv rs -> Forall wf_record recs -> rem rs = concat recs ->
    (length recs < n)%nat -> (length (concat recs) + 1 < fuel)%nat ->
    warc_read_all n fuel rs [] = AllOk recs.
  Proof.
    intros recs rs n fuel Hi Hwf Hrem Hn Hf.
    apply warc_read_all_ok; auto.
  Qed.

  (* ------------------------------------------------------------ no silent loss / resynchronisation *)
  Lemma hline_conserve : forall fuel rs out consumed nstart, rinv rs ->
    match hline fuel rs out consumed nstart with
    | LineOk _ line c out' rs' => out' ++ rem rs' = out ++ rem rs /\ rinv rs'
    | LineEnd _ rs' => out = [] /\ rem rs = []
    | LineErr _ _ => True
    end.
  Proof.
    induction fuel as [|fuel IH]; intros rs out consumed nstart Hi; cbn [WarcDefs.hline].
    - destruct (find_from out nstart); auto.
    - destruct (find_from out nstart); [auto|].
      destruct (rread_spec rs warc_kRead Hi kread_pos) as [got [rs' [HR [Hrem [_ [Hz Hi']]]]]].
      unfold WarcDefs.read_more. rewrite HR.
      destruct got as [|g got].
      + destruct out; [|exact I]. split; [reflexivity|]. apply Hz. reflexivity.
      + specialize (IH rs' (out ++ g :: got) consumed (length out) Hi').
        destruct (hline fuel rs' (out ++ g :: got) consumed (length out)) as [line c out' rs''|rs''|e]; auto.
        * destruct IH as [H1 H2]. split; [|exact H2]. rewrite H1, <- app_assoc, <- Hrem. reflexivity.
        * destruct IH as [H1 _]. destruct out; discriminate.
  Qed.

  Lemma header_conserve : forall fuel lfuel rs out consumed line seen len0, rinv rs ->
    match header_loop fuel lfuel rs out consumed line seen len0 with
    | HdrOk _ rs' out' c len => out' ++ rem rs' = out ++ rem rs /\ rinv rs'
    | HdrErr _ _ => True
    end.
  Proof.
    induction fuel as [|fuel IH]; intros lfuel rs out consumed line seen len0 Hi; destruct line as [|l0 line]; cbn [WarcDefs.header_loop].
    - destruct seen; auto.
    - exact I.
    - destruct seen; auto.
    - pose proof (hline_conserve lfuel rs out consumed consumed Hi) as HL.
      destruct (hline lfuel rs out consumed consumed) as [line' c out' rs'|rs'|e]; auto.
      destruct HL as [HL1 HL2].
      destruct (is_content_length line').
      + destruct seen; [exact I|].
        destruct (strtoll (skipn (consumed + length warc_cl_name) out')) as [v used].
        destruct ((warc_reject_nodigit && Nat.eqb used 0) || negb (Nat.eqb used (length line' - length warc_cl_name))); [exact I|].
        destruct (warc_reject_negative && (v <? 0)); [exact I|].
        specialize (IH lfuel rs' out' c line' true v HL2).
        destruct (header_loop fuel lfuel rs' out' c line' true v) as [rs2 out2 c2 len2|e2]; auto.
        destruct IH as [H1 H2]. split; [rewrite H1; exact HL1|exact H2].
      + specialize (IH lfuel rs' out' c line' seen len0 HL2).
        destruct (header_loop fuel lfuel rs' out' c line' seen len0) as [rs2 out2 c2 len2|e2]; auto.
        destruct IH as [H1 H2]. split; [rewrite H1; exact HL1|exact H2].
  Qed.

  Lemma read_exact_conserve : forall fuel rs out total, rinv rs -> Z.of_nat (length out) <= total ->
    match read_exact fuel rs out total with
    | inl (rec, rs') => rec ++ rem rs' = out ++ rem rs /\ rinv rs'
    | inr _ => True
    end.
  Proof.
    induction fuel as [|fuel IH]; intros rs out total Hi Hle; cbn [WarcDefs.read_exact].
    - destruct (Z.of_nat (length out) =? total); auto.
    - destruct (Z.of_nat (length out) =? total) eqn:E; [auto|].
      assert (Hn : (0 < Z.to_N (total - Z.of_nat (length out)))%N) by lia.
      destruct (rread_spec rs _ Hi Hn) as [got [rs' [HR [Hrem [Hlen [_ Hi']]]]]].
      rewrite HR. destruct got as [|g got]; [exact I|].
      assert (Hle' : Z.of_nat (length (out ++ g :: got)) <= total).
      { rewrite app_length. unfold len in Hlen. lia. }
      specialize (IH rs' (out ++ g :: got) total Hi' Hle').
      destruct (read_exact fuel rs' (out ++ g :: got) total) as [[rec rs3]|e]; auto.
      destruct IH as [H1 H2]. split; [|exact H2]. rewrite H1, <- app_assoc, <- Hrem. reflexivity.
  Qed.

  (* the body length taken from the header is never negative (the fix of the
     accepted "Content-Length: -4"): it is the value of the regenerated flag *)
  Lemma header_len_nonneg : forall fuel lfuel rs out consumed line seen len0, 0 <= len0 ->
    match header_loop fuel lfuel rs out consumed line seen len0 with
    | HdrOk _ _ _ _ len => 0 <= len
    | HdrErr _ _ => True
    end.
  Proof.
    induction fuel as [|fuel IH]; intros lfuel rs out consumed line seen len0 Hl; destruct line as [|l0 line]; cbn [WarcDefs.header_loop].
    - destruct seen; auto.
    - exact I.
    - destruct seen; auto.
    - destruct (hline lfuel rs out consumed consumed) as [line' c out' rs'|rs'|e]; auto.
      destruct (is_content_length line').
      + destruct seen; [exact I|].
        destruct (strtoll (skipn (consumed + length warc_cl_name) out')) as [v used].
        destruct ((warc_reject_nodigit && Nat.eqb used 0) || negb (Nat.eqb used (length line' - length warc_cl_name))); [exact I|].
        change warc_reject_negative with true. cbn [andb].
        destruct (v <? 0) eqn:Ev; [exact I|]. apply IH. lia.
      + apply IH. exact Hl.
  Qed.

  Definition ends_with_trailer (r : list Z) : Prop := exists x, r = x ++ warc_trailer.

  Lemma list_eqb_eq a : forall b, list_eqb a b = true -> a = b.
  Proof.
    induction a as [|x a IH]; intros [|y b] H; simpl in H; try discriminate; [reflexivity|].
    apply andb_true_iff in H. destruct H as [H1 H2]. f_equal; [lia|apply IH; exact H2].
  Qed.

  Lemma trailer_check r : list_eqb (skipn (length r - N.to_nat warc_trailer_len) r) warc_trailer = true ->
    ends_with_trailer r.
  Proof.
    intros H. apply list_eqb_eq in H. exists (firstn (length r - N.to_nat warc_trailer_len) r).
    rewrite <- H. symmetry. apply firstn_skipn.
  Qed.

  (* one Read: a returned record and the new overhang are exactly the bytes that
     were taken from the old overhang and the source, in order; the record ends
     in CR LF CR LF; end of file is reported only when nothing at all is left *)
  Lemma warc_read_conserve fuel rs ov : rinv rs ->
    match warc_read fuel rs ov with
    | RecOk _ rec rs' ov' => rec ++ ov' ++ rem rs' = ov ++ rem rs /\ rinv rs' /\ ends_with_trailer rec
    | RecEnd _ => ov = [] /\ rem rs = []
    | RecErr _ _ => True
    end.
  Proof.
    intros Hi. unfold WarcDefs.warc_read.
    pose proof (hline_conserve fuel rs ov 0 0 Hi) as HL.
    destruct (hline fuel rs ov 0 0) as [line c out1 rs1|rs1|e]; auto.
    destruct HL as [HL1 HL2].
    destruct (negb (list_eqb line warc_version)); [exact I|].
    pose proof (header_conserve fuel fuel rs1 out1 c line false 0 HL2) as HH.
    destruct (header_loop fuel fuel rs1 out1 c line false 0) as [rs2 out2 c2 len|e]; auto.
    destruct HH as [HH1 HH2].
    set (total := (Z.of_nat c2 + len mod size_max + Z.of_N warc_trailer_len) mod size_max).
    destruct (overhang_test total (Z.of_nat (length out2))) eqn:Elt.
    - destruct (list_eqb (skipn (length (firstn (Z.to_nat total) out2) - N.to_nat warc_trailer_len) (firstn (Z.to_nat total) out2)) warc_trailer) eqn:Et; [|exact I].
      split; [|split; [exact HH2|apply trailer_check; exact Et]].
      rewrite app_assoc, firstn_skipn. rewrite HH1. exact HL1.
    - destruct (total >=? alloc_limit); [exact I|].
      assert (Hge : Z.of_nat (length out2) <= total) by (unfold overhang_test in Elt; destruct warc_overhang_le; lia).
      pose proof (read_exact_conserve fuel rs2 out2 total HH2 Hge) as HX.
      destruct (read_exact fuel rs2 out2 total) as [[rec rs3]|e]; auto.
      destruct HX as [HX1 HX2].
      destruct (list_eqb (skipn (length rec - N.to_nat warc_trailer_len) rec) warc_trailer) eqn:Et; [|exact I].
      split; [|split; [exact HX2|apply trailer_check; exact Et]].
      simpl. rewrite HX1, HH1. exact HL1.
  Qed.

  (* C17: a successful read of the whole stream accounts for every byte: the
     returned records, concatenated, ARE the stream (no byte dropped, none
     invented, no resynchronisation), and each ends in CR LF CR LF.  Hence a
     stream that is not a concatenation of such records -- truncated anywhere but
     at a record boundary, garbage between records -- cannot be read successfully *)
  Theorem success_is_exact_proof : forall n fuel rs ov recs, rinv rs ->
    warc_read_all n fuel rs ov = AllOk recs ->
    concat recs = ov ++ rem rs /\ Forall ends_with_trailer recs.
  Proof.
    induction n as [|n IH]; intros fuel rs ov recs Hi H; [discriminate|].
    cbn [WarcDefs.warc_read_all] in H.
    pose proof (warc_read_conserve fuel rs ov Hi) as HR.
    destruct (warc_read fuel rs ov) as [rec rs' ov'| |e]; try discriminate.
    - destruct HR as [H1 [H2 H3]].
      destruct (warc_read_all n fuel rs' ov') as [l|e l] eqn:EA; try discriminate.
      inversion H; subst recs.
      destruct (IH fuel rs' ov' l H2 EA) as [IH1 IH2].
      split; [|constructor; assumption].
      simpl. rewrite IH1. exact H1.
    - inversion H; subst recs. destruct HR as [H1 H2]. subst ov. rewrite H2. split; [reflexivity|constructor].
  Qed.

  (* ------------------------------------------------------------ broken header blocks, class by class *)
  (* one iteration of the header loop on a line that is not a Content-Length line *)
  Lemma header_step_plain fuel lfuel rs out consumed line seen len0 pre h tail :
    rinv rs -> line <> [] -> plain_hdr h ->
    out ++ rem rs = pre ++ h ++ 10 :: tail -> length pre = consumed -> (consumed <= length out)%nat ->
    (length (rem rs) < lfuel)%nat ->
    exists out1 rs1,
      header_loop (S fuel) lfuel rs out consumed line seen len0 =
      header_loop fuel lfuel rs1 out1 (S (consumed + length h)) (strip_cr_end h) seen len0 /\
      out1 ++ rem rs1 = (pre ++ h ++ [10]) ++ tail /\ (S (consumed + length h) <= length out1)%nat /\
      (length (rem rs1) <= length (rem rs))%nat /\ rinv rs1.
  Proof.
    intros Hi Hline [Hno [Hsne Hncl]] HS Hpre Hco Hlf.
    destruct (hline_ok lfuel rs out consumed consumed pre h tail Hi HS Hpre Hno ltac:(lia) Hco Hlf)
      as [out1 [rs1 [HL [HS1 [Hlen [Hrl [_ Hi1]]]]]]].
    exists out1, rs1. destruct line as [|l0 line]; [congruence|].
    cbn [WarcDefs.header_loop]. rewrite HL. rewrite Hncl.
    split; [reflexivity|]. split; [rewrite HS1; norm_app; reflexivity|]. split; [lia|]. split; assumption.
  Qed.

  (* ... on the (first) Content-Length line *)
  Lemma header_step_cl fuel lfuel rs out consumed line len0 pre h n tail :
    rinv rs -> line <> [] -> cl_line h n ->
    out ++ rem rs = pre ++ h ++ 10 :: tail -> length pre = consumed -> (consumed <= length out)%nat ->
    (length (rem rs) < lfuel)%nat ->
    exists out1 rs1,
      header_loop (S fuel) lfuel rs out consumed line false len0 =
      header_loop fuel lfuel rs1 out1 (S (consumed + length h)) (strip_cr_end h) true (Z.of_nat n) /\
      out1 ++ rem rs1 = (pre ++ h ++ [10]) ++ tail /\ (S (consumed + length h) <= length out1)%nat /\
      (length (rem rs1) <= length (rem rs))%nat /\ rinv rs1 /\ strip_cr_end h <> [].
  Proof.
    intros Hi Hline Hc HS Hpre Hco Hlf.
    destruct (cl_line_facts h n Hc) as [Hno [Hcl Hst]].
    destruct (hline_ok lfuel rs out consumed consumed pre h tail Hi HS Hpre Hno ltac:(lia) Hco Hlf)
      as [out1 [rs1 [HL [HS1 [Hlen [Hrl [_ Hi1]]]]]]].
    assert (Hout1 : exists more, out1 = pre ++ h ++ 10 :: more).
    { assert (HS1' : (pre ++ h ++ [10]) ++ tail = out1 ++ rem rs1) by (rewrite HS1; norm_app; reflexivity).
      destruct (app_split_nat _ _ _ _ HS1') as [t [Ho _]]; [rewrite !app_length; simpl; lia|].
      exists t. rewrite Ho. norm_app. reflexivity. }
    destruct Hout1 as [more Hout1].
    destruct (Hst more) as [used [Hstr [Hused Hnz]]].
    assert (Hskip : skipn (consumed + length warc_cl_name) out1 = skipn (length warc_cl_name) h ++ 10 :: more).
    { assert (Hle : (length warc_cl_name <= length h)%nat).
      { destruct Hc as [name [ws [plus [ds [cr [Eh [Hnl _]]]]]]]. rewrite Eh, app_length. lia. }
      rewrite Hout1. rewrite skipn_app. rewrite skipn_all2 by lia. rewrite app_nil_l.
      replace (consumed + length warc_cl_name - length pre)%nat with (length warc_cl_name) by lia.
      rewrite skipn_app.
      replace (length warc_cl_name - length h)%nat with 0%nat by lia. reflexivity. }
    exists out1, rs1. destruct line as [|l0 line]; [congruence|].
    cbn [WarcDefs.header_loop]. rewrite HL. rewrite Hcl. cbv iota.
    rewrite Hskip, Hstr.
    assert (Hu0 : Nat.eqb used 0 = false) by (apply Nat.eqb_neq; exact Hnz).
    rewrite Hu0. rewrite andb_false_r. simpl orb.
    rewrite Hused. rewrite Nat.eqb_refl. simpl negb. cbv iota.
    assert (Hneg : (Z.of_nat n <? 0) = false) by lia.
    rewrite Hneg. rewrite andb_false_r. cbv iota.
    split; [reflexivity|]. split; [rewrite HS1; norm_app; reflexivity|]. split; [lia|]. split; [assumption|].
    split; [assumption|]. intros E. rewrite E in Hcl. discriminate.
  Qed.

  (* what is left of a header block that cannot be accepted: no Content-Length
     before the blank line, or a second Content-Length line (whatever its value) *)
  Inductive hdrs_bad : bool -> list Z -> nat -> Prop :=
  | bad_missing blank post : (blank = [] \/ blank = [13]) -> hdrs_bad false (blank ++ 10 :: post) 0
  | bad_dup h post : no10 h -> is_content_length (strip_cr_end h) = true -> hdrs_bad true (h ++ 10 :: post) 0
  | bad_plain seen h tail k : plain_hdr h -> hdrs_bad seen tail k -> hdrs_bad seen (h ++ 10 :: tail) (S k)
  | bad_cl h n tail k : cl_line h n -> hdrs_bad true tail k -> hdrs_bad false (h ++ 10 :: tail) (S k).

  Lemma header_bad : forall seen tail k, hdrs_bad seen tail k ->
    forall fuel lfuel rs out consumed line len0 pre, rinv rs -> line <> [] ->
    out ++ rem rs = pre ++ tail -> length pre = consumed -> (consumed <= length out)%nat ->
    (k < fuel)%nat -> (length (rem rs) < lfuel)%nat ->
    header_loop fuel lfuel rs out consumed line seen len0 = HdrErr _ WFormat.
  Proof.
    intros seen tail k H. induction H as [blank post Hbl|h post Hno Hcl|seen h tail k Hp Hb IH|h n tail k Hc Hb IH];
      intros fuel lfuel rs out consumed line len0 pre Hi Hline HS Hpre Hco Hfu Hlf;
      (destruct fuel as [|fuel]; [lia|]).
    - assert (Hnb : no10 blank) by (destruct Hbl; subst; repeat constructor; lia).
      destruct (hline_ok lfuel rs out consumed consumed pre blank post Hi HS Hpre Hnb ltac:(lia) Hco Hlf)
        as [out' [rs' [HL _]]].
      destruct line as [|l0 line]; [congruence|].
      cbn [WarcDefs.header_loop]. rewrite HL.
      assert (Hsb : strip_cr_end blank = []) by (destruct Hbl; subst; reflexivity).
      rewrite Hsb. change (is_content_length []) with false. cbv iota.
      destruct fuel; reflexivity.
    - destruct (hline_ok lfuel rs out consumed consumed pre h post Hi HS Hpre Hno ltac:(lia) Hco Hlf)
        as [out' [rs' [HL _]]].
      destruct line as [|l0 line]; [congruence|].
      cbn [WarcDefs.header_loop]. rewrite HL. rewrite Hcl. reflexivity.
    - destruct (header_step_plain fuel lfuel rs out consumed line seen len0 pre h tail Hi Hline Hp HS Hpre Hco Hlf)
        as [out1 [rs1 [HE [HS1 [Hlen [Hrl Hi1]]]]]].
      rewrite HE. destruct Hp as [_ [Hsne _]].
      apply (IH fuel lfuel rs1 out1 _ _ len0 (pre ++ h ++ [10])); auto; try lia.
      rewrite !app_length. simpl. lia.
    - destruct (header_step_cl fuel lfuel rs out consumed line len0 pre h n tail Hi Hline Hc HS Hpre Hco Hlf)
        as [out1 [rs1 [HE [HS1 [Hlen [Hrl [Hi1 Hsne]]]]]]].
      rewrite HE.
      apply (IH fuel lfuel rs1 out1 _ _ (Z.of_nat n) (pre ++ h ++ [10])); auto; try lia.
      rewrite !app_length. simpl. lia.
  Qed.

  Lemma list_eqb_neq a b : a <> b -> list_eqb a b = false.
  Proof. intros H. destruct (list_eqb a b) eqn:E; [|reflexivity]. apply list_eqb_eq in E. contradiction. Qed.

  (* the first line is not "WARC/1.0" (CR allowed): a format error *)
  Theorem bad_version_is_error_proof fuel rs ov vline post : rinv rs ->
    ov ++ rem rs = vline ++ 10 :: post -> no10 vline -> strip_cr_end vline <> warc_version ->
    (length (rem rs) < fuel)%nat ->
    warc_read fuel rs ov = RecErr _ WFormat.
  Proof.
    intros Hi HS Hno Hv Hf. unfold WarcDefs.warc_read.
    destruct (hline_ok fuel rs ov 0 0 [] vline post Hi HS eq_refl Hno ltac:(lia) ltac:(lia) Hf) as [out1 [rs1 [HL _]]].
    rewrite HL. rewrite (list_eqb_neq _ _ Hv). reflexivity.
  Qed.

  (* a header block without Content-Length, or with a second one: a format error *)
  Theorem bad_header_is_error_proof fuel rs ov vline tail k : rinv rs ->
    ov ++ rem rs = vline ++ 10 :: tail -> no10 vline -> strip_cr_end vline = warc_version ->
    hdrs_bad false tail k -> (k < fuel)%nat -> (length (rem rs) < fuel)%nat ->
    warc_read fuel rs ov = RecErr _ WFormat.
  Proof.
    intros Hi HS Hno Hv Hb Hk Hf. unfold WarcDefs.warc_read.
    destruct (hline_ok fuel rs ov 0 0 [] vline tail Hi HS eq_refl Hno ltac:(lia) ltac:(lia) Hf)
      as [out1 [rs1 [HL [HS1 [Hlen [Hrl [_ Hi1]]]]]]].
    rewrite HL. rewrite Hv, list_eqb_refl. cbn [negb].
    rewrite (header_bad false tail k Hb fuel fuel rs1 out1 (S (0 + length vline)) warc_version 0 (vline ++ [10])); auto.
    - discriminate.
    - rewrite HS1. norm_app. reflexivity.
    - rewrite app_length. simpl. lia.
    - lia.
  Qed.

  (* a record whose last four bytes are not CR LF CR LF: a format error *)
  Theorem bad_terminator_is_error_proof fuel rs ov r rest vline hs blank body term : rinv rs ->
    r = vline ++ [10] ++ lines_bytes hs ++ blank ++ [10] ++ body ++ term ->
    no10 vline -> strip_cr_end vline = warc_version -> hdrs false hs (length body) ->
    (blank = [] \/ blank = [13]) -> Z.of_nat (length r) < alloc_limit ->
    length term = 4%nat -> term <> warc_trailer ->
    ov ++ rem rs = r ++ rest -> (length (r ++ rest) + 1 < fuel)%nat ->
    warc_read fuel rs ov = RecErr _ WFormat.
  Proof.
    intros Hi Er Hnv Hsv Hh Hbl Hsz Hterm Hbad HS Hf.
    assert (Hrem_le : (length (rem rs) <= length (r ++ rest))%nat).
    { rewrite <- HS, app_length. lia. }
    unfold WarcDefs.warc_read.
    (* the version line *)
    assert (HS0 : ov ++ rem rs = [] ++ vline ++ 10 :: (lines_bytes hs ++ blank ++ [10] ++ body ++ term) ++ rest).
    { rewrite HS, Er. norm_app. reflexivity. }
    destruct (hline_ok fuel rs ov 0 0 [] vline _ Hi HS0 eq_refl Hnv ltac:(lia) ltac:(lia) ltac:(lia))
      as [out1 [rs1 [HL [HS1 [Hlen1 [Hrl1 [_ Hi1]]]]]]].
    rewrite HL. rewrite Hsv. rewrite list_eqb_refl. cbn [negb].
    (* the header lines *)
    assert (HS1' : out1 ++ rem rs1 = (vline ++ [10]) ++ lines_bytes hs ++ blank ++ 10 :: (body ++ term ++ rest)).
    { rewrite HS1. norm_app. reflexivity. }
    pose proof (lines_bytes_length hs) as Hlb.
    assert (Hrl : (length r = length vline + 1 + length (lines_bytes hs) + length blank + 1 + length body + 4)%nat).
    { rewrite Er. rewrite !app_length. simpl. rewrite Hterm. lia. }
    assert (Hvne : warc_version <> []) by discriminate.
    assert (Hp1 : length (vline ++ [10]) = S (0 + length vline)) by (rewrite app_length; simpl; lia).
    assert (Hc1 : (S (0 + length vline) <= length out1)%nat) by lia.
    assert (Hf1 : (length hs < fuel)%nat) by (rewrite app_length in Hf; lia).
    assert (Hf2 : (length (rem rs1) < fuel)%nat) by lia.
    destruct (header_ok hs false (length body) Hh fuel fuel rs1 out1 (S (0 + length vline)) warc_version 0
                        (vline ++ [10]) (body ++ term ++ rest) blank Hi1 Hvne HS1' Hp1 Hc1 Hbl Hf1 Hf2)
      as [out2 [rs2 [HH [HS2 [Hlen2 [Hrl2 Hi2]]]]]].
    rewrite HH. cbv iota.
    set (consumed2 := (S (0 + length vline) + length (lines_bytes hs) + length blank + 1)%nat) in *.
    assert (Htot : (Z.of_nat consumed2 + Z.of_nat (length body) mod size_max + Z.of_N warc_trailer_len) mod size_max
                   = Z.of_nat (length r)).
    { change (Z.of_N warc_trailer_len) with 4. unfold alloc_limit in Hsz. unfold size_max.
      rewrite (Z.mod_small (Z.of_nat (length body))) by lia.
      rewrite Z.mod_small by (unfold consumed2; lia). unfold consumed2. lia. }
    rewrite Htot.
    assert (HS2' : out2 ++ rem rs2 = r ++ rest).
    { rewrite HS2, Er. norm_app. reflexivity. }
    assert (Htrail : list_eqb (skipn (length r - N.to_nat warc_trailer_len) r) warc_trailer = false).
    { change (N.to_nat warc_trailer_len) with 4%nat.
      assert (Er2 : r = (vline ++ [10] ++ lines_bytes hs ++ blank ++ [10] ++ body) ++ term).
      { rewrite Er. norm_app. reflexivity. }
      set (X := vline ++ [10] ++ lines_bytes hs ++ blank ++ [10] ++ body) in *.
      assert (HX : length X = (length r - 4)%nat).
      { rewrite Er2, app_length. rewrite Hterm. lia. }
      rewrite Er2 at 2. rewrite skipn_app. rewrite skipn_all2 by lia. rewrite app_nil_l.
      replace (length r - 4 - length X)%nat with 0%nat by lia.
      apply list_eqb_neq. exact Hbad. }
    destruct (overhang_test (Z.of_nat (length r)) (Z.of_nat (length out2))) eqn:Elt.
    - (* the whole record (and possibly more) is already in the buffer *)
      assert (Hle : (length r <= length out2)%nat) by (unfold overhang_test in Elt; destruct warc_overhang_le; lia).
      destruct (app_split_nat _ _ _ _ (eq_sym HS2') Hle) as [t [Ho Hr]].
      rewrite Nat2Z.id.
      assert (Hfr : firstn (length r) out2 = r).
      { rewrite Ho. rewrite firstn_app, firstn_all, Nat.sub_diag. simpl. apply app_nil_r. }
      rewrite Hfr. rewrite Htrail. reflexivity.
    - assert (Hal : (Z.of_nat (length r) >=? alloc_limit) = false) by lia.
      rewrite Hal.
      assert (Hge : (length out2 <= length r)%nat) by (unfold overhang_test in Elt; destruct warc_overhang_le; lia).
      destruct (read_exact_ok fuel rs2 out2 r rest Hi2 HS2') as [rs3 [HX [Hr3 Hi3]]]; [lia| |].
      { rewrite app_length in Hf. lia. }
      rewrite HX. rewrite Htrail. reflexivity.
  Qed.


  (* ------------------------------------------------------------ termination on every input *)
  Lemma find_nl_bounds l : forall i j, find_nl l i = Some j -> (i <= j < i + length l)%nat.
  Proof.
    induction l as [|b l IH]; intros i j H; [discriminate|].
    simpl in H. destruct (b =? 10).
    - inversion H; subst. simpl. lia.
    - apply IH in H. simpl. lia.
  Qed.

  Lemma find_from_bounds out s j : (s <= length out)%nat -> find_from out s = Some j -> (s <= j < length out)%nat.
  Proof.
    intros Hs H. unfold find_from in H. apply find_nl_bounds in H. rewrite skipn_length in H. lia.
  Qed.

  Lemma hline_total : forall fuel rs out consumed nstart, rinv rs ->
    (length (rem rs) < fuel)%nat -> (nstart <= length out)%nat ->
    match hline fuel rs out consumed nstart with
    | LineOk _ line c out' rs' =>
        out' ++ rem rs' = out ++ rem rs /\ rinv rs' /\ (nstart < c <= length out')%nat /\
        (length (rem rs') <= length (rem rs))%nat
    | LineEnd _ rs' => out = [] /\ rem rs = []
    | LineErr _ e => e <> WHang
    end.
  Proof.
    induction fuel as [|fuel IH]; intros rs out consumed nstart Hi Hf Hn; [lia|].
    cbn [WarcDefs.hline].
    destruct (find_from out nstart) as [nl|] eqn:EF.
    - apply find_from_bounds in EF; [|exact Hn]. repeat split; auto; lia.
    - destruct (rread_spec rs warc_kRead Hi kread_pos) as [got [rs' [HR [Hrem [_ [Hz Hi']]]]]].
      unfold WarcDefs.read_more. rewrite HR.
      destruct got as [|g got].
      + destruct out; [|discriminate]. split; [reflexivity|]. apply Hz. reflexivity.
      + assert (Hlt : (length (rem rs') < fuel)%nat) by (rewrite Hrem, app_length in Hf; simpl in Hf; lia).
        assert (Hn' : (length out <= length (out ++ g :: got))%nat) by (rewrite app_length; lia).
        specialize (IH rs' (out ++ g :: got) consumed (length out) Hi' Hlt Hn').
        destruct (hline fuel rs' (out ++ g :: got) consumed (length out)) as [line c out' rs''|rs''|e]; auto.
        * destruct IH as [H1 [H2 [H3 H4]]]. split; [rewrite H1, <- app_assoc, <- Hrem; reflexivity|].
          split; [exact H2|]. split; [lia|]. rewrite Hrem, app_length. lia.
        * destruct IH as [H1 _]. destruct out; discriminate.
  Qed.

  Lemma header_total : forall fuel lfuel rs out consumed line seen len0, rinv rs ->
    (consumed <= length out)%nat -> (length (out ++ rem rs) - consumed < fuel)%nat ->
    (length (rem rs) < lfuel)%nat ->
    match header_loop fuel lfuel rs out consumed line seen len0 with
    | HdrOk _ rs' out' c len => out' ++ rem rs' = out ++ rem rs /\ rinv rs' /\ (length (rem rs') <= length (rem rs))%nat
    | HdrErr _ e => e <> WHang
    end.
  Proof.
    induction fuel as [|fuel IH]; intros lfuel rs out consumed line seen len0 Hi Hc Hf Hlf; [lia|].
    destruct line as [|l0 line]; cbn [WarcDefs.header_loop].
    - destruct seen; [auto|discriminate].
    - pose proof (hline_total lfuel rs out consumed consumed Hi Hlf Hc) as HL.
      destruct (hline lfuel rs out consumed consumed) as [line' c out' rs'|rs'|e]; [|discriminate|exact HL].
      destruct HL as [HL1 [HL2 [HL3 HL4]]].
      assert (Hsz : (length out' <= length (out ++ rem rs))%nat) by (rewrite <- HL1, app_length; lia).
      assert (Hf' : (length (out' ++ rem rs') - c < fuel)%nat) by (rewrite HL1; lia).
      assert (Hlf' : (length (rem rs') < lfuel)%nat) by lia.
      assert (Hc' : (c <= length out')%nat) by lia.
      destruct (is_content_length line').
      + destruct seen; [discriminate|].
        destruct (strtoll (skipn (consumed + length warc_cl_name) out')) as [v used].
        destruct ((warc_reject_nodigit && Nat.eqb used 0) || negb (Nat.eqb used (length line' - length warc_cl_name))); [discriminate|].
        destruct (warc_reject_negative && (v <? 0)); [discriminate|].
        specialize (IH lfuel rs' out' c line' true v HL2 Hc' Hf' Hlf').
        destruct (header_loop fuel lfuel rs' out' c line' true v) as [rs2 out2 c2 len2|e2]; auto.
        destruct IH as [H1 [H2 H3]]. split; [rewrite H1; exact HL1|]. split; [exact H2|lia].
      + specialize (IH lfuel rs' out' c line' seen len0 HL2 Hc' Hf' Hlf').
        destruct (header_loop fuel lfuel rs' out' c line' seen len0) as [rs2 out2 c2 len2|e2]; auto.
        destruct IH as [H1 [H2 H3]]. split; [rewrite H1; exact HL1|]. split; [exact H2|lia].
  Qed.

  Lemma read_exact_total : forall fuel rs out total, rinv rs -> Z.of_nat (length out) <= total ->
    (length (rem rs) < fuel)%nat ->
    match read_exact fuel rs out total with
    | inl (rec, rs') => rec ++ rem rs' = out ++ rem rs /\ rinv rs'
    | inr e => e <> WHang
    end.
  Proof.
    induction fuel as [|fuel IH]; intros rs out total Hi Hle Hf; [lia|].
    cbn [WarcDefs.read_exact].
    destruct (Z.of_nat (length out) =? total) eqn:E; [auto|].
    assert (Hn : (0 < Z.to_N (total - Z.of_nat (length out)))%N) by lia.
    destruct (rread_spec rs _ Hi Hn) as [got [rs' [HR [Hrem [Hlen [_ Hi']]]]]].
    rewrite HR. destruct got as [|g got]; [discriminate|].
    assert (Hle' : Z.of_nat (length (out ++ g :: got)) <= total).
    { rewrite app_length. unfold len in Hlen. lia. }
    assert (Hf' : (length (rem rs') < fuel)%nat) by (rewrite Hrem, app_length in Hf; simpl in Hf; lia).
    specialize (IH rs' (out ++ g :: got) total Hi' Hle' Hf').
    destruct (read_exact fuel rs' (out ++ g :: got) total) as [[rec rs3]|e]; auto.
    destruct IH as [H1 H2]. split; [|exact H2]. rewrite H1, <- app_assoc, <- Hrem. reflexivity.
  Qed.

  Lemma warc_read_total fuel rs ov : rinv rs -> (length (ov ++ rem rs) + 1 < fuel)%nat ->
    match warc_read fuel rs ov with
    | RecOk _ rec rs' ov' => rec ++ ov' ++ rem rs' = ov ++ rem rs /\ rinv rs' /\ ends_with_trailer rec
    | RecEnd _ => ov = [] /\ rem rs = []
    | RecErr _ e => e <> WHang
    end.
  Proof.
    intros Hi Hf. rewrite app_length in Hf. unfold WarcDefs.warc_read.
    pose proof (hline_total fuel rs ov 0 0 Hi ltac:(lia) ltac:(lia)) as HL.
    destruct (hline fuel rs ov 0 0) as [line c out1 rs1|rs1|e]; auto.
    destruct HL as [HL1 [HL2 [HL3 HL4]]].
    destruct (negb (list_eqb line warc_version)); [discriminate|].
    assert (Hlen1 : length (out1 ++ rem rs1) = (length ov + length (rem rs))%nat) by (rewrite HL1, app_length; reflexivity).
    pose proof (header_total fuel fuel rs1 out1 c line false 0 HL2 ltac:(lia) ltac:(lia) ltac:(lia)) as HH.
    destruct (header_loop fuel fuel rs1 out1 c line false 0) as [rs2 out2 c2 len|e]; auto.
    destruct HH as [HH1 [HH2 HH3]].
    set (total := (Z.of_nat c2 + len mod size_max + Z.of_N warc_trailer_len) mod size_max).
    destruct (overhang_test total (Z.of_nat (length out2))) eqn:Elt.
    - destruct (list_eqb (skipn (length (firstn (Z.to_nat total) out2) - N.to_nat warc_trailer_len) (firstn (Z.to_nat total) out2)) warc_trailer) eqn:Et; [|discriminate].
      split; [|split; [exact HH2|apply trailer_check; exact Et]].
      rewrite app_assoc, firstn_skipn. rewrite HH1. exact HL1.
    - destruct (total >=? alloc_limit); [discriminate|].
      assert (Hge : Z.of_nat (length out2) <= total) by (unfold overhang_test in Elt; destruct warc_overhang_le; lia).
      pose proof (read_exact_total fuel rs2 out2 total HH2 Hge ltac:(lia)) as HX.
      destruct (read_exact fuel rs2 out2 total) as [[rec rs3]|e]; auto.
      destruct HX as [HX1 HX2].
      destruct (list_eqb (skipn (length rec - N.to_nat warc_trailer_len) rec) warc_trailer) eqn:Et; [|discriminate].
      split; [|split; [exact HX2|apply trailer_check; exact Et]].
      simpl. rewrite HX1, HH1. exact HL1.
  Qed.

  (* C17: on EVERY stream, from every source obeying the contract, reading ends:
     either all records (then C17_success_is_exact applies) or an error that is not
     fuel exhaustion.  With success_is_exact: broken framing is an error, not a hang
     and not a silent resynchronisation. *)
  Theorem never_hangs_proof : forall n fuel rs ov, rinv rs ->
    (length (ov ++ rem rs) < n)%nat -> (length (ov ++ rem rs) + 1 < fuel)%nat ->
    match warc_read_all n fuel rs ov with
    | AllOk _ => True
    | AllErr e _ => e <> WHang
    end.
  Proof.
    induction n as [|n IH]; intros fuel rs ov Hi Hn Hf; [lia|].
    cbn [WarcDefs.warc_read_all].
    pose proof (warc_read_total fuel rs ov Hi Hf) as HR.
    destruct (warc_read fuel rs ov) as [rec rs' ov'| |e]; auto.
    destruct HR as [H1 [H2 [x Hx]]].
    assert (Hlen : (length (ov' ++ rem rs') + 4 <= length (ov ++ rem rs))%nat).
    { rewrite <- H1. rewrite Hx. rewrite !app_length. change (length warc_trailer) with 4%nat. lia. }
    specialize (IH fuel rs' ov' H2 ltac:(lia) ltac:(lia)).
    destruct (warc_read_all n fuel rs' ov'); auto.
  Qed.
End WarcProofs.

(* ------------------------------------------------------------ the real byte source
   WARCReader reads through util::ReadCompressed; for plain input its C15 model
   (magic detection of the first kMagicSize bytes, then the pipe fragments)
   satisfies the source contract used above. *)
Definition rc_rem (s : rstate unit unit) : list Z :=
  match r_rd _ _ s with
  | RPlain => fbytes (r_file _ _ s)
  | RHeader buf => buf ++ fbytes (r_file _ _ s)
  | _ => []
  end.
Definition rc_inv (s : rstate unit unit) : Prop := pgood unit unit s (rc_rem s).

Lemma pgood_rem s rest : pgood unit unit s rest -> rest = rc_rem s.
Proof.
  unfold pgood, rc_rem. destruct (r_rd _ _ s); intros H.
  - destruct H as [_ H]. exact H.
  - symmetry. exact H.
  - destruct H as [_ H]. symmetry. exact H.
  - contradiction.
Qed.

Lemma rc_read_contract : rread_contract (rstate unit unit) rc_read rc_rem rc_inv.
Proof.
  intros s n Hi Hn. unfold rc_inv in Hi.
  destruct (rd_plain unit unit no_codec_new no_codec_call 1 s (rc_rem s) n Hi Hn)
    as [out [s' [rest' [HR [Hp [Hg' [He Hl]]]]]]].
  exists out, s'. unfold rc_read. rewrite HR.
  pose proof (pgood_rem s' rest' Hg') as E. subst rest'.
  repeat split; auto.
Qed.

(* reading a WARC file of well-formed records that arrives in ANY fragments
   through ReadCompressed yields exactly the records *)
Theorem warc_file_exact_proof : forall (f : frags) recs n fuel,
  Forall wf_record recs -> fbytes f = concat recs ->
  detect_magic (takeN kMagicSize (concat recs)) = None ->
  (length recs < n)%nat -> (length (concat recs) + 1 < fuel)%nat ->
  warc_file n fuel f = AllOk recs.
Proof.
  intros f recs n fuel Hwf Hf Hd Hn Hfu. unfold warc_file, rc_open.
  rewrite read_factory_eq. unfold fact_header.
  change (len (@nil Z) <? kMagicSize)%N with true. cbv iota.
  change (kMagicSize - len (@nil Z))%N with kMagicSize.
  destruct (read_or_eof f kMagicSize) as [got f1] eqn:ER.
  apply read_or_eof_spec in ER. destruct ER as [Eg Ef]. rewrite Hf in Eg, Ef.
  simpl app. rewrite <- Eg in Hd.
  destruct got as [|b got].
  - (* empty file *)
    assert (L : len (takeN kMagicSize (concat recs)) = 0%N) by (rewrite <- Eg; reflexivity).
    rewrite len_takeN in L.
    assert (Hc : concat recs = []).
    { apply len_zero_nil. assert (0 < kMagicSize)%N by (vm_compute; reflexivity). lia. }
    set (s0 := mkr unit unit f1 tt RComplete).
    assert (Hi0 : rc_inv s0).
    { unfold rc_inv, pgood, rc_rem, s0. simpl. split; [|reflexivity].
      rewrite Ef, Hc. apply dropN_all. rewrite len_nil. lia. }
    assert (Hr0 : rc_rem s0 = concat recs) by (unfold rc_rem, s0; simpl; symmetry; exact Hc).
    exact (records_exact_proof (rstate unit unit) rc_read rc_rem rc_inv rc_read_contract recs s0 n fuel Hi0 Hwf Hr0 Hn Hfu).
  - rewrite Hd.
    set (s0 := mkr unit unit f1 tt (RHeader (b :: got))).
    assert (Hi0 : rc_inv s0).
    { unfold rc_inv, pgood, rc_rem, s0. simpl. split; [discriminate|reflexivity]. }
    assert (Hr0 : rc_rem s0 = concat recs).
    { unfold rc_rem, s0. simpl. change (b :: got ++ fbytes f1) with ((b :: got) ++ fbytes f1).
      rewrite Eg, Ef. apply takeN_dropN. }
    exact (records_exact_proof (rstate unit unit) rc_read rc_rem rc_inv rc_read_contract recs s0 n fuel Hi0 Hwf Hr0 Hn Hfu).
Qed.
