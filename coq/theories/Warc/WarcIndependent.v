(* C17: what WARCReader returns is a function of the bytes alone -- not of how the
   source cuts them into pieces.  If reading a stream from one source (any fragmentation
   obeying rread_contract) succeeds with records recs, reading the same bytes from any
   other source returns exactly recs again.  This is what the re-framing of a child's
   output in warc_parallel needs: the child (cat) writes the records the first reader
   returned; the pipe delivers the same bytes in other pieces.
   The argument does not go through a grammar of records: every phase of Read (line,
   header loop with strtoll, body) is shown to depend on the stream only. *)
From PP Require Import Warc.WarcDefs Warc.WarcProofs Compress.CompressProofs.
From Coq Require Import Lia ZifyBool.
Local Open Scope Z_scope.

(* ------------------------------------------------------------ find *)
Lemma find_nl_some_split l : forall i j, find_nl l i = Some j ->
  exists a b, l = a ++ 10 :: b /\ no10 a /\ j = (i + length a)%nat.
Proof.
  induction l as [|x l IH]; intros i j H; [discriminate|]. simpl in H.
  destruct (x =? 10) eqn:E.
  - inversion H; subst. exists [], l. split; [simpl; f_equal; lia|]. split; [constructor|simpl; lia].
  - destruct (IH _ _ H) as [a [b [E1 [E2 E3]]]]. exists (x :: a), b. split; [simpl; rewrite E1; reflexivity|].
    split; [constructor; [lia|exact E2]|simpl; lia].
Qed.

Lemma find_nl_none_no10 l : forall i, find_nl l i = None -> no10 l.
Proof.
  induction l as [|x l IH]; intros i H; [constructor|]. simpl in H.
  destruct (x =? 10) eqn:E; [discriminate|]. constructor; [lia|eapply IH; eauto].
Qed.

(* ------------------------------------------------------------ strtoll looks no further than the line feed *)
Definition strtoll_body (l1 : list Z) (n1 : nat) : Z * nat :=
  let '(neg, l2, n2) :=
    match l1 with
    | 45 :: r => (true, r, S n1)
    | 43 :: r => (false, r, S n1)
    | _ => (false, l1, n1)
    end in
  let (v, cnt) := scan_digits l2 0 0 in
  match cnt with
  | O => (0, O)
  | _ => (clamp_ll (if neg then - v else v), (n2 + cnt)%nat)
  end.

Lemma strtoll_unfold l : strtoll l = strtoll_body (fst (skip_space l 0)) (snd (skip_space l 0)).
Proof. unfold strtoll, strtoll_body. destruct (skip_space l 0) as [l1 n1]. reflexivity. Qed.

Lemma scan_digits_local y : forall m1 m2 acc cnt,
  scan_digits (y ++ 10 :: m1) acc cnt = scan_digits (y ++ 10 :: m2) acc cnt.
Proof.
  induction y as [|b y IH]; intros m1 m2 acc cnt; simpl; [reflexivity|].
  destruct (is_digit b); [apply IH|reflexivity].
Qed.

Lemma body_local b x m1 m2 n : is_space b = false ->
  strtoll_body (b :: x ++ 10 :: m1) n = strtoll_body (b :: x ++ 10 :: m2) n.
Proof.
  intros Hb. unfold strtoll_body.
  destruct (Z.eq_dec b 45) as [->|N45]; [rewrite (scan_digits_local x m1 m2); reflexivity|].
  destruct (Z.eq_dec b 43) as [->|N43]; [rewrite (scan_digits_local x m1 m2); reflexivity|].
  assert (E : forall m, match b :: x ++ 10 :: m with
                        | 45 :: r => (true, r, S n) | 43 :: r => (false, r, S n) | _ => (false, b :: x ++ 10 :: m, n) end
                        = (false, b :: x ++ 10 :: m, n)).
  { intros m. destruct b as [|p|p]; try reflexivity.
    do 6 (destruct p as [p|p|]; try reflexivity); lia. }
  rewrite (E m1), (E m2).
  change (b :: x ++ 10 :: m1) with ((b :: x) ++ 10 :: m1). change (b :: x ++ 10 :: m2) with ((b :: x) ++ 10 :: m2).
  rewrite (scan_digits_local (b :: x) m1 m2). reflexivity.
Qed.

Lemma skip_space_mono l : forall n, (n <= snd (skip_space l n))%nat.
Proof.
  induction l as [|b l IH]; intros n; simpl; [lia|].
  destruct (is_space b); [specialize (IH (S n)); lia|simpl; lia].
Qed.

Lemma body_used l1 n1 : snd (strtoll_body l1 n1) = 0%nat \/ (n1 < snd (strtoll_body l1 n1))%nat.
Proof.
  unfold strtoll_body.
  destruct (match l1 with 45 :: r => (true, r, S n1) | 43 :: r => (false, r, S n1) | _ => (false, l1, n1) end) as [[neg l2] n2] eqn:E.
  assert (Hn : (n1 <= n2)%nat).
  { destruct l1 as [|b r]; [inversion E; lia|].
    destruct b as [|p|p]; try (inversion E; lia).
    do 6 (destruct p as [p|p|]; try (inversion E; lia)). }
  destruct (scan_digits l2 0 0) as [v cnt]. destruct cnt; [left; reflexivity|right; simpl; lia].
Qed.

(* the conversion is the same whatever follows the line feed, as soon as it is a
   conversion that ends inside the line (0 < used <= length of the line's rest) *)
Lemma strtoll_local x : forall n m1 m2 v used,
  strtoll_body (fst (skip_space (x ++ 10 :: m1) n)) (snd (skip_space (x ++ 10 :: m1) n)) = (v, used) ->
  (0 < used <= n + length x)%nat ->
  strtoll_body (fst (skip_space (x ++ 10 :: m2) n)) (snd (skip_space (x ++ 10 :: m2) n)) = (v, used).
Proof.
  induction x as [|b x IH]; intros n m1 m2 v used H Hu.
  - exfalso. simpl in H. change (is_space 10) with true in H. cbv iota in H.
    pose proof (skip_space_mono m1 (S n)) as Hm.
    pose proof (body_used (fst (skip_space m1 (S n))) (snd (skip_space m1 (S n)))) as Hb.
    rewrite H in Hb. simpl in Hb, Hu. lia.
  - simpl in H |- *. destruct (is_space b) eqn:Eb.
    + apply (IH (S n) m1 m2 v used H). simpl in Hu. lia.
    + simpl in H |- *. rewrite <- H. symmetry. apply body_local. exact Eb.
Qed.

Section Two.
  Variables (rstate1 rstate2 : Type).
  Variable rread1 : rstate1 -> N -> option (list Z * rstate1).
  Variable rread2 : rstate2 -> N -> option (list Z * rstate2).
  Variable rem1 : rstate1 -> list Z.
  Variable rem2 : rstate2 -> list Z.
  Variable rinv1 : rstate1 -> Prop.
  Variable rinv2 : rstate2 -> Prop.
  Hypothesis spec1 : rread_contract rstate1 rread1 rem1 rinv1.
  Hypothesis spec2 : rread_contract rstate2 rread2 rem2 rinv2.

  (* a returned line, seen on the stream *)
  Lemma hline_inv : forall fuel rs out consumed nstart line c out' rs', rinv1 rs ->
    hline rstate1 rread1 fuel rs out consumed nstart = LineOk _ line c out' rs' ->
    (consumed <= nstart <= length out)%nat -> no10 (skipn consumed (firstn nstart out)) ->
    exists l post, out' ++ rem1 rs' = firstn consumed out ++ l ++ 10 :: post /\ no10 l /\
      line = strip_cr_end l /\ c = S (consumed + length l) /\ out' ++ rem1 rs' = out ++ rem1 rs /\ rinv1 rs' /\
      (c <= length out')%nat.
  Proof.
    induction fuel as [|fuel IH]; intros rs out consumed nstart line c out' rs' Hi H Hn Hno.
    - cbn [hline] in H. destruct (find_from out nstart) as [nl|] eqn:EF; [|discriminate].
      injection H as H1 H2 H3 H4. subst line c out' rs'.
      unfold find_from in EF. destruct (find_nl_some_split _ _ _ EF) as [a [b [E1 [E2 E3]]]]. subst nl.
      assert (Eo : out = firstn consumed out ++ skipn consumed (firstn nstart out) ++ a ++ 10 :: b).
      { assert (E0 : firstn nstart out = firstn consumed out ++ skipn consumed (firstn nstart out)).
        { rewrite <- (firstn_skipn consumed (firstn nstart out)) at 1. rewrite firstn_firstn.
          replace (Nat.min consumed nstart) with consumed by lia. reflexivity. }
        transitivity (firstn nstart out ++ skipn nstart out); [symmetry; apply firstn_skipn|].
        rewrite E1. rewrite E0 at 1. rewrite <- app_assoc. reflexivity. }
      set (m := skipn consumed (firstn nstart out)) in *.
      assert (Lm : length m = (nstart - consumed)%nat) by (unfold m; rewrite skipn_length, firstn_length; lia).
      assert (Lp : length (firstn consumed out) = consumed) by (rewrite firstn_length; lia).
      exists (m ++ a), (b ++ rem1 rs). split; [|split; [|split; [|split; [|split; [|split]]]]]; auto.
      + rewrite Eo at 1. rewrite <- !app_assoc. reflexivity.
      + apply no10_app. split; assumption.
      + f_equal. rewrite Eo at 1. rewrite skipn_app, Lp, Nat.sub_diag. rewrite skipn_all2 by lia. simpl.
        rewrite app_assoc. rewrite firstn_app. rewrite app_length.
        replace (nstart + length a - consumed - (length m + length a))%nat with 0%nat by lia.
        rewrite firstn_all2 by (rewrite app_length; lia). simpl. apply app_nil_r.
      + rewrite app_length. lia.
      + rewrite Eo. rewrite !app_length. simpl. lia.
    - cbn [hline] in H. destruct (find_from out nstart) as [nl|] eqn:EF.
      + apply (IH rs out consumed nstart line c out' rs' Hi); auto. destruct fuel; cbn [hline]; rewrite EF; exact H.
      + unfold find_from in EF. apply find_nl_none_no10 in EF.
        destruct (spec1 rs warc_kRead Hi (kread_pos)) as [got [rs1 [HR [Hrem [_ [Hz Hi1]]]]]].
        unfold read_more in H. rewrite HR in H. destruct got as [|g got]; [destruct out; discriminate|].
        destruct (IH rs1 (out ++ g :: got) consumed (length out) line c out' rs' Hi1 H) as [l [post [A1 [A2 [A3 [A4 [A5 [A6 A7]]]]]]]].
        * rewrite app_length. lia.
        * rewrite firstn_app, Nat.sub_diag, firstn_all. simpl. rewrite app_nil_r.
          rewrite <- (firstn_skipn nstart out). rewrite skipn_app.
          apply no10_app. split; [exact Hno|].
          apply no10_skipn. exact EF.
        * exists l, post. rewrite firstn_app in A1. replace (consumed - length out)%nat with 0%nat in A1 by lia.
          simpl in A1. rewrite app_nil_r in A1.
          split; [exact A1|]. split; [exact A2|]. split; [exact A3|]. split; [exact A4|]. split; [|split; [exact A6|exact A7]].
          rewrite A5, <- app_assoc, <- Hrem. reflexivity.
  Qed.

  Lemma prefix_firstn (a b c d : list Z) n : a ++ b = c ++ d -> (n <= length a)%nat -> (n <= length c)%nat -> firstn n a = firstn n c.
  Proof.
    intros H La Lc.
    assert (E : firstn n (a ++ b) = firstn n (c ++ d)) by (rewrite H; reflexivity).
    rewrite !firstn_app in E. replace (n - length a)%nat with 0%nat in E by lia. replace (n - length c)%nat with 0%nat in E by lia.
    simpl in E. rewrite !app_nil_r in E. exact E.
  Qed.

  (* the same line from both sources *)
  Lemma hline_agree fuel1 rs1 out1 consumed line c out1' rs1' : rinv1 rs1 -> (consumed <= length out1)%nat ->
    hline rstate1 rread1 fuel1 rs1 out1 consumed consumed = LineOk _ line c out1' rs1' ->
    forall fuel2 rs2 out2, rinv2 rs2 -> out2 ++ rem2 rs2 = out1 ++ rem1 rs1 -> (consumed <= length out2)%nat ->
      (length (rem2 rs2) < fuel2)%nat ->
      exists out2' rs2' l post,
        hline rstate2 rread2 fuel2 rs2 out2 consumed consumed = LineOk _ line c out2' rs2' /\
        out2' ++ rem2 rs2' = out2 ++ rem2 rs2 /\ rinv2 rs2' /\ (length (rem2 rs2') <= length (rem2 rs2))%nat /\
        out1' ++ rem1 rs1' = out1 ++ rem1 rs1 /\ rinv1 rs1' /\
        out1 ++ rem1 rs1 = firstn consumed out1 ++ l ++ 10 :: post /\ no10 l /\ line = strip_cr_end l /\
        c = S (consumed + length l) /\ (c <= length out1')%nat /\ (c <= length out2')%nat.
  Proof.
    intros Hi1 Hc1 H fuel2 rs2 out2 Hi2 HS Hc2 Hf2.
    destruct (hline_inv fuel1 rs1 out1 consumed consumed line c out1' rs1' Hi1 H) as [l [post [A1 [A2 [A3 [A4 [A5 [A6 A7]]]]]]]].
    - lia.
    - rewrite skipn_all2 by (rewrite firstn_length; lia). constructor.
    - assert (Hp : firstn consumed out2 = firstn consumed out1) by (eapply prefix_firstn; eauto).
      assert (HS2 : out2 ++ rem2 rs2 = firstn consumed out1 ++ l ++ 10 :: post) by (rewrite HS, <- A5; exact A1).
      destruct (hline_ok rstate2 rread2 rem2 rinv2 spec2 fuel2 rs2 out2 consumed consumed (firstn consumed out1) l post Hi2 HS2)
        as [out2' [rs2' [B1 [B2 [B3 [B4 [_ B6]]]]]]]; auto.
      + rewrite firstn_length. lia.
      + lia.
      + exists out2', rs2', l, post. rewrite <- A3, <- A4 in B1.
        split; [exact B1|]. split; [rewrite B2, HS2; reflexivity|]. split; [exact B6|]. split; [exact B4|].
        split; [exact A5|]. split; [exact A6|]. split; [rewrite <- A5; exact A1|]. split; [exact A2|]. split; [exact A3|].
        split; [exact A4|]. split; [exact A7|]. lia.
  Qed.

  Lemma strip_cr_end_length l : (length (strip_cr_end l) <= length l)%nat.
  Proof.
    unfold strip_cr_end. destruct (rev l) as [|b r] eqn:E; [lia|].
    assert (L : length l = S (length r)) by (rewrite <- (rev_length l), E; reflexivity).
    destruct b as [|p|p]; try lia. do 4 (destruct p as [p|p|]; try lia). rewrite rev_length. lia.
  Qed.

  Lemma buffer_shape (out r pre l post : list Z) : out ++ r = pre ++ l ++ 10 :: post ->
    (S (length pre + length l) <= length out)%nat -> exists m, out = pre ++ l ++ 10 :: m.
  Proof.
    intros H L.
    assert (H' : (pre ++ l ++ [10]) ++ post = out ++ r) by (rewrite H, <- !app_assoc; reflexivity).
    destruct (app_split_nat _ _ _ _ H') as [t [Ho _]]; [rewrite !app_length; simpl; lia|].
    exists t. rewrite Ho, <- !app_assoc. reflexivity.
  Qed.

  Lemma skipn_into_line (pre l m : list Z) k : (k <= length l)%nat ->
    skipn (length pre + k) (pre ++ l ++ 10 :: m) = skipn k l ++ 10 :: m.
  Proof.
    intros Hk. rewrite skipn_app. rewrite skipn_all2 by lia. simpl.
    replace (length pre + k - length pre)%nat with k by lia.
    rewrite skipn_app. replace (k - length l)%nat with 0%nat by lia. reflexivity.
  Qed.

  (* the same header block from both sources *)
  Lemma header_agree : forall fuel1 lfuel1 rs1 out1 consumed line seen len0 rs1' out1' c' len,
    rinv1 rs1 -> (consumed <= length out1)%nat ->
    header_loop rstate1 rread1 fuel1 lfuel1 rs1 out1 consumed line seen len0 = HdrOk _ rs1' out1' c' len ->
    forall fuel2 lfuel2 rs2 out2, rinv2 rs2 -> out2 ++ rem2 rs2 = out1 ++ rem1 rs1 -> (consumed <= length out2)%nat ->
      (length (out1 ++ rem1 rs1) - consumed < fuel2)%nat -> (length (rem2 rs2) < lfuel2)%nat ->
      exists rs2' out2', header_loop rstate2 rread2 fuel2 lfuel2 rs2 out2 consumed line seen len0 = HdrOk _ rs2' out2' c' len /\
        out2' ++ rem2 rs2' = out2 ++ rem2 rs2 /\ rinv2 rs2' /\ (length (rem2 rs2') <= length (rem2 rs2))%nat /\
        out1' ++ rem1 rs1' = out1 ++ rem1 rs1 /\ rinv1 rs1' /\ (c' <= length out1')%nat /\ (c' <= length out2')%nat.
  Proof.
    induction fuel1 as [|fuel1 IH]; intros lfuel1 rs1 out1 consumed line seen len0 rs1' out1' c' len Hi1 Hc1 H
      fuel2 lfuel2 rs2 out2 Hi2 HS Hc2 Hf2 Hlf2;
      destruct line as [|l0 line0]; cbn [header_loop] in H; try discriminate H.
    1,2: (destruct seen; [|discriminate H]; injection H as E1 E2 E3 E4; subst rs1' out1' c' len;
          exists rs2, out2; destruct fuel2; cbn [header_loop]; repeat split; auto).
    destruct (hline rstate1 rread1 lfuel1 rs1 out1 consumed consumed) as [line' c1 out1a rs1a|?|?] eqn:EL; try discriminate H.
    destruct (hline_agree lfuel1 rs1 out1 consumed line' c1 out1a rs1a Hi1 Hc1 EL lfuel2 rs2 out2 Hi2 HS Hc2 Hlf2)
      as [out2a [rs2a [l [post [B1 [B2 [B3 [B4 [B5 [B6 [B7 [B8 [B9 [B10 [B11 B12]]]]]]]]]]]]]]].
    destruct fuel2 as [|fuel2]; [lia|]. cbn [header_loop]. rewrite B1.
    assert (HSa : out2a ++ rem2 rs2a = out1a ++ rem1 rs1a) by (rewrite B2, B5; exact HS).
    assert (Hc1S : (c1 <= length (out1 ++ rem1 rs1))%nat) by (rewrite <- B5, app_length; lia).
    assert (Hfa : (length (out1a ++ rem1 rs1a) - c1 < fuel2)%nat) by (rewrite B5; lia).
    assert (Hlfa : (length (rem2 rs2a) < lfuel2)%nat) by lia.
    destruct (is_content_length line') eqn:ECL.
    - destruct seen; [discriminate H|].
      destruct (strtoll (skipn (consumed + length warc_cl_name) out1a)) as [v used] eqn:EST.
      destruct ((warc_reject_nodigit && Nat.eqb used 0) || negb (Nat.eqb used (length line' - length warc_cl_name))) eqn:EC; [discriminate H|].
      destruct (warc_reject_negative && (v <? 0)) eqn:EN; [discriminate H|].
      (* the conversion ended inside the line: it reads the same in the other buffer *)
      assert (Lp : length (firstn consumed out1) = consumed) by (rewrite firstn_length; lia).
      assert (Hu : (0 < used /\ used = length line' - length warc_cl_name)%nat).
      { unfold warc_reject_nodigit in EC. cbn [andb] in EC.
        destruct (Nat.eqb used 0) eqn:E0; [discriminate EC|]. cbn [orb] in EC.
        destruct (Nat.eqb used (length line' - length warc_cl_name)) eqn:E1; [|discriminate EC].
        apply Nat.eqb_neq in E0. apply Nat.eqb_eq in E1. lia. }
      assert (Hnl : (length warc_cl_name <= length l)%nat).
      { unfold is_content_length in ECL. apply andb_true_iff in ECL. destruct ECL as [ECL _]. apply Nat.leb_le in ECL.
        rewrite B9 in ECL. pose proof (strip_cr_end_length l). lia. }
      destruct (buffer_shape out1a (rem1 rs1a) (firstn consumed out1) l post) as [m1 Em1]; [rewrite B5; exact B7|lia|].
      destruct (buffer_shape out2a (rem2 rs2a) (firstn consumed out1) l post) as [m2 Em2]; [rewrite HSa, B5; exact B7|lia|].
      assert (EST2 : strtoll (skipn (consumed + length warc_cl_name) out2a) = (v, used)).
      { set (pre := firstn consumed out1) in *.
        assert (EST' : strtoll (skipn (length pre + length warc_cl_name) (pre ++ l ++ 10 :: m1)) = (v, used))
          by (rewrite Lp, <- Em1; exact EST).
        rewrite skipn_into_line in EST' by exact Hnl.
        rewrite <- Lp, Em2. rewrite skipn_into_line by exact Hnl.
        rewrite strtoll_unfold in EST' |- *.
        apply (strtoll_local _ 0%nat m1 m2 v used EST').
        rewrite skipn_length. pose proof (strip_cr_end_length l). rewrite B9 in Hu. lia. }
      rewrite EST2, EC, EN.
      destruct (IH lfuel1 rs1a out1a c1 line' true v rs1' out1' c' len B6 B11 H fuel2 lfuel2 rs2a out2a B3 HSa B12 Hfa Hlfa)
        as [rs2' [out2' [C1 [C2 [C3 [C4 [C5 [C6 [C7 C8]]]]]]]]].
      exists rs2', out2'. split; [exact C1|]. split; [rewrite C2; exact B2|]. split; [exact C3|]. split; [lia|].
      split; [rewrite C5; exact B5|]. auto.
    - destruct (IH lfuel1 rs1a out1a c1 line' seen len0 rs1' out1' c' len B6 B11 H fuel2 lfuel2 rs2a out2a B3 HSa B12 Hfa Hlfa)
        as [rs2' [out2' [C1 [C2 [C3 [C4 [C5 [C6 [C7 C8]]]]]]]]].
      exists rs2', out2'. split; [exact C1|]. split; [rewrite C2; exact B2|]. split; [exact C3|]. split; [lia|].
      split; [rewrite C5; exact B5|]. auto.
  Qed.

  Lemma read_exact_length : forall fuel rs out total rec rs',
    read_exact rstate1 rread1 fuel rs out total = inl (rec, rs') -> Z.of_nat (length rec) = total.
  Proof.
    induction fuel as [|fuel IH]; intros rs out total rec rs' H; cbn [read_exact] in H;
      destruct (Z.of_nat (length out) =? total) eqn:E; try discriminate H; try (inversion H; subst; lia).
    destruct (rread1 rs (Z.to_N (total - Z.of_nat (length out)))) as [[got rs1]|]; [|discriminate H].
    destruct got; [discriminate H|]. eapply IH; eauto.
  Qed.

  (* the same record from both sources *)
  Lemma warc_read_agree fuel1 rs1 ov1 r rs1' ov1' : rinv1 rs1 ->
    warc_read rstate1 rread1 fuel1 rs1 ov1 = RecOk _ r rs1' ov1' ->
    forall fuel2 rs2 ov2, rinv2 rs2 -> ov2 ++ rem2 rs2 = ov1 ++ rem1 rs1 ->
      Z.of_nat (length (ov1 ++ rem1 rs1)) < alloc_limit -> (length (ov1 ++ rem1 rs1) + 1 < fuel2)%nat ->
      exists rs2' ov2', warc_read rstate2 rread2 fuel2 rs2 ov2 = RecOk _ r rs2' ov2' /\
        ov2' ++ rem2 rs2' = ov1' ++ rem1 rs1' /\ rinv2 rs2' /\ rinv1 rs1' /\ r ++ ov1' ++ rem1 rs1' = ov1 ++ rem1 rs1.
  Proof.
    intros Hi1 H fuel2 rs2 ov2 Hi2 HS Hal Hf2.
    pose proof (warc_read_conserve rstate1 rread1 rem1 rinv1 spec1 fuel1 rs1 ov1 Hi1) as HC. rewrite H in HC.
    destruct HC as [HC1 [HC2 _]].
    assert (Hrem2 : (length (rem2 rs2) <= length (ov1 ++ rem1 rs1))%nat) by (rewrite <- HS, app_length; lia).
    unfold warc_read in H |- *.
    destruct (hline rstate1 rread1 fuel1 rs1 ov1 0 0) as [line c out1a rs1a|?|?] eqn:EL; try discriminate H.
    destruct (hline_agree fuel1 rs1 ov1 0%nat line c out1a rs1a Hi1 ltac:(lia) EL fuel2 rs2 ov2 Hi2 HS ltac:(lia) ltac:(lia))
      as [out2a [rs2a [l [post [B1 [B2 [B3 [B4 [B5 [B6 [B7 [B8 [B9 [B10 [B11 B12]]]]]]]]]]]]]]].
    rewrite B1. destruct (negb (list_eqb line warc_version)); [discriminate H|].
    destruct (header_loop rstate1 rread1 fuel1 fuel1 rs1a out1a c line false 0) as [rs1b out1b c2 len|?] eqn:EH; try discriminate H.
    assert (HSa : out2a ++ rem2 rs2a = out1a ++ rem1 rs1a) by (rewrite B2, B5; exact HS).
    destruct (header_agree fuel1 fuel1 rs1a out1a c line false 0 rs1b out1b c2 len B6 B11 EH fuel2 fuel2 rs2a out2a B3 HSa B12)
      as [rs2b [out2b [C1 [C2 [C3 [C4 [C5 [C6 [C7 C8]]]]]]]]]; [rewrite B5; lia|lia|].
    rewrite C1.
    set (total := (Z.of_nat c2 + len mod size_max + Z.of_N warc_trailer_len) mod size_max) in *.
    assert (Ht0 : 0 <= total) by (apply Z.mod_pos_bound; reflexivity).
    (* what the first run returned: the first [total] bytes of the stream, ending in the trailer *)
    assert (F : Z.of_nat (length r) = total /\ list_eqb (skipn (length r - N.to_nat warc_trailer_len) r) warc_trailer = true).
    { destruct (overhang_test total (Z.of_nat (length out1b))) eqn:EO1.
      - destruct (list_eqb (skipn (length (firstn (Z.to_nat total) out1b) - N.to_nat warc_trailer_len) (firstn (Z.to_nat total) out1b)) warc_trailer) eqn:ET; [|discriminate H].
        injection H as E1 E2 E3. subst r. split; [|exact ET].
        rewrite firstn_length. unfold overhang_test in EO1. destruct warc_overhang_le; lia.
      - destruct (total >=? alloc_limit); [discriminate H|].
        destruct (read_exact rstate1 rread1 fuel1 rs1b out1b total) as [[rec rs3]|?] eqn:ER; [|discriminate H].
        destruct (list_eqb (skipn (length rec - N.to_nat warc_trailer_len) rec) warc_trailer) eqn:ET; [|discriminate H].
        injection H as E1 E2 E3. subst rec. split; [|exact ET]. eapply read_exact_length; eauto. }
    destruct F as [F1 F2].
    set (rest := ov1' ++ rem1 rs1') in *.
    assert (HS2 : out2b ++ rem2 rs2b = r ++ rest) by (rewrite C2, HSa, B5; symmetry; exact HC1).
    assert (Hrl : (length r <= length (ov1 ++ rem1 rs1))%nat) by (rewrite <- HC1, app_length; lia).
    destruct (overhang_test total (Z.of_nat (length out2b))) eqn:EO2.
    - assert (Hle : (length r <= length out2b)%nat) by (unfold overhang_test in EO2; destruct warc_overhang_le; lia).
      destruct (app_split_nat _ _ _ _ (eq_sym HS2) Hle) as [t [Ho Hr]].
      assert (Hfr : firstn (Z.to_nat total) out2b = r).
      { rewrite <- F1, Nat2Z.id, Ho. rewrite firstn_app, firstn_all, Nat.sub_diag. simpl. apply app_nil_r. }
      rewrite Hfr, F2. exists rs2b, (skipn (Z.to_nat total) out2b).
      split; [reflexivity|]. split; [|auto].
      rewrite <- F1, Nat2Z.id, Ho. rewrite skipn_app, skipn_all, Nat.sub_diag. simpl. symmetry. exact Hr.
    - assert (Hal2 : (total >=? alloc_limit) = false) by lia. rewrite Hal2.
      assert (Hge : (length out2b <= length r)%nat) by (unfold overhang_test in EO2; destruct warc_overhang_le; lia).
      destruct (read_exact_ok rstate2 rread2 rem2 rinv2 spec2 fuel2 rs2b out2b r rest C3 HS2 Hge) as [rs3 [HX [Hr3 Hi3]]]; [lia|].
      rewrite <- F1, HX, F2. exists rs3, []. split; [reflexivity|]. split; [exact Hr3|auto].
  Qed.

  Lemma warc_read_end_agree fuel2 rs2 ov2 : rinv2 rs2 -> ov2 = [] -> rem2 rs2 = [] -> (0 < fuel2)%nat ->
    warc_read rstate2 rread2 fuel2 rs2 ov2 = RecEnd _.
  Proof.
    intros Hi2 Ho Hr Hf. subst ov2. destruct fuel2 as [|fuel2]; [lia|].
    destruct (read_more_end rstate2 rread2 rem2 rinv2 spec2 rs2 Hi2 Hr) as [rs' HM].
    unfold warc_read. cbn [hline]. change (find_from [] 0) with (@None nat). rewrite HM. reflexivity.
  Qed.

  Theorem read_all_agree : forall n1 fuel1 rs1 ov1 recs, rinv1 rs1 ->
    warc_read_all rstate1 rread1 n1 fuel1 rs1 ov1 = AllOk recs ->
    forall n2 fuel2 rs2 ov2, rinv2 rs2 -> ov2 ++ rem2 rs2 = ov1 ++ rem1 rs1 ->
      Z.of_nat (length (ov1 ++ rem1 rs1)) < alloc_limit ->
      (length recs < n2)%nat -> (length (ov1 ++ rem1 rs1) + 1 < fuel2)%nat ->
      warc_read_all rstate2 rread2 n2 fuel2 rs2 ov2 = AllOk recs.
  Proof.
    induction n1 as [|n1 IH]; intros fuel1 rs1 ov1 recs Hi1 H n2 fuel2 rs2 ov2 Hi2 HS Hal Hn2 Hf2; [discriminate H|].
    cbn [warc_read_all] in H.
    destruct (warc_read rstate1 rread1 fuel1 rs1 ov1) as [r rs1' ov1'| |?] eqn:ER; try discriminate H.
    - destruct (warc_read_all rstate1 rread1 n1 fuel1 rs1' ov1') as [l|? ?] eqn:EA; try discriminate H.
      injection H as E. subst recs.
      destruct (warc_read_agree fuel1 rs1 ov1 r rs1' ov1' Hi1 ER fuel2 rs2 ov2 Hi2 HS Hal Hf2)
        as [rs2' [ov2' [D1 [D2 [D3 [D4 D5]]]]]].
      destruct n2 as [|n2]; [simpl in Hn2; lia|]. cbn [warc_read_all]. rewrite D1.
      assert (Hlen : (length (ov1' ++ rem1 rs1') <= length (ov1 ++ rem1 rs1))%nat).
      { rewrite <- D5. rewrite (app_length r). lia. }
      rewrite (IH fuel1 rs1' ov1' l D4 EA n2 fuel2 rs2' ov2' D3 D2); [reflexivity|lia|simpl in Hn2; lia|lia].
    - injection H as E. subst recs.
      pose proof (warc_read_conserve rstate1 rread1 rem1 rinv1 spec1 fuel1 rs1 ov1 Hi1) as HC. rewrite ER in HC.
      destruct HC as [HC1 HC2]. rewrite HC1, HC2 in HS. apply app_eq_nil in HS. destruct HS as [HS1 HS2].
      destruct n2 as [|n2]; [simpl in Hn2; lia|]. cbn [warc_read_all].
      rewrite (warc_read_end_agree fuel2 rs2 ov2 Hi2 HS1 HS2); [reflexivity|lia].
  Qed.
End Two.
