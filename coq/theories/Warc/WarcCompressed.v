(* C17 over compressed input: WARCReader on top of ReadCompressed on top of an
   abstract codec obeying the C15 contract.  The byte source of the WARC model is
   instantiated with C15's [rd]; its ghost "bytes not yet delivered" (which is not
   a function of the codec state) is carried next to the reader state. *)
From PP Require Import Warc.WarcDefs Warc.WarcProofs Compress.CompressDefs Compress.CompressProofs.
From Coq Require Import Lia.
Local Open Scope Z_scope.

Section Compressed.
  Variables world dstate : Type.
  Variable dnew : world -> kind -> dstate * world.
  Variable dcall : kind -> dstate -> Z -> list Z -> N -> cres dstate.
  Variable member : kind -> list Z -> list Z -> Prop.
  Variable DInv : kind -> dstate -> list Z -> list Z -> Prop.
  Variable dstall : dstate -> nat.
  Hypothesis member_magic : forall k m p, member k m p -> starts_with (magic_of k) m = true.
  Hypothesis dnew_inv : forall w k m p, member k m p -> DInv k (fst (dnew w k)) m p.
  Hypothesis dcall_spec : dcall_contract dstate dcall DInv dstall.

  (* inner fuel of ReadStream::Read *)
  Variable rfuel : nat.

  Definition gstate : Type := (rstate world dstate * list Z)%type.

  (* reader_.Read(buf, n) = internal_->Read: C15's model; the ghost follows the output *)
  Definition gread (sg : gstate) (n : N) : option (list Z * gstate) :=
    match rd world dstate dnew dcall rfuel (fst sg) n with
    | ROk _ _ out s' => Some (out, (s', dropN (len out) (snd sg)))
    | RErr _ _ _ => None
    end.
  Definition grem (sg : gstate) : list Z := snd sg.
  Definition ginv (sg : gstate) : Prop :=
    exists mu, good world dstate member DInv (fst sg) (snd sg) mu /\ (mu < rfuel)%nat.

  Lemma gread_contract : rread_contract gstate gread grem ginv.
  Proof.
    intros [s pay] n [mu [Hg Hmu]] Hn. simpl in Hg.
    destruct (rd_good world dstate dnew dcall member DInv dstall member_magic dnew_inv dcall_spec
                      rfuel s pay mu n Hg Hn Hmu) as [out [s' [pay' [mu' [HR [Hp [Hg' [Hm [Hl He]]]]]]]]].
    exists out, (s', dropN (len out) pay). unfold gread. simpl fst. simpl snd. rewrite HR.
    assert (Hd : dropN (len out) pay = pay') by (rewrite Hp; apply dropN_app_len).
    split; [reflexivity|]. unfold grem. simpl. rewrite Hd.
    split; [exact Hp|]. split; [exact Hl|]. split; [exact He|].
    exists mu'. simpl. split; [exact Hg'|lia].
  Qed.

  (* a file of gzip / bzip2 / xz members (any mix, any member boundaries, any
     fragmentation f) whose payloads concatenate to well-formed WARC records is read
     as exactly those records *)
  Theorem warc_compressed_exact_proof : forall (f : frags) (w : world) raw recs n fuel,
    mstream member raw (concat recs) -> fbytes f = raw -> Forall wf_record recs ->
    (2 * length raw < rfuel)%nat -> (length recs < n)%nat -> (length (concat recs) + 1 < fuel)%nat ->
    exists s0, rc_open world dstate dnew f w = Some s0 /\
      warc_read_all gstate gread n fuel (s0, concat recs) [] = AllOk recs.
  Proof.
    intros f w raw recs n fuel Hms Hf Hwf Hrf Hn Hfu.
    destruct (factory_good world dstate dnew member DInv member_magic dnew_inv f w [] raw (concat recs) false)
      as [rdr [f1 [w1 [mu [HF [Hg Hmu]]]]]]; auto.
    exists (mkr world dstate f1 w1 rdr). split.
    - unfold rc_open. rewrite HF. reflexivity.
    - apply (records_exact_proof gstate gread grem ginv gread_contract); auto.
      exists mu. simpl. split; [exact Hg|lia].
  Qed.
End Compressed.
