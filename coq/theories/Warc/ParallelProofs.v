From PP Require Import Warc.ParallelDefs.
From Coq Require Import Permutation Lia.

Definition pall (s : pstate) : list rec :=
  concat (p_inputs s) ++ p_queue s ++ concat (p_flight s) ++ p_out s.

Lemma concat_set_nth_cons {A} (l : list (list A)) : forall i r rest,
  nth i l [] = r :: rest -> Permutation (r :: concat (set_nth l i rest)) (concat l).
Proof.
  induction l as [|x l IH]; intros i r rest H.
  - destruct i; discriminate.
  - destruct i as [|i]; simpl in *.
    + subst x. simpl. reflexivity.
    + specialize (IH i r rest H).
      apply Permutation_trans with (x ++ r :: concat (set_nth l i rest)).
      * apply Permutation_middle.
      * apply Permutation_app_head. exact IH.
Qed.

Lemma concat_set_nth_snoc {A} (l : list (list A)) : forall i r, (i < length l)%nat ->
  Permutation (concat (set_nth l i (nth i l [] ++ [r]))) (r :: concat l).
Proof.
  induction l as [|x l IH]; intros i r H; [simpl in H; lia|].
  destruct i as [|i]; simpl in *.
  - rewrite <- app_assoc. simpl. apply Permutation_sym. apply Permutation_middle.
  - apply Permutation_trans with (x ++ r :: concat l).
    + apply Permutation_app_head. apply IH. lia.
    + apply Permutation_sym. apply Permutation_middle.
Qed.

Lemma pstep_perm s a : Permutation (pall (pstep s a)) (pall s).
Proof.
  unfold pall. destruct a as [i|w|w]; simpl.
  - destruct (nth i (p_inputs s) []) as [|r rest] eqn:E; [reflexivity|]. simpl.
    pose proof (concat_set_nth_cons (p_inputs s) i r rest E) as HP.
    rewrite <- !app_assoc. simpl.
    apply Permutation_trans with (r :: concat (set_nth (p_inputs s) i rest) ++ p_queue s ++ concat (p_flight s) ++ p_out s).
    + rewrite !app_assoc. rewrite <- !app_assoc.
      apply Permutation_sym.
      apply Permutation_trans with (concat (set_nth (p_inputs s) i rest) ++ r :: p_queue s ++ concat (p_flight s) ++ p_out s).
      * apply Permutation_middle.
      * apply Permutation_app_head.
        apply Permutation_trans with (p_queue s ++ r :: concat (p_flight s) ++ p_out s).
        -- apply Permutation_middle.
        -- reflexivity.
    + change (r :: concat (set_nth (p_inputs s) i rest) ++ p_queue s ++ concat (p_flight s) ++ p_out s)
        with ((r :: concat (set_nth (p_inputs s) i rest)) ++ p_queue s ++ concat (p_flight s) ++ p_out s).
      apply Permutation_app_tail. exact HP.
  - destruct (p_queue s) as [|r q] eqn:E; [rewrite E; reflexivity|].
    destruct (Nat.ltb w (length (p_flight s))) eqn:EW; [|rewrite E; reflexivity].
    apply PeanoNat.Nat.ltb_lt in EW. simpl.
    apply Permutation_app_head.
    pose proof (concat_set_nth_snoc (p_flight s) w r EW) as HP.
    apply Permutation_trans with (q ++ (r :: concat (p_flight s)) ++ p_out s).
    + apply Permutation_app_head. apply Permutation_app_tail. exact HP.
    + simpl. apply Permutation_sym. apply Permutation_middle.
  - destruct (nth w (p_flight s) []) as [|r rest] eqn:E; [reflexivity|]. simpl.
    pose proof (concat_set_nth_cons (p_flight s) w r rest E) as HP.
    apply Permutation_app_head. apply Permutation_app_head.
    apply Permutation_trans with (r :: concat (set_nth (p_flight s) w rest) ++ p_out s).
    + rewrite app_assoc. apply Permutation_sym.
      apply Permutation_trans with ((concat (set_nth (p_flight s) w rest) ++ p_out s) ++ [r]).
      * apply Permutation_cons_append.
      * rewrite <- app_assoc. reflexivity.
    + change (r :: concat (set_nth (p_flight s) w rest) ++ p_out s) with ((r :: concat (set_nth (p_flight s) w rest)) ++ p_out s).
      apply Permutation_app_tail. exact HP.
Qed.

Lemma prun_perm sched : forall s, Permutation (pall (prun s sched)) (pall s).
Proof.
  induction sched as [|a sched IH]; intros s; [reflexivity|].
  simpl. eapply Permutation_trans; [apply IH|apply pstep_perm].
Qed.

Lemma concat_all_nil {A} (l : list (list A)) : Forall (fun x => x = []) l -> concat l = [].
Proof. intros H. induction H as [|x l Hx H IH]; [reflexivity|]. subst. simpl. exact IH. Qed.

Lemma concat_repeat_nil {A} n : concat (repeat (@nil A) n) = [].
Proof. induction n; simpl; auto. Qed.

Lemma pall_init inputs jobs : pall (pinit inputs jobs) = concat inputs.
Proof. unfold pall, pinit. simpl. rewrite concat_repeat_nil. simpl. apply app_nil_r. Qed.

(* every record of every input is emitted exactly once, whatever the schedule,
   the number of workers and the number of inputs; stdout is a concatenation of
   whole records (emission is atomic under the mutex) *)
Theorem parallel_exactly_once inputs jobs sched :
  pdone (prun (pinit inputs jobs) sched) ->
  Permutation (p_out (prun (pinit inputs jobs) sched)) (concat inputs) /\
  pbytes (prun (pinit inputs jobs) sched) = concat (p_out (prun (pinit inputs jobs) sched)).
Proof.
  intros [H1 [H2 H3]]. split; [|reflexivity].
  pose proof (prun_perm sched (pinit inputs jobs)) as HP.
  rewrite pall_init in HP.
  unfold pall in HP. rewrite (concat_all_nil _ H1), H2, (concat_all_nil _ H3) in HP.
  simpl in HP. exact HP.
Qed.

(* nothing is ever emitted that was not read, and nothing twice, at any time *)
Theorem parallel_never_invents inputs jobs sched :
  exists rest, Permutation (p_out (prun (pinit inputs jobs) sched) ++ rest) (concat inputs).
Proof.
  pose proof (prun_perm sched (pinit inputs jobs)) as HP.
  rewrite pall_init in HP.
  set (s := prun (pinit inputs jobs) sched) in *.
  exists (concat (p_inputs s) ++ p_queue s ++ concat (p_flight s)).
  unfold pall in HP.
  eapply Permutation_trans; [apply Permutation_app_comm|].
  rewrite <- !app_assoc. exact HP.
Qed.

(* one input and one worker: the order is kept too *)
Definition pordered (s : pstate) : list rec :=
  p_out s ++ nth 0 (p_flight s) [] ++ p_queue s ++ nth 0 (p_inputs s) [].

Lemma pstep_ordered s a : length (p_inputs s) = 1%nat -> length (p_flight s) = 1%nat ->
  pordered (pstep s a) = pordered s /\ length (p_inputs (pstep s a)) = 1%nat /\ length (p_flight (pstep s a)) = 1%nat.
Proof.
  intros Hi Hf. destruct s as [ins q fl out]. simpl in Hi, Hf.
  destruct ins as [|i0 [|? ?]]; try discriminate. destruct fl as [|f0 [|? ?]]; try discriminate.
  unfold pordered. destruct a as [i|w|w]; simpl.
  - destruct i as [|i].
    + simpl. destruct i0 as [|r rest]; [auto|]. simpl. rewrite <- !app_assoc. simpl. auto.
    + destruct i; simpl; auto.
  - destruct q as [|r q]; [auto|]. destruct w as [|w]; simpl; [|auto].
    rewrite <- !app_assoc. simpl. auto.
  - destruct w as [|w].
    + simpl. destruct f0 as [|r rest]; [auto|]. simpl. rewrite <- !app_assoc. simpl. auto.
    + destruct w; simpl; auto.
Qed.

Theorem parallel_single_worker_keeps_order input sched :
  pdone (prun (pinit [input] 1) sched) -> p_out (prun (pinit [input] 1) sched) = input.
Proof.
  intros [H1 [H2 H3]].
  assert (Hinv : forall sched s, length (p_inputs s) = 1%nat -> length (p_flight s) = 1%nat ->
            pordered (prun s sched) = pordered s /\ length (p_inputs (prun s sched)) = 1%nat /\ length (p_flight (prun s sched)) = 1%nat).
  { induction sched0 as [|a sched0 IH]; intros s Hi Hf; [simpl; auto|].
    simpl. destruct (pstep_ordered s a Hi Hf) as [E1 [E2 E3]].
    destruct (IH (pstep s a) E2 E3) as [F1 [F2 F3]]. rewrite F1, E1. auto. }
  destruct (Hinv sched (pinit [input] 1) eq_refl eq_refl) as [E [Li Lf]].
  set (s := prun (pinit [input] 1) sched) in *.
  unfold pordered in E. rewrite H2 in E.
  destruct (p_inputs s) as [|i0 [|? ?]]; try discriminate. destruct (p_flight s) as [|f0 [|? ?]]; try discriminate.
  inversion H1; subst. inversion H3; subst. simpl in E. rewrite !app_nil_r in E. exact E.
Qed.

(* ------------------------------------------------------------ the input side *)
From PP Require Import Warc.WarcDefs Warc.WarcProofs Compress.CompressDefs Compress.CompressProofs.

Lemma ptool_inputs_all read streams inputs :
  ptool_inputs read streams = Some inputs -> Forall2 (fun s r => read s = Some r) streams inputs.
Proof.
  revert inputs. induction streams as [|s streams IH]; intros inputs H; simpl in H.
  - inversion H. constructor.
  - destruct (read s) as [r|] eqn:E; [|discriminate].
    destruct (ptool_inputs read streams) as [l|]; [|discriminate].
    inversion H; subst. constructor; [exact E|apply IH; reflexivity].
Qed.

(* the reader of one plain input delivered in fragments f *)
Definition read_plain (n fuel : nat) (f : frags) : option (list rec) :=
  match warc_file n fuel f with
  | AllOk recs => Some recs
  | AllErr _ _ => None
  end.

(* a plain input that is read successfully IS the concatenation of the returned
   records, each ending in CR LF CR LF *)
Lemma warc_file_success_exact n fuel f recs :
  detect_magic (takeN kMagicSize (fbytes f)) = None ->
  warc_file n fuel f = AllOk recs ->
  concat recs = fbytes f /\ Forall ends_with_trailer recs.
Proof.
  intros Hd H. unfold warc_file, rc_open in H. rewrite read_factory_eq in H.
  unfold fact_header in H. change (len (@nil Z) <? kMagicSize)%N with true in H. cbv iota in H.
  change (kMagicSize - len (@nil Z))%N with kMagicSize in H.
  destruct (read_or_eof f kMagicSize) as [got f1] eqn:ER.
  apply read_or_eof_spec in ER. destruct ER as [Eg Ef].
  simpl app in H. rewrite <- Eg in Hd.
  destruct got as [|b got].
  - set (s0 := mkr unit unit f1 tt RComplete) in *.
    assert (L : len (takeN kMagicSize (fbytes f)) = 0%N) by (rewrite <- Eg; reflexivity).
    rewrite len_takeN in L.
    assert (Hc : fbytes f = []).
    { apply len_zero_nil. assert (0 < kMagicSize)%N by (vm_compute; reflexivity). lia. }
    assert (Hi0 : rc_inv s0).
    { unfold rc_inv, pgood, rc_rem, s0. simpl. split; [|reflexivity].
      rewrite Ef, Hc. apply dropN_all. rewrite len_nil. lia. }
    destruct (success_is_exact_proof (rstate unit unit) rc_read rc_rem rc_inv rc_read_contract n fuel s0 [] recs Hi0 H) as [H1 H2].
    split; [|exact H2]. rewrite H1, Hc. reflexivity.
  - rewrite Hd in H.
    set (s0 := mkr unit unit f1 tt (RHeader (b :: got))) in *.
    assert (Hi0 : rc_inv s0).
    { unfold rc_inv, pgood, rc_rem, s0. simpl. split; [discriminate|reflexivity]. }
    destruct (success_is_exact_proof (rstate unit unit) rc_read rc_rem rc_inv rc_read_contract n fuel s0 [] recs Hi0 H) as [H1 H2].
    split; [|exact H2]. rewrite H1. unfold rc_rem, s0. simpl.
    change (b :: got ++ fbytes f1) with ((b :: got) ++ fbytes f1). rewrite Eg, Ef. apply takeN_dropN.
Qed.

(* the tool can only complete normally when every input is, byte for byte, a
   concatenation of CR LF CR LF terminated records: an input cut inside a record
   (or with garbage between records) makes the tool fail, for every schedule *)
Theorem parallel_tool_inputs_exact n fuel (inputs_frags : list frags) jobs sched st :
  Forall (fun f => detect_magic (takeN kMagicSize (fbytes f)) = None) inputs_frags ->
  ptool (fun s => read_plain n fuel [s]) (map fbytes inputs_frags) jobs sched = Some st ->
  exists inputs, st = prun (pinit inputs jobs) sched /\
    Forall2 (fun f recs => concat recs = fbytes f /\ Forall ends_with_trailer recs) inputs_frags inputs.
Proof.
  intros Hd H. unfold ptool in H.
  destruct (ptool_inputs (fun s => read_plain n fuel [s]) (map fbytes inputs_frags)) as [inputs|] eqn:E; [|discriminate].
  inversion H; subst. exists inputs. split; [reflexivity|].
  apply ptool_inputs_all in E. clear H.
  revert inputs E. induction inputs_frags as [|f fs IH]; intros inputs E; simpl in E; inversion E; subst; constructor.
  - unfold read_plain in H1. destruct (warc_file n fuel [fbytes f]) as [recs|e recs] eqn:EW; [|discriminate].
    inversion H1; subst.
    inversion Hd; subst.
    assert (Hfb : fbytes [fbytes f] = fbytes f) by (unfold fbytes; simpl; apply app_nil_r).
    destruct (warc_file_success_exact n fuel [fbytes f] y) as [Hc Ht]; [rewrite Hfb; assumption|exact EW|].
    rewrite Hfb in Hc. auto.
  - apply IH; [inversion Hd; assumption|assumption].
Qed.
