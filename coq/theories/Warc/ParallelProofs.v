From PP Require Import Warc.ParallelDefs.
From Coq Require Import Permutation Lia.

Definition pall (s : pstate) : list rec :=
  concat (p_inputs s) ++ p_queue s ++ concat (p_flight s) ++ p_out s.

Lemma concat_set_nth_cons {A} (l : list (list A)) : forall i r rest,
  nth i l [] = r :: rest -> Permutation (r :: concat (set_nth l i rest)) (concat l).
Proof.
  induction l as [|x l IH]; intros i r rest H.
  - destruct i; discriminate.
  - destruct i as [|i]; simpl in *.
    + subst x. simpl. reflexivity.
    + specialize (IH i r rest H).
      apply Permutation_trans with (x ++ r :: concat (set_nth l i rest)).
      * apply Permutation_middle.
      * apply Permutation_app_head. exact IH.
Qed.

Lemma concat_set_nth_snoc {A} (l : list (list A)) : forall i r, (i < length l)%nat ->
  Permutation (concat (set_nth l i (nth i l [] ++ [r]))) (r :: concat l).
Proof.
  induction l as [|x l IH]; intros i r H; [simpl in H; lia|].
  destruct i as [|i]; simpl in *.
  - rewrite <- app_assoc. simpl. apply Permutation_sym. apply Permutation_middle.
  - apply Permutation_trans with (x ++ r :: concat l).
    + apply Permutation_app_head. apply IH. lia.
    + apply Permutation_sym. apply Permutation_middle.
Qed.

Lemma pstep_perm s a : Permutation (pall (pstep s a)) (pall s).
Proof.
  unfold pall. destruct a as [i|w|w]; simpl.
  - destruct (nth i (p_inputs s) []) as [|r rest] eqn:E; [reflexivity|]. simpl.
    pose proof (concat_set_nth_cons (p_inputs s) i r rest E) as HP.
    rewrite <- !app_assoc. simpl.
    apply Permutation_trans with (r :: concat (set_nth (p_inputs s) i rest) ++ p_queue s ++ concat (p_flight s) ++ p_out s).
    + rewrite !app_assoc. rewrite <- !app_assoc.
      apply Permutation_sym.
      apply Permutation_trans with (concat (set_nth (p_inputs s) i rest) ++ r :: p_queue s ++ concat (p_flight s) ++ p_out s).
      * apply Permutation_middle.
      * apply Permutation_app_head.
        apply Permutation_trans with (p_queue s ++ r :: concat (p_flight s) ++ p_out s).
        -- apply Permutation_middle.
        -- reflexivity.
    + change (r :: concat (set_nth (p_inputs s) i rest) ++ p_queue s ++ concat (p_flight s) ++ p_out s)
        with ((r :: concat (set_nth (p_inputs s) i rest)) ++ p_queue s ++ concat (p_flight s) ++ p_out s).
      apply Permutation_app_tail. exact HP.
  - destruct (p_queue s) as [|r q] eqn:E; [rewrite E; reflexivity|].
    destruct (Nat.ltb w (length (p_flight s))) eqn:EW; [|rewrite E; reflexivity].
    apply PeanoNat.Nat.ltb_lt in EW. simpl.
    apply Permutation_app_head.
    pose proof (concat_set_nth_snoc (p_flight s) w r EW) as HP.
    apply Permutation_trans with (q ++ (r :: concat (p_flight s)) ++ p_out s).
    + apply Permutation_app_head. apply Permutation_app_tail. exact HP.
    + simpl. apply Permutation_sym. apply Permutation_middle.
  - destruct (nth w (p_flight s) []) as [|r rest] eqn:E; [reflexivity|]. simpl.
    pose proof (concat_set_nth_cons (p_flight s) w r rest E) as HP.
    apply Permutation_app_head. apply Permutation_app_head.
    apply Permutation_trans with (r :: concat (set_nth (p_flight s) w rest) ++ p_out s).
    + rewrite app_assoc. apply Permutation_sym.
      apply Permutation_trans with ((concat (set_nth (p_flight s) w rest) ++ p_out s) ++ [r]).
      * apply Permutation_cons_append.
      * rewrite <- app_assoc. reflexivity.
    + change (r :: concat (set_nth (p_flight s) w rest) ++ p_out s) with ((r :: concat (set_nth (p_flight s) w rest)) ++ p_out s).
      apply Permutation_app_tail. exact HP.
Qed.

Lemma prun_perm sched : forall s, Permutation (pall (prun s sched)) (pall s).
Proof.
  induction sched as [|a sched IH]; intros s; [reflexivity|].
  simpl. eapply Permutation_trans; [apply IH|apply pstep_perm].
Qed.

Lemma concat_all_nil {A} (l : list (list A)) : Forall (fun x => x = []) l -> concat l = [].
Proof. intros H. induction H as [|x l Hx H IH]; [reflexivity|]. subst. simpl. exact IH. Qed.

Lemma concat_repeat_nil {A} n : concat (repeat (@nil A) n) = [].
Proof. induction n; simpl; auto. Qed.

Lemma pall_init inputs jobs : pall (pinit inputs jobs) = concat inputs.
Proof. unfold pall, pinit. simpl. rewrite concat_repeat_nil. simpl. apply app_nil_r. Qed.

(* every record of every input is emitted exactly once, whatever the schedule,
   the number of workers and the number of inputs; stdout is a concatenation of
   whole records (emission is atomic under the mutex) *)
Theorem parallel_exactly_once inputs jobs sched :
  pdone (prun (pinit inputs jobs) sched) ->
  Permutation (p_out (prun (pinit inputs jobs) sched)) (concat inputs) /\
  pbytes (prun (pinit inputs jobs) sched) = concat (p_out (prun (pinit inputs jobs) sched)).
Proof.
  intros [H1 [H2 H3]]. split; [|reflexivity].
  pose proof (prun_perm sched (pinit inputs jobs)) as HP.
  rewrite pall_init in HP.
  unfold pall in HP. rewrite (concat_all_nil _ H1), H2, (concat_all_nil _ H3) in HP.
  simpl in HP. exact HP.
Qed.

(* nothing is ever emitted that was not read, and nothing twice, at any time *)
Theorem parallel_never_invents inputs jobs sched :
  exists rest, Permutation (p_out (prun (pinit inputs jobs) sched) ++ rest) (concat inputs).
Proof.
  pose proof (prun_perm sched (pinit inputs jobs)) as HP.
  rewrite pall_init in HP.
  set (s := prun (pinit inputs jobs) sched) in *.
  exists (concat (p_inputs s) ++ p_queue s ++ concat (p_flight s)).
  unfold pall in HP.
  eapply Permutation_trans; [apply Permutation_app_comm|].
  rewrite <- !app_assoc. exact HP.
Qed.

(* one input and one worker: the order is kept too *)
Definition pordered (s : pstate) : list rec :=
  p_out s ++ nth 0 (p_flight s) [] ++ p_queue s ++ nth 0 (p_inputs s) [].

Lemma pstep_ordered s a : length (p_inputs s) = 1%nat -> length (p_flight s) = 1%nat ->
  pordered (pstep s a) = pordered s /\ length (p_inputs (pstep s a)) = 1%nat /\ length (p_flight (pstep s a)) = 1%nat.
Proof.
  intros Hi Hf. destruct s as [ins q fl out]. simpl in Hi, Hf.
  destruct ins as [|i0 [|? ?]]; try discriminate. destruct fl as [|f0 [|? ?]]; try discriminate.
  unfold pordered. destruct a as [i|w|w]; simpl.
  - destruct i as [|i].
    + simpl. destruct i0 as [|r rest]; [auto|]. simpl. rewrite <- !app_assoc. simpl. auto.
    + destruct i; simpl; auto.
  - destruct q as [|r q]; [auto|]. destruct w as [|w]; simpl; [|auto].
    rewrite <- !app_assoc. simpl. auto.
  - destruct w as [|w].
    + simpl. destruct f0 as [|r rest]; [auto|]. simpl. rewrite <- !app_assoc. simpl. auto.
    + destruct w; simpl; auto.
Qed.

Theorem parallel_single_worker_keeps_order input sched :
  pdone (prun (pinit [input] 1) sched) -> p_out (prun (pinit [input] 1) sched) = input.
Proof.
  intros [H1 [H2 H3]].
  assert (Hinv : forall sched s, length (p_inputs s) = 1%nat -> length (p_flight s) = 1%nat ->
            pordered (prun s sched) = pordered s /\ length (p_inputs (prun s sched)) = 1%nat /\ length (p_flight (prun s sched)) = 1%nat).
  { induction sched0 as [|a sched0 IH]; intros s Hi Hf; [simpl; auto|].
    simpl. destruct (pstep_ordered s a Hi Hf) as [E1 [E2 E3]].
    destruct (IH (pstep s a) E2 E3) as [F1 [F2 F3]]. rewrite F1, E1. auto. }
  destruct (Hinv sched (pinit [input] 1) eq_refl eq_refl) as [E [Li Lf]].
  set (s := prun (pinit [input] 1) sched) in *.
  unfold pordered in E. rewrite H2 in E.
  destruct (p_inputs s) as [|i0 [|? ?]]; try discriminate. destruct (p_flight s) as [|f0 [|? ?]]; try discriminate.
  inversion H1; subst. inversion H3; subst. simpl in E. rewrite !app_nil_r in E. exact E.
Qed.
