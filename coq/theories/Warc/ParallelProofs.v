(* Proofs about the transition system of Warc/ParallelDefs.v (warc_parallel). *)
From PP Require Import Warc.ParallelDefs.
From Coq Require Import Permutation Lia.

(* ------------------------------------------------------------ lists *)
Definition sumf {A} (f : A -> nat) (l : list A) : nat := list_sum (map f l).

Lemma sumf_nil {A} (f : A -> nat) : sumf f [] = 0.
Proof. reflexivity. Qed.
Lemma sumf_cons {A} (f : A -> nat) a l : sumf f (a :: l) = f a + sumf f l.
Proof. reflexivity. Qed.
Lemma sumf_app {A} (f : A -> nat) a b : sumf f (a ++ b) = sumf f a + sumf f b.
Proof. unfold sumf. rewrite map_app, list_sum_app. reflexivity. Qed.

Lemma set_nth_split {A} (l : list A) : forall i a, nth_error l i = Some a ->
  exists l1 l2, l = l1 ++ a :: l2 /\ forall x, set_nth l i x = l1 ++ x :: l2.
Proof.
  induction l as [|y l IH]; intros i a H; destruct i as [|i]; simpl in H; try discriminate.
  - inversion H; subst. exists [], l. split; reflexivity.
  - destruct (IH i a H) as [l1 [l2 [E Hs]]]. exists (y :: l1), l2. split.
    + simpl. rewrite <- E. reflexivity.
    + intros x. simpl. rewrite Hs. reflexivity.
Qed.

Lemma set_nth_length {A} (l : list A) : forall i x, length (set_nth l i x) = length l.
Proof. induction l as [|y l IH]; intros [|i] x; simpl; auto. Qed.

Lemma nth_error_mid {A} (l1 : list A) a l2 : nth_error (l1 ++ a :: l2) (length l1) = Some a.
Proof. induction l1; simpl; auto. Qed.

(* an element where the indicator f is 0 / positive *)
Lemma sumf_lt_length {A} (f : A -> nat) (l : list A) : sumf f l < length l ->
  exists i a, nth_error l i = Some a /\ f a = 0.
Proof.
  induction l as [|y l IH]; intros H; [cbn in H; lia|].
  rewrite sumf_cons in H. simpl in H. destruct (f y) eqn:E.
  - exists 0, y. auto.
  - destruct IH as [i [a [H1 H2]]]; [lia|]. exists (S i), a. auto.
Qed.

Lemma sumf_pos {A} (f : A -> nat) (l : list A) : 0 < sumf f l -> exists i a, nth_error l i = Some a /\ 0 < f a.
Proof.
  induction l as [|y l IH]; intros H; [cbn in H; lia|].
  rewrite sumf_cons in H. destruct (f y) eqn:E.
  - destruct IH as [i [a [H1 H2]]]; [lia|]. exists (S i), a. auto.
  - exists 0, y. split; [reflexivity|lia].
Qed.

Lemma sumf_full {A} (f : A -> nat) (l : list A) : (forall a, f a <= 1) -> sumf f l = length l ->
  forall a, In a l -> f a = 1.
Proof.
  intros Hf. induction l as [|y l IH]; intros H a Hin; [destruct Hin|].
  rewrite sumf_cons in H. simpl in H.
  assert (sumf f l <= length l).
  { clear - Hf. induction l as [|z l IH]; [cbn; lia|]. rewrite sumf_cons. simpl. specialize (Hf z). lia. }
  pose proof (Hf y). destruct Hin as [->|Hin]; [lia|]. apply IH; [lia|exact Hin].
Qed.

Lemma forallb_false_nth {A} (p : A -> bool) (l : list A) : forallb p l = false ->
  exists i a, nth_error l i = Some a /\ p a = false.
Proof.
  induction l as [|y l IH]; intros H; [discriminate|]. simpl in H.
  destruct (p y) eqn:E.
  - destruct (IH H) as [i [a [H1 H2]]]. exists (S i), a. auto.
  - exists 0, y. auto.
Qed.

Lemma repeat_snoc {A} (x : A) n : repeat x n ++ [x] = repeat x (S n).
Proof. simpl. rewrite repeat_cons. reflexivity. Qed.

Lemma sumf_repeat {A} (f : A -> nat) x n : sumf f (repeat x n) = n * f x.
Proof. induction n; [reflexivity|]. simpl repeat. rewrite sumf_cons, IHn. lia. Qed.

Lemma forallb_repeat {A} (p : A -> bool) x n : p x = true -> forallb p (repeat x n) = true.
Proof. intros H. induction n; simpl; [reflexivity|]. rewrite H, IHn. reflexivity. Qed.

(* ------------------------------------------------------------ taking a step apart *)
Ltac step_inv H :=
  unfold pstep, with_worker, wp_join_swaps, wp_out_locked in H; cbn [andb orb] in H;
  repeat (let E := fresh "E" in
          match type of H with
          | match ?x with _ => _ end = Some _ => destruct x eqn:E; try discriminate H
          end);
  match type of H with Some _ = Some ?y => injection H as H; first [subst y | idtac] end.

(* the worker list around the worker that moved *)
Ltac wsplit :=
  match goal with
  | E : nth_error ?l ?i = Some ?a |- _ =>
    let l1 := fresh "l1" in let l2 := fresh "l2" in let El := fresh "El" in let Hs := fresh "Hset" in
    destruct (set_nth_split l i a E) as [l1 [l2 [El Hs]]]; clear E; subst l; try rewrite !Hs in *; clear Hs
  end.

(* ------------------------------------------------------------ the protocol invariant *)
Definition nonempty (r : rec) : Prop := r <> [].
Definition ind_none (wk : worker) : nat := match w_in wk with None => 1 | Some _ => 0 end.
Definition nm (r : rec) : nat := if is_nil r then 1 else 0.

Lemma ind_none_none a b c d : ind_none (mkw None a b c d) = 1.
Proof. reflexivity. Qed.
Lemma ind_none_some r a b c d : ind_none (mkw (Some r) a b c d) = 0.
Proof. reflexivity. Qed.

(* the queue holds records first, end markers behind them *)
Fixpoint shape (l : list rec) : bool :=
  match l with
  | [] => true
  | r :: t => if is_nil r then forallb is_nil t else shape t
  end.

Lemma shape_snoc_any l r : sumf nm l = 0 -> shape (l ++ [r]) = true.
Proof.
  induction l as [|x l IH]; intros H; simpl.
  - destruct (is_nil r); reflexivity.
  - rewrite sumf_cons in H. unfold nm at 1 in H. destruct (is_nil x); [lia|]. apply IH. lia.
Qed.

Lemma forallb_nil_shape l : forallb is_nil l = true -> shape l = true.
Proof.
  induction l as [|x l IH]; intros H; [reflexivity|]. simpl in *.
  apply andb_true_iff in H. destruct H as [H1 H2]. rewrite H1. exact H2.
Qed.

Lemma shape_snoc_nil l : shape l = true -> shape (l ++ [[]]) = true.
Proof.
  induction l as [|x l IH]; intros H; [reflexivity|]. cbn [shape app] in *.
  destruct (is_nil x); [|apply IH; exact H].
  rewrite forallb_app. apply andb_true_iff. split; [exact H|reflexivity].
Qed.

Lemma readers_not_done (rd : list (list rec)) i r todo : nth_error rd i = Some (r :: todo) -> forallb is_nil rd = false.
Proof.
  revert i. induction rd as [|x rd IH]; intros [|i] H; simpl in H; try discriminate.
  - inversion H; subst. reflexivity.
  - simpl. rewrite (IH i H). apply andb_false_r.
Qed.

Lemma Forall_set_nth {A} (P : A -> Prop) (l : list A) : forall i x, Forall P l -> P x -> Forall P (set_nth l i x).
Proof.
  induction l as [|y l IH]; intros [|i] x H Hx; simpl; auto; inversion H; subst; constructor; auto.
Qed.

Lemma Forall_nth_error {A} (P : A -> Prop) (l : list A) i a : Forall P l -> nth_error l i = Some a -> P a.
Proof. intros H E. rewrite Forall_forall in H. apply H. eapply nth_error_In; eauto. Qed.

Definition wk_ok (wk : worker) : Prop :=
  (w_cdone wk = true -> w_in wk = None /\ w_pin wk = []) /\
  (w_out wk = ODone -> w_cdone wk = true /\ w_pout wk = []).

Record Inv (N cap : nat) (s : pstate) : Prop := mkInv {
  inv_len : length (p_workers s) = N;
  inv_shape : shape (p_live s) = true;
  inv_count : p_markers s + sumf nm (p_live s) + sumf ind_none (p_workers s) = N;
  inv_readers_done : p_markers s < N -> forallb is_nil (p_readers s) = true;
  inv_drained : 0 < sumf ind_none (p_workers s) -> forallb is_nil (p_live s) = true;
  inv_mstr : p_mstr s = [];
  inv_cap : length (p_live s) + length (p_free s) = cap;
  inv_rne : Forall (Forall nonempty) (p_readers s);
  inv_wk : Forall wk_ok (p_workers s) }.

Section Proofs.
  Variable enc : rec -> list Z.
  Notation pstep := (pstep enc).

  Lemma inv_init inputs N cap : Forall (Forall nonempty) inputs -> Inv N cap (pinit inputs N cap).
  Proof.
    intros H. constructor; unfold pinit; cbn [p_workers p_live p_markers p_readers p_mstr p_free].
    - apply repeat_length.
    - reflexivity.
    - rewrite sumf_repeat. cbn. lia.
    - lia.
    - rewrite sumf_repeat. cbn. lia.
    - reflexivity.
    - simpl. apply repeat_length.
    - exact H.
    - apply Forall_forall. intros wk Hin. apply repeat_spec in Hin. subst wk. split; simpl; intros; discriminate.
  Qed.

  Lemma sumf_set_nth {A} (f : A -> nat) (l : list A) i a x : nth_error l i = Some a ->
    sumf f (set_nth l i x) + f a = sumf f l + f x.
  Proof.
    intros E. destruct (set_nth_split l i a E) as [l1 [l2 [El Hs]]]. rewrite Hs, El.
    rewrite !sumf_app, !sumf_cons. lia.
  Qed.

  Lemma sumf_set_nth_ex {A} (f : A -> nat) (l : list A) i a : nth_error l i = Some a ->
    exists rest, sumf f l = rest + f a /\ forall x, sumf f (set_nth l i x) = rest + f x.
  Proof.
    intros E. destruct (set_nth_split l i a E) as [l1 [l2 [El Hs]]].
    exists (sumf f l1 + sumf f l2). split; [|intros x; rewrite Hs]; [rewrite El|]; rewrite !sumf_app, !sumf_cons; lia.
  Qed.

  Lemma Forall_set_nth_at {A} (P : A -> Prop) (l : list A) i a x : nth_error l i = Some a ->
    Forall P l -> (P a -> P x) -> Forall P (set_nth l i x).
  Proof.
    intros E H Hx. apply Forall_set_nth; [exact H|]. apply Hx. eapply Forall_nth_error; eauto.
  Qed.

  (* a step of a child or of an output thread: only that worker, the mutex, stdout and the history change *)
  Lemma inv_replace_worker N cap s w wk wk' mx so em :
    Inv N cap s -> nth_error (p_workers s) w = Some wk -> w_in wk' = w_in wk -> (wk_ok wk -> wk_ok wk') ->
    Inv N cap (mkp (p_readers s) (p_live s) (p_free s) (p_markers s) (p_mstr s) (set_nth (p_workers s) w wk') mx so em).
  Proof.
    intros [I1 I2 I3 I4 I5 I6 I7 I8 I9] E Hin Hok.
    assert (Hs : sumf ind_none (set_nth (p_workers s) w wk') = sumf ind_none (p_workers s)).
    { pose proof (sumf_set_nth ind_none _ _ _ wk' E) as HS. unfold ind_none at 2 4 in HS. rewrite Hin in HS. lia. }
    constructor; cbn [p_workers p_live p_markers p_readers p_mstr p_free]; auto.
    - rewrite set_nth_length. exact I1.
    - rewrite Hs. exact I3.
    - rewrite Hs. exact I5.
    - eapply Forall_set_nth_at; eauto.
  Qed.

  Lemma inv_step N cap s l s' : Inv N cap s -> pstep s l = Some s' -> Inv N cap s'.
  Proof.
    intros HI H. pose proof HI as [I1 I2 I3 I4 I5 I6 I7 I8 I9].
    destruct l as [i| |w|w|w].
    - (* a reader hands over its next record *)
      step_inv H.
      pose proof (readers_not_done _ _ _ _ E) as Hnd.
      assert (Hmk : p_markers s = N /\ sumf nm (p_live s) = 0 /\ sumf ind_none (p_workers s) = 0).
      { destruct (Nat.lt_ge_cases (p_markers s) N) as [L|L]; [rewrite (I4 L) in Hnd; discriminate|lia]. }
      destruct Hmk as [M1 [M2 M3]].
      assert (Hr : nonempty r).
      { pose proof (Forall_nth_error _ _ _ _ I8 E) as HF. inversion HF; assumption. }
      constructor; cbn [p_workers p_live p_markers p_readers p_mstr p_free]; auto.
      + apply shape_snoc_any. exact M2.
      + rewrite sumf_app, sumf_cons, sumf_nil. unfold nm at 2. destruct r; [congruence|]. simpl. lia.
      + lia.
      + lia.
      + rewrite app_length. simpl in *. lia.
      + eapply Forall_set_nth_at; eauto. intros HF. inversion HF; assumption.
    - (* Join queues an end marker *)
      step_inv H.
      constructor; cbn [p_workers p_live p_markers p_readers p_mstr p_free]; auto.
      + rewrite I6. apply shape_snoc_nil. exact I2.
      + rewrite I6, sumf_app, sumf_cons, sumf_nil. cbn. lia.
      + rewrite I6, forallb_app. intros Hd. apply andb_true_iff. split; [apply I5; exact Hd|reflexivity].
      + rewrite app_length. simpl in *. lia.
    - (* an input thread takes the next item *)
      step_inv H.
      assert (H0 : ind_none w0 = 0) by (unfold ind_none; rewrite E0; reflexivity).
      assert (HS : forall wk', sumf ind_none (set_nth (p_workers s) w wk') = sumf ind_none (p_workers s) + ind_none wk').
      { intros wk'. pose proof (sumf_set_nth ind_none _ _ _ wk' E) as X. rewrite H0 in X. lia. }
      assert (Hok0 : wk_ok w0) by (eapply Forall_nth_error; eauto).
      rewrite sumf_cons in I3. cbn [shape] in I2. unfold nm at 1 in I3.
      constructor; cbn [p_workers p_live p_markers p_readers p_mstr p_free]; auto.
      + rewrite set_nth_length. exact I1.
      + destruct (is_nil r0); [apply forallb_nil_shape; exact I2|exact I2].
      + rewrite HS. destruct (is_nil r0); [rewrite ind_none_none|rewrite ind_none_some]; lia.
      + rewrite HS. intros Hd. destruct (is_nil r0) eqn:En.
        * exact I2.
        * rewrite ind_none_some in Hd.
          assert (Hd' : 0 < sumf ind_none (p_workers s)) by lia.
          apply I5 in Hd'. cbn [forallb] in Hd'. rewrite En in Hd'. discriminate.
      + rewrite app_length. simpl in *. lia.
      + eapply Forall_set_nth_at; eauto. intros _. destruct Hok0 as [K1 K2].
        destruct (is_nil r0); split; simpl; try exact K2; intros Hc; apply K1 in Hc; destruct Hc as [Hc _]; congruence.
    - (* a child *)
      step_inv H.
      + eapply inv_replace_worker; eauto. intros [K1 K2]. split; simpl; auto.
        intros Ho. apply K2 in Ho. destruct Ho; congruence.
      + eapply inv_replace_worker; eauto. intros [K1 K2]. split; simpl; [discriminate|].
        intros Ho. apply K2 in Ho. destruct Ho; congruence.
    - (* an output thread *)
      step_inv H; (eapply inv_replace_worker; eauto; intros [K1 K2]; split; simpl; auto; try discriminate).
  Qed.

  (* ------------------------------------------------------------ the mutex keeps records apart *)
  Definition nwr (wk : worker) : nat := match w_out wk with OWrite _ _ => 1 | _ => 0 end.
  Definition wrest (wk : worker) : list Z := match w_out wk with OWrite _ rest => rest | _ => [] end.

  (* at most one output thread is writing, exactly when the mutex is held; what is on
     stdout plus what the writer still has to write is the encoding of the records begun *)
  Definition MInv (s : pstate) : Prop :=
    sumf nwr (p_workers s) = (if p_mutex s then 1 else 0) /\
    p_stdout s ++ concat (map wrest (p_workers s)) = concat (map enc (p_emitted s)).

  Lemma nwr0_wrest l : sumf nwr l = 0 -> concat (map wrest l) = [].
  Proof.
    induction l as [|wk l IH]; intros H; [reflexivity|]. rewrite sumf_cons in H.
    simpl. rewrite IH by lia. unfold nwr in H. unfold wrest. destruct (w_out wk); try reflexivity. lia.
  Qed.

  Lemma minv_same_out s w wk wk' rd lv fr mk ms :
    MInv s -> nth_error (p_workers s) w = Some wk -> w_out wk' = w_out wk ->
    MInv (mkp rd lv fr mk ms (set_nth (p_workers s) w wk') (p_mutex s) (p_stdout s) (p_emitted s)).
  Proof.
    intros [M1 M2] E Ho. destruct (set_nth_split _ _ _ E) as [l1 [l2 [El Hs]]].
    unfold MInv. cbn [p_workers p_mutex p_stdout p_emitted]. rewrite Hs. rewrite El in M1, M2.
    rewrite !sumf_app, !sumf_cons in *. rewrite !map_app in *. cbn [map] in *. rewrite !concat_app in *. cbn [concat] in *.
    unfold nwr at 2, wrest at 2. unfold nwr at 2 in M1. unfold wrest at 2 in M2. rewrite Ho. split; assumption.
  Qed.

  Lemma minv_step s l s' : MInv s -> pstep s l = Some s' -> MInv s'.
  Proof.
    intros HM H. destruct l as [i| |w|w|w].
    - step_inv H. exact HM.
    - step_inv H. exact HM.
    - step_inv H. eapply (minv_same_out s); eauto. destruct (is_nil r0); reflexivity.
    - step_inv H; eapply (minv_same_out s); eauto.
    - destruct HM as [M1 M2]. step_inv H;
        destruct (set_nth_split _ _ _ E) as [l1 [l2 [El Hs]]]; unfold MInv; cbn [p_workers p_mutex p_stdout p_emitted];
        rewrite Hs; rewrite El in M1, M2;
        rewrite !sumf_app, !sumf_cons in *; rewrite !map_app in *; cbn [map] in *; rewrite !concat_app in *; cbn [concat] in *;
        unfold nwr at 2, wrest at 2; unfold nwr at 2 in M1; unfold wrest at 2 in M2; rewrite E0 in M1, M2; cbn [w_out].
      + (* end of the child's output *) split; assumption.
      + (* a record read *) split; assumption.
      + (* the mutex is taken *)
        assert (Z1 : sumf nwr l1 = 0) by lia. assert (Z2 : sumf nwr l2 = 0) by lia.
        rewrite (nwr0_wrest _ Z1), (nwr0_wrest _ Z2) in *. split; [lia|].
        rewrite !app_nil_r in *. cbn [app] in *. rewrite M2. reflexivity.
      + (* the mutex is released *)
        destruct (p_mutex s); [|lia]. split; [lia|exact M2].
      + (* one byte *)
        destruct (p_mutex s); [|lia].
        assert (Z1 : sumf nwr l1 = 0) by lia. assert (Z2 : sumf nwr l2 = 0) by lia.
        rewrite (nwr0_wrest _ Z1), (nwr0_wrest _ Z2) in *. split; [lia|].
        rewrite <- M2. cbn [app]. rewrite !app_nil_r. rewrite <- app_assoc. reflexivity.
  Qed.

  (* ------------------------------------------------------------ no record is lost, invented or doubled *)
  Definition rec_eq_dec : forall a b : rec, {a = b} + {a <> b} := list_eq_dec Z.eq_dec.
  Definition cnt (x : rec) (l : list rec) : nat := count_occ rec_eq_dec l x.

  Lemma cnt_app x a b : cnt x (a ++ b) = cnt x a + cnt x b.
  Proof. apply count_occ_app. Qed.
  Lemma cnt_cons x r l : cnt x (r :: l) = cnt x [r] + cnt x l.
  Proof. change (r :: l) with ([r] ++ l). apply cnt_app. Qed.
  Lemma cnt_nil x : cnt x [] = 0.
  Proof. reflexivity. Qed.

  Definition is_rec (r : rec) : bool := negb (is_nil r).
  (* records a worker holds that have not reached the mutex yet *)
  Definition wrecs (wk : worker) : list rec :=
    w_pin wk ++ w_pout wk ++ match w_out wk with OLock r => [r] | _ => [] end.

  Definition CInv (inputs : list (list rec)) (s : pstate) : Prop :=
    forall x, cnt x (concat (p_readers s)) + cnt x (filter is_rec (p_live s)) +
              sumf (fun wk => cnt x (wrecs wk)) (p_workers s) + cnt x (p_emitted s) = cnt x (concat inputs).

  Lemma cnt_concat_set_nth x (rd : list (list rec)) i r todo : nth_error rd i = Some (r :: todo) ->
    cnt x (concat rd) = cnt x (concat (set_nth rd i todo)) + cnt x [r].
  Proof.
    intros E. destruct (set_nth_split _ _ _ E) as [l1 [l2 [El Hs]]]. rewrite Hs, El.
    rewrite !concat_app. cbn [concat]. rewrite !cnt_app. rewrite (cnt_cons x r todo). lia.
  Qed.

  Lemma cinv_step inputs N cap s l s' : Inv N cap s -> CInv inputs s -> pstep s l = Some s' -> CInv inputs s'.
  Proof.
    intros HI HC H x. specialize (HC x). pose proof HI as [I1 I2 I3 I4 I5 I6 I7 I8 I9].
    destruct l as [i| |w|w|w].
    - step_inv H. cbn [p_workers p_live p_readers p_emitted].
      assert (Hr : nonempty r).
      { pose proof (Forall_nth_error _ _ _ _ I8 E) as HF. inversion HF; assumption. }
      rewrite (cnt_concat_set_nth x _ _ _ _ E) in HC.
      rewrite filter_app, cnt_app. cbn [filter]. unfold is_rec at 2. destruct r; [congruence|]. cbn [is_nil negb]. lia.
    - step_inv H. cbn [p_workers p_live p_readers p_emitted].
      rewrite I6, filter_app, cnt_app. cbn. cbn in HC. lia.
    - step_inv H. cbn [p_workers p_live p_readers p_emitted].
      cbn [filter] in HC. unfold is_rec at 1 in HC.
      destruct (sumf_set_nth_ex (fun wk => cnt x (wrecs wk)) _ _ _ E) as [SR [R1 R2]].
      rewrite R1 in HC. rewrite R2. unfold wrecs in *.
      destruct (is_nil r0); cbn [negb w_pin w_pout w_out] in *.
      + lia.
      + rewrite !cnt_app in *. rewrite (cnt_cons x r0) in HC. lia.
    - step_inv H; cbn [p_workers p_live p_readers p_emitted];
        destruct (sumf_set_nth_ex (fun wk => cnt x (wrecs wk)) _ _ _ E) as [SR [R1 R2]];
        rewrite R1 in HC; rewrite R2; unfold wrecs in *; cbn [w_pin w_pout w_out] in *; rewrite E1 in HC;
        rewrite !cnt_app in *; rewrite ?cnt_nil in *.
      + lia.
      + match goal with E : w_pin _ = ?r :: ?t |- _ => rewrite (cnt_cons x r t) in HC end. lia.
    - step_inv H; cbn [p_workers p_live p_readers p_emitted];
        destruct (sumf_set_nth_ex (fun wk => cnt x (wrecs wk)) _ _ _ E) as [SR [R1 R2]];
        rewrite R1 in HC; rewrite R2; unfold wrecs in *; cbn [w_pin w_pout w_out] in *; rewrite E0 in HC;
        rewrite !cnt_app in *; rewrite ?cnt_nil in *.
      + rewrite E1 in HC. rewrite ?cnt_nil in *. lia.
      + rewrite E1 in HC. match goal with E : w_pout _ = ?r :: ?t |- _ => rewrite (cnt_cons x r t) in HC end. lia.
      + lia.
      + lia.
      + lia.
  Qed.

  (* ------------------------------------------------------------ every step uses up potential *)
  Definition c (r : rec) : nat := length (enc r).
  Definition opot (o : ostate) : nat :=
    match o with ODone => 0 | ORead => 1 | OLock r => 3 + c r | OWrite _ rest => 2 + length rest end.
  Definition wpot (wk : worker) : nat :=
    sumf (fun r => 4 + c r) (w_pin wk) + (if w_cdone wk then 0 else 1) + sumf (fun r => 3 + c r) (w_pout wk) + opot (w_out wk).
  Definition pmeasure (s : pstate) : nat :=
    sumf (sumf (fun r => 6 + c r)) (p_readers s) + sumf (fun r => 5 + c r) (p_live s) +
    p_markers s * (6 + c (p_mstr s)) + sumf wpot (p_workers s).

  Lemma pstep_decreases s l s' : pstep s l = Some s' -> pmeasure s' < pmeasure s.
  Proof.
    intros H. unfold pmeasure. destruct l as [i| |w|w|w].
    - step_inv H. cbn [p_workers p_live p_readers p_markers p_mstr].
      destruct (sumf_set_nth_ex (sumf (fun r => 6 + c r)) _ _ _ E) as [SR [R1 R2]].
      rewrite R1, R2. rewrite sumf_cons. rewrite sumf_app, sumf_cons, sumf_nil. lia.
    - step_inv H. cbn [p_workers p_live p_readers p_markers p_mstr].
      rewrite sumf_app, sumf_cons, sumf_nil. lia.
    - step_inv H. cbn [p_workers p_live p_readers p_markers p_mstr].
      destruct (sumf_set_nth_ex wpot _ _ _ E) as [SR [R1 R2]].
      rewrite R1, R2. rewrite sumf_cons. unfold wpot.
      destruct (is_nil r0); cbn [w_pin w_pout w_out w_cdone].
      + lia.
      + rewrite sumf_app, sumf_cons, sumf_nil. lia.
    - step_inv H; cbn [p_workers p_live p_readers p_markers p_mstr];
        destruct (sumf_set_nth_ex wpot _ _ _ E) as [SR [R1 R2]];
        rewrite R1, R2; unfold wpot; cbn [w_pin w_pout w_out w_cdone]; rewrite E0, E1.
      + cbn. lia.
      + rewrite sumf_cons, sumf_app, sumf_cons, sumf_nil. lia.
    - step_inv H; cbn [p_workers p_live p_readers p_markers p_mstr];
        destruct (sumf_set_nth_ex wpot _ _ _ E) as [SR [R1 R2]];
        rewrite R1, R2; unfold wpot; cbn [w_pin w_pout w_out w_cdone]; rewrite E0; cbn [opot].
      + rewrite E1, E2. cbn. lia.
      + rewrite E1. rewrite sumf_cons. lia.
      + unfold c. lia.
      + lia.
      + cbn [length]. lia.
  Qed.

  (* ------------------------------------------------------------ never stuck before the end *)
  Lemma enabled_LIn s w wk held r lv :
    nth_error (p_workers s) w = Some wk -> w_in wk = Some held -> p_live s = r :: lv -> exists s', pstep s (LIn w) = Some s'.
  Proof. intros E1 E2 E3. unfold ParallelDefs.pstep. rewrite E1, E2, E3. eexists; reflexivity. Qed.

  Lemma workers_with_input N cap s : Inv N cap s -> sumf ind_none (p_workers s) < N ->
    exists w wk held, nth_error (p_workers s) w = Some wk /\ w_in wk = Some held.
  Proof.
    intros HI H. rewrite <- (inv_len _ _ _ HI) in H. destruct (sumf_lt_length _ _ H) as [w [wk [E F]]].
    exists w, wk. unfold ind_none in F. destruct (w_in wk) as [h|]; [exists h; auto|discriminate].
  Qed.

  Theorem progress N cap s : 0 < N -> 0 < cap -> Inv N cap s -> MInv s -> pterminated s = false ->
    exists l s', pstep s l = Some s'.
  Proof.
    intros HN Hcap HI [M1 M2] HT. pose proof HI as [I1 I2 I3 I4 I5 I6 I7 I8 I9].
    destruct (forallb is_nil (p_readers s)) eqn:ER.
    2:{ (* some reader still has records: it can hand one over, or the queue is full and a worker can take one *)
      destruct (forallb_false_nth _ _ ER) as [i [todo [E1 E2]]].
      destruct todo as [|r todo]; [discriminate E2|].
      assert (Hmk : sumf ind_none (p_workers s) = 0).
      { destruct (Nat.lt_ge_cases (p_markers s) N) as [L|L]; [discriminate (I4 L)|lia]. }
      destruct (p_free s) as [|f fr] eqn:EF.
      - destruct (p_live s) as [|r0 lv] eqn:EL; [simpl in I7; lia|].
        destruct (workers_with_input N cap s HI) as [w [wk [held [F1 F2]]]]; [lia|].
        exists (LIn w). eapply enabled_LIn; eauto.
      - exists (LReader i). unfold ParallelDefs.pstep. rewrite E1, EF. eexists; reflexivity. }
    destruct (p_markers s) as [|k] eqn:EM.
    2:{ (* Join still has markers to queue *)
      destruct (p_free s) as [|f fr] eqn:EF.
      - destruct (p_live s) as [|r0 lv] eqn:EL; [simpl in I7; lia|].
        destruct (workers_with_input N cap s HI) as [w [wk [held [F1 F2]]]]; [lia|].
        exists (LIn w). eapply enabled_LIn; eauto.
      - exists LMain. unfold ParallelDefs.pstep. rewrite ER, EM, EF. eexists; reflexivity. }
    destruct (Nat.eq_dec (sumf ind_none (p_workers s)) N) as [ED|ED].
    2:{ (* an input thread is still running: its marker (or a record) is in the queue *)
      destruct (workers_with_input N cap s HI) as [w [wk [held [F1 F2]]]]; [lia|].
      destruct (p_live s) as [|r0 lv] eqn:EL.
      - rewrite sumf_nil in I3. lia.
      - exists (LIn w). eapply enabled_LIn; eauto. }
    (* every input thread has returned *)
    unfold pterminated in HT. rewrite ER, EM in HT. cbn [Nat.eqb andb] in HT.
    destruct (forallb_false_nth _ _ HT) as [w [wk [E1 E2]]].
    assert (Hin : w_in wk = None).
    { assert (F : ind_none wk = 1).
      { apply (sumf_full ind_none (p_workers s)).
        - intros a. unfold ind_none. destruct (w_in a); lia.
        - lia.
        - eapply nth_error_In; eauto. }
      unfold ind_none in F. destruct (w_in wk); [discriminate|reflexivity]. }
    destruct (w_cdone wk) eqn:EC.
    2:{ exists (LChild w). unfold ParallelDefs.pstep. rewrite E1, EC. destruct (w_pin wk); [rewrite Hin|]; eexists; reflexivity. }
    unfold wdone, in_done, out_done in E2. rewrite EC, Hin in E2. cbn [andb] in E2.
    destruct (w_out wk) as [|r|r rest|] eqn:EO; [| | |discriminate].
    - exists (LOut w). unfold ParallelDefs.pstep. rewrite E1, EO. destruct (w_pout wk); [rewrite EC|]; eexists; reflexivity.
    - destruct (p_mutex s) eqn:EX.
      + (* the mutex is held: its holder can write *)
        destruct (sumf_pos nwr (p_workers s)) as [j [wk' [G1 G2]]]; [lia|].
        unfold nwr in G2. destruct (w_out wk') as [| |r' rest'|] eqn:EO'; try lia.
        exists (LOut j). unfold ParallelDefs.pstep. rewrite G1, EO'. destruct rest'; eexists; reflexivity.
      + exists (LOut w). unfold ParallelDefs.pstep. rewrite E1, EO, EX. eexists; reflexivity.
    - exists (LOut w). unfold ParallelDefs.pstep. rewrite E1, EO. destruct rest; eexists; reflexivity.
  Qed.

  (* ------------------------------------------------------------ all reachable states *)
  Definition AllInv (inputs : list (list rec)) (N cap : nat) (s : pstate) : Prop :=
    Inv N cap s /\ MInv s /\ CInv inputs s.

  Lemma sumf_zero {A} (f : A -> nat) (l : list A) : (forall a, In a l -> f a = 0) -> sumf f l = 0.
  Proof.
    induction l as [|y l IH]; intros H; [reflexivity|]. rewrite sumf_cons, IH, (H y); auto.
    - left; reflexivity.
    - intros a Ha. apply H. right. exact Ha.
  Qed.

  Lemma all_init inputs N cap : Forall (Forall nonempty) inputs -> AllInv inputs N cap (pinit inputs N cap).
  Proof.
    intros H. split; [apply inv_init; exact H|]. split.
    - unfold MInv, pinit. cbn [p_workers p_mutex p_stdout p_emitted].
      assert (Z : sumf nwr (repeat worker0 N) = 0) by (rewrite sumf_repeat; cbn; lia).
      split; [exact Z|]. rewrite (nwr0_wrest _ Z). reflexivity.
    - intros x. unfold pinit. cbn [p_workers p_live p_readers p_emitted filter].
      rewrite sumf_repeat. cbn. lia.
  Qed.

  Lemma all_step inputs N cap s l s' : AllInv inputs N cap s -> pstep s l = Some s' -> AllInv inputs N cap s'.
  Proof.
    intros [H1 [H2 H3]] H. split; [eapply inv_step; eauto|]. split; [eapply minv_step; eauto|eapply cinv_step; eauto].
  Qed.

  Lemma all_reachable inputs N cap s : Forall (Forall nonempty) inputs ->
    reachable pstep (pinit inputs N cap) s -> AllInv inputs N cap s.
  Proof.
    intros H Hr. induction Hr as [|s l s' Hr IH Hs]; [apply all_init; exact H|eapply all_step; eauto].
  Qed.

  Lemma all_run inputs N cap ls : forall s s', AllInv inputs N cap s -> run pstep s ls = Some s' -> AllInv inputs N cap s'.
  Proof.
    induction ls as [|l ls IH]; intros s s' HA H; simpl in H.
    - inversion H; subst; exact HA.
    - destruct (pstep s l) as [s1|] eqn:E; [|discriminate]. eapply IH; [|exact H]. eapply all_step; eauto.
  Qed.

  (* ------------------------------------------------------------ at the end: every record once, whole *)
  Lemma all_nil_concat {A} (l : list (list A)) : forallb is_nil l = true -> concat l = [].
  Proof.
    induction l as [|x l IH]; intros H; [reflexivity|]. simpl in H. apply andb_true_iff in H. destruct H as [H1 H2].
    destruct x; [|discriminate]. simpl. apply IH. exact H2.
  Qed.

  Lemma all_nil_filter (l : list rec) : forallb is_nil l = true -> filter is_rec l = [].
  Proof.
    induction l as [|x l IH]; intros H; [reflexivity|]. simpl in H. apply andb_true_iff in H. destruct H as [H1 H2].
    simpl. unfold is_rec at 1. rewrite H1. simpl. apply IH. exact H2.
  Qed.

  Lemma sumf_In_le {A} (f : A -> nat) (l : list A) a : In a l -> f a <= sumf f l.
  Proof.
    induction l as [|y l IH]; intros H; [destruct H|]. rewrite sumf_cons. destruct H as [->|H]; [lia|]. specialize (IH H). lia.
  Qed.

  Theorem final_output inputs N cap s : 0 < N -> AllInv inputs N cap s -> pterminated s = true ->
    Permutation (p_emitted s) (concat inputs) /\ p_stdout s = concat (map enc (p_emitted s)) /\ p_mutex s = false.
  Proof.
    intros HN [HI [[M1 M2] HC]] HT. pose proof HI as [I1 I2 I3 I4 I5 I6 I7 I8 I9].
    unfold pterminated in HT. apply andb_true_iff in HT. destruct HT as [HT T3].
    apply andb_true_iff in HT. destruct HT as [T1 T2].
    rewrite forallb_forall in T3.
    assert (Hw : forall wk, In wk (p_workers s) -> w_in wk = None /\ w_out wk = ODone /\ wrecs wk = []).
    { intros wk Hin. specialize (T3 wk Hin). unfold wdone, in_done, out_done in T3.
      apply andb_true_iff in T3. destruct T3 as [T3 T5]. apply andb_true_iff in T3. destruct T3 as [T3 T4].
      pose proof (proj1 (Forall_forall _ _) I9 wk Hin) as [K1 K2].
      destruct (w_in wk); [discriminate|]. destruct (w_out wk) eqn:EO; try discriminate.
      split; [reflexivity|]. split; [reflexivity|].
      destruct (K1 T4) as [_ Kp]. destruct (K2 eq_refl) as [_ Ko]. unfold wrecs. rewrite Kp, Ko, EO. reflexivity. }
    assert (Z : sumf nwr (p_workers s) = 0).
    { apply sumf_zero. intros wk Hin. destruct (Hw wk Hin) as [_ [Ho _]]. unfold nwr. rewrite Ho. reflexivity. }
    assert (Hlive : forallb is_nil (p_live s) = true).
    { apply I5. destruct (p_workers s) as [|wk l] eqn:EW; [simpl in I1; lia|].
      pose proof (sumf_In_le ind_none (wk :: l) wk (or_introl eq_refl)) as Hle.
      destruct (Hw wk (or_introl eq_refl)) as [Hi _]. unfold ind_none at 1 in Hle. rewrite Hi in Hle. lia. }
    split; [|split].
    - apply (Permutation_count_occ rec_eq_dec). intros x. specialize (HC x).
      rewrite (all_nil_concat _ T1), (all_nil_filter _ Hlive) in HC.
      rewrite sumf_zero in HC.
      + unfold cnt in HC. simpl in HC. exact HC.
      + intros wk Hin. destruct (Hw wk Hin) as [_ [_ Hr]]. rewrite Hr. reflexivity.
    - rewrite (nwr0_wrest _ Z), app_nil_r in M2. exact M2.
    - rewrite Z in M1. destruct (p_mutex s); [discriminate|reflexivity].
  Qed.

  (* at every moment: nothing was begun that was not read, nothing twice; stdout is a
     prefix of the whole records begun so far, in the order the mutex was taken *)
  Lemma sumf_cnt_concat x (l : list worker) : sumf (fun wk => cnt x (wrecs wk)) l = cnt x (concat (map wrecs l)).
  Proof.
    induction l as [|wk l IH]; [reflexivity|]. rewrite sumf_cons, IH. simpl. rewrite cnt_app. reflexivity.
  Qed.

  Theorem safety inputs N cap s : AllInv inputs N cap s ->
    exists rest pending, Permutation (p_emitted s ++ rest) (concat inputs) /\
                         p_stdout s ++ pending = concat (map enc (p_emitted s)).
  Proof.
    intros [HI [[M1 M2] HC]].
    exists (concat (p_readers s) ++ filter is_rec (p_live s) ++ concat (map wrecs (p_workers s))), (concat (map wrest (p_workers s))).
    split; [|exact M2].
    apply (Permutation_count_occ rec_eq_dec). intros x. specialize (HC x).
    rewrite sumf_cnt_concat in HC. fold (cnt x (concat inputs)). fold (cnt x (p_emitted s ++ concat (p_readers s) ++ filter is_rec (p_live s) ++ concat (map wrecs (p_workers s)))).
    rewrite !cnt_app. lia.
  Qed.

  (* ------------------------------------------------------------ every schedule ends, and ends well *)
  Theorem runs_bounded ls s s' : run pstep s ls = Some s' -> length ls + pmeasure s' <= pmeasure s.
  Proof. apply (measure_bounds_run pstate plabel pstep pmeasure). intros a l b. apply pstep_decreases. Qed.

  Theorem complete_run inputs N cap ls s : 0 < N -> 0 < cap -> Forall (Forall nonempty) inputs ->
    run pstep (pinit inputs N cap) ls = Some s -> (forall l, pstep s l = None) ->
    pterminated s = true /\
    Permutation (p_emitted s) (concat inputs) /\ p_stdout s = concat (map enc (p_emitted s)).
  Proof.
    intros HN Hc Hne Hrun Hstuck.
    assert (HA : AllInv inputs N cap s) by (eapply all_run; [apply all_init; exact Hne|exact Hrun]).
    destruct (pterminated s) eqn:ET.
    - split; [reflexivity|]. destruct (final_output inputs N cap s HN HA ET) as [P1 [P2 _]]. auto.
    - exfalso. destruct HA as [HI [HM HC]].
      destruct (progress N cap s HN Hc HI HM ET) as [l [s' Hs]]. rewrite Hstuck in Hs. discriminate.
  Qed.

  (* the end is reachable from every reachable state: any schedule can be continued to it *)
  Theorem end_reachable inputs N cap : 0 < N -> 0 < cap ->
    forall n s, pmeasure s <= n -> AllInv inputs N cap s ->
    exists ls s', run pstep s ls = Some s' /\ pterminated s' = true.
  Proof.
    intros HN Hc. induction n as [|n IH]; intros s Hm HA; destruct (pterminated s) eqn:ET;
      try (exists [], s; split; [reflexivity|exact ET]).
    - destruct HA as [HI [HM HC]]. destruct (progress N cap s HN Hc HI HM ET) as [l [s' Hs]].
      apply pstep_decreases in Hs. lia.
    - pose proof HA as [HI [HM HC]]. destruct (progress N cap s HN Hc HI HM ET) as [l [s1 Hs]].
      destruct (IH s1) as [ls [s' [R T]]].
      + apply pstep_decreases in Hs. lia.
      + eapply all_step; eauto.
      + exists (l :: ls), s'. split; [simpl; rewrite Hs; exact R|exact T].
  Qed.
End Proofs.

(* ------------------------------------------------------------ one input, one worker: the order is kept *)
Section Order.
  Variable enc : rec -> list Z.
  Notation pstep := (pstep enc).

  Definition olock (wk : worker) : list rec := match w_out wk with OLock r => [r] | _ => [] end.

  (* begun ++ about to lock ++ child's stdout ++ child's stdin ++ queue ++ not yet read = the input *)
  Definition OInv (input : list rec) (s : pstate) : Prop :=
    exists wk todo, p_workers s = [wk] /\ p_readers s = [todo] /\
      p_emitted s ++ olock wk ++ w_pout wk ++ w_pin wk ++ filter is_rec (p_live s) ++ todo = input.

  Lemma oinv_step input cap s l s' : Inv 1 cap s -> OInv input s -> pstep s l = Some s' -> OInv input s'.
  Proof.
    intros HI [wk [todo [EW [ER HO]]]] H. pose proof HI as [I1 I2 I3 I4 I5 I6 I7 I8 I9].
    unfold OInv. destruct l as [i| |w|w|w].
    - step_inv H. cbn [p_workers p_live p_readers p_emitted]. rewrite ER in *.
      destruct i as [|i]; [|destruct i; discriminate E]. simpl in E. inversion E; subst todo. clear E.
      exists wk, l0. split; [exact EW|]. split; [reflexivity|].
      inversion I8 as [|? ? Hr _]; subst. inversion Hr as [|? ? Hr0 _]; subst.
      rewrite filter_app. cbn [filter]. unfold is_rec at 2. destruct r; [congruence|]. cbn [is_nil negb].
      try rewrite <- HO. rewrite <- !app_assoc. reflexivity.
    - step_inv H. cbn [p_workers p_live p_readers p_emitted].
      exists wk, todo. split; [exact EW|]. split; [exact ER|].
      rewrite I6, filter_app. cbn. rewrite app_nil_r. exact HO.
    - step_inv H. cbn [p_workers p_live p_readers p_emitted]. rewrite EW in *.
      destruct w as [|w]; [|destruct w; discriminate E]. simpl in E. inversion E; subst w0. clear E.
      cbn [filter] in HO. unfold is_rec at 1 in HO. cbn [set_nth].
      eexists; exists todo. split; [reflexivity|]. split; [exact ER|].
      destruct (is_nil r0); cbn [negb w_pin w_pout w_out olock] in *; unfold olock in *; cbn [w_out].
      + exact HO.
      + rewrite <- HO. rewrite <- !app_assoc. reflexivity.
    - step_inv H; cbn [p_workers p_live p_readers p_emitted]; rewrite EW in *;
        (destruct w as [|w]; [|destruct w; discriminate E]); simpl in E; inversion E; subst w0; clear E; cbn [set_nth];
        eexists; exists todo; (split; [reflexivity|]); (split; [exact ER|]); unfold olock in *; cbn [w_pin w_pout w_out].
      + rewrite E1 in HO. exact HO.
      + rewrite E1 in HO. rewrite <- HO. rewrite <- !app_assoc. reflexivity.
    - step_inv H; cbn [p_workers p_live p_readers p_emitted]; rewrite EW in *;
        (destruct w as [|w]; [|destruct w; discriminate E]); simpl in E; inversion E; subst w0; clear E; cbn [set_nth];
        eexists; exists todo; (split; [reflexivity|]); (split; [exact ER|]); unfold olock in *; cbn [w_pin w_pout w_out];
        rewrite E0 in HO.
      + rewrite E1 in HO. exact HO.
      + rewrite E1 in HO. rewrite <- HO. reflexivity.
      + rewrite <- HO. rewrite <- !app_assoc. reflexivity.
      + exact HO.
      + exact HO.
  Qed.

  Theorem single_worker_keeps_order input cap s : Forall nonempty input ->
    reachable pstep (pinit [input] 1 cap) s -> pterminated s = true -> p_emitted s = input.
  Proof.
    intros Hne Hr HT.
    assert (Hin : Forall (Forall nonempty) [input]) by (constructor; [exact Hne|constructor]).
    assert (HO : OInv input s).
    { clear HT. induction Hr as [|s l s' Hr IH Hs].
      - exists worker0, input. split; [reflexivity|]. split; [reflexivity|]. reflexivity.
      - eapply oinv_step; [|apply IH|exact Hs]. destruct (all_reachable enc [input] 1 cap s Hin Hr) as [X _]. exact X. }
    pose proof (all_reachable enc [input] 1 cap s Hin Hr) as [HI [HM HC]].
    destruct HO as [wk [todo [EW [ER HO]]]]. pose proof HI as [I1 I2 I3 I4 I5 I6 I7 I8 I9].
    unfold pterminated in HT. rewrite ER, EW in HT. cbn [forallb] in HT.
    apply andb_true_iff in HT. destruct HT as [HT T3]. apply andb_true_iff in HT. destruct HT as [T1 _].
    rewrite !andb_true_r in *. destruct todo; [|discriminate].
    unfold wdone, in_done, out_done in T3.
    apply andb_true_iff in T3. destruct T3 as [T3 T5]. apply andb_true_iff in T3. destruct T3 as [T3 T4].
    rewrite EW in I9, I5. pose proof (Forall_inv I9) as [K1 K2].
    destruct (w_in wk) eqn:Ei; [discriminate|]. destruct (w_out wk) eqn:EO; try discriminate.
    destruct (K1 T4) as [_ Kp]. destruct (K2 eq_refl) as [_ Ko].
    assert (Hl : forallb is_nil (p_live s) = true).
    { apply I5. rewrite sumf_cons. unfold ind_none at 1. rewrite Ei. lia. }
    unfold olock in HO. rewrite EO, Kp, Ko, (all_nil_filter _ Hl) in HO. simpl in HO. rewrite app_nil_r in HO. exact HO.
  Qed.
End Order.
(* ------------------------------------------------------------ the input side *)
From PP Require Import Warc.WarcDefs Warc.WarcProofs Compress.CompressDefs Compress.CompressProofs.

Lemma ptool_inputs_all read streams inputs :
  ptool_inputs read streams = Some inputs -> Forall2 (fun s r => read s = Some r) streams inputs.
Proof.
  revert inputs. induction streams as [|s streams IH]; intros inputs H; simpl in H.
  - inversion H. constructor.
  - destruct (read s) as [r|] eqn:E; [|discriminate].
    destruct (ptool_inputs read streams) as [l|]; [|discriminate].
    inversion H; subst. constructor; [exact E|apply IH; reflexivity].
Qed.

(* the reader of one plain input delivered in fragments f *)
Definition read_plain (n fuel : nat) (f : frags) : option (list rec) :=
  match warc_file n fuel f with
  | AllOk recs => Some recs
  | AllErr _ _ => None
  end.

(* a plain input that is read successfully IS the concatenation of the returned
   records, each ending in CR LF CR LF *)
Lemma warc_file_success_exact n fuel f recs :
  detect_magic (takeN kMagicSize (fbytes f)) = None ->
  warc_file n fuel f = AllOk recs ->
  concat recs = fbytes f /\ Forall ends_with_trailer recs.
Proof.
  intros Hd H. unfold warc_file, rc_open in H. rewrite read_factory_eq in H.
  unfold fact_header in H. change (len (@nil Z) <? kMagicSize)%N with true in H. cbv iota in H.
  change (kMagicSize - len (@nil Z))%N with kMagicSize in H.
  destruct (read_or_eof f kMagicSize) as [got f1] eqn:ER.
  apply read_or_eof_spec in ER. destruct ER as [Eg Ef].
  simpl app in H. rewrite <- Eg in Hd.
  destruct got as [|b got].
  - set (s0 := mkr unit unit f1 tt RComplete) in *.
    assert (L : len (takeN kMagicSize (fbytes f)) = 0%N) by (rewrite <- Eg; reflexivity).
    rewrite len_takeN in L.
    assert (Hc : fbytes f = []).
    { apply len_zero_nil. assert (0 < kMagicSize)%N by (vm_compute; reflexivity). lia. }
    assert (Hi0 : rc_inv s0).
    { unfold rc_inv, pgood, rc_rem, s0. simpl. split; [|reflexivity].
      rewrite Ef, Hc. apply dropN_all. rewrite len_nil. lia. }
    destruct (success_is_exact_proof (rstate unit unit) rc_read rc_rem rc_inv rc_read_contract n fuel s0 [] recs Hi0 H) as [H1 H2].
    split; [|exact H2]. rewrite H1, Hc. reflexivity.
  - rewrite Hd in H.
    set (s0 := mkr unit unit f1 tt (RHeader (b :: got))) in *.
    assert (Hi0 : rc_inv s0).
    { unfold rc_inv, pgood, rc_rem, s0. simpl. split; [discriminate|reflexivity]. }
    destruct (success_is_exact_proof (rstate unit unit) rc_read rc_rem rc_inv rc_read_contract n fuel s0 [] recs Hi0 H) as [H1 H2].
    split; [|exact H2]. rewrite H1. unfold rc_rem, s0. simpl.
    change (b :: got ++ fbytes f1) with ((b :: got) ++ fbytes f1). rewrite Eg, Ef. apply takeN_dropN.
Qed.

Lemma trailer_nonempty r : ends_with_trailer r -> nonempty r.
Proof. intros [x E]. unfold nonempty. intros H. subst r. apply app_eq_nil in H. destruct H as [_ H]. discriminate H. Qed.

(* the tool only gets as far as starting its threads when every input is, byte for
   byte, a concatenation of CR LF CR LF terminated records: an input cut inside a record
   (or with garbage between records) makes the tool fail, whatever -j.  The records the
   reader threads hand over are never empty, so none is taken for an end marker. *)
Theorem parallel_tool_inputs_exact n fuel (inputs_frags : list frags) jobs st :
  Forall (fun f => detect_magic (takeN kMagicSize (fbytes f)) = None) inputs_frags ->
  ptool (fun s => read_plain n fuel [s]) (map fbytes inputs_frags) jobs = Some st ->
  exists inputs, st = pinit inputs jobs jobs /\ Forall (Forall nonempty) inputs /\
    Forall2 (fun f recs => concat recs = fbytes f /\ Forall ends_with_trailer recs) inputs_frags inputs.
Proof.
  intros Hd H. unfold ptool in H.
  destruct (ptool_inputs (fun s => read_plain n fuel [s]) (map fbytes inputs_frags)) as [inputs|] eqn:E; [|discriminate].
  inversion H; subst. exists inputs. split; [reflexivity|].
  apply ptool_inputs_all in E. clear H.
  assert (F2 : Forall2 (fun f recs => concat recs = fbytes f /\ Forall ends_with_trailer recs) inputs_frags inputs).
  { revert inputs E. induction inputs_frags as [|f fs IH]; intros inputs E; simpl in E; inversion E; subst; constructor.
    - unfold read_plain in H1. destruct (warc_file n fuel [fbytes f]) as [recs|e recs] eqn:EW; [|discriminate].
      inversion H1; subst.
      inversion Hd; subst.
      assert (Hfb : fbytes [fbytes f] = fbytes f) by (unfold fbytes; simpl; apply app_nil_r).
      destruct (warc_file_success_exact n fuel [fbytes f] y) as [Hc Ht]; [rewrite Hfb; assumption|exact EW|].
      rewrite Hfb in Hc. auto.
    - apply IH; [inversion Hd; assumption|assumption]. }
  split; [|exact F2].
  clear -F2. induction F2 as [|f recs fs inputs [_ Ht] _ IH]; constructor; [|exact IH].
  eapply Forall_impl; [|exact Ht]. intros r. apply trailer_nonempty.
Qed.

(* ------------------------------------------------------------ -z: one gzip member per record *)
Theorem parallel_gzip_members :
  forall (world estate : Type) (enew : world -> kind -> estate * world)
         (ecall : kind -> estate -> Z -> list Z -> N -> cres estate)
         (member : kind -> list Z -> list Z -> Prop)
         (EInv : kind -> estate -> list Z -> list Z -> Prop) (epend : estate -> nat),
    (forall w k, EInv k (fst (enew w k)) [] []) ->
    ecall_run_contract estate ecall EInv epend ->
    ecall_finish_contract estate ecall member EInv epend ->
    forall (w : world) (enc : rec -> list Z),
      (forall r, exists f0, forall fuel, (f0 <= fuel)%nat -> gz_compress world estate enew ecall fuel w r = FileOk (enc r)) ->
      forall (inputs : list (list rec)) (N cap : nat) (ls : list plabel) (s : pstate),
        (0 < N)%nat -> (0 < cap)%nat -> Forall (Forall nonempty) inputs ->
        run (ParallelDefs.pstep enc) (pinit inputs N cap) ls = Some s -> (forall l, ParallelDefs.pstep enc s l = None) ->
        pterminated s = true /\
        exists perm, Permutation perm (concat inputs) /\ p_stdout s = concat (map enc perm) /\
                     Forall (fun r => member KGz (enc r) r) perm /\
                     kstream member KGz (p_stdout s) (concat perm).
Proof.
  intros world estate enew ecall member EInv epend He0 Hrun Hfin w enc Henc inputs N cap ls s HN Hc Hne Hr Hst.
  destruct (complete_run enc inputs N cap ls s HN Hc Hne Hr Hst) as [T [P1 P2]].
  split; [exact T|]. exists (p_emitted s). split; [exact P1|]. split; [exact P2|].
  assert (Hm : forall r, member KGz (enc r) r).
  { intros r. destruct (gzcompress_proof world estate enew ecall member EInv epend He0 Hrun Hfin w r) as [f1 [out [H1 H2]]].
    destruct (Henc r) as [f0 H0].
    specialize (H1 (Nat.max f0 f1) (Nat.le_max_r _ _)). specialize (H0 (Nat.max f0 f1) (Nat.le_max_l _ _)).
    rewrite H0 in H1. inversion H1; subst. exact H2. }
  split.
  - apply Forall_forall. intros r _. apply Hm.
  - rewrite P2. clear P1 P2. induction (p_emitted s) as [|r l IH]; simpl; [constructor|]. constructor; [apply Hm|exact IH].
Qed.
