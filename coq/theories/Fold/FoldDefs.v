(* Executable model of preprocess/foldfilter_main.cc (the scanner util::DecodeUTF8 it uses
   is in Fold/Utf8Scan.v): wrap_lines itself with the code's
   own variables, the DelimiterList hand-off (NUL-terminated strings), the
   collector's join and the whole tool for a line-preserving child.
   Positions are byte offsets (Z); size_t differences are wrapped with u64,
   the int32_t pos_first_delimiter with wrap32.  Model only -- no proofs. *)
From PP Require Export Base.Bytes Base.Lines Gen.Src_foldfilter Fold.Utf8Scan Unicode.Utf8Enc.
Local Open Scope Z_scope.

(* DecodeUTF8(line.data() + p, line.end(), &char_len) *)
Definition dec_at (line : list Z) (p : Z) : option (Z * Z) :=
  decode_utf8 (skipn (Z.to_nat p) line).

(* line.substr(pos, n) with StringPiece's clamping *)
Definition substr (line : list Z) (p n : Z) : list Z :=
  firstn (Z.to_nat n) (skipn (Z.to_nat p) line).

(* ---------- options ---------- *)
Record wopts := { w_width : Z; w_keep : bool; w_delims : list Z }.

(* find_delimiter: index of the first occurrence, None = not_found *)
Fixpoint find_delimiter (ds : list Z) (c : Z) : option nat :=
  match ds with
  | [] => None
  | d :: r => if d =? c then Some O else
      match find_delimiter r c with Some i => Some (S i) | None => None end
  end.

Definition is_delim (ds : list Z) (c : Z) : bool :=
  match find_delimiter ds c with Some _ => true | None => false end.

Fixpoint set_nth (i : nat) (v : Z) (l : list Z) : list Z :=
  match l, i with
  | [], _ => []
  | _ :: r, O => v :: r
  | x :: r, S j => x :: set_nth j v r
  end.

(* ---------- wrap_lines ---------- *)
Inductive wres :=
| WOk (pieces : list (list Z)) (delims : list (list Z))
| WBadUtf8          (* util::NotUTF8Exception escaped *)
| WFuel.            (* fuel exhausted: proved unreachable *)

Record wstate := {
  s_pos : Z;                  (* size_t pos *)
  s_last_cut : Z;             (* size_t pos_last_cut *)
  s_pds : list Z;             (* std::vector<size_t> pos_delimiters *)
  s_pfd : Z;                  (* int32_t pos_first_delimiter *)
  s_lines : list (list Z);    (* out_lines, reversed *)
  s_dels : list (list Z)      (* out_delimiters, reversed *)
}.

(* for (int32_t const &pos_delimiter : pos_delimiters)
     if (pos_delimiter > pos_last_cut) { pos_cut = pos_delimiter; break; }
   the element (size_t) is converted to a temporary int32_t, compared as size_t *)
Fixpoint lookback (pds : list Z) (last_cut dflt : Z) : Z :=
  match pds with
  | [] => dflt
  | e :: r => let pd := u64 (wrap32 e) in
              if pd >? last_cut then pd else lookback r last_cut dflt
  end.

Inductive peekres := PeekOk (cut_end : Z) | PeekBad | PeekFuel.

(* for (size_t pos_next = pos_cut_end; pos_cut_end < length; pos_cut_end = pos_next) {...} *)
Fixpoint peek (fuel : nat) (line : list Z) (o : wopts) (last_cut cut_end : Z) : peekres :=
  if cut_end <? Z.of_nat (length line) then
    if w_keep o && (u64 (cut_end - last_cut) >=? w_width o) then PeekOk cut_end
    else match dec_at line cut_end with
         | None => PeekBad
         | Some (c, n) =>
           if is_delim (w_delims o) c then
             (* a multi-byte delimiter that would be kept must not pass the width *)
             if w_keep o && (u64 (cut_end + n - last_cut) >? w_width o) then PeekOk cut_end
             else
             match fuel with
             | O => PeekFuel
             | S f => peek f line o last_cut (cut_end + n)
             end
           else PeekOk cut_end
         end
  else PeekOk cut_end.

Inductive stepres :=
| StScan (s : wstate)       (* `continue`: no break needed yet *)
| StCut (s : wstate)        (* a piece was emitted *)
| StDone (s : wstate)       (* pos >= length: loop left *)
| StBad
| StFuel.

(* one iteration of `while (pos < length)` *)
Definition step (line : list Z) (o : wopts) (s : wstate) : stepres :=
  let length := Z.of_nat (length line) in
  if s_pos s <? length then
    match dec_at line (s_pos s) with
    | None => StBad
    | Some (c, n) =>
      let pos := s_pos s + n in
      let '(pds, pfd) :=
        match find_delimiter (w_delims o) c with
        | Some i => (set_nth i (u64 (s_pfd s)) (s_pds s), s_pfd s)
        | None => (s_pds s, wrap32 pos)
        end in
      if u64 (pos - s_last_cut s) <? w_width o then
        StScan {| s_pos := pos; s_last_cut := s_last_cut s; s_pds := pds; s_pfd := pfd;
                  s_lines := s_lines s; s_dels := s_dels s |}
      else
        (* size_t pos_cut = pos; chop in front of a character that passes the
           width unless it is the only one of the piece (pos_char = s_pos s) *)
        let hard := if (u64 (pos - s_last_cut s) >? w_width o) && (s_pos s >? s_last_cut s)
                    then s_pos s else pos in
        let pos_cut := lookback pds (s_last_cut s) hard in
        match peek (List.length line) line o (s_last_cut s) pos_cut with
        | PeekBad => StBad
        | PeekFuel => StFuel
        | PeekOk cut_end =>
          let '(piece, del) :=
            if w_keep o then (substr line (s_last_cut s) (u64 (cut_end - s_last_cut s)), [])
            else (substr line (s_last_cut s) (u64 (pos_cut - s_last_cut s)),
                  substr line pos_cut (u64 (cut_end - pos_cut))) in
          StCut {| s_pos := cut_end; s_last_cut := cut_end; s_pds := pds; s_pfd := pfd;
                   s_lines := piece :: s_lines s; s_dels := del :: s_dels s |}
        end
    end
  else StDone s.

(* the loop `while (pos < length)`: [scan_loop] runs iterations until a piece is
   cut (then continues with k), [wrap_loop] counts the cuts; both fuels are
   bounded by the line length + 2 *)
Fixpoint scan_loop (line : list Z) (o : wopts) (k : wstate -> stepres) (f2 : nat) (s : wstate) : stepres :=
  match f2 with
  | O => StFuel
  | S f2' =>
    match step line o s with
    | StScan s' => scan_loop line o k f2' s'
    | StCut s' => k s'
    | r => r
    end
  end.

Fixpoint wrap_loop (n : nat) (line : list Z) (o : wopts) (f1 : nat) (s : wstate) : stepres :=
  match f1 with
  | O => StFuel
  | S f1' => scan_loop line o (wrap_loop n line o f1') n s
  end.

Definition init_state (o : wopts) : wstate :=
  {| s_pos := 0; s_last_cut := 0; s_pds := repeat 0 (List.length (w_delims o)); s_pfd := 0;
     s_lines := []; s_dels := [] |}.

Definition wrap_lines (line : list Z) (o : wopts) : wres :=
  let n := S (S (List.length line)) in
  match wrap_loop n line o n (init_state o) with
  | StDone s =>
    (* if (pos_last_cut < pos || pos == 0) push the trailing bit *)
    if (s_last_cut s <? s_pos s) || (s_pos s =? 0) then
      WOk (rev (substr line (s_last_cut s) (u64 (s_pos s - s_last_cut s)) :: s_lines s))
          (rev ([] :: s_dels s))
    else WOk (rev (s_lines s)) (rev (s_dels s))
  | StBad => WBadUtf8
  | _ => WFuel
  end.

(* ---------- the hand-off to the collector and the join ---------- *)

(* DelimiterList stores each delimiter run as a NUL-terminated string and reads
   it back with strlen: a run is cut at its first NUL byte *)
Fixpoint c_str (bs : list Z) : list Z :=
  match bs with
  | [] => []
  | b :: r => if b =? 0 then [] else b :: c_str r
  end.

(* collector: for each stored delimiter read one child line, append it, append the delimiter *)
Fixpoint join (answers : list (list Z)) (dels : list (list Z)) : option (list Z * list (list Z)) :=
  match dels with
  | [] => Some ([], answers)
  | d :: dr =>
    match answers with
    | [] => None                                (* child stopped producing *)
    | a :: ar =>
      match join ar dr with
      | Some (s, rest) => Some (a ++ c_str d ++ s, rest)
      | None => None
      end
    end
  end.

(* interleave pieces and withheld runs: what the input line must equal *)
Fixpoint interleave (ps ds : list (list Z)) : list Z :=
  match ps, ds with
  | p :: pr, d :: dr => p ++ d ++ interleave pr dr
  | _, _ => []
  end.

(* ---------- the whole tool with a line-preserving child ----------
   The child answers every line it is given with one line [g line] (no LF).
   [cr_in]/[cr_out]: whether the feeder's reader / the collector's reader strip
   one CR before LF (FilePiece::ReadLine's strip_cr argument). *)
Inductive tres := TOk (out : list Z) | TBadUtf8 | TFuel | TChildShort.

Definition cr_strip (cr : bool) (l : list Z) : list Z := if cr then strip_cr l else l.

Fixpoint tool_lines (o : wopts) (g : list Z -> list Z) (cr_out : bool) (ls : list (list Z)) : tres :=
  match ls with
  | [] => TOk []
  | l :: r =>
    match wrap_lines l o with
    | WBadUtf8 => TBadUtf8
    | WFuel => TFuel
    | WOk ps ds =>
      match join (map (fun p => cr_strip cr_out (g p)) ps) ds with
      | None => TChildShort
      | Some (s, _) =>
        match tool_lines o g cr_out r with
        | TOk out => TOk (s ++ [10] ++ out)
        | e => e
        end
      end
    end
  end.

Definition foldfilter (o : wopts) (g : list Z -> list Z) (cr_in cr_out : bool) (input : list Z) : tres :=
  tool_lines o g cr_out (records 10 cr_in input).

(* ---------- the data flow as it is: ONE stream to the child, ONE stream back ----------
   The feeder wraps every line, enqueues its withheld runs and writes its pieces, one per line,
   to the child; the collector takes, for each queue entry in order, as many answer lines from
   the child's output stream as the entry has runs.  The child is any function from the bytes
   it reads to the bytes it writes.  (Surplus child output after the last line is not noticed
   by foldfilter; too little is TChildShort.) *)
Inductive wares := WAOk (pieces : list (list Z)) (dels : list (list (list Z))) | WABad | WAFuel.

Fixpoint wrap_all (o : wopts) (ls : list (list Z)) : wares :=
  match ls with
  | [] => WAOk [] []
  | l :: r =>
    match wrap_lines l o with
    | WBadUtf8 => WABad
    | WFuel => WAFuel
    | WOk ps ds =>
      match wrap_all o r with
      | WAOk ps' dss => WAOk (ps ++ ps') (ds :: dss)
      | e => e
      end
    end
  end.

Fixpoint collect_lines (dss : list (list (list Z))) (answers : list (list Z)) : option (list (list Z)) :=
  match dss with
  | [] => Some []
  | ds :: r =>
    match join answers ds with
    | None => None
    | Some (s, rest) =>
      match collect_lines r rest with
      | Some out => Some (s :: out)
      | None => None
      end
    end
  end.

Definition foldfilter_stream (o : wopts) (child : list Z -> list Z) (cr_in cr_out : bool) (input : list Z) : tres :=
  match wrap_all o (records 10 cr_in input) with
  | WABad => TBadUtf8
  | WAFuel => TFuel
  | WAOk pieces dss =>
    match collect_lines dss (records 10 cr_out (child (unrecords 10 pieces))) with
    | None => TChildShort
    | Some out => TOk (unrecords 10 out)
    end
  end.

(* a child that answers every line l it reads with g l *)
Definition line_child (g : list Z -> list Z) (child_in : list Z) : list Z :=
  unrecords 10 (map g (records 10 false child_in)).

(* a child with memory: one answer line per line read, the i-th answer may depend on everything read
   (numbering, context, ...): given by its answer function on the list of all lines *)
Definition answers_child (A : list (list Z) -> list (list Z)) (child_in : list Z) : list Z :=
  unrecords 10 (A (records 10 false child_in)).

(* -w <num>: a non-empty string of decimal digits below 2^64 (what a size_t holds);
   anything else is a usage error.  None = usage error (exit status 1). *)
Fixpoint digits_value (acc : Z) (s : list Z) : option Z :=
  match s with
  | [] => Some acc
  | c :: r => if (48 <=? c) && (c <=? 57) then digits_value (acc * 10 + (c - 48)) r else None
  end.

Definition parse_width (s : list Z) : option Z :=
  match s with
  | [] => None
  | _ => match digits_value 0 s with
         | Some v => if v <? 18446744073709551616 then Some v else None
         | None => None
         end
  end.

Inductive cres := CUsage | CRun (r : tres).

(* foldfilter -w <wstr> [-s] -d <delims> child, as far as the width option goes *)
Definition foldfilter_cli (wstr : list Z) (keep : bool) (delims : list Z) (g : list Z -> list Z) (input : list Z) : cres :=
  match parse_width wstr with
  | None => CUsage
  | Some w => CRun (foldfilter {| w_width := w; w_keep := keep; w_delims := delims |} g
                               fold_feeder_strip_cr fold_collector_strip_cr input)
  end.

(* -d <str>: the code points of the argument in order (parse_delimiters: DecodeUTF8Range);
   None = the argument is not valid UTF-8 *)
Definition parse_delims (s : list Z) : option (list Z) := cps_of_utf8 s.

(* foldfilter -w <wstr> [-s] -d <dstr> child *)
Definition foldfilter_cli2 (wstr : list Z) (keep : bool) (dstr : list Z) (g : list Z -> list Z) (input : list Z) : cres :=
  match parse_width wstr, parse_delims dstr with
  | Some w, Some ds => CRun (foldfilter {| w_width := w; w_keep := keep; w_delims := ds |} g
                                        fold_feeder_strip_cr fold_collector_strip_cr input)
  | _, _ => CUsage
  end.

(* the tool as built: the two strip_cr settings are read from the source *)
Definition foldfilter_tool (o : wopts) (g : list Z -> list Z) (input : list Z) : tres :=
  foldfilter o g fold_feeder_strip_cr fold_collector_strip_cr input.

(* ---------- boolean checkers of the property (used as oracles on the
   implementation's output and in the theorems) ---------- *)

Fixpoint all_delims (fuel : nat) (ds : list Z) (bs : list Z) : bool :=
  match bs with
  | [] => true
  | _ =>
    match fuel with
    | O => false
    | S f =>
      match decode_utf8 bs with
      | None => false
      | Some (c, n) => is_delim ds c && all_delims f ds (skipn (Z.to_nat n) bs)
      end
    end
  end.

Definition width_ok (w : Z) (piece : list Z) : bool :=
  (Z.of_nat (length piece) <=? w) ||
  match count_cps (length piece) piece with Some 1%nat => true | _ => false end.

Definition check_wrap (line : list Z) (o : wopts) (ps ds : list (list Z)) : bool :=
  (Nat.eqb (length ps) (length ds)) && negb (Nat.eqb (length ps) 0)
  && forallb (fun x => Z.eqb (fst x) (snd x)) (combine (interleave ps ds) line)
  && Nat.eqb (length (interleave ps ds)) (length line)
  && forallb utf8_valid ps
  && forallb (fun d => all_delims (length d) (w_delims o) d) ds
  && (if w_keep o then forallb (fun d => match d with [] => true | _ => false end) ds else true)
  && forallb (width_ok (w_width o)) ps.
