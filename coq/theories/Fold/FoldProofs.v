(* Proofs about the foldfilter model (Fold/FoldDefs.v). *)
From PP Require Import Fold.FoldDefs.
Local Open Scope Z_scope.

Lemma wrap_empty_line o : wrap_lines [] o = WOk [[]] [[]].
Proof. reflexivity. Qed.
