(* Proofs about the foldfilter model (Fold/FoldDefs.v). *)
From PP Require Import Fold.FoldDefs.
From Coq Require Import ZifyBool.
Local Open Scope Z_scope.
Ltac Zify.zify_post_hook ::= Z.div_mod_to_equations.

Lemma wrap_empty_line o : wrap_lines [] o = WOk [[]] [[]].
Proof. reflexivity. Qed.

(* ================= the scanner: length and locality ================= *)

Ltac unfold_u8 :=
  unfold fu8_b1_lt, fu8_b1_len, fu8_b2_len, fu8_b2_leadmask, fu8_b2_leadval, fu8_b2_m0, fu8_b2_s0, fu8_b2_m1,
    fu8_b2_min, fu8_b2_mblen, fu8_b3_len, fu8_b3_leadmask, fu8_b3_leadval, fu8_b3_m0, fu8_b3_s0, fu8_b3_m1,
    fu8_b3_s1, fu8_b3_m2, fu8_b3_min, fu8_b3_mblen, fu8_b4_len, fu8_b4_leadmask, fu8_b4_leadval, fu8_b4_m0,
    fu8_b4_s0, fu8_b4_m1, fu8_b4_s1, fu8_b4_m2, fu8_b4_s2, fu8_b4_m3, fu8_b4_min, fu8_b4_mblen in *.

(* the number of bytes consumed is 1..4 and within the input *)
Lemma decode_len bs c n : decode_utf8 bs = Some (c, n) -> 1 <= n <= 4 /\ n <= Z.of_nat (length bs).
Proof.
  unfold decode_utf8. destruct bs as [|b0 r]; [discriminate|].
  unfold_u8. set (len := Z.of_nat (length (b0 :: r))).
  assert (1 <= len) by (unfold len; simpl length; lia).
  destruct (b0 <? 128); [intros E; inversion E; lia|].
  destruct ((2 <=? len) && (Z.land b0 224 =? 192)) eqn:C2.
  { destruct (_ && _ && _); intros E; inversion E. lia. }
  destruct ((3 <=? len) && (Z.land b0 240 =? 224)) eqn:C3.
  { destruct (_ && _ && _ && _); intros E; inversion E. lia. }
  destruct ((4 <=? len) && (Z.land b0 248 =? 240)) eqn:C4.
  { destruct (_ && _ && _ && _ && _); intros E; inversion E. lia. }
  discriminate.
Qed.

Lemma byte_at_firstn bs m j : (j < m)%nat -> byte_at (firstn m bs) j = byte_at bs j.
Proof.
  unfold byte_at. revert bs j. induction m as [|m IH]; intros bs j H; [lia|].
  destruct bs as [|b r]; [reflexivity|]. destruct j as [|j]; [reflexivity|].
  simpl. apply IH. lia.
Qed.

(* the result depends only on the bytes consumed *)
Lemma decode_local bs c n m : decode_utf8 bs = Some (c, n) -> (Z.to_nat n <= m)%nat ->
  decode_utf8 (firstn m bs) = Some (c, n).
Proof.
  intros H Hm. pose proof (decode_len bs c n H) as [Hn Hl].
  destruct m as [|m]; [lia|].
  unfold decode_utf8 in *. destruct bs as [|b0 r]; [discriminate|].
  change (firstn (S m) (b0 :: r)) with (b0 :: firstn m r).
  unfold_u8.
  set (len := Z.of_nat (length (b0 :: r))) in *.
  set (len' := Z.of_nat (length (b0 :: firstn m r))).
  assert (len' = Z.min (Z.of_nat (S m)) len) as El.
  { unfold len', len. simpl length. rewrite firstn_length. lia. }
  change (b0 :: firstn m r) with (firstn (S m) (b0 :: r)).
  destruct (b0 <? 128); [exact H|].
  destruct ((2 <=? len) && (Z.land b0 224 =? 192)) eqn:C2.
  { destruct (_ && _ && _) eqn:T in H; [|discriminate]. inversion H; subst.
    replace ((2 <=? len') && (Z.land b0 224 =? 192)) with true by lia.
    rewrite !byte_at_firstn by lia. rewrite T. reflexivity. }
  destruct ((3 <=? len) && (Z.land b0 240 =? 224)) eqn:C3.
  { destruct (_ && _ && _ && _) eqn:T in H; [|discriminate]. inversion H; subst.
    replace ((2 <=? len') && (Z.land b0 224 =? 192)) with false by lia.
    replace ((3 <=? len') && (Z.land b0 240 =? 224)) with true by lia.
    rewrite !byte_at_firstn by lia. rewrite T. reflexivity. }
  destruct ((4 <=? len) && (Z.land b0 248 =? 240)) eqn:C4.
  { destruct (_ && _ && _ && _ && _) eqn:T in H; [|discriminate]. inversion H; subst.
    replace ((2 <=? len') && (Z.land b0 224 =? 192)) with false by lia.
    replace ((3 <=? len') && (Z.land b0 240 =? 224)) with false by lia.
    replace ((4 <=? len') && (Z.land b0 248 =? 240)) with true by lia.
    rewrite !byte_at_firstn by lia. rewrite T. reflexivity. }
  discriminate.
Qed.

Lemma skipn_skipn' {A} (x y : nat) (l : list A) : skipn x (skipn y l) = skipn (y + x) l.
Proof.
  revert l. induction y as [|y IH]; intros l; [reflexivity|].
  destruct l as [|a l]; [destruct x; reflexivity|]. simpl. apply IH.
Qed.

Lemma firstn_plus {A} (n m : nat) (l : list A) : firstn (n + m) l = firstn n l ++ firstn m (skipn n l).
Proof.
  revert l. induction n as [|n IH]; intros l; [reflexivity|].
  destruct l as [|a l]; [destruct m; reflexivity|]. simpl. rewrite IH. reflexivity.
Qed.

Lemma count_cps_S f bs : bs <> [] ->
  count_cps (S f) bs =
  match decode_utf8 bs with
  | None => None
  | Some (_, n) => match count_cps f (skipn (Z.to_nat n) bs) with Some k => Some (S k) | None => None end
  end.
Proof. destruct bs; [congruence | reflexivity]. Qed.

Lemma all_delims_S f ds bs : bs <> [] ->
  all_delims (S f) ds bs =
  match decode_utf8 bs with
  | None => false
  | Some (c, n) => is_delim ds c && all_delims f ds (skipn (Z.to_nat n) bs)
  end.
Proof. destruct bs; [congruence | reflexivity]. Qed.

(* ================= code point boundaries of a line ================= *)
Section Line.
Variable line : list Z.
Let L := Z.of_nat (length line).

Lemma skipn_Z p q : 0 <= p -> 0 <= q ->
  skipn (Z.to_nat q) (skipn (Z.to_nat p) line) = skipn (Z.to_nat (p + q)) line.
Proof. intros. rewrite skipn_skipn'. f_equal. lia. Qed.

Lemma length_skipn_Z p : 0 <= p <= L -> Z.of_nat (length (skipn (Z.to_nat p) line)) = L - p.
Proof. intros. rewrite skipn_length. unfold L in *. lia. Qed.

Lemma dec_at_len p c n : 0 <= p <= L -> dec_at line p = Some (c, n) -> 1 <= n <= 4 /\ p + n <= L.
Proof.
  intros Hp H. unfold dec_at in H. apply decode_len in H. rewrite length_skipn_Z in H by exact Hp. lia.
Qed.

(* b is reached from a by decoding whole code points *)
Inductive Reach : Z -> Z -> Prop :=
| reach_refl a : Reach a a
| reach_step a c n b : 0 <= a < L -> dec_at line a = Some (c, n) -> Reach (a + n) b -> Reach a b.

Lemma reach_le a b : Reach a b -> a <= b.
Proof.
  induction 1 as [a | a c n b Ha Hd _ IH]; [lia|].
  pose proof (dec_at_len a c n ltac:(lia) Hd). lia.
Qed.

Lemma reach_trans a b c : Reach a b -> Reach b c -> Reach a c.
Proof. induction 1 as [a | a x n b Ha Hd _ IH]; intros H; [exact H|]. eapply reach_step; eauto. Qed.

Lemma reach_one a c n : 0 <= a < L -> dec_at line a = Some (c, n) -> Reach a (a + n).
Proof. intros. eapply reach_step; eauto. apply reach_refl. Qed.

(* the chain is linear *)
Lemma reach_linear a b c : Reach a b -> Reach a c -> b <= c -> Reach b c.
Proof.
  induction 1 as [a | a x n b Ha Hd Hr IH]; intros Hc Hle; [exact Hc|].
  inversion Hc as [| a' x' n' c' Ha' Hd' Hr']; subst.
  - pose proof (reach_le _ _ Hr). pose proof (dec_at_len c x n ltac:(lia) Hd). lia.
  - rewrite Hd in Hd'. inversion Hd'; subst. apply IH; assumption.
Qed.

(* p is a code point boundary of a line that scans completely *)
Definition Bnd (p : Z) : Prop := Reach 0 p /\ Reach p L.

Lemma bnd_range p : Bnd p -> 0 <= p <= L.
Proof. intros [H1 H2]. apply reach_le in H1. apply reach_le in H2. lia. Qed.

Lemma bnd_next p : Bnd p -> p < L ->
  exists c n, dec_at line p = Some (c, n) /\ Bnd (p + n) /\ 1 <= n <= 4 /\ p + n <= L.
Proof.
  intros [H1 H2] Hp. inversion H2 as [| a c n b Ha Hd Hr]; subst; [lia|].
  exists c, n. pose proof (dec_at_len p c n ltac:(lia) Hd).
  repeat split; try lia; try assumption.
  eapply reach_trans; [exact H1|]. apply (reach_one p c n); assumption.
Qed.

Lemma bnd_reach a b : Bnd a -> Bnd b -> a <= b -> Reach a b.
Proof. intros [Ha _] [Hb _] H. eapply reach_linear; eauto. Qed.

Lemma bnd_0 : Reach 0 L -> Bnd 0.
Proof. intros H. split; [apply reach_refl | exact H]. Qed.

Lemma bnd_L : Reach 0 L -> Bnd L.
Proof. intros H. split; [exact H | apply reach_refl]. Qed.

(* the boolean validity test used in the statements implies the chain *)
Lemma count_cps_reach : forall fuel p k, 0 <= p <= L ->
  count_cps fuel (skipn (Z.to_nat p) line) = Some k -> Reach p L.
Proof.
  induction fuel as [|f IH]; intros p k Hp H.
  - simpl in H. destruct (skipn (Z.to_nat p) line) eqn:E; [|discriminate].
    pose proof (length_skipn_Z p Hp) as Hl. rewrite E in Hl. simpl in Hl.
    replace p with L by lia. apply reach_refl.
  - simpl in H. destruct (skipn (Z.to_nat p) line) as [|b0 r] eqn:E.
    + pose proof (length_skipn_Z p Hp) as Hl. rewrite E in Hl. simpl in Hl.
      replace p with L by lia. apply reach_refl.
    + destruct (decode_utf8 (b0 :: r)) as [[c n]|] eqn:Ed; [|discriminate].
      assert (dec_at line p = Some (c, n)) as Hd by (unfold dec_at; rewrite E; exact Ed).
      pose proof (length_skipn_Z p Hp) as Hl. rewrite E in Hl. simpl length in Hl.
      pose proof (dec_at_len p c n Hp Hd) as [Hn Hpn].
      destruct (count_cps f (skipn (Z.to_nat n) (b0 :: r))) as [k'|] eqn:Ec; [|discriminate].
      rewrite <- E, skipn_Z in Ec by lia.
      eapply reach_step; [lia | exact Hd | eapply IH; [lia | exact Ec]].
Qed.

Lemma valid_reach : utf8_valid line = true -> Reach 0 L.
Proof.
  unfold utf8_valid. destruct (count_cps (length line) line) as [k|] eqn:E; [|discriminate].
  intros _. apply (count_cps_reach (length line) 0 k); [unfold L; lia | exact E].
Qed.

(* ---------- substrings between boundaries ---------- *)
Definition sub (a b : Z) : list Z := substr line a (b - a).

Lemma sub_length a b : 0 <= a <= b -> b <= L -> Z.of_nat (length (sub a b)) = b - a.
Proof.
  intros. unfold sub, substr. rewrite firstn_length, skipn_length. unfold L in *. lia.
Qed.

Lemma sub_app a b c : 0 <= a <= b -> b <= c -> sub a b ++ sub b c = sub a c.
Proof.
  intros Hab Hbc. unfold sub, substr.
  replace (Z.to_nat (c - a)) with (Z.to_nat (b - a) + Z.to_nat (c - b))%nat by lia.
  rewrite firstn_plus. rewrite skipn_skipn'.
  replace (Z.to_nat a + Z.to_nat (b - a))%nat with (Z.to_nat b) by lia. reflexivity.
Qed.

Lemma reach_bound a b : Reach a b -> a <= L -> b <= L.
Proof.
  induction 1 as [a | a c n b Ha Hd _ IH]; intros H; [exact H|].
  apply IH. pose proof (dec_at_len a c n ltac:(lia) Hd). lia.
Qed.

Lemma sub_nil a : sub a a = [].
Proof. unfold sub, substr. rewrite Z.sub_diag. reflexivity. Qed.

Lemma skipn_sub a b n : 0 <= a -> 0 <= n -> a + n <= b -> skipn (Z.to_nat n) (sub a b) = sub (a + n) b.
Proof.
  intros. unfold sub, substr. rewrite skipn_firstn_comm, skipn_skipn'.
  f_equal; [lia|]. f_equal. lia.
Qed.

Lemma decode_sub a b c n : 0 <= a -> dec_at line a = Some (c, n) -> a + n <= b -> 0 <= n ->
  decode_utf8 (sub a b) = Some (c, n).
Proof.
  intros Ha Hd Hb Hn. unfold sub, substr. apply decode_local; [exact Hd | lia].
Qed.

(* a substring between two boundaries is accepted by the scanner *)
Lemma reach_count a b : Reach a b -> 0 <= a <= L -> forall fuel, b - a <= Z.of_nat fuel ->
  exists k, count_cps fuel (sub a b) = Some k.
Proof.
  induction 1 as [a | a c n b Ha Hd Hr IH]; intros Hal fuel Hf.
  - rewrite sub_nil. exists O. destruct fuel; reflexivity.
  - pose proof (dec_at_len a c n ltac:(lia) Hd) as [Hn Hle].
    pose proof (reach_le _ _ Hr) as Hb. pose proof (reach_bound _ _ Hr Hle) as HbL.
    pose proof (sub_length a b ltac:(lia) HbL) as Hlen.
    destruct fuel as [|f]; [lia|].
    assert (sub a b <> []) as Hne by (intros E; rewrite E in Hlen; simpl in Hlen; lia).
    rewrite (count_cps_S f _ Hne), (decode_sub a b c n ltac:(lia) Hd ltac:(lia) ltac:(lia)).
    rewrite skipn_sub by lia.
    destruct (IH ltac:(lia) f ltac:(lia)) as [k Hk]. rewrite Hk. eexists; reflexivity.
Qed.

Lemma piece_valid a b : Bnd a -> Bnd b -> a <= b -> utf8_valid (sub a b) = true.
Proof.
  intros Ha Hb Hab. pose proof (bnd_range a Ha). pose proof (bnd_range b Hb).
  unfold utf8_valid.
  destruct (reach_count a b (bnd_reach a b Ha Hb Hab) ltac:(lia) (length (sub a b))) as [k Hk].
  { rewrite sub_length by lia. lia. }
  rewrite Hk. reflexivity.
Qed.

(* ---------- runs of delimiters ---------- *)
Variable o : wopts.

Inductive DelimRun : Z -> Z -> Prop :=
| dr_refl a : DelimRun a a
| dr_step a c n b : 0 <= a < L -> dec_at line a = Some (c, n) -> is_delim (w_delims o) c = true ->
    DelimRun (a + n) b -> DelimRun a b.

Lemma delim_reach a b : DelimRun a b -> Reach a b.
Proof. induction 1; [apply reach_refl | eapply reach_step; eauto]. Qed.

Lemma delim_all a b : DelimRun a b -> 0 <= a <= L -> forall fuel, b - a <= Z.of_nat fuel ->
  all_delims fuel (w_delims o) (sub a b) = true.
Proof.
  induction 1 as [a | a c n b Ha Hd Hc Hr IH]; intros Hal fuel Hf.
  - rewrite sub_nil. destruct fuel; reflexivity.
  - pose proof (dec_at_len a c n ltac:(lia) Hd) as [Hn Hle].
    pose proof (reach_le _ _ (delim_reach _ _ Hr)) as Hb.
    pose proof (reach_bound _ _ (delim_reach _ _ Hr) Hle) as HbL.
    pose proof (sub_length a b ltac:(lia) HbL) as Hlen.
    destruct fuel as [|f]; [lia|].
    assert (sub a b <> []) as Hne by (intros E; rewrite E in Hlen; simpl in Hlen; lia).
    rewrite (all_delims_S f _ _ Hne), (decode_sub a b c n ltac:(lia) Hd ltac:(lia) ltac:(lia)).
    rewrite skipn_sub by lia. rewrite Hc. simpl. apply IH; lia.
Qed.

Lemma delim_run_sub a b : DelimRun a b -> 0 <= a <= L ->
  all_delims (length (sub a b)) (w_delims o) (sub a b) = true.
Proof.
  intros H Ha. apply delim_all; [exact H | exact Ha|].
  pose proof (reach_le _ _ (delim_reach _ _ H)). pose proof (reach_bound _ _ (delim_reach _ _ H) ltac:(lia)).
  rewrite sub_length by lia. lia.
Qed.

Lemma delim_trans a b c : DelimRun a b -> DelimRun b c -> DelimRun a c.
Proof. induction 1; intros; [assumption | eapply dr_step; eauto]. Qed.

(* ---------- machine integers are exact below 2^31 ---------- *)
Hypothesis Hsmall : L < 2147483648.

Lemma u64_id x : 0 <= x <= L -> u64 x = x.
Proof. intros. unfold u64. apply Z.mod_small. lia. Qed.

Lemma w32_id x : 0 <= x <= L -> wrap32 x = x.
Proof. intros. apply wrap32_small. lia. Qed.

(* ---------- the peek-ahead loop ---------- *)
Lemma peek_unfold fuel lc pce :
  peek fuel line o lc pce =
  if pce <? L then
    if w_keep o && (u64 (pce - lc) >=? w_width o) then PeekOk pce
    else match dec_at line pce with
         | None => PeekBad
         | Some (c, n) =>
           if is_delim (w_delims o) c then
             if w_keep o && (u64 (pce + n - lc) >? w_width o) then PeekOk pce
             else match fuel with O => PeekFuel | S f => peek f line o lc (pce + n) end
           else PeekOk pce
         end
  else PeekOk pce.
Proof. destruct fuel; reflexivity. Qed.

Lemma peek_spec lc : forall fuel pce, Bnd pce -> L - pce <= Z.of_nat fuel ->
  exists e, peek fuel line o lc pce = PeekOk e /\ DelimRun pce e /\ Bnd e.
Proof.
  induction fuel as [|f IH]; intros pce Hb Hf; rewrite peek_unfold.
  - pose proof (bnd_range pce Hb). replace (pce <? L) with false by lia.
    exists pce. repeat split; try apply dr_refl; apply Hb.
  - destruct (pce <? L) eqn:Hlt; [|exists pce; repeat split; try apply dr_refl; apply Hb].
    destruct (w_keep o && (u64 (pce - lc) >=? w_width o)); [exists pce; repeat split; try apply dr_refl; apply Hb|].
    destruct (bnd_next pce Hb ltac:(lia)) as (c & n & Hd & Hb' & Hn & Hle). rewrite Hd.
    destruct (is_delim (w_delims o) c) eqn:Hc; [|exists pce; repeat split; try apply dr_refl; apply Hb].
    destruct (w_keep o && (u64 (pce + n - lc) >? w_width o)); [exists pce; repeat split; try apply dr_refl; apply Hb|].
    destruct (IH (pce + n) Hb' ltac:(lia)) as (e & He & Hr & Hbe).
    exists e. repeat split; try assumption; try apply Hbe.
    pose proof (bnd_range pce Hb). eapply dr_step; eauto. lia.
Qed.

(* ---------- small list facts ---------- *)
Lemma interleave_snoc : forall ps ds p d, length ps = length ds ->
  interleave (ps ++ [p]) (ds ++ [d]) = interleave ps ds ++ p ++ d.
Proof.
  induction ps as [|x ps IH]; intros ds p d H; destruct ds as [|y ds]; try discriminate.
  - simpl. rewrite app_nil_r. reflexivity.
  - simpl. rewrite IH by (simpl in H; lia). rewrite <- !app_assoc. reflexivity.
Qed.

Lemma Forall_set_nth {P : Z -> Prop} i v l : Forall P l -> P v -> Forall P (set_nth i v l).
Proof.
  revert i. induction l as [|x l IH]; intros i Hl Hv; [destruct i; constructor|].
  inversion Hl; subst. destruct i; simpl; constructor; auto.
Qed.

Lemma lookback_spec lc dflt : forall pds, Forall Bnd pds -> Bnd dflt -> lc < dflt -> 0 <= lc ->
  let r := lookback pds lc dflt in Bnd r /\ lc < r /\ (In r pds \/ r = dflt).
Proof.
  induction pds as [|e pds IH]; intros Hp Hd Hlt Hlc; simpl.
  - auto.
  - inversion Hp as [|? ? He Hp']; subst. pose proof (bnd_range e He).
    rewrite (w32_id e), (u64_id e) by lia.
    destruct (e >? lc) eqn:E.
    + repeat split; try assumption; try apply He; [lia | left; left; reflexivity].
    + destruct (IH Hp' Hd Hlt Hlc) as (A & B & C). repeat split; try assumption; try apply A.
      destruct C; [left; right; assumption | right; assumption].
Qed.

(* ---------- the loop invariant ---------- *)
Record Inv (s : wstate) : Prop := {
  inv_pos : Bnd (s_pos s);
  inv_lc : Bnd (s_last_cut s);
  inv_le : s_last_cut s <= s_pos s;
  inv_pfd : Bnd (s_pfd s);
  inv_pds : Forall Bnd (s_pds s);
  inv_len : length (s_lines s) = length (s_dels s);
  inv_emit : interleave (rev (s_lines s)) (rev (s_dels s)) = sub 0 (s_last_cut s);
  inv_first : s_lines s = [] -> s_last_cut s = 0;
  inv_valid : Forall (fun p => utf8_valid p = true) (s_lines s);
  inv_dels : Forall (fun d => all_delims (length d) (w_delims o) d = true /\ (w_keep o = true -> d = [])) (s_dels s)
}.

Definition step_post (s : wstate) (r : stepres) : Prop :=
  match r with
  | StScan s' => Inv s' /\ s_pos s < s_pos s' /\ s_last_cut s' = s_last_cut s
  | StCut s' => Inv s' /\ s_last_cut s < s_last_cut s'
  | StDone s' => s' = s /\ L <= s_pos s
  | _ => False
  end.

Lemma step_spec s : Inv s -> step_post s (step line o s).
Proof.
  intros [Ipos Ilc Ile Ipfd Ipds Ilen Iemit Ifirst Ivalid Idels].
  cbv beta zeta delta [step]. change (Z.of_nat (length line)) with L.
  destruct (s_pos s <? L) eqn:Hlt; [|simpl; split; [reflexivity | lia]].
  destruct (bnd_next _ Ipos ltac:(lia)) as (c & n & Hd & Hb' & Hn & Hle). rewrite Hd.
  pose proof (bnd_range _ Ipos) as Rpos. pose proof (bnd_range _ Ilc) as Rlc. pose proof (bnd_range _ Ipfd) as Rpfd.
  assert (exists pds pfd,
    (match find_delimiter (w_delims o) c with
     | Some i => (set_nth i (u64 (s_pfd s)) (s_pds s), s_pfd s)
     | None => (s_pds s, wrap32 (s_pos s + n))
     end) = (pds, pfd) /\ Forall Bnd pds /\ Bnd pfd) as (pds & pfd & Epp & Hpds & Hpfd).
  { destruct (find_delimiter (w_delims o) c) as [i|].
    - eexists _, _. split; [reflexivity|]. split; [|exact Ipfd].
      apply Forall_set_nth; [exact Ipds|]. rewrite u64_id by lia. exact Ipfd.
    - eexists _, _. split; [reflexivity|]. split; [exact Ipds|]. rewrite w32_id by lia. exact Hb'. }
  rewrite Epp. cbv iota beta.
  rewrite (u64_id (s_pos s + n - s_last_cut s)) by lia.
  destruct (s_pos s + n - s_last_cut s <? w_width o) eqn:Hw.
  - (* continue *)
    simpl. split; [|split; [lia | reflexivity]].
    constructor; simpl; try assumption. lia.
  - (* cut *)
    set (hard := if (s_pos s + n - s_last_cut s >? w_width o) && (s_pos s >? s_last_cut s) then s_pos s else s_pos s + n).
    assert (Bnd hard /\ s_last_cut s < hard) as [Hhard Hhl].
    { unfold hard. destruct ((s_pos s + n - s_last_cut s >? w_width o) && (s_pos s >? s_last_cut s)) eqn:E.
      - split; [exact Ipos | lia].
      - split; [exact Hb' | lia]. }
    destruct (lookback_spec (s_last_cut s) hard pds Hpds Hhard Hhl ltac:(lia)) as (Hcut & Hcl & _).
    set (pos_cut := lookback pds (s_last_cut s) hard) in *.
    pose proof (bnd_range _ Hcut) as Rcut.
    destruct (peek_spec (s_last_cut s) (length line) pos_cut Hcut ltac:(unfold L; lia)) as (e & He & Hrun & Hbe).
    rewrite He. pose proof (bnd_range _ Hbe) as Re.
    pose proof (reach_le _ _ (delim_reach _ _ Hrun)) as Hce.
    rewrite (u64_id (e - s_last_cut s)), (u64_id (pos_cut - s_last_cut s)), (u64_id (e - pos_cut)) by lia.
    fold (sub (s_last_cut s) e). fold (sub (s_last_cut s) pos_cut). fold (sub pos_cut e).
    destruct (w_keep o) eqn:Hk; cbv iota beta; simpl; (split; [|lia]);
      constructor; simpl; try assumption; try lia; try discriminate.
    + rewrite interleave_snoc by (rewrite !rev_length; exact Ilen).
      rewrite Iemit, app_nil_r. apply sub_app; lia.
    + constructor; [|exact Ivalid]. apply piece_valid; try assumption. lia.
    + rewrite Hk. constructor; [|exact Idels]. split; reflexivity.
    + rewrite interleave_snoc by (rewrite !rev_length; exact Ilen).
      rewrite Iemit. rewrite (sub_app (s_last_cut s) pos_cut e) by lia. apply sub_app; lia.
    + constructor; [|exact Ivalid]. apply piece_valid; try assumption. lia.
    + rewrite Hk. constructor; [|exact Idels]. split; [|discriminate]. apply delim_run_sub; [exact Hrun | lia].
Qed.

(* ---------- the loops make progress; fuel is never exhausted ---------- *)
Definition Good (r : stepres) : Prop := exists s', r = StDone s' /\ Inv s' /\ s_pos s' = L.

Lemma scan_good k : forall f2 s, Inv s -> L - s_pos s < Z.of_nat f2 ->
  (forall s', Inv s' -> s_last_cut s < s_last_cut s' -> Good (k s')) ->
  Good (scan_loop line o k f2 s).
Proof.
  induction f2 as [|f IH]; intros s I Hf Hk.
  - pose proof (bnd_range _ (inv_pos s I)). lia.
  - simpl. pose proof (step_spec s I) as P. destruct (step line o s) as [s'|s'|s'| |]; unfold step_post in P; try contradiction.
    + destruct P as (I' & Hp & Hl). apply IH; [exact I' | lia|]. intros s'' I'' H. apply Hk; [exact I'' | lia].
    + destruct P as (I' & Hl). apply Hk; assumption.
    + destruct P as (-> & Hp). exists s. split; [reflexivity|]. split; [exact I|].
      pose proof (bnd_range _ (inv_pos s I)). lia.
Qed.

Lemma wrap_good n : L + 1 < Z.of_nat n -> forall f1 s, Inv s -> L - s_last_cut s < Z.of_nat f1 ->
  Good (wrap_loop n line o f1 s).
Proof.
  intros Hn. induction f1 as [|f IH]; intros s I Hf.
  - pose proof (bnd_range _ (inv_lc s I)). lia.
  - simpl. apply scan_good; [exact I | |].
    + pose proof (bnd_range _ (inv_pos s I)). lia.
    + intros s' I' H. apply IH; [exact I' | lia].
Qed.

Hypothesis Hvalid : Reach 0 L.

Lemma inv_init : Inv (init_state o).
Proof.
  pose proof (bnd_0 Hvalid) as B0.
  constructor.
  - exact B0.
  - exact B0.
  - simpl. lia.
  - exact B0.
  - apply Forall_forall. intros x Hx. apply repeat_spec in Hx. subst. exact B0.
  - reflexivity.
  - exact (eq_sym (sub_nil 0)).
  - reflexivity.
  - constructor.
  - constructor.
Qed.

Lemma sub_all : sub 0 L = line.
Proof. unfold sub, substr. simpl. rewrite Z.sub_0_r. unfold L. rewrite Nat2Z.id. apply firstn_all. Qed.

Definition del_ok (d : list Z) : Prop :=
  all_delims (length d) (w_delims o) d = true /\ (w_keep o = true -> d = []).

(* everything C07 says about one line, except the width bound *)
Lemma wrap_correct : exists ps ds,
  wrap_lines line o = WOk ps ds /\ length ps = length ds /\ ps <> [] /\
  interleave ps ds = line /\
  Forall (fun p => utf8_valid p = true) ps /\ Forall del_ok ds.
Proof.
  unfold wrap_lines.
  destruct (wrap_good (S (S (length line))) ltac:(unfold L; lia) (S (S (length line))) (init_state o) inv_init
              ltac:(simpl; unfold L; lia)) as (s & Es & I & Hp).
  rewrite Es. destruct I as [Ipos Ilc Ile Ipfd Ipds Ilen Iemit Ifirst Ivalid Idels].
  pose proof (bnd_range _ Ilc) as Rlc.
  rewrite (u64_id (s_pos s - s_last_cut s)) by lia. fold (sub (s_last_cut s) (s_pos s)).
  destruct ((s_last_cut s <? s_pos s) || (s_pos s =? 0)) eqn:E.
  - eexists _, _. split; [reflexivity|]. simpl rev. repeat split.
    + rewrite !app_length, !rev_length. simpl. lia.
    + intros H. apply app_eq_nil in H. destruct H; discriminate.
    + rewrite interleave_snoc by (rewrite !rev_length; exact Ilen).
      rewrite Iemit, app_nil_r, Hp. rewrite sub_app by lia. apply sub_all.
    + apply Forall_app. split; [apply Forall_rev; exact Ivalid|]. constructor; [|constructor].
      apply piece_valid; try assumption. 
    + apply Forall_app. split; [apply Forall_rev; exact Idels|]. constructor; [|constructor]. split; reflexivity.
  - assert (s_last_cut s = L /\ L <> 0) as [El Hl0] by lia.
    eexists _, _. split; [reflexivity|]. repeat split.
    + rewrite !rev_length. exact Ilen.
    + intros H. destruct (s_lines s) eqn:El'; [specialize (Ifirst eq_refl); lia|].
      simpl in H. apply app_eq_nil in H. destruct H; discriminate.
    + rewrite Iemit, El. apply sub_all.
    + apply Forall_rev. exact Ivalid.
    + apply Forall_rev. exact Idels.
Qed.

(* ================= the width bound ================= *)
Hypothesis Hwidth : 1 <= w_width o.
Let w := w_width o.

Lemma bnd_succ a c n b : Bnd a -> dec_at line a = Some (c, n) -> Bnd b -> a < b -> a + n <= b.
Proof.
  intros Ha Hd Hb Hlt. pose proof (bnd_reach a b Ha Hb ltac:(lia)) as R.
  inversion R as [| a' c' n' b' Ha' Hd' Hr']; subst; [lia|].
  rewrite Hd in Hd'. inversion Hd'; subst. apply reach_le in Hr'. exact Hr'.
Qed.

(* why the peek-ahead loop stopped at e, and how far it may extend a kept piece *)
Definition stop_reason (lc e : Z) : Prop :=
  L <= e \/ (w_keep o = true /\ w <= e - lc) \/
  (exists c n, dec_at line e = Some (c, n) /\
     (is_delim (w_delims o) c = false \/ (w_keep o = true /\ e + n - lc > w))).

Lemma peek_spec2 lc : 0 <= lc -> forall fuel q, Bnd q -> lc <= q -> L - q <= Z.of_nat fuel ->
  exists e, peek fuel line o lc q = PeekOk e /\ (w_keep o = true -> e = q \/ e - lc <= w) /\ stop_reason lc e.
Proof.
  intros Hlc. induction fuel as [|f IH]; intros q Hb Hq Hf; rewrite peek_unfold; pose proof (bnd_range q Hb) as Rq.
  - replace (q <? L) with false by lia. exists q. split; [reflexivity|]. split; [auto|]. left. lia.
  - destruct (q <? L) eqn:Hlt; [|exists q; split; [reflexivity|]; split; [auto|]; left; lia].
    rewrite (u64_id (q - lc)) by lia. fold w.
    destruct (w_keep o && (q - lc >=? w)) eqn:K1.
    { exists q. split; [reflexivity|]. split; [auto|]. right; left.
      apply andb_true_iff in K1. destruct K1 as [K1a K1b]. split; [exact K1a | lia]. }
    destruct (bnd_next q Hb ltac:(lia)) as (c & n & Hd & Hb' & Hn & Hle). rewrite Hd.
    destruct (is_delim (w_delims o) c) eqn:Hc.
    2: { exists q. split; [reflexivity|]. split; [auto|]. right; right. exists c, n. auto. }
    rewrite (u64_id (q + n - lc)) by lia.
    destruct (w_keep o && (q + n - lc >? w)) eqn:K2.
    { exists q. split; [reflexivity|]. split; [auto|]. right; right. exists c, n. split; [exact Hd|]. right.
      apply andb_true_iff in K2. destruct K2 as [K2a K2b]. split; [exact K2a | lia]. }
    destruct (IH (q + n) Hb' ltac:(lia) ltac:(lia)) as (e & He & Hk & Hs).
    exists e. split; [exact He|]. split; [|exact Hs].
    intros Hkeep. right. rewrite Hkeep in K2. simpl in K2. destruct (Hk Hkeep) as [-> | H]; lia.
Qed.

Definition near (lc x : Z) : Prop := x <= lc \/ x - lc < w.

Record InvW (s : wstate) : Prop := {
  w_pos : s_pos s - s_last_cut s < w;
  w_pds : Forall (near (s_last_cut s)) (s_pds s);
  w_pfd : forall c n, dec_at line (s_pos s) = Some (c, n) -> is_delim (w_delims o) c = true ->
          near (s_last_cut s) (s_pfd s);
  w_lines : Forall (fun p => width_ok w p = true) (s_lines s)
}.

Lemma near_mono lc lc' x : lc <= lc' -> near lc x -> near lc' x.
Proof. unfold near. lia. Qed.

Lemma width_short a b : 0 <= a <= b -> b <= L -> b - a <= w -> width_ok w (sub a b) = true.
Proof. intros. unfold width_ok. rewrite sub_length by lia. apply orb_true_iff. left. lia. Qed.

Lemma width_single a c n : 0 <= a < L -> dec_at line a = Some (c, n) -> width_ok w (sub a (a + n)) = true.
Proof.
  intros Ha Hd. pose proof (dec_at_len a c n ltac:(lia) Hd) as [Hn Hle].
  unfold width_ok. apply orb_true_iff. right.
  pose proof (sub_length a (a + n) ltac:(lia) Hle) as Hlen.
  destruct (length (sub a (a + n))) as [|f] eqn:El; [lia|].
  assert (sub a (a + n) <> []) as Hne by (intros E; rewrite E in El; discriminate).
  rewrite (count_cps_S f _ Hne), (decode_sub a (a + n) c n ltac:(lia) Hd ltac:(lia) ltac:(lia)).
  rewrite skipn_sub by lia. rewrite sub_nil. destruct f; reflexivity.
Qed.

(* the three facts needed when a piece is cut, for the state components written by [step] *)
Section Cut.
Variables (lc pc n c : Z) (pds : list Z) (pfd : Z).
Hypothesis Hpc : Bnd pc.
Hypothesis Hlc : Bnd lc.
Hypothesis Hle : lc <= pc.
Hypothesis HpcL : pc < L.
Hypothesis Hd : dec_at line pc = Some (c, n).
Hypothesis Hin : pc - lc < w.
Hypothesis Htrig : w <= pc + n - lc.
Hypothesis Hpds : Forall Bnd pds.
Hypothesis Hnear : Forall (near lc) pds.
Hypothesis Hpfd1 : is_delim (w_delims o) c = true -> near lc pfd.
Hypothesis Hpfd2 : is_delim (w_delims o) c = false -> pfd = pc + n.

Let hard := if (pc + n - lc >? w) && (pc >? lc) then pc else pc + n.
Let pos_cut := lookback pds lc hard.

Lemma cut_facts :
  Bnd pos_cut /\ lc < pos_cut /\
  (pos_cut - lc <= w \/ (pc = lc /\ pos_cut = pc + n)).
Proof.
  pose proof (bnd_range _ Hpc). pose proof (bnd_range _ Hlc).
  destruct (bnd_next pc Hpc HpcL) as (c' & n' & Hd' & Hb' & Hn & Hle').
  rewrite Hd in Hd'. inversion Hd'; subst c' n'.
  assert (Bnd hard /\ lc < hard /\ (hard - lc <= w \/ (pc = lc /\ hard = pc + n))) as (Hh & Hhl & Hhw).
  { unfold hard. destruct ((pc + n - lc >? w) && (pc >? lc)) eqn:E.
    - split; [exact Hpc|]. split; [lia|]. left. lia.
    - split; [exact Hb'|]. split; [lia|]. lia. }
  destruct (lookback_spec lc hard pds Hpds Hh Hhl ltac:(lia)) as (Hcut & Hcl & Hsrc).
  fold pos_cut in Hcut, Hcl, Hsrc.
  split; [exact Hcut|]. split; [exact Hcl|].
  destruct Hsrc as [Hi | ->]; [|exact Hhw].
  rewrite Forall_forall in Hnear. specialize (Hnear _ Hi). unfold near in Hnear. left. lia.
Qed.

Variable e : Z.
Hypothesis He : peek (length line) line o lc pos_cut = PeekOk e.

Lemma cut_e : Bnd e /\ pos_cut <= e /\ DelimRun pos_cut e /\
  (w_keep o = true -> e = pos_cut \/ e - lc <= w) /\ stop_reason lc e.
Proof.
  destruct cut_facts as (Hcut & Hcl & _). pose proof (bnd_range _ Hlc). pose proof (bnd_range _ Hcut).
  destruct (peek_spec lc (length line) pos_cut Hcut ltac:(unfold L; lia)) as (e1 & He1 & Hrun & Hbe).
  destruct (peek_spec2 lc ltac:(lia) (length line) pos_cut Hcut ltac:(lia) ltac:(unfold L; lia)) as (e2 & He2 & Hk & Hs).
  rewrite He in He1, He2. inversion He1; inversion He2; subst e1 e2.
  repeat split; try assumption; try apply Hbe.
  apply reach_le. apply delim_reach. exact Hrun.
Qed.

Lemma cut_pds : Forall (near e) pds.
Proof.
  destruct cut_facts as (_ & Hcl & _). destruct cut_e as (_ & Hce & _).
  eapply Forall_impl; [|exact Hnear]. intros x. apply near_mono. lia.
Qed.

Lemma cut_pfd : forall c' n', dec_at line e = Some (c', n') -> is_delim (w_delims o) c' = true -> near e pfd.
Proof.
  intros c' n' Hd' Hc'.
  destruct cut_facts as (Hcut & Hcl & _). destruct cut_e as (Hbe & Hce & Hrun & _ & Hstop).
  pose proof (bnd_range _ Hpc). pose proof (bnd_range _ Hlc). pose proof (bnd_range _ Hbe).
  destruct (is_delim (w_delims o) c) eqn:Hc.
  - apply (near_mono lc); [lia | apply Hpfd1; reflexivity].
  - rewrite (Hpfd2 eq_refl). unfold near.
    destruct (Z_le_gt_dec (pc + n) e) as [Hge | Hlt]; [left; lia|]. exfalso.
    (* e < pc + n, both boundaries: e <= pc *)
    assert (e <= pc) as Hepc.
    { destruct (Z_le_gt_dec e pc); [assumption|].
      pose proof (bnd_succ pc c n e Hpc Hd Hbe ltac:(lia)). lia. }
    destruct (Z.eq_dec e pc) as [-> | Hne].
    + rewrite Hd in Hd'. inversion Hd'; subst. congruence.
    + assert (e < pc) as Hlt' by lia.
      pose proof (bnd_succ e c' n' pc Hbe Hd' Hpc Hlt') as Hsucc.
      destruct Hstop as [S1 | [[_ S2] | (c2 & n2 & Hd2 & [S3 | [_ S4]])]]; try lia.
      * rewrite Hd' in Hd2. inversion Hd2; subst. congruence.
      * rewrite Hd' in Hd2. inversion Hd2; subst. lia.
Qed.

Lemma cut_piece_keep : w_keep o = true -> width_ok w (sub lc e) = true.
Proof.
  intros Hk. destruct cut_facts as (Hcut & Hcl & Hw). destruct cut_e as (Hbe & Hce & _ & Hext & _).
  pose proof (bnd_range _ Hlc). pose proof (bnd_range _ Hbe). pose proof (bnd_range _ Hcut).
  destruct (Hext Hk) as [-> | Hsmall']; [|apply width_short; lia].
  destruct Hw as [Hw | [E1 E2]]; [apply width_short; lia|].
  rewrite E2, <- E1. apply (width_single pc c n); [lia | exact Hd].
Qed.

Lemma cut_piece_skip : width_ok w (sub lc pos_cut) = true.
Proof.
  destruct cut_facts as (Hcut & Hcl & Hw).
  pose proof (bnd_range _ Hlc). pose proof (bnd_range _ Hcut).
  destruct Hw as [Hw | [E1 E2]]; [apply width_short; lia|].
  rewrite E2, <- E1. apply (width_single pc c n); [lia | exact Hd].
Qed.
End Cut.

Lemma step_specW s : Inv s -> InvW s ->
  match step line o s with StScan s' => InvW s' | StCut s' => InvW s' | _ => True end.
Proof.
  intros [Ipos Ilc Ile Ipfd Ipds _ _ _ _ _] [Wpos Wpds Wpfd Wlines].
  cbv beta zeta delta [step]. change (Z.of_nat (length line)) with L.
  destruct (s_pos s <? L) eqn:Hlt; [|exact I].
  destruct (bnd_next _ Ipos ltac:(lia)) as (c & n & Hd & Hb' & Hn & Hle). rewrite Hd.
  pose proof (bnd_range _ Ipos) as Rpos. pose proof (bnd_range _ Ilc) as Rlc. pose proof (bnd_range _ Ipfd) as Rpfd.
  specialize (Wpfd c n Hd).
  destruct (find_delimiter (w_delims o) c) as [i|] eqn:Ef.
  - (* the character is a delimiter *)
    assert (is_delim (w_delims o) c = true) as Hc by (unfold is_delim; rewrite Ef; reflexivity).
    specialize (Wpfd Hc). cbv iota beta.
    rewrite (u64_id (s_pfd s)), (u64_id (s_pos s + n - s_last_cut s)) by lia. fold w.
    assert (Forall Bnd (set_nth i (s_pfd s) (s_pds s))) as Hpds' by (apply Forall_set_nth; assumption).
    assert (Forall (near (s_last_cut s)) (set_nth i (s_pfd s) (s_pds s))) as Hnear' by (apply Forall_set_nth; assumption).
    destruct (s_pos s + n - s_last_cut s <? w) eqn:Hw.
    + constructor; simpl; try assumption; try lia. intros; assumption.
    + pose proof (cut_e (s_last_cut s) (s_pos s) n c _ Ipos Ilc Ile ltac:(lia) Hd Wpos ltac:(lia) Hpds' Hnear') as CE.
      pose proof (cut_pds (s_last_cut s) (s_pos s) n c _ Ipos Ilc Ile ltac:(lia) Hd Wpos ltac:(lia) Hpds' Hnear') as CP.
      pose proof (cut_pfd (s_last_cut s) (s_pos s) n c _ (s_pfd s) Ipos Ilc Ile ltac:(lia) Hd Wpos ltac:(lia) Hpds' Hnear'
                    (fun _ => Wpfd) ltac:(congruence)) as CF.
      pose proof (cut_piece_keep (s_last_cut s) (s_pos s) n c _ Ipos Ilc Ile ltac:(lia) Hd Wpos ltac:(lia) Hpds' Hnear') as CK.
      pose proof (cut_piece_skip (s_last_cut s) (s_pos s) n c _ Ipos Ilc Ile ltac:(lia) Hd Wpos ltac:(lia) Hpds' Hnear') as CS.
      cbv zeta in CE, CP, CF, CK, CS.
      destruct (peek _ line o _ _) as [e| |] eqn:He; try exact I.
      destruct (CE e eq_refl) as (Hbe & Hce & _). pose proof (bnd_range _ Hbe) as Re.
      pose proof (cut_facts (s_last_cut s) (s_pos s) n c _ Ipos Ilc Ile ltac:(lia) Hd Wpos ltac:(lia) Hpds' Hnear') as (Hcut & Hcl & _).
      cbv zeta in Hcut, Hcl. pose proof (bnd_range _ Hcut) as Rcut.
      match goal with |- context [u64 (?a - s_last_cut s)] => idtac end.
      rewrite (u64_id (e - s_last_cut s)) by lia.
      match goal with |- context [lookback ?p ?l ?h] => set (pos_cut := lookback p l h) in * end.
      rewrite (u64_id (pos_cut - s_last_cut s)), (u64_id (e - pos_cut)) by lia.
      fold (sub (s_last_cut s) e). fold (sub (s_last_cut s) pos_cut). fold (sub pos_cut e).
      destruct (w_keep o) eqn:Hk; cbv iota beta; constructor; simpl; try lia;
        try (apply CP; reflexivity); try (apply CF; reflexivity).
      * constructor; [apply CK; reflexivity | exact Wlines].
      * constructor; [apply CS | exact Wlines].
  - (* not a delimiter *)
    assert (is_delim (w_delims o) c = false) as Hc by (unfold is_delim; rewrite Ef; reflexivity).
    cbv iota beta.
    rewrite (w32_id (s_pos s + n)), (u64_id (s_pos s + n - s_last_cut s)) by lia. fold w.
    destruct (s_pos s + n - s_last_cut s <? w) eqn:Hw.
    + constructor; simpl; try assumption; try lia. intros. unfold near. lia.
    + pose proof (cut_e (s_last_cut s) (s_pos s) n c _ Ipos Ilc Ile ltac:(lia) Hd Wpos ltac:(lia) Ipds Wpds) as CE.
      pose proof (cut_pds (s_last_cut s) (s_pos s) n c _ Ipos Ilc Ile ltac:(lia) Hd Wpos ltac:(lia) Ipds Wpds) as CP.
      pose proof (cut_pfd (s_last_cut s) (s_pos s) n c _ (s_pos s + n) Ipos Ilc Ile ltac:(lia) Hd Wpos ltac:(lia) Ipds Wpds
                    ltac:(congruence) (fun _ => eq_refl)) as CF.
      pose proof (cut_piece_keep (s_last_cut s) (s_pos s) n c _ Ipos Ilc Ile ltac:(lia) Hd Wpos ltac:(lia) Ipds Wpds) as CK.
      pose proof (cut_piece_skip (s_last_cut s) (s_pos s) n c _ Ipos Ilc Ile ltac:(lia) Hd Wpos ltac:(lia) Ipds Wpds) as CS.
      cbv zeta in CE, CP, CF, CK, CS.
      destruct (peek _ line o _ _) as [e| |] eqn:He; try exact I.
      destruct (CE e eq_refl) as (Hbe & Hce & _). pose proof (bnd_range _ Hbe) as Re.
      pose proof (cut_facts (s_last_cut s) (s_pos s) n c _ Ipos Ilc Ile ltac:(lia) Hd Wpos ltac:(lia) Ipds Wpds) as (Hcut & Hcl & _).
      cbv zeta in Hcut, Hcl. pose proof (bnd_range _ Hcut) as Rcut.
      rewrite (u64_id (e - s_last_cut s)) by lia.
      match goal with |- context [lookback ?p ?l ?h] => set (pos_cut := lookback p l h) in * end.
      rewrite (u64_id (pos_cut - s_last_cut s)), (u64_id (e - pos_cut)) by lia.
      fold (sub (s_last_cut s) e). fold (sub (s_last_cut s) pos_cut). fold (sub pos_cut e).
      destruct (w_keep o) eqn:Hk; cbv iota beta; constructor; simpl; try lia;
        try (apply CP; reflexivity); try (apply CF; reflexivity).
      * constructor; [apply CK; reflexivity | exact Wlines].
      * constructor; [apply CS | exact Wlines].
Qed.

Definition GoodW (r : stepres) : Prop := exists s', r = StDone s' /\ Inv s' /\ InvW s' /\ s_pos s' = L.

Lemma scan_goodW k : forall f2 s, Inv s -> InvW s -> L - s_pos s < Z.of_nat f2 ->
  (forall s', Inv s' -> InvW s' -> s_last_cut s < s_last_cut s' -> GoodW (k s')) ->
  GoodW (scan_loop line o k f2 s).
Proof.
  induction f2 as [|f IH]; intros s I W Hf Hk.
  - pose proof (bnd_range _ (inv_pos s I)). lia.
  - simpl. pose proof (step_spec s I) as P. pose proof (step_specW s I W) as PW.
    destruct (step line o s) as [s'|s'|s'| |]; unfold step_post in P; try contradiction.
    + destruct P as (I' & Hp & Hl). apply IH; [exact I' | exact PW | lia|].
      intros s'' I'' W'' H. apply Hk; [exact I'' | exact W'' | lia].
    + destruct P as (I' & Hl). apply Hk; assumption.
    + destruct P as (-> & Hp). exists s. split; [reflexivity|]. split; [exact I|]. split; [exact W|].
      pose proof (bnd_range _ (inv_pos s I)). lia.
Qed.

Lemma wrap_goodW n : L + 1 < Z.of_nat n -> forall f1 s, Inv s -> InvW s -> L - s_last_cut s < Z.of_nat f1 ->
  GoodW (wrap_loop n line o f1 s).
Proof.
  intros Hn. induction f1 as [|f IH]; intros s I W Hf.
  - pose proof (bnd_range _ (inv_lc s I)). lia.
  - simpl. apply scan_goodW; [exact I | exact W | |].
    + pose proof (bnd_range _ (inv_pos s I)). lia.
    + intros s' I' W' H. apply IH; [exact I' | exact W' | lia].
Qed.

Lemma invW_init : InvW (init_state o).
Proof.
  constructor.
  - simpl. lia.
  - apply Forall_forall. intros x Hx. apply repeat_spec in Hx. subst. left. simpl. lia.
  - intros. left. simpl. lia.
  - constructor.
Qed.

Lemma wrap_width : exists ps ds, wrap_lines line o = WOk ps ds /\ Forall (fun p => width_ok w p = true) ps.
Proof.
  unfold wrap_lines.
  destruct (wrap_goodW (S (S (length line))) ltac:(unfold L; lia) (S (S (length line))) (init_state o) inv_init invW_init
              ltac:(simpl; unfold L; lia)) as (s & Es & I & W & Hp).
  rewrite Es. destruct I as [Ipos Ilc Ile _ _ _ _ _ _ _]. destruct W as [Wpos _ _ Wlines].
  pose proof (bnd_range _ Ilc) as Rlc.
  rewrite (u64_id (s_pos s - s_last_cut s)) by lia. fold (sub (s_last_cut s) (s_pos s)).
  destruct ((s_last_cut s <? s_pos s) || (s_pos s =? 0)).
  - eexists _, _. split; [reflexivity|]. simpl rev. apply Forall_app. split; [apply Forall_rev; exact Wlines|].
    constructor; [|constructor]. apply width_short; lia.
  - eexists _, _. split; [reflexivity|]. apply Forall_rev. exact Wlines.
Qed.
End Line.

(* ================= statements without the section context ================= *)
Definition short_line (line : list Z) : Prop := Z.of_nat (length line) < 2147483648.

Theorem wrap_lines_correct line o : utf8_valid line = true -> short_line line ->
  exists ps ds,
    wrap_lines line o = WOk ps ds /\ length ps = length ds /\ ps <> [] /\
    interleave ps ds = line /\
    Forall (fun p => utf8_valid p = true) ps /\ Forall (del_ok o) ds.
Proof.
  intros Hv Hs. apply wrap_correct; [exact Hs | apply valid_reach; exact Hv].
Qed.

(* the width bound: every piece has at most WIDTH bytes or is a single code point *)
Theorem wrap_lines_width line o : utf8_valid line = true -> short_line line -> 1 <= w_width o ->
  exists ps ds, wrap_lines line o = WOk ps ds /\ Forall (fun p => width_ok (w_width o) p = true) ps.
Proof.
  intros Hv Hs Hw. apply wrap_width; [exact Hs | apply valid_reach; exact Hv | exact Hw].
Qed.

(* ---------- the collector's join ---------- *)
Lemma join_spec : forall answers dels, length answers = length dels ->
  join answers dels = Some (interleave answers (map c_str dels), []).
Proof.
  induction answers as [|a ar IH]; intros dels H; destruct dels as [|d dr]; try discriminate; [reflexivity|].
  simpl. rewrite IH by (simpl in H; lia). reflexivity.
Qed.

(* a withheld run made of non-NUL delimiters survives the NUL-terminated hand-off *)
Definition nonzero (bs : list Z) : bool := forallb (fun b => negb (b =? 0)) bs.

Lemma c_str_nonzero bs : nonzero bs = true -> c_str bs = bs.
Proof.
  induction bs as [|b r IH]; intros H; [reflexivity|].
  simpl in H. apply andb_true_iff in H. destruct H as [Hb Hr].
  simpl. destruct (b =? 0); [discriminate|]. rewrite IH by exact Hr. reflexivity.
Qed.

Lemma nonzero_firstn_1 b0 r : b0 <> 0 -> nonzero (firstn 1 (b0 :: r)) = true.
Proof. intros. simpl. unfold nonzero. simpl. destruct (b0 =? 0) eqn:E; [lia | reflexivity]. Qed.

Lemma is_trail_nonzero x : is_trail x = true -> x <> 0.
Proof. unfold is_trail, schar, fu8_trail_bound. intros H E. subst x. simpl in H. discriminate. Qed.

Lemma decode_nonzero bs c n : decode_utf8 bs = Some (c, n) -> c <> 0 ->
  nonzero (firstn (Z.to_nat n) bs) = true.
Proof.
  unfold decode_utf8. destruct bs as [|b0 r]; [discriminate|]. unfold_u8.
  set (len := Z.of_nat (length (b0 :: r))).
  destruct (b0 <? 128) eqn:B1.
  { intros E Hc. inversion E; subst. apply nonzero_firstn_1. exact Hc. }
  assert (b0 <> 0) as Hb0 by lia.
  destruct ((2 <=? len) && (Z.land b0 224 =? 192)) eqn:C2.
  { destruct (is_trail (byte_at (b0 :: r) 1)) eqn:T1; [|discriminate].
    destruct (_ && _) in |- *; [|discriminate]. intros E _. inversion E; subst.
    destruct r as [|b1 r]; [unfold len in C2; simpl in C2; lia|].
    apply is_trail_nonzero in T1. unfold byte_at in T1. simpl in T1.
    unfold nonzero. simpl. destruct (b0 =? 0) eqn:E0; [lia|]. destruct (b1 =? 0) eqn:E1; [lia|]. reflexivity. }
  destruct ((3 <=? len) && (Z.land b0 240 =? 224)) eqn:C3.
  { destruct (is_trail (byte_at (b0 :: r) 1)) eqn:T1; [|discriminate].
    destruct (is_trail (byte_at (b0 :: r) 2)) eqn:T2; [|discriminate].
    destruct (_ && _) in |- *; [|discriminate]. intros E _. inversion E; subst.
    destruct r as [|b1 [|b2 r]]; try (unfold len in C3; simpl in C3; lia).
    apply is_trail_nonzero in T1, T2. unfold byte_at in T1, T2. simpl in T1, T2.
    unfold nonzero. simpl. destruct (b0 =? 0) eqn:E0; [lia|]. destruct (b1 =? 0) eqn:E1; [lia|].
    destruct (b2 =? 0) eqn:E2; [lia|]. reflexivity. }
  destruct ((4 <=? len) && (Z.land b0 248 =? 240)) eqn:C4.
  { destruct (is_trail (byte_at (b0 :: r) 1)) eqn:T1; [|discriminate].
    destruct (is_trail (byte_at (b0 :: r) 2)) eqn:T2; [|discriminate].
    destruct (is_trail (byte_at (b0 :: r) 3)) eqn:T3; [|discriminate].
    destruct (_ && _) in |- *; [|discriminate]. intros E _. inversion E; subst.
    destruct r as [|b1 [|b2 [|b3 r]]]; try (unfold len in C4; simpl in C4; lia).
    apply is_trail_nonzero in T1, T2, T3. unfold byte_at in T1, T2, T3. simpl in T1, T2, T3.
    unfold nonzero. simpl. destruct (b0 =? 0) eqn:E0; [lia|]. destruct (b1 =? 0) eqn:E1; [lia|].
    destruct (b2 =? 0) eqn:E2; [lia|]. destruct (b3 =? 0) eqn:E3; [lia|]. reflexivity. }
  discriminate.
Qed.

Lemma is_delim_in ds c : is_delim ds c = true -> In c ds.
Proof.
  unfold is_delim. induction ds as [|d r IH]; simpl; [discriminate|].
  destruct (d =? c) eqn:E; [intros _; left; lia|].
  destruct (find_delimiter r c); [|discriminate]. intros _. right. apply IH. reflexivity.
Qed.

Lemma all_delims_nonzero ds : ~ In 0 ds -> forall fuel bs, all_delims fuel ds bs = true -> nonzero bs = true.
Proof.
  intros H0. induction fuel as [|f IH]; intros bs H.
  - destruct bs; [reflexivity | discriminate].
  - destruct bs as [|b r]; [reflexivity|]. set (bs := b :: r) in *.
    rewrite all_delims_S in H by discriminate.
    destruct (decode_utf8 bs) as [[c n]|] eqn:Ed; [|discriminate].
    apply andb_true_iff in H. destruct H as [Hc Hr].
    rewrite <- (firstn_skipn (Z.to_nat n) bs). unfold nonzero. rewrite forallb_app.
    fold (nonzero (firstn (Z.to_nat n) bs)). fold (nonzero (skipn (Z.to_nat n) bs)).
    rewrite (decode_nonzero bs c n Ed), (IH _ Hr); [reflexivity|].
    intros E. subst c. apply H0. apply is_delim_in. exact Hc.
Qed.

(* ---------- the whole tool ---------- *)
(* pieces and withheld runs of a line as a total function *)
Definition wrap_fn (o : wopts) (line : list Z) : list (list Z) * list (list Z) :=
  match wrap_lines line o with WOk ps ds => (ps, ds) | _ => ([], []) end.

(* the output line for input line l: the child's answers re-joined with the withheld runs *)
Definition rejoined (o : wopts) (g : list Z -> list Z) (l : list Z) : list Z :=
  let (ps, ds) := wrap_fn o l in interleave (map g ps) (map c_str ds).

Lemma tool_lines_spec o g : forall ls,
  Forall (fun l => utf8_valid l = true /\ short_line l) ls ->
  tool_lines o g false ls = TOk (unrecords 10 (map (rejoined o g) ls)).
Proof.
  induction ls as [|l r IH]; intros H; [reflexivity|].
  inversion H as [|? ? [Hv Hs] Hr]; subst.
  destruct (wrap_lines_correct l o Hv Hs) as (ps & ds & E & Hlen & _).
  simpl. rewrite E. unfold cr_strip.
  rewrite join_spec by (rewrite map_length; exact Hlen).
  rewrite (IH Hr). unfold rejoined, wrap_fn. rewrite E.
  unfold unrecords. simpl. rewrite map_ext with (g := g) by reflexivity. rewrite <- app_assoc. reflexivity.
Qed.

Lemma forallb_no_delim_concat ls : no_delim 10 (concat ls) = true -> forallb (no_delim 10) ls = true.
Proof.
  induction ls as [|l r IH]; [reflexivity|]. simpl. unfold no_delim in *. rewrite forallb_app.
  intros H. apply andb_true_iff in H. destruct H as [H1 H2]. rewrite H1. simpl. apply IH. exact H2.
Qed.

(* every output line is the child's answers for that line's pieces re-joined with
   the withheld runs; as many output lines as input lines *)
Theorem tool_join_spec_proof o g ls :
  Forall (fun l => utf8_valid l = true /\ short_line l) ls -> forallb (no_delim 10) ls = true ->
  foldfilter_tool o g (unrecords 10 ls) = TOk (unrecords 10 (map (rejoined o g) ls)).
Proof.
  intros H Hlf. unfold foldfilter_tool, foldfilter, fold_feeder_strip_cr, fold_collector_strip_cr.
  rewrite (records_unrecords 10 ls Hlf). apply tool_lines_spec. exact H.
Qed.

Lemma rejoined_identity o l : utf8_valid l = true -> short_line l -> ~ In 0 (w_delims o) ->
  rejoined o (fun x => x) l = l.
Proof.
  intros Hv Hs H0. destruct (wrap_lines_correct l o Hv Hs) as (ps & ds & E & Hlen & _ & Hi & _ & Hd).
  unfold rejoined, wrap_fn. rewrite E. rewrite map_id.
  replace (map c_str ds) with ds; [exact Hi|].
  symmetry. rewrite <- (map_id ds) at 2. apply map_ext_in. intros d Hin.
  rewrite Forall_forall in Hd. destruct (Hd d Hin) as [Ha _].
  apply c_str_nonzero. eapply all_delims_nonzero; eauto.
Qed.

Theorem tool_identity_proof o ls :
  Forall (fun l => utf8_valid l = true /\ short_line l) ls -> forallb (no_delim 10) ls = true ->
  ~ In 0 (w_delims o) ->
  foldfilter_tool o (fun x => x) (unrecords 10 ls) = TOk (unrecords 10 ls).
Proof.
  intros H Hlf H0. rewrite (tool_join_spec_proof o _ ls H Hlf). f_equal. f_equal.
  rewrite <- (map_id ls) at 2. apply map_ext_in. intros l Hl.
  rewrite Forall_forall in H. destruct (H l Hl). apply rejoined_identity; assumption.
Qed.

(* ---------- the width option ---------- *)
Theorem cli_identity_proof wstr w keep delims ls :
  parse_width wstr = Some w ->
  Forall (fun l => utf8_valid l = true /\ short_line l) ls -> forallb (no_delim 10) ls = true ->
  ~ In 0 delims ->
  foldfilter_cli wstr keep delims (fun x => x) (unrecords 10 ls) = CRun (TOk (unrecords 10 ls)).
Proof.
  intros Hp H Hlf H0. unfold foldfilter_cli. rewrite Hp. f_equal.
  apply (tool_identity_proof {| w_width := w; w_keep := keep; w_delims := delims |} ls H Hlf H0).
Qed.

Lemma digits_value_acc : forall s acc v, digits_value acc s = Some v -> acc <= v \/ acc < 0.
Proof.
  induction s as [|c r IH]; intros acc v H; simpl in H.
  - inversion H. lia.
  - destruct ((48 <=? c) && (c <=? 57)) eqn:E; [|discriminate].
    destruct (IH _ _ H) as [I | I]; lia.
Qed.

(* what is accepted as a width: non-empty, decimal digits only, below 2^64 *)
Theorem parse_width_spec s w : parse_width s = Some w ->
  s <> [] /\ forallb (fun c => (48 <=? c) && (c <=? 57)) s = true /\ 0 <= w < 18446744073709551616.
Proof.
  unfold parse_width. destruct s as [|c r]; [discriminate|]. set (l := c :: r).
  destruct (digits_value 0 l) as [v|] eqn:E; [|discriminate].
  destruct (v <? 18446744073709551616) eqn:Ev; [|discriminate]. intros H. inversion H; subst.
  split; [discriminate|]. split.
  - clear Ev H. revert E. generalize 0 at 1. induction l as [|x l IH]; intros acc E; [reflexivity|].
    simpl in E. simpl. destruct ((48 <=? x) && (x <=? 57)); [|discriminate]. simpl. eapply IH; eauto.
  - destruct (digits_value_acc _ _ _ E); lia.
Qed.

(* ================= the stream-level data flow agrees with the per-line view ================= *)
Lemma no_delim_app' d a b : no_delim d (a ++ b) = no_delim d a && no_delim d b.
Proof. unfold no_delim. apply forallb_app. Qed.

(* pieces of an LF-free line are LF-free *)
Lemma interleave_no_lf : forall ps ds, length ps = length ds -> no_delim 10 (interleave ps ds) = true ->
  forallb (no_delim 10) ps = true.
Proof.
  induction ps as [|p ps IH]; intros ds Hl H; [reflexivity|].
  destruct ds as [|d ds]; [discriminate|]. simpl in H.
  rewrite !no_delim_app' in H. apply andb_true_iff in H. destruct H as [Hp H].
  apply andb_true_iff in H. destruct H as [_ H].
  simpl. rewrite Hp. simpl. apply (IH ds); [simpl in Hl; lia | exact H].
Qed.

Lemma join_app : forall answers dels more, length answers = length dels ->
  join (answers ++ more) dels = Some (interleave answers (map c_str dels), more).
Proof.
  induction answers as [|a ar IH]; intros dels more H; destruct dels as [|d dr]; try discriminate.
  - simpl. destruct more; reflexivity.
  - simpl. rewrite IH by (simpl in H; lia). reflexivity.
Qed.

Definition lp (g : list Z -> list Z) : Prop := forall l, no_delim 10 l = true -> no_delim 10 (g l) = true.

Lemma wrap_all_spec o g : lp g -> forall ls,
  Forall (fun l => utf8_valid l = true /\ short_line l) ls -> forallb (no_delim 10) ls = true ->
  exists pieces dss,
    wrap_all o ls = WAOk pieces dss /\ forallb (no_delim 10) pieces = true /\
    collect_lines dss (map g pieces) = Some (map (rejoined o g) ls).
Proof.
  intros Hg. induction ls as [|l r IH]; intros H Hlf.
  - exists [], []. repeat split.
  - inversion H as [|? ? [Hv Hs] Hr]; subst. simpl in Hlf. apply andb_true_iff in Hlf. destruct Hlf as [Hl Hlfr].
    destruct (wrap_lines_correct l o Hv Hs) as (ps & ds & E & Hlen & _ & Hi & _).
    destruct (IH Hr Hlfr) as (ps' & dss & E' & Hn' & Hc').
    assert (forallb (no_delim 10) ps = true) as Hn by (apply (interleave_no_lf ps ds Hlen); rewrite Hi; exact Hl).
    exists (ps ++ ps'), (ds :: dss). simpl. rewrite E, E'. split; [reflexivity|]. split.
    + rewrite forallb_app, Hn, Hn'. reflexivity.
    + rewrite map_app. simpl. rewrite join_app by (rewrite map_length; exact Hlen). rewrite Hc'.
      unfold rejoined at 2, wrap_fn. rewrite E. reflexivity.
Qed.

(* With a line-preserving child, the tool as it really moves data (one stream of all pieces to the
   child, one stream of answers back, the collector counting answers per queue entry) produces for
   every line exactly that line's pieces' answers re-joined: no answer is attributed to a
   neighbouring line. *)
Theorem stream_attribution_proof o g ls : lp g ->
  Forall (fun l => utf8_valid l = true /\ short_line l) ls -> forallb (no_delim 10) ls = true ->
  foldfilter_stream o (line_child g) fold_feeder_strip_cr fold_collector_strip_cr (unrecords 10 ls)
  = TOk (unrecords 10 (map (rejoined o g) ls)).
Proof.
  intros Hg H Hlf. unfold foldfilter_stream, fold_feeder_strip_cr, fold_collector_strip_cr, line_child.
  rewrite (records_unrecords 10 ls Hlf).
  destruct (wrap_all_spec o g Hg ls H Hlf) as (pieces & dss & E & Hn & Hc). rewrite E.
  rewrite (records_unrecords 10 pieces Hn).
  rewrite records_unrecords.
  - rewrite Hc. reflexivity.
  - rewrite forallb_forall. intros x Hx. apply in_map_iff in Hx. destruct Hx as (p & <- & Hp).
    apply Hg. rewrite forallb_forall in Hn. apply Hn. exact Hp.
Qed.

(* whatever the child does: success means it wrote at least one line per piece *)
Lemma join_consumes : forall dels answers s rest, join answers dels = Some (s, rest) ->
  length answers = (length dels + length rest)%nat.
Proof.
  induction dels as [|d dr IH]; intros answers s rest H.
  - destruct answers; simpl in H; inversion H; subst; reflexivity.
  - destruct answers as [|a ar]; simpl in H; [discriminate|].
    destruct (join ar dr) as [[s' rest']|] eqn:E; [|discriminate]. inversion H; subst.
    simpl. rewrite (IH _ _ _ E). reflexivity.
Qed.

Lemma collect_lines_consumes : forall dss answers out, collect_lines dss answers = Some out ->
  (length (concat dss) <= length answers)%nat /\ length out = length dss.
Proof.
  induction dss as [|ds r IH]; intros answers out H.
  - simpl in H. inversion H; subst. simpl. split; [lia | reflexivity].
  - simpl in H. destruct (join answers ds) as [[s rest]|] eqn:E; [|discriminate].
    destruct (collect_lines r rest) as [o'|] eqn:E'; [|discriminate]. inversion H; subst.
    destruct (IH _ _ E') as [I1 I2]. rewrite (join_consumes _ _ _ _ E). simpl. rewrite app_length, I2. split; [lia | reflexivity].
Qed.

(* ================= children with memory (answer i may depend on all lines read) ================= *)
Definition one_per_line (A : list (list Z) -> list (list Z)) : Prop :=
  forall ls, forallb (no_delim 10) ls = true -> length (A ls) = length ls /\ forallb (no_delim 10) (A ls) = true.

(* output line k = the answer lines at the positions of line k's pieces, re-joined with line k's withheld runs *)
Definition rejoined_stream (o : wopts) (A : list (list Z) -> list (list Z)) (ls : list (list Z)) : list (list Z) :=
  let wl := map (wrap_fn o) ls in
  map (fun x => interleave (snd x) (map c_str (snd (fst x))))
      (combine wl (chunks (map (fun w => length (snd w)) wl) (A (concat (map fst wl))))).

Lemma collect_lines_chunks : forall dss answers, length answers = length (concat dss) ->
  collect_lines dss answers
  = Some (map (fun x => interleave (snd x) (map c_str (fst x))) (combine dss (chunks (map (@length (list Z)) dss) answers))).
Proof.
  induction dss as [|ds r IH]; intros answers Hl; [reflexivity|].
  simpl concat in Hl. rewrite app_length in Hl.
  assert (length (firstn (length ds) answers) = length ds) as Hf by (rewrite firstn_length; lia).
  cbn [collect_lines]. rewrite <- (firstn_skipn (length ds) answers) at 1.
  rewrite (join_app _ ds _ Hf). rewrite (IH (skipn (length ds) answers)) by (rewrite skipn_length; lia).
  reflexivity.
Qed.

Lemma wrap_all_fn o : forall ls, Forall (fun l => utf8_valid l = true /\ short_line l) ls ->
  forallb (no_delim 10) ls = true ->
  wrap_all o ls = WAOk (concat (map fst (map (wrap_fn o) ls))) (map snd (map (wrap_fn o) ls)) /\
  forallb (no_delim 10) (concat (map fst (map (wrap_fn o) ls))) = true /\
  length (concat (map fst (map (wrap_fn o) ls))) = length (concat (map snd (map (wrap_fn o) ls))).
Proof.
  induction ls as [|l r IH]; intros H Hlf; [repeat split|].
  inversion H as [|? ? [Hv Hs] Hr]; subst. simpl in Hlf. apply andb_true_iff in Hlf. destruct Hlf as [Hl Hlfr].
  destruct (wrap_lines_correct l o Hv Hs) as (ps & ds & E & Hlen & _ & Hi & _).
  destruct (IH Hr Hlfr) as (E' & Hn' & Hl').
  assert (forallb (no_delim 10) ps = true) as Hn by (apply (interleave_no_lf ps ds Hlen); rewrite Hi; exact Hl).
  assert (wrap_fn o l = (ps, ds)) as Ew by (unfold wrap_fn; rewrite E; reflexivity).
  cbn [map wrap_all concat]. rewrite Ew, E. cbn [fst snd]. rewrite E'. split; [reflexivity|]. split.
  - rewrite forallb_app, Hn, Hn'. reflexivity.
  - rewrite !app_length, Hl', Hlen. reflexivity.
Qed.

Theorem stream_attribution_stateful_proof o A ls : one_per_line A ->
  Forall (fun l => utf8_valid l = true /\ short_line l) ls -> forallb (no_delim 10) ls = true ->
  foldfilter_stream o (answers_child A) fold_feeder_strip_cr fold_collector_strip_cr (unrecords 10 ls)
  = TOk (unrecords 10 (rejoined_stream o A ls)).
Proof.
  intros HA H Hlf. unfold foldfilter_stream, fold_feeder_strip_cr, fold_collector_strip_cr, answers_child.
  rewrite (records_unrecords 10 ls Hlf).
  destruct (wrap_all_fn o ls H Hlf) as (E & Hn & Hlen). rewrite E.
  rewrite (records_unrecords 10 _ Hn).
  destruct (HA _ Hn) as [HlA HnA].
  rewrite (records_unrecords 10 _ HnA).
  rewrite collect_lines_chunks by (rewrite HlA; exact Hlen).
  unfold rejoined_stream. f_equal. f_equal.
  set (wl := map (wrap_fn o) ls). rewrite map_map.
  generalize (A (concat (map fst wl))) as answers. clear.
  induction wl as [|w r IH]; intros answers; [reflexivity|].
  simpl. rewrite IH. reflexivity.
Qed.
