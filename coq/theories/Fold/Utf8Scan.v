(* Executable model of util::DecodeUTF8 (util/utf8.hh), branch for branch, with the
   constants regenerated from the source (Gen/Src_utf8scan.v), and the acceptance test
   built on it.  Separate from Fold/FoldDefs.v so that the exhaustive sweeps of
   Fold/Utf8Grammar.v are re-run only when the scanner changes.  Model only. *)
From PP Require Export Base.Bytes Gen.Src_utf8scan.
Local Open Scope Z_scope.

(* ---------- util::DecodeUTF8 (util/utf8.hh) ---------- *)

(* IsTrailByte(char x): static_cast<signed char>(x) < -0x40 *)
Definition schar (x : Z) : Z := if x <? 128 then x else x - 256.
Definition is_trail (x : Z) : bool := schar x <? fu8_trail_bound.

Definition is_valid_cp (c : Z) : bool :=
  (c <? fu8_valid_lt) || ((fu8_valid_ge <=? c) && (c <=? fu8_valid_le)).

Definition byte_at (bs : list Z) (i : nat) : Z := nth i bs 0.

(* begin = bs (non-empty), end - begin = length bs.  None = NotUTF8Exception *)
Definition decode_utf8 (bs : list Z) : option (Z * Z) :=
  match bs with
  | [] => None
  | b0 :: _ =>
    let len := Z.of_nat (length bs) in
    if b0 <? fu8_b1_lt then Some (b0, fu8_b1_len)
    else if (fu8_b2_len <=? len) && (Z.land b0 fu8_b2_leadmask =? fu8_b2_leadval) then
      let cp := Z.lor (Z.shiftl (Z.land b0 fu8_b2_m0) fu8_b2_s0) (Z.land (byte_at bs 1) fu8_b2_m1) in
      if is_trail (byte_at bs 1) && (fu8_b2_min <=? cp) && is_valid_cp cp
      then Some (cp, fu8_b2_mblen) else None
    else if (fu8_b3_len <=? len) && (Z.land b0 fu8_b3_leadmask =? fu8_b3_leadval) then
      let cp := Z.lor (Z.lor (Z.shiftl (Z.land b0 fu8_b3_m0) fu8_b3_s0)
                             (Z.shiftl (Z.land (byte_at bs 1) fu8_b3_m1) fu8_b3_s1))
                      (Z.land (byte_at bs 2) fu8_b3_m2) in
      if is_trail (byte_at bs 1) && is_trail (byte_at bs 2) && (fu8_b3_min <=? cp) && is_valid_cp cp
      then Some (cp, fu8_b3_mblen) else None
    else if (fu8_b4_len <=? len) && (Z.land b0 fu8_b4_leadmask =? fu8_b4_leadval) then
      let cp := Z.lor (Z.lor (Z.lor (Z.shiftl (Z.land b0 fu8_b4_m0) fu8_b4_s0)
                                    (Z.shiftl (Z.land (byte_at bs 1) fu8_b4_m1) fu8_b4_s1))
                             (Z.shiftl (Z.land (byte_at bs 2) fu8_b4_m2) fu8_b4_s2))
                      (Z.land (byte_at bs 3) fu8_b4_m3) in
      if is_trail (byte_at bs 1) && is_trail (byte_at bs 2) && is_trail (byte_at bs 3)
         && (fu8_b4_min <=? cp) && is_valid_cp cp
      then Some (cp, fu8_b4_mblen) else None
    else None
  end.

(* number of code points if bs is accepted by the scanner, None otherwise *)
Fixpoint count_cps (fuel : nat) (bs : list Z) : option nat :=
  match bs with
  | [] => Some O
  | _ =>
    match fuel with
    | O => None
    | S f =>
      match decode_utf8 bs with
      | None => None
      | Some (_, n) =>
        match count_cps f (skipn (Z.to_nat n) bs) with
        | Some k => Some (S k)
        | None => None
        end
      end
    end
  end.

Definition utf8_valid (bs : list Z) : bool :=
  match count_cps (length bs) bs with Some _ => true | None => false end.

