(* The premise "valid UTF-8" of the C07 theorems, stated independently of the
   scanner: Unicode's Table 3-7 (well-formed UTF-8 byte sequences) as an
   inductive grammar, and the proof that every such byte string is accepted by
   the model of util::DecodeUTF8 ([utf8_valid]).  The per-row facts are finite
   sweeps over the regenerated constants (vm_compute), lifted by range lemmas. *)
From PP Require Import Fold.Utf8Scan Unicode.Utf8Enc.
(* (no dependency on Fold/FoldProofs.v: the sweeps below are expensive and must only be
   re-run when the scanner model or its regenerated constants change) *)
From Coq Require Import ZifyBool.
Local Open Scope Z_scope.

Definition rng (lo hi b : Z) : Prop := lo <= b <= hi.

(* Table 3-7, one constructor per row *)
Inductive WF : list Z -> Prop :=
| wf_nil : WF []
| wf_1 b0 r : rng 0 127 b0 -> WF r -> WF (b0 :: r)
| wf_2 b0 b1 r : rng 194 223 b0 -> rng 128 191 b1 -> WF r -> WF (b0 :: b1 :: r)
| wf_3a b1 b2 r : rng 160 191 b1 -> rng 128 191 b2 -> WF r -> WF (224 :: b1 :: b2 :: r)
| wf_3b b0 b1 b2 r : rng 225 236 b0 -> rng 128 191 b1 -> rng 128 191 b2 -> WF r -> WF (b0 :: b1 :: b2 :: r)
| wf_3c b1 b2 r : rng 128 159 b1 -> rng 128 191 b2 -> WF r -> WF (237 :: b1 :: b2 :: r)
| wf_3d b0 b1 b2 r : rng 238 239 b0 -> rng 128 191 b1 -> rng 128 191 b2 -> WF r -> WF (b0 :: b1 :: b2 :: r)
| wf_4a b1 b2 b3 r : rng 144 191 b1 -> rng 128 191 b2 -> rng 128 191 b3 -> WF r -> WF (240 :: b1 :: b2 :: b3 :: r)
| wf_4b b0 b1 b2 b3 r : rng 241 243 b0 -> rng 128 191 b1 -> rng 128 191 b2 -> rng 128 191 b3 -> WF r ->
    WF (b0 :: b1 :: b2 :: b3 :: r)
| wf_4c b1 b2 b3 r : rng 128 143 b1 -> rng 128 191 b2 -> rng 128 191 b3 -> WF r -> WF (244 :: b1 :: b2 :: b3 :: r).

Lemma count_cps_S f bs : bs <> [] ->
  count_cps (S f) bs =
  match decode_utf8 bs with
  | None => None
  | Some (_, n) => match count_cps f (skipn (Z.to_nat n) bs) with Some k => Some (S k) | None => None end
  end.
Proof. destruct bs; [congruence | reflexivity]. Qed.

(* ---------- ranges as lists ---------- *)
Definition zrange (lo hi : Z) : list Z := map (fun k => lo + Z.of_nat k) (seq 0 (Z.to_nat (hi - lo + 1))).

Lemma in_zrange lo hi b : rng lo hi b -> In b (zrange lo hi).
Proof.
  unfold rng, zrange. intros H. apply in_map_iff. exists (Z.to_nat (b - lo)). split; [lia|].
  apply in_seq. lia.
Qed.

(* the scanner consumes exactly n bytes of bs, and encoding the code point it returns
   gives bs back *)
Definition dec_is (n : Z) (bs : list Z) : bool :=
  match decode_utf8 bs with Some (c, m) => (m =? n) && bytes_eqb (utf8_of_cp c) bs | None => false end.

Lemma bytes_eqb_eq a : forall b, bytes_eqb a b = true -> a = b.
Proof.
  induction a as [|x a IH]; intros [|y b] H; try discriminate; [reflexivity|].
  simpl in H. apply andb_true_iff in H. destruct H as [H1 H2]. apply Z.eqb_eq in H1. subst. f_equal. apply IH. exact H2.
Qed.

Lemma dec_is_some n bs : dec_is n bs = true -> exists c, decode_utf8 bs = Some (c, n) /\ utf8_of_cp c = bs.
Proof.
  unfold dec_is. destruct (decode_utf8 bs) as [[c m]|]; [|discriminate].
  intros H. apply andb_true_iff in H. destruct H as [H1 H2]. apply Z.eqb_eq in H1. subst. exists c.
  split; [reflexivity | apply bytes_eqb_eq; exact H2].
Qed.

(* ---------- the sweeps (finite; over the regenerated constants) ---------- *)
Definition sweep1 (l0 : list Z) := forallb (fun b0 => dec_is 1 [b0]) l0.
Definition sweep2 (l0 l1 : list Z) := forallb (fun b0 => forallb (fun b1 => dec_is 2 [b0; b1]) l1) l0.
Definition sweep3 (l0 l1 l2 : list Z) :=
  forallb (fun b0 => forallb (fun b1 => forallb (fun b2 => dec_is 3 [b0; b1; b2]) l2) l1) l0.
Definition sweep4 (l0 l1 l2 l3 : list Z) :=
  forallb (fun b0 => forallb (fun b1 => forallb (fun b2 => forallb (fun b3 => dec_is 4 [b0; b1; b2; b3]) l3) l2) l1) l0.

Lemma row1 : sweep1 (zrange 0 127) = true. Proof. vm_compute. reflexivity. Qed.
Lemma row2 : sweep2 (zrange 194 223) (zrange 128 191) = true. Proof. vm_compute. reflexivity. Qed.
Lemma row3a : sweep3 [224] (zrange 160 191) (zrange 128 191) = true. Proof. vm_compute. reflexivity. Qed.
Lemma row3b : sweep3 (zrange 225 236) (zrange 128 191) (zrange 128 191) = true. Proof. vm_compute. reflexivity. Qed.
Lemma row3c : sweep3 [237] (zrange 128 159) (zrange 128 191) = true. Proof. vm_compute. reflexivity. Qed.
Lemma row3d : sweep3 (zrange 238 239) (zrange 128 191) (zrange 128 191) = true. Proof. vm_compute. reflexivity. Qed.
Lemma row4a : sweep4 [240] (zrange 144 191) (zrange 128 191) (zrange 128 191) = true. Proof. vm_compute. reflexivity. Qed.
Lemma row4b : sweep4 (zrange 241 243) (zrange 128 191) (zrange 128 191) (zrange 128 191) = true. Proof. vm_compute. reflexivity. Qed.
Lemma row4c : sweep4 [244] (zrange 128 143) (zrange 128 191) (zrange 128 191) = true. Proof. vm_compute. reflexivity. Qed.

Lemma sweep1_at l0 b0 : sweep1 l0 = true -> In b0 l0 -> dec_is 1 [b0] = true.
Proof. unfold sweep1. rewrite forallb_forall. auto. Qed.
Lemma sweep2_at l0 l1 b0 b1 : sweep2 l0 l1 = true -> In b0 l0 -> In b1 l1 -> dec_is 2 [b0; b1] = true.
Proof.
  unfold sweep2. rewrite forallb_forall. intros H H0 H1. specialize (H b0 H0).
  rewrite forallb_forall in H. auto.
Qed.
Lemma sweep3_at l0 l1 l2 b0 b1 b2 : sweep3 l0 l1 l2 = true -> In b0 l0 -> In b1 l1 -> In b2 l2 ->
  dec_is 3 [b0; b1; b2] = true.
Proof.
  unfold sweep3. rewrite forallb_forall. intros H H0 H1 H2. specialize (H b0 H0).
  rewrite forallb_forall in H. specialize (H b1 H1). rewrite forallb_forall in H. auto.
Qed.
Lemma sweep4_at l0 l1 l2 l3 b0 b1 b2 b3 : sweep4 l0 l1 l2 l3 = true ->
  In b0 l0 -> In b1 l1 -> In b2 l2 -> In b3 l3 -> dec_is 4 [b0; b1; b2; b3] = true.
Proof.
  unfold sweep4. rewrite forallb_forall. intros H H0 H1 H2 H3. specialize (H b0 H0).
  rewrite forallb_forall in H. specialize (H b1 H1). rewrite forallb_forall in H. specialize (H b2 H2).
  rewrite forallb_forall in H. auto.
Qed.

(* ---------- what follows a complete sequence does not matter ---------- *)
Lemma byte_at_app pre rest j : (j < length pre)%nat -> byte_at (pre ++ rest) j = byte_at pre j.
Proof. intros H. unfold byte_at. apply app_nth1. exact H. Qed.

Lemma decode_extend pre rest c n : decode_utf8 pre = Some (c, n) -> Z.of_nat (length pre) = n ->
  decode_utf8 (pre ++ rest) = Some (c, n).
Proof.
  intros H Hl. unfold decode_utf8 in *. destruct pre as [|b0 r]; [discriminate|].
  change ((b0 :: r) ++ rest) with (b0 :: r ++ rest).
  unfold fu8_b1_lt, fu8_b1_len, fu8_b2_len, fu8_b2_leadmask, fu8_b2_leadval, fu8_b2_m0, fu8_b2_s0, fu8_b2_m1,
    fu8_b2_min, fu8_b2_mblen, fu8_b3_len, fu8_b3_leadmask, fu8_b3_leadval, fu8_b3_m0, fu8_b3_s0, fu8_b3_m1,
    fu8_b3_s1, fu8_b3_m2, fu8_b3_min, fu8_b3_mblen, fu8_b4_len, fu8_b4_leadmask, fu8_b4_leadval, fu8_b4_m0,
    fu8_b4_s0, fu8_b4_m1, fu8_b4_s1, fu8_b4_m2, fu8_b4_s2, fu8_b4_m3, fu8_b4_min, fu8_b4_mblen in *.
  set (len := Z.of_nat (length (b0 :: r))) in *.
  set (len' := Z.of_nat (length (b0 :: r ++ rest))).
  assert (len <= len') as Hle by (unfold len, len'; simpl length; rewrite app_length; lia).
  change (b0 :: r ++ rest) with ((b0 :: r) ++ rest).
  destruct (b0 <? 128); [exact H|].
  destruct ((2 <=? len) && (Z.land b0 224 =? 192)) eqn:C2.
  { destruct (_ && _ && _) eqn:T in H; [|discriminate]. injection H as <- <-.
    replace ((2 <=? len') && (Z.land b0 224 =? 192)) with true by lia.
    rewrite !byte_at_app by (unfold len in Hl; lia). rewrite T. reflexivity. }
  destruct ((3 <=? len) && (Z.land b0 240 =? 224)) eqn:C3.
  { destruct (_ && _ && _ && _) eqn:T in H; [|discriminate]. injection H as <- <-.
    replace ((2 <=? len') && (Z.land b0 224 =? 192)) with false by lia.
    replace ((3 <=? len') && (Z.land b0 240 =? 224)) with true by lia.
    rewrite !byte_at_app by (unfold len in Hl; lia). rewrite T. reflexivity. }
  destruct ((4 <=? len) && (Z.land b0 248 =? 240)) eqn:C4.
  { destruct (_ && _ && _ && _ && _) eqn:T in H; [|discriminate]. injection H as <- <-.
    replace ((2 <=? len') && (Z.land b0 224 =? 192)) with false by lia.
    replace ((3 <=? len') && (Z.land b0 240 =? 224)) with false by lia.
    replace ((4 <=? len') && (Z.land b0 248 =? 240)) with true by lia.
    rewrite !byte_at_app by (unfold len in Hl; lia). rewrite T. reflexivity. }
  discriminate.
Qed.

(* number of code points of an accepted string, with any sufficient fuel *)
Lemma count_step pre rest n k fuel : dec_is n pre = true -> Z.of_nat (length pre) = n -> (1 <= length pre)%nat ->
  count_cps fuel rest = Some k -> count_cps (S fuel) (pre ++ rest) = Some (S k).
Proof.
  intros Hd Hl Hp Hr. destruct (dec_is_some n pre Hd) as [c [Hc _]].
  assert (pre ++ rest <> []) as Hne by (destruct pre; [simpl in Hp; lia | discriminate]).
  rewrite (count_cps_S fuel _ Hne), (decode_extend pre rest c n Hc Hl).
  replace (skipn (Z.to_nat n) (pre ++ rest)) with rest.
  - rewrite Hr. reflexivity.
  - rewrite <- Hl, Nat2Z.id. rewrite skipn_app, skipn_all, Nat.sub_diag. reflexivity.
Qed.

Lemma count_cps_mono : forall fuel bs k, count_cps fuel bs = Some k -> count_cps (S fuel) bs = Some k.
Proof.
  induction fuel as [|f IH]; intros bs k H.
  - destruct bs; [simpl in *; exact H | discriminate].
  - destruct bs as [|b r]; [simpl in *; exact H|]. set (l := b :: r) in *.
    rewrite count_cps_S in H by discriminate. rewrite count_cps_S by discriminate.
    destruct (decode_utf8 l) as [[c n]|]; [|discriminate].
    destruct (count_cps f (skipn (Z.to_nat n) l)) as [k'|] eqn:E; [|discriminate].
    rewrite (IH _ _ E). exact H.
Qed.

Lemma count_cps_more fuel fuel' bs k : count_cps fuel bs = Some k -> (fuel <= fuel')%nat -> count_cps fuel' bs = Some k.
Proof. intros H Hle. induction Hle; [exact H | apply count_cps_mono; assumption]. Qed.

Theorem wf_accepted bs : WF bs -> exists k, count_cps (length bs) bs = Some k.
Proof.
  induction 1 as [| b0 r R0 _ [k IH] | b0 b1 r R0 R1 _ [k IH] | b1 b2 r R1 R2 _ [k IH] | b0 b1 b2 r R0 R1 R2 _ [k IH]
                 | b1 b2 r R1 R2 _ [k IH] | b0 b1 b2 r R0 R1 R2 _ [k IH] | b1 b2 b3 r R1 R2 R3 _ [k IH]
                 | b0 b1 b2 b3 r R0 R1 R2 R3 _ [k IH] | b1 b2 b3 r R1 R2 R3 _ [k IH]].
  - exists O. reflexivity.
  - exists (S k). apply (count_step [b0] r 1 k (length r)); try reflexivity; try (simpl; lia); [|exact IH].
    apply (sweep1_at _ _ row1). apply in_zrange. exact R0.
  - exists (S k). apply (count_step [b0; b1] r 2 k (S (length r))); try reflexivity; try (simpl; lia).
    + apply (sweep2_at _ _ _ _ row2); apply in_zrange; assumption.
    + eapply count_cps_more; [exact IH | lia].
  - exists (S k). apply (count_step [224; b1; b2] r 3 k (S (S (length r)))); try reflexivity; try (simpl; lia).
    + apply (sweep3_at _ _ _ _ _ _ row3a); [left; reflexivity | |]; apply in_zrange; assumption.
    + eapply count_cps_more; [exact IH | lia].
  - exists (S k). apply (count_step [b0; b1; b2] r 3 k (S (S (length r)))); try reflexivity; try (simpl; lia).
    + apply (sweep3_at _ _ _ _ _ _ row3b); apply in_zrange; assumption.
    + eapply count_cps_more; [exact IH | lia].
  - exists (S k). apply (count_step [237; b1; b2] r 3 k (S (S (length r)))); try reflexivity; try (simpl; lia).
    + apply (sweep3_at _ _ _ _ _ _ row3c); [left; reflexivity | |]; apply in_zrange; assumption.
    + eapply count_cps_more; [exact IH | lia].
  - exists (S k). apply (count_step [b0; b1; b2] r 3 k (S (S (length r)))); try reflexivity; try (simpl; lia).
    + apply (sweep3_at _ _ _ _ _ _ row3d); apply in_zrange; assumption.
    + eapply count_cps_more; [exact IH | lia].
  - exists (S k). apply (count_step [240; b1; b2; b3] r 4 k (S (S (S (length r))))); try reflexivity; try (simpl; lia).
    + apply (sweep4_at _ _ _ _ _ _ _ _ row4a); [left; reflexivity | | |]; apply in_zrange; assumption.
    + eapply count_cps_more; [exact IH | lia].
  - exists (S k). apply (count_step [b0; b1; b2; b3] r 4 k (S (S (S (length r))))); try reflexivity; try (simpl; lia).
    + apply (sweep4_at _ _ _ _ _ _ _ _ row4b); apply in_zrange; assumption.
    + eapply count_cps_more; [exact IH | lia].
  - exists (S k). apply (count_step [244; b1; b2; b3] r 4 k (S (S (S (length r))))); try reflexivity; try (simpl; lia).
    + apply (sweep4_at _ _ _ _ _ _ _ _ row4c); [left; reflexivity | | |]; apply in_zrange; assumption.
    + eapply count_cps_more; [exact IH | lia].
Qed.

(* every Table 3-7 byte string is valid input in the sense of the C07 theorems *)
Theorem wf_utf8_valid bs : WF bs -> utf8_valid bs = true.
Proof. intros H. unfold utf8_valid. destruct (wf_accepted bs H) as [k Hk]. rewrite Hk. reflexivity. Qed.

(* ---------- the same for the conversion to code points, with the round trip ---------- *)
Lemma cps_fuel_S' f bs : bs <> [] ->
  cps_of_utf8_fuel (S f) bs =
  match decode_utf8 bs with
  | None => None
  | Some (c, n) => match cps_of_utf8_fuel f (skipn (Z.to_nat n) bs) with Some r => Some (c :: r) | None => None end
  end.
Proof. destruct bs; [congruence | reflexivity]. Qed.

Lemma cps_mono : forall fuel bs cs, cps_of_utf8_fuel fuel bs = Some cs -> cps_of_utf8_fuel (S fuel) bs = Some cs.
Proof.
  induction fuel as [|f IH]; intros bs cs H.
  - destruct bs; [simpl in *; exact H | discriminate].
  - destruct bs as [|b r]; [simpl in *; exact H|]. set (l := b :: r) in *.
    rewrite cps_fuel_S' in H by discriminate. rewrite cps_fuel_S' by discriminate.
    destruct (decode_utf8 l) as [[c n]|]; [|discriminate].
    destruct (cps_of_utf8_fuel f (skipn (Z.to_nat n) l)) as [k'|] eqn:E; [|discriminate].
    rewrite (IH _ _ E). exact H.
Qed.

Lemma cps_more fuel fuel' bs cs : cps_of_utf8_fuel fuel bs = Some cs -> (fuel <= fuel')%nat -> cps_of_utf8_fuel fuel' bs = Some cs.
Proof. intros H Hle. induction Hle; [exact H | apply cps_mono; assumption]. Qed.

Lemma cps_step pre rest n cs fuel : dec_is n pre = true -> Z.of_nat (length pre) = n -> (1 <= length pre)%nat ->
  cps_of_utf8_fuel fuel rest = Some cs /\ utf8_of_cps cs = rest ->
  exists cs', cps_of_utf8_fuel (S fuel) (pre ++ rest) = Some cs' /\ utf8_of_cps cs' = pre ++ rest.
Proof.
  intros Hd Hl Hp [Hr Hu]. destruct (dec_is_some n pre Hd) as [c [Hc He]].
  assert (pre ++ rest <> []) as Hne by (destruct pre; [simpl in Hp; lia | discriminate]).
  exists (c :: cs). rewrite (cps_fuel_S' fuel _ Hne), (decode_extend pre rest c n Hc Hl).
  replace (skipn (Z.to_nat n) (pre ++ rest)) with rest.
  - rewrite Hr. split; [reflexivity|]. unfold utf8_of_cps in *. simpl. rewrite He, Hu. reflexivity.
  - rewrite <- Hl, Nat2Z.id. rewrite skipn_app, skipn_all, Nat.sub_diag. reflexivity.
Qed.

Theorem wf_roundtrip bs : WF bs -> exists cs, cps_of_utf8 bs = Some cs /\ utf8_of_cps cs = bs.
Proof.
  unfold cps_of_utf8.
  induction 1 as [| b0 r R0 _ [k IH] | b0 b1 r R0 R1 _ [k IH] | b1 b2 r R1 R2 _ [k IH] | b0 b1 b2 r R0 R1 R2 _ [k IH]
                 | b1 b2 r R1 R2 _ [k IH] | b0 b1 b2 r R0 R1 R2 _ [k IH] | b1 b2 b3 r R1 R2 R3 _ [k IH]
                 | b0 b1 b2 b3 r R0 R1 R2 R3 _ [k IH] | b1 b2 b3 r R1 R2 R3 _ [k IH]].
  - exists []. split; reflexivity.
  - apply (cps_step [b0] r 1 k (length r)); try reflexivity; try (simpl; lia); [|exact IH].
    apply (sweep1_at _ _ row1). apply in_zrange. exact R0.
  - apply (cps_step [b0; b1] r 2 k (S (length r))); try reflexivity; try (simpl; lia).
    + apply (sweep2_at _ _ _ _ row2); apply in_zrange; assumption.
    + destruct IH as [I1 I2]. split; [eapply cps_more; [exact I1 | lia] | exact I2].
  - apply (cps_step [224; b1; b2] r 3 k (S (S (length r)))); try reflexivity; try (simpl; lia).
    + apply (sweep3_at _ _ _ _ _ _ row3a); [left; reflexivity | |]; apply in_zrange; assumption.
    + destruct IH as [I1 I2]. split; [eapply cps_more; [exact I1 | lia] | exact I2].
  - apply (cps_step [b0; b1; b2] r 3 k (S (S (length r)))); try reflexivity; try (simpl; lia).
    + apply (sweep3_at _ _ _ _ _ _ row3b); apply in_zrange; assumption.
    + destruct IH as [I1 I2]. split; [eapply cps_more; [exact I1 | lia] | exact I2].
  - apply (cps_step [237; b1; b2] r 3 k (S (S (length r)))); try reflexivity; try (simpl; lia).
    + apply (sweep3_at _ _ _ _ _ _ row3c); [left; reflexivity | |]; apply in_zrange; assumption.
    + destruct IH as [I1 I2]. split; [eapply cps_more; [exact I1 | lia] | exact I2].
  - apply (cps_step [b0; b1; b2] r 3 k (S (S (length r)))); try reflexivity; try (simpl; lia).
    + apply (sweep3_at _ _ _ _ _ _ row3d); apply in_zrange; assumption.
    + destruct IH as [I1 I2]. split; [eapply cps_more; [exact I1 | lia] | exact I2].
  - apply (cps_step [240; b1; b2; b3] r 4 k (S (S (S (length r))))); try reflexivity; try (simpl; lia).
    + apply (sweep4_at _ _ _ _ _ _ _ _ row4a); [left; reflexivity | | |]; apply in_zrange; assumption.
    + destruct IH as [I1 I2]. split; [eapply cps_more; [exact I1 | lia] | exact I2].
  - apply (cps_step [b0; b1; b2; b3] r 4 k (S (S (S (length r))))); try reflexivity; try (simpl; lia).
    + apply (sweep4_at _ _ _ _ _ _ _ _ row4b); apply in_zrange; assumption.
    + destruct IH as [I1 I2]. split; [eapply cps_more; [exact I1 | lia] | exact I2].
  - apply (cps_step [244; b1; b2; b3] r 4 k (S (S (S (length r))))); try reflexivity; try (simpl; lia).
    + apply (sweep4_at _ _ _ _ _ _ _ _ row4c); [left; reflexivity | | |]; apply in_zrange; assumption.
    + destruct IH as [I1 I2]. split; [eapply cps_more; [exact I1 | lia] | exact I2].
Qed.

(* Table 3-7 bytes are bytes *)
Lemma wf_bytes_ok bs : WF bs -> bytes_okb bs = true.
Proof.
  induction 1; unfold rng in *; repeat (apply bytes_okb_cons; split; [lia|]); try assumption; reflexivity.
Qed.
