(* C06 -- shard partitions the input by key, stably, into always-valid files.
   Statements only; proofs in Shard/ShardProofs.v.  [keyhash] is the abstract
   64-bit key hash of a line, HashCallback(RangeFields(line, -f, -d)); the file
   index is [keyhash line mod n] (model of preprocess/shard_main.cc main()). *)
From PP Require Import Shard.ShardDefs Shard.ShardProofs Compress.CompressDefs Compress.CompressProofs.
From PP Require Import Shard.ShardConcrete Shard.ShardConcreteProofs Fields.FieldsDefs.
From PP Require Import Shard.ShardDedupe Fields.KeyInstances Tools.DedupeDefs Compress.ToyCodec.
From Coq Require Import Permutation.
Local Open Scope N_scope.

(* the output files together contain every input line exactly once and nothing else *)
Theorem C06_partition :
  forall (keyhash : list Z -> N) (n : N) (ls : list (list Z)),
    0 < n -> Permutation (concat (shard keyhash n ls)) ls.
Proof. exact shard_partition. Qed.
Print Assumptions C06_partition.

(* each file is the input restricted to the lines of that file, in input order *)
Theorem C06_order_preserved :
  forall (keyhash : list Z -> N) (n : N) (ls : list (list Z)) (i : nat),
    0 < n -> (i < N.to_nat n)%nat ->
    nth i (shard keyhash n ls) [] = filter (fun l => Nat.eqb (idx keyhash n l) i) ls.
Proof. exact shard_is_filter. Qed.
Print Assumptions C06_order_preserved.

(* a line is in file i iff it is an input line and keyhash line mod n = i: equal
   keys are co-located, and the file depends on nothing but the key hash and n *)
Theorem C06_colocated_index_only :
  forall (keyhash : list Z -> N) (n : N) (ls : list (list Z)) (i : nat) (l : list Z),
    0 < n -> (i < N.to_nat n)%nat ->
    (In l (nth i (shard keyhash n ls) []) <-> In l ls /\ index keyhash n l = N.of_nat i).
Proof. exact shard_colocated. Qed.
Print Assumptions C06_colocated_index_only.

(* Deduplicating every shard gives, as a multiset, the lines of the deduplicated
   input.  [kf] is the dedupe key (same -f/-d), [dedupe] C01's specification
   (first line of every key; = C01's first_occ, next theorem); hypothesis: lines OF THE
   INPUT with equal dedupe key have the same shard index (the key hash is a function of
   the key, and no two different keys of this input collide).  The hypothesis is about the
   input lines only, so a 64-bit hash can meet it. *)
Theorem C06_dedupe_commutes :
  forall (K : Type) (kf : list Z -> K) (keq : K -> K -> bool),
    (forall a b, keq a b = true <-> a = b) ->
    forall (keyhash : list Z -> N) (n : N) (ls : list (list Z)),
      0 < n ->
      (forall l1 l2, In l1 ls -> In l2 ls -> kf l1 = kf l2 -> index keyhash n l1 = index keyhash n l2) ->
      Permutation (concat (map (ShardProofs.dedupe K kf keq) (shard keyhash n ls))) (ShardProofs.dedupe K kf keq ls).
Proof. exact dedupe_commutes_on. Qed.
Print Assumptions C06_dedupe_commutes.

(* that specification is C01's: for keys in N it is Tools.DedupeDefs.first_occ, the function
   C01_dedupe_first_occurrences proves the dedupe tool model equal to *)
Theorem C06_dedupe_spec_is_C01_first_occ :
  forall (kf : list Z -> N) (ls : list (list Z)),
    ShardProofs.dedupe N kf N.eqb ls = first_occ (list Z) kf ls.
Proof. exact dedupe_is_first_occ. Qed.
Print Assumptions C06_dedupe_spec_is_C01_first_occ.

(* composed with the concrete keys of both tools (dedupe -f F -d D: dedupe_keyN, its own seed
   and the whole-line shortcut; shard -f F -d D: field_keyhash = RangeFields + MurmurHash64A
   with shard's seed): dedupe of every shard = dedupe of the input, as multisets of lines.
   Only assumption: no two lines of THIS input with different selected fields have the same
   64-bit dedupe key (no_collision). *)
Theorem C06_dedupe_commutes_concrete :
  forall (rs : list range) (d : Z) (n : N) (ls : list (list Z)),
    0 < n -> canonical rs -> no_collision (dedupe_keyN rs d) rs d ls ->
    Permutation (concat (map (first_occ (list Z) (dedupe_keyN rs d)) (shard (field_keyhash rs d) n ls)))
                (first_occ (list Z) (dedupe_keyN rs d) ls).
Proof. exact dedupe_commutes_concrete. Qed.
Print Assumptions C06_dedupe_commutes_concrete.

(* it applies: "b\tx", "a\ty", "b\tz", "a\ty" with -f 1, three shards.  The premises hold
   (computed with the Murmur model), and both sides are computed *)
Example C06_nonvacuous_dedupe_concrete :
  let rs := [(0, 1)]%Z in let d := 9%Z in
  let ls := [[98;9;120]; [97;9;121]; [98;9;122]; [97;9;121]]%Z in
  canonical rs /\ no_collision (dedupe_keyN rs d) rs d ls /\
  first_occ (list Z) (dedupe_keyN rs d) ls = [[98;9;120]; [97;9;121]]%Z /\
  Permutation (concat (map (first_occ (list Z) (dedupe_keyN rs d)) (shard (field_keyhash rs d) 3 ls)))
              [[98;9;120]; [97;9;121]]%Z.
Proof.
  cbv zeta. split; [vm_compute; repeat split; discriminate|]. split.
  - intros l1 l2 H1 H2. simpl in H1, H2.
    repeat (destruct H1 as [H1|H1]; [subst l1|]); try destruct H1;
      repeat (destruct H2 as [H2|H2]; [subst l2|]); try destruct H2; vm_compute; intros E; try reflexivity; discriminate E.
  - split; [vm_compute; reflexivity|].
    match goal with |- Permutation ?x _ => let y := eval vm_compute in x in change x with y end.
    auto using Permutation_refl, perm_swap.
Qed.

(* --prefix p --number n: the n names are pairwise different *)
Theorem C06_names_distinct :
  forall (prefix : list Z) (number : N), number < 10 ^ 40 -> NoDup (names prefix number).
Proof. exact names_distinct. Qed.
Print Assumptions C06_names_distinct.

(* names in index order are strictly increasing byte strings (for every number an
   unsigned int can hold): padded decimals of equal width compare like the numbers *)
Theorem C06_names_sorted :
  forall (prefix : list Z) (number : N), number < 4294967296 -> sortedb (names prefix number) = true.
Proof. exact names_sorted. Qed.
Print Assumptions C06_names_sorted.

(* every output file -- also of a shard that received no line -- is a non-empty
   sequence of complete gzip/bzip2 members expanding to exactly the shard's lines
   (codec contract of C15 as premises) *)
Theorem C06_every_file_valid :
  forall (world estate : Type) (enew : world -> kind -> estate * world)
         (ereset : kind -> estate -> estate)
         (ecall : kind -> estate -> Z -> list Z -> N -> cres estate)
         (member : kind -> list Z -> list Z -> Prop)
         (EInv : kind -> estate -> list Z -> list Z -> Prop) (epend : estate -> nat),
    (forall k m p, member k m p -> starts_with (magic_of k) m = true) ->
    (forall w k, EInv k (fst (enew w k)) [] []) ->
    (forall k st, EInv k (ereset k st) [] []) ->
    ecall_run_contract estate ecall EInv epend ->
    ecall_finish_contract estate ecall member EInv epend ->
    forall (keyhash : list Z -> N) (n : N) (input : list Z) (k : kind) (w : world) (i : nat),
      k <> KXz ->
      let content := nth i (shard_tool keyhash n input) [] in
      exists f0 file,
        (forall fuel, (f0 <= fuel)%nat ->
           write_session world estate enew ereset ecall fuel k w (map OpWrite (blocks content)) = FileOk file) /\
        kstream member k file content /\ file <> [].
Proof. exact shard_files_valid. Qed.
Print Assumptions C06_every_file_valid.

(* the codec premises can be met (toy codec of Compress/ToyCodec.v): a closed instance, and a
   computed file -- shard 1 of 2 receives nothing and still is a complete (empty) gzip member *)
Theorem C06_contract_satisfiable_every_file_valid :
  forall (keyhash : list Z -> N) (n : N) (input : list Z) (k : kind) (i : nat),
    k <> KXz ->
    let content := nth i (shard_tool keyhash n input) [] in
    exists f0 file,
      (forall fuel, (f0 <= fuel)%nat ->
         write_session unit tenc tenew tereset tecall fuel k tt (map OpWrite (blocks content)) = FileOk file) /\
      kstream tmember k file content /\ file <> [].
Proof.
  intros keyhash n input k i Hk.
  exact (C06_every_file_valid unit tenc tenew tereset tecall tmember TEInv tepend tmember_magic toy_enew_inv toy_ereset_inv
           toy_run_contract toy_finish_contract keyhash n input k tt i Hk).
Qed.
Print Assumptions C06_contract_satisfiable_every_file_valid.

Example C06_nonvacuous_every_file_valid :
  let outs := shard_tool (fun _ => 0) 2 [97; 10; 98; 10]%Z in
  outs = [[97; 10; 98; 10]; []]%Z /\
  write_session unit tenc tenew tereset tecall 200 KGz tt (map OpWrite (blocks (nth 0 outs []))) =
    FileOk (magic_of KGz ++ [1;97; 1;10; 1;98; 1;10] ++ [0])%Z /\
  write_session unit tenc tenew tereset tecall 200 KGz tt (map OpWrite (blocks (nth 1 outs []))) =
    FileOk (magic_of KGz ++ [0])%Z.
Proof. vm_compute. repeat split. Qed.

(* -c none: the file is the shard's lines and nothing else (WriteUncompressed writes the blocks
   handed to it one after the other) *)
Theorem C06_uncompressed_file_exact :
  forall (keyhash : list Z -> N) (n : N) (input : list Z) (i : nat),
    write_plain (map OpWrite (blocks (nth i (shard_tool keyhash n input) []))) = nth i (shard_tool keyhash n input) [].
Proof.
  intros keyhash n input i. unfold write_plain. rewrite flat_map_concat_map, map_map. simpl.
  rewrite map_id. apply blocks_concat.
Qed.
Print Assumptions C06_uncompressed_file_exact.

(* ---- the key hash instantiated with the models of C10 (RangeFields) and C14
   (MurmurHash64A, HashCallback chaining): Shard/ShardConcrete.v.  The file index is
   a function of the key pieces and n only. *)
Theorem C06_index_depends_only_on_key_pieces :
  forall (ranges : list range) (d : Z) (n : N) (l1 l2 : list Z),
    range_fields l1 ranges d = range_fields l2 ranges d ->
    index (field_keyhash ranges d) n l1 = index (field_keyhash ranges d) n l2.
Proof. exact index_depends_on_pieces. Qed.
Print Assumptions C06_index_depends_only_on_key_pieces.

Theorem C06_concrete_tool_partition :
  forall spec d n input outs, 0 < n ->
    shard_tool_fields spec d n input = Some outs ->
    exists ranges, parse_key_spec spec = Some ranges /\
      Permutation (concat (shard (field_keyhash ranges d) n (records 10%Z shard_strip_cr input)))
                  (records 10%Z shard_strip_cr input) /\
      outs = map shard_bytes (shard (field_keyhash ranges d) n (records 10%Z shard_strip_cr input)).
Proof. exact concrete_partition. Qed.
Print Assumptions C06_concrete_tool_partition.

(* `printf 'b\tx\na\ty\nb\tz\n' | shard -f 1 s0 s1 s2`, computed by the models of all three properties *)
Example C06_nonvacuous_concrete_tool :
  exists o0 o1 o2,
    shard_tool_fields [49]%Z 9%Z 3 [98;9;120;10; 97;9;121;10; 98;9;122;10]%Z = Some [o0; o1; o2] /\
    (o0 ++ o1 ++ o2)%list <> [] /\
    (In [98;9;120;10;98;9;122;10]%Z [o0; o1; o2]).
Proof. vm_compute. eexists _, _, _. split; [reflexivity|]. split; [discriminate|]. simpl. tauto. Qed.

(* option handling (ParseArgs): whatever is accepted has at least one output, so the
   modulus of the shard index is never 0; with --prefix/--number the outputs are
   exactly the generated names and the number is positive *)
Theorem C06_accepted_arguments_have_outputs :
  forall o ranges outs c, shard_parse_args o = Some (ranges, outs, c) -> outs <> [].
Proof. exact parse_args_nonempty. Qed.
Print Assumptions C06_accepted_arguments_have_outputs.

Theorem C06_prefix_number_gives_names :
  forall o ranges outs c p n,
    o_outputs o = [] -> o_prefix o = Some p -> o_number o = Some n ->
    shard_parse_args o = Some (ranges, outs, c) -> outs = names p n /\ 0 < n.
Proof. exact parse_args_prefix_names. Qed.
Print Assumptions C06_prefix_number_gives_names.

(* the output lines are the input lines byte for byte -- a CR before the LF included
   (shard reads with strip_cr = false: regenerated flag; finding F-C06-cr-stripped, fixed) *)
Theorem C06_lines_bytewise :
  forall (keyhash : list Z -> N) (n : N) (input : list Z), 0 < n ->
    Permutation (concat (shard keyhash n (records 10%Z shard_strip_cr input))) (records 10%Z false input).
Proof. exact shard_lines_bytewise. Qed.
Print Assumptions C06_lines_bytewise.

Example C06_nonvacuous_cr_kept :
  shard_tool (fun _ => 0) 1 [97; 13; 10; 98; 10]%Z = [[97; 13; 10; 98; 10]%Z].
Proof. vm_compute. reflexivity. Qed.

Example C06_nonvacuous_shard :
  let kh := fun l : list Z => match l with [] => 0 | (b :: _)%list => Z.to_N b end in
  shard kh 3 [[97]; [98; 1]; [99]; [97]; []; [100]; [98; 2]]%Z =
    [[[99]; []]; [[97]; [97]; [100]]; [[98; 1]; [98; 2]]]%Z.
Proof. vm_compute. reflexivity. Qed.

(* dedupe by first byte, sharding by first byte: the hypothesis of C06_dedupe_commutes holds *)
Example C06_nonvacuous_dedupe :
  let kh := fun l : list Z => match l with [] => 0 | (b :: _)%list => Z.to_N b end in
  let kf := fun l : list Z => hd 0%Z l in
  ShardProofs.dedupe Z kf Z.eqb [[97]; [98; 1]; [99]; [97; 5]; [98; 2]]%Z = [[97]; [98; 1]; [99]]%Z /\
  concat (map (ShardProofs.dedupe Z kf Z.eqb) (shard kh 2 [[97]; [98; 1]; [99]; [97; 5]; [98; 2]]%Z)) = [[98; 1]; [97]; [99]]%Z.
Proof. vm_compute. split; reflexivity. Qed.

Example C06_nonvacuous_names :
  names [111; 117; 116]%Z 11 = map (fun s => [111; 117; 116]%Z ++ s)%list
    [[48;48]; [48;49]; [48;50]; [48;51]; [48;52]; [48;53]; [48;54]; [48;55]; [48;56]; [48;57]; [49;48]]%Z /\
  names [120]%Z 1 = [[120; 48]]%Z /\ digits_of 10 = 1 /\ digits_of 11 = 2 /\ digits_of 101 = 3.
Proof. vm_compute. repeat split. Qed.
