(* C06 -- shard partitions the input by key, stably, into always-valid files.
   Statements only; proofs in Shard/ShardProofs.v.  [keyhash] is the abstract
   64-bit key hash of a line, HashCallback(RangeFields(line, -f, -d)); the file
   index is [keyhash line mod n] (model of preprocess/shard_main.cc main()). *)
From PP Require Import Shard.ShardDefs Shard.ShardProofs.
From Coq Require Import Permutation.
Local Open Scope N_scope.

(* the output files together contain every input line exactly once and nothing else *)
Theorem C06_partition :
  forall (keyhash : list Z -> N) (n : N) (ls : list (list Z)),
    0 < n -> Permutation (concat (shard keyhash n ls)) ls.
Proof. exact shard_partition. Qed.
Print Assumptions C06_partition.

(* each file is the input restricted to the lines of that file, in input order *)
Theorem C06_order_preserved :
  forall (keyhash : list Z -> N) (n : N) (ls : list (list Z)) (i : nat),
    0 < n -> (i < N.to_nat n)%nat ->
    nth i (shard keyhash n ls) [] = filter (fun l => Nat.eqb (idx keyhash n l) i) ls.
Proof. exact shard_is_filter. Qed.
Print Assumptions C06_order_preserved.

(* a line is in file i iff it is an input line and keyhash line mod n = i: equal
   keys are co-located, and the file depends on nothing but the key hash and n *)
Theorem C06_colocated_index_only :
  forall (keyhash : list Z -> N) (n : N) (ls : list (list Z)) (i : nat) (l : list Z),
    0 < n -> (i < N.to_nat n)%nat ->
    (In l (nth i (shard keyhash n ls) []) <-> In l ls /\ index keyhash n l = N.of_nat i).
Proof. exact shard_colocated. Qed.
Print Assumptions C06_colocated_index_only.

Example C06_nonvacuous_shard :
  let kh := fun l : list Z => match l with [] => 0 | (b :: _)%list => Z.to_N b end in
  shard kh 3 [[97]; [98; 1]; [99]; [97]; []; [100]; [98; 2]]%Z =
    [[[99]; []]; [[97]; [97]; [100]]; [[98; 1]; [98; 2]]]%Z.
Proof. vm_compute. reflexivity. Qed.
