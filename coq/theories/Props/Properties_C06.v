(* C06 -- shard partitions the input by key, stably, into always-valid files.
   Statements only; proofs in Shard/ShardProofs.v.  [keyhash] is the abstract
   64-bit key hash of a line, HashCallback(RangeFields(line, -f, -d)); the file
   index is [keyhash line mod n] (model of preprocess/shard_main.cc main()). *)
From PP Require Import Shard.ShardDefs Shard.ShardProofs Compress.CompressDefs Compress.CompressProofs.
From PP Require Import Shard.ShardConcrete Shard.ShardConcreteProofs Fields.FieldsDefs.
From Coq Require Import Permutation.
Local Open Scope N_scope.

(* the output files together contain every input line exactly once and nothing else *)
Theorem C06_partition :
  forall (keyhash : list Z -> N) (n : N) (ls : list (list Z)),
    0 < n -> Permutation (concat (shard keyhash n ls)) ls.
Proof. exact shard_partition. Qed.
Print Assumptions C06_partition.

(* each file is the input restricted to the lines of that file, in input order *)
Theorem C06_order_preserved :
  forall (keyhash : list Z -> N) (n : N) (ls : list (list Z)) (i : nat),
    0 < n -> (i < N.to_nat n)%nat ->
    nth i (shard keyhash n ls) [] = filter (fun l => Nat.eqb (idx keyhash n l) i) ls.
Proof. exact shard_is_filter. Qed.
Print Assumptions C06_order_preserved.

(* a line is in file i iff it is an input line and keyhash line mod n = i: equal
   keys are co-located, and the file depends on nothing but the key hash and n *)
Theorem C06_colocated_index_only :
  forall (keyhash : list Z -> N) (n : N) (ls : list (list Z)) (i : nat) (l : list Z),
    0 < n -> (i < N.to_nat n)%nat ->
    (In l (nth i (shard keyhash n ls) []) <-> In l ls /\ index keyhash n l = N.of_nat i).
Proof. exact shard_colocated. Qed.
Print Assumptions C06_colocated_index_only.

(* Deduplicating every shard gives, as a multiset, the lines of the deduplicated
   input.  [kf] is the dedupe key (same -f/-d), [dedupe] C01's specification
   (first line of every key); hypothesis: lines with equal dedupe key have the
   same shard index (the key hash is a function of the key; C01 excludes
   collisions the same way). *)
Theorem C06_dedupe_commutes :
  forall (K : Type) (kf : list Z -> K) (keq : K -> K -> bool),
    (forall a b, keq a b = true <-> a = b) ->
    forall (keyhash : list Z -> N) (n : N) (ls : list (list Z)),
      0 < n ->
      (forall l1 l2, kf l1 = kf l2 -> index keyhash n l1 = index keyhash n l2) ->
      Permutation (concat (map (dedupe K kf keq) (shard keyhash n ls))) (dedupe K kf keq ls).
Proof. exact dedupe_commutes. Qed.
Print Assumptions C06_dedupe_commutes.

(* --prefix p --number n: the n names are pairwise different *)
Theorem C06_names_distinct :
  forall (prefix : list Z) (number : N), number < 10 ^ 40 -> NoDup (names prefix number).
Proof. exact names_distinct. Qed.
Print Assumptions C06_names_distinct.

(* names in index order are strictly increasing byte strings (for every number an
   unsigned int can hold): padded decimals of equal width compare like the numbers *)
Theorem C06_names_sorted :
  forall (prefix : list Z) (number : N), number < 4294967296 -> sortedb (names prefix number) = true.
Proof. exact names_sorted. Qed.
Print Assumptions C06_names_sorted.

(* every output file -- also of a shard that received no line -- is a non-empty
   sequence of complete gzip/bzip2 members expanding to exactly the shard's lines
   (codec contract of C15 as premises) *)
Theorem C06_every_file_valid :
  forall (world estate : Type) (enew : world -> kind -> estate * world)
         (ereset : kind -> estate -> estate)
         (ecall : kind -> estate -> Z -> list Z -> N -> cres estate)
         (member : kind -> list Z -> list Z -> Prop)
         (EInv : kind -> estate -> list Z -> list Z -> Prop) (epend : estate -> nat),
    (forall k m p, member k m p -> starts_with (magic_of k) m = true) ->
    (forall w k, EInv k (fst (enew w k)) [] []) ->
    (forall k st, EInv k (ereset k st) [] []) ->
    ecall_run_contract estate ecall EInv epend ->
    ecall_finish_contract estate ecall member EInv epend ->
    forall (keyhash : list Z -> N) (n : N) (input : list Z) (k : kind) (w : world) (i : nat),
      k <> KXz ->
      let content := nth i (shard_tool keyhash n input) [] in
      exists f0 file,
        (forall fuel, (f0 <= fuel)%nat ->
           write_session world estate enew ereset ecall fuel k w (map OpWrite (blocks content)) = FileOk file) /\
        kstream member k file content /\ file <> [].
Proof. exact shard_files_valid. Qed.
Print Assumptions C06_every_file_valid.

(* ---- the key hash instantiated with the models of C10 (RangeFields) and C14
   (MurmurHash64A, HashCallback chaining): Shard/ShardConcrete.v.  The file index is
   a function of the key pieces and n only. *)
Theorem C06_index_depends_only_on_key_pieces :
  forall (ranges : list range) (d : Z) (n : N) (l1 l2 : list Z),
    range_fields l1 ranges d = range_fields l2 ranges d ->
    index (field_keyhash ranges d) n l1 = index (field_keyhash ranges d) n l2.
Proof. exact index_depends_on_pieces. Qed.
Print Assumptions C06_index_depends_only_on_key_pieces.

Theorem C06_concrete_tool_partition :
  forall spec d n input outs, 0 < n ->
    shard_tool_fields spec d n input = Some outs ->
    exists ranges, parse_key_spec spec = Some ranges /\
      Permutation (concat (shard (field_keyhash ranges d) n (records 10%Z shard_strip_cr input)))
                  (records 10%Z shard_strip_cr input) /\
      outs = map shard_bytes (shard (field_keyhash ranges d) n (records 10%Z shard_strip_cr input)).
Proof. exact concrete_partition. Qed.
Print Assumptions C06_concrete_tool_partition.

(* `printf 'b\tx\na\ty\nb\tz\n' | shard -f 1 s0 s1 s2`, computed by the models of all three properties *)
Example C06_nonvacuous_concrete_tool :
  exists o0 o1 o2,
    shard_tool_fields [49]%Z 9%Z 3 [98;9;120;10; 97;9;121;10; 98;9;122;10]%Z = Some [o0; o1; o2] /\
    (o0 ++ o1 ++ o2)%list <> [] /\
    (In [98;9;120;10;98;9;122;10]%Z [o0; o1; o2]).
Proof. vm_compute. eexists _, _, _. split; [reflexivity|]. split; [discriminate|]. simpl. tauto. Qed.

(* option handling (ParseArgs): whatever is accepted has at least one output, so the
   modulus of the shard index is never 0; with --prefix/--number the outputs are
   exactly the generated names and the number is positive *)
Theorem C06_accepted_arguments_have_outputs :
  forall o ranges outs c, shard_parse_args o = Some (ranges, outs, c) -> outs <> [].
Proof. exact parse_args_nonempty. Qed.
Print Assumptions C06_accepted_arguments_have_outputs.

Theorem C06_prefix_number_gives_names :
  forall o ranges outs c p n,
    o_outputs o = [] -> o_prefix o = Some p -> o_number o = Some n ->
    shard_parse_args o = Some (ranges, outs, c) -> outs = names p n /\ 0 < n.
Proof. exact parse_args_prefix_names. Qed.
Print Assumptions C06_prefix_number_gives_names.

(* the output lines are the input lines byte for byte -- a CR before the LF included
   (shard reads with strip_cr = false: regenerated flag; finding F-C06-cr-stripped, fixed) *)
Theorem C06_lines_bytewise :
  forall (keyhash : list Z -> N) (n : N) (input : list Z), 0 < n ->
    Permutation (concat (shard keyhash n (records 10%Z shard_strip_cr input))) (records 10%Z false input).
Proof. exact shard_lines_bytewise. Qed.
Print Assumptions C06_lines_bytewise.

Example C06_nonvacuous_cr_kept :
  shard_tool (fun _ => 0) 1 [97; 13; 10; 98; 10]%Z = [[97; 13; 10; 98; 10]%Z].
Proof. vm_compute. reflexivity. Qed.

Example C06_nonvacuous_shard :
  let kh := fun l : list Z => match l with [] => 0 | (b :: _)%list => Z.to_N b end in
  shard kh 3 [[97]; [98; 1]; [99]; [97]; []; [100]; [98; 2]]%Z =
    [[[99]; []]; [[97]; [97]; [100]]; [[98; 1]; [98; 2]]]%Z.
Proof. vm_compute. reflexivity. Qed.

(* dedupe by first byte, sharding by first byte: the hypothesis of C06_dedupe_commutes holds *)
Example C06_nonvacuous_dedupe :
  let kh := fun l : list Z => match l with [] => 0 | (b :: _)%list => Z.to_N b end in
  let kf := fun l : list Z => hd 0%Z l in
  dedupe Z kf Z.eqb [[97]; [98; 1]; [99]; [97; 5]; [98; 2]]%Z = [[97]; [98; 1]; [99]]%Z /\
  concat (map (dedupe Z kf Z.eqb) (shard kh 2 [[97]; [98; 1]; [99]; [97; 5]; [98; 2]]%Z)) = [[98; 1]; [97]; [99]]%Z.
Proof. vm_compute. split; reflexivity. Qed.

Example C06_nonvacuous_names :
  names [111; 117; 116]%Z 11 = map (fun s => [111; 117; 116]%Z ++ s)%list
    [[48;48]; [48;49]; [48;50]; [48;51]; [48;52]; [48;53]; [48;54]; [48;55]; [48;56]; [48;57]; [49;48]]%Z /\
  names [120]%Z 1 = [[120; 48]]%Z /\ digits_of 10 = 1 /\ digits_of 11 = 2 /\ digits_of 101 = 3.
Proof. vm_compute. repeat split. Qed.
