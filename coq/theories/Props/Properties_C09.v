(* C09 -- base64 codec and docenc.  Only statements; proofs are in B64/ and Docenc/.
   Bytes are Z in [0,256) (bytes_okb); the model functions are the executable
   ones that the correspondence check runs against preprocess/base64.cc. *)
From PP Require Import B64.Base64Defs B64.Base64Proofs Docenc.DocencDefs Docenc.DocencProofs.
Local Open Scope Z_scope.

(* Encoding any byte string yields its RFC 4648 base64 with padding
   (rfc4648 is an independent group-of-three definition over its own alphabet). *)
Theorem C09_encode_is_rfc4648 :
  forall bs, bytes_okb bs = true -> base64_encode bs = Some (rfc4648 bs).
Proof. exact encode_is_rfc4648_proof. Qed.
Print Assumptions C09_encode_is_rfc4648.

(* decoding that text returns the original bytes *)
Theorem C09_decode_encode :
  forall bs, bytes_okb bs = true ->
  exists cs, base64_encode bs = Some cs /\ base64_decode cs = DOk bs.
Proof. exact decode_encode_proof. Qed.
Print Assumptions C09_decode_encode.

(* ... with or without the padding: any number k of trailing '=' removed *)
Theorem C09_decode_any_padding :
  forall bs cs k, bytes_okb bs = true -> rfc4648 bs = cs ++ repeat 61 k -> base64_decode cs = DOk bs.
Proof. exact decode_any_padding_proof. Qed.
Print Assumptions C09_decode_any_padding.

(* a byte outside the alphabet before the first '=' makes decoding fail, whatever follows *)
Theorem C09_decode_rejects_foreign :
  forall pre c post, forallb is_alpha pre = true -> 0 <= c < 256 -> is_alpha c = false -> c <> 61 ->
  forall bs, base64_decode (pre ++ c :: post) <> DOk bs.
Proof. exact decode_rejects_foreign_proof. Qed.
Print Assumptions C09_decode_rejects_foreign.

(* `docenc -d | docenc` reproduces any sequence of documents made of non-empty,
   newline-free lines (default separator: blank line).  b64_file = one RFC 4648
   line per document; decoded_stream = what docenc -d prints. *)
Theorem C09_docenc_roundtrip_newline :
  forall docs : list (list (list Z)),
  forallb doc_ok docs = true -> forallb (fun d => bytes_okb (doc_text d)) docs = true ->
  decode_tool 10 [] (b64_file (map doc_text docs)) = TOk (decoded_stream 10 (map doc_text docs)) /\
  encode_tool 10 [] (decoded_stream 10 (map doc_text docs)) = TOk (b64_file (map doc_text docs)).
Proof. exact docenc_roundtrip_newline_proof. Qed.
Print Assumptions C09_docenc_roundtrip_newline.

(* the same with -0 for NUL-free texts (any bytes otherwise: CR, newlines, blank lines, empty documents) *)
Theorem C09_docenc_roundtrip_nul :
  forall texts : list (list Z),
  forallb bytes_okb texts = true -> forallb (no_delim 0) texts = true ->
  decode_tool 0 [] (b64_file texts) = TOk (decoded_stream 0 texts) /\
  encode_tool 0 [] (decoded_stream 0 texts) = TOk (b64_file texts).
Proof. exact docenc_roundtrip_nul_proof. Qed.
Print Assumptions C09_docenc_roundtrip_nul.

(* index arguments (already expanded: M-N = M..N) in any order, with repeats:
   exactly the documents whose 1-based position is listed are printed, in input order *)
Theorem C09_docenc_index_select :
  forall delim texts idx,
  forallb bytes_okb texts = true -> idx <> [] -> (forall x, In x idx -> (1 <= x)%nat) ->
  decode_tool delim idx (b64_file texts) =
    TOk (decoded_stream delim
      (map snd (filter (fun pd => existsb (Nat.eqb (fst pd)) idx) (combine (seq 1 (length texts)) texts)))).
Proof. exact docenc_index_select_proof. Qed.
Print Assumptions C09_docenc_index_select.

(* the same selection on the encoding side: `docenc IDX` keeps exactly the listed documents *)
Theorem C09_docenc_index_select_encode_newline :
  forall docs idx,
  forallb doc_ok docs = true -> forallb (fun d => bytes_okb (doc_text d)) docs = true ->
  idx <> [] -> (forall x, In x idx -> (1 <= x)%nat) ->
  encode_tool 10 idx (decoded_stream 10 (map doc_text docs)) =
    TOk (b64_file (map doc_text
      (map snd (filter (fun pd => existsb (Nat.eqb (fst pd)) idx) (combine (seq 1 (length docs)) docs))))).
Proof. exact docenc_index_select_encode_newline_proof. Qed.
Print Assumptions C09_docenc_index_select_encode_newline.

Theorem C09_docenc_index_select_encode_nul :
  forall texts idx,
  forallb bytes_okb texts = true -> forallb (no_delim 0) texts = true ->
  idx <> [] -> (forall x, In x idx -> (1 <= x)%nat) ->
  encode_tool 0 idx (decoded_stream 0 texts) =
    TOk (b64_file (map snd (filter (fun pd => existsb (Nat.eqb (fst pd)) idx) (combine (seq 1 (length texts)) texts)))).
Proof. exact docenc_index_select_encode_nul_proof. Qed.
Print Assumptions C09_docenc_index_select_encode_nul.

(* command-line index arguments: "N" (decimal digits, 1 <= N < 2^16) denotes document N, "M-N" the
   documents M..N; digits_value is the usual positional value.  (parse_range also models the lenient
   forms libstdc++ accepts - leading blanks, a sign - and the rejections; those are tied to the tool
   by the correspondence run only.) *)
Theorem C09_index_argument_single :
  forall ds, ds <> [] -> forallb is_digit ds = true -> 1 <= digits_value ds 0 < 65536 ->
  parse_range ds = ArgIndices [Z.to_nat (digits_value ds 0)].
Proof. exact parse_single_index_proof. Qed.
Print Assumptions C09_index_argument_single.

Theorem C09_index_argument_range :
  forall ds1 ds2, ds1 <> [] -> ds2 <> [] -> forallb is_digit ds1 = true -> forallb is_digit ds2 = true ->
  1 <= digits_value ds1 0 <= digits_value ds2 0 -> digits_value ds2 0 < 65536 ->
  parse_range (ds1 ++ 45 :: ds2) =
    ArgIndices (seq (Z.to_nat (digits_value ds1 0)) (Z.to_nat (digits_value ds2 0 - digits_value ds1 0 + 1))).
Proof. exact parse_index_range_proof. Qed.
Print Assumptions C09_index_argument_range.

(* non-vacuity: the hypotheses are met by concrete non-trivial data *)
Example C09_nonvacuous_roundtrip :
  bytes_okb [0; 255; 16; 131; 77] = true /\
  base64_encode [0; 255; 16; 131; 77] = Some [65; 80; 56; 81; 103; 48; 48; 61] /\
  rfc4648 [0; 255; 16; 131; 77] = [65; 80; 56; 81; 103; 48; 48] ++ repeat 61 1.
Proof. vm_compute. repeat split. Qed.

Example C09_nonvacuous_foreign :
  forallb is_alpha [81; 85; 74; 68] = true /\ is_alpha 127 = false /\ is_alpha 255 = false /\ is_alpha 10 = false.
Proof. vm_compute. repeat split. Qed.

Example C09_nonvacuous_docenc :
  forallb doc_ok [[[97; 13]; [98]]; []; [[13]]] = true /\
  forallb (fun d => bytes_okb (doc_text d)) [[[97; 13]; [98]]; []; [[13]]] = true /\
  b64_file (map doc_text [[[97; 13]; [98]]; []; [[13]]]) = [89; 81; 48; 75; 89; 103; 111; 61; 10; 10; 68; 81; 111; 61; 10] /\
  decode_tool 10 [3; 1; 3]%nat (b64_file (map doc_text [[[97; 13]; [98]]; []; [[13]]])) = TOk [97; 13; 10; 98; 10; 10; 13; 10; 10].
Proof. vm_compute. repeat split. Qed.

Example C09_nonvacuous_nul_separator :
  forallb bytes_okb [[97; 13]; []; [10; 10; 98]] = true /\ forallb (no_delim 0) [[97; 13]; []; [10; 10; 98]] = true /\
  decode_tool 0 [] (b64_file [[97; 13]; []; [10; 10; 98]]) = TOk [97; 13; 0; 0; 10; 10; 98; 0] /\
  encode_tool 0 [3; 1]%nat (decoded_stream 0 [[97; 13]; []; [10; 10; 98]]) = TOk (b64_file [[97; 13]; [10; 10; 98]]).
Proof. vm_compute. repeat split. Qed.

Example C09_nonvacuous_index_arguments :
  parse_range [49; 50] = ArgIndices [12%nat] /\ parse_range [50; 45; 52] = ArgIndices [2; 3; 4]%nat /\
  parse_range [48] = ArgUsage /\ parse_range [52; 45; 50] = ArgUsage /\ parse_range [49; 45] = ArgFile /\
  parse_args [[51]; [49; 45; 50]] = Some [3; 1; 2]%nat.
Proof. vm_compute. repeat split. Qed.
