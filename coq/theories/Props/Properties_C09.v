(* C09 -- base64 codec and docenc.  Only statements; proofs are in B64/ and Docenc/.
   Bytes are Z in [0,256) (bytes_okb); the model functions are the executable
   ones that the correspondence check runs against preprocess/base64.cc. *)
From PP Require Import B64.Base64Defs B64.Base64Proofs.
Local Open Scope Z_scope.

(* Encoding any byte string yields its RFC 4648 base64 with padding
   (rfc4648 is an independent group-of-three definition over its own alphabet). *)
Theorem C09_encode_is_rfc4648 :
  forall bs, bytes_okb bs = true -> base64_encode bs = Some (rfc4648 bs).
Proof. exact encode_is_rfc4648_proof. Qed.
Print Assumptions C09_encode_is_rfc4648.

(* decoding that text returns the original bytes *)
Theorem C09_decode_encode :
  forall bs, bytes_okb bs = true ->
  exists cs, base64_encode bs = Some cs /\ base64_decode cs = DOk bs.
Proof. exact decode_encode_proof. Qed.
Print Assumptions C09_decode_encode.

(* ... with or without the padding: any number k of trailing '=' removed *)
Theorem C09_decode_any_padding :
  forall bs cs k, bytes_okb bs = true -> rfc4648 bs = cs ++ repeat 61 k -> base64_decode cs = DOk bs.
Proof. exact decode_any_padding_proof. Qed.
Print Assumptions C09_decode_any_padding.

(* a byte outside the alphabet before the first '=' makes decoding fail, whatever follows *)
Theorem C09_decode_rejects_foreign :
  forall pre c post, forallb is_alpha pre = true -> 0 <= c < 256 -> is_alpha c = false -> c <> 61 ->
  forall bs, base64_decode (pre ++ c :: post) <> DOk bs.
Proof. exact decode_rejects_foreign_proof. Qed.
Print Assumptions C09_decode_rejects_foreign.

(* non-vacuity: the hypotheses are met by concrete non-trivial data *)
Example C09_nonvacuous_roundtrip :
  bytes_okb [0; 255; 16; 131; 77] = true /\
  base64_encode [0; 255; 16; 131; 77] = Some [65; 80; 56; 81; 103; 48; 48; 61] /\
  rfc4648 [0; 255; 16; 131; 77] = [65; 80; 56; 81; 103; 48; 48] ++ repeat 61 1.
Proof. vm_compute. repeat split. Qed.

Example C09_nonvacuous_foreign :
  forallb is_alpha [81; 85; 74; 68] = true /\ is_alpha 127 = false /\ is_alpha 255 = false /\ is_alpha 10 = false.
Proof. vm_compute. repeat split. Qed.
