(* C20 -- no out-of-bounds / garbage / hang; number formatters never overrun.  (claimed PARTIAL)
   Only statements.  Model: ToStr/ToStringDefs.v (formatters with their store FOOTPRINT, the
   ToShortest layout, the Ensure/ToString/AdvanceTo protocol); constants, the digit table,
   thresholds and reservations regenerated into Gen/Src_tostring.v; proofs in ToStr/ToStringProofs.v.

   [fits k f] : 0 <= |returned text| <= footprint <= k.

   What is proved here is the library-helper half of C20 ("helper routines never write beyond the
   space they reserved") for all argument values, for the x86-64/SSE2 branch of integer_to_string.cc
   (the "#else // Generic Non-x86 case" branch is not compiled on this platform and not modelled).
   The statement about all 24 executables on all byte streams is NOT a theorem: it is observed by
   sanitizer runs (sampling), see checks/C20.py.  Hence every theorem name ends in _partial. *)
From PP Require Import ToStr.ToStringDefs ToStr.ToStringProofs ToStr.ToStringDigits ToStr.ToStringValue ToStr.ToStringHex ToStr.ToolSafety.
Local Open Scope Z_scope.

(* FULL statement of the property, over an explicit notion of what a run of an executable can show
   (ToStr/ToolSafety.v): [m : package_model] maps each of the 24 executables and each invocation
   (arguments, stdin bytes, file contents) to a run = how it ended (exit 0 / diagnosed error / undiagnosed
   crash / no termination) + the memory events an instrumented execution reports (out of bounds, use after
   free, uninitialised use).
     tools_safe m : every run ends with exit 0 or a diagnosed error and has no memory event
     helper_half  : formatters and stream classes never write beyond what they reserved
   The statement is about a FAITHFUL model m of the package.  This development has no such model (only
   the helpers are modelled), so [tools_safe] is not proved for anything: it is sampled.  What is proved is
   [helper_half] (theorem C20_helper_half_partial) and the reduction C20_full_from_tools_partial; the
   individual theorems below (all named _partial: each is a part of this property, none is the property)
   are its components plus the digit-correctness ("no garbage") theorems. *)
Definition C20_full_statement (m : package_model) : Prop := tools_safe m /\ helper_half.

Theorem C20_helper_half_partial : helper_half.
Proof. exact helper_half_proof. Qed.
Print Assumptions C20_helper_half_partial.

Theorem C20_full_from_tools_partial : forall m : package_model, tools_safe m -> C20_full_statement m.
Proof. exact full_from_tools_proof. Qed.
Print Assumptions C20_full_from_tools_partial.

(* (a) integer formatters, every value of every type (including what the vector stores touch
       beyond the returned text) *)
Theorem C20_u32_fits_partial : forall v, fits kBytes_u32 (fmt_u32 v).
Proof. exact fmt_u32_fits_proof. Qed.
Print Assumptions C20_u32_fits_partial.

Theorem C20_u64_fits_partial : forall v, fits kBytes_u64 (fmt_u64 v).
Proof. exact fmt_u64_fits_proof. Qed.
Print Assumptions C20_u64_fits_partial.

Theorem C20_i32_fits_partial : forall v, fits kBytes_i32 (fmt_i32 v).
Proof. exact fmt_i32_fits_proof. Qed.
Print Assumptions C20_i32_fits_partial.

Theorem C20_i64_fits_partial : forall v, -9223372036854775808 <= v < 9223372036854775808 -> fits kBytes_i64 (fmt_i64 v).
Proof. exact fmt_i64_fits_proof. Qed.
Print Assumptions C20_i64_fits_partial.

Theorem C20_u16_fits_partial : forall v, 0 <= v < 65536 -> fits kBytes_u16 (fmt_u16 v).
Proof. exact fmt_u16_fits_proof. Qed.
Print Assumptions C20_u16_fits_partial.

Theorem C20_i16_fits_partial : forall v, -32768 <= v < 32768 -> fits kBytes_i16 (fmt_i16 v).
Proof. exact fmt_i16_fits_proof. Qed.
Print Assumptions C20_i16_fits_partial.

Theorem C20_ptr_bool_fit_partial : (forall p, fits kBytes_ptr (fmt_ptr p)) /\ (forall b, fits kBytes_bool (fmt_bool b)).
Proof. exact ptr_bool_fit_proof. Qed.
Print Assumptions C20_ptr_bool_fit_partial.

(* (a'') "never uses garbage": the text handed back is EXACTLY the decimal numeral, for every value of
   the 32- and 64-bit types ([dec]: independent specification by repeated division by 10; the proof
   goes through the regenerated digit table, the reciprocal-multiplication constants of
   Convert8DigitsSSE2 and the leading-zero skipping of the 16-byte vector path) *)
Theorem C20_u32_digits_partial : forall v, 0 <= v < 4294967296 -> f_out (fmt_u32 v) = dec v.
Proof. exact fmt_u32_digits_proof. Qed.
Print Assumptions C20_u32_digits_partial.

Theorem C20_u64_digits_partial : forall v, 0 <= v < 18446744073709551616 -> f_out (fmt_u64 v) = dec v.
Proof. exact fmt_u64_digits_proof. Qed.
Print Assumptions C20_u64_digits_partial.

Theorem C20_i32_i64_digits_partial :
  (forall v, -2147483648 <= v < 2147483648 -> f_out (fmt_i32 v) = dec_signed v) /\
  (forall v, -9223372036854775808 <= v < 9223372036854775808 -> f_out (fmt_i64 v) = dec_signed v).
Proof. exact i32_i64_digits_proof. Qed.
Print Assumptions C20_i32_i64_digits_partial.

Theorem C20_16bit_digits_partial :
  (forall v, 0 <= v < 65536 -> f_out (fmt_u16 v) = dec v) /\
  (forall v, -32768 <= v < 32768 -> f_out (fmt_i16 v) = dec_signed v).
Proof. exact fmt_16_digits_proof. Qed.
Print Assumptions C20_16bit_digits_partial.

(* pointers: text = "0x" + hexadecimal numeral (no leading zeros, "0x0" for null), for every 64-bit value:
   the nibbles obtained by shifting and masking are the base-16 digits; leading zero nibbles are dropped *)
Theorem C20_ptr_digits_partial : forall p, 0 <= p < 18446744073709551616 -> f_out (fmt_ptr p) = 48 :: 120 :: hexnum p.
Proof. exact fmt_ptr_digits_proof. Qed.
Print Assumptions C20_ptr_digits_partial.

(* (d) termination of the only counted loop in the layout code: the 5 slots of the exponent buffer are enough
   and its text is the numeral, for every exponent the source allows (ASSERT(exponent < 1e4)) *)
Theorem C20_exponent_digits_partial : forall e, 1 <= e < 10000 -> exp_loop 5 e [] = dec e.
Proof. exact exp_loop_digits_proof. Qed.
Print Assumptions C20_exponent_digits_partial.

(* (a3) the text laid out for a double DENOTES the digits it was given: an independent reader of decimal /
   exponential notation ([read_number]: sign, integer part, '.', fraction, 'e', signed exponent) maps the text of
   ToShortest back to  (sign, m, e)  with  m * 10^e = digits * 10^(decimal_point - number of digits)
   -- for every sign, every digit string of 1..17 digits and every decimal point position of a finite double,
   in all four layouts (0.000ddd, ddd000, dd.ddd, d.ddde-xx).  Together with the digit theorems no layout path emits
   garbage; that the digits denote the double is the digit generator's job (environment). *)
Theorem C20_double_text_denotes_digits_partial :
  forall sign digits dp, digits_ok kBase10MaximalLength digits = true -> -323 <= dp <= 309 ->
  denotes (to_shortest_chars (DFinite sign digits dp)) sign digits dp.
Proof. exact double_denotes_proof. Qed.
Print Assumptions C20_double_text_denotes_digits_partial.

(* ... and for floats (ToShortestSingle lays out with the same code) *)
Theorem C20_float_text_denotes_digits_partial :
  forall sign digits dp, dvalue_ok_float (DFinite sign digits dp) = true ->
  denotes (to_shortest_chars (DFinite sign digits dp)) sign digits dp.
Proof. exact float_denotes_proof. Qed.
Print Assumptions C20_float_text_denotes_digits_partial.
Print Assumptions C20_double_text_denotes_digits_partial.

(* (a') double / float: whatever the digit generator delivers within its documented range
        (<= 17 resp. 9 digits, decimal point position of a finite double / float), the text plus
        StringBuilder's terminator fits the reservation *)
Theorem C20_double_fits_partial : forall d, dvalue_ok_double d = true -> fits kBytes_double (fmt_double d).
Proof. exact fmt_double_fits_proof. Qed.
Print Assumptions C20_double_fits_partial.

Theorem C20_float_fits_partial : forall d, dvalue_ok_float d = true -> fits kBytes_float (fmt_double d).
Proof. exact fmt_float_fits_proof. Qed.
Print Assumptions C20_float_fits_partial.

(* the tight bounds: 26 bytes for a double, 23 for a float (both attained, see the Examples) *)
Theorem C20_double_float_tight_partial :
  (forall d, dvalue_ok_double d = true -> fits 26 (fmt_double d)) /\ (forall d, dvalue_ok_float d = true -> fits 23 (fmt_double d)).
Proof. exact double_float_tight_proof. Qed.
Print Assumptions C20_double_float_tight_partial.

(* (b) the in-place protocol: for every sequence of stream operations whose numbers respect their
       reservation (a), with reservations <= kmax <= capacity: no store outside the buffer, the
       cursor never passes end_, and the bytes handed to the writer followed by the buffer are
       exactly the bytes of the operations, in order *)
Theorem C20_stream_cursor_safe_partial :
  forall cap kmax ops, 1 <= kmax <= cap -> Forall (sop_ok kmax) ops ->
  forall buf, zlen buf <= cap ->
  exists b w, s_run cap buf ops = Some (b, w) /\ zlen b <= cap /\ concat w ++ b = buf ++ flat_map sop_bytes ops.
Proof. exact stream_safe_proof. Qed.
Print Assumptions C20_stream_cursor_safe_partial.

(* (b') the same for ThreadedBufferedStream (shard's outputs), producer side: additionally every block
        handed to the writer thread, including the final one from the destructor, is non-empty
        (an empty block is the poison that stops the writer, so none may be handed over early)
        and at most one block long; nothing is lost or reordered *)
Theorem C20_threaded_stream_safe_partial :
  forall cap kmax ops, 1 <= kmax <= cap -> Forall (sop_ok kmax) ops ->
  forall buf, zlen buf <= cap ->
  exists b w, t_run cap buf ops = TOk b w /\ zlen b <= cap /\ concat w ++ b = buf ++ flat_map sop_bytes ops /\
              Forall (block_ok cap) (w ++ t_destroy b) /\ concat (w ++ t_destroy b) = buf ++ flat_map sop_bytes ops.
Proof. exact t_stream_safe_proof. Qed.
Print Assumptions C20_threaded_stream_safe_partial.

(* (b'') util::StringStream (the stream behind every exception message): Ensure makes exactly the
         reserved room; numbers respecting their reservation never store beyond it *)
Theorem C20_string_stream_safe_partial :
  forall kmax ops, Forall (sop_ok kmax) ops -> forall str, ss_run str ops = Some (str ++ flat_map sop_bytes ops).
Proof. exact ss_run_safe_proof. Qed.
Print Assumptions C20_string_stream_safe_partial.

(* ... and the constants in the headers satisfy the premises: every reservation <= kToStringMaxBytes
   <= the buffer size of BufferedStream and the block size of ThreadedBufferedStream *)
Theorem C20_reservations_within_buffers_partial :
  kBytes_bool <= kToStringMaxBytes /\ kBytes_u16 <= kToStringMaxBytes /\ kBytes_i16 <= kToStringMaxBytes /\
  kBytes_u32 <= kToStringMaxBytes /\ kBytes_i32 <= kToStringMaxBytes /\ kBytes_u64 <= kToStringMaxBytes /\
  kBytes_i64 <= kToStringMaxBytes /\ kBytes_ptr <= kToStringMaxBytes /\ kBytes_double <= kToStringMaxBytes /\
  kBytes_float <= kToStringMaxBytes /\ 1 <= kToStringMaxBytes <= stream_cap /\
  kToStringMaxBytes <= Z.max block_queue_min kToStringMaxBytes.
Proof. exact reservations_within_max. Qed.
Print Assumptions C20_reservations_within_buffers_partial.

(* (c) table indices used by the model are inside the generated table *)
Theorem C20_lut_indices_in_range_partial :
  forall x, 0 <= x < 100 -> lut_in_range (x * 2) = true /\ lut_in_range (x * 2 + 1) = true.
Proof. exact lut_indices_in_range. Qed.
Print Assumptions C20_lut_indices_in_range_partial.

(* ---- non-vacuity and tightness ---- *)

(* the notion under the full statement is not trivial: memory events, non-termination and undiagnosed crashes violate it *)
Example C20_nonvacuous_full_statement :
  ~ tools_safe (fun _ _ => mkRun EndOk [OutOfBounds]) /\
  ~ tools_safe (fun _ _ => mkRun EndFuel []) /\
  ~ tools_safe (fun _ _ => mkRun (EndCrash 11) []) /\
  tools_safe (fun _ _ => mkRun (EndDiagnosed 1) []).
Proof. exact tools_safe_discriminates. Qed.

(* the bound 26 is attained: -0.000001234567890123456 (17 digits, decimal point at -5) *)
Example C20_nonvacuous_double_26 :
  let d := DFinite true [49;50;51;52;53;54;55;56;57;48;49;50;51;52;53;54;55] (-5) in
  dvalue_ok_double d = true /\ f_foot (fmt_double d) = 26 /\ zlen (f_out (fmt_double d)) = 25.
Proof. vm_compute. repeat split. Qed.

(* with the 19 bytes the header used to reserve, the same value is an out-of-bounds store in the
   stream model (the defect that was fixed): cursor at 8173 of 8192 *)
Example C20_nonvacuous_old_reservation_overruns :
  let d := DFinite true [49;50;51;52;53;54;55;56;57;48;49;50;51;52;53;54;55] (-5) in
  s_run 8192 (repeat 120 (Z.to_nat 8173)) [SNumber 19 (fmt_double d)] = None /\
  exists b w, s_run 8192 (repeat 120 (Z.to_nat 8173)) [SNumber kBytes_double (fmt_double d)] = Some (b, w) /\ length w = 1%nat.
Proof. split; [vm_compute; reflexivity|]. eexists; eexists. split; [vm_compute; reflexivity|reflexivity]. Qed.

(* a float needs 23: 1e20f *)
Example C20_nonvacuous_float_23 :
  dvalue_ok_float (DFinite true [49] 21) = true /\ f_foot (fmt_double (DFinite true [49] 21)) = 23.
Proof. vm_compute. split; reflexivity. Qed.

(* integers: the vector store of a 13-digit value touches 16 bytes; extreme values *)
(* a write of 20000 bytes into a block holding 8000: blocks 8192, 8192, then 3616 from the destructor *)
Example C20_nonvacuous_threaded :
  match t_run 8192 (repeat 120 (Z.to_nat 8000)) [SWrite (repeat 121 (Z.to_nat 12000))] with
  | TOk b w => map (@length Z) (w ++ t_destroy b) = [Z.to_nat 8192; Z.to_nat 8192; Z.to_nat 3616]
  | _ => False
  end.
Proof. vm_compute. reflexivity. Qed.

(* "-0.00000987" reads back as -(987 * 10^-8); "1.2e21" as 12 * 10^20; "100000000000000000000" as 1 * 10^20 with k = 20 *)
Example C20_nonvacuous_reader :
  read_number (to_shortest_chars (DFinite true [57; 56; 55] (-5))) = (true, (987, -8)) /\
  read_number (to_shortest_chars (DFinite false [49; 50] 22)) = (false, (12, 20)) /\
  read_number (to_shortest_chars (DFinite false [49] 21)) = (false, (100000000000000000000, 0)).
Proof. vm_compute. repeat split. Qed.

Example C20_nonvacuous_dec :
  dec 0 = [48] /\ dec 1234567890123 = [49;50;51;52;53;54;55;56;57;48;49;50;51] /\
  dec_signed (-9223372036854775808) = [45;57;50;50;51;51;55;50;48;51;54;56;53;52;55;55;53;56;48;56].
Proof. vm_compute. repeat split. Qed.

Example C20_nonvacuous_integers :
  f_foot (fmt_u64 1234567890123) = 16 /\ zlen (f_out (fmt_u64 1234567890123)) = 13 /\
  f_out (fmt_u64 18446744073709551615) = [49;56;52;52;54;55;52;52;48;55;51;55;48;57;53;53;49;54;49;53] /\
  f_foot (fmt_i64 (-9223372036854775808)) = 20 /\ f_foot (fmt_i32 (-2147483648)) = 11 /\
  f_out (fmt_i16 (-32768)) = [45;51;50;55;54;56] /\ f_foot (fmt_ptr 18446744073709551615) = 18.
Proof. vm_compute. repeat split. Qed.
