(* C19 -- process_unicode applies the requested transforms to every line, each char once.
   Only statements; proofs are in Unicode/FlattenProofs.v.  ICU's toLower, NFKC and
   u_isspace are arbitrary functions (premise-free Section variables: the theorems
   hold for whatever ICU computes); the rule tables, the per-language composition,
   the index advance in Flatten::Apply and the printed buffer are regenerated from
   the source (Gen/Src_flatten.v). *)
From PP Require Import Unicode.FlattenDefs Unicode.MainDefs Unicode.FlattenProofs.
Local Open Scope Z_scope.

(* Flatten::Apply terminates on every UTF-16 string (the model's fuel error is unreachable) *)
Theorem C19_flatten_total : forall isspace d u, exists r, flatten_apply isspace d u = Some r.
Proof. exact flatten_apply_total. Qed.
Print Assumptions C19_flatten_total.

(* For all 8 flag sets, every supported language, every sequence of valid UTF-8
   lines and hence every line index: the tool prints, line for line, the line with
   exactly the requested transforms applied in the order lower, flatten, normalize
   ([pipe]); with no flag the text passes through the UTF-8 <-> UTF-16 conversion only.
   The two ping-pong buffers and cur/tmp are as coded; the statement holds from any
   state they are left in by earlier lines (process_line_spec). *)
Theorem C19_pipeline_spec : forall lower nfkc isspace lang fl d ls us,
  flatten_for lang = Some d ->
  Forall2 (fun l u => from_utf8 l = Some u) ls us ->
  no_delim 10 (concat ls) = true ->
  process_unicode lower nfkc isspace lang fl (unrecords 10 ls)
  = POk (unrecords 10 (map (fun u => to_utf8 (pipe lower nfkc isspace d fl u)) us)).
Proof. exact pipeline_spec_proof. Qed.
Print Assumptions C19_pipeline_spec.

(* non-vacuity: three lines, only --flatten (the flag set for which every other line
   used to come out untransformed), English: all three lines are flattened *)
Example C19_nonvacuous_pipeline :
  let isspace := fun c => c =? 32 in
  let ls := [[226; 128; 156; 120]; [226; 128; 156; 121]; [97; 240; 159; 152; 128; 98]] in
  no_delim 10 (concat ls) = true /\
  (exists d, flatten_for [101; 110] = Some d) /\
  process_unicode (fun u => u) (fun u => u) isspace [101; 110]
     {| f_lower := false; f_flatten := true; f_normalize := false |} (unrecords 10 ls)
  = POk [34; 120; 10; 34; 121; 10; 97; 240; 159; 152; 128; 98; 10].
Proof. vm_compute. repeat split. eexists; reflexivity. Qed.
