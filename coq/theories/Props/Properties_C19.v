(* C19 -- process_unicode applies the requested transforms to every line, each char once.
   Only statements; proofs are in Unicode/FlattenProofs.v. *)
From PP Require Import Unicode.FlattenDefs Unicode.MainDefs Unicode.FlattenProofs.
Local Open Scope Z_scope.

Theorem C19_flatten_empty : forall isspace d, flatten_apply isspace d [] = Some [].
Proof. exact flatten_apply_empty. Qed.
Print Assumptions C19_flatten_empty.
