(* C19 -- process_unicode applies the requested transforms to every line, each char once.
   Only statements; proofs are in Unicode/FlattenProofs.v.  ICU's toLower, NFKC and
   u_isspace are arbitrary functions (premise-free Section variables: the theorems
   hold for whatever ICU computes); the rule tables, the per-language composition,
   the index advance in Flatten::Apply and the printed buffer are regenerated from
   the source (Gen/Src_flatten.v). *)
From PP Require Import Fold.Utf8Grammar Unicode.FlattenDefs Unicode.MainDefs Unicode.FlattenProofs Unicode.ValidInput.
Local Open Scope Z_scope.

(* Flatten::Apply terminates on every UTF-16 string (the model's fuel error is unreachable) *)
Theorem C19_flatten_total : forall isspace d u, exists r, flatten_apply isspace d u = Some r.
Proof. exact flatten_apply_total. Qed.
Print Assumptions C19_flatten_total.

(* For all 8 flag sets, every supported language, every sequence of valid UTF-8
   lines and hence every line index: the tool prints, line for line, the line with
   exactly the requested transforms applied in the order lower, flatten, normalize
   ([pipe]); with no flag the text passes through the UTF-8 <-> UTF-16 conversion only.
   The two ping-pong buffers and cur/tmp are as coded; the statement holds from any
   state they are left in by earlier lines (process_line_spec). *)
(* Reading aid: [pipe] on the right-hand side composes the same model functions (lower, flatten_fn,
   nfkc) that the loop body calls; the content of the theorem is the buffer discipline -- whatever
   state str[0]/str[1]/cur/tmp are in, the printed buffer is the one holding the last result, for
   every flag set and every line index.  What flatten_fn computes is C19_flatten_spec. *)
Theorem C19_pipeline_spec : forall lower nfkc isspace lang fl d ls us,
  flatten_for lang = Some d ->
  Forall2 (fun l u => from_utf8 l = Some u) ls us ->
  no_delim 10 (concat ls) = true ->
  process_unicode lower nfkc isspace lang fl (unrecords 10 ls)
  = POk (unrecords 10 (map (fun u => to_utf8 (pipe lower nfkc isspace d fl u)) us)).
Proof. exact pipeline_spec_proof. Qed.
Print Assumptions C19_pipeline_spec.

(* Flatten::Apply, for every supported language and every string of Unicode scalar
   values (BMP and supplementary planes), produces exactly the code-point level
   specification [flatten_spec]: left to right; at a code point with an entry the listed
   multi-character alternatives are tried in the listed order (with the right-boundary
   condition where the table asks for it) before the single-character replacement;
   every other code point is copied once.  U = UTF-16 encoding of a code point list.
   Side conditions on the tables (start characters and rule suffixes are BMP, no
   surrogates) are checked on the regenerated tables by vm_compute (languages_ok). *)
(* [flatten_spec] is totalised by a fuel argument fs and returns [] when it runs out; the premise
   length cs < fs excludes that case, so the statement is about the real recursion only. *)
Theorem C19_flatten_spec : forall isspace lang d cs fs,
  flatten_for lang = Some d -> forallb is_scalar cs = true -> (length cs < fs)%nat ->
  flatten_apply isspace d (utf16_of_cps cs) = Some (utf16_of_cps (flatten_spec isspace fs d cs)).
Proof. exact flatten_spec_proof. Qed.
Print Assumptions C19_flatten_spec.

(* text that no rule targets passes through unchanged: every code point, including
   those outside the BMP, is emitted exactly once *)
Theorem C19_each_codepoint_once : forall isspace lang d cs,
  flatten_for lang = Some d -> forallb is_scalar cs = true ->
  (forall c, In c cs -> lookup d c = None) ->
  flatten_apply isspace d (utf16_of_cps cs) = Some (utf16_of_cps cs).
Proof. exact each_codepoint_once_proof. Qed.
Print Assumptions C19_each_codepoint_once.

(* The whole tool against the specification [line_spec] (lower, then the code-point
   level flatten specification, then NFKC), for all flag sets, languages and sequences
   of valid UTF-8 lines.  ICU enters through one premise: toLower maps well-formed
   UTF-16 to well-formed UTF-16. *)
Theorem C19_tool_spec : forall lower nfkc isspace,
  (forall u, wf16 u -> wf16 (lower u)) ->
  forall lang fl d ls us,
  flatten_for lang = Some d ->
  Forall2 (fun l u => from_utf8 l = Some u /\ bytes_okb l = true) ls us ->
  no_delim 10 (concat ls) = true ->
  process_unicode lower nfkc isspace lang fl (unrecords 10 ls)
  = POk (unrecords 10 (map (fun u => to_utf8 (line_spec lower nfkc isspace d fl u)) us)).
Proof. exact tool_spec_proof. Qed.
Print Assumptions C19_tool_spec.

(* With no flag, text passes through unchanged -- for every sequence of lines that are
   well-formed UTF-8 in the sense of Unicode Table 3-7 ([WF], one constructor per row). *)
Theorem C19_no_flag_identity : forall lower nfkc isspace lang d ls,
  flatten_for lang = Some d -> Forall WF ls -> no_delim 10 (concat ls) = true ->
  process_unicode lower nfkc isspace lang {| f_lower := false; f_flatten := false; f_normalize := false |} (unrecords 10 ls)
  = POk (unrecords 10 ls).
Proof. exact no_flag_identity_proof. Qed.
Print Assumptions C19_no_flag_identity.

(* C19_tool_spec with the independent notion of valid input: every Table 3-7 line is
   converted (us are the UTF-16 forms, to_utf8 gives the lines back) and transformed per [line_spec] *)
Theorem C19_tool_spec_table37 : forall lower nfkc isspace,
  (forall u, wf16 u -> wf16 (lower u)) ->
  forall lang fl d ls, flatten_for lang = Some d -> Forall WF ls -> no_delim 10 (concat ls) = true ->
  exists us, map to_utf8 us = ls /\
    process_unicode lower nfkc isspace lang fl (unrecords 10 ls)
    = POk (unrecords 10 (map (fun u => to_utf8 (line_spec lower nfkc isspace d fl u)) us)).
Proof. exact tool_spec_wf_proof. Qed.
Print Assumptions C19_tool_spec_table37.

Example C19_nonvacuous_table37 : Forall WF [[97; 240; 159; 152; 128; 98]; []; [226; 128; 156; 120]].
Proof.
  constructor; [|constructor; [apply wf_nil|constructor; [|constructor]]].
  - apply wf_1; [unfold rng; lia|]. apply wf_4a; [unfold rng; lia..|]. apply wf_1; [unfold rng; lia|]. apply wf_nil.
  - apply wf_3b; [unfold rng; lia..|]. apply wf_1; [unfold rng; lia|]. apply wf_nil.
Qed.

(* non-vacuity of the flatten theorems: English, a supplementary character next to
   triggers, a right-boundary rule that fires and one that does not *)
Example C19_nonvacuous_flatten :
  let isspace := fun c => c =? 32 in
  let cs := [97; 128512; 8230; 39; 32; 115; 32; 39; 32; 115; 120; 96; 96; 119558] in
  forallb is_scalar cs = true /\
  (exists d, flatten_for [101; 110] = Some d /\
     flatten_spec isspace 15 d cs = [97; 128512; 46; 46; 46; 39; 115; 32; 39; 32; 115; 120; 34; 119558] /\
     lookup d 128512 = None /\ lookup d 97 = None).
Proof.
  split; [vm_compute; reflexivity|]. eexists. split; [vm_compute; reflexivity|].
  vm_compute. repeat split; reflexivity.
Qed.

(* the per-language composition read from AllFlattenData: left double quotation mark and "' s" *)
Example C19_nonvacuous_languages :
  let isspace := fun c => c =? 32 in
  let run := fun lang cs => match flatten_for lang with Some d => Some (flatten_spec isspace 9 d cs) | None => None end in
  run [99; 115] [8220] = Some [8220] /\ run [100; 101] [8220] = Some [34] /\ run [101; 115] [8220] = Some [34] /\
  run [102; 114] [8220] = Some [171] /\ run [101; 110] [8220] = Some [34] /\
  run [101; 110] [39; 32; 115] = Some [39; 115] /\ run [100; 101] [39; 32; 115] = Some [39; 32; 115] /\
  run [102; 114] [96; 96; 8230] = Some [171; 46; 46; 46] /\ run [120; 120] [97] = None.
Proof. vm_compute. repeat split; reflexivity. Qed.

(* In the present tables no listed alternative of a start character is a prefix of another one, so
   the order in which Flatten::Apply tries them cannot be observed by any input: the listed order
   that the model and C19_flatten_spec fix is tied to the code by the translator only.  If a rule
   is added that overlaps another, this Example fails and the generators must cover the overlap. *)
Example C19_tables_prefix_free : tables_prefix_free = true.
Proof. vm_compute. reflexivity. Qed.

(* preprocess/text.sh runs process_unicode twice: first --flatten --normalize for the language,
   later (when lowercasing) --lower only; both with the language argument *)
Example C19_text_sh_stages :
  text_sh_stage1 = (false, true, true, true) /\ text_sh_stage2 = (true, false, false, true).
Proof. split; reflexivity. Qed.

(* non-vacuity: three lines, only --flatten (the flag set for which every other line
   used to come out untransformed), English: all three lines are flattened *)
Example C19_nonvacuous_pipeline :
  let isspace := fun c => c =? 32 in
  let ls := [[226; 128; 156; 120]; [226; 128; 156; 121]; [97; 240; 159; 152; 128; 98]] in
  no_delim 10 (concat ls) = true /\
  (exists d, flatten_for [101; 110] = Some d) /\
  process_unicode (fun u => u) (fun u => u) isspace [101; 110]
     {| f_lower := false; f_flatten := true; f_normalize := false |} (unrecords 10 ls)
  = POk [34; 120; 10; 34; 121; 10; 97; 240; 159; 152; 128; 98; 10].
Proof. vm_compute. repeat split. eexists; reflexivity. Qed.
