(* C17 -- WARC records are framed exactly.  Statements only; proofs in
   Warc/WarcProofs.v.  The model (Warc/WarcDefs.v) is WARCReader::Read with
   ReadMore, HeaderReader::Line, strtoll, size_t arithmetic and overhang_, over
   an abstract byte source [rread] with ghost state [rem] (bytes not yet
   delivered) and invariant [rinv]:
     rread_contract: a request of n > 0 bytes returns between 1 and n of the
     remaining bytes, nothing only at end of file (util::ReadCompressed::Read on
     an intact plain or compressed input -- C15).  Every fragmentation of the
     stream is such a source.  WHang (fuel) never occurs. *)
From PP Require Import Warc.WarcDefs Warc.WarcProofs Compress.CompressDefs Compress.CompressProofs Warc.ParallelDefs Warc.ParallelProofs.
From PP Require Import Warc.WarcCompressed Compress.ToyCodec Warc.WarcIndependent.
From Coq Require Import Permutation.
Local Open Scope Z_scope.

(* All record sequences (header lines of any number, CRLF or LF line ends, any
   case of Content-Length, optional blanks and '+', bodies of ANY bytes and
   sizes, also 0) over all fragmentations: exactly the records, byte for byte,
   then a clean end of file. *)
Theorem C17_records_exact :
  forall (rstate : Type) (rread : rstate -> N -> option (list Z * rstate))
         (rem : rstate -> list Z) (rinv : rstate -> Prop),
    rread_contract rstate rread rem rinv ->
    forall (recs : list (list Z)) (rs : rstate) (n fuel : nat),
      rinv rs -> Forall wf_record recs -> rem rs = concat recs ->
      (length recs < n)%nat -> (length (concat recs) + 1 < fuel)%nat ->
      warc_read_all rstate rread n fuel rs [] = AllOk recs.
Proof. exact records_exact_proof. Qed.
Print Assumptions C17_records_exact.

(* the same through the model of util::ReadCompressed on a plain file arriving
   in any fragments f (magic detection, UncompressedWithHeader, then the pipe) *)
Theorem C17_warc_file_exact :
  forall (f : frags) (recs : list (list Z)) (n fuel : nat),
    Forall wf_record recs -> fbytes f = concat recs ->
    detect_magic (takeN kMagicSize (concat recs)) = None ->
    (length recs < n)%nat -> (length (concat recs) + 1 < fuel)%nat ->
    warc_file n fuel f = AllOk recs.
Proof. exact warc_file_exact_proof. Qed.
Print Assumptions C17_warc_file_exact.

(* Broken framing is an error, never a silent resynchronisation or a shorter
   success: whenever the whole stream is read successfully, the returned
   records concatenated ARE the stream (every byte in exactly one record, in
   order) and every record ends in CR LF CR LF.  So a stream cut anywhere but at
   a record boundary, or with bytes between records, cannot succeed. *)
Theorem C17_success_is_exact :
  forall (rstate : Type) (rread : rstate -> N -> option (list Z * rstate))
         (rem : rstate -> list Z) (rinv : rstate -> Prop),
    rread_contract rstate rread rem rinv ->
    forall (n fuel : nat) (rs : rstate) (ov : list Z) (recs : list (list Z)),
      rinv rs -> warc_read_all rstate rread n fuel rs ov = AllOk recs ->
      concat recs = ov ++ rem rs /\ Forall ends_with_trailer recs.
Proof. exact success_is_exact_proof. Qed.
Print Assumptions C17_success_is_exact.

(* strtoll on a Content-Length value: blanks, optional '+', digits; what follows
   (CR, LF, the next lines) does not matter once a digit was seen *)
Theorem C17_strtoll_value :
  forall ws (plus : bool) ds t,
    all_space ws -> all_digit ds -> ds <> [] -> dval ds <= llong_max ->
    (match t with [] => True | c :: _ => is_digit c = false end) ->
    strtoll (ws ++ (if plus then [43] else []) ++ ds ++ t) =
    (dval ds, (length ws + (if plus then 1 else 0) + length ds)%nat).
Proof. exact strtoll_value. Qed.
Print Assumptions C17_strtoll_value.

(* ---- non-vacuity: a concrete two-record stream meets wf_record, and the
   executable model reads it in 1-byte fragments and as one piece *)
Definition ex_rec1 : list Z :=
  [87;65;82;67;47;49;46;48;13;10;  88;58;32;121;13;10;
   99;111;110;116;101;110;116;45;108;101;110;103;116;104;58;32;43;53;13;10;  13;10;
   104;101;108;108;111;  13;10;13;10].
Definition ex_rec2 : list Z :=
  [87;65;82;67;47;49;46;48;10;  67;111;110;116;101;110;116;45;76;101;110;103;116;104;58;48;10;  10;  13;10;13;10].

Example C17_nonvacuous_model_runs :
  warc_file 5 200 (map (fun b => [b]) (ex_rec1 ++ ex_rec2)) = AllOk [ex_rec1; ex_rec2] /\
  warc_file 5 200 [ex_rec1 ++ ex_rec2] = AllOk [ex_rec1; ex_rec2] /\
  (* negative, empty and duplicate Content-Length, missing terminator: errors *)
  warc_file 5 200 [[87;65;82;67;47;49;46;48;13;10; 67;111;110;116;101;110;116;45;76;101;110;103;116;104;58;32;45;52;13;10; 13;10]]
    = AllErr WFormat [] /\
  warc_file 5 200 [[87;65;82;67;47;49;46;48;13;10; 67;111;110;116;101;110;116;45;76;101;110;103;116;104;58;13;10; 13;10; 13;10;13;10]]
    = AllErr WFormat [] /\
  warc_file 5 200 [firstn 44 ex_rec1] = AllErr WEof [].
Proof. vm_compute. repeat split. Qed.

Example C17_nonvacuous_wf_record : wf_record ex_rec2.
Proof.
  exists [87;65;82;67;47;49;46;48], [[67;111;110;116;101;110;116;45;76;101;110;103;116;104;58;48]], [], [].
  split; [reflexivity|]. split; [repeat constructor; lia|]. split; [reflexivity|]. split.
  - apply hdrs_cl; [|constructor].
    exists [67;111;110;116;101;110;116;45;76;101;110;103;116;104;58], [], false, [48], false.
    repeat split; try reflexivity; try (repeat constructor; lia); try discriminate;
      try (vm_compute; discriminate).
  - split; [left; reflexivity|vm_compute; reflexivity].
Qed.

(* the body length taken from the header is never negative: "Content-Length: -4"
   (strtoll accepts a sign, the result went into a size_t) is rejected.  Depends
   on the regenerated flag warc_reject_negative. *)
Theorem C17_content_length_nonnegative :
  forall (rstate : Type) (rread : rstate -> N -> option (list Z * rstate))
         fuel lfuel rs out consumed line seen len0, 0 <= len0 ->
    match header_loop rstate rread fuel lfuel rs out consumed line seen len0 with
    | HdrOk _ _ _ _ len => 0 <= len
    | HdrErr _ _ => True
    end.
Proof. exact header_len_nonneg. Qed.
Print Assumptions C17_content_length_nonnegative.

(* On EVERY stream, from every source obeying the contract, reading ends: all
   records (then C17_success_is_exact applies) or an error that is not fuel
   exhaustion.  Together: broken framing is an error -- not a hang, not a silent
   resynchronisation, not a shorter success. *)
Theorem C17_never_hangs :
  forall (rstate : Type) (rread : rstate -> N -> option (list Z * rstate))
         (rem : rstate -> list Z) (rinv : rstate -> Prop),
    rread_contract rstate rread rem rinv ->
    forall (n fuel : nat) (rs : rstate) (ov : list Z),
      rinv rs -> (length (ov ++ rem rs) < n)%nat -> (length (ov ++ rem rs) + 1 < fuel)%nat ->
      match warc_read_all rstate rread n fuel rs ov with
      | AllOk _ => True
      | AllErr e _ => e <> WHang
      end.
Proof. exact never_hangs_proof. Qed.
Print Assumptions C17_never_hangs.

(* What Read returns is a function of the bytes alone: if a stream read from one source
   (any fragmentation obeying the contract) yields records recs, the same bytes read from
   ANY other source yield exactly recs -- the accepted language is not described by a
   grammar here (so also "Content-Length: -0" and the like are covered), every phase of
   Read is shown to look at the stream only.  (The stream is shorter than the model's
   allocation limit of 2^46 bytes.) *)
Theorem C17_reading_is_a_function_of_the_bytes :
  forall (rstate1 rstate2 : Type)
         (rread1 : rstate1 -> N -> option (list Z * rstate1)) (rread2 : rstate2 -> N -> option (list Z * rstate2))
         (rem1 : rstate1 -> list Z) (rem2 : rstate2 -> list Z) (rinv1 : rstate1 -> Prop) (rinv2 : rstate2 -> Prop),
    rread_contract rstate1 rread1 rem1 rinv1 -> rread_contract rstate2 rread2 rem2 rinv2 ->
    forall n1 fuel1 rs1 ov1 recs, rinv1 rs1 ->
      warc_read_all rstate1 rread1 n1 fuel1 rs1 ov1 = AllOk recs ->
      forall n2 fuel2 rs2 ov2, rinv2 rs2 -> ov2 ++ rem2 rs2 = ov1 ++ rem1 rs1 ->
        Z.of_nat (length (ov1 ++ rem1 rs1)) < alloc_limit ->
        (length recs < n2)%nat -> (length (ov1 ++ rem1 rs1) + 1 < fuel2)%nat ->
        warc_read_all rstate2 rread2 n2 fuel2 rs2 ov2 = AllOk recs.
Proof. exact read_all_agree. Qed.
Print Assumptions C17_reading_is_a_function_of_the_bytes.

(* re-framing: the records a successful read returned, written out one after the other
   (what an identity child does with them) and read again from any source -- e.g. the pipe
   from the child, in whatever pieces it delivers -- come back as the same records.  No
   well-formedness premise: acceptance by the first reader is enough. *)
Theorem C17_reframing_is_exact :
  forall (rstate1 rstate2 : Type)
         (rread1 : rstate1 -> N -> option (list Z * rstate1)) (rread2 : rstate2 -> N -> option (list Z * rstate2))
         (rem1 : rstate1 -> list Z) (rem2 : rstate2 -> list Z) (rinv1 : rstate1 -> Prop) (rinv2 : rstate2 -> Prop),
    rread_contract rstate1 rread1 rem1 rinv1 -> rread_contract rstate2 rread2 rem2 rinv2 ->
    forall n1 fuel1 rs1 ov1 recs, rinv1 rs1 ->
      warc_read_all rstate1 rread1 n1 fuel1 rs1 ov1 = AllOk recs ->
      forall n2 fuel2 rs2, rinv2 rs2 -> rem2 rs2 = concat recs ->
        Z.of_nat (length (concat recs)) < alloc_limit ->
        (length recs < n2)%nat -> (length (concat recs) + 1 < fuel2)%nat ->
        warc_read_all rstate2 rread2 n2 fuel2 rs2 [] = AllOk recs.
Proof.
  intros rstate1 rstate2 rread1 rread2 rem1 rem2 rinv1 rinv2 S1 S2 n1 fuel1 rs1 ov1 recs Hi1 H n2 fuel2 rs2 Hi2 Hr Hal Hn Hf.
  destruct (success_is_exact_proof rstate1 rread1 rem1 rinv1 S1 n1 fuel1 rs1 ov1 recs Hi1 H) as [Hc _].
  rewrite Hc in *.
  apply (read_all_agree rstate1 rstate2 rread1 rread2 rem1 rem2 rinv1 rinv2 S1 S2 n1 fuel1 rs1 ov1 recs Hi1 H); auto.
Qed.
Print Assumptions C17_reframing_is_exact.

(* it applies to a stream outside wf_record: "Content-Length: -0" is accepted (strtoll takes
   the sign, the value is not negative) whole and byte by byte, with the same result *)
Definition ex_rec_minus0 : list Z :=
  [87;65;82;67;47;49;46;48;10;  67;111;110;116;101;110;116;45;76;101;110;103;116;104;58;32;45;48;10;  10;  13;10;13;10].
Example C17_nonvacuous_minus_zero :
  warc_file 5 200 [ex_rec_minus0] = AllOk [ex_rec_minus0] /\
  warc_file 5 200 (map (fun b => [b]) ex_rec_minus0) = AllOk [ex_rec_minus0].
Proof. vm_compute. split; reflexivity. Qed.

Lemma C15_gzcompress_roundtrip_toy : forall r : list Z,
  exists f0 out, (forall fuel, (f0 <= fuel)%nat -> gz_compress unit tenc tenew tecall fuel tt r = FileOk out) /\ tmember KGz out r.
Proof. intros r. exact (gzcompress_proof unit tenc tenew tecall tmember TEInv tepend toy_enew_inv toy_run_contract toy_finish_contract tt r). Qed.

(* ---- warc_parallel (Warc/ParallelDefs.v): an executable transition system with one label
   per thread -- the reader threads (Read + ProduceSwap into the bounded queue, whose ring
   slots keep their stale strings), Join (waits for the readers, then Produce of one empty
   string per worker), per worker the input thread (ConsumeSwap; the empty string ends it
   and closes the child's stdin), the identity child, and the output thread (takes the
   mutex, writes the record BYTE BY BYTE, releases it).  A schedule is any list of labels;
   pstep = None means that thread cannot move (blocked or returned).
   [enc] = what is written for a record: the record itself, with -z GZCompress of it.
   The records the readers hand over are never empty (C17_parallel_tool_inputs_exact), so
   none is mistaken for an end marker.
   Assumed from elsewhere: whole Produce/Consume calls are atomic and FIFO (C16); the output
   thread's re-framing of the child's bytes (C17_reading_is_a_function_of_the_bytes); pipes
   never fill up (an unbounded list each).  Regenerated from the source: Join uses Produce,
   not ProduceSwap (wp_join_swaps), every `*out <<` is under the lock (wp_out_locked). *)

(* never stuck: in every reachable state either every thread has returned or some thread can move *)
Theorem C17_parallel_never_stuck :
  forall (enc : rec -> list Z) (inputs : list (list rec)) (N cap : nat) (s : pstate),
    (0 < N)%nat -> (0 < cap)%nat -> Forall (Forall nonempty) inputs ->
    reachable (ParallelDefs.pstep enc) (pinit inputs N cap) s ->
    pterminated s = true \/ exists l s', ParallelDefs.pstep enc s l = Some s'.
Proof.
  intros enc inputs N cap s HN Hc Hne Hr.
  destruct (all_reachable enc inputs N cap s Hne Hr) as [HI [HM HC]].
  destruct (pterminated s) eqn:ET; [left; reflexivity|right].
  exact (progress enc N cap s HN Hc HI HM ET).
Qed.
Print Assumptions C17_parallel_never_stuck.

(* termination: no schedule is longer than the potential of the initial state, and from every
   reachable state the end can be reached -- so every schedule, continued until no thread can
   move, stops after finitely many steps in a state where all threads have returned *)
Theorem C17_parallel_terminates :
  forall (enc : rec -> list Z) (inputs : list (list rec)) (N cap : nat),
    (forall ls s, run (ParallelDefs.pstep enc) (pinit inputs N cap) ls = Some s ->
                  (length ls <= pmeasure enc (pinit inputs N cap))%nat) /\
    ((0 < N)%nat -> (0 < cap)%nat -> Forall (Forall nonempty) inputs ->
     forall s, reachable (ParallelDefs.pstep enc) (pinit inputs N cap) s ->
       exists ls s', run (ParallelDefs.pstep enc) s ls = Some s' /\ pterminated s' = true).
Proof.
  intros enc inputs N cap. split.
  - intros ls s H. pose proof (runs_bounded enc ls _ _ H). lia.
  - intros HN Hc Hne s Hr.
    apply (end_reachable enc inputs N cap HN Hc (pmeasure enc s) s (le_n _)).
    apply all_reachable; assumption.
Qed.
Print Assumptions C17_parallel_terminates.

(* the result, on the byte stream: when no thread can move any more, all have returned and
   stdout is the concatenation of SOME PERMUTATION of all input records -- every record
   exactly once, the bytes of two records never interleaved; for every schedule, N >= 1
   workers, any number of inputs, any queue size *)
Theorem C17_parallel_exactly_once :
  forall (inputs : list (list rec)) (N cap : nat) (ls : list plabel) (s : pstate),
    (0 < N)%nat -> (0 < cap)%nat -> Forall (Forall nonempty) inputs ->
    run (ParallelDefs.pstep (fun r => r)) (pinit inputs N cap) ls = Some s -> (forall l, ParallelDefs.pstep (fun r => r) s l = None) ->
    pterminated s = true /\
    exists perm, Permutation perm (concat inputs) /\ p_stdout s = concat perm.
Proof.
  intros inputs N cap ls s HN Hc Hne Hr Hst.
  destruct (complete_run (fun r => r) inputs N cap ls s HN Hc Hne Hr Hst) as [T [P1 P2]].
  split; [exact T|]. exists (p_emitted s). split; [exact P1|]. rewrite P2, map_id. reflexivity.
Qed.
Print Assumptions C17_parallel_exactly_once.

(* with -z: [enc r] is what the model of util::GZCompress (C15) returns for r.  Then stdout is
   one gzip member per record, members whole and one after the other, member i decoding to
   record i of a permutation of the input: a stream the C15 reader theorem applies to, with
   payload the concatenated records *)
Theorem C17_parallel_gzip_members :
  forall (world estate : Type) (enew : world -> kind -> estate * world)
         (ecall : kind -> estate -> Z -> list Z -> N -> cres estate)
         (member : kind -> list Z -> list Z -> Prop)
         (EInv : kind -> estate -> list Z -> list Z -> Prop) (epend : estate -> nat),
    (forall w k, EInv k (fst (enew w k)) [] []) ->
    ecall_run_contract estate ecall EInv epend ->
    ecall_finish_contract estate ecall member EInv epend ->
    forall (w : world) (enc : rec -> list Z),
      (forall r, exists f0, forall fuel, (f0 <= fuel)%nat -> gz_compress world estate enew ecall fuel w r = FileOk (enc r)) ->
      forall (inputs : list (list rec)) (N cap : nat) (ls : list plabel) (s : pstate),
        (0 < N)%nat -> (0 < cap)%nat -> Forall (Forall nonempty) inputs ->
        run (ParallelDefs.pstep enc) (pinit inputs N cap) ls = Some s -> (forall l, ParallelDefs.pstep enc s l = None) ->
        pterminated s = true /\
        exists perm, Permutation perm (concat inputs) /\ p_stdout s = concat (map enc perm) /\
                     Forall (fun r => member KGz (enc r) r) perm /\
                     kstream member KGz (p_stdout s) (concat perm).
Proof. exact parallel_gzip_members. Qed.
Print Assumptions C17_parallel_gzip_members.

(* at every moment of every schedule: what has been begun on stdout is part of the input,
   nothing twice; stdout is a prefix of the whole records begun, in the order of the mutex *)
Theorem C17_parallel_never_invents :
  forall (enc : rec -> list Z) (inputs : list (list rec)) (N cap : nat) (s : pstate),
    Forall (Forall nonempty) inputs -> reachable (ParallelDefs.pstep enc) (pinit inputs N cap) s ->
    exists rest pending, Permutation (p_emitted s ++ rest) (concat inputs) /\
                         p_stdout s ++ pending = concat (map enc (p_emitted s)).
Proof. intros enc inputs N cap s Hne Hr. apply (safety enc inputs N cap). apply all_reachable; assumption. Qed.
Print Assumptions C17_parallel_never_invents.

(* one input and one worker: the order is kept too *)
Theorem C17_parallel_single_worker_keeps_order :
  forall (input : list rec) (cap : nat) (ls : list plabel) (s : pstate),
    (0 < cap)%nat -> Forall nonempty input ->
    run (ParallelDefs.pstep (fun r => r)) (pinit [input] 1 cap) ls = Some s -> (forall l, ParallelDefs.pstep (fun r => r) s l = None) ->
    p_stdout s = concat input.
Proof.
  intros input cap ls s Hc Hne Hr Hst.
  assert (Hin : Forall (Forall nonempty) [input]) by (constructor; [exact Hne|constructor]).
  destruct (complete_run (fun r => r) [input] 1 cap ls s (le_n 1) Hc Hin Hr Hst) as [T [_ P2]].
  rewrite P2, map_id. f_equal.
  apply (single_worker_keeps_order (fun r => r) input cap s Hne); [|exact T].
  apply reachable_iff_run. exists ls. exact Hr.
Qed.
Print Assumptions C17_parallel_single_worker_keeps_order.

(* the input side of the tool (ptool): every input is framed by its own WARCReader and
   an exception there ends the process.  The threads only start from records when every input
   is, byte for byte, a concatenation of CR LF CR LF terminated records: a truncated
   input (stdin or -i file) is an error of the tool, for every -j; and no record is empty *)
Theorem C17_parallel_tool_inputs_exact :
  forall n fuel (inputs_frags : list frags) jobs st,
    Forall (fun f => detect_magic (takeN kMagicSize (fbytes f)) = None) inputs_frags ->
    ptool (fun s => read_plain n fuel [s]) (map fbytes inputs_frags) jobs = Some st ->
    exists inputs, st = pinit inputs jobs jobs /\ Forall (Forall nonempty) inputs /\
      Forall2 (fun f recs => concat recs = fbytes f /\ Forall ends_with_trailer recs) inputs_frags inputs.
Proof. exact parallel_tool_inputs_exact. Qed.
Print Assumptions C17_parallel_tool_inputs_exact.

(* ---- it runs: 2 workers, 3 records from 2 inputs, a queue of 2 slots.  In the middle both
   output threads hold a record; worker 1 has the mutex and worker 0 cannot move (None);
   at the end every thread has returned and stdout is a ++ c ++ b, no bytes mixed *)
Definition ex_sched1 : list plabel :=
  [LReader 0; LReader 1; LIn 1; LIn 0; LReader 0; LChild 0; LChild 1; LOut 0; LOut 1; LOut 1].
Definition ex_sched2 : list plabel :=
  [LOut 1; LOut 1; LOut 0; LOut 0; LOut 0; LIn 1; LMain; LMain; LIn 0; LChild 1; LOut 1; LOut 1; LOut 1; LOut 1; LOut 1;
   LIn 1; LChild 0; LChild 1; LOut 0; LOut 1].
Example C17_nonvacuous_parallel :
  let a := [1]%Z in let b := [2; 2]%Z in let c := [3]%Z in
  match run (ParallelDefs.pstep (fun r => r)) (pinit [[a; b]; [c]] 2 2) ex_sched1 with
  | Some s1 =>
    p_mutex s1 = true /\ ParallelDefs.pstep (fun r => r) s1 (LOut 0) = None /\ pterminated s1 = false /\
    match run (ParallelDefs.pstep (fun r => r)) s1 ex_sched2 with
    | Some s2 => pterminated s2 = true /\ p_stdout s2 = a ++ c ++ b /\ p_emitted s2 = [a; c; b] /\
                 (forall l, ParallelDefs.pstep (fun r => r) s2 l = None)
    | None => False
    end
  | None => False
  end.
Proof.
  vm_compute. repeat split.
  intros l. destruct l as [i| |w|w|w]; try reflexivity;
    repeat (destruct i as [|i]; try reflexivity); repeat (destruct w as [|w]; try reflexivity).
Qed.

(* the premises of C17_parallel_gzip_members can be met: the toy gzip codec of
   Compress/ToyCodec.v (magic, [1; b] per byte, [0]) obeys the encoder contract, and its
   GZCompress result is a function of the record -- a closed instance *)
Definition toy_gz (r : rec) : list Z := magic_of KGz ++ ToyCodec.enc r ++ [0].
Theorem C17_parallel_gzip_contract_satisfiable :
  forall (inputs : list (list rec)) (N cap : nat) (ls : list plabel) (s : pstate),
    (0 < N)%nat -> (0 < cap)%nat -> Forall (Forall nonempty) inputs ->
    run (ParallelDefs.pstep toy_gz) (pinit inputs N cap) ls = Some s -> (forall l, ParallelDefs.pstep toy_gz s l = None) ->
    pterminated s = true /\
    exists perm, Permutation perm (concat inputs) /\ p_stdout s = concat (map toy_gz perm) /\
                 kstream tmember KGz (p_stdout s) (concat perm).
Proof.
  intros inputs N cap ls s HN Hc Hne Hr Hst.
  destruct (C17_parallel_gzip_members unit tenc tenew tecall tmember TEInv tepend toy_enew_inv toy_run_contract toy_finish_contract
              tt toy_gz) with (inputs := inputs) (N := N) (cap := cap) (ls := ls) (s := s) as [T [perm [P1 [P2 [_ P4]]]]]; auto.
  - intros r. destruct (C15_gzcompress_roundtrip_toy r) as [f0 [out [H1 H2]]]. exists f0. intros fuel Hf.
    rewrite (H1 fuel Hf). unfold tmember in H2. rewrite H2. reflexivity.
  - split; [exact T|]. exists perm. auto.
Qed.
Print Assumptions C17_parallel_gzip_contract_satisfiable.

Example C17_nonvacuous_gzcompress_model :
  gz_compress unit tenc tenew tecall 200 tt [5; 6] = FileOk (toy_gz [5; 6]).
Proof. vm_compute. reflexivity. Qed.

(* ---- the broken-framing classes one by one (each: a format error from Read,
   for every source / fragmentation; none of them resynchronises) *)
(* no version line: the first line (CR allowed) is not "WARC/1.0" *)
Theorem C17_bad_version_is_error :
  forall (rstate : Type) (rread : rstate -> N -> option (list Z * rstate))
         (rem : rstate -> list Z) (rinv : rstate -> Prop),
    rread_contract rstate rread rem rinv ->
    forall fuel rs ov vline post, rinv rs ->
      ov ++ rem rs = vline ++ 10 :: post -> no10 vline -> strip_cr_end vline <> warc_version ->
      (length (rem rs) < fuel)%nat ->
      warc_read rstate rread fuel rs ov = RecErr rstate WFormat.
Proof. exact bad_version_is_error_proof. Qed.
Print Assumptions C17_bad_version_is_error.

(* missing Content-Length (blank line reached without one) or a duplicate (a second
   line with that name, whatever its value), after any ordinary header lines *)
Theorem C17_missing_or_duplicate_content_length_is_error :
  forall (rstate : Type) (rread : rstate -> N -> option (list Z * rstate))
         (rem : rstate -> list Z) (rinv : rstate -> Prop),
    rread_contract rstate rread rem rinv ->
    forall fuel rs ov vline tail k, rinv rs ->
      ov ++ rem rs = vline ++ 10 :: tail -> no10 vline -> strip_cr_end vline = warc_version ->
      hdrs_bad false tail k -> (k < fuel)%nat -> (length (rem rs) < fuel)%nat ->
      warc_read rstate rread fuel rs ov = RecErr rstate WFormat.
Proof. exact bad_header_is_error_proof. Qed.
Print Assumptions C17_missing_or_duplicate_content_length_is_error.

(* bad terminator: header fine, body of the announced length, but the four bytes
   behind it are not CR LF CR LF *)
Theorem C17_bad_terminator_is_error :
  forall (rstate : Type) (rread : rstate -> N -> option (list Z * rstate))
         (rem : rstate -> list Z) (rinv : rstate -> Prop),
    rread_contract rstate rread rem rinv ->
    forall fuel rs ov r rest vline hs blank body term, rinv rs ->
      r = vline ++ [10] ++ lines_bytes hs ++ blank ++ [10] ++ body ++ term ->
      no10 vline -> strip_cr_end vline = warc_version -> hdrs false hs (length body) ->
      (blank = [] \/ blank = [13]) -> Z.of_nat (length r) < alloc_limit ->
      length term = 4%nat -> term <> warc_trailer ->
      ov ++ rem rs = r ++ rest -> (length (r ++ rest) + 1 < fuel)%nat ->
      warc_read rstate rread fuel rs ov = RecErr rstate WFormat.
Proof. exact bad_terminator_is_error_proof. Qed.
Print Assumptions C17_bad_terminator_is_error.

(* the premises of C17_bad_version_is_error and C17_bad_terminator_is_error can be met, and the
   executable model gives the announced error on such streams (whole and byte by byte) *)
Example C17_nonvacuous_bad_version :
  let vline := [87;65;82;67;47;49;46;49;13] in      (* "WARC/1.1" CR *)
  no10 vline /\ strip_cr_end vline <> warc_version /\
  warc_file 5 200 [vline ++ 10 :: skipn 9 ex_rec2] = AllErr WFormat [] /\
  warc_file 5 200 (map (fun b => [b]) (vline ++ 10 :: skipn 9 ex_rec2)) = AllErr WFormat [].
Proof.
  split; [repeat constructor; lia|]. split; [vm_compute; discriminate|]. vm_compute. split; reflexivity.
Qed.

Example C17_nonvacuous_bad_terminator :
  let vline := [87;65;82;67;47;49;46;48] in
  let hs := [[67;111;110;116;101;110;116;45;76;101;110;103;116;104;58;50]] in    (* Content-Length:2 *)
  let body := [104; 105] in let term := [13;10;13;13] in
  let r := vline ++ [10] ++ lines_bytes hs ++ [] ++ [10] ++ body ++ term in
  no10 vline /\ strip_cr_end vline = warc_version /\ hdrs false hs (length body) /\
  Z.of_nat (length r) < alloc_limit /\ length term = 4%nat /\ term <> warc_trailer /\
  warc_file 5 200 [r ++ ex_rec2] = AllErr WFormat [] /\
  warc_file 5 200 (map (fun b => [b]) (r ++ ex_rec2)) = AllErr WFormat [].
Proof.
  cbv zeta. split; [repeat constructor; lia|]. split; [reflexivity|]. split.
  - apply hdrs_cl; [|constructor].
    exists [67;111;110;116;101;110;116;45;76;101;110;103;116;104;58], [], false, [50], false.
    repeat split; try reflexivity; try (repeat constructor; lia); try discriminate;
      try (vm_compute; discriminate).
  - split; [vm_compute; reflexivity|]. split; [reflexivity|]. split; [discriminate|]. vm_compute. split; reflexivity.
Qed.

Example C17_nonvacuous_bad_header :
  (* "X: y" then a blank line: Content-Length missing;  CL, then "content-length: 9": duplicate *)
  hdrs_bad false ([88; 58; 32; 121; 13] ++ 10 :: [13] ++ 10 :: [97]) 1 /\
  is_content_length (strip_cr_end [99;111;110;116;101;110;116;45;108;101;110;103;116;104;58;32;57;13]) = true.
Proof.
  split; [|vm_compute; reflexivity].
  apply bad_plain.
  - split; [repeat constructor; lia|]. split; vm_compute; [discriminate|reflexivity].
  - apply bad_missing. right. reflexivity.
Qed.

(* ---- compressed input: WARCReader over ReadCompressed over an abstract codec that
   obeys the C15 contract.  Any mix of gzip/bzip2/xz members, any member boundaries
   (one member per record, one for the whole file, ...), any fragmentation: exactly
   the records.  (gstate = reader state of C15 plus the ghost "payload not yet
   delivered"; gread = C15's rd.) *)
Theorem C17_records_exact_compressed_input :
  forall (world dstate : Type) (dnew : world -> kind -> dstate * world)
         (dcall : kind -> dstate -> Z -> list Z -> N -> cres dstate)
         (member : kind -> list Z -> list Z -> Prop)
         (DInv : kind -> dstate -> list Z -> list Z -> Prop) (dstall : dstate -> nat),
    (forall k m p, member k m p -> starts_with (magic_of k) m = true) ->
    (forall w k m p, member k m p -> DInv k (fst (dnew w k)) m p) ->
    dcall_contract dstate dcall DInv dstall ->
    forall (rfuel : nat) (f : frags) (w : world) (raw : list Z) (recs : list (list Z)) (n fuel : nat),
      mstream member raw (concat recs) -> fbytes f = raw -> Forall wf_record recs ->
      (2 * length raw < rfuel)%nat -> (length recs < n)%nat -> (length (concat recs) + 1 < fuel)%nat ->
      exists s0, rc_open world dstate dnew f w = Some s0 /\
        warc_read_all (gstate world dstate) (gread world dstate dnew dcall rfuel) n fuel (s0, concat recs) [] = AllOk recs.
Proof. exact warc_compressed_exact_proof. Qed.
Print Assumptions C17_records_exact_compressed_input.

(* it runs: ex_rec2 compressed by the toy gzip codec as one member, ex_rec1 as a second
   (toy bzip2) member, delivered byte by byte *)
Example C17_nonvacuous_compressed :
  let raw := (magic_of KGz ++ enc ex_rec2 ++ [0]) ++ (magic_of KBz ++ enc ex_rec1 ++ [0]) in
  match rc_open unit tdec tdnew (map (fun b => [b]) raw) tt with
  | Some s0 => warc_read_all (gstate unit tdec) (gread unit tdec tdnew tdcall 1000) 5 300 (s0, ex_rec2 ++ ex_rec1) []
               = AllOk [ex_rec2; ex_rec1]
  | None => False
  end.
Proof. vm_compute. reflexivity. Qed.
