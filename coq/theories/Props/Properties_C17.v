(* C17 -- WARC framing.  Statements only; proofs in Warc/WarcProofs.v. *)
From PP Require Import Warc.WarcDefs.
Local Open Scope Z_scope.

(* strtoll on a plain decimal number followed by a non-digit *)
Example C17_nonvacuous_strtoll :
  strtoll [32; 49; 50; 51; 13; 10; 55] = (123, 4%nat) /\
  strtoll [13; 10; 49; 50] = (12, 4%nat) /\
  strtoll [45; 52; 13] = (-4, 2%nat) /\
  strtoll [13; 10; 13; 10; 97] = (0, 0%nat).
Proof. vm_compute. repeat split. Qed.

Theorem C17_strtoll_no_digits_no_conversion :
  forall l, snd (strtoll l) = 0%nat -> fst (strtoll l) = 0.
Proof.
  intros l. unfold strtoll.
  destruct (skip_space l 0) as [l1 n1].
  destruct l1 as [|b r]; simpl.
  - intros _. reflexivity.
  - destruct (match b with 45 => _ | _ => _ end) as [[neg l2] n2] eqn:E.
    destruct (scan_digits l2 0 0) as [v cnt]. destruct cnt; simpl; [reflexivity|]. intros H. lia.
Qed.
Print Assumptions C17_strtoll_no_digits_no_conversion.
