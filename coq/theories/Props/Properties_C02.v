(* C02 -- the line reader (util::FilePiece) yields exactly the input's records for any
   source and chunking.  Statements only; proofs are in Reader/FilePieceProofs.v, the
   executable model (what the correspondence check runs against util/file_piece.cc) in
   Reader/FilePieceDefs.v, the OS oracle in Sys/SysIODefs.v, the specification function
   [records] in Base/Lines.v.

   Reading the statements: [fp_open_read cap (os_init src script)] is FilePiece(fd) on a
   pipe that will deliver the bytes [src], where the k-th read() call behaves as the
   k-th entry of [script] (Full | Short n | Eintr; Full for ever afterwards);
   [read_all d cr s] calls ReadLineOrEOF(d, cr) until it returns false and collects the
   records; the result [Ok ...] says that no error and no fuel exhaustion occurred. *)
From PP Require Import Reader.FilePieceDefs Reader.FilePieceProofs.
Local Open Scope nat_scope.

(* read() path (pipes, and what every decompressor feeds): all byte strings not starting
   with a compression magic, all outcome scripts without hard errors, all window sizes,
   all delimiters, with and without CR stripping.  Third conjunct: EOF is sticky (the
   state no longer changes, so every further call reports EOF again). *)
Theorem C02_read_path_records :
  forall cap src script d cr,
  1 <= cap -> no_err script = true -> detect_magic src = false ->
  exists s sf, fp_open_read cap (os_init src script) = Ok s /\
    read_all d cr s = (Ok (records d cr src), sf) /\
    (forall d' cr', read_line d' cr' sf = (RlEOF, sf)).
Proof. exact read_path_records. Qed.
Print Assumptions C02_read_path_records.

(* std::istream backing *)
Theorem C02_istream_records :
  forall cap src d cr, 1 <= cap ->
  exists sf, read_all d cr (fp_open_istream cap src) = (Ok (records d cr src), sf) /\
    (forall d' cr', read_line d' cr' sf = (RlEOF, sf)).
Proof. exact istream_records. Qed.
Print Assumptions C02_istream_records.

(* non-vacuity: concrete data meeting the hypotheses, window of 2 bytes that has to double
   and to compact, short reads and an EINTR, CR before the delimiter, empty record,
   unterminated last record *)
Example C02_nonvacuous_read :
  let src := [97; 10; 98; 13; 10; 10; 99]%Z in
  no_err [Short 1; Eintr; Short 2] = true /\ detect_magic src = false /\
  records 10%Z true src = [[97]; [98]; []; [99]]%Z /\
  match fp_open_read 2 (os_init src [Short 1; Eintr; Short 2]) with
  | Ok s => fst (read_all 10%Z true s) = Ok [[97]; [98]; []; [99]]%Z
  | Fail _ => False
  end.
Proof. vm_compute. repeat split. Qed.
