(* C02 -- the line reader yields exactly the input's records.  Statements only. *)
From PP Require Import Reader.FilePieceDefs.
Local Open Scope Z_scope.

Example C02_nonvacuous_read :
  match fp_open_read 2 (os_init [97; 10; 98; 13; 10; 10; 99] [Short 1; Eintr; Short 2]) with
  | Ok s => fst (read_all 10 true s) = Ok (records 10 true [97; 10; 98; 13; 10; 10; 99])
  | Fail _ => False
  end.
Proof. vm_compute. reflexivity. Qed.
