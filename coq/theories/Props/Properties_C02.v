(* C02 -- the line reader (util::FilePiece) yields exactly the input's records for any
   source and chunking.  Statements only; proofs are in Reader/FilePieceProofs.v, the
   executable model (what the correspondence check runs against util/file_piece.cc) in
   Reader/FilePieceDefs.v, the OS oracle in Sys/SysIODefs.v, the specification function
   [records] in Base/Lines.v.

   Reading the statements: [fp_open_read cap (os_init src script)] is FilePiece(fd) on a
   pipe that will deliver the bytes [src], where the k-th read() call behaves as the
   k-th entry of [script] (Full | Short n | Eintr; Full for ever afterwards);
   [read_all d cr s] calls ReadLineOrEOF(d, cr) until it returns false and collects the
   records; the result [Ok ...] says that no error and no fuel exhaustion occurred. *)
From PP Require Import Reader.FilePieceDefs Reader.FilePieceProofs Sys.C03Proofs Sys.ToolShapesDefs Sys.ToolShapesProofs.
Local Open Scope nat_scope.

(* read() path (pipes, and what every decompressor feeds): all byte strings not starting
   with a compression magic, all outcome scripts without hard errors, all window sizes,
   all delimiters, with and without CR stripping.  Third conjunct: EOF is sticky (the
   state no longer changes, so every further call reports EOF again). *)
Theorem C02_read_path_records :
  forall cap src script d cr,
  1 <= cap -> no_err script = true -> detect_magic src = false ->
  exists s sf, fp_open_read cap (os_init src script) = Ok s /\
    read_all d cr s = (Ok (records d cr src), sf) /\
    (forall d' cr', read_line d' cr' sf = (RlEOF, sf)).
Proof. exact read_path_records. Qed.
Print Assumptions C02_read_path_records.

(* std::istream backing *)
Theorem C02_istream_records :
  forall cap src d cr, 1 <= cap ->
  exists sf, read_all d cr (fp_open_istream cap src) = (Ok (records d cr src), sf) /\
    (forall d' cr', read_line d' cr' sf = (RlEOF, sf)).
Proof. exact istream_records. Qed.
Print Assumptions C02_istream_records.

(* gz / bz2 / xz / multi-member inputs: FilePiece on top of ANY reader that hands out the plain
   bytes in some chunking (1..amount bytes per Read, 0 only at the end -- the contract of the
   decompressing readers, property C15); the chunking is the script *)
Theorem C02_stream_reader_records :
  forall cap plain chunking d cr, 1 <= cap -> no_err chunking = true ->
  exists sf, read_all d cr (fp_open_stream cap plain chunking) = (Ok (records d cr plain), sf) /\
    (forall d' cr', read_line d' cr' sf = (RlEOF, sf)).
Proof. exact stream_reader_records. Qed.
Print Assumptions C02_stream_reader_records.

(* regular file read through mmap windows (and the fall back to read() when mmap refuses an
   empty mapping): all file contents, all start offsets of the descriptor, all page sizes,
   all window sizes >= one page (the constructor's is >= two pages, next theorem) *)
Theorem C02_file_path_records :
  forall page cap file off script d cr,
  1 <= page -> page <= cap -> off <= length file -> no_err script = true ->
  detect_magic (skipn off file) = false ->
  exists s sf, fp_open_file page cap file off script = Ok s /\
    read_all d cr s = (Ok (records d cr (skipn off file)), sf) /\
    (forall d' cr', read_line d' cr' sf = (RlEOF, sf)).
Proof. exact file_path_records. Qed.
Print Assumptions C02_file_path_records.

(* the first mmap of a regular (seekable) file FAILS for whatever reason (ENOMEM; special files; /proc files of
   st_size 0 read from any offset): the catch block seeks to desired_begin and read() takes over: still
   exactly the records of the bytes from the descriptor's offset on, nothing in front of it *)
Theorem C02_file_mmap_failure_records :
  forall page cap file off script d cr,
  1 <= cap -> off <= length file -> no_err script = true -> detect_magic (skipn off file) = false ->
  exists s sf, fp_open_file_mmap_fails page cap file off script = Ok s /\
    read_all d cr s = (Ok (records d cr (skipn off file)), sf) /\
    (forall d' cr', read_line d' cr' sf = (RlEOF, sf)).
Proof. exact file_mmap_failure_records. Qed.
Print Assumptions C02_file_mmap_failure_records.

(* default_map_size_ = kPageSize * max(min_buffer / kPageSize + 1, 2) meets the premises above
   for every min_buffer *)
Theorem C02_initial_window_admissible :
  forall page min_buffer, 1 <= page ->
  page <= initial_cap page min_buffer /\ 1 <= initial_cap page min_buffer.
Proof. exact initial_cap_ok. Qed.
Print Assumptions C02_initial_window_admissible.

(* tool level (observe_at: stdout of bin/remove_long_lines with a huge limit): FilePiece(0) with the
   window its constructor computes for ANY page size and min_buffer, every record kept, written as
   `out << l << '\n'` through a FileStream of any capacity: stdout is the records, each followed by LF,
   whatever the read() and write() outcomes *)
Theorem C02_identity_filter_tool :
  forall page min_buffer bcap src rscript wscript,
  1 <= page -> no_err rscript = true -> no_err wscript = true -> detect_magic src = false ->
  line_filter_tool (fun _ => true) (initial_cap page min_buffer) bcap src rscript wscript
  = Ok (unrecords 10%Z (records 10%Z true src)).
Proof. exact C02_identity_filter_tool_proof. Qed.
Print Assumptions C02_identity_filter_tool.

(* the same tool with stdin a regular file handed over at any descriptor offset (mmap windows) ... *)
Theorem C02_identity_filter_tool_file :
  forall page min_buffer bcap file off rscript wscript,
  1 <= page -> off <= length file -> no_err rscript = true -> no_err wscript = true ->
  detect_magic (skipn off file) = false ->
  line_filter_tool_file (fun _ => true) page (initial_cap page min_buffer) bcap file off rscript wscript
  = Ok (unrecords 10%Z (records 10%Z true (skipn off file))).
Proof. exact identity_filter_tool_file. Qed.
Print Assumptions C02_identity_filter_tool_file.

(* ... and with stdin a gz / bz2 / xz / multi-member stream, through the reader contract of C15
   (the decompressing reader hands out the plain bytes in some chunking) *)
Theorem C02_identity_filter_tool_stream :
  forall page min_buffer bcap plain chunking wscript,
  1 <= page -> no_err chunking = true -> no_err wscript = true ->
  line_filter_tool_stream (fun _ => true) (initial_cap page min_buffer) bcap plain chunking wscript
  = Ok (unrecords 10%Z (records 10%Z true plain)).
Proof. exact identity_filter_tool_stream. Qed.
Print Assumptions C02_identity_filter_tool_stream.

(* "not starting with a compression magic number" in all statements above is [detect_magic src = false], and
   [detect_magic] tests the byte strings REGENERATED from util/compress.cc (DetectMagic).  They are the formats'
   signatures -- gzip 1f 8b (RFC 1952), bzip2 "BZh", xz fd "7zXZ" 00 -- each tested as a whole: a source change that
   shortens or alters one of them (and so treats more plain texts as compressed) breaks this statement. *)
Theorem C02_magic_numbers_are_the_format_signatures :
  rc_magic_gz = [31; 139]%Z /\ rc_magic_bz = [66; 90; 104]%Z /\ rc_magic_xz = [253; 55; 122; 88; 90; 0]%Z /\
  rc_magic_size = 6 /\
  (forall src, detect_magic src = is_prefix [31; 139]%Z src || is_prefix [66; 90; 104]%Z src || is_prefix [253; 55; 122; 88; 90; 0]%Z src).
Proof. repeat split. Qed.
Print Assumptions C02_magic_numbers_are_the_format_signatures.

(* non-vacuity: concrete data meeting the hypotheses, window of 2 bytes that has to double
   and to compact, short reads and an EINTR, CR before the delimiter, empty record,
   unterminated last record *)
Example C02_nonvacuous_read :
  let src := [97; 10; 98; 13; 10; 10; 99]%Z in
  no_err [Short 1; Eintr; Short 2] = true /\ detect_magic src = false /\
  records 10%Z true src = [[97]; [98]; []; [99]]%Z /\
  match fp_open_read 2 (os_init src [Short 1; Eintr; Short 2]) with
  | Ok s => fst (read_all 10%Z true s) = Ok [[97]; [98]; []; [99]]%Z
  | Fail _ => False
  end.
Proof. vm_compute. repeat split. Qed.

(* mmap path: page size 2, window 4, an 11-byte file read from offset 3 (not page aligned);
   the window has to move and to double *)
Example C02_nonvacuous_file :
  let file := [120; 10; 121; 97; 98; 99; 100; 101; 13; 10; 122]%Z in
  detect_magic (skipn 3 file) = false /\
  records 10%Z true (skipn 3 file) = [[97; 98; 99; 100; 101]; [122]]%Z /\
  match fp_open_file 2 4 file 3 [] with
  | Ok s => fst (read_all 10%Z true s) = Ok [[97; 98; 99; 100; 101]; [122]]%Z /\
            rev (fp_maps (snd (read_all 10%Z true s))) = [(2, 4); (2, 8); (10, 1)]
  | Fail _ => False
  end.
Proof. vm_compute. repeat split. Qed.
