(* C12 -- UTF-8 validation accepts exactly well-formed UTF-8.  Only statements. *)
From PP Require Import Utf8.Utf8Defs Utf8.Utf8Proofs.
Local Open Scope Z_scope.

Theorem C12_pair_table_is_table37 :
  forall b0 b1, 0 <= b0 < 256 -> 0 <= b1 < 256 -> pair_okb b0 b1 = true.
Proof. exact pair_ok. Qed.
Print Assumptions C12_pair_table_is_table37.
