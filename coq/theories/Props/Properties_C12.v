(* C12 -- UTF-8 validation accepts exactly well-formed UTF-8.  Only statements;
   proofs are in Utf8/Utf8Proofs.v.  The model functions (decode_utf8, is_utf8,
   iterate_utf8, remove_invalid_utf8) are the executable ones the correspondence
   check runs against util/utf8.hh, utf8.cc and bin/remove_invalid_utf8; their
   masks and bounds are regenerated from the source (Gen/Src_utf8.v).
   Specification: WF_seq = Unicode Table 3-7, WellFormed = concatenation of such
   sequences, scalar_of / utf8_encode = Table 3-6.  Bytes are Z in [0,256). *)
From PP Require Import Utf8.Utf8Defs Utf8.Utf8Proofs.
Local Open Scope Z_scope.

(* DecodeUTF8 succeeds with (c, n) exactly when the buffer starts with a Table 3-7
   sequence of n bytes whose scalar value is c -- for every buffer, whatever follows *)
Theorem C12_decode_sound_complete :
  forall bs c n, bytes_okb bs = true ->
  (decode_utf8 bs = Decoded c n <->
   exists s r, bs = s ++ r /\ WF_seq s /\ scalar_of s = c /\ Z.of_nat (length s) = n).
Proof. exact decode_sound_complete_proof. Qed.
Print Assumptions C12_decode_sound_complete.

(* ... and throws exactly when no prefix of the buffer is a Table 3-7 sequence
   (overlong forms, surrogates, > U+10FFFF, truncation, stray trail bytes) *)
Theorem C12_decode_rejects_iff_no_wellformed_prefix :
  forall bs, bytes_okb bs = true ->
  (decode_utf8 bs = NotUTF8 <-> forall s r, bs = s ++ r -> ~ WF_seq s).
Proof. exact decode_reject_iff. Qed.
Print Assumptions C12_decode_rejects_iff_no_wellformed_prefix.

(* every decoded value is a Unicode scalar value and the bytes consumed are its UTF-8 encoding form *)
Theorem C12_decode_yields_scalar_in_shortest_form :
  forall bs c n, bytes_okb bs = true -> decode_utf8 bs = Decoded c n ->
  is_scalar c /\ firstn (Z.to_nat n) bs = utf8_encode c.
Proof. exact decode_scalar_proof. Qed.
Print Assumptions C12_decode_yields_scalar_in_shortest_form.

(* conversely every scalar value's encoding decodes to it, whatever follows *)
Theorem C12_decode_encode :
  forall c rest, is_scalar c -> bytes_okb rest = true ->
  decode_utf8 (utf8_encode c ++ rest) = Decoded c (Z.of_nat (length (utf8_encode c))).
Proof. exact decode_encode_proof. Qed.
Print Assumptions C12_decode_encode.

(* IsUTF8 accepts exactly the well-formed strings; the walk never runs out of fuel *)
Theorem C12_is_utf8_iff_wellformed :
  forall bs, bytes_okb bs = true ->
  is_utf8 bs <> None /\ (is_utf8 bs = Some true <-> WellFormed bs).
Proof. exact is_utf8_iff_proof. Qed.
Print Assumptions C12_is_utf8_iff_wellformed.

(* the iterator visits consecutive, non-overlapping Table 3-7 sequences covering the string (or
   the part before the first ill-formed position) and reports their scalar values *)
Theorem C12_iterator_partition :
  forall bs, bytes_okb bs = true ->
  match iterate_utf8 bs with
  | IterOk items => concat (map snd items) = bs /\ Forall item_ok items
  | IterBad items => exists rest, bs = concat (map snd items) ++ rest /\ Forall item_ok items /\
                                  rest <> [] /\ forall s r, rest = s ++ r -> ~ WF_seq s
  | IterFuel => False
  end.
Proof. exact iterator_partition_proof. Qed.
Print Assumptions C12_iterator_partition.

(* what the native exhaustive sweeps of harness/hx_utf8 rely on: the answer for any window is the
   answer for  b0 b1 80 80  composed with the trail tests on b2, b3; further bytes are never read *)
Theorem C12_window_composite :
  forall b0 b1 b2 b3 rest, byte b0 -> byte b1 -> byte b2 -> byte b3 ->
  decode_utf8 [b0; b1; b2] = compose3 (decode_utf8 [b0; b1; 128]) b2 /\
  decode_utf8 [b0; b1; b2; b3] = compose4 (decode_utf8 [b0; b1; 128; 128]) b2 b3 /\
  decode_utf8 (b0 :: b1 :: b2 :: b3 :: rest) = decode_utf8 [b0; b1; b2; b3].
Proof. exact window_composite_proof. Qed.
Print Assumptions C12_window_composite.

(* remove_invalid_utf8 writes exactly the well-formed lines of its input, unchanged, in order,
   each followed by a newline (records = the C02 reader specification, no CR stripping) *)
Theorem C12_remove_invalid_keeps_wellformed_lines :
  forall input, bytes_okb input = true ->
  remove_invalid_utf8 input = unrecords 10 (filter is_utf8b (records 10 false input)) /\
  forall l, In l (records 10 false input) -> (is_utf8b l = true <-> WellFormed l).
Proof. exact remove_invalid_utf8_proof. Qed.
Print Assumptions C12_remove_invalid_keeps_wellformed_lines.

(* ... so every line it emits is well-formed, and reading its output back gives exactly the kept lines *)
Theorem C12_remove_invalid_output_wellformed :
  forall input, bytes_okb input = true ->
  records 10 false (remove_invalid_utf8 input) = filter is_utf8b (records 10 false input) /\
  Forall WellFormed (records 10 false (remove_invalid_utf8 input)).
Proof. exact remove_invalid_output_wellformed_proof. Qed.
Print Assumptions C12_remove_invalid_output_wellformed.

(* commoncrawl_dedupe strips the bytes util/spaces.cc calls spaces (regenerated table) from both ends of a line:
   every such byte is ASCII, so stripping never cuts into a multi-byte sequence -- a well-formed line stays well-formed
   (a table entry >= 0x80, e.g. 0xA0, breaks this proof) *)
Theorem C12_strip_spaces_keeps_wellformed :
  forall l, WellFormed l -> WellFormed (strip_spaces l).
Proof. exact strip_spaces_wellformed_proof. Qed.
Print Assumptions C12_strip_spaces_keeps_wellformed.

(* the specification itself: Table 3-7 strings are exactly the UTF-8 encodings (Table 3-6) of sequences of
   Unicode scalar values -- the row-by-row table and the arithmetic definition agree *)
Theorem C12_wellformed_iff_scalar_sequence :
  forall bs, WellFormed bs <-> exists cps, Forall is_scalar cps /\ bs = concat (map utf8_encode cps).
Proof. exact wellformed_iff_scalar_sequence_proof. Qed.
Print Assumptions C12_wellformed_iff_scalar_sequence.

(* ---- non-vacuity: concrete data meeting the hypotheses / exercising both sides *)
Example C12_nonvacuous_decode :
  bytes_okb [0xE2; 0x82; 0xAC; 0x41] = true /\
  decode_utf8 [0xE2; 0x82; 0xAC; 0x41] = Decoded 0x20AC 3 /\
  scalar_of [0xE2; 0x82; 0xAC] = 0x20AC /\ utf8_encode 0x20AC = [0xE2; 0x82; 0xAC] /\
  decode_utf8 [0xF4; 0x8F; 0xBF; 0xBF] = Decoded 0x10FFFF 4 /\
  decode_utf8 [0xF4; 0x90; 0x80; 0x80] = NotUTF8 /\ decode_utf8 [0xED; 0xA0; 0x80] = NotUTF8 /\
  decode_utf8 [0xC0; 0x80] = NotUTF8 /\ decode_utf8 [0xE2; 0x82] = NotUTF8 /\ decode_utf8 [0x80] = NotUTF8.
Proof. vm_compute. repeat split. Qed.

Example C12_nonvacuous_wellformed :
  WellFormed [0x41; 0xC3; 0xA9; 0xF0; 0x9F; 0x98; 0x80] /\ is_utf8 [0x41; 0xC3; 0xA9; 0xF0; 0x9F; 0x98; 0x80] = Some true /\
  is_utf8 [0x41; 0xC3] = Some false.
Proof.
  split; [|vm_compute; split; reflexivity].
  apply (WFS_app [0x41]); [apply WF_1; unfold rng; lia|].
  apply (WFS_app [0xC3; 0xA9]); [apply WF_2; unfold rng; lia|].
  apply (WFS_app [0xF0; 0x9F; 0x98; 0x80]); [apply WF_4a; unfold rng; lia|constructor].
Qed.

Example C12_nonvacuous_tool :
  remove_invalid_utf8 [0x61; 13; 10; 0x62; 0xFF; 10; 0xC3; 0xA9] = [0x61; 13; 10; 0xC3; 0xA9; 10] /\
  iterate_utf8 [0x41; 0xC3; 0xA9; 0xFF] = IterBad [(0x41, [0x41]); (0xE9, [0xC3; 0xA9])].
Proof. vm_compute. split; reflexivity. Qed.

Example C12_nonvacuous_strip :
  strip_spaces [32; 9; 99; 105; 116; 116; 0xC3; 0xA0; 32; 13] = [99; 105; 116; 116; 0xC3; 0xA0] /\
  is_utf8 [99; 105; 116; 116; 0xC3; 0xA0] = Some true /\ is_space_byte 0xA0 = false /\ is_space_byte 0x85 = false.
Proof. vm_compute. repeat split. Qed.
