(* C10 -- field keys depend only on the selected fields (cut -f semantics).  Only statements. *)
From PP Require Import Fields.FieldsDefs Fields.FieldsProofs.
Local Open Scope Z_scope.

(* the specification's fields lose nothing: a line is its fields joined by the delimiter *)
Theorem C10_fields_partition_line : forall d l, join_fields d (split_fields d l) = l.
Proof. exact join_split. Qed.
Print Assumptions C10_fields_partition_line.
