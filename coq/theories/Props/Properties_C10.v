(* C10 -- field keys depend only on the selected fields (cut -f semantics).
   Only statements; proofs in Fields/FieldsProofs.v.  parse_fields / defragment /
   range_fields / key_of are the executable model that the correspondence check
   runs against preprocess/fields.cc and fields.hh (shape of every loop checked by
   the translator, Gen/Src_fields.v).  Specification: split_fields (a line with n
   delimiters has n+1 fields), select, join_fields; field_list = the cut grammar
   LIST = range (',' range)*, range = N | N-M | N- | -M | -. *)
From PP Require Import Fields.FieldsDefs Fields.FieldsProofs.
Local Open Scope Z_scope.

(* RangeFields hands the callback exactly the selected existing fields of each range, joined by
   the delimiter -- for every line, delimiter and canonical range list; no fuel/length error *)
Theorem C10_range_fields_is_cut :
  forall line rs d, canonical rs -> range_fields line rs d = ROk (spec_pieces d line rs).
Proof. exact range_fields_spec_proof. Qed.
Print Assumptions C10_range_fields_is_cut.

(* two lines that both contain all selected fields get the same pieces (hence the same key)
   exactly when their selected fields are identical; nothing else in the lines matters *)
Theorem C10_key_iff_selected :
  forall d l1 l2 rs, canonical rs ->
  contains_all (Z.of_nat (length (split_fields d l1))) rs ->
  contains_all (Z.of_nat (length (split_fields d l2))) rs ->
  (range_fields l1 rs d = range_fields l2 rs d <->
   select (split_fields d l1) rs = select (split_fields d l2) rs).
Proof. exact key_iff_selected_proof. Qed.
Print Assumptions C10_key_iff_selected.

(* the key of dedupe -f / shard -f / cache -k is the seeded hash fold over exactly those pieces *)
Theorem C10_key_is_fold_of_selected :
  forall seed line rs d, canonical rs -> key_of seed line rs d = Some (hash_fold seed (spec_pieces d line rs)).
Proof. exact key_of_spec_proof. Qed.
Print Assumptions C10_key_is_fold_of_selected.

(* ParseFields accepts exactly the cut grammar and yields the ranges it denotes, in list order *)
Theorem C10_parse_accepts_iff_grammar :
  forall s rs, nonul s -> (parse_fields s = POk rs <-> field_list s rs).
Proof. exact parse_iff_grammar_proof. Qed.
Print Assumptions C10_parse_accepts_iff_grammar.

(* DefragmentFields: sorted, adjacent ranges merged, every field index selected as often as before
   (so exactly the same fields), and None exactly for lists in which some field is selected twice *)
Theorem C10_defragment_spec :
  forall l, Forall valid_range l ->
  match defragment l with
  | Some l' => canonical l' /\ (forall i, cnt i l' = cnt i l) /\ (forall i, (cnt i l <= 1)%nat)
  | None => exists i, (2 <= cnt i l)%nat
  end.
Proof. exact defragment_spec_proof. Qed.
Print Assumptions C10_defragment_spec.

(* -f LIST as a whole: rejected exactly when LIST is outside the grammar or selects a field twice *)
Theorem C10_list_rejected_iff_malformed_or_overlapping :
  forall s, nonul s ->
  (parse_key_spec s = None <->
   (~ exists rs, field_list s rs) \/ (exists rs i, field_list s rs /\ (2 <= cnt i rs)%nat)).
Proof. exact list_rejected_iff_proof. Qed.
Print Assumptions C10_list_rejected_iff_malformed_or_overlapping.

(* and when accepted the ranges handed to RangeFields are canonical, so the theorems above apply *)
Theorem C10_accepted_list_is_canonical :
  forall s rs, nonul s -> parse_key_spec s = Some rs ->
  exists rs0, field_list s rs0 /\ defragment rs0 = Some rs /\ canonical rs /\
              (forall i, cnt i rs = cnt i rs0) /\ (forall i, (cnt i rs0 <= 1)%nat).
Proof. exact parse_key_spec_proof. Qed.
Print Assumptions C10_accepted_list_is_canonical.

(* the specification's fields lose nothing: a line is its fields joined by the delimiter *)
Theorem C10_fields_partition_line : forall d l, join_fields d (split_fields d l) = l.
Proof. exact join_split. Qed.
Print Assumptions C10_fields_partition_line.

(* -f LIST end to end (dedupe / shard / cache): with an accepted LIST, two lines containing all selected
   fields get keys that are hash folds of piece lists which are equal exactly when the selected fields are *)
Theorem C10_tool_key_depends_only_on_selected :
  forall s rs seed d l1 l2, nonul s -> parse_key_spec s = Some rs ->
  contains_all (Z.of_nat (length (split_fields d l1))) rs ->
  contains_all (Z.of_nat (length (split_fields d l2))) rs ->
  exists p1 p2, key_of seed l1 rs d = Some (hash_fold seed p1) /\ key_of seed l2 rs d = Some (hash_fold seed p2) /\
                (p1 = p2 <-> select (split_fields d l1) rs = select (split_fields d l2) rs).
Proof. exact tool_key_depends_only_on_selected_proof. Qed.
Print Assumptions C10_tool_key_depends_only_on_selected.

(* consequently lines with identical selected fields land in the same shard, get the same dedupe decision and
   the same cache entry, whatever else they contain *)
Theorem C10_same_selected_same_key :
  forall s rs d l1 l2 n, nonul s -> parse_key_spec s = Some rs ->
  contains_all (Z.of_nat (length (split_fields d l1))) rs ->
  contains_all (Z.of_nat (length (split_fields d l2))) rs ->
  select (split_fields d l1) rs = select (split_fields d l2) rs ->
  shard_key l1 rs d = shard_key l2 rs d /\ dedupe_key l1 rs d = dedupe_key l2 rs d /\ cache_key_of l1 rs d = cache_key_of l2 rs d /\
  (forall k1 k2, shard_key l1 rs d = Some k1 -> shard_key l2 rs d = Some k2 -> k1 mod n = k2 mod n).
Proof. exact same_selected_same_key_proof. Qed.
Print Assumptions C10_same_selected_same_key.

(* dedupe's shortcut for the whole-line key agrees with the field path; the tools' default lists select the whole line *)
Theorem C10_dedupe_shortcut_consistent :
  forall line d,
  dedupe_key line [(0, kInfiniteEnd)] d = key_of dedupe_field_seed line [(0, kInfiniteEnd)] d /\
  dedupe_key line [(0, kInfiniteEnd)] d = Some (murmur64a line 1).
Proof. exact dedupe_shortcut_consistent_proof. Qed.
Print Assumptions C10_dedupe_shortcut_consistent.

Theorem C10_default_key_specs :
  parse_key_spec dedupe_default_fields = Some [(0, kInfiniteEnd)] /\
  parse_key_spec shard_default_fields = Some [(0, kInfiniteEnd)] /\
  parse_key_spec cache_default_key = Some [(0, kInfiniteEnd)] /\
  dedupe_default_delim = 9 /\ shard_default_delim = 9 /\ cache_default_separator = 9.
Proof. exact default_key_specs_proof. Qed.
Print Assumptions C10_default_key_specs.

(* ---- non-vacuity *)
Example C10_nonvacuous_trailing_delimiter :
  (* -f 2, TAB: "a\tb" and "x\tb\t" and "y\tb\t\tz" select the same field 2 and get the same pieces *)
  canonical [(1, 2)] /\
  contains_all (Z.of_nat (length (split_fields 9 [97; 9; 98]))) [(1, 2)] /\
  contains_all (Z.of_nat (length (split_fields 9 [120; 9; 98; 9]))) [(1, 2)] /\
  range_fields [97; 9; 98] [(1, 2)] 9 = ROk [[98]] /\
  range_fields [120; 9; 98; 9] [(1, 2)] 9 = ROk [[98]] /\
  range_fields [121; 9; 98; 9; 9; 122] [(1, 2)] 9 = ROk [[98]] /\
  (* the empty last field exists and is handed over *)
  range_fields [97; 9] [(1, 2)] 9 = ROk [[]] /\ range_fields [98; 9; 9; 99] [(1, 2)] 9 = ROk [[]] /\
  (* a difference inside a selected field changes the pieces *)
  range_fields [97; 9; 98; 32] [(1, 2)] 9 = ROk [[98; 32]].
Proof.
  split; [unfold canonical; cbn [canonical_from]; unfold kInfiniteEnd; lia|].
  split; [constructor; [vm_compute; intro X; discriminate X|constructor]|].
  split; [constructor; [vm_compute; intro X; discriminate X|constructor]|]. vm_compute. repeat split.
Qed.

Example C10_nonvacuous_lists :
  parse_key_spec [51; 44; 49; 45; 50; 44; 55; 45] = Some [(0, 3); (6, kInfiniteEnd)] /\   (* "3,1-2,7-" *)
  field_list [49; 45; 50] [(0, 2)] /\                                                       (* "1-2" *)
  parse_key_spec [50; 45; 51; 45; 49] = None /\        (* "2-3-1" *)
  parse_key_spec [48] = None /\                         (* "0" *)
  parse_key_spec [32; 49] = None /\                     (* " 1" *)
  parse_key_spec [49; 44] = None /\                     (* "1," *)
  parse_key_spec [49; 45; 50; 44; 50; 45; 51] = None /\ (* "1-2,2-3" overlapping *)
  parse_key_spec [52; 50; 57; 52; 57; 54; 55; 50; 57; 55] = None /\ (* "4294967297" *)
  parse_key_spec [45] = Some [(0, kInfiniteEnd)].       (* "-" : the default key of cache *)
Proof.
  split; [vm_compute; reflexivity|]. split.
  { apply FL_one. apply (RI_closed [49] 1 [50] 2); unfold is_number, kInfiniteEnd; repeat split; try discriminate; try reflexivity; lia. }
  vm_compute. repeat split.
Qed.

(* IndividualFields hands every selected existing field to the callback by itself, in order
   (lines with 2^32-1 or more fields, at least 4 GiB, are outside: `index` is an unsigned int) *)
Theorem C10_individual_fields_is_cut :
  forall line rs d, canonical rs -> Z.of_nat (length (split_fields d line)) <= kInfiniteEnd ->
  individual_fields line rs d = IOk (spec_individual d line rs).
Proof. exact individual_fields_spec_proof. Qed.
Print Assumptions C10_individual_fields_is_cut.

Example C10_nonvacuous_individual :
  individual_fields [97; 9; 98; 9] [(0, 1); (2, kInfiniteEnd)] 9 = IOk [[97]; []] /\
  spec_individual 9 [97; 9; 98; 9] [(0, 1); (2, kInfiniteEnd)] = [[97]; []].
Proof. vm_compute. split; reflexivity. Qed.
