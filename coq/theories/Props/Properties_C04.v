(* C04 -- cache is transparent.  Record-level model: Wrap/CacheDefs.v (Input(): insert key,
   forward the line iff new, enqueue the entry; Output(): read one child line iff the entry is
   still empty, print the entry).  The hand-off between the two (queue entries in order, the child's
   answer lines in order, for every interleaving / buffering / pipe capacity, never stuck, never
   a spurious "child stopped" error) is the wrapper transition system of C05 instantiated with
   cache's parameters; [C04_need_eq_sent] is the fact that lets cache use it: Output() needs a
   child line exactly for the records whose line Input() forwarded. *)
From PP Require Import Fields.FieldsDefs Fields.KeyInstances.
From PP Require Import Base.Lines Gen.Src_wrappers Wrap.CacheDefs Wrap.CacheProofs Wrap.WrapDefs Wrap.WrapProofs Wrap.WrapPairing.

(* for ALL inputs and key assignments: line i of the output is the child's answer to the first
   input line with the same key (one line per input line, in input order) *)
Theorem C04_answer_of_first_line_with_same_key :
  forall ans ls, cache_run ans ls = cache_spec ans ls.
Proof. exact cache_run_spec. Qed.
Print Assumptions C04_answer_of_first_line_with_same_key.

Theorem C04_every_line_answered :
  forall ans ls, Forall (fun o => o <> None) (cache_run ans ls).
Proof. exact cache_run_total. Qed.
Print Assumptions C04_every_line_answered.

(* ---- "The child receives precisely the first-occurrence lines, each once and in input order", against a
   specification that does not mention the feeder's recursion (as C01 does for dedupe's output):
   [sent_pairs ls []] are the forwarded lines tagged with their keys (child's stdin = their lines) ---- *)

(* the child's stdin is a subsequence of the input lines: nothing invented, nothing reordered *)
Theorem C04_child_input_is_subsequence :
  forall ls, sent ls [] = map snd (sent_pairs ls []) /\ Subseq (sent_pairs ls []) ls /\ Subseq (sent ls []) (map snd ls).
Proof.
  intros ls. split; [apply sent_pairs_snd|]. split; [apply sent_pairs_subseq|].
  rewrite sent_pairs_snd. apply Subseq_map. apply sent_pairs_subseq.
Qed.
Print Assumptions C04_child_input_is_subsequence.

(* no key is sent twice ... *)
Theorem C04_child_input_no_key_twice :
  forall ls, NoDup (map fst (sent_pairs ls [])).
Proof. intros ls. apply sent_pairs_nodup. Qed.
Print Assumptions C04_child_input_no_key_twice.

(* ... and every key of the input is sent (hence exactly once) *)
Theorem C04_child_input_every_key_once :
  forall ls k, In k (map fst ls) <-> In k (map fst (sent_pairs ls [])).
Proof.
  intros ls k. split.
  - intros H. destruct (sent_pairs_covers ls [] k H) as [[]|H']. exact H'.
  - intros H. apply in_map_iff in H. destruct H as (x & <- & Hx). apply in_map.
    eapply Subseq_In; [apply sent_pairs_subseq|exact Hx].
Qed.
Print Assumptions C04_child_input_every_key_once.

(* position-wise: the line at ANY position of the input is forwarded iff no EARLIER line has its key;
   lines before and after are treated alike *)
Theorem C04_line_sent_iff_key_new :
  forall pre k l post,
  sent_pairs (pre ++ (k, l) :: post) [] =
    sent_pairs pre [] ++ (if mem k (map fst pre) then [] else [(k, l)]) ++ sent_pairs post (map fst (pre ++ [(k, l)])) /\
  sent (pre ++ (k, l) :: post) [] =
    sent pre [] ++ (if mem k (map fst pre) then [] else [l]) ++ sent post (map fst (pre ++ [(k, l)])).
Proof.
  intros pre k l post. split; [apply sent_pairs_position|].
  rewrite !sent_pairs_snd, sent_pairs_position, !map_app. destruct (mem k (map fst pre)); reflexivity.
Qed.
Print Assumptions C04_line_sent_iff_key_new.

(* each line the child gets is the FIRST input line with its key *)
Theorem C04_sent_line_is_first_with_its_key :
  forall ls k l, In (k, l) (sent_pairs ls []) -> first_line k ls = Some l.
Proof. intros ls k l. apply sent_pairs_first_line. Qed.
Print Assumptions C04_sent_line_is_first_with_its_key.

(* ---- ANY child that writes one line per line read -- its answers may depend on everything it has read
   (numbering, context): a function from its input lines to equally many answer lines.  Input line i gets
   the answer line the child wrote for the first line with the same key: answer number
   [index of the key among the forwarded keys], and the line sent at that index is that first line ---- *)
Theorem C04_any_child_answer_of_first_line_with_same_key :
  forall (child : list line -> list line) ls,
    length (child (sent ls [])) = length (sent ls []) ->
    cache_run_gen child ls =
      map (fun kl => nth_error (child (sent ls [])) (index_of (fst kl) (map fst (sent_pairs ls [])))) ls /\
    Forall (fun o => o <> None) (cache_run_gen child ls) /\
    (forall k, In k (map fst ls) -> nth_error (sent ls []) (index_of k (map fst (sent_pairs ls []))) = first_line k ls).
Proof.
  intros child ls H. split; [exact (cache_run_gen_spec child ls H)|]. split; [exact (cache_run_gen_total child ls H)|].
  intros k. apply sent_at_key_index.
Qed.
Print Assumptions C04_any_child_answer_of_first_line_with_same_key.

(* the per-line child of the theorems above is the special case *)
Theorem C04_per_line_child_is_special_case :
  forall ans ls, cache_run_gen (map ans) ls = cache_run ans ls.
Proof. reflexivity. Qed.

(* "exactly the output of running the child directly" is only claimed for children whose answer depends on
   the line alone: a child that numbers its lines answers 0,1 to a,a directly but 0,0 through cache
   (cache shows it one line) -- inherent to caching, recorded here so that the restriction is explicit *)
Definition numbering_child (xs : list line) : list line := map (fun i => [Z.of_nat i + 48]%Z) (seq 0 (length xs)).
Theorem C04_stateful_child_transparency_refuted :
  exists (child : list line -> list line) ls,
    (forall xs, length (child xs) = length xs) /\
    (forall k1 l1 k2 l2, In (k1, l1) ls -> In (k2, l2) ls -> (k1 = k2 <-> l1 = l2)) /\
    cache_run_gen child ls <> map Some (child (map snd ls)).
Proof.
  exists numbering_child, [(1%N, [97%Z]); (1%N, [97%Z])]. split; [|split].
  - intros xs. unfold numbering_child. rewrite map_length, seq_length. reflexivity.
  - intros k1 l1 k2 l2 [H1|[H1|[]]] [H2|[H2|[]]]; inversion H1; inversion H2; subst; split; reflexivity.
  - vm_compute. discriminate.
Qed.
Print Assumptions C04_stateful_child_transparency_refuted.

(* with whole-line keys (no hash collision: equal key <-> equal line) the output is the child's own output *)
Theorem C04_whole_line_keys_transparent :
  forall ans ls,
    (forall k1 l1 k2 l2, In (k1, l1) ls -> In (k2, l2) ls -> (k1 = k2 <-> l1 = l2)) ->
    cache_run ans ls = map (fun kl => Some (ans (snd kl))) ls.
Proof. exact cache_transparent. Qed.
Print Assumptions C04_whole_line_keys_transparent.

(* Output() reads a child line exactly when Input() forwarded one: bookkeeping `need` = `lines` *)
Theorem C04_need_eq_sent :
  forall ls, collector_needs (map fst (feeder ls [])) [] = map snd (feeder ls []).
Proof. intros ls. exact (cache_need_eq_sent ls []). Qed.
Print Assumptions C04_need_eq_sent.

(* under every interleaving, buffering policy and pipe capacity the hand-off never gets stuck and never
   reports a child error (C05's theorems at cache's parameters; needs cache_order = true, i.e. the fix) *)
Theorem C04_handoff_never_stuck_no_error :
  forall cin cout echo kpol early ilen alen recs s,
    (forall j, 1 <= ilen j) -> (forall j, 1 <= alen j) -> (echo = true -> forall j, alen j = ilen j) ->
    1 <= cin -> 1 <= cout ->
    let pr := mkP cache_order cache_poison_first cache_final_peek cin cout echo kpol early false false in
    reachable (wstep pr ilen alen) (w_init recs) s ->
    (wstuck pr ilen alen s = true -> wterminal s = true) /\ w_kpc s <> KErr.
Proof.
  intros cin cout echo kpol early ilen alen recs s Hi Ha He Hci Hco pr Hr. split.
  - refine (wrapper_no_stuck pr ilen alen Hi Ha He Hci Hco eq_refl _ _ recs s Hr); intros X; discriminate X.
  - refine (wrapper_no_error pr ilen alen Hi Ha He Hci Hco eq_refl _ _ recs s Hr); intros X; discriminate X.
Qed.
Print Assumptions C04_handoff_never_stuck_no_error.

(* ... and under every interleaving the queue entries reach Output() in input order and entry i is served
   with exactly the child's answers to the lines Input() forwarded for it (here: its own line iff it was a
   first occurrence): the line counts per record are [map snd (feeder ls [])] by C04_need_eq_sent *)
Theorem C04_entries_served_in_order_with_their_own_answers :
  forall cin cout echo kpol early ilen alen (ls : list (N * line)) s,
    let recs := map (fun b : bool => if b then 1 else 0) (map snd (feeder ls [])) in
    let pr := mkP cache_order cache_poison_first cache_final_peek cin cout echo kpol early false false in
    reachable (wstep pr ilen alen) (w_init recs) s ->
    rev (w_emitted s) = pairs 0 (firstn (length (w_emitted s)) recs) /\
    (w_kpc s = KDone -> rev (w_emitted s) = pairs 0 recs).
Proof.
  intros cin cout echo kpol early ilen alen ls s recs pr Hr. split.
  - exact (emitted_prefix pr ilen alen recs s Hr).
  - exact (emitted_complete pr ilen alen recs s Hr).
Qed.
Print Assumptions C04_entries_served_in_order_with_their_own_answers.

(* ---- bytes: the full statement "exactly the output of running the child directly" ---- *)
(* in_cr / out_cr: does the reader strip a carriage return in front of the newline (input lines /
   the child's answers); regenerated from the source: Gen.Src_wrappers.cache_in_strip_cr, cache_out_strip_cr.
   [keyf] is the 64-bit key of a line.  Output(): every value followed by a newline ([unrecords 10]);
   None = the tool aborted because the child stopped early. *)
Definition post_cr (cr : bool) (l : line) : line := if cr then strip_cr l else l.
Definition cache_tool (ans : line -> line) (keyf : line -> N) (in_cr out_cr : bool) (bs : list Z) : list (option line) :=
  cache_run (fun l => post_cr out_cr (ans l)) (map (fun l => (keyf l, l)) (records 10 in_cr bs)).
Definition cache_tool_bytes ans keyf in_cr out_cr (bs : list Z) : option (list Z) :=
  option_map (unrecords 10) (all_some (cache_tool ans keyf in_cr out_cr bs)).
(* the child run directly on the same bytes: it reads the lines (no CR stripping: it sees the bytes) and
   writes one newline-terminated answer per line read *)
Definition child_directly_bytes (ans : line -> line) (bs : list Z) : list Z :=
  unrecords 10 (map ans (records 10 false bs)).

Lemma all_some_map_Some {A} (xs : list A) : all_some (map Some xs) = Some xs.
Proof. induction xs as [|x r IH]; simpl; [reflexivity|]. rewrite IH. reflexivity. Qed.

(* NOT COVERED / open finding F22 (known_findings.d/C04.json): [bs] and the child's answer stream are PLAIN byte
   streams.  The real tool reads both through util::FilePiece, which takes a stream STARTING with a gzip / bzip2 /
   xz magic for a compressed one: `echo 'BZhello world' | cache cat` aborts (BZException), likewise a child whose
   first answer starts with such bytes.  For those inputs the statement below is REFUTED for the real tool (the
   check reproduces it and prints KNOWN-FINDING); [records] has no notion of decompression, so the theorem is
   about inputs and answer streams that do not start with one of the three magics. *)
(* for all byte inputs, all per-line children and every key function that does not collide ON THE LINES OF
   THE INPUT (the only assumption; it is about the input at hand, not about all strings):
   cache's stdout is byte for byte the child's own output *)
Theorem C04_transparent_bytes :
  forall ans keyf bs,
    (forall l1 l2, In l1 (records 10 false bs) -> In l2 (records 10 false bs) -> keyf l1 = keyf l2 -> l1 = l2) ->
    cache_tool_bytes ans keyf cache_in_strip_cr cache_out_strip_cr bs = Some (child_directly_bytes ans bs).
Proof.
  intros ans keyf bs Hk. unfold cache_tool_bytes, cache_tool, child_directly_bytes, cache_in_strip_cr, cache_out_strip_cr, post_cr.
  rewrite cache_transparent.
  - rewrite map_map. cbn [snd]. rewrite <- (map_map ans Some), all_some_map_Some. reflexivity.
  - intros k1 l1 k2 l2 H1 H2. apply in_map_iff in H1. apply in_map_iff in H2.
    destruct H1 as (x1 & E1 & I1). destruct H2 as (x2 & E2 & I2). inversion E1; inversion E2; subst.
    split; [apply Hk; assumption|intros ->; reflexivity].
Qed.
Print Assumptions C04_transparent_bytes.

(* the same with cache's REAL default key: seed-0 MurmurHash64A of the whole line (key spec "-", Fields/
   KeyInstances.v, C10/C14), under the explicit no-collision assumption restricted to the input's lines *)
Definition whole_line : list range := [(0%Z, kInfiniteEnd)].
Theorem C04_transparent_bytes_real_key :
  forall ans d bs,
    no_collision (cache_keyN whole_line d) whole_line d (records 10 false bs) ->
    cache_tool_bytes ans (cache_keyN whole_line d) cache_in_strip_cr cache_out_strip_cr bs = Some (child_directly_bytes ans bs).
Proof.
  intros ans d bs NC. apply C04_transparent_bytes. intros l1 l2 I1 I2 E.
  exact (proj1 (cache_whole_line_key_injective d _ l1 l2 NC I1 I2) E).
Qed.
Print Assumptions C04_transparent_bytes_real_key.

(* closed instance, everything computed including the real keys: "a\nb\n\na\nb" (repeats, an empty line, an
   unterminated last line) through a child that prepends '<' *)
Example C04_transparent_bytes_computed :
  let bs := [97; 10; 98; 10; 10; 97; 10; 98]%Z in
  let ans := (fun l => 60 :: l)%Z in
  cache_tool_bytes ans (cache_keyN whole_line 9) cache_in_strip_cr cache_out_strip_cr bs
    = Some [60; 97; 10; 60; 98; 10; 60; 10; 60; 97; 10; 60; 98; 10]%Z /\
  child_directly_bytes ans bs = [60; 97; 10; 60; 98; 10; 60; 10; 60; 97; 10; 60; 98; 10]%Z /\
  sent (map (fun l => (cache_keyN whole_line 9 l, l)) (records 10 false bs)) [] = [[97]; [98]; []]%Z.
Proof. vm_compute. repeat split. Qed.

(* what "the child's own output" means for an unterminated last line: the child of the statement writes one
   newline-terminated line per line read (sed, awk, tr-per-line scripts).  A byte copier (cat) leaves the
   missing newline missing; cache always writes it: `printf a | cache cat` prints "a\n", `printf a | cat` "a". *)
Example C04_unterminated_last_line_gets_newline :
  cache_tool_bytes (fun l => l) (cache_keyN whole_line 9) cache_in_strip_cr cache_out_strip_cr [97]%Z = Some [97; 10]%Z.
Proof. vm_compute. reflexivity. Qed.

(* the defect that was in cache (finding F11, fixed): with the default readers (strip_cr = true on both
   sides) "a\r\n" through `cache cat` gave "a\n" *)
Theorem C04_strip_cr_refuted :
  exists ans bs, forall keyf, cache_tool_bytes ans keyf true true bs <> Some (child_directly_bytes ans bs).
Proof.
  exists (fun l => l), [97; 13; 10]%Z. intros keyf. vm_compute. discriminate.
Qed.
Print Assumptions C04_strip_cr_refuted.

(* non-vacuity: a duplicate pattern with three keys; the child sees b, a, c once each *)
Example C04_nonvacuous :
  let ls : list (N * line) := [(2%N, [98%Z]); (1%N, [97%Z]); (2%N, [98%Z]); (3%N, [99%Z]); (1%N, [97%Z])] in
  cache_run (fun l => 60 :: l)%Z ls = map Some [[60; 98]; [60; 97]; [60; 98]; [60; 99]; [60; 97]]%Z /\
  sent ls [] = [[98]; [97]; [99]]%Z /\
  sent_pairs ls [] = [(2%N, [98%Z]); (1%N, [97%Z]); (3%N, [99%Z])] /\
  map snd (feeder ls []) = [true; true; false; true; false] /\
  cache_run_gen numbering_child ls = map Some [[48]; [49]; [48]; [50]; [49]]%Z.
Proof. vm_compute. repeat split. Qed.
