(* C04 -- cache is transparent.  Record-level model: Wrap/CacheDefs.v (Input(): insert key,
   forward the line iff new, enqueue the entry; Output(): read one child line iff the entry is
   still empty, print the entry).  The hand-off between the two (queue entries in order, the child's
   answer lines in order, for every interleaving / buffering / pipe capacity, never stuck, never
   a spurious "child stopped" error) is the wrapper transition system of C05 instantiated with
   cache's parameters; [C04_need_eq_sent] is the fact that lets cache use it: Output() needs a
   child line exactly for the records whose line Input() forwarded. *)
From PP Require Import Base.Lines Gen.Src_wrappers Wrap.CacheDefs Wrap.CacheProofs Wrap.WrapDefs Wrap.WrapProofs Wrap.WrapPairing.

(* for ALL inputs and key assignments: line i of the output is the child's answer to the first
   input line with the same key (one line per input line, in input order) *)
Theorem C04_answer_of_first_line_with_same_key :
  forall ans ls, cache_run ans ls = cache_spec ans ls.
Proof. exact cache_run_spec. Qed.
Print Assumptions C04_answer_of_first_line_with_same_key.

Theorem C04_every_line_answered :
  forall ans ls, Forall (fun o => o <> None) (cache_run ans ls).
Proof. exact cache_run_total. Qed.
Print Assumptions C04_every_line_answered.

(* the child receives precisely the first-occurrence lines, each once, in input order *)
Theorem C04_child_gets_first_occurrences :
  forall ls, sent ls [] = first_occurrences ls [].
Proof. exact cache_child_input. Qed.
Print Assumptions C04_child_gets_first_occurrences.

(* with whole-line keys (no hash collision: equal key <-> equal line) the output is the child's own output *)
Theorem C04_whole_line_keys_transparent :
  forall ans ls,
    (forall k1 l1 k2 l2, In (k1, l1) ls -> In (k2, l2) ls -> (k1 = k2 <-> l1 = l2)) ->
    cache_run ans ls = map (fun kl => Some (ans (snd kl))) ls.
Proof. exact cache_transparent. Qed.
Print Assumptions C04_whole_line_keys_transparent.

(* Output() reads a child line exactly when Input() forwarded one: bookkeeping `need` = `lines` *)
Theorem C04_need_eq_sent :
  forall ls, collector_needs (map fst (feeder ls [])) [] = map snd (feeder ls []).
Proof. intros ls. exact (cache_need_eq_sent ls []). Qed.
Print Assumptions C04_need_eq_sent.

(* under every interleaving, buffering policy and pipe capacity the hand-off never gets stuck and never
   reports a child error (C05's theorems at cache's parameters; needs cache_order = true, i.e. the fix) *)
Theorem C04_handoff_never_stuck_no_error :
  forall cin cout echo kpol ilen alen recs s,
    (forall j, 1 <= ilen j) -> (forall j, 1 <= alen j) -> (echo = true -> forall j, alen j = ilen j) ->
    1 <= cin -> 1 <= cout ->
    let pr := mkP cache_order cache_poison_first cache_final_peek cin cout echo kpol false false false in
    reachable (wstep pr ilen alen) (w_init recs) s ->
    (wstuck pr ilen alen s = true -> wterminal s = true) /\ w_kpc s <> KErr.
Proof.
  intros cin cout echo kpol ilen alen recs s Hi Ha He Hci Hco pr Hr. split.
  - refine (wrapper_no_stuck pr ilen alen Hi Ha He Hci Hco eq_refl _ _ recs s Hr); intros X; discriminate X.
  - refine (wrapper_no_error pr ilen alen Hi Ha He Hci Hco eq_refl _ _ recs s Hr); intros X; discriminate X.
Qed.
Print Assumptions C04_handoff_never_stuck_no_error.

(* ... and under every interleaving the queue entries reach Output() in input order and entry i is served
   with exactly the child's answers to the lines Input() forwarded for it (here: its own line iff it was a
   first occurrence): the line counts per record are [map snd (feeder ls [])] by C04_need_eq_sent *)
Theorem C04_entries_served_in_order_with_their_own_answers :
  forall cin cout echo kpol ilen alen (ls : list (nat * line)) s,
    let recs := map (fun b : bool => if b then 1 else 0) (map snd (feeder ls [])) in
    let pr := mkP cache_order cache_poison_first cache_final_peek cin cout echo kpol false false false in
    reachable (wstep pr ilen alen) (w_init recs) s ->
    rev (w_emitted s) = pairs 0 (firstn (length (w_emitted s)) recs) /\
    (w_kpc s = KDone -> rev (w_emitted s) = pairs 0 recs).
Proof.
  intros cin cout echo kpol ilen alen ls s recs pr Hr. split.
  - exact (emitted_prefix pr ilen alen recs s Hr).
  - exact (emitted_complete pr ilen alen recs s Hr).
Qed.
Print Assumptions C04_entries_served_in_order_with_their_own_answers.

(* ---- bytes: the full statement "exactly the output of running the child directly" ---- *)
(* in_cr / out_cr: does the reader strip a carriage return in front of the newline (input lines /
   the child's answers); regenerated from the source: Gen.Src_wrappers.cache_in_strip_cr, cache_out_strip_cr *)
Definition post_cr (cr : bool) (l : line) : line := if cr then strip_cr l else l.
Definition cache_tool (ans : line -> line) (keyf : line -> nat) (in_cr out_cr : bool) (bs : list Z) : list (option line) :=
  cache_run (fun l => post_cr out_cr (ans l)) (map (fun l => (keyf l, l)) (records 10 in_cr bs)).
Definition child_directly (ans : line -> line) (bs : list Z) : list (option line) :=
  map (fun l => Some (ans l)) (records 10 false bs).

(* for all byte inputs, all children (line functions) and collision-free whole-line keys:
   cache's output lines are exactly the child's own output lines *)
Theorem C04_transparent_bytes :
  forall ans keyf bs, (forall l1 l2, keyf l1 = keyf l2 <-> l1 = l2) ->
    cache_tool ans keyf cache_in_strip_cr cache_out_strip_cr bs = child_directly ans bs.
Proof.
  intros ans keyf bs Hk. unfold cache_tool, child_directly, cache_in_strip_cr, cache_out_strip_cr, post_cr.
  rewrite cache_transparent.
  - rewrite map_map. reflexivity.
  - intros k1 l1 k2 l2 H1 H2. apply in_map_iff in H1. apply in_map_iff in H2.
    destruct H1 as (x1 & E1 & _). destruct H2 as (x2 & E2 & _). inversion E1; inversion E2; subst. apply Hk.
Qed.
Print Assumptions C04_transparent_bytes.

(* the defect that was in cache (finding F11, fixed): with the default readers (strip_cr = true on both
   sides) "a\r\n" through `cache cat` gave "a\n" *)
Theorem C04_strip_cr_refuted :
  exists ans bs, forall keyf, cache_tool ans keyf true true bs <> child_directly ans bs.
Proof.
  exists (fun l => l), [97; 13; 10]%Z. intros keyf. vm_compute. discriminate.
Qed.
Print Assumptions C04_strip_cr_refuted.

(* non-vacuity: a duplicate pattern with three keys; the child sees b, a, c once each *)
Example C04_nonvacuous :
  let ls : list (nat * line) := [(2, [98%Z]); (1, [97%Z]); (2, [98%Z]); (3, [99%Z]); (1, [97%Z])] in
  cache_run (fun l => 60 :: l)%Z ls = map Some [[60; 98]; [60; 97]; [60; 98]; [60; 99]; [60; 97]]%Z /\
  sent ls [] = [[98]; [97]; [99]]%Z /\
  map snd (feeder ls []) = [true; true; false; true; false].
Proof. vm_compute. repeat split. Qed.
