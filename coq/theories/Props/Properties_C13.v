(* C13 -- the seen-set (util::AutoProbing over ProbingHashTable<.., Power2Mod>) answers membership
   correctly after any insertion history.  Only statements; proofs are in Probing/ProbingProofs.v.

   Model objects (Probing/ProbingDefs.v, run against util/probing_hash_table.hh after every operation
   by checks/C13.py): [run] executes a history of FindOrInsert / Insert / Find / UnsafeMutableFind+assign
   on the bucket array, including the in-place [double].  All theorems hold for EVERY value type V,
   every zero value v0 and EVERY hash function [hash] (the code base uses IdentityHash), every initial
   power-of-two size, and every history; the numeric constants are the regenerated Gen/Src_probing.v.
   [spec_run] is the reference seen-set (an association list); it is undefined (None) only for
   histories outside the property: a key equal to the empty marker, or Insert of a present key. *)
From Coq Require Import List NArith Permutation.
From PP Require Import Gen.Src_probing Probing.ProbingDefs Probing.ProbingProofs.
Import ListNotations.
Local Open Scope N_scope.

(* Main theorem.  For all histories of non-marker keys, from an empty table of any size 2^e:
   - no error state is reachable (no probing loop runs out of buckets = hangs, no out-of-bounds
     access, no ProbingSizeException), however often the table doubled;
   - the answers, with bucket positions erased, are exactly the answers of the reference set:
     Find reports present exactly for the keys inserted so far (with the value stored with the key),
     FindOrInsert reports `found` exactly on repeats and returns the value first stored;
   - the reached table satisfies the invariant and holds exactly the reference set's pairs. *)
Theorem C13_history_refines_set :
  forall (V : Type) (v0 : V) (hash : N -> N) (e : N) (ops : list (op V)) sas m',
  spec_run V [] ops = Some (sas, m') ->
  exists ans a' e', run V v0 hash (init_pow2 V v0 e) ops = Ok (ans, a') /\
                    map (erase V) ans = sas /\ AValid V hash a' e' /\ Permutation (abs V a') m'.
Proof. exact history_refines_set. Qed.
Print Assumptions C13_history_refines_set.

(* The table the default constructor builds (initial_size, multiplier, RoundBuckets from the header)
   is the 2^3-bucket instance, so the theorem applies to `AutoProbing<...> table;`. *)
Theorem C13_default_constructor_is_pow2 :
  forall (V : Type) (v0 : V), auto_init V v0 = init_pow2 V v0 3.
Proof. intros. reflexivity. Qed.
Print Assumptions C13_default_constructor_is_pow2.

(* ... and so is the table built for ANY constructor argument initial_size below 2048
   (Backend::Size(initial_size, 1.4) and Power2Mod::RoundBuckets, by computation over the regenerated constants),
   hence C13_history_refines_set covers `AutoProbing<...> table(n);` too. *)
Theorem C13_constructor_is_pow2 :
  forall (V : Type) (v0 : V) (n : N), n < 2048 -> exists e, auto_init_n V v0 n = init_pow2 V v0 e.
Proof. exact constructor_is_pow2. Qed.
Print Assumptions C13_constructor_is_pow2.

(* One step from ANY state satisfying the invariant (not only reachable ones). *)
Theorem C13_step_refines :
  forall (V : Type) (v0 : V) (hash : N -> N) (a : auto V) e m o sa m',
  AValid V hash a e -> Rep V a m -> spec_step V m o = Some (sa, m') ->
  exists ans a' e', step V v0 hash a o = Ok (ans, a') /\ AValid V hash a' e' /\ Rep V a' m' /\ erase V ans = sa.
Proof. exact step_refines. Qed.
Print Assumptions C13_step_refines.

(* Growth: the in-place Double (new half zeroed, wrapped prefix parked, every old bucket vacated and
   re-inserted in index order, parked entries last) maps a valid 2^e table to a valid 2^(e+1) table
   holding the same (key, value) pairs -- values stay attached to their keys. *)
Theorem C13_double_preserves :
  forall (V : Type) (v0 : V) (hash : N -> N) (t : ptable V) e,
  Valid V hash (cells t) e -> Geom V t e ->
  exists t', double V v0 hash t = Ok t' /\ Valid V hash (cells t') (e + 1) /\ Geom V t' (e + 1) /\
             entries t' = entries t /\ Permutation (contents V (cells t')) (contents V (cells t)).
Proof. exact double_correct. Qed.
Print Assumptions C13_double_preserves.

(* Membership on any valid state: a stored pair is found at a bucket holding it; an absent key is absent. *)
Theorem C13_find_iff_member :
  forall (V : Type) (hash : N -> N) (a : auto V) e k, AValid V hash a e -> k <> invalid ->
  (forall v, In (k, v) (abs V a) ->
     exists i, auto_find V hash a k = Ok (Some i) /\ get (cells (backend a)) i = Some (k, v)) /\
  (~ In k (map ekey (abs V a)) -> auto_find V hash a k = Ok None).
Proof. exact auto_find_spec. Qed.
Print Assumptions C13_find_iff_member.

(* Documented boundary of the property: the empty marker (key 0) is reported present in every state,
   whether or not it was ever inserted (used by C01: a line hashing to 0 is dropped). *)
Theorem C13_key0_always_found :
  forall (V : Type) (hash : N -> N) (a : auto V) e, AValid V hash a e ->
  exists i, auto_find V hash a invalid = Ok (Some i).
Proof. exact invalid_key_always_found. Qed.
Print Assumptions C13_key0_always_found.

(* The growth trigger never lets the table fill up, whatever the threshold factor in the header is. *)
Theorem C13_threshold_below_buckets : forall nb, 1 <= nb -> threshold_of nb < nb.
Proof. exact (threshold_lt_buckets (fun x => x)). Qed.
Print Assumptions C13_threshold_below_buckets.

(* ---- non-vacuity: concrete, non-trivial data meeting the hypotheses ---- *)

(* a history whose cluster wraps the end of the 8-bucket table (keys 7, 15, 23, 31 at bucket 7; 6, 14 at 6),
   crossing the 8 -> 16 doubling with a non-empty parked prefix; 15 and 31 move, 7 and 23 stay *)
Definition ex_ops : list (op N) :=
  [OpFindOrInsert 6 1; OpFindOrInsert 14 2; OpFindOrInsert 7 3; OpFindOrInsert 15 4; OpFindOrInsert 23 5;
   OpFindOrInsert 31 6; OpFind 15; OpFindOrInsert 5 7; OpFindOrInsert 23 99; OpUpdate 31 8; OpInsert 40 9;
   OpFind 31; OpFind 39; OpFind 6].

Example C13_nonvacuous_history :
  (* the reference set is defined on this history ... *)
  (exists sas m', spec_run N [] ex_ops = Some (sas, m') /\ length m' = 8%nat) /\
  (* ... the model table really doubles with a wrapped, parked prefix (bucket 0 occupied before, 16 buckets after) ... *)
  (exists ans a, run N 0 (fun x => x) (auto_init N 0) (firstn 6 ex_ops) = Ok (ans, a) /\
                 nbuckets (backend a) = 8 /\ get (cells (backend a)) 0 = Some (7, 3) /\ get (cells (backend a)) 2 = Some (23, 5)) /\
  (exists ans a, run N 0 (fun x => x) (auto_init N 0) ex_ops = Ok (ans, a) /\ nbuckets (backend a) = 16 /\
                 map (erase N) ans =
                 [SFoundOrInserted N false (Some 1); SFoundOrInserted N false (Some 2); SFoundOrInserted N false (Some 3);
                  SFoundOrInserted N false (Some 4); SFoundOrInserted N false (Some 5); SFoundOrInserted N false (Some 6);
                  SFind N (Some 4); SFoundOrInserted N false (Some 7); SFoundOrInserted N true (Some 5); SUpdate N true;
                  SInserted N; SFind N (Some 8); SFind N None; SFind N (Some 1)]).
Proof.
  split; [|split].
  - eexists _, _. split; [vm_compute; reflexivity|reflexivity].
  - eexists _, _. split; [vm_compute; reflexivity|]. repeat split.
  - eexists _, _. split; [vm_compute; reflexivity|]. split; reflexivity.
Qed.

(* the hypotheses of C13_double_preserves hold for that wrapped 8-bucket table (checked by computation
   through the theorem itself: the table is reachable, hence AValid) *)
Example C13_nonvacuous_double :
  exists a e, AValid N (fun x => x) a e /\ nbuckets (backend a) = 8 /\ get (cells (backend a)) 0 = Some (7, 3).
Proof.
  destruct (C13_history_refines_set N 0 (fun x => x) 3 (firstn 6 ex_ops) _ _ eq_refl) as (ans & a & e & Hrun & _ & Hv & _).
  assert (Hc : exists ans0 a0, run N 0 (fun x => x) (init_pow2 N 0 3) (firstn 6 ex_ops) = Ok (ans0, a0) /\
                               nbuckets (backend a0) = 8 /\ get (cells (backend a0)) 0 = Some (7, 3)).
  { eexists _, _. split; [vm_compute; reflexivity|]. split; reflexivity. }
  destruct Hc as (ans0 & a0 & E & P1 & P2).
  rewrite E in Hrun. injection Hrun as <- <-.
  exists a0, e. auto.
Qed.
