(* C13 -- the seen-set answers membership correctly after any insertion history. *)
From Coq Require Import List NArith.
From PP Require Import Gen.Src_probing Probing.ProbingDefs Probing.ProbingProofs.
Local Open Scope N_scope.

Theorem C13_threshold_below_buckets : forall nb, 1 <= nb -> threshold_of nb < nb.
Proof. exact threshold_lt_buckets. Qed.
Print Assumptions C13_threshold_below_buckets.
