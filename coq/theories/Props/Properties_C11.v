(* C11 -- I/O errors and child failures are never reported as success.
   Only statements; the model is Sys/ExitDefs.v (util/file.cc, buffered_stream.hh,
   captive_child.cc, the wrapper mains, the iostream mains; constants and "what is
   checked / ignored" regenerated into Gen/Src_exit.v), proofs in Sys/ExitProofs.v.

   The operating system is an oracle [orc : list outcome]: one outcome per system
   call in program order, ANY finite list (every failure point, every errno, short
   writes, EINTR runs, failures after the last byte); afterwards the OS is perfect.
   [any_failed evs]: some call in the run's trace failed in a way the code does not
   deliberately tolerate (tolerated: EINTR on read/write = retried; fsync errno in
   fsync_ignored_errnos = "descriptor cannot be synced").
   Environment assumption made explicit in [status_of]: an exception that leaves
   main or a thread, or a destructor, ends the process by abort() (SIGABRT). *)
From PP Require Import Sys.ExitDefs Sys.ExitProofs Sys.ThreadedIODefs Sys.ThreadedIOProofs Sys.WrapperIODefs Sys.WrapperIOProofs
  Sys.WrapperMainDefs Sys.WrapperMainProofs.
Local Open Scope Z_scope.

(* Any util-stream filter tool (any transducer [step]/[fin], any read size), any oracle:
   it terminates (no fuel error); a failed call => killed by SIGABRT (non-zero);
   no failed call => exit 0; exit 0 => every byte of the output the transducer
   defines for the input that was read has been accepted by the OS on descriptor 1. *)
Theorem C11_tool_io_error_nonzero_exit0_all_accepted :
  forall (St : Type) (step : St -> list Z -> St * list Z) (fin : St -> list Z) (chunk : Z) (s0 : St)
         (orc : list outcome) (st : status) (evs : list event),
  tool_run step fin chunk s0 orc = (st, evs) ->
  st <> StFuel /\
  (any_failed evs = true -> st = Signaled SIGABRT) /\
  (any_failed evs = false -> st = Exited 0) /\
  (st = Exited 0 -> any_failed evs = false /\
     exists chunks, delivered 0 evs = chunks ++ [[]] /\ accepted 1 evs = pure_out step fin s0 chunks).
Proof. exact tool_spec_proof. Qed.
Print Assumptions C11_tool_io_error_nonzero_exit0_all_accepted.

(* The same for every straight-line script of library calls (the shape of a run of any of
   the util-stream executables on a given input), with or without a catch-all in main. *)
Theorem C11_script_io_error_nonzero_exit0_all_accepted :
  forall (catches : bool) (acts : list act) (orc : list outcome) (st : status) (evs : list event),
  script_run catches acts orc = (st, evs) ->
  st <> StFuel /\
  (any_failed evs = true -> st <> Exited 0) /\
  (any_failed evs = false -> st = Exited 0) /\
  (st = Exited 0 -> any_failed evs = false /\ forall fd, accepted fd evs = script_writes fd acts).
Proof. exact script_spec_proof. Qed.
Print Assumptions C11_script_io_error_nonzero_exit0_all_accepted.

(* util::ReadOrEOF / util::ReadOrThrow (the read loops under ReadCompressed and the WARC reader), any oracle:
   no fuel error, no abort; ReadOrEOF yields a value iff no call failed, and the value is the concatenation of
   what the successful reads delivered; ReadOrThrow never returns after a failed call, and when it returns it
   returns the concatenation of non-empty reads (end of file before the requested amount is an exception) *)
Theorem C11_read_loops :
  (forall fd amount orc r evs orc', ReadOrEOF fd amount orc = (r, evs, orc') ->
     r <> Fuel /\ r <> Abort /\ is_val r = negb (any_failed evs) /\
     (forall data, r = Val data -> data = concat (delivered fd evs))) /\
  (forall fd amount orc r evs orc', ReadOrThrow fd amount orc = (r, evs, orc') ->
     r <> Fuel /\ r <> Abort /\ (any_failed evs = true -> r = Exn) /\
     (forall data, r = Val data -> any_failed evs = false /\ data = concat (delivered fd evs) /\ ~ In [] (delivered fd evs))).
Proof. exact read_loops_proof. Qed.
Print Assumptions C11_read_loops.


(* One output file of shard, end to end (util/threaded_buffered_stream.hh producer side = C20's
   stream model, writer thread, ~WriteCompressed, ~FileWriter) for ANY list of lines routed to it and ANY
   oracle: it terminates; a failed write/fsync/close on the file => the process is killed by SIGABRT
   (exception in the writer thread or in a destructor); exit 0 => the file received exactly the lines,
   each followed by a newline.  Assumes the block hand-off between the two threads is an exactly-once
   FIFO (property C16). *)
Theorem C11_shard_output_error_nonzero_exit0_all_accepted :
  forall fd lines orc st evs,
  threaded_file_run fd lines orc = (st, evs) ->
  st <> StFuel /\
  (any_failed evs = true -> st = Signaled SIGABRT) /\
  (any_failed evs = false -> st = Exited 0) /\
  (st = Exited 0 -> any_failed evs = false /\ accepted fd evs = file_content lines).
Proof. exact threaded_file_spec_proof. Qed.
Print Assumptions C11_shard_output_error_nonzero_exit0_all_accepted.

(* The data paths of cache / foldfilter / b64filter (feeder thread: FileStream on the child's stdin;
   collector thread: FileStream on fd 1), each thread with its own arbitrary oracle: no fuel error; a failed
   write/fsync/close in EITHER thread => SIGABRT; exit 0 => the child's stdin accepted every byte fed to it,
   stdout accepted every byte of every output record, the child ended normally with code 0 and delivered
   exactly the lines the records needed (b64filter: not one more). *)
Theorem C11_wrapper_io_error_nonzero_exit0_all_accepted :
  forall wr fd_child sent records needs child_lines t orc_f orc_c st evf evc,
  wrapper_io_run wr fd_child sent records needs child_lines t orc_f orc_c = (st, evf, evc) ->
  st <> StFuel /\
  (any_failed evf = true \/ any_failed evc = true -> st = Signaled SIGABRT) /\
  (st = Exited 0 ->
     any_failed evf = false /\ any_failed evc = false /\
     accepted fd_child evf = concat sent /\ accepted 1 evc = concat records /\
     Wait (wstatus t) mod 256 = 0 /\ exists rest, collect needs child_lines = Some rest /\ (wr = B64filter -> rest = 0%nat)).
Proof. exact wrapper_io_spec_proof. Qed.
Print Assumptions C11_wrapper_io_error_nonzero_exit0_all_accepted.

(* ... and conversely: no failed call in either thread and the child answered exactly what the records
   needed => the wrapper's status is Wait's value for the child's wait status; with C11_child_exit_propagates'
   arithmetic: a child exiting with code c gives status c *)
Theorem C11_wrapper_io_clean_status :
  forall wr fd_child sent records needs child_lines rest t orc_f orc_c st evf evc,
  wrapper_io_run wr fd_child sent records needs child_lines t orc_f orc_c = (st, evf, evc) ->
  collect needs child_lines = Some rest -> (wr = B64filter -> rest = 0%nat) ->
  any_failed evf = false -> any_failed evc = false ->
  st = Exited (Wait (wstatus t) mod 256).
Proof. exact wrapper_io_clean_proof. Qed.
Print Assumptions C11_wrapper_io_clean_status.

(* preprocess::Launch, parent side (close-on-exec status pipe), any oracle: an empty command line, a failed read
   of the status pipe (other than EAGAIN/EINTR, which are retried) or any byte from the child (its execvp failed)
   => the exception leaves main => SIGABRT; only "end of file on the status pipe" lets the wrapper go on *)
Theorem C11_launch_failure_nonzero :
  forall words fd orc after st evs,
  launch_status words fd orc after = (st, evs) ->
  ((words = 0%nat /\ launch_checks_command = true) \/ launch_ok evs = false -> st = Signaled SIGABRT) /\
  (launch_ok evs = true -> st = after).
Proof. exact launch_spec_proof. Qed.
Print Assumptions C11_launch_failure_nonzero.



(* iostream tools, for ANY segmentation of the output into write(2) calls by stdio:
   with the stream-state tests that the four mains contain today (regenerated booleans). *)
Theorem C11_iostream_io_error_nonzero_exit0_all_accepted :
  forall (cf : ioconf) (early late : list (list Z)) (orc : list outcome) (st : status) (evs : list event),
  conf_checked cf ->
  iostream_run cf early late orc = (st, evs) ->
  st <> StFuel /\
  (any_failed evs = true -> st <> Exited 0) /\
  (any_failed evs = false -> st = Exited 0) /\
  (st = Exited 0 -> any_failed evs = false /\ accepted 1 evs = concat (early ++ late)).
Proof. exact iostream_spec_proof. Qed.
Print Assumptions C11_iostream_io_error_nonzero_exit0_all_accepted.

(* the four iostream mains, as they are in the source now, satisfy the premise *)
Theorem C11_iostream_tools_are_checked :
  conf_checked conf_process_unicode /\ conf_checked conf_mmhsum /\
  conf_checked conf_gigaword_unwrap /\ conf_checked conf_order_independent_hash.
Proof. exact iostream_tools_are_checked_proof. Qed.
Print Assumptions C11_iostream_tools_are_checked.

(* Wait(): for EVERY 16-bit wait status, the value returned from main is non-zero as a process
   status unless the child exited normally with code 0 *)
Theorem C11_Wait_nonzero_unless_success :
  forall w, 0 <= w < 65536 -> (WIFEXITED w = true /\ WEXITSTATUS w = 0) \/ Wait w mod 256 <> 0.
Proof. exact Wait_nonzero_unless_success_proof. Qed.
Print Assumptions C11_Wait_nonzero_unless_success.

(* ------------------------------------------------------------------ *)
(* The three child wrappers, from an executable model of their mains as coded (Sys/WrapperMainDefs.v):
   feeder thread (FilePiece on stdin line by line, FileStream to the child's stdin, cache's periodic
   flush, foldfilter's/b64filter's explicit flush, the destructors), collector thread (FilePiece on the
   child's stdout: every read is a system call that can fail; premature end of file => exception;
   FileStream on fd 1; b64filter's surplus test), an exception leaving either thread => terminate,
   EPIPE => SIGPIPE, main returns what Wait(child) computed.  Quantified over EVERY record logic
   (feed / need / emit: in particular the three wrappers'), every input, every byte string the child
   wrote before its stdout ended ([child_out]), every way the child ended ([t]) and every pair of oracles.
   [total]: child lines the collector needs for the input; [have]: lines the child delivered.
   [killed st]: st = Signaled SIGABRT \/ st = Signaled SIGPIPE. *)
Theorem C11_wrapper_main_status :
  forall (D Sf Sc : Type) (feed : Sf -> list Z -> Sf * D * list (list Z)) (need : D -> nat)
         (emit : Sc -> D -> list (list Z) -> Sc * list (list Z)) (wr : wrapper) (flush_rate : nat)
         (sf0 : Sf) (sc0 : Sc) (fd_child fd_c : Z) (input child_out : list Z) (t : term)
         (orc_f orc_c : list outcome) (st : status) (evf evc : list event),
  wrapper_main_run feed need emit wr flush_rate sf0 sc0 fd_child fd_c input child_out t orc_f orc_c = (st, evf, evc) ->
  let total := total_need need (descs feed sf0 (text_lines input [])) in
  let have := length (text_lines child_out []) in
  st <> StFuel /\
  (any_failed evf = true \/ any_failed evc = true -> killed st) /\
  ((have < total)%nat -> killed st) /\
  (wr = B64filter -> have <> total -> killed st) /\
  (any_failed evf = false -> any_failed evc = false -> (total <= have)%nat -> (wr = B64filter -> have = total) ->
     st = Exited (Wait (wstatus t) mod 256)) /\
  (st = Exited 0 -> any_failed evf = false /\ any_failed evc = false /\ (total <= have)%nat /\
                    (wr = B64filter -> have = total) /\ Wait (wstatus t) mod 256 = 0).
Proof. exact wrapper_main_spec_proof. Qed.
Print Assumptions C11_wrapper_main_status.

(* child exits with code c after answering everything, nothing failed => the wrapper's status is c *)
Theorem C11_child_exit_propagates :
  forall (D Sf Sc : Type) (feed : Sf -> list Z -> Sf * D * list (list Z)) (need : D -> nat)
         (emit : Sc -> D -> list (list Z) -> Sc * list (list Z)) wr flush_rate sf0 sc0 fd_child fd_c input child_out
         orc_f orc_c st evf evc c,
  wrapper_main_run feed need emit wr flush_rate sf0 sc0 fd_child fd_c input child_out (TExit c) orc_f orc_c = (st, evf, evc) ->
  0 <= c < 256 -> any_failed evf = false -> any_failed evc = false ->
  (total_need need (descs feed sf0 (text_lines input [])) <= length (text_lines child_out []))%nat ->
  (wr = B64filter -> length (text_lines child_out []) = total_need need (descs feed sf0 (text_lines input []))) ->
  st = Exited c.
Proof. exact wm_child_exit_propagates_proof. Qed.
Print Assumptions C11_child_exit_propagates.

(* child killed by a signal at ANY point (whatever it had answered, with or without core, whatever else
   failed or not) => the wrapper's status is not 0 (and the model run ends: no fuel error) *)
Theorem C11_child_signal_nonzero :
  forall (D Sf Sc : Type) (feed : Sf -> list Z -> Sf * D * list (list Z)) (need : D -> nat)
         (emit : Sc -> D -> list (list Z) -> Sc * list (list Z)) wr flush_rate sf0 sc0 fd_child fd_c input child_out
         orc_f orc_c st evf evc s core,
  wrapper_main_run feed need emit wr flush_rate sf0 sc0 fd_child fd_c input child_out (TSignal s core) orc_f orc_c = (st, evf, evc) ->
  1 <= s <= 64 -> st <> Exited 0 /\ st <> StFuel.
Proof. exact wm_child_signal_nonzero_proof. Qed.
Print Assumptions C11_child_signal_nonzero.

(* child exits non-zero at ANY point => non-zero *)
Theorem C11_child_failure_nonzero :
  forall (D Sf Sc : Type) (feed : Sf -> list Z -> Sf * D * list (list Z)) (need : D -> nat)
         (emit : Sc -> D -> list (list Z) -> Sc * list (list Z)) wr flush_rate sf0 sc0 fd_child fd_c input child_out
         orc_f orc_c st evf evc c,
  wrapper_main_run feed need emit wr flush_rate sf0 sc0 fd_child fd_c input child_out (TExit c) orc_f orc_c = (st, evf, evc) ->
  1 <= c <= 255 -> st <> Exited 0 /\ st <> StFuel.
Proof. exact wm_child_failure_nonzero_proof. Qed.
Print Assumptions C11_child_failure_nonzero.

(* premature end of the child's output (fewer lines than the records of the input need), however the
   child ended and whatever the oracles say => killed: DERIVED from the collector's ReadLine reaching
   end of file, not assumed *)
Theorem C11_premature_eof_nonzero :
  forall (D Sf Sc : Type) (feed : Sf -> list Z -> Sf * D * list (list Z)) (need : D -> nat)
         (emit : Sc -> D -> list (list Z) -> Sc * list (list Z)) wr flush_rate sf0 sc0 fd_child fd_c input child_out
         orc_f orc_c st evf evc t,
  wrapper_main_run feed need emit wr flush_rate sf0 sc0 fd_child fd_c input child_out t orc_f orc_c = (st, evf, evc) ->
  (length (text_lines child_out []) < total_need need (descs feed sf0 (text_lines input [])))%nat -> killed st.
Proof. exact wm_premature_eof_nonzero_proof. Qed.
Print Assumptions C11_premature_eof_nonzero.

(* ANY failing read (wrapper's stdin, child's stdout pipe), write, fsync or close on a data descriptor in
   EITHER thread => killed *)
Theorem C11_wrapper_thread_io_error_nonzero :
  forall (D Sf Sc : Type) (feed : Sf -> list Z -> Sf * D * list (list Z)) (need : D -> nat)
         (emit : Sc -> D -> list (list Z) -> Sc * list (list Z)) wr flush_rate sf0 sc0 fd_child fd_c input child_out
         orc_f orc_c st evf evc t,
  wrapper_main_run feed need emit wr flush_rate sf0 sc0 fd_child fd_c input child_out t orc_f orc_c = (st, evf, evc) ->
  any_failed evf = true \/ any_failed evc = true -> killed st.
Proof. exact wm_io_error_nonzero_proof. Qed.
Print Assumptions C11_wrapper_thread_io_error_nonzero.

(* ---- non-vacuity ---- *)

(* an identity tool reading "ab","c" with the final flush's write failing with ENOSPC after a
   short write: killed by SIGABRT, and the trace has the failed event *)
Example C11_nonvacuous_tool_fault_after_last_byte :
  tool_run (fun (s : unit) d => (s, d)) (fun _ => []) 4096 tt
           [Ok 2 [97; 98]; Ok 1 [99]; Ok 0 []; Ok 2 []; Err ENOSPC]
  = (Signaled SIGABRT,
     [mkEv OpRead 0 4096 [] (Ok 2 [97; 98]); mkEv OpRead 0 4096 [] (Ok 1 [99]); mkEv OpRead 0 4096 [] (Ok 0 []);
      mkEv OpWrite 1 3 [97; 98; 99] (Ok 2 []); mkEv OpWrite 1 1 [99] (Err ENOSPC)]).
Proof. vm_compute. reflexivity. Qed.

(* ... and with EINTR + short write + unsupported fsync instead: exit 0 and all three bytes accepted *)
Example C11_nonvacuous_tool_benign :
  let '(st, evs) := tool_run (fun (s : unit) d => (s, d)) (fun _ => []) 4096 tt
           [Err EINTR; Ok 2 [97; 98]; Ok 1 [99]; Ok 0 []; Ok 2 []; Err EINTR; Ok 1 []; Err EINVAL] in
  st = Exited 0 /\ accepted 1 evs = [97; 98; 99] /\ any_failed evs = false /\ length evs = 10%nat.
Proof. vm_compute. repeat split. Qed.

(* shard output: 3 lines; the data write succeeds, the thread's fsync hits EIO: abort although every byte was accepted *)
Example C11_nonvacuous_shard_output :
  threaded_file_run 3 [[97]; [98; 99]; []] [Ok 6 []; Err EIO]
  = (Signaled SIGABRT, [mkEv OpWrite 3 6 [97; 10; 98; 99; 10; 10] (Ok 6 []); mkEv OpFsync 3 0 [] (Err EIO)]).
Proof. vm_compute. reflexivity. Qed.

(* foldfilter: everything fine except the close of the child's stdin => abort; cache with clean oracles and exit 0 => 0 *)
Example C11_nonvacuous_wrapper_io :
  fst (fst (wrapper_io_run Foldfilter 4 [[97; 10]; [98; 10]] [[97; 98; 10]] [2%nat] 2 (TExit 0) [Ok 4 []; Ok 0 []; Ok 0 []; Err EIO] [])) = Signaled SIGABRT /\
  fst (fst (wrapper_io_run Cache 4 [[97; 10]] [[97; 10]; [97; 10]] [1%nat] 1 (TExit 0) [] [])) = Exited 0.
Proof. vm_compute. split; reflexivity. Qed.

(* the unchecked iostream main of the original code exits 0 on a failed write (the defect that was fixed) *)
Example C11_nonvacuous_iostream_unchecked_exits_0 :
  iostream_run (mkIO false false 0 false false) [] [[104; 105; 10]] [Err ENOSPC]
  = (Exited 0, [mkEv OpWrite 1 3 [104; 105; 10] (Err ENOSPC)]) /\
  fst (iostream_run conf_mmhsum [] [[104; 105; 10]] [Ok 0 []; Err ENOSPC]) = Exited 1.
Proof. vm_compute. split; reflexivity. Qed.

(* a line-by-line wrapper (one child line per input line, echo), input "a\nb\n":
   child answered both lines and was then killed by SIGKILL => 137; exited 3 => 3;
   child answered one line and exited 0 => SIGABRT (premature end of file, derived);
   everything answered, exit 0, but the 2nd read of the child's pipe fails with EIO => SIGABRT;
   the child's stdin is closed early, write gives EPIPE => SIGPIPE;
   b64filter with a surplus line => SIGABRT;  Wait's old value 256 would be status 0 *)
Definition ex_feed (s : unit) (l : list Z) : unit * nat * list (list Z) := (s, 1%nat, [l; [10]]).
Definition ex_emit (s : unit) (d : nat) (ls : list (list Z)) : unit * list (list Z) := (s, map (fun l => l ++ [10]) ls).
Definition ex_run wr child_out t of oc :=
  fst (fst (wrapper_main_run ex_feed (fun d => d) ex_emit wr 4096 tt tt 4 5 [97; 10; 98; 10] child_out t of oc)).
Example C11_nonvacuous_wrapper :
  ex_run Foldfilter [97; 10; 98; 10] (TSignal 9 false) [] [] = Exited 137 /\
  ex_run Cache [97; 10; 98; 10] (TExit 3) [] [] = Exited 3 /\
  ex_run Cache [97; 10; 98; 10] (TExit 0) [] [] = Exited 0 /\
  ex_run Cache [97; 10] (TExit 0) [] [] = Signaled SIGABRT /\
  ex_run Cache [97; 10; 98; 10] (TExit 0) [] [Ok 2 []; Err EIO] = Signaled SIGABRT /\
  ex_run Cache [97; 10; 98; 10] (TExit 0) [Ok 4 []; Ok 0 []; Err EPIPE] [] = Signaled SIGPIPE /\
  ex_run B64filter [97; 10; 98; 10; 99; 10] (TExit 0) [] [] = Signaled SIGABRT /\
  ex_run B64filter [97; 10; 98; 10] (TExit 0) [] [] = Exited 0 /\
  256 mod 256 = 0.
Proof. vm_compute. repeat split. Qed.

(* the read loops and Launch behave as stated on small instances *)
Example C11_nonvacuous_read_loops_launch :
  fst (fst (ReadOrThrow 0 5 [Ok 2 [1; 2]; Err EIO])) = Exn /\
  fst (fst (ReadOrEOF 0 5 [Err EINTR; Ok 2 [1; 2]; Ok 0 []])) = Val [1; 2] /\
  fst (launch_status 1 5 [Err EAGAIN; Ok 4 []] (Exited 0)) = Signaled SIGABRT /\
  fst (launch_status 1 5 [Err EAGAIN; Ok 0 []] (Exited 0)) = Exited 0.
Proof. vm_compute. repeat split. Qed.
