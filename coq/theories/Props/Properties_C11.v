(* C11 -- I/O errors and child failures are never reported as success.
   Only statements; the model is Sys/ExitDefs.v (util/file.cc, buffered_stream.hh,
   captive_child.cc, the wrapper mains, the iostream mains; constants and "what is
   checked / ignored" regenerated into Gen/Src_exit.v), proofs in Sys/ExitProofs.v.

   The operating system is an oracle [orc : list outcome]: one outcome per system
   call in program order, ANY finite list (every failure point, every errno, short
   writes, EINTR runs, failures after the last byte); afterwards the OS is perfect.
   [any_failed evs]: some call in the run's trace failed in a way the code does not
   deliberately tolerate (tolerated: EINTR on read/write = retried; fsync errno in
   fsync_ignored_errnos = "descriptor cannot be synced").
   Environment assumption made explicit in [status_of]: an exception that leaves
   main or a thread, or a destructor, ends the process by abort() (SIGABRT). *)
From PP Require Import Sys.ExitDefs Sys.ExitProofs Sys.ThreadedIODefs Sys.ThreadedIOProofs Sys.WrapperIODefs Sys.WrapperIOProofs.
Local Open Scope Z_scope.

(* Any util-stream filter tool (any transducer [step]/[fin], any read size), any oracle:
   it terminates (no fuel error); a failed call => killed by SIGABRT (non-zero);
   no failed call => exit 0; exit 0 => every byte of the output the transducer
   defines for the input that was read has been accepted by the OS on descriptor 1. *)
Theorem C11_tool_io_error_nonzero_exit0_all_accepted :
  forall (St : Type) (step : St -> list Z -> St * list Z) (fin : St -> list Z) (chunk : Z) (s0 : St)
         (orc : list outcome) (st : status) (evs : list event),
  tool_run step fin chunk s0 orc = (st, evs) ->
  st <> StFuel /\
  (any_failed evs = true -> st = Signaled SIGABRT) /\
  (any_failed evs = false -> st = Exited 0) /\
  (st = Exited 0 -> any_failed evs = false /\
     exists chunks, delivered 0 evs = chunks ++ [[]] /\ accepted 1 evs = pure_out step fin s0 chunks).
Proof. exact tool_spec_proof. Qed.
Print Assumptions C11_tool_io_error_nonzero_exit0_all_accepted.

(* The same for every straight-line script of library calls (the shape of a run of any of
   the util-stream executables on a given input), with or without a catch-all in main. *)
Theorem C11_script_io_error_nonzero_exit0_all_accepted :
  forall (catches : bool) (acts : list act) (orc : list outcome) (st : status) (evs : list event),
  script_run catches acts orc = (st, evs) ->
  st <> StFuel /\
  (any_failed evs = true -> st <> Exited 0) /\
  (any_failed evs = false -> st = Exited 0) /\
  (st = Exited 0 -> any_failed evs = false /\ forall fd, accepted fd evs = script_writes fd acts).
Proof. exact script_spec_proof. Qed.
Print Assumptions C11_script_io_error_nonzero_exit0_all_accepted.

(* util::ReadOrEOF / util::ReadOrThrow (the read loops under ReadCompressed and the WARC reader), any oracle:
   no fuel error, no abort; ReadOrEOF yields a value iff no call failed, and the value is the concatenation of
   what the successful reads delivered; ReadOrThrow never returns after a failed call, and when it returns it
   returns the concatenation of non-empty reads (end of file before the requested amount is an exception) *)
Theorem C11_read_loops :
  (forall fd amount orc r evs orc', ReadOrEOF fd amount orc = (r, evs, orc') ->
     r <> Fuel /\ r <> Abort /\ is_val r = negb (any_failed evs) /\
     (forall data, r = Val data -> data = concat (delivered fd evs))) /\
  (forall fd amount orc r evs orc', ReadOrThrow fd amount orc = (r, evs, orc') ->
     r <> Fuel /\ r <> Abort /\ (any_failed evs = true -> r = Exn) /\
     (forall data, r = Val data -> any_failed evs = false /\ data = concat (delivered fd evs) /\ ~ In [] (delivered fd evs))).
Proof. exact read_loops_proof. Qed.
Print Assumptions C11_read_loops.


(* One output file of shard, end to end (util/threaded_buffered_stream.hh producer side = C20's
   stream model, writer thread, ~WriteCompressed, ~FileWriter) for ANY list of lines routed to it and ANY
   oracle: it terminates; a failed write/fsync/close on the file => the process is killed by SIGABRT
   (exception in the writer thread or in a destructor); exit 0 => the file received exactly the lines,
   each followed by a newline.  Assumes the block hand-off between the two threads is an exactly-once
   FIFO (property C16). *)
Theorem C11_shard_output_error_nonzero_exit0_all_accepted :
  forall fd lines orc st evs,
  threaded_file_run fd lines orc = (st, evs) ->
  st <> StFuel /\
  (any_failed evs = true -> st = Signaled SIGABRT) /\
  (any_failed evs = false -> st = Exited 0) /\
  (st = Exited 0 -> any_failed evs = false /\ accepted fd evs = file_content lines).
Proof. exact threaded_file_spec_proof. Qed.
Print Assumptions C11_shard_output_error_nonzero_exit0_all_accepted.

(* The data paths of cache / foldfilter / b64filter (feeder thread: FileStream on the child's stdin;
   collector thread: FileStream on fd 1), each thread with its own arbitrary oracle: no fuel error; a failed
   write/fsync/close in EITHER thread => SIGABRT; exit 0 => the child's stdin accepted every byte fed to it,
   stdout accepted every byte of every output record, the child ended normally with code 0 and delivered
   exactly the lines the records needed (b64filter: not one more). *)
Theorem C11_wrapper_io_error_nonzero_exit0_all_accepted :
  forall wr fd_child sent records needs child_lines t orc_f orc_c st evf evc,
  wrapper_io_run wr fd_child sent records needs child_lines t orc_f orc_c = (st, evf, evc) ->
  st <> StFuel /\
  (any_failed evf = true \/ any_failed evc = true -> st = Signaled SIGABRT) /\
  (st = Exited 0 ->
     any_failed evf = false /\ any_failed evc = false /\
     accepted fd_child evf = concat sent /\ accepted 1 evc = concat records /\
     Wait (wstatus t) mod 256 = 0 /\ exists rest, collect needs child_lines = Some rest /\ (wr = B64filter -> rest = 0%nat)).
Proof. exact wrapper_io_spec_proof. Qed.
Print Assumptions C11_wrapper_io_error_nonzero_exit0_all_accepted.

(* ... and conversely: no failed call in either thread and the child answered exactly what the records
   needed => the wrapper's status is Wait's value for the child's wait status; with C11_child_exit_propagates'
   arithmetic: a child exiting with code c gives status c *)
Theorem C11_wrapper_io_clean_status :
  forall wr fd_child sent records needs child_lines rest t orc_f orc_c st evf evc,
  wrapper_io_run wr fd_child sent records needs child_lines t orc_f orc_c = (st, evf, evc) ->
  collect needs child_lines = Some rest -> (wr = B64filter -> rest = 0%nat) ->
  any_failed evf = false -> any_failed evc = false ->
  st = Exited (Wait (wstatus t) mod 256).
Proof. exact wrapper_io_clean_proof. Qed.
Print Assumptions C11_wrapper_io_clean_status.

(* preprocess::Launch, parent side (close-on-exec status pipe), any oracle: an empty command line, a failed read
   of the status pipe (other than EAGAIN/EINTR, which are retried) or any byte from the child (its execvp failed)
   => the exception leaves main => SIGABRT; only "end of file on the status pipe" lets the wrapper go on *)
Theorem C11_launch_failure_nonzero :
  forall words fd orc after st evs,
  launch_status words fd orc after = (st, evs) ->
  ((words = 0%nat /\ launch_checks_command = true) \/ launch_ok evs = false -> st = Signaled SIGABRT) /\
  (launch_ok evs = true -> st = after).
Proof. exact launch_spec_proof. Qed.
Print Assumptions C11_launch_failure_nonzero.



(* iostream tools, for ANY segmentation of the output into write(2) calls by stdio:
   with the stream-state tests that the four mains contain today (regenerated booleans). *)
Theorem C11_iostream_io_error_nonzero_exit0_all_accepted :
  forall (cf : ioconf) (early late : list (list Z)) (orc : list outcome) (st : status) (evs : list event),
  conf_checked cf ->
  iostream_run cf early late orc = (st, evs) ->
  st <> StFuel /\
  (any_failed evs = true -> st <> Exited 0) /\
  (any_failed evs = false -> st = Exited 0) /\
  (st = Exited 0 -> any_failed evs = false /\ accepted 1 evs = concat (early ++ late)).
Proof. exact iostream_spec_proof. Qed.
Print Assumptions C11_iostream_io_error_nonzero_exit0_all_accepted.

(* the four iostream mains, as they are in the source now, satisfy the premise *)
Theorem C11_iostream_tools_are_checked :
  conf_checked conf_process_unicode /\ conf_checked conf_mmhsum /\
  conf_checked conf_gigaword_unwrap /\ conf_checked conf_order_independent_hash.
Proof. exact iostream_tools_are_checked_proof. Qed.
Print Assumptions C11_iostream_tools_are_checked.

(* Wait(): for EVERY 16-bit wait status, the value returned from main is non-zero as a process
   status unless the child exited normally with code 0 *)
Theorem C11_Wait_nonzero_unless_success :
  forall w, 0 <= w < 65536 -> (WIFEXITED w = true /\ WEXITSTATUS w = 0) \/ Wait w mod 256 <> 0.
Proof. exact Wait_nonzero_unless_success_proof. Qed.
Print Assumptions C11_Wait_nonzero_unless_success.

(* child exits on its own after answering everything => wrapper status = child's code *)
Theorem C11_child_exit_propagates :
  forall wr needs lines rest c,
  collect needs lines = Some rest -> (wr = B64filter -> rest = 0%nat) -> 0 <= c < 256 ->
  wrapper_status wr needs lines (TExit c) true = Exited c.
Proof. exact child_exit_propagates_proof. Qed.
Print Assumptions C11_child_exit_propagates.

(* child killed by a signal at ANY point (any number of answers, with or without core,
   feeder failing or not) => non-zero *)
Theorem C11_child_signal_nonzero :
  forall wr needs lines s core feeder_ok,
  1 <= s <= 64 -> wrapper_status wr needs lines (TSignal s core) feeder_ok <> Exited 0.
Proof. exact child_signal_nonzero_proof. Qed.
Print Assumptions C11_child_signal_nonzero.

(* child exits non-zero at ANY point => non-zero *)
Theorem C11_child_failure_nonzero :
  forall wr needs lines c feeder_ok,
  1 <= c <= 255 -> wrapper_status wr needs lines (TExit c) feeder_ok <> Exited 0.
Proof. exact child_failure_nonzero_proof. Qed.
Print Assumptions C11_child_failure_nonzero.

(* premature EOF from the child (fewer lines than the records need), however it ended => abort *)
Theorem C11_premature_eof_nonzero :
  forall wr needs lines t feeder_ok,
  (lines < fold_right Nat.add 0 needs)%nat ->
  wrapper_status wr needs lines t feeder_ok = Signaled SIGABRT.
Proof. exact premature_eof_lines_proof. Qed.
Print Assumptions C11_premature_eof_nonzero.

(* a failed write to the child's stdin => non-zero *)
Theorem C11_feeder_error_nonzero :
  forall wr needs lines t, wrapper_status wr needs lines t false <> Exited 0.
Proof. exact feeder_error_nonzero_proof. Qed.
Print Assumptions C11_feeder_error_nonzero.

(* ---- non-vacuity ---- *)

(* an identity tool reading "ab","c" with the final flush's write failing with ENOSPC after a
   short write: killed by SIGABRT, and the trace has the failed event *)
Example C11_nonvacuous_tool_fault_after_last_byte :
  tool_run (fun (s : unit) d => (s, d)) (fun _ => []) 4096 tt
           [Ok 2 [97; 98]; Ok 1 [99]; Ok 0 []; Ok 2 []; Err ENOSPC]
  = (Signaled SIGABRT,
     [mkEv OpRead 0 4096 [] (Ok 2 [97; 98]); mkEv OpRead 0 4096 [] (Ok 1 [99]); mkEv OpRead 0 4096 [] (Ok 0 []);
      mkEv OpWrite 1 3 [97; 98; 99] (Ok 2 []); mkEv OpWrite 1 1 [99] (Err ENOSPC)]).
Proof. vm_compute. reflexivity. Qed.

(* ... and with EINTR + short write + unsupported fsync instead: exit 0 and all three bytes accepted *)
Example C11_nonvacuous_tool_benign :
  let '(st, evs) := tool_run (fun (s : unit) d => (s, d)) (fun _ => []) 4096 tt
           [Err EINTR; Ok 2 [97; 98]; Ok 1 [99]; Ok 0 []; Ok 2 []; Err EINTR; Ok 1 []; Err EINVAL] in
  st = Exited 0 /\ accepted 1 evs = [97; 98; 99] /\ any_failed evs = false /\ length evs = 10%nat.
Proof. vm_compute. repeat split. Qed.

(* shard output: 3 lines; the data write succeeds, the thread's fsync hits EIO: abort although every byte was accepted *)
Example C11_nonvacuous_shard_output :
  threaded_file_run 3 [[97]; [98; 99]; []] [Ok 6 []; Err EIO]
  = (Signaled SIGABRT, [mkEv OpWrite 3 6 [97; 10; 98; 99; 10; 10] (Ok 6 []); mkEv OpFsync 3 0 [] (Err EIO)]).
Proof. vm_compute. reflexivity. Qed.

(* foldfilter: everything fine except the close of the child's stdin => abort; cache with clean oracles and exit 0 => 0 *)
Example C11_nonvacuous_wrapper_io :
  fst (fst (wrapper_io_run Foldfilter 4 [[97; 10]; [98; 10]] [[97; 98; 10]] [2%nat] 2 (TExit 0) [Ok 4 []; Ok 0 []; Ok 0 []; Err EIO] [])) = Signaled SIGABRT /\
  fst (fst (wrapper_io_run Cache 4 [[97; 10]] [[97; 10]; [97; 10]] [1%nat] 1 (TExit 0) [] [])) = Exited 0.
Proof. vm_compute. split; reflexivity. Qed.

(* the unchecked iostream main of the original code exits 0 on a failed write (the defect that was fixed) *)
Example C11_nonvacuous_iostream_unchecked_exits_0 :
  iostream_run (mkIO false false 0 false false) [] [[104; 105; 10]] [Err ENOSPC]
  = (Exited 0, [mkEv OpWrite 1 3 [104; 105; 10] (Err ENOSPC)]) /\
  fst (iostream_run conf_mmhsum [] [[104; 105; 10]] [Ok 0 []; Err ENOSPC]) = Exited 1.
Proof. vm_compute. split; reflexivity. Qed.

(* statuses: SIGKILL after all answers => 137; exit 3 => 3; Wait's old value 256 would be status 0 *)
Example C11_nonvacuous_wrapper :
  wrapper_status Foldfilter [2; 1]%nat 3 (TSignal 9 false) true = Exited 137 /\
  wrapper_status Cache [1; 1]%nat 2 (TExit 3) true = Exited 3 /\
  wrapper_status B64filter [2; 1]%nat 2 (TExit 0) true = Signaled SIGABRT /\
  256 mod 256 = 0.
Proof. vm_compute. repeat split. Qed.
