(* C07 -- foldfilter splits within the width and reassembles losslessly.
   Only statements; proofs are in Fold/FoldProofs.v.  [wrap_lines], [foldfilter_tool]
   are the executable models (Fold/FoldDefs.v) that the check runs against the real
   wrap_lines and bin/foldfilter; default options, the strip_cr settings and the
   scanner's constants are regenerated from the source (Gen/Src_foldfilter.v).
   "valid UTF-8" = accepted by the model of util::DecodeUTF8 ([utf8_valid]);
   [short_line]: fewer than 2^31 bytes (pos_first_delimiter is an int32_t). *)
From PP Require Import Fold.FoldDefs Fold.FoldProofs Fold.Utf8Grammar.
Local Open Scope Z_scope.

(* For every valid UTF-8 line, EVERY width (also 0), every delimiter list and both -s
   modes: wrap_lines neither throws nor runs out of fuel (progress), yields as many
   delimiter entries as pieces and at least one piece (never mistaken for the poison),
   pieces interleaved with the withheld runs are exactly the line, every piece is
   valid UTF-8 (cuts fall on code point boundaries), every withheld run consists of
   delimiter code points only and is empty unless -s was given. *)
Theorem C07_wrap_lines_lossless : forall line o, utf8_valid line = true -> short_line line ->
  exists ps ds,
    wrap_lines line o = WOk ps ds /\ length ps = length ds /\ ps <> [] /\
    interleave ps ds = line /\
    Forall (fun p => utf8_valid p = true) ps /\
    Forall (fun d => all_delims (length d) (w_delims o) d = true /\ (w_keep o = true -> d = [])) ds.
Proof. exact wrap_lines_correct. Qed.
Print Assumptions C07_wrap_lines_lossless.

(* Width bound, for every width >= 1: every piece handed to the child has at most WIDTH
   bytes, or is a single code point ([width_ok] = length <= w, or the scanner counts
   exactly one code point).  Proved for the repaired wrap_lines (repo commit d3504c5);
   the original code violated it, e.g. -w 3 on two 2-byte characters. *)
Theorem C07_width_bound : forall line o, utf8_valid line = true -> short_line line -> 1 <= w_width o ->
  exists ps ds, wrap_lines line o = WOk ps ds /\
    Forall (fun p => width_ok (w_width o) p = true) ps.
Proof. exact wrap_lines_width. Qed.
Print Assumptions C07_width_bound.

(* NOTE on C07_tool_join_spec below: [rejoined] is defined through wrap_lines, so the statement mostly
   says that the per-line tool model iterates wrap_lines and join; its content comes from
   C07_wrap_lines_lossless (what the pieces are) and C07_stream_attribution(_stateful) (that the real
   data flow attributes the answers to the right line). *)
(* The tool with any child that answers every piece p with one line g p: each output
   line is the child's answers for that line's pieces re-joined with the withheld runs
   ([rejoined]); input and output have the same number of lines. *)
Theorem C07_tool_join_spec : forall o g ls,
  Forall (fun l => utf8_valid l = true /\ short_line l) ls -> forallb (no_delim 10) ls = true ->
  foldfilter_tool o g (unrecords 10 ls) = TOk (unrecords 10 (map (rejoined o g) ls)).
Proof. exact tool_join_spec_proof. Qed.
Print Assumptions C07_tool_join_spec.

(* The same for the data flow as it really is ([foldfilter_stream]: ONE stream of all pieces of
   all lines to the child, ONE stream of answers back, the collector taking as many answer lines
   per queue entry as the entry has withheld runs): with a line-preserving child every output line
   consists of the answers to exactly that line's pieces -- nothing is attributed to a neighbour. *)
Theorem C07_stream_attribution : forall o g ls, lp g ->
  Forall (fun l => utf8_valid l = true /\ short_line l) ls -> forallb (no_delim 10) ls = true ->
  foldfilter_stream o (line_child g) fold_feeder_strip_cr fold_collector_strip_cr (unrecords 10 ls)
  = TOk (unrecords 10 (map (rejoined o g) ls)).
Proof. exact stream_attribution_proof. Qed.
Print Assumptions C07_stream_attribution.

(* The same for children WITH MEMORY: any answer function A on the list of all lines read that gives one
   LF-free line per line ([one_per_line]; answer i may depend on everything read).  Output line k consists
   of the answer lines at the positions of line k's pieces, re-joined with line k's withheld runs
   ([rejoined_stream]: the answer list cut into consecutive segments of the lines' piece counts). *)
Theorem C07_stream_attribution_stateful : forall o A ls, one_per_line A ->
  Forall (fun l => utf8_valid l = true /\ short_line l) ls -> forallb (no_delim 10) ls = true ->
  foldfilter_stream o (answers_child A) fold_feeder_strip_cr fold_collector_strip_cr (unrecords 10 ls)
  = TOk (unrecords 10 (rejoined_stream o A ls)).
Proof. exact stream_attribution_stateful_proof. Qed.
Print Assumptions C07_stream_attribution_stateful.

(* a numbering child: the answers carry their global position, visible in the right lines *)
Example C07_nonvacuous_stateful :
  let o := {| w_width := 2; w_keep := false; w_delims := [32] |} in
  let A := fun ls => map (fun il => (48 + Z.of_nat (fst il)) :: snd il) (combine (seq 1 (length ls)) ls) in
  foldfilter_stream o (answers_child A) false false [97; 98; 32; 99; 10; 100; 101; 102; 10]
  = TOk [49; 97; 98; 32; 50; 99; 10; 51; 100; 101; 52; 102; 10].
Proof. vm_compute. reflexivity. Qed.

(* an identity child reproduces the input exactly (delimiters are never NUL: they come from argv) *)
Theorem C07_tool_identity : forall o ls,
  Forall (fun l => utf8_valid l = true /\ short_line l) ls -> forallb (no_delim 10) ls = true ->
  ~ In 0 (w_delims o) ->
  foldfilter_tool o (fun x => x) (unrecords 10 ls) = TOk (unrecords 10 ls).
Proof. exact tool_identity_proof. Qed.
Print Assumptions C07_tool_identity.

(* The command line: -w accepts exactly non-empty strings of decimal digits below 2^64
   ([parse_width]; anything else is a usage error), and with any accepted width an identity
   child reproduces the input. *)
Theorem C07_cli_identity : forall wstr w keep delims ls,
  parse_width wstr = Some w ->
  Forall (fun l => utf8_valid l = true /\ short_line l) ls -> forallb (no_delim 10) ls = true ->
  ~ In 0 delims ->
  foldfilter_cli wstr keep delims (fun x => x) (unrecords 10 ls) = CRun (TOk (unrecords 10 ls)).
Proof. exact cli_identity_proof. Qed.
Print Assumptions C07_cli_identity.

Theorem C07_width_option_grammar : forall s w, parse_width s = Some w ->
  s <> [] /\ forallb (fun c => (48 <=? c) && (c <=? 57)) s = true /\ 0 <= w < 18446744073709551616.
Proof. exact parse_width_spec. Qed.
Print Assumptions C07_width_option_grammar.

(* -d: every argument that is well-formed UTF-8 (Table 3-7) is accepted and denotes exactly
   its code points, in order (re-encoding them gives the argument back) *)
Theorem C07_delims_option_grammar : forall dstr, WF dstr ->
  exists ds, parse_delims dstr = Some ds /\ utf8_of_cps ds = dstr.
Proof. exact wf_roundtrip. Qed.
Print Assumptions C07_delims_option_grammar.

Example C07_nonvacuous_width_option :
  parse_width [50; 49; 52; 55; 52; 56; 51; 54; 52; 56] = Some 2147483648 /\ parse_width [45; 49] = None /\
  parse_width [] = None /\ parse_width [53; 120] = None /\
  parse_width [49; 56; 52; 52; 54; 55; 52; 52; 48; 55; 51; 55; 48; 57; 53; 53; 49; 54; 49; 54] = None.
Proof. vm_compute. repeat split; reflexivity. Qed.

(* The premise [utf8_valid] is met by every well-formed UTF-8 byte string in the sense of
   the Unicode standard, Table 3-7 ([WF]: one constructor per row of the table), so the
   theorems above hold for all valid UTF-8 lines, 1-4 byte code points included. *)
Theorem C07_table37_is_valid : forall bs, WF bs -> utf8_valid bs = true.
Proof. exact wf_utf8_valid. Qed.
Print Assumptions C07_table37_is_valid.

(* the empty line yields exactly one (empty) piece *)
Theorem C07_empty_line_one_piece : forall o, wrap_lines [] o = WOk [[]] [[]].
Proof. exact wrap_empty_line. Qed.
Print Assumptions C07_empty_line_one_piece.

(* non-vacuity: a line with 1-4 byte code points and delimiter runs, multi-byte delimiter, -s *)
Example C07_nonvacuous_wrap :
  let line := [97; 195; 169; 32; 32; 226; 130; 172; 194; 183; 240; 159; 152; 128; 98; 13] in
  let o := {| w_width := 3; w_keep := false; w_delims := [183; 32] |} in
  utf8_valid line = true /\ short_line line /\
  wrap_lines line o = WOk [[97; 195; 169]; [226; 130; 172]; [240; 159; 152; 128]; [98; 13]] [[32; 32]; [194; 183]; []; []].
Proof. vm_compute. repeat split; reflexivity. Qed.

(* the former counter-example: width 3, two 2-byte characters; and a 4-byte character at width 1 *)
Example C07_nonvacuous_width :
  wrap_lines [195; 169; 195; 169] {| w_width := 3; w_keep := true; w_delims := [32] |}
    = WOk [[195; 169]; [195; 169]] [[]; []] /\
  wrap_lines [97; 240; 159; 152; 128] {| w_width := 1; w_keep := true; w_delims := [] |}
    = WOk [[97]; [240; 159; 152; 128]] [[]; []] /\
  width_ok 1 [240; 159; 152; 128] = true /\ width_ok 3 [195; 169; 195; 169] = false.
Proof. vm_compute. repeat split; reflexivity. Qed.

Example C07_nonvacuous_table37 : WF [97; 195; 169; 226; 130; 172; 240; 159; 152; 128; 237; 159; 191; 244; 143; 191; 191].
Proof.
  apply wf_1; [unfold rng; lia|]. apply wf_2; [unfold rng; lia..|]. apply wf_3b; [unfold rng; lia..|].
  apply wf_4a; [unfold rng; lia..|]. apply wf_3c; [unfold rng; lia..|]. apply wf_4c; [unfold rng; lia..|].
  apply wf_nil.
Qed.

Example C07_nonvacuous_stream :
  let o := {| w_width := 2; w_keep := false; w_delims := [32] |} in
  let input := [97; 98; 32; 99; 10; 100; 101; 102; 10] in
  foldfilter_stream o (line_child (fun p => 91 :: p ++ [93])) false false input
    = TOk [91; 97; 98; 93; 32; 91; 99; 93; 10; 91; 100; 101; 93; 91; 102; 93; 10] /\
  (* a child that swallows the second line it reads: the collector runs out of answers *)
  foldfilter_stream o (fun s => firstn 3 s ++ skipn 5 s) false false input = TChildShort.
Proof. vm_compute. split; reflexivity. Qed.

Example C07_nonvacuous_tool :
  let o := {| w_width := 2; w_keep := true; w_delims := [32] |} in
  let ls := [[97; 98; 32; 99; 13]; []; [195; 169; 195; 169]] in
  Forall (fun l => utf8_valid l = true /\ short_line l) ls /\ forallb (no_delim 10) ls = true /\
  foldfilter_tool o (fun p => 91 :: p ++ [93]) (unrecords 10 ls)
  = TOk [91; 97; 98; 93; 91; 32; 99; 93; 91; 13; 93; 10; 91; 93; 10; 91; 195; 169; 93; 91; 195; 169; 93; 10].
Proof.
  split; [repeat constructor; vm_compute; reflexivity | vm_compute; split; reflexivity].
Qed.
