(* C07 -- foldfilter splits within the width and reassembles losslessly.
   Only statements; proofs are in Fold/FoldProofs.v. *)
From PP Require Import Fold.FoldDefs Fold.FoldProofs.
Local Open Scope Z_scope.

(* the empty line yields exactly one (empty) piece: never mistaken for the poison *)
Theorem C07_empty_line_one_piece : forall o, wrap_lines [] o = WOk [[]] [[]].
Proof. exact wrap_empty_line. Qed.
Print Assumptions C07_empty_line_one_piece.
