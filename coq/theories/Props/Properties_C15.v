(* C15 -- compressed I/O is transparent and interoperable.
   Statements only; proofs are in Compress/CompressProofs.v.

   The codecs (zlib, bzip2, liblzma) are environment.  Every theorem is about
   the executable model of the DRIVER code of util/compress.cc
   (Compress/CompressDefs.v, constants regenerated in Gen/Src_compress.v) and
   carries the codec contract as explicit premises:
     member k m p      m is a complete member of codec k expanding to p
     DInv k st pin po  decoder state st has still to consume pin and produce po
     dcall_contract    one inflate/BZ2_bzDecompress/lzma_code call: cursors
                       monotone, output a prefix of what is due, END exactly when
                       the member is consumed and its output delivered, progress
                       whenever input is offered, and on avail_in = 0 before END:
                       zlib Z_BUF_ERROR, bzip2 BZ_OK without progress, xz LZMA_OK
                       at most stall_max times and then LZMA_BUF_ERROR
     EInv / ecall_*_contract   the same for deflate / BZ2_bzCompress
   The check tests these premises on every logged call of the real codecs.
   Fuel exhaustion (EHang / FileErr true) is the model of a hang; every theorem
   states that it does not occur. *)
From PP Require Import Compress.CompressDefs Compress.CompressProofs Compress.ToyCodec.
Local Open Scope N_scope.

(* Reading any concatenation of gzip / bzip2 / xz members (mixed codecs,
   empty members), delivered in any fragments [f] and requested in any positive
   amounts [amt], yields exactly the concatenation of the payloads. *)
Theorem C15_read_concat_members_any_fragmentation :
  forall (world dstate : Type) (dnew : world -> kind -> dstate * world)
         (dcall : kind -> dstate -> Z -> list Z -> N -> cres dstate)
         (member : kind -> list Z -> list Z -> Prop)
         (DInv : kind -> dstate -> list Z -> list Z -> Prop) (dstall : dstate -> nat),
    (forall k m p, member k m p -> starts_with (magic_of k) m = true) ->
    (forall w k m p, member k m p -> DInv k (fst (dnew w k)) m p) ->
    dcall_contract dstate dcall DInv dstall ->
    forall (f : frags) (w : world) (raw pay : list Z) (amt : nat -> N) (n fuel : nat),
      mstream member raw pay -> fbytes f = raw -> (forall j, 0 < amt j) ->
      (length pay < n)%nat -> (2 * length raw < fuel)%nat ->
      exists sizes, read_file world dstate dnew dcall n fuel f w amt = AOk pay sizes.
Proof. exact read_concat_members_proof. Qed.
Print Assumptions C15_read_concat_members_any_fragmentation.

(* Plain data (no magic number at its start; also shorter than kMagicSize,
   also empty) passes through unchanged for any fragmentation: this is the
   ReadFactory -> UncompressedWithHeader -> Uncompressed path. *)
Theorem C15_plain_passthrough :
  forall (world dstate : Type) (dnew : world -> kind -> dstate * world)
         (dcall : kind -> dstate -> Z -> list Z -> N -> cres dstate)
         (f : frags) (w : world) (raw : list Z) (amt : nat -> N) (n fuel : nat),
    fbytes f = raw -> detect_magic (takeN kMagicSize raw) = None -> (forall j, 0 < amt j) ->
    (length raw < n)%nat ->
    exists sizes, read_file world dstate dnew dcall n fuel f w amt = AOk raw sizes.
Proof. exact plain_passthrough_proof. Qed.
Print Assumptions C15_plain_passthrough.

(* A stream that begins with a magic number and ends inside a member (after
   any number of complete members) is an error for all three codecs: never an
   end-of-file (a shorter success), never fuel exhaustion (a hang); the bytes
   handed out before the error are a prefix of the real payload.
   For bzip2 this needs the stall test of BZipRead::Process (regenerated flag
   bz_read_stall_check; without it the model spins, see C15_bz_unfixed_hangs). *)
Theorem C15_truncated_is_error :
  forall (world dstate : Type) (dnew : world -> kind -> dstate * world)
         (dcall : kind -> dstate -> Z -> list Z -> N -> cres dstate)
         (member : kind -> list Z -> list Z -> Prop)
         (DInv : kind -> dstate -> list Z -> list Z -> Prop)
         (dstall : dstate -> nat) (stall_max : nat),
    (forall k m p, member k m p -> starts_with (magic_of k) m = true) ->
    (forall w k m p, member k m p -> DInv k (fst (dnew w k)) m p) ->
    dcall_contract dstate dcall DInv dstall ->
    (forall st, (dstall st <= stall_max)%nat) ->
    forall (f : frags) (w : world) (raw pay : list Z) (k0 : kind) (amt : nat -> N) (n fuel : nat),
      tstream member raw pay -> starts_with (magic_of k0) raw = true -> fbytes f = raw ->
      (forall j, 0 < amt j) ->
      (length pay < n)%nat -> ((stall_max + 1) * (2 * length raw) + stall_max < fuel)%nat ->
      exists e d z, read_file world dstate dnew dcall n fuel f w amt = AErr e d z /\
                    e <> EHang /\ exists rest, pay = d ++ rest.
Proof. exact truncated_is_error_proof. Qed.
Print Assumptions C15_truncated_is_error.

(* Any sequence of writes (any sizes, also 0) and flushes through the gzip or
   bzip2 writer, followed by its destruction, produces a NON-EMPTY sequence of
   complete members that expands to exactly the bytes written. *)
Theorem C15_write_then_decode :
  forall (world estate : Type) (enew : world -> kind -> estate * world)
         (ereset : kind -> estate -> estate)
         (ecall : kind -> estate -> Z -> list Z -> N -> cres estate)
         (member : kind -> list Z -> list Z -> Prop)
         (EInv : kind -> estate -> list Z -> list Z -> Prop) (epend : estate -> nat),
    (forall k m p, member k m p -> starts_with (magic_of k) m = true) ->
    (forall w k, EInv k (fst (enew w k)) [] []) ->
    (forall k st, EInv k (ereset k st) [] []) ->
    ecall_run_contract estate ecall EInv epend ->
    ecall_finish_contract estate ecall member EInv epend ->
    forall (k : kind) (w : world) (ops : list wop), k <> KXz ->
      exists f0 file,
        (forall fuel, (f0 <= fuel)%nat -> write_session world estate enew ereset ecall fuel k w ops = FileOk file) /\
        kstream member k file (write_plain ops) /\ file <> [].
Proof. exact write_then_decode_proof. Qed.
Print Assumptions C15_write_then_decode.

(* No data at all: the file is exactly one valid member with empty payload
   (dirty_ starts true; the codec is called with an empty, DEFINED input). *)
Theorem C15_flush_finishes_member :
  forall (world estate : Type) (enew : world -> kind -> estate * world)
         (ereset : kind -> estate -> estate)
         (ecall : kind -> estate -> Z -> list Z -> N -> cres estate)
         (member : kind -> list Z -> list Z -> Prop)
         (EInv : kind -> estate -> list Z -> list Z -> Prop) (epend : estate -> nat),
    (forall w k, EInv k (fst (enew w k)) [] []) ->
    ecall_finish_contract estate ecall member EInv epend ->
    forall (k : kind) (w : world), k <> KXz ->
      exists f0 m,
        (forall fuel, (f0 <= fuel)%nat -> write_session world estate enew ereset ecall fuel k w [] = FileOk m) /\
        member k m [].
Proof. exact flush_finishes_member_proof. Qed.
Print Assumptions C15_flush_finishes_member.

(* One-shot GZCompress of any record (ANY size: growing output string, and input
   beyond the 2^32-1 bytes zlib takes in one call is fed in pieces) yields one
   complete gzip member for exactly that record. *)
Theorem C15_gzcompress_roundtrip :
  forall (world estate : Type) (enew : world -> kind -> estate * world)
         (ecall : kind -> estate -> Z -> list Z -> N -> cres estate)
         (member : kind -> list Z -> list Z -> Prop)
         (EInv : kind -> estate -> list Z -> list Z -> Prop) (epend : estate -> nat),
    (forall w k, EInv k (fst (enew w k)) [] []) ->
    ecall_run_contract estate ecall EInv epend ->
    ecall_finish_contract estate ecall member EInv epend ->
    forall (w : world) (from : list Z),
      exists f0 out,
        (forall fuel, (f0 <= fuel)%nat -> gz_compress world estate enew ecall fuel w from = FileOk out) /\
        member KGz out from.
Proof. exact gzcompress_proof. Qed.
Print Assumptions C15_gzcompress_roundtrip.

(* what is written is a stream the reader theorem applies to *)
Theorem C15_written_files_are_member_streams :
  forall member k raw pay, kstream member k raw pay -> mstream member raw pay.
Proof. exact kstream_mstream. Qed.
Print Assumptions C15_written_files_are_member_streams.

(* DetectMagic recognises exactly the three magic numbers *)
Theorem C15_detect_magic_exact :
  forall h k, detect_magic h = Some k <-> starts_with (magic_of k) h = true.
Proof. intros h k. split; [apply detect_magic_sound|apply detect_magic_of]. Qed.
Print Assumptions C15_detect_magic_exact.

(* ---- non-vacuity.  The codec contract premises are satisfiable: Compress/ToyCodec.v
   defines a byte-at-a-time toy codec (magic, then [1; b] per payload byte, then [0]),
   proves dcall_contract, ecall_run_contract, ecall_finish_contract, the init/reset and
   magic premises for it, and instantiates the theorems above into closed statements. *)
Theorem C15_contract_satisfiable_write_read_roundtrip :
  forall k ops, k <> KXz ->
  exists f0 file,
    (forall fuel, (f0 <= fuel)%nat -> write_session unit tenc tenew tereset tecall fuel k tt ops = FileOk file) /\
    forall (f : frags) (amt : nat -> N) (n fuel : nat),
      fbytes f = file -> (forall j, 0 < amt j) ->
      (length (write_plain ops) < n)%nat -> (2 * length file < fuel)%nat ->
      exists sizes, read_file unit tdec tdnew tdcall n fuel f tt amt = AOk (write_plain ops) sizes.
Proof. exact toy_write_read_roundtrip. Qed.
Print Assumptions C15_contract_satisfiable_write_read_roundtrip.

Theorem C15_contract_satisfiable_truncated :
  forall k p (cut : nat) (f : frags) amt n fuel,
    let m := magic_of k ++ enc p ++ [0%Z] in
    (length (magic_of k) <= cut < length m)%nat ->
    fbytes f = firstn cut m -> (forall j, 0 < amt j) ->
    (length p < n)%nat -> (2 * cut < fuel)%nat ->
    exists e d z, read_file unit tdec tdnew tdcall n fuel f tt amt = AErr e d z /\ e <> EHang /\ exists rest, p = d ++ rest.
Proof. exact toy_truncated_is_error. Qed.
Print Assumptions C15_contract_satisfiable_truncated.

(* the driver model runs inside Coq: write "hi", flush, write "!", destroy; the file
   has two members; read back in 1-byte fragments with 1-byte requests; cut it: error *)
Example C15_nonvacuous_model_runs :
  let file := [31; 139; 1; 104; 1; 105; 0; 31; 139; 1; 33; 0]%Z in
  write_session unit tenc tenew tereset tecall 100 KGz tt [OpWrite [104; 105]%Z; OpFlush; OpWrite [33]%Z] = FileOk file /\
  write_session unit tenc tenew tereset tecall 100 KBz tt [] = FileOk [66; 90; 104; 0]%Z /\
  read_file unit tdec tdnew tdcall 10 100 (map (fun b => [b]) file) tt (fun _ => 1) = AOk [104; 105; 33]%Z [1; 1; 1; 0] /\
  read_file unit tdec tdnew tdcall 10 100 [firstn 9 file] tt (fun _ => 4096) = AErr EGz [104; 105]%Z [1; 1] /\
  read_file unit tdec tdnew tdcall 10 100 [[104; 105; 33]%Z] tt (fun _ => 2) = AOk [104; 105; 33]%Z [2; 1; 0] /\
  gz_compress unit tenc tenew tecall 100 tt [7; 8]%Z = FileOk [31; 139; 1; 7; 1; 8; 0]%Z.
Proof. vm_compute. repeat split. Qed.
