(* C15 -- compressed I/O.  Statements only; proofs in Compress/CompressProofs.v *)
From PP Require Import Compress.CompressDefs.
Local Open Scope N_scope.

Theorem C15_detect_magic_sound :
  forall h k, detect_magic h = Some k -> starts_with (magic_of k) h = true.
Proof.
  intros h k. unfold detect_magic.
  destruct (starts_with gz_magic h) eqn:E1; [intros H; inversion H; exact E1|].
  destruct (starts_with bz_magic h) eqn:E2; [intros H; inversion H; exact E2|].
  destruct (starts_with xz_magic h) eqn:E3; [intros H; inversion H; exact E3|discriminate].
Qed.
Print Assumptions C15_detect_magic_sound.
