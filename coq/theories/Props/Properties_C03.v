(* C03 -- partial reads/writes and EINTR never change what is transferred.  Statements only;
   models in Sys/SysIODefs.v (loops of util/file.cc, BufferedStream) and Reader/FilePieceDefs.v
   (loops over ReadCompressed::Read), proofs in Sys/SysIOProofs.v and Reader/FilePieceProofs.v.

   The OS is an oracle: [os_init src script] is a descriptor that will deliver the bytes [src] to
   reads and whose k-th read/write/pread call behaves as script[k] (Full | Short n | Eintr; Full
   for ever after the script); [no_err script] excludes hard errors (property C11).  Every
   result [Ok ..] also says: no exception, and the loop's fuel (an upper bound derived from the
   sizes and the script length) was enough -- i.e. termination, because every non-EINTR outcome
   transfers at least one byte and every EINTR uses up one script entry. *)
From PP Require Warc.WarcDefs Warc.WarcProofs.
From PP Require Import Reader.FilePieceDefs Reader.FilePieceProofs Sys.C03Proofs Sys.ToolShapesDefs Sys.ToolShapesProofs Sys.WarcShape.
Local Open Scope nat_scope.

(* WriteOrThrow: the bytes accepted by the OS, concatenated, are the data: once, in order *)
Theorem C03_write_or_throw_all :
  forall data src script, no_err script = true ->
  exists o', write_or_throw data (os_init src script) = (Ok tt, o') /\ os_sink o' = data.
Proof. exact C03_write_or_throw_all_proof. Qed.
Print Assumptions C03_write_or_throw_all.

(* ReadOrEOF returns exactly the first min(amount, |src|) source bytes and leaves the rest unread *)
Theorem C03_read_or_eof_all :
  forall amount src script, no_err script = true ->
  exists o', read_or_eof amount (os_init src script) = (Ok (firstn amount src), o') /\ os_src o' = skipn amount src.
Proof. exact C03_read_or_eof_all_proof. Qed.
Print Assumptions C03_read_or_eof_all.

(* ReadOrThrow returns exactly the next amount bytes when they exist *)
Theorem C03_read_or_throw_all :
  forall amount src script, no_err script = true -> amount <= length src ->
  exists o', read_or_throw amount (os_init src script) = (Ok (firstn amount src), o') /\ os_src o' = skipn amount src.
Proof. exact C03_read_or_throw_all_proof. Qed.
Print Assumptions C03_read_or_throw_all.

(* PartialRead never reports 0 bytes before the end of input (FilePiece takes 0 for EOF) *)
Theorem C03_partial_read_progress :
  forall amount src script, no_err script = true -> 1 <= amount ->
  exists l o', partial_read amount (os_init src script) = (Ok l, o') /\ src = l ++ os_src o' /\
    length l <= amount /\ (l = [] -> src = []).
Proof. exact C03_partial_read_progress_proof. Qed.
Print Assumptions C03_partial_read_progress.

(* ErsatzPRead returns exactly bytes [off, off+size) of the file *)
Theorem C03_ersatz_pread_all :
  forall size off file script, no_err script = true -> off + size <= length file ->
  exists o', ersatz_pread size off file (os_init [] script) = (Ok (firstn size (skipn off file)), o').
Proof. exact C03_ersatz_pread_all_proof. Qed.
Print Assumptions C03_ersatz_pread_all.

(* ErsatzPWrite leaves the file with the data at [off, off+|data|) (holes zero filled), the rest untouched *)
Theorem C03_ersatz_pwrite_all :
  forall data off file script, no_err script = true -> data <> [] ->
  exists o', ersatz_pwrite data off file (os_init [] script) = (Ok (overwrite file off data), o').
Proof. exact C03_ersatz_pwrite_all_proof. Qed.
Print Assumptions C03_ersatz_pwrite_all.

(* FileStream = BufferedStream<FileWriter>: whatever the sizes of the writes and the outcomes of
   the write() calls, after the destructor's flush the descriptor has received the
   concatenation of the writes *)
Theorem C03_buffered_stream_all :
  forall ws cap script, no_err script = true ->
  exists b' o', bs_run ws (mkBs [] cap) (os_init [] script) = (Ok b', o') /\ os_sink o' = concat ws.
Proof. exact C03_buffered_stream_all_proof. Qed.
Print Assumptions C03_buffered_stream_all.

(* ThreadedBufferedStream<FileWriter> (shard's output streams), data path: the blocks handed to the
   writer thread and written by it in order add up to the concatenation of the writes, for every
   block size >= 1 (the in-order, lossless hand-off between the two threads is property C16) *)
Theorem C03_threaded_buffered_stream_all :
  forall ws bsize script, 1 <= bsize -> no_err script = true ->
  exists o', tbs_run ws bsize (os_init [] script) = (Ok tt, o') /\ os_sink o' = concat ws.
Proof. exact C03_threaded_buffered_stream_all_proof. Qed.
Print Assumptions C03_threaded_buffered_stream_all.

(* ReadCompressed(fd).ReadOrEOF on uncompressed data *)
Theorem C03_read_compressed_plain_all :
  forall amount src script, no_err script = true -> detect_magic src = false ->
  exists o', rc_open_read_or_eof amount (os_init src script) = (Ok (firstn amount src), o').
Proof. exact C03_read_compressed_plain_all_proof. Qed.
Print Assumptions C03_read_compressed_plain_all.

(* the refill loop of the decompressing reader hands the codec the compressed file once, in order,
   in pieces of 1..bufsize bytes *)
Theorem C03_read_stream_refills_all :
  forall bufsize src script, 1 <= bufsize -> no_err script = true ->
  exists ls o', read_stream_refills (S (length src)) bufsize (os_init src script) = (Ok ls, o') /\
    concat ls = src /\ Forall (fun l => 1 <= length l <= bufsize) ls.
Proof. exact C03_read_stream_refills_all_proof. Qed.
Print Assumptions C03_read_stream_refills_all.

(* WARC body loop on a plain stream: exactly the missing bytes *)
Theorem C03_warc_body_all :
  forall missing src script, no_err script = true -> missing <= length src ->
  exists rc' o', warc_body missing RcFd (os_init src script) = (Ok (firstn missing src), rc', o') /\
    rc_pending rc' ++ os_src o' = skipn missing src.
Proof. exact C03_warc_body_all_proof. Qed.
Print Assumptions C03_warc_body_all.

(* reader_invariant: the records a tool sees do not depend on the outcome script at all
   (instance of C02's quantifier over all scripts) *)
Theorem C03_reader_independent_of_outcomes :
  forall cap src script1 script2 d cr,
  1 <= cap -> no_err script1 = true -> no_err script2 = true -> detect_magic src = false ->
  exists s1 s2 f1 f2,
    fp_open_read cap (os_init src script1) = Ok s1 /\ fp_open_read cap (os_init src script2) = Ok s2 /\
    read_all d cr s1 = (Ok (records d cr src), f1) /\ read_all d cr s2 = (Ok (records d cr src), f2).
Proof. exact C03_reader_independent_of_outcomes_proof. Qed.
Print Assumptions C03_reader_independent_of_outcomes.

(* a whole line-filter tool (remove_long_lines, and the shape of every FilePiece -> FileStream tool):
   read all records under one outcome script, write the kept ones followed by '\n' through a
   FileStream under another outcome script: the bytes on stdout do not depend on either script *)
Theorem C03_line_filter_tool_output :
  forall keep cap bcap src rscript wscript,
  1 <= cap -> no_err rscript = true -> no_err wscript = true -> detect_magic src = false ->
  line_filter_tool keep cap bcap src rscript wscript = Ok (unrecords 10%Z (filter keep (records 10%Z true src))).
Proof. exact C03_line_filter_tool_output_proof. Qed.
Print Assumptions C03_line_filter_tool_output.

(* ---------------------------------------------------------------------------------------------
   Tool level, the shapes of the executables' main functions (Sys/ToolShapesDefs.v, Sys/WarcShape.v).
   Every descriptor has its OWN outcome script.  The result type carries the exit status: [Ok x] = main
   returns, status 0, having produced x; [Fail e] = an exception escapes (non-zero status, C11).
   "Exit status unchanged" is the first conjunct of each *_status_invariant theorem: the run under
   arbitrary scripts IS the run under the all-Full scripts ([] = Full for ever).
   --------------------------------------------------------------------------------------------- *)

(* shape 1 (line filters), exit status and bytes *)
Theorem C03_line_filter_status_invariant :
  forall keep cap bcap src rscript wscript,
  1 <= cap -> no_err rscript = true -> no_err wscript = true -> detect_magic src = false ->
  line_filter_tool keep cap bcap src rscript wscript = line_filter_tool keep cap bcap src [] [] /\
  exit_status (line_filter_tool keep cap bcap src rscript wscript) = 0.
Proof. exact line_filter_status_invariant. Qed.
Print Assumptions C03_line_filter_status_invariant.

(* ... stdin a regular file (mmap windows) at any descriptor offset *)
Theorem C03_line_filter_file_status_invariant :
  forall keep page cap bcap file off rscript wscript,
  1 <= page -> page <= cap -> off <= length file -> no_err rscript = true -> no_err wscript = true ->
  detect_magic (skipn off file) = false ->
  line_filter_tool_file keep page cap bcap file off rscript wscript = line_filter_tool_file keep page cap bcap file off [] [] /\
  exit_status (line_filter_tool_file keep page cap bcap file off rscript wscript) = 0.
Proof. exact line_filter_file_status_invariant. Qed.
Print Assumptions C03_line_filter_file_status_invariant.

(* ... stdin a compressed stream: the decompressing reader delivers the plain bytes in ANY chunking
   (reader contract of C15); its refills from the descriptor are C03_read_stream_refills_all *)
Theorem C03_line_filter_stream_status_invariant :
  forall keep cap bcap plain chunking wscript,
  1 <= cap -> no_err chunking = true -> no_err wscript = true ->
  line_filter_tool_stream keep cap bcap plain chunking wscript = line_filter_tool_stream keep cap bcap plain [] [] /\
  exit_status (line_filter_tool_stream keep cap bcap plain chunking wscript) = 0.
Proof. exact line_filter_stream_status_invariant. Qed.
Print Assumptions C03_line_filter_stream_status_invariant.

(* per-line map instead of a predicate *)
Theorem C03_line_map_tool_output :
  forall f cap bcap src rscript wscript,
  1 <= cap -> no_err rscript = true -> no_err wscript = true -> detect_magic src = false ->
  line_map_tool f cap bcap src rscript wscript = Ok (unrecords 10%Z (map f (records 10%Z true src))).
Proof. exact line_map_tool_output. Qed.
Print Assumptions C03_line_map_tool_output.

(* shape 2, the wrappers (cache, foldfilter, b64filter, ...): feeder FilePiece(0) -> g -> FileStream on the
   child's stdin; child = any function of the bytes delivered; collector FilePiece on the child's stdout -> h ->
   FileStream(1); FOUR independent scripts (stdin, pipe to the child, pipe from the child, stdout).
   The child receives exactly the bytes the feeder wrote, the answers are the records of what the child
   wrote, stdout is what the collector wrote. *)
Theorem C03_wrapper_tool_output :
  forall g child h cr2 cap bcap src r1 w1 r2 w2,
  1 <= cap -> no_err r1 = true -> no_err w1 = true -> no_err r2 = true -> no_err w2 = true ->
  detect_magic src = false ->
  detect_magic (child (concat (g (records 10%Z true src)))) = false ->
  wrapper_tool g child h cr2 cap bcap src r1 w1 r2 w2 =
  let recs := records 10%Z true src in
  let delivered := concat (g recs) in
  Ok (delivered, concat (h recs (records 10%Z cr2 (child delivered)))).
Proof. exact wrapper_tool_output. Qed.
Print Assumptions C03_wrapper_tool_output.

Theorem C03_wrapper_status_invariant :
  forall g child h cr2 cap bcap src r1 w1 r2 w2,
  1 <= cap -> no_err r1 = true -> no_err w1 = true -> no_err r2 = true -> no_err w2 = true ->
  detect_magic src = false -> detect_magic (child (concat (g (records 10%Z true src)))) = false ->
  wrapper_tool g child h cr2 cap bcap src r1 w1 r2 w2 = wrapper_tool g child h cr2 cap bcap src [] [] [] [] /\
  exit_status (wrapper_tool g child h cr2 cap bcap src r1 w1 r2 w2) = 0.
Proof. exact wrapper_status_invariant. Qed.
Print Assumptions C03_wrapper_status_invariant.

(* shape 3, shard: FilePiece(0) -> route -> n outputs, each a ThreadedBufferedStream over a writer with its own
   script.  [wr] = the writer layer (identity for plain files; a compressor for -c gzip/bzip2) with the writer
   contract of C15: decoding what it emits gives back what it was given. *)
Theorem C03_shard_tool_output :
  forall route n wr dec bsize cap src rscript wscripts,
  1 <= cap -> 1 <= bsize -> no_err rscript = true -> Forall (fun sc => no_err sc = true) wscripts ->
  detect_magic src = false -> (forall bl, dec (concat (wr bl)) = concat bl) ->
  exists sinks, shard_tool route n wr bsize cap src rscript wscripts = Ok sinks /\
    map dec sinks = map (fun i => unrecords 10%Z (shard_lines route n i (records 10%Z true src))) (seq 0 n).
Proof. exact shard_tool_output. Qed.
Print Assumptions C03_shard_tool_output.

Theorem C03_shard_status_invariant :
  forall route n bsize cap src rscript wscripts,
  1 <= cap -> 1 <= bsize -> no_err rscript = true -> Forall (fun sc => no_err sc = true) wscripts ->
  detect_magic src = false ->
  shard_tool route n (fun bl => bl) bsize cap src rscript wscripts = shard_tool route n (fun bl => bl) bsize cap src [] [] /\
  exit_status (shard_tool route n (fun bl => bl) bsize cap src rscript wscripts) = 0.
Proof. exact shard_status_invariant. Qed.
Print Assumptions C03_shard_status_invariant.

(* shape 4, WARC input (warc_parallel's reader side): C17's record reader instantiated with ReadCompressed::Read
   over the scripted OS: all well-formed record sequences, all scripts: exactly the records, clean end
   (AllOk = status part of C17's result type); hence the same as under the all-Full script *)
Theorem C03_warc_input_tool_records :
  forall recs n fuel script,
  no_err script = true -> Forall WarcProofs.wf_record recs -> detect_magic (concat recs) = false ->
  length recs < n -> length (concat recs) + 1 < fuel ->
  warc_input_tool n fuel (concat recs) script = WarcDefs.AllOk recs.
Proof. exact warc_input_tool_records. Qed.
Print Assumptions C03_warc_input_tool_records.

Theorem C03_warc_input_status_invariant :
  forall recs n fuel script,
  no_err script = true -> Forall WarcProofs.wf_record recs -> detect_magic (concat recs) = false ->
  length recs < n -> length (concat recs) + 1 < fuel ->
  warc_input_tool n fuel (concat recs) script = warc_input_tool n fuel (concat recs) [].
Proof. exact warc_input_status_invariant. Qed.
Print Assumptions C03_warc_input_status_invariant.

(* non-vacuity of the wrapper and shard shapes: an upper-casing child, a 3-byte reader window, tiny buffers *)
Example C03_nonvacuous_wrapper :
  let up := map (fun b => if ((97 <=? b) && (b <=? 122))%Z then (b - 32)%Z else b) in
  wrapper_tool (flat_map (fun r => [r; [10%Z]])) up (fun recs ans => flat_map (fun a => [a; [10%Z]]) ans) true 3 4
    [97; 98; 10; 99; 13; 10; 100]%Z [Short 1; Eintr] [Short 2; Eintr; Short 1] [Eintr; Short 1; Short 1] [Short 3]
  = Ok ([97; 98; 10; 99; 10; 100; 10]%Z, [65; 66; 10; 67; 10; 68; 10]%Z).
Proof. vm_compute. reflexivity. Qed.

Example C03_nonvacuous_shard :
  shard_tool (fun r => length r) 2 (fun bl => bl) 3 2 [97; 10; 98; 98; 10; 99; 10; 100; 100; 100; 100; 10]%Z
    [Short 1; Eintr] [[Short 1; Eintr; Short 2]; [Eintr; Short 1]]
  = Ok [[98; 98; 10; 100; 100; 100; 100; 10]%Z; [97; 10; 99; 10]%Z].
Proof. vm_compute. reflexivity. Qed.

(* non-vacuity: a concrete outcome sequence with short transfers and interruptions *)
Example C03_nonvacuous_write :
  no_err [Short 1; Eintr; Eintr; Short 3; Full] = true /\
  (let (r, o) := write_or_throw [1; 2; 3; 4; 5; 6; 7; 8]%Z (os_init [] [Short 1; Eintr; Eintr; Short 3; Full]) in
   r = Ok tt /\ os_sink o = [1; 2; 3; 4; 5; 6; 7; 8]%Z /\
   rev (os_trace o) = [(8, 1%Z); (7, (-1)%Z); (7, (-1)%Z); (7, 3%Z); (4, 4%Z)]).
Proof. vm_compute. repeat split. Qed.

Example C03_nonvacuous_filter :
  line_filter_tool (fun l => length l <=? 2) 2 4 [97; 98; 99; 10; 100; 13; 10; 101]%Z [Short 1; Eintr; Short 2] [Short 1; Eintr]
  = Ok [100; 10; 101; 10]%Z.
Proof. vm_compute. reflexivity. Qed.
