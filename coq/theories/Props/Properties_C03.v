(* C03 -- partial reads/writes and EINTR never change what is transferred.  Statements only;
   models in Sys/SysIODefs.v (loops of util/file.cc, BufferedStream) and Reader/FilePieceDefs.v
   (loops over ReadCompressed::Read), proofs in Sys/SysIOProofs.v and Reader/FilePieceProofs.v.

   The OS is an oracle: [os_init src script] is a descriptor that will deliver the bytes [src] to
   reads and whose k-th read/write/pread call behaves as script[k] (Full | Short n | Eintr; Full
   for ever after the script); [no_err script] excludes hard errors (property C11).  Every
   result [Ok ..] also says: no exception, and the loop's fuel (an upper bound derived from the
   sizes and the script length) was enough -- i.e. termination, because every non-EINTR outcome
   transfers at least one byte and every EINTR uses up one script entry. *)
From PP Require Import Reader.FilePieceDefs Reader.FilePieceProofs Sys.C03Proofs.
Local Open Scope nat_scope.

(* WriteOrThrow: the bytes accepted by the OS, concatenated, are the data: once, in order *)
Theorem C03_write_or_throw_all :
  forall data src script, no_err script = true ->
  exists o', write_or_throw data (os_init src script) = (Ok tt, o') /\ os_sink o' = data.
Proof. exact C03_write_or_throw_all_proof. Qed.
Print Assumptions C03_write_or_throw_all.

(* ReadOrEOF returns exactly the first min(amount, |src|) source bytes and leaves the rest unread *)
Theorem C03_read_or_eof_all :
  forall amount src script, no_err script = true ->
  exists o', read_or_eof amount (os_init src script) = (Ok (firstn amount src), o') /\ os_src o' = skipn amount src.
Proof. exact C03_read_or_eof_all_proof. Qed.
Print Assumptions C03_read_or_eof_all.

(* ReadOrThrow returns exactly the next amount bytes when they exist *)
Theorem C03_read_or_throw_all :
  forall amount src script, no_err script = true -> amount <= length src ->
  exists o', read_or_throw amount (os_init src script) = (Ok (firstn amount src), o') /\ os_src o' = skipn amount src.
Proof. exact C03_read_or_throw_all_proof. Qed.
Print Assumptions C03_read_or_throw_all.

(* PartialRead never reports 0 bytes before the end of input (FilePiece takes 0 for EOF) *)
Theorem C03_partial_read_progress :
  forall amount src script, no_err script = true -> 1 <= amount ->
  exists l o', partial_read amount (os_init src script) = (Ok l, o') /\ src = l ++ os_src o' /\
    length l <= amount /\ (l = [] -> src = []).
Proof. exact C03_partial_read_progress_proof. Qed.
Print Assumptions C03_partial_read_progress.

(* ErsatzPRead returns exactly bytes [off, off+size) of the file *)
Theorem C03_ersatz_pread_all :
  forall size off file script, no_err script = true -> off + size <= length file ->
  exists o', ersatz_pread size off file (os_init [] script) = (Ok (firstn size (skipn off file)), o').
Proof. exact C03_ersatz_pread_all_proof. Qed.
Print Assumptions C03_ersatz_pread_all.

(* ErsatzPWrite leaves the file with the data at [off, off+|data|) (holes zero filled), the rest untouched *)
Theorem C03_ersatz_pwrite_all :
  forall data off file script, no_err script = true -> data <> [] ->
  exists o', ersatz_pwrite data off file (os_init [] script) = (Ok (overwrite file off data), o').
Proof. exact C03_ersatz_pwrite_all_proof. Qed.
Print Assumptions C03_ersatz_pwrite_all.

(* FileStream = BufferedStream<FileWriter>: whatever the sizes of the writes and the outcomes of
   the write() calls, after the destructor's flush the descriptor has received the
   concatenation of the writes *)
Theorem C03_buffered_stream_all :
  forall ws cap script, no_err script = true ->
  exists b' o', bs_run ws (mkBs [] cap) (os_init [] script) = (Ok b', o') /\ os_sink o' = concat ws.
Proof. exact C03_buffered_stream_all_proof. Qed.
Print Assumptions C03_buffered_stream_all.

(* ThreadedBufferedStream<FileWriter> (shard's output streams), data path: the blocks handed to the
   writer thread and written by it in order add up to the concatenation of the writes, for every
   block size >= 1 (the in-order, lossless hand-off between the two threads is property C16) *)
Theorem C03_threaded_buffered_stream_all :
  forall ws bsize script, 1 <= bsize -> no_err script = true ->
  exists o', tbs_run ws bsize (os_init [] script) = (Ok tt, o') /\ os_sink o' = concat ws.
Proof. exact C03_threaded_buffered_stream_all_proof. Qed.
Print Assumptions C03_threaded_buffered_stream_all.

(* ReadCompressed(fd).ReadOrEOF on uncompressed data *)
Theorem C03_read_compressed_plain_all :
  forall amount src script, no_err script = true -> detect_magic src = false ->
  exists o', rc_open_read_or_eof amount (os_init src script) = (Ok (firstn amount src), o').
Proof. exact C03_read_compressed_plain_all_proof. Qed.
Print Assumptions C03_read_compressed_plain_all.

(* the refill loop of the decompressing reader hands the codec the compressed file once, in order,
   in pieces of 1..bufsize bytes *)
Theorem C03_read_stream_refills_all :
  forall bufsize src script, 1 <= bufsize -> no_err script = true ->
  exists ls o', read_stream_refills (S (length src)) bufsize (os_init src script) = (Ok ls, o') /\
    concat ls = src /\ Forall (fun l => 1 <= length l <= bufsize) ls.
Proof. exact C03_read_stream_refills_all_proof. Qed.
Print Assumptions C03_read_stream_refills_all.

(* WARC body loop on a plain stream: exactly the missing bytes *)
Theorem C03_warc_body_all :
  forall missing src script, no_err script = true -> missing <= length src ->
  exists rc' o', warc_body missing RcFd (os_init src script) = (Ok (firstn missing src), rc', o') /\
    rc_pending rc' ++ os_src o' = skipn missing src.
Proof. exact C03_warc_body_all_proof. Qed.
Print Assumptions C03_warc_body_all.

(* reader_invariant: the records a tool sees do not depend on the outcome script at all
   (instance of C02's quantifier over all scripts) *)
Theorem C03_reader_independent_of_outcomes :
  forall cap src script1 script2 d cr,
  1 <= cap -> no_err script1 = true -> no_err script2 = true -> detect_magic src = false ->
  exists s1 s2 f1 f2,
    fp_open_read cap (os_init src script1) = Ok s1 /\ fp_open_read cap (os_init src script2) = Ok s2 /\
    read_all d cr s1 = (Ok (records d cr src), f1) /\ read_all d cr s2 = (Ok (records d cr src), f2).
Proof. exact C03_reader_independent_of_outcomes_proof. Qed.
Print Assumptions C03_reader_independent_of_outcomes.

(* a whole line-filter tool (remove_long_lines, and the shape of every FilePiece -> FileStream tool):
   read all records under one outcome script, write the kept ones followed by '\n' through a
   FileStream under another outcome script: the bytes on stdout do not depend on either script *)
Theorem C03_line_filter_tool_output :
  forall keep cap bcap src rscript wscript,
  1 <= cap -> no_err rscript = true -> no_err wscript = true -> detect_magic src = false ->
  line_filter_tool keep cap bcap src rscript wscript = Ok (unrecords 10%Z (filter keep (records 10%Z true src))).
Proof. exact C03_line_filter_tool_output_proof. Qed.
Print Assumptions C03_line_filter_tool_output.

(* non-vacuity: a concrete outcome sequence with short transfers and interruptions *)
Example C03_nonvacuous_write :
  no_err [Short 1; Eintr; Eintr; Short 3; Full] = true /\
  (let (r, o) := write_or_throw [1; 2; 3; 4; 5; 6; 7; 8]%Z (os_init [] [Short 1; Eintr; Eintr; Short 3; Full]) in
   r = Ok tt /\ os_sink o = [1; 2; 3; 4; 5; 6; 7; 8]%Z /\
   rev (os_trace o) = [(8, 1%Z); (7, (-1)%Z); (7, (-1)%Z); (7, 3%Z); (4, 4%Z)]).
Proof. vm_compute. repeat split. Qed.

Example C03_nonvacuous_filter :
  line_filter_tool (fun l => length l <=? 2) 2 4 [97; 98; 99; 10; 100; 13; 10; 101]%Z [Short 1; Eintr; Short 2] [Short 1; Eintr]
  = Ok [100; 10; 101; 10]%Z.
Proof. vm_compute. reflexivity. Qed.
