(* C18 -- line filters keep or drop each line by its own content only.  Statements only; proofs in
   Tools/FiltersProofs.v.  A line is a record of the input ([lines_of] = Base/Lines.v records 10 true, the
   CR-normalised lines FilePiece hands out); every tool writes `line << '\n'` ([bytes_of]).
   The models are run against the six real binaries by checks/C18.py.
   [key : line -> N] (64-bit MurmurHash of a line) is universally quantified; ICU's character classes and
   the three single-precision threshold tests of simple_cleaning are universally quantified parameters. *)
From Coq Require Import List ZArith NArith.
From PP Require Import Base.Lines Gen.Src_filters Probing.ProbingDefs Tools.DedupeDefs Tools.DedupeProofs
  Tools.FiltersDefs Tools.FiltersProofs B64.Base64Defs Hash.MurmurDefs.
Import ListNotations.
Local Open Scope Z_scope.

(* ---- exact threshold of remove_long_lines: kept iff size <= LIMIT (size after CR stripping) ---- *)
Theorem C18_long_limit_exact :
  forall limit l, long_keep limit l = true <-> (N.of_nat (length l) <= limit)%N.
Proof. exact long_keep_exact. Qed.
Print Assumptions C18_long_limit_exact.

Theorem C18_long_limit_boundary :
  forall (limit : nat) (l l' : line), length l = limit -> length l' = S limit ->
  remove_long_lines (N.of_nat limit) [l; l'] = [l].
Proof.
  intros limit l l' H H'. unfold remove_long_lines, long_keep. simpl. rewrite H, H'.
  rewrite N.leb_refl. destruct (N.leb_spec (N.of_nat (S limit)) (N.of_nat limit)); [lia|reflexivity].
Qed.
Print Assumptions C18_long_limit_boundary.

(* ---- the three stateless tools are modelled as the LOOPS they are ([*_loop], FiltersDefs.v): a fold over the
   lines whose state holds everything that lives across iterations in the C++ -- the line variable (declared
   outside the loop and overwritten by every read), FilterParallel's counters, the output stream, and the pass
   object.  For simple_cleaning the object carries counts[], punct, spaces, previous, previous_run from call to
   call (field to field, line to line) UNLESS the source declares and initialises them inside operator(), which
   the translator regenerates as four flags.  Proved: whatever the carried state is, the decision on a line is a
   function of that line alone, so each loop writes exactly `filter p` of its input.  A variable hoisted into
   the object flips a flag, the model then really carries it, and C18_decision_ignores_carried_state breaks. *)
Theorem C18_decision_ignores_carried_state :
  forall script_of is_punct is_uspace sc si too_common little_punct script_low o ranges d (carried carried' : sc_state) (l : line),
  fst (individual_fields_obj script_of is_punct is_uspace sc si too_common little_punct script_low o ranges 0 d l carried) =
  fst (individual_fields_obj script_of is_punct is_uspace sc si too_common little_punct script_low o ranges 0 d l carried').
Proof. intros. now rewrite !individual_fields_obj_fst. Qed.
Print Assumptions C18_decision_ignores_carried_state.

Theorem C18_loops_are_per_line_filters :
  forall recs : list line,
  (forall limit, remove_long_lines_loop limit recs = filter (long_keep limit) recs) /\
  remove_invalid_utf8_loop recs = filter wf_utf8 recs /\
  (forall script_of is_punct is_uspace sc si too_common little_punct script_low o ranges d,
     simple_cleaning_loop script_of is_punct is_uspace sc si too_common little_punct script_low o ranges d recs =
     filter (sc_line_keep script_of is_punct is_uspace sc si too_common little_punct script_low o ranges d) recs).
Proof.
  intros recs. split; [intros; apply remove_long_lines_loop_spec|]. split; [apply remove_invalid_utf8_loop_spec|].
  intros. apply simple_cleaning_loop_spec.
Qed.
Print Assumptions C18_loops_are_per_line_filters.

(* FilterParallel's counters: lines read / lines kept, as reported on stderr *)
Theorem C18_loop_counters :
  forall (S : Type) (pass : S -> line -> bool * S) (p : line -> bool), (forall s l, fst (pass s l) = p l) ->
  forall obj0 recs,
  l_input (run_loop S pass obj0 recs) = N.of_nat (length recs) /\
  l_output (run_loop S pass obj0 recs) = N.of_nat (length (l_out (run_loop S pass obj0 recs))).
Proof.
  intros S pass p H obj0 recs. destruct (loop_is_filter S pass p H obj0 recs) as (A & B & C). rewrite A, B, C. auto.
Qed.
Print Assumptions C18_loop_counters.

(* ---- hence: the loops emit a subsequence of the input lines, unchanged and in order ---- *)
Theorem C18_stateless_subsequence :
  forall ls,
  (forall limit, Subseq (remove_long_lines_loop limit ls) ls) /\
  Subseq (remove_invalid_utf8_loop ls) ls /\
  (forall script_of is_punct is_uspace sc si too_common little_punct script_low o ranges d,
     Subseq (simple_cleaning_loop script_of is_punct is_uspace sc si too_common little_punct script_low o ranges d ls) ls).
Proof.
  intros ls. split; [intros; rewrite remove_long_lines_loop_spec; apply filter_subseq|].
  split; [rewrite remove_invalid_utf8_loop_spec; apply filter_subseq|]. intros. rewrite simple_cleaning_loop_spec. apply filter_subseq.
Qed.
Print Assumptions C18_stateless_subsequence.

(* ---- context independence: running the loop on A ++ B writes what it writes on A followed by what it writes
   on B (a fresh process, fresh object) -- for the loops, not for `filter` ---- *)
Theorem C18_append_hom :
  forall a b : list line,
  (forall limit, remove_long_lines_loop limit (a ++ b) = remove_long_lines_loop limit a ++ remove_long_lines_loop limit b) /\
  remove_invalid_utf8_loop (a ++ b) = remove_invalid_utf8_loop a ++ remove_invalid_utf8_loop b /\
  (forall script_of is_punct is_uspace sc si too_common little_punct script_low o ranges d,
     simple_cleaning_loop script_of is_punct is_uspace sc si too_common little_punct script_low o ranges d (a ++ b) =
     simple_cleaning_loop script_of is_punct is_uspace sc si too_common little_punct script_low o ranges d a ++
     simple_cleaning_loop script_of is_punct is_uspace sc si too_common little_punct script_low o ranges d b) /\
  remove_invalid_utf8_base64 (a ++ b) =
    match remove_invalid_utf8_base64 a, remove_invalid_utf8_base64 b with
    | Some x, Some y => Some (x ++ y)
    | _, _ => None
    end.
Proof.
  intros a b. split; [intros; rewrite !remove_long_lines_loop_spec; apply filter_app|].
  split; [rewrite !remove_invalid_utf8_loop_spec; apply filter_app|].
  split; [intros; rewrite !simple_cleaning_loop_spec; apply filter_app|]. apply b64_app.
Qed.
Print Assumptions C18_append_hom.

(* ... and on bytes: cutting the input stream after any newline cuts the output stream (never a
   dependence on buffer position or neighbouring lines), for every per-line filter F *)
Theorem C18_split_at_line_boundary :
  forall (F : list line -> list line) (strip_cr : bool), (forall a b, F (a ++ b) = F a ++ F b) ->
  forall A B : list Z,
  bytes_of (F (records newline strip_cr (A ++ newline :: B))) =
  bytes_of (F (records newline strip_cr (A ++ [newline]))) ++ bytes_of (F (records newline strip_cr B)).
Proof. exact stateless_tool_split. Qed.
Print Assumptions C18_split_at_line_boundary.

(* ---- remove_invalid_utf8_base64 decides line by line ---- *)
Theorem C18_b64_linewise :
  forall ls out, remove_invalid_utf8_base64 ls = Some out ->
  length out = length ls /\
  forall i, nth_error out i = match nth_error ls i with Some l => b64_line l | None => None end.
Proof. exact b64_linewise. Qed.
Print Assumptions C18_b64_linewise.

(* open finding F-C18-b64-replaces-not-removes: the literal "subsequence" claim fails for this tool *)
Definition C18_b64_subsequence_statement : Prop :=
  forall ls out, remove_invalid_utf8_base64 ls = Some out -> Subseq out ls.

Lemma subseq_length {A} (s l : list A) : Subseq s l -> (length s <= length l)%nat.
Proof. induction 1; simpl; lia. Qed.
Lemma subseq_same_length {A} (s l : list A) : Subseq s l -> length s = length l -> s = l.
Proof.
  induction 1; simpl; intros E; auto.
  - apply subseq_length in H. lia.
  - f_equal. apply IHSubseq. lia.
Qed.

(* "/w==" is the base64 of the single byte 0xFF: not UTF-8, so the line is replaced by an empty line *)
Theorem C18_b64_subsequence_refuted :
  exists ls out, remove_invalid_utf8_base64 ls = Some out /\ ~ Subseq out ls.
Proof.
  exists [[47; 119; 61; 61]], [[]]. split; [vm_compute; reflexivity|].
  intros H. apply subseq_same_length in H; [discriminate|reflexivity].
Qed.
Print Assumptions C18_b64_subsequence_refuted.

(* what holds instead: line for line, the output line is the input line or empty *)
Theorem C18_b64_subsequence_partial :
  forall ls out, remove_invalid_utf8_base64 ls = Some out ->
  length out = length ls /\ forall i o, nth_error out i = Some o -> o = [] \/ nth_error ls i = Some o.
Proof.
  intros ls out H. destruct (b64_linewise ls out H) as [Hl Hn]. split; auto.
  intros i o Ho. rewrite Hn in Ho. destruct (nth_error ls i) as [l|]; [|discriminate].
  unfold b64_line in Ho. destruct (base64_decode l); try discriminate. injection Ho as <-.
  destruct (wf_utf8 bs); auto.
Qed.
Print Assumptions C18_b64_subsequence_partial.

(* ---- subtract_lines: set subtraction through the real seen-set, for every key function ---- *)
Theorem C18_subtract_spec :
  forall (key : line -> N) (sub ls : list line), subtract_lines key sub ls = Ok (subtract_spec key sub ls).
Proof. exact subtract_lines_spec. Qed.
Print Assumptions C18_subtract_spec.

(* removes every copy of every subtrahend key and nothing else; order and bytes unchanged *)
Theorem C18_subtract_all_copies :
  forall (key : line -> N) (sub ls : list line),
  Subseq (subtract_spec key sub ls) ls /\
  forall l, In l (subtract_spec key sub ls) <-> In l ls /\ ~ In (key l) (map key sub).
Proof. intros. split; [apply filter_subseq|]. intros. apply subtract_spec_in. Qed.
Print Assumptions C18_subtract_all_copies.

(* with no 64-bit collision between the two files, "key in the subtrahend" is "line in the subtrahend" *)
Theorem C18_subtract_content :
  forall (key : line -> N) (sub ls : list line),
  (forall x y, In x (sub ++ ls) -> In y (sub ++ ls) -> key x = key y -> x = y) ->
  forall l, In l (subtract_spec key sub ls) <-> In l ls /\ ~ In l sub.
Proof.
  intros key sub ls Hinj l. rewrite subtract_spec_in. split; intros [H1 H2]; split; auto.
  - intros Hin. apply H2. now apply in_map.
  - intros Hin. apply in_map_iff in Hin. destruct Hin as (x & K & Hx). apply H2.
    replace l with x; auto. apply Hinj; auto; apply in_or_app; auto.
Qed.
Print Assumptions C18_subtract_content.

(* ---- commoncrawl_dedupe ---- *)
Theorem C18_commoncrawl_spec :
  forall (key : line -> N) (rem ls : list line), commoncrawl_dedupe key rem ls = Ok (cc_spec key rem ls).
Proof. exact commoncrawl_dedupe_spec. Qed.
Print Assumptions C18_commoncrawl_spec.

(* its output is a subsequence of the NORMALISED (space-stripped) input lines, all valid UTF-8, none a delimiter line *)
Theorem C18_commoncrawl_properties :
  forall (key : line -> N) (rem ls : list line),
  Subseq (cc_spec key rem ls) (map strip_spaces ls) /\
  forall l, In l (cc_spec key rem ls) -> wf_utf8 l = true /\ starts_with l cc_magic = false /\ ~ In (key l) (map key (map strip_spaces rem)).
Proof.
  intros key rem ls. unfold cc_spec. split.
  - eapply Subseq_trans; [apply filter_subseq|]. eapply Subseq_trans; [apply first_occ_from_subseq|apply filter_subseq].
  - intros l Hin. apply filter_In in Hin. destruct Hin as [Hin W]. split; auto.
    pose proof (first_occ_from_fresh line key _ _ _ Hin) as Hf.
    eapply Subseq_In in Hin; [|apply first_occ_from_subseq]. apply filter_In in Hin. destruct Hin as [_ M].
    split; [now apply Bool.negb_true_iff in M|exact Hf].
Qed.
Print Assumptions C18_commoncrawl_properties.

(* ---- the two set-based tools with the MurmurHash64A model (C14) as key: complete tools on bytes ---- *)
Theorem C18_set_tools_complete :
  forall (sub rem input : list Z),
  let ks := fun l => Z.to_N (subtract_insert_key l) in
  let kc := fun l => Z.to_N (commoncrawl_dedupe_key l) in
  bind (subtract_lines ks (lines_of sub) (lines_of input)) (fun out => Ok (bytes_of out)) =
    Ok (bytes_of (subtract_spec ks (lines_of sub) (lines_of input))) /\
  bind (commoncrawl_dedupe kc (lines_of rem) (lines_of input)) (fun out => Ok (bytes_of out)) =
    Ok (bytes_of (cc_spec kc (lines_of rem) (lines_of input))).
Proof. intros. split; [rewrite subtract_lines_spec|rewrite commoncrawl_dedupe_spec]; reflexivity. Qed.
Print Assumptions C18_set_tools_complete.

(* ---- simple_cleaning never passes ill-formed UTF-8 or C0 controls other than TAB and CR ----
   per field (SimpleCleaningFilter::operator()), for every ICU classification and every option value: *)
(* (the C++ casts line.size() to int32_t: the model is the code only for fields below 2^31 bytes -- explicit premise) *)
Theorem C18_simple_cleaning_field_safe :
  forall script_of is_punct is_uspace sc si too_common little_punct script_low o (f : line),
  Z.of_nat (length f) < 2 ^ 31 ->
  sc_filter script_of is_punct is_uspace sc si too_common little_punct script_low o f = true ->
  wf_utf8 f = true /\ safe_bytes f = true.
Proof. intros until f. intros _. apply sc_filter_safe. Qed.
Print Assumptions C18_simple_cleaning_field_safe.

(* exact threshold --min-chars: the quantity compared is the number of code points of the field, so a field
   with fewer than --min-chars code points is dropped (the check tests the other direction, exactly
   min-chars kept, on the real binary where no other rule fires) *)
Theorem C18_simple_cleaning_min_chars :
  forall script_of is_punct is_uspace sc si too_common little_punct script_low o (f : line),
  sc_filter script_of is_punct is_uspace sc si too_common little_punct script_low o f = true ->
  exists cps, codepoints f = Some cps /\ (sc_min_chars o <= N.of_nat (length cps))%N.
Proof. exact sc_filter_min_chars. Qed.
Print Assumptions C18_simple_cleaning_min_chars.

(* exact threshold --character-run R (R >= 2): a kept field contains no R equal consecutive code points
   other than space characters (the check tests R-1 / R / R+1 on the real binary) *)
Theorem C18_simple_cleaning_character_run :
  forall script_of is_punct is_uspace sc si too_common little_punct script_low o (f : line) cps,
  (2 <= sc_character_run o)%N ->
  sc_filter script_of is_punct is_uspace sc si too_common little_punct script_low o f = true ->
  codepoints f = Some cps ->
  forall pre c post, cps = pre ++ repeat c (N.to_nat (sc_character_run o)) ++ post -> is_uspace c = true.
Proof. exact sc_filter_no_long_run. Qed.
Print Assumptions C18_simple_cleaning_character_run.

(* per line, with the default key (-f 1-: every field is examined) and a delimiter that is itself an
   allowed ASCII byte (the default TAB is): every byte of a kept line is >= 32, TAB or CR, and the line
   is well-formed UTF-8.  (With -f restricting the fields, unselected fields are not examined: forced hypothesis.) *)
Theorem C18_simple_cleaning_safe :
  forall script_of is_punct is_uspace sc si too_common little_punct script_low o d (l : line),
  Z.of_nat (length l) < 2 ^ 31 ->
  0 <= d < 128 -> safe_byte d = true ->
  sc_line_keep script_of is_punct is_uspace sc si too_common little_punct script_low o [(0%nat, None)] d l = true ->
  wf_utf8 l = true /\ safe_bytes l = true.
Proof. intros until l. intros _. apply sc_line_keep_safe. Qed.
Print Assumptions C18_simple_cleaning_safe.

(* ---- non-vacuity ---- *)
Example C18_nonvacuous_long :
  remove_long_lines 3 [[97; 98]; [97; 98; 99]; [97; 98; 99; 100]; []] = [[97; 98]; [97; 98; 99]; []].
Proof. reflexivity. Qed.

Example C18_nonvacuous_utf8 :
  remove_invalid_utf8 [[195; 169]; [195]; [237; 160; 128]; [240; 159; 152; 128]; [192; 175]; [104; 105]]
  = [[195; 169]; [240; 159; 152; 128]; [104; 105]].
Proof. vm_compute. reflexivity. Qed.

Example C18_nonvacuous_subtract :
  subtract_lines (fun l => N.of_nat (length l) + 1)%N [[1]; [1; 1; 1]] [[5]; [5; 5]; [7]; [5; 5; 5]; [6; 6]; []]
  = Ok [[5; 5]; [6; 6]; []].
Proof. vm_compute. reflexivity. Qed.

(* a key function hitting the reserved key 0: the line of length 0 has key 0 and is subtracted only when listed *)
Example C18_nonvacuous_reserved_key :
  subtract_lines (fun l => N.of_nat (length l)) [[1]] [[]; [2]; []] = Ok [[]; []] /\
  subtract_lines (fun l => N.of_nat (length l)) [[]] [[]; [2]; []] = Ok [[2]] /\
  commoncrawl_dedupe (fun l => N.of_nat (length l)) [] [[]; [104]; []; [105]] = Ok [[]; [104]].
Proof. repeat split; vm_compute; reflexivity. Qed.

Example C18_nonvacuous_commoncrawl :
  commoncrawl_dedupe (fun l => fold_left (fun a b => a * 257 + Z.to_N b + 1) l 0)%N [[32; 120; 32]]
    [[32; 97; 9]; [97]; cc_magic ++ [32; 49]; [120]; [255]; [98; 32; 32]]
  = Ok [[97]; [98]].
Proof. vm_compute. reflexivity. Qed.

(* simple_cleaning with concrete classes: script 1 for letters, 0 (common) otherwise; thresholds never fire *)
Example C18_nonvacuous_simple_cleaning :
  let keep := sc_line_keep (fun c => if (97 <=? c) && (c <=? 122) then Some 1%N else Some 0%N) (fun _ => false) (fun c => c =? 32)
                           0%N 2%N (fun _ _ => false) (fun _ _ => false) (fun _ _ => false) (mkSC 3 5 200 0) [(0%nat, None)] 9 in
  keep [97; 98; 99] = true /\ keep [97; 98] = false /\ keep [97; 98; 99; 9; 100; 101; 102] = true /\
  keep [97; 98; 99; 9; 100; 1; 102] = false /\ keep [97; 98; 195] = false /\ keep [97; 97; 97; 97; 97; 98] = false.
Proof. vm_compute. repeat split. Qed.
