(* C18 -- line filters keep or drop each line by its own content only.  Statements only. *)
From Coq Require Import List ZArith NArith.
From PP Require Import Base.Lines Tools.DedupeDefs Tools.DedupeProofs Tools.FiltersDefs Tools.FiltersProofs.
Import ListNotations.
Local Open Scope Z_scope.

Theorem C18_long_limit_exact :
  forall limit l, long_keep limit l = true <-> (N.of_nat (length l) <= limit)%N.
Proof. exact long_keep_exact. Qed.
Print Assumptions C18_long_limit_exact.
