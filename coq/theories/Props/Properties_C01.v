(* C01 -- dedupe keeps exactly the first occurrence of every key, in input order.
   Only statements; proofs are in Tools/DedupeProofs.v (on top of the C13 seen-set refinement).

   [dedupe A key ls] is the model of FilterParallel<Dedupe/FieldDedupe> on one stream: the read-test-write
   loop over the lines [ls] with the real seen-set model (AutoProbing with all its doublings) and the
   reserved-key guard of Dedupe::operator()(uint64_t).  [key : A -> N] is the 64-bit key of a line
   (MurmurHashNative(line, seed 1) or the HashCallback fold over the -f/-d selection): the theorems hold
   for EVERY such function, so they hold for the real one.  "No 64-bit hash collision" is exactly the
   hypothesis of C01_no_collision_means_content (the only place where line content enters). *)
From Coq Require Import List ZArith NArith.
From PP Require Import Base.Lines Gen.Src_dedupe Probing.ProbingDefs Tools.DedupeDefs Tools.DedupeProofs
  Tools.DedupeFull Tools.DedupeFullProofs Tools.LinesProofs Fields.FieldsDefs Fields.FieldsProofs Hash.MurmurDefs.
Import ListNotations.
Local Open Scope N_scope.

(* For any input and any key function: no error state (hang, out-of-bounds, table full) is reachable,
   however many growth steps happen, and the output is the stable first-occurrence filter by key. *)
Theorem C01_dedupe_first_occurrences :
  forall (A : Type) (key : A -> N) (ls : list A), dedupe A key ls = Ok (first_occ A key ls).
Proof. exact dedupe_first_occ. Qed.
Print Assumptions C01_dedupe_first_occurrences.

(* "exactly those lines whose key has not appeared on an earlier line": the line at ANY position is
   written iff its key is not the key of an earlier line; lines before and after are treated alike. *)
Theorem C01_line_kept_iff_key_new :
  forall (A : Type) (key : A -> N) (pre : list A) (l : A) (post : list A),
  first_occ A key (pre ++ l :: post) =
    first_occ A key pre ++ (if mem (key l) (map key pre) then [] else [l]) ++
    first_occ_from A key (map key (pre ++ [l])) post.
Proof. exact first_occ_position. Qed.
Print Assumptions C01_line_kept_iff_key_new.

(* byte-for-byte and in input order: the output is a subsequence of the input lines *)
Theorem C01_output_subsequence :
  forall (A : Type) (key : A -> N) (ls : list A), Subseq (first_occ A key ls) ls.
Proof. intros. apply first_occ_from_subseq. Qed.
Print Assumptions C01_output_subsequence.

(* no key occurs twice in the output *)
Theorem C01_no_key_twice :
  forall (A : Type) (key : A -> N) (ls : list A), NoDup (map key (first_occ A key ls)).
Proof. intros. apply first_occ_from_nodup. Qed.
Print Assumptions C01_no_key_twice.

(* every input key occurs in the output (hence, with the previous theorem, exactly once) *)
Theorem C01_every_key_once :
  forall (A : Type) (key : A -> N) (ls : list A) k, In k (map key ls) <-> In k (map key (first_occ A key ls)).
Proof.
  intros A key ls k. split.
  - intros H. destruct (first_occ_from_covers A key ls [] k H) as [[]|H']. exact H'.
  - intros H. apply in_map_iff in H. destruct H as (x & <- & Hx). apply in_map.
    eapply Subseq_In; [apply first_occ_from_subseq|exact Hx].
Qed.
Print Assumptions C01_every_key_once.

(* running dedupe on its own output changes nothing *)
Theorem C01_idempotent :
  forall (A : Type) (key : A -> N) (ls : list A) out,
  dedupe A key ls = Ok out -> dedupe A key out = Ok out.
Proof.
  intros A key ls out H. rewrite dedupe_first_occ in H. injection H as <-.
  rewrite dedupe_first_occ. f_equal. apply first_occ_from_idem.
Qed.
Print Assumptions C01_idempotent.

(* The only permitted deviation is a 64-bit collision: if the key is a function h of the key bytes
   [sel l] (whole line, or the -f/-d selection) and h does not collide on the input's selections, then
   "key seen before" is "an earlier line has the same key bytes". *)
Theorem C01_no_collision_means_content :
  forall (A B : Type) (sel : A -> B) (h : B -> N) (pre : list A) (l : A),
  (forall x, In x (l :: pre) -> forall y, In y (l :: pre) -> h (sel x) = h (sel y) -> sel x = sel y) ->
  (mem (h (sel l)) (map (fun x => h (sel x)) pre) = true <-> exists x, In x pre /\ sel x = sel l).
Proof.
  intros A B sel h pre l Hinj. rewrite mem_In, in_map_iff. split.
  - intros (x & E & Hx). exists x. split; auto. apply Hinj; simpl; auto.
  - intros (x & Hx & E). exists x. split; auto. now rewrite E.
Qed.
Print Assumptions C01_no_collision_means_content.

(* ---- parallel mode (-p in0 in1 out0 out1) ----
   [dedupe_par] models the 4-file loop including the short-circuit `pass0(line0) && pass1(line1)`
   (the second table is not updated when the first side is a repeat) and the three exits. *)
Theorem C01_parallel_spec :
  forall (A : Type) (key key1 : A -> N) (in0 in1 : list A),
  dedupe_par A key key1 in0 in1 = Ok (pstat A in0 in1, par_spec A key key1 (combine in0 in1)).
Proof. exact dedupe_par_spec. Qed.
Print Assumptions C01_parallel_spec.

(* the two outputs stay line-aligned (they are the two projections of ONE list of pairs), every emitted
   pair is an input pair in input order, neither output repeats a key, and a pair whose two sides both
   never occurred before is never dropped *)
Theorem C01_parallel_properties :
  forall (A : Type) (key key1 : A -> N) (ps : list (A * A)),
  let out := par_spec A key key1 ps in
  length (map fst out) = length (map snd out) /\
  Subseq out ps /\
  NoDup (map key (map fst out)) /\ NoDup (map key1 (map snd out)) /\
  (forall pre p post, ps = pre ++ p :: post ->
     ~ In (key (fst p)) (map key (map fst pre)) -> ~ In (key1 (snd p)) (map key1 (map snd pre)) -> In p out).
Proof.
  intros A key key1 ps out. split; [now rewrite !map_length|]. split; [apply par_spec_from_subseq|].
  split; [apply par_spec_from_nodup|]. split; [apply par_spec_from_nodup|].
  intros pre p post -> N0 N1. apply par_spec_both_new; simpl; auto.
Qed.
Print Assumptions C01_parallel_properties.

(* exit status: 0 for balanced input, 2 when the second file is longer, abort when it is shorter *)
Theorem C01_parallel_status :
  forall (A : Type) (in0 in1 : list A),
  (length in0 = length in1 -> pstat A in0 in1 = PDone) /\
  ((length in0 < length in1)%nat -> pstat A in0 in1 = PUnbalanced) /\
  ((length in1 < length in0)%nat -> pstat A in0 in1 = PAbort).
Proof.
  intros A in0 in1. unfold pstat. repeat split; intros H.
  - rewrite H, Nat.eqb_refl. reflexivity.
  - destruct (Nat.eqb_spec (length in0) (length in1)); [lia|]. destruct (Nat.ltb_spec (length in0) (length in1)); [reflexivity|lia].
  - destruct (Nat.eqb_spec (length in0) (length in1)); [lia|]. destruct (Nat.ltb_spec (length in0) (length in1)); [lia|reflexivity].
Qed.
Print Assumptions C01_parallel_status.

(* -p on bytes: the four files.  out0 / out1 are the two projections of the kept pairs, written line by line;
   for balanced input the status is 0 (C01_parallel_status) *)
Theorem C01_parallel_tool_bytes :
  forall (key : list Z -> N) (input0 input1 : list Z),
  let ps := par_spec (list Z) key key (combine (tool_lines input0) (tool_lines input1)) in
  dedupe_par_tool key input0 input1 =
    Ok (pstat (list Z) (tool_lines input0) (tool_lines input1), unrecords newline (map fst ps), unrecords newline (map snd ps)).
Proof. intros. unfold dedupe_par_tool. rewrite dedupe_par_spec. reflexivity. Qed.
Print Assumptions C01_parallel_tool_bytes.

(* ---- the tool on bytes ---- *)
Theorem C01_tool_bytes :
  forall (key : list Z -> N) (input : list Z),
  dedupe_tool key input = Ok (unrecords newline (first_occ (list Z) key (tool_lines input))).
Proof. intros. unfold dedupe_tool. rewrite dedupe_first_occ. reflexivity. Qed.
Print Assumptions C01_tool_bytes.

(* ---- the complete tool, no key taken from the implementation ----
   dedupe -f FIELDS -d DELIM: the option string is parsed by the Fields model (C10), the key of a line is
   MurmurHash64A (C14 model) of the line or of the selected fields, the lines come from the record
   specification, the seen-set is the C13 table.  For every accepted option string and every input the
   output bytes are the first occurrences by that key; rejected option strings abort before reading. *)
Theorem C01_tool_complete :
  forall (fields : list Z) (d : Z) (input : list Z) rs,
  nonul fields -> parse_key_spec fields = Some rs ->
  dedupe_tool_real fields d input =
    ToolOk (unrecords newline (first_occ (list Z) (key_fn rs d) (tool_lines input))).
Proof. exact dedupe_tool_real_spec. Qed.
Print Assumptions C01_tool_complete.

(* ... and in terms of line CONTENT: the complete tool drops a line iff an earlier line has the same
   cut-selected fields (the whole line for the default -f 1-), for lines containing every selected field,
   absent a 64-bit collision among the selections occurring in the input (explicit hypothesis). *)
Theorem C01_dropped_iff_same_selected_fields :
  forall rs d (pre : list (list Z)) (l : list Z),
  canonical rs ->
  (forall x, In x (l :: pre) -> contains_all (Z.of_nat (length (split_fields d x))) rs) ->
  (forall x y, In x (l :: pre) -> In y (l :: pre) ->
     Z.to_N (hash_fold dedupe_field_seed (spec_pieces d x rs)) = Z.to_N (hash_fold dedupe_field_seed (spec_pieces d y rs)) ->
     spec_pieces d x rs = spec_pieces d y rs) ->
  (mem (key_fn rs d l) (map (key_fn rs d) pre) = true <->
   exists x, In x pre /\ select (split_fields d x) rs = select (split_fields d l) rs).
Proof. exact dropped_iff_same_selected_fields. Qed.
Print Assumptions C01_dropped_iff_same_selected_fields.

(* its structural hypotheses are met by -f 2 (range [1,2)) on lines with at least two fields *)
Example C01_nonvacuous_selected_fields :
  parse_key_spec [50]%Z = Some [(1, 2)]%Z /\ canonical [(1, 2)]%Z /\
  contains_all (Z.of_nat (length (split_fields 9 [97; 9; 120; 9; 99]%Z))) [(1, 2)]%Z /\
  contains_all (Z.of_nat (length (split_fields 9 [98; 9; 120]%Z))) [(1, 2)]%Z /\
  select (split_fields 9 [97; 9; 120; 9; 99]%Z) [(1, 2)]%Z = select (split_fields 9 [98; 9; 120]%Z) [(1, 2)]%Z.
Proof.
  split; [vm_compute; reflexivity|]. split; [unfold canonical; cbn; unfold kInfiniteEnd; lia|].
  split; [vm_compute; repeat constructor; discriminate|]. split; [vm_compute; repeat constructor; discriminate|].
  vm_compute. reflexivity.
Qed.

(* "a\nb\na\n" through the whole model with real MurmurHash64A keys: the repeat is dropped;
   with -f 2 and TAB the key is the second field only *)
Example C01_nonvacuous_complete :
  (dedupe_tool_real [49; 45] 9 [97; 10; 98; 10; 97; 10] = ToolOk [97; 10; 98; 10] /\
   dedupe_tool_real [50] 9 [97; 9; 120; 10; 98; 9; 120; 10; 97; 9; 121; 10] = ToolOk [97; 9; 120; 10; 97; 9; 121; 10] /\
   dedupe_tool_real [48] 9 [97; 10] = ToolBadOptions)%Z.
Proof. repeat split; vm_compute; reflexivity. Qed.

(* A line whose key equals the hash table's empty marker (0) is handled by the guard: kept at its
   first occurrence like any other line.  (Before the fix it was dropped at its only occurrence.) *)
Example C01_reserved_key_line_kept :
  dedupe nat (fun n => match n with 5%nat => 0 | _ => N.of_nat n end) [3; 5; 7; 5; 3; 9]%nat = Ok [3; 5; 7; 9]%nat.
Proof. vm_compute. reflexivity. Qed.

(* ---- non-vacuity ---- *)
(* 40 lines over 13 distinct keys (keys collide modulo the table sizes; the table doubles 8 -> 16 on the way) *)
Example C01_nonvacuous_growth :
  let ls := map (fun i => (i * 7) mod 13 * 8 + 1) (map N.of_nat (seq 0 40)) in
  exists out, dedupe N (fun x => x) ls = Ok out /\ length out = 13%nat /\ out = first_occ N (fun x => x) ls.
Proof. eexists. split; [vm_compute; reflexivity|]. split; vm_compute; reflexivity. Qed.

Example C01_nonvacuous_parallel :
  par_spec N (fun x => x) (fun x => x) [(1, 10); (1, 11); (2, 10); (3, 11); (2, 12); (4, 12)] = [(1, 10); (3, 11); (4, 12)] /\
  dedupe_par N (fun x => x) (fun x => x) [1; 1; 2; 3; 2; 4] [10; 11; 10; 11; 12; 12; 99] = Ok (PUnbalanced, [(1, 10); (3, 11); (4, 12)]).
Proof. split; vm_compute; reflexivity. Qed.

Example C01_nonvacuous_no_collision :
  (forall x, In x [5; 3; 5]%nat -> forall y, In y [5; 3; 5]%nat -> N.of_nat x = N.of_nat y -> x = y).
Proof. intros x _ y _ H. now apply Nat2N.inj. Qed.

(* ---- byte-level idempotence (finding F-C01-idempotence-trailing-CR, fixed) ----
   FilterParallel now reads lines WITHOUT CR stripping (parallel_strip_cr = false, regenerated from
   parallel.hh), so the kept lines are written byte for byte and the output is read back as exactly the
   lines that were written: running dedupe on its own output changes nothing, for every key function and
   every input.  (With strip_cr = true this was false: "y\n" "y\r\r\n" -> "y\n" "y\r\n" -> "y\n".) *)
Lemma parallel_reads_lines_unchanged : parallel_strip_cr = false.
Proof. reflexivity. Qed.

Theorem C01_tool_idempotent :
  forall (key : list Z -> N) (input out : list Z), dedupe_tool key input = Ok out -> dedupe_tool key out = Ok out.
Proof.
  intros key input out H. rewrite C01_tool_bytes in H. injection H as <-.
  rewrite C01_tool_bytes.
  assert (Hnd : forallb (no_delim newline) (first_occ (list Z) key (tool_lines input)) = true).
  { apply forallb_forall. intros l Hl.
    pose proof (records_nodelim newline parallel_strip_cr input) as Hall. rewrite forallb_forall in Hall. apply Hall.
    eapply Subseq_In; [apply first_occ_from_subseq|exact Hl]. }
  assert (E : tool_lines (unrecords newline (first_occ (list Z) key (tool_lines input))) = first_occ (list Z) key (tool_lines input)).
  { unfold tool_lines at 1. rewrite parallel_reads_lines_unchanged. apply records_unrecords. exact Hnd. }
  rewrite E. f_equal. f_equal. apply first_occ_from_idem.
Qed.
Print Assumptions C01_tool_idempotent.

(* every output line is an input line with all its bytes (a trailing CR included), in input order *)
Theorem C01_tool_lines_unchanged :
  forall (key : list Z -> N) (input out : list Z), dedupe_tool key input = Ok out ->
  exists kept, out = unrecords newline kept /\ Subseq kept (records newline false input).
Proof.
  intros key input out H. rewrite C01_tool_bytes in H. injection H as <-.
  eexists. split; [reflexivity|]. unfold tool_lines. rewrite parallel_reads_lines_unchanged. apply first_occ_from_subseq.
Qed.
Print Assumptions C01_tool_lines_unchanged.

(* the former counterexample, now idempotent: both "y" and "y\r\r" are kept, twice *)
Definition wkey (l : list Z) : N := fold_left (fun acc b => acc * 257 + Z.to_N b + 1) l 0.
Example C01_nonvacuous_idempotent_bytes :
  dedupe_tool wkey [121; 10; 121; 13; 13; 10; 121; 10]%Z = Ok [121; 10; 121; 13; 13; 10]%Z /\
  dedupe_tool wkey [121; 10; 121; 13; 13; 10]%Z = Ok [121; 10; 121; 13; 13; 10]%Z.
Proof. split; vm_compute; reflexivity. Qed.
