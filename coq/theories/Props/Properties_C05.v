(* C05 -- cache, foldfilter and b64filter never deadlock.  Only statements; the
   transition system is Wrap/WrapDefs.v, proofs are in Wrap/WrapProofs.v.
   A state is stuck when no component (feeder, stream buffer, the two pipes,
   child, collector) can move; [reachable] quantifies over ALL interleavings and
   all fragmentations of the pipe transfers.  Order of enqueue/write, order of
   poison/close and the final peek of each tool are REGENERATED from the source
   (Gen/Src_wrappers.v); capacities, child policy, line lengths, flush points
   and the input are universally quantified. *)
From PP Require Import Gen.Src_wrappers Wrap.WrapDefs Wrap.WrapProofs Wrap.WrapPairing Wrap.WrapTerm.

(* generic: with enqueue-before-write no reachable state is stuck unless everything has terminated *)
Theorem C05_enqueue_before_write_no_stuck :
  forall pr ilen alen recs s,
    (forall j, 1 <= ilen j) -> (forall j, 1 <= alen j) ->
    (p_echo pr = true -> forall j, alen j = ilen j) ->
    1 <= p_cin pr -> 1 <= p_cout pr -> p_order pr = true ->
    reachable (wstep pr ilen alen) (w_init recs) s ->
    wstuck pr ilen alen s = true -> wterminal s = true.
Proof. intros pr ilen alen recs s Hi Ha He Hci Hco Ho. exact (wrapper_no_stuck pr ilen alen Hi Ha He Hci Hco Ho recs s). Qed.
Print Assumptions C05_enqueue_before_write_no_stuck.

(* [wstuck] tests eight canonical labels; they cover enabledness of every label with every argument *)
Theorem C05_stuck_means_no_label_enabled :
  forall pr ilen alen s l, wstuck pr ilen alen s = true -> wstep pr ilen alen s l = None.
Proof. intros pr ilen alen s l. exact (wstuck_complete pr ilen alen s l). Qed.
Print Assumptions C05_stuck_means_no_label_enabled.

(* the collector never hits "sub-process stopped producing" / "more output than input" with a child
   that answers one line per line *)
Theorem C05_no_spurious_child_error :
  forall pr ilen alen recs s,
    (forall j, 1 <= ilen j) -> (forall j, 1 <= alen j) ->
    (p_echo pr = true -> forall j, alen j = ilen j) ->
    1 <= p_cin pr -> 1 <= p_cout pr -> p_order pr = true ->
    reachable (wstep pr ilen alen) (w_init recs) s -> w_kpc s <> KErr.
Proof. intros pr ilen alen recs s Hi Ha He Hci Hco Ho. exact (wrapper_no_error pr ilen alen Hi Ha He Hci Hco Ho recs s). Qed.
Print Assumptions C05_no_spurious_child_error.

(* correctly ordered output under EVERY interleaving, order of enqueue/write, capacity, buffering policy
   and flush point: the records emitted so far are the first records of the input, in input order, and
   record i is built from exactly the child's answers to the lines the feeder sent for record i (lines
   [n_0 + ... + n_(i-1), + n_i) of the child's output) *)
Theorem C05_output_in_order_from_own_lines :
  forall pr ilen alen recs s,
    reachable (wstep pr ilen alen) (w_init recs) s ->
    rev (w_emitted s) = pairs 0 (firstn (length (w_emitted s)) recs).
Proof. intros pr ilen alen recs s. exact (emitted_prefix pr ilen alen recs s). Qed.
Print Assumptions C05_output_in_order_from_own_lines.

(* complete output: once the collector has finished normally it has emitted every record *)
Theorem C05_output_complete :
  forall pr ilen alen recs s,
    reachable (wstep pr ilen alen) (w_init recs) s -> w_kpc s = KDone ->
    rev (w_emitted s) = pairs 0 recs.
Proof. intros pr ilen alen recs s. exact (emitted_complete pr ilen alen recs s). Qed.
Print Assumptions C05_output_complete.

(* termination: with enqueue-before-write every step strictly decreases a natural-number measure, so every
   run (any interleaving, any fragmentation of the pipe transfers, any flush points) has at most
   [wmeasure (w_init recs)] steps; with C05_enqueue_before_write_no_stuck every maximal run therefore ends
   in the terminal state (both threads returned, child exited), with complete ordered output (above) *)
Theorem C05_terminates :
  forall pr ilen alen recs ls s,
    (forall j, 1 <= ilen j) -> (forall j, 1 <= alen j) ->
    (p_echo pr = true -> forall j, alen j = ilen j) ->
    1 <= p_cin pr -> 1 <= p_cout pr -> p_order pr = true ->
    run (wstep pr ilen alen) (w_init recs) ls = Some s ->
    length ls <= wmeasure pr ilen alen (w_init recs).
Proof. intros pr ilen alen recs ls s Hi Ha He Hci Hco Ho. exact (wrapper_runs_bounded pr ilen alen Hi Ha He Hci Hco Ho recs ls s). Qed.
Print Assumptions C05_terminates.

(* the three tools, with the parameters read from their source *)
Definition tool_params (order poison_first final_peek : bool) (cin cout : nat) (echo : bool) (kpol : option nat) : wparams :=
  mkP order poison_first final_peek cin cout echo kpol.

Theorem C05_foldfilter_never_stuck :
  forall cin cout echo kpol ilen alen recs s,
    (forall j, 1 <= ilen j) -> (forall j, 1 <= alen j) -> (echo = true -> forall j, alen j = ilen j) ->
    1 <= cin -> 1 <= cout ->
    let pr := tool_params fold_order fold_poison_first fold_final_peek cin cout echo kpol in
    reachable (wstep pr ilen alen) (w_init recs) s -> wstuck pr ilen alen s = true -> wterminal s = true.
Proof.
  intros cin cout echo kpol ilen alen recs s Hi Ha He Hci Hco pr.
  exact (wrapper_no_stuck pr ilen alen Hi Ha He Hci Hco eq_refl recs s).
Qed.
Print Assumptions C05_foldfilter_never_stuck.

Theorem C05_b64filter_never_stuck :
  forall cin cout echo kpol ilen alen recs s,
    (forall j, 1 <= ilen j) -> (forall j, 1 <= alen j) -> (echo = true -> forall j, alen j = ilen j) ->
    1 <= cin -> 1 <= cout ->
    let pr := tool_params b64_order b64_poison_first b64_final_peek cin cout echo kpol in
    reachable (wstep pr ilen alen) (w_init recs) s -> wstuck pr ilen alen s = true -> wterminal s = true.
Proof.
  intros cin cout echo kpol ilen alen recs s Hi Ha He Hci Hco pr.
  exact (wrapper_no_stuck pr ilen alen Hi Ha He Hci Hco eq_refl recs s).
Qed.
Print Assumptions C05_b64filter_never_stuck.

(* cache: holds because (since the fix) cache_main.cc enqueues before it writes; with the order found
   originally (cache_order = false) [eq_refl] below does not type-check and the statement is refuted, see below *)
Theorem C05_cache_never_stuck :
  forall cin cout echo kpol ilen alen recs s,
    (forall j, 1 <= ilen j) -> (forall j, 1 <= alen j) -> (echo = true -> forall j, alen j = ilen j) ->
    1 <= cin -> 1 <= cout ->
    let pr := tool_params cache_order cache_poison_first cache_final_peek cin cout echo kpol in
    reachable (wstep pr ilen alen) (w_init recs) s -> wstuck pr ilen alen s = true -> wterminal s = true.
Proof.
  intros cin cout echo kpol ilen alen recs s Hi Ha He Hci Hco pr.
  exact (wrapper_no_stuck pr ilen alen Hi Ha He Hci Hco eq_refl recs s).
Qed.
Print Assumptions C05_cache_never_stuck.

(* the defect that was in cache: with enqueue-AFTER-write, a byte-copying child (cat) and one line longer
   than both pipes, a stuck non-terminal state is reachable: feeder blocked writing the line, child blocked
   writing its echo, collector waiting for bookkeeping that is only enqueued after the write *)
Definition refuted_params : wparams := mkP false false false 1 1 true (Some 1).
Definition refuted_labels : list wlabel :=
  [LFeed; LSend 4; LFlushStart; LPush 1; LChildRead 1; LChildWrite 1; LPush 1; LChildRead 1; LPush 1].

Theorem C05_enqueue_after_write_refuted :
  exists pr ilen alen recs ls s,
    p_order pr = false /\ 1 <= p_cin pr /\ 1 <= p_cout pr /\
    (forall j, 1 <= ilen j) /\ (forall j, alen j = ilen j) /\
    run (wstep pr ilen alen) (w_init recs) ls = Some s /\
    wstuck pr ilen alen s = true /\ wterminal s = false.
Proof.
  exists refuted_params, (fun _ => 4), (fun _ => 4), [1], refuted_labels.
  let r := eval vm_compute in (run (wstep refuted_params (fun _ => 4) (fun _ => 4)) (w_init [1]) refuted_labels) in
  match r with Some ?s => exists s end.
  split; [reflexivity|]. split; [vm_compute; lia|]. split; [vm_compute; lia|].
  split; [intros; lia|]. split; [reflexivity|].
  split; [vm_compute; reflexivity|]. split; vm_compute; reflexivity.
Qed.
Print Assumptions C05_enqueue_after_write_refuted.

(* non-vacuity: a complete run of the foldfilter instance (2 records of 2 and 1 lines, line lengths 2,
   capacities 1, answers held in blocks of 2) that reaches the terminal state with both records emitted *)
Definition nonvac_params : wparams := tool_params fold_order fold_poison_first fold_final_peek 1 1 false (Some 2).
Definition nonvac_labels : list wlabel :=
  [LFeed; LSend 4; LFeed; LFeed; LSend 2; LFeed; LFeed; LFeed;
   LPush 1; LChildRead 1; LPush 1; LChildRead 1; LPush 1; LChildRead 1; LPush 1; LChildRead 1;
   LChildWrite 1; LCollect 0; LCollect 1; LChildWrite 1; LCollect 1; LCollect 0;
   LChildWrite 1; LCollect 1; LChildWrite 1; LCollect 1; LCollect 0; LCollect 0;
   LPush 1; LChildRead 1; LPush 1; LChildRead 1; LFeed; LChildEof;
   LCollect 0; LChildWrite 1; LCollect 1; LChildWrite 1; LCollect 1; LCollect 0; LCollect 0;
   LCollect 0; LChildEof].

Example C05_nonvacuous_run :
  match run (wstep nonvac_params (fun _ => 2) (fun _ => 2)) (w_init [2; 1]) nonvac_labels with
  | Some s => wterminal s = true /\ rev (w_emitted s) = [(0, 2); (2, 1)]
  | None => False
  end.
Proof. vm_compute. split; reflexivity. Qed.


(* non-vacuity of the termination bound: for the run above (43 steps, all premises of C05_terminates met:
   lengths 2, capacities 1, enqueue before write) the bound is a concrete number that the run respects *)
Example C05_nonvacuous_bound :
  p_order nonvac_params = true /\
  length nonvac_labels = 43 /\
  wmeasure nonvac_params (fun _ => 2) (fun _ => 2) (w_init [2; 1]) = 86.
Proof. vm_compute. repeat split. Qed.
