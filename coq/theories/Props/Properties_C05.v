(* C05 -- cache, foldfilter and b64filter never deadlock.  Only statements; the
   transition system is Wrap/WrapDefs.v, proofs are in Wrap/WrapProofs.v.
   A state is stuck when no component (feeder, stream buffer, the two pipes,
   child, collector) can move; [reachable] quantifies over ALL interleavings and
   all fragmentations of the pipe transfers.  Order of enqueue/write, order of
   poison/close and the final peek of each tool are REGENERATED from the source
   (Gen/Src_wrappers.v); capacities, child policy, line lengths, flush points
   and the input are universally quantified. *)
From PP Require Import Gen.Src_wrappers Wrap.WrapDefs Wrap.WrapProofs Wrap.WrapPairing Wrap.WrapTerm.

(* generic: with enqueue-before-write no reachable state is stuck unless everything has terminated *)
Theorem C05_enqueue_before_write_no_stuck :
  forall pr ilen alen recs s,
    (forall j, 1 <= ilen j) -> (forall j, 1 <= alen j) ->
    (p_echo pr = true -> forall j, alen j = ilen j) ->
    1 <= p_cin pr -> 1 <= p_cout pr -> p_order pr = true ->
    (p_mid_peek pr = true -> p_poison_first pr = true) -> (p_mid_peek pr = true -> p_peek_eof_ok pr = true) ->
    reachable (wstep pr ilen alen) (w_init recs) s ->
    wstuck pr ilen alen s = true -> wterminal s = true.
Proof. intros pr ilen alen recs s Hi Ha He Hci Hco Ho Hm1 Hm2. exact (wrapper_no_stuck pr ilen alen Hi Ha He Hci Hco Ho Hm1 Hm2 recs s). Qed.
Print Assumptions C05_enqueue_before_write_no_stuck.

(* [wstuck] tests eight canonical labels; they cover enabledness of every label with every argument *)
Theorem C05_stuck_means_no_label_enabled :
  forall pr ilen alen s l, wstuck pr ilen alen s = true -> wstep pr ilen alen s l = None.
Proof. intros pr ilen alen s l. exact (wstuck_complete pr ilen alen s l). Qed.
Print Assumptions C05_stuck_means_no_label_enabled.

(* the collector never hits "sub-process stopped producing" / "more output than input" with a child
   that answers one line per line *)
Theorem C05_no_spurious_child_error :
  forall pr ilen alen recs s,
    (forall j, 1 <= ilen j) -> (forall j, 1 <= alen j) ->
    (p_echo pr = true -> forall j, alen j = ilen j) ->
    1 <= p_cin pr -> 1 <= p_cout pr -> p_order pr = true ->
    (p_mid_peek pr = true -> p_poison_first pr = true) -> (p_mid_peek pr = true -> p_peek_eof_ok pr = true) ->
    reachable (wstep pr ilen alen) (w_init recs) s -> w_kpc s <> KErr.
Proof. intros pr ilen alen recs s Hi Ha He Hci Hco Ho Hm1 Hm2. exact (wrapper_no_error pr ilen alen Hi Ha He Hci Hco Ho Hm1 Hm2 recs s). Qed.
Print Assumptions C05_no_spurious_child_error.

(* correctly ordered output under EVERY interleaving, order of enqueue/write, capacity, buffering policy
   and flush point: the records emitted so far are the first records of the input, in input order, and
   record i is built from exactly the child's answers to the lines the feeder sent for record i (lines
   [n_0 + ... + n_(i-1), + n_i) of the child's output) *)
Theorem C05_output_in_order_from_own_lines :
  forall pr ilen alen recs s,
    reachable (wstep pr ilen alen) (w_init recs) s ->
    rev (w_emitted s) = pairs 0 (firstn (length (w_emitted s)) recs).
Proof. intros pr ilen alen recs s. exact (emitted_prefix pr ilen alen recs s). Qed.
Print Assumptions C05_output_in_order_from_own_lines.

(* complete output: once the collector has finished normally it has emitted every record *)
Theorem C05_output_complete :
  forall pr ilen alen recs s,
    reachable (wstep pr ilen alen) (w_init recs) s -> w_kpc s = KDone ->
    rev (w_emitted s) = pairs 0 recs.
Proof. intros pr ilen alen recs s. exact (emitted_complete pr ilen alen recs s). Qed.
Print Assumptions C05_output_complete.

(* termination: with enqueue-before-write every step strictly decreases a natural-number measure, so every
   run (any interleaving, any fragmentation of the pipe transfers, any flush points) has at most
   [wmeasure (w_init recs)] steps; with C05_enqueue_before_write_no_stuck every maximal run therefore ends
   in the terminal state (both threads returned, child exited), with complete ordered output (above) *)
Theorem C05_terminates :
  forall pr ilen alen recs ls s,
    (forall j, 1 <= ilen j) -> (forall j, 1 <= alen j) ->
    (p_echo pr = true -> forall j, alen j = ilen j) ->
    1 <= p_cin pr -> 1 <= p_cout pr -> p_order pr = true ->
    (p_mid_peek pr = true -> p_poison_first pr = true) -> (p_mid_peek pr = true -> p_peek_eof_ok pr = true) ->
    run (wstep pr ilen alen) (w_init recs) ls = Some s ->
    length ls <= wmeasure pr ilen alen (w_init recs).
Proof. intros pr ilen alen recs ls s Hi Ha He Hci Hco Ho Hm1 Hm2. exact (wrapper_runs_bounded pr ilen alen Hi Ha He Hci Hco Ho Hm1 Hm2 recs ls s). Qed.
Print Assumptions C05_terminates.

(* the three tools, with the parameters read from their source *)
(* early = the child may answer a line as soon as its first byte arrives; mid_peek / eof_ok = the in-loop
   `if (queue.Empty()) { peek(); if (queue.Empty()) throw }` of foldfilter and whether an end-of-file of that
   peek is tolerated once the queue is non-empty (regenerated from the source) *)
(* Premise of the transition system that lives outside it: "child exited" (cexit) is what the collector observes as end
   of file on the child's stdout, and closing the feeder's end is what the child observes as end of input.  That
   needs Launch() (preprocess/captive_child.cc) to leave no copy of the child's pipe ends in the wrapper and none
   of the wrapper's ends in the child; regenerated from the source (scoped_fd locals never release()d, no dup in
   the parent, in.reset()/out.reset() before execvp in the child).  A leaked write end makes b64filter, whose
   collector waits for that end of file, hang after printing everything. *)
Theorem C05_launch_leaks_no_pipe_end : launch_no_leaked_pipe_end = true.
Proof. reflexivity. Qed.

Definition tool_params (order poison_first final_peek : bool) (cin cout : nat) (echo : bool) (kpol : option nat)
           (early mid_peek eof_ok : bool) : wparams :=
  mkP order poison_first final_peek cin cout echo kpol early mid_peek eof_ok.

(* foldfilter, including its in-loop peek and children that answer early: never stuck, and the collector
   never aborts with a child error (needs fold_peek_eof_ok = true, i.e. the fix; see the refuted theorem below) *)
Theorem C05_foldfilter_never_stuck :
  forall cin cout echo kpol early ilen alen recs s,
    (forall j, 1 <= ilen j) -> (forall j, 1 <= alen j) -> (echo = true -> forall j, alen j = ilen j) ->
    1 <= cin -> 1 <= cout ->
    let pr := tool_params fold_order fold_poison_first fold_final_peek cin cout echo kpol early fold_mid_peek fold_peek_eof_ok in
    reachable (wstep pr ilen alen) (w_init recs) s ->
    (wstuck pr ilen alen s = true -> wterminal s = true) /\ w_kpc s <> KErr.
Proof.
  intros cin cout echo kpol early ilen alen recs s Hi Ha He Hci Hco pr Hr. split.
  - exact (wrapper_no_stuck pr ilen alen Hi Ha He Hci Hco eq_refl (fun _ => eq_refl) (fun _ => eq_refl) recs s Hr).
  - exact (wrapper_no_error pr ilen alen Hi Ha He Hci Hco eq_refl (fun _ => eq_refl) (fun _ => eq_refl) recs s Hr).
Qed.
Print Assumptions C05_foldfilter_never_stuck.

Theorem C05_b64filter_never_stuck :
  forall cin cout echo kpol early ilen alen recs s,
    (forall j, 1 <= ilen j) -> (forall j, 1 <= alen j) -> (echo = true -> forall j, alen j = ilen j) ->
    1 <= cin -> 1 <= cout ->
    let pr := tool_params b64_order b64_poison_first b64_final_peek cin cout echo kpol early false false in
    reachable (wstep pr ilen alen) (w_init recs) s -> wstuck pr ilen alen s = true -> wterminal s = true.
Proof.
  intros cin cout echo kpol early ilen alen recs s Hi Ha He Hci Hco pr.
  apply (wrapper_no_stuck pr ilen alen Hi Ha He Hci Hco eq_refl); intros X; discriminate X.
Qed.
Print Assumptions C05_b64filter_never_stuck.

(* cache: holds because (since the fix) cache_main.cc enqueues before it writes; with the order found
   originally (cache_order = false) [eq_refl] below does not type-check and the statement is refuted, see below *)
Theorem C05_cache_never_stuck :
  forall cin cout echo kpol early ilen alen recs s,
    (forall j, 1 <= ilen j) -> (forall j, 1 <= alen j) -> (echo = true -> forall j, alen j = ilen j) ->
    1 <= cin -> 1 <= cout ->
    let pr := tool_params cache_order cache_poison_first cache_final_peek cin cout echo kpol early false false in
    reachable (wstep pr ilen alen) (w_init recs) s -> wstuck pr ilen alen s = true -> wterminal s = true.
Proof.
  intros cin cout echo kpol early ilen alen recs s Hi Ha He Hci Hco pr.
  apply (wrapper_no_stuck pr ilen alen Hi Ha He Hci Hco eq_refl); intros X; discriminate X.
Qed.
Print Assumptions C05_cache_never_stuck.

(* the defect that was in cache: with enqueue-AFTER-write, a byte-copying child (cat) and one line longer
   than both pipes, a stuck non-terminal state is reachable: feeder blocked writing the line, child blocked
   writing its echo, collector waiting for bookkeeping that is only enqueued after the write *)
Definition refuted_params : wparams := mkP false false false 1 1 true (Some 1) false false false.
Definition refuted_labels : list wlabel :=
  [LFeed; LSend 4; LFlushStart; LPush 1; LChildRead 1; LChildWrite 1; LPush 1; LChildRead 1; LPush 1].

Theorem C05_enqueue_after_write_refuted :
  exists pr ilen alen recs ls s,
    p_order pr = false /\ 1 <= p_cin pr /\ 1 <= p_cout pr /\
    (forall j, 1 <= ilen j) /\ (forall j, alen j = ilen j) /\
    run (wstep pr ilen alen) (w_init recs) ls = Some s /\
    wstuck pr ilen alen s = true /\ wterminal s = false.
Proof.
  exists refuted_params, (fun _ => 4), (fun _ => 4), [1], refuted_labels.
  let r := eval vm_compute in (run (wstep refuted_params (fun _ => 4) (fun _ => 4)) (w_init [1]) refuted_labels) in
  match r with Some ?s => exists s end.
  split; [reflexivity|]. split; [vm_compute; lia|]. split; [vm_compute; lia|].
  split; [intros; lia|]. split; [reflexivity|].
  split; [vm_compute; reflexivity|]. split; vm_compute; reflexivity.
Qed.
Print Assumptions C05_enqueue_after_write_refuted.

(* non-vacuity: a complete run of the foldfilter instance (2 records of 2 and 1 lines, line lengths 2,
   capacities 1, answers held in blocks of 2) that reaches the terminal state with both records emitted *)
(* the defect that was in foldfilter (audit H1): with the in-loop peek NOT tolerating the child's end-of-file
   (fold_peek_eof_ok = false, the code as found), a child that answers each line at its first byte, a piece
   whose first part is flushed while its newline stays buffered, and stdin stalling until end of input, the
   collector - having already emitted EVERY record - aborts ("KErr") although the poison is in the queue:
   `(python3 -c "print('a'*10000)"; sleep 2) | foldfilter -w 100000 early_child.py` exits 134 with no output *)
Definition peek_refuted_params : wparams := mkP true true false 4 4 false (Some 1) true true false.
Definition peek_refuted_labels : list wlabel :=
  [LFeed; LSend 1; LFlushStart; LPush 1; LChildRead 1; LChildWrite 2; LCollect 0; LCollect 2; LCollect 0; LCollect 0; LCollect 0;
   LSend 1; LFeed; LFeed; LFeed; LPush 1; LFeed; LChildRead 1; LChildEof; LCollect 0].

Theorem C05_foldfilter_peek_eof_refuted :
  match run (wstep peek_refuted_params (fun _ => 2) (fun _ => 2)) (w_init [1]) peek_refuted_labels with
  | Some s => w_kpc s = KErr /\ w_queue s = [None] /\ rev (w_emitted s) = pairs 0 [1] /\ w_cexit s = true /\ w_fpc s = FDone
  | None => False
  end.
Proof. vm_compute. repeat split. Qed.
Print Assumptions C05_foldfilter_peek_eof_refuted.

Definition nonvac_params : wparams := tool_params fold_order fold_poison_first fold_final_peek 1 1 false (Some 2) false fold_mid_peek fold_peek_eof_ok.
Definition nonvac_labels : list wlabel :=
  [LFeed; LCollect 1; LSend 1; LSend 1; LSend 1; LSend 1; LFeed; LFeed; LSend 1; LSend 1; LFeed; LFeed; LFeed;
   LPush 1; LChildRead 1; LPush 1; LChildRead 1; LPush 1; LChildRead 1; LPush 1; LChildRead 1;
   LChildWrite 1; LCollect 1; LChildWrite 1; LCollect 1; LCollect 1; LChildWrite 1; LCollect 1; LChildWrite 1; LCollect 1;
   LCollect 1; LCollect 1; LCollect 1; LCollect 1; LPush 1; LChildRead 1; LPush 1; LChildRead 1; LFeed; LChildEof;
   LChildWrite 1; LCollect 1; LChildWrite 1; LCollect 1; LCollect 1; LCollect 1; LCollect 1; LCollect 1; LChildEof].

Example C05_nonvacuous_run :
  match run (wstep nonvac_params (fun _ => 2) (fun _ => 2)) (w_init [2; 1]) nonvac_labels with
  | Some s => wterminal s = true /\ rev (w_emitted s) = [(0, 2); (2, 1)]
  | None => False
  end.
Proof. vm_compute. split; reflexivity. Qed.


(* the same for the other two parameter sets: cache (byte-copying child, records that send 1 / 0 / 1 lines: the
   middle one is a repeat served from the table, cin = 2) and b64filter (child that answers only at end of
   input, cout = 2): complete runs that end terminated with every record emitted, within the bound *)
Definition nonvac_cache_params : wparams := tool_params cache_order cache_poison_first cache_final_peek 2 1 true None false false false.
Example C05_nonvacuous_run_cache :
  match run (wstep nonvac_cache_params (fun _ => 2) (fun _ => 2)) (w_init [1; 0; 1])
    [LFeed; LCollect 1; LSend 1; LSend 1; LFeed; LFeed; LFeed; LFeed; LSend 1; LSend 1; LFeed; LFeed; LFeed; LPush 1;
     LChildRead 1; LChildWrite 1; LCollect 1; LPush 1; LChildRead 1; LChildWrite 1; LCollect 1; LCollect 1; LCollect 1;
     LCollect 1; LCollect 1; LCollect 1; LPush 1; LChildRead 1; LChildWrite 1; LCollect 1; LPush 1; LChildRead 1;
     LChildWrite 1; LCollect 1; LCollect 1; LCollect 1; LFeed; LFeed; LCollect 1; LChildEof] with
  | Some s => wterminal s = true /\ w_kpc s = KDone /\ rev (w_emitted s) = [(0, 1); (1, 0); (1, 1)]
  | None => False
  end /\ wmeasure nonvac_cache_params (fun _ => 2) (fun _ => 2) (w_init [1; 0; 1]) = 89.
Proof. vm_compute. repeat split. Qed.

Definition nonvac_b64_params : wparams := tool_params b64_order b64_poison_first b64_final_peek 1 2 false None false false false.
Example C05_nonvacuous_run_b64filter :
  match run (wstep nonvac_b64_params (fun _ => 2) (fun _ => 1)) (w_init [2; 1])
    [LFeed; LCollect 1; LSend 1; LSend 1; LSend 1; LSend 1; LFeed; LFeed; LSend 1; LSend 1; LFeed; LFeed; LFeed;
     LPush 1; LChildRead 1; LPush 1; LChildRead 1; LPush 1; LChildRead 1; LPush 1; LChildRead 1; LPush 1; LChildRead 1;
     LPush 1; LChildRead 1; LFeed; LChildEof; LChildWrite 1; LCollect 1; LCollect 1; LChildWrite 1; LCollect 1; LCollect 1;
     LCollect 1; LCollect 1; LChildWrite 1; LCollect 1; LCollect 1; LCollect 1; LCollect 1; LChildEof; LCollect 1] with
  | Some s => wterminal s = true /\ w_kpc s = KDone /\ rev (w_emitted s) = [(0, 2); (2, 1)]
  | None => False
  end /\ wmeasure nonvac_b64_params (fun _ => 2) (fun _ => 1) (w_init [2; 1]) = 83.
Proof. vm_compute. repeat split. Qed.

(* non-vacuity of the termination bound: for the run above (49 steps, all premises of C05_terminates met:
   lengths 2, capacities 1, enqueue before write) the bound is a concrete number that the run respects *)
Example C05_nonvacuous_bound :
  p_order nonvac_params = true /\
  length nonvac_labels = 49 /\
  wmeasure nonvac_params (fun _ => 2) (fun _ => 2) (w_init [2; 1]) = 95.
Proof. vm_compute. repeat split. Qed.
