(* C08 -- b64filter preserves document boundaries and content around the child.
   Only statements; proofs are in B64/B64FilterProofs.v.  The model functions
   (B64/B64FilterDefs.v) are the ones run against bin/b64filter by the check;
   the strip_cr settings, the newline constants and the back() guard are
   regenerated from the source (Gen/Src_b64filter.v).
   Quantifier "all feeder/collector interleavings": the queue is FIFO and the
   pipes deliver bytes in order (C05/C16), so the collector sees the metas in
   order and the child's answer lines in order, which is what [collect] takes. *)
From PP Require Import B64.B64FilterDefs B64.B64FilterProofs.
Local Open Scope Z_scope.

(* Feeder bookkeeping for EVERY document (empty, newline-only, no final newline ...):
   no undefined behaviour, the child receives exactly the document's lines each
   terminated by LF, line_cnt is their number and is >= 1 (so a document is never
   mistaken for the poison Document{0,false}), the flag records the final newline. *)
Theorem C08_feeder_bookkeeping : forall d,
  feed_doc d = FOk (unrecords 10 (doc_lines d))
                   {| line_cnt := length (doc_lines d); has_nl := ends_nl d |}
  /\ (1 <= length (doc_lines d))%nat.
Proof. exact feed_doc_spec. Qed.
Print Assumptions C08_feeder_bookkeeping.

(* For every sequence of documents and every line-preserving child g: the
   collector rebuilds, for each document in order, exactly the child's answers
   to that document's lines (doc_spec), joined by LF, with a final LF iff the
   original had one.  Nothing is merged, split or shifted into a neighbour. *)
Theorem C08_documents_preserved : forall g docs, line_preserving g ->
  exists child_in metas,
    feed_all docs = Some (child_in, metas) /\
    child_in = unrecords 10 (concat (map doc_lines docs)) /\
    Forall (fun m => (1 <= line_cnt m)%nat) metas /\
    collect metas (records 10 b64f_collector_strip_cr (child_output g child_in)) = COk (map (doc_spec g) docs).
Proof. exact documents_preserved_proof. Qed.
Print Assumptions C08_documents_preserved.

(* with an identity child every document is reproduced exactly *)
Theorem C08_identity_child : forall d, doc_spec (fun l => l) d = d.
Proof. exact identity_child_proof. Qed.
Print Assumptions C08_identity_child.

(* the whole tool (reader, decode, feeder, child, collector, encode, writer) on any
   input whose lines decode -- padded or unpadded base64 -- to the documents docs *)
Theorem C08_tool_spec : forall g ls docs, line_preserving g ->
  Forall2 (fun l d => base64_decode l = DOk d) ls docs ->
  forallb (no_delim 10) ls = true -> (forall l a, In l ls -> l <> a ++ [13]) ->
  forallb bytes_okb (map (doc_spec g) docs) = true ->
  b64filter_tool g (unrecords 10 ls) = BOk (unrecords 10 (map (fun d => rfc4648 (doc_spec g d)) docs)).
Proof. exact tool_spec_proof. Qed.
Print Assumptions C08_tool_spec.

(* canonical base64 in, identity child: the output stream is the input stream *)
Theorem C08_tool_identity : forall docs, forallb bytes_okb docs = true ->
  b64filter_tool (fun l => l) (unrecords 10 (map rfc4648 docs)) = BOk (unrecords 10 (map rfc4648 docs)).
Proof. exact tool_identity_proof. Qed.
Print Assumptions C08_tool_identity.

(* Whatever the child does (any function from its stdin to its stdout): the tool ends
   successfully only if the child wrote exactly one line per line it was given; a child that
   drops, merges or adds lines makes the tool fail (BChildShort / BSurplus) instead of
   shifting lines into a neighbouring document. *)
Theorem C08_line_count_guard : forall child cr_out docs out,
  b64filter_docs_stream child cr_out docs = BOk out ->
  exists child_in, feed_all docs = Some (child_in, map meta_of docs) /\
    length (records 10 cr_out (child child_in)) = length (concat (map doc_lines docs)).
Proof. exact line_count_guard_proof. Qed.
Print Assumptions C08_line_count_guard.

(* non-vacuity: a child that swallows the second line, and one that adds a line *)
Example C08_nonvacuous_guard :
  let docs := [[97; 10; 98]; [99]] in
  b64filter_docs_stream (fun s => firstn 2 s ++ skipn 4 s) false docs = BChildShort /\
  b64filter_docs_stream (fun s => s ++ [88; 10]) false docs = BSurplus /\
  (exists o, b64filter_docs_stream (fun s => s) false docs = BOk o).
Proof. vm_compute. repeat split. eexists; reflexivity. Qed.

(* non-vacuity: the interesting document shapes, and a run of the whole tool *)
Example C08_nonvacuous_shapes :
  doc_lines [] = [[]] /\ ends_nl [] = false /\
  doc_lines [10] = [[]] /\ ends_nl [10] = true /\
  doc_lines [10; 10] = [[]; []] /\
  doc_lines [97; 13; 10; 98] = [[97; 13]; [98]] /\ ends_nl [97; 13; 10; 98] = false /\
  doc_spec (fun l => 91 :: l ++ [93]) [97; 10; 10; 98] = [91; 97; 93; 10; 91; 93; 10; 91; 98; 93].
Proof. vm_compute. repeat split. Qed.

Example C08_nonvacuous_tool :
  let docs := [[]; [10]; [97; 0; 255]; [97; 13; 10; 98; 10]] in
  forallb bytes_okb docs = true /\
  b64filter_tool (fun l => l) (unrecords 10 (map rfc4648 docs)) = BOk (unrecords 10 (map rfc4648 docs)) /\
  unrecords 10 (map rfc4648 docs) = [10; 67; 103; 61; 61; 10; 89; 81; 68; 47; 10; 89; 81; 48; 75; 89; 103; 111; 61; 10].
Proof. vm_compute. repeat split. Qed.
