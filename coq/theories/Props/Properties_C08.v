(* C08 -- b64filter preserves document boundaries and content around the child.
   Only statements; proofs are in B64/B64FilterProofs.v. *)
From PP Require Import B64.B64FilterDefs B64.B64FilterProofs.
Local Open Scope Z_scope.

Theorem C08_count_byte_app : forall c a b, count_byte c (a ++ b) = (count_byte c a + count_byte c b)%nat.
Proof. exact count_byte_app. Qed.
Print Assumptions C08_count_byte_app.
