(* C08 -- b64filter preserves document boundaries and content around the child.
   Only statements; proofs are in B64/B64FilterProofs.v.  The model functions
   (B64/B64FilterDefs.v) are the ones run against bin/b64filter by the check;
   the strip_cr settings, the newline constants and the back() guard are
   regenerated from the source (Gen/Src_b64filter.v).
   Quantifier "all feeder/collector interleavings": the queue is FIFO and the
   pipes deliver bytes in order (C05/C16), so the collector sees the metas in
   order and the child's answer lines in order, which is what [collect] takes. *)
From PP Require Import B64.B64FilterDefs B64.B64FilterProofs.
Local Open Scope Z_scope.

(* Feeder bookkeeping for EVERY document (empty, newline-only, no final newline ...):
   no undefined behaviour, the child receives exactly the document's lines each
   terminated by LF, line_cnt is their number and is >= 1 (so a document is never
   mistaken for the poison Document{0,false}), the flag records the final newline. *)
Theorem C08_feeder_bookkeeping : forall d,
  feed_doc d = FOk (unrecords 10 (doc_lines d))
                   {| line_cnt := length (doc_lines d); has_nl := ends_nl d |}
  /\ (1 <= length (doc_lines d))%nat.
Proof. exact feed_doc_spec. Qed.
Print Assumptions C08_feeder_bookkeeping.

(* For every sequence of documents and every line-preserving child g: the
   collector rebuilds, for each document in order, exactly the child's answers
   to that document's lines (doc_spec), joined by LF, with a final LF iff the
   original had one.  Nothing is merged, split or shifted into a neighbour. *)
Theorem C08_documents_preserved : forall g docs, line_preserving g ->
  exists child_in metas,
    feed_all docs = Some (child_in, metas) /\
    child_in = unrecords 10 (concat (map doc_lines docs)) /\
    Forall (fun m => (1 <= line_cnt m)%nat) metas /\
    collect metas (records 10 b64f_collector_strip_cr (child_output g child_in)) = COk (map (doc_spec g) docs).
Proof. exact documents_preserved_proof. Qed.
Print Assumptions C08_documents_preserved.

(* The same for children WITH MEMORY.  A child is any answer function A on the list of all lines it
   reads that returns one LF-free line per line ([one_line_per_line]); its i-th answer may depend on
   everything read (numbering, context ...).  The tool ([b64filter_docs_stream], child as a function
   on byte streams) then produces for document k exactly the answer lines at the positions of
   document k's lines ([docs_spec_stream]: the answer list cut into consecutive segments of the
   documents' line counts), joined by LF, final LF iff document k had one.  The stateless child of
   the theorem above is the instance A = map g (docs_spec_stream_map). *)
Theorem C08_documents_preserved_stream : forall A docs, one_line_per_line A ->
  b64filter_docs_stream (stream_of A) b64f_collector_strip_cr docs
  = match encode_all (docs_spec_stream A docs) with Some o => BOk o | None => BFuel end.
Proof. exact documents_preserved_stream_proof. Qed.
Print Assumptions C08_documents_preserved_stream.

Theorem C08_stateless_is_instance : forall g docs, docs_spec_stream (map g) docs = map (doc_spec g) docs.
Proof. exact docs_spec_stream_map. Qed.
Print Assumptions C08_stateless_is_instance.

(* The whole tool, most general form: stdin = LF-terminated lines ls optionally followed by an
   UNTERMINATED last line t (t = [] : none), each line decoding (padded or not) to a document;
   any child with memory that writes one line per line. *)
Theorem C08_tool_spec_general : forall A ls t docs, one_line_per_line A ->
  Forall2 (fun l d => base64_decode l = DOk d) (ls ++ opt_tail t) docs ->
  forallb (no_delim 10) ls = true -> no_delim 10 t = true -> (forall l a, In l ls -> l <> a ++ [13]) ->
  forallb bytes_okb (docs_spec_stream A docs) = true ->
  b64filter_tool_stream (stream_of A) (unrecords 10 ls ++ t)
  = BOk (unrecords 10 (map rfc4648 (docs_spec_stream A docs))).
Proof. exact tool_spec_general_proof. Qed.
Print Assumptions C08_tool_spec_general.

(* non-vacuity: a numbering child (answer i = i-th digit ++ line), two documents, last stdin line unterminated *)
Example C08_nonvacuous_numbering :
  let A := fun ls => map (fun il => (48 + Z.of_nat (fst il)) :: 58 :: snd il) (combine (seq 1 (length ls)) ls) in
  b64filter_tool_stream (stream_of A) ([89; 81; 112; 105; 10] ++ [89; 119; 61; 61])     (* "YQpi" LF "Yw==" : a LF b | c *)
  = BOk [77; 84; 112; 104; 67; 106; 73; 54; 89; 103; 61; 61; 10; 77; 122; 112; 106; 10]. (* "1:a LF 2:b" | "3:c" *)
Proof. vm_compute. reflexivity. Qed.

(* the specification function itself: with an identity child every document is reproduced exactly
   (a fact about doc_spec only; the tool-level statement is C08_tool_identity below) *)
Theorem C08_identity_child : forall d, doc_spec (fun l => l) d = d.
Proof. exact identity_child_proof. Qed.
Print Assumptions C08_identity_child.

(* the whole tool (reader, decode, feeder, child, collector, encode, writer) on any
   input whose lines decode -- padded or unpadded base64 -- to the documents docs *)
Theorem C08_tool_spec : forall g ls docs, line_preserving g ->
  Forall2 (fun l d => base64_decode l = DOk d) ls docs ->
  forallb (no_delim 10) ls = true -> (forall l a, In l ls -> l <> a ++ [13]) ->
  forallb bytes_okb (map (doc_spec g) docs) = true ->
  b64filter_tool g (unrecords 10 ls) = BOk (unrecords 10 (map (fun d => rfc4648 (doc_spec g d)) docs)).
Proof. exact tool_spec_proof. Qed.
Print Assumptions C08_tool_spec.

(* the same when every input line ends in CR LF (base64 written on Windows): the feeder reads
   with strip_cr, so the CR is not part of the document's encoding *)
Theorem C08_tool_spec_crlf : forall g ls docs, line_preserving g ->
  Forall2 (fun l d => base64_decode l = DOk d) ls docs ->
  forallb (no_delim 10) ls = true ->
  forallb bytes_okb (map (doc_spec g) docs) = true ->
  b64filter_tool g (unrecords 10 (map (fun l => l ++ [13]) ls))
  = BOk (unrecords 10 (map (fun d => rfc4648 (doc_spec g d)) docs)).
Proof. exact tool_spec_crlf_proof. Qed.
Print Assumptions C08_tool_spec_crlf.

(* canonical base64 in, identity child: the output stream is the input stream *)
Theorem C08_tool_identity : forall docs, forallb bytes_okb docs = true ->
  b64filter_tool (fun l => l) (unrecords 10 (map rfc4648 docs)) = BOk (unrecords 10 (map rfc4648 docs)).
Proof. exact tool_identity_proof. Qed.
Print Assumptions C08_tool_identity.

(* Whatever the child does (any function from its stdin to its stdout): the tool ends
   successfully only if the child wrote exactly one line per line it was given; a child that
   drops, merges or adds lines makes the tool fail (BChildShort / BSurplus) instead of
   shifting lines into a neighbouring document. *)
Theorem C08_line_count_guard : forall child cr_out docs out,
  b64filter_docs_stream child cr_out docs = BOk out ->
  exists child_in, feed_all docs = Some (child_in, map meta_of docs) /\
    length (records 10 cr_out (child child_in)) = length (concat (map doc_lines docs)).
Proof. exact line_count_guard_proof. Qed.
Print Assumptions C08_line_count_guard.

(* non-vacuity: a child that swallows the second line, and one that adds a line *)
Example C08_nonvacuous_guard :
  let docs := [[97; 10; 98]; [99]] in
  b64filter_docs_stream (fun s => firstn 2 s ++ skipn 4 s) false docs = BChildShort /\
  b64filter_docs_stream (fun s => s ++ [88; 10]) false docs = BSurplus /\
  (exists o, b64filter_docs_stream (fun s => s) false docs = BOk o).
Proof. vm_compute. repeat split. eexists; reflexivity. Qed.

(* non-vacuity: the interesting document shapes, and a run of the whole tool *)
Example C08_nonvacuous_shapes :
  doc_lines [] = [[]] /\ ends_nl [] = false /\
  doc_lines [10] = [[]] /\ ends_nl [10] = true /\
  doc_lines [10; 10] = [[]; []] /\
  doc_lines [97; 13; 10; 98] = [[97; 13]; [98]] /\ ends_nl [97; 13; 10; 98] = false /\
  doc_spec (fun l => 91 :: l ++ [93]) [97; 10; 10; 98] = [91; 97; 93; 10; 91; 93; 10; 91; 98; 93].
Proof. vm_compute. repeat split. Qed.

Example C08_nonvacuous_tool :
  let docs := [[]; [10]; [97; 0; 255]; [97; 13; 10; 98; 10]] in
  forallb bytes_okb docs = true /\
  b64filter_tool (fun l => l) (unrecords 10 (map rfc4648 docs)) = BOk (unrecords 10 (map rfc4648 docs)) /\
  unrecords 10 (map rfc4648 docs) = [10; 67; 103; 61; 61; 10; 89; 81; 68; 47; 10; 89; 81; 48; 75; 89; 103; 111; 61; 10].
Proof. vm_compute. repeat split. Qed.
