(* C14 -- line hashing is MurmurHash64A, identical across tools.  Only statements. *)
From PP Require Import Hash.MurmurDefs Hash.MurmurProofs.
Local Open Scope Z_scope.

(* hashing a selection of fields is the left fold of the hash with the previous value as seed *)
Theorem C14_fold_is_left_fold :
  forall seed ps p, hash_fold seed [] = seed /\ hash_fold seed (ps ++ [p]) = murmur_native p (hash_fold seed ps).
Proof. intros. split. apply hash_fold_nil. apply hash_fold_snoc. Qed.
Print Assumptions C14_fold_is_left_fold.
