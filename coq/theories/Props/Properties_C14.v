(* C14 -- line hashing is MurmurHash64A, identical across tools, runs and alignments.
   Only statements; proofs in Hash/MurmurProofs.v.  murmur64a / murmur64a_mem /
   hash_fold are the executable model (constants m, r, tail switch and seeds
   regenerated from util/murmur_hash.cc and the call sites, Gen/Src_murmur.v) that
   the correspondence check runs against the real MurmurHash64A / MurmurHashNative /
   HashCallback.  murmur_ref is an independent transcription of Appleby's
   MurmurHash64A with its own constants in div/mod arithmetic. *)
From PP Require Import Hash.MurmurDefs Hash.MurmurProofs.
Local Open Scope Z_scope.

(* the 64-bit hash equals reference MurmurHash64A for every byte string (every length, every
   tail length) and every seed *)
Theorem C14_murmur_is_reference :
  forall bs seed, bytes_okb bs = true -> murmur64a bs seed = murmur_ref bs seed.
Proof. exact murmur_eq_reference_proof. Qed.
Print Assumptions C14_murmur_is_reference.

(* computing it reads no byte outside the string: whatever memory follows the len bytes, the
   value is the same (and no out-of-range default is ever used) *)
Theorem C14_reads_only_input :
  forall bs extra seed, bytes_okb bs = true ->
  murmur64a_mem (bs ++ extra) (Z.of_nat (length bs)) seed = murmur64a bs seed.
Proof. exact murmur_reads_only_input_proof. Qed.
Print Assumptions C14_reads_only_input.

(* the value is a 64-bit unsigned number *)
Theorem C14_murmur_range :
  forall bs seed, bytes_okb bs = true -> 0 <= murmur64a bs seed < two64.
Proof. exact murmur_range_proof. Qed.
Print Assumptions C14_murmur_range.

(* hashing a selection of fields: the fold the model performs -- it interprets the step extracted from fields.hh
   HashCallback::operator() (Gen/Src_murmur.v hashcallback_step_shape) -- equals the independent specification
   fold_spec: the value after p1 .. pn is 64A(pn, 64A(p(n-1), ... 64A(p1, seed))).  A step that hashed something
   else, used another length, or did not chain the previous value would break this proof. *)
Theorem C14_fold_is_left_fold :
  forall seed ps p,
  hash_fold seed ps = fold_spec seed ps /\
  fold_spec seed [] = seed /\ fold_spec seed (ps ++ [p]) = murmur64a p (fold_spec seed ps).
Proof. exact fold_is_left_fold_proof. Qed.
Print Assumptions C14_fold_is_left_fold.

(* shard assignment: shard_main.cc's default-constructed HashCallback (seed from fields.hh), the specified fold,
   modulo the shard count -- a function of the key pieces and the count only *)
Theorem C14_shard_index :
  forall pieces n, 0 < n ->
  shard_index pieces n = fold_spec 47849374332489 pieces mod n /\ 0 <= shard_index pieces n < n.
Proof. exact shard_index_proof. Qed.
Print Assumptions C14_shard_index.

(* train_case writes and apply_case looks up the same key.  case_key_train / case_key_apply interpret the key
   shapes the translator extracts from train_case_main.cc and from apply_case_main.cc INDEPENDENTLY (which string
   is hashed, which string's size() is the length, seed nesting); the proof needs the two generated shapes to be
   equal and to be 64A(lowered, its own length, 64A(source, its own length, 0)) -- e.g. passing target.size() in
   one tool breaks it. *)
Theorem C14_case_keys_agree :
  forall lowered source target,
  case_key_train lowered source target = case_key_apply lowered source /\
  case_key_apply lowered source = murmur64a lowered (murmur64a source 0).
Proof. exact case_keys_agree_proof. Qed.
Print Assumptions C14_case_keys_agree.

(* the whole-line keys of dedupe, subtract_lines (both sides) and commoncrawl_dedupe, and the field keys of dedupe and
   cache, each interpreted from the shape / seed extracted from its own source *)
Theorem C14_tool_keys :
  forall line,
  dedupe_line_key line = murmur64a line 1 /\ subtract_insert_key line = murmur64a line 1 /\
  subtract_lookup_key line = murmur64a line 1 /\ commoncrawl_dedupe_key line = murmur64a line 1 /\
  (forall pieces, dedupe_field_key pieces = fold_spec 1 pieces) /\ (forall pieces, cache_key pieces = fold_spec 0 pieces).
Proof. exact line_keys_proof. Qed.
Print Assumptions C14_tool_keys.

(* regression pins (not counted as proofs of compatibility): the seeds in the current sources (regenerated): shard differs from the dedupers, the two sides of
   subtract_lines agree, the native hash is 64A on 8-byte pointers *)
Theorem C14_seeds :
  shard_seed = 47849374332489 /\ dedupe_line_seed = 1 /\ dedupe_field_seed = 1 /\ cache_seed = 0 /\
  subtract_insert_seed = subtract_lookup_seed /\ subtract_lookup_seed = 1 /\ commoncrawl_dedupe_seed = 1 /\
  default_seed_64a = 0 /\ mmhsum_seed = 0 /\ native_64b_pointer_size <> 8.
Proof. exact seeds_proof. Qed.
Print Assumptions C14_seeds.

(* mmhsum of an input that fits one buffer is its MurmurHash64A with seed 0 *)
Theorem C14_mmhsum_single_chunk :
  forall bs, bs <> [] -> Z.of_nat (length bs) <= mmhsum_buffer -> mmhsum bs = murmur64a bs 0 /\ mmhsum [] = 0.
Proof. exact mmhsum_single_chunk_proof. Qed.
Print Assumptions C14_mmhsum_single_chunk.

(* mmhsum in general: the input is cut into buffer-sized chunks (all full except possibly the last, none empty)
   and the hash is chained through them starting from 0 *)
Theorem C14_mmhsum_chain :
  forall bs, exists chunks, concat chunks = bs /\
    Forall (fun ch => ch <> [] /\ Z.of_nat (length ch) <= mmhsum_buffer) chunks /\
    Forall (fun ch => Z.of_nat (length ch) = mmhsum_buffer) (removelast chunks) /\
    mmhsum bs = fold_left (fun h ch => murmur64a ch h) chunks 0.
Proof. exact mmhsum_chain_proof. Qed.
Print Assumptions C14_mmhsum_chain.

(* order_independent_hash does not depend on the order of the lines *)
Theorem C14_order_independent :
  forall l1 l2, Permutation.Permutation l1 l2 -> order_independent_hash l1 = order_independent_hash l2.
Proof. exact order_independent_proof. Qed.
Print Assumptions C14_order_independent.

(* MurmurHash64B (the function MurmurHashNative is on 4-byte pointers): always terminates, reads no byte
   outside the string, yields a 64-bit value; and the dispatch: 64A on 8-byte pointers *)
Theorem C14_murmur64b_reads_only_input :
  forall bs extra seed,
  murmur64b_mem (bs ++ extra) (Z.of_nat (length bs)) seed = murmur64b bs seed /\ murmur64b bs seed <> None.
Proof. exact murmur64b_reads_only_input_proof. Qed.
Print Assumptions C14_murmur64b_reads_only_input.

Theorem C14_murmur64b_range :
  forall bs seed v, murmur64b bs seed = Some v -> 0 <= v < two64.
Proof. exact murmur64b_range_proof. Qed.
Print Assumptions C14_murmur64b_range.

Theorem C14_native_dispatch :
  forall bs seed,
  murmur_native_for 8 bs seed = Some (murmur64a bs seed) /\ murmur_native_for 4 bs seed = murmur64b bs seed /\
  (platform_pointer_size = 8 -> murmur_native bs seed = murmur64a bs seed).
Proof. exact native_dispatch_proof. Qed.
Print Assumptions C14_native_dispatch.

(* ---- non-vacuity: published test values / concrete data *)
Example C14_nonvacuous_values :
  bytes_okb [104; 101; 108; 108; 111; 32; 119; 111; 114; 108; 100; 33] = true /\
  murmur64a [104; 101; 108; 108; 111; 32; 119; 111; 114; 108; 100; 33] 1 = 2250993713583282316 /\
  murmur_ref [104; 101; 108; 108; 111; 32; 119; 111; 114; 108; 100; 33] 1 = 2250993713583282316 /\
  murmur64a [] 0 = 0 /\ murmur64a [97] 0 = 510903276987443985 /\
  murmur64a_mem [97; 98; 99; 255; 255] 3 7 = murmur64a [97; 98; 99] 7.
Proof. vm_compute. repeat split. Qed.

Example C14_nonvacuous_fold :
  hash_fold shard_seed [[97; 98]; [99]] = murmur64a [99] (murmur64a [97; 98] 47849374332489) /\
  shard_index [[97; 98]; [99]] 5 = 2 /\
  case_key_train [104] [72] [72] = murmur64a [104] (murmur64a [72] 0) /\
  fold_spec 7 [[1]; [2; 3]] = murmur64a [2; 3] (murmur64a [1] 7) /\ hash_fold 7 [[1]; []; [2; 3]] = murmur64a [2; 3] (murmur64a [] (murmur64a [1] 7)).
Proof. vm_compute. repeat split. Qed.

Example C14_nonvacuous_order :
  order_independent_hash [[97]; [98; 99]; []] = order_independent_hash [[]; [97]; [98; 99]] /\
  order_independent_hash [[97]; [98; 99]; []] = (murmur64a [97] 0 + murmur64a [98; 99] 0 + murmur64a [] 0) mod two64 /\
  mmhsum_with 2 [1; 2; 3; 4; 5] = murmur64a [5] (murmur64a [3; 4] (murmur64a [1; 2] 0)).
Proof. vm_compute. repeat split. Qed.

Example C14_nonvacuous_64b :
  murmur64b [] 0 = Some 0 /\ murmur64b [104; 101; 108; 108; 111; 32; 119; 111; 114; 108; 100; 33] 1 <> None /\
  murmur64b_mem [97; 98; 99; 100; 101; 255; 255] 5 7 = murmur64b [97; 98; 99; 100; 101] 7.
Proof. vm_compute. repeat split. discriminate. Qed.

Example C14_nonvacuous_tool_keys :
  dedupe_line_key [97; 9; 98] = 17006383103647621079 /\ dedupe_line_key [97; 9; 98] = murmur64a [97; 9; 98] 1 /\
  cache_key [[97]; []] = murmur64a [] (murmur64a [97] 0) /\
  case_key_train [105; 204; 135] [115] [196; 176] = murmur64a [105; 204; 135] (murmur64a [115] 0).
Proof. vm_compute. repeat split. Qed.
