(* C16 -- thread hand-off queues.  Only statements; proofs are in Queues/*Proofs.v.
   The transition systems (Queues/*Defs.v) are the ones the correspondence check
   runs, schedule by schedule, against the real templates under the scheduler
   hooks.  [reachable step init s] quantifies over ALL schedules (sequences of
   thread choices) of any length; page size, item list and number of Consume
   calls are arbitrary. *)
From Coq Require Import Lia.
From PP Require Import Gen.Src_queues Queues.UsqDefs Queues.UsqProofs Queues.RingDefs Queues.RingProofs Queues.PcqDefs Queues.PcqProofs.

(* ---------- UnboundedSingleQueue (util/pcqueue.hh:238-300) ---------- *)

(* the page list is memory safe under every schedule: no access to a deleted or
   unallocated page, no null `next`, no read of an entry that was never written
   (i.e. the consumer never touches a page/entry the producer has not finished,
   and frees a page only after the producer has left it) *)
Theorem C16_usq_pages_exclusive :
  forall P items want s, 1 <= P ->
  reachable (usq_step P) (usq_init usq_valid_init items want) s -> u_err s = None.
Proof. intros P items want s HP. exact (usq_no_error_proof P HP items want s). Qed.
Print Assumptions C16_usq_pages_exclusive.

(* exactly once, in order: what the consumer has received is a prefix of the
   items, what the producer still has to send is a suffix, and the part in
   between is exactly what the semaphore counts (+1 while a Consume is in progress) *)
Theorem C16_usq_fifo :
  forall P items want s, 1 <= P ->
  reachable (usq_step P) (usq_init usq_valid_init items want) s ->
  exists nread nposted,
    rev (u_got s) = firstn nread items /\ u_todo s = skipn nposted items /\
    nread <= nposted <= length items /\
    u_valid s <= nposted - nread <= u_valid s + 1.
Proof. intros P items want s HP. exact (usq_fifo_proof P HP items want s). Qed.
Print Assumptions C16_usq_fifo.

(* the producer never blocks (the queue is unbounded) *)
Theorem C16_usq_producer_never_blocks :
  forall P items want s, 1 <= P ->
  reachable (usq_step P) (usq_init usq_valid_init items want) s ->
  usq_finished s 0 = false -> usq_step P s 0 <> None.
Proof. intros P items want s HP. exact (usq_producer_never_blocks_proof P HP items want s). Qed.
Print Assumptions C16_usq_producer_never_blocks.

(* the consumer is never blocked while a matching item exists: it can only be
   stuck in valid_.wait() with everything posted so far already received; once
   the producer has finished that means it holds ALL items (it asked for more
   than was ever produced) *)
Theorem C16_usq_consumer_blocked_only_when_empty :
  forall P items want s, 1 <= P ->
  reachable (usq_step P) (usq_init usq_valid_init items want) s ->
  usq_finished s 1 = false -> usq_step P s 1 = None ->
  u_cpc s = UCWait /\ u_valid s = 0 /\
  (exists k, rev (u_got s) = firstn k items /\ u_todo s = skipn k items \/
             rev (u_got s) = firstn k items /\ u_todo s = skipn (S k) items /\ u_ppc s = UPPost) /\
  (usq_finished s 0 = true -> rev (u_got s) = items).
Proof. intros P items want s HP. exact (usq_consumer_blocked_proof P HP items want s). Qed.
Print Assumptions C16_usq_consumer_blocked_only_when_empty.

(* every schedule is finite, and when the consumer asked for exactly the items it ends with all of them *)
Theorem C16_usq_terminates_complete :
  forall P items want, 1 <= P ->
  (forall ls s, run (usq_step P) (usq_init usq_valid_init items want) ls = Some s ->
                length ls <= 3 * length items + 3 * want + 5) /\
  (forall s, reachable (usq_step P) (usq_init usq_valid_init items want) s ->
             want = length items -> usq_finished s 1 = true -> rev (u_got s) = items).
Proof.
  intros P items want HP. split.
  - intros ls s. exact (usq_runs_bounded_proof P HP items want ls s).
  - intros s. exact (usq_complete_proof P HP items want s).
Qed.
Print Assumptions C16_usq_terminates_complete.

(* non-vacuity: the page size of the source is >= 1, and a concrete schedule that
   crosses a page boundary (page size 2, three items) reaches a state where the
   consumer has switched pages, freed page 0 and received all items in order *)
Example C16_nonvacuous_usq_page : 1 <= usq_page_size.
Proof. vm_compute. repeat constructor. Qed.

Example C16_nonvacuous_usq_run :
  exists s, run (usq_step 2) (usq_init usq_valid_init [7; 8; 9]%Z 3)
                [0; 0; 0; 1; 0; 0; 0; 0; 1; 1; 0; 0; 1; 1; 1; 1; 1; 1] = Some s /\
            rev (u_got s) = [7; 8; 9]%Z /\ u_rd s = 1 /\ u_err s = None /\
            match u_heap s 0 with UFreed => True | _ => False end.
Proof. eexists. vm_compute. repeat split. Qed.

(* ---------- BlockQueue / Lease / ThreadedBufferedStream (util/threaded_buffered_stream.hh) ---------- *)

(* never hand out a block that is still in use by the other side: for every number of blocks K >= 2,
   block size B >= 1, every list of write() calls and every schedule, (1) while the owner holds a block
   for filling and the writer thread holds one for writing they are different blocks, (2) when the owner
   is about to acquire its next block (trash_ available) it is not the one the writer holds, (3) when the
   writer is about to acquire (output_ available) it is not the one the owner is filling *)
Theorem C16_ring_blocks_exclusive :
  forall K B prog s, 2 <= K -> 1 <= B ->
  reachable (ring_step K B) (ring_init (ring_output_init K) (ring_trash_init K) B prog) s ->
  (owner_holds s = true -> writer_holds s = true -> r_pi s <> r_ci s) /\
  (writer_holds s = true -> 1 <= r_trash s ->
     (match r_ppc s with RPSpillWait _ | RPPoisonWait => True | _ => False end) -> r_pi s <> r_ci s) /\
  (owner_holds s = true -> 1 <= r_out s -> r_cpc s = RCWait -> r_ci s <> r_pi s).
Proof. intros K B prog s HK HB. exact (ring_exclusive_proof K B HK HB prog s). Qed.
Print Assumptions C16_ring_blocks_exclusive.

(* no deadlock, and the destructor always gets through: whenever neither the owner (constructor, writes,
   destructor incl. join) nor the writer thread can take a step, both have finished *)
Theorem C16_ring_no_deadlock :
  forall K B prog s, 2 <= K -> 1 <= B ->
  reachable (ring_step K B) (ring_init (ring_output_init K) (ring_trash_init K) B prog) s ->
  ring_step K B s 0 = None -> ring_step K B s 1 = None ->
  r_ppc s = RPDone /\ r_cpc s = RCDone.
Proof. intros K B prog s HK HB. exact (ring_no_stuck_proof K B HK HB prog s). Qed.
Print Assumptions C16_ring_no_deadlock.

(* the file written by the threaded output stream equals the concatenation of all writes made to it
   (write() calls of any size and in-place formatted values, operator<< of numbers, which hand over
   partially filled blocks):
   (1) at every moment, under every schedule, the bytes handed to the writer so far are a prefix of that
   concatenation (nothing lost, duplicated or reordered); (2) once the destructor has returned (owner
   finished, i.e. the writer thread was joined) the file is exactly the concatenation and was flushed once *)
Theorem C16_ring_file_is_concatenation_of_writes :
  forall K B prog s, 2 <= K -> 1 <= B -> Forall (rop_ok B) prog ->
  reachable (ring_step K B) (ring_init (ring_output_init K) (ring_trash_init K) B prog) s ->
  (exists rest, r_file s ++ rest = allbytes prog) /\
  (r_ppc s = RPDone -> r_cpc s = RCDone -> r_file s = allbytes prog /\ r_flushes s = 1).
Proof.
  intros K B prog s HK HB Hok Hr. split.
  - exact (ring_file_prefix_proof K B HK HB prog Hok s Hr).
  - exact (ring_file_complete_proof K B HK HB prog Hok s Hr).
Qed.
Print Assumptions C16_ring_file_is_concatenation_of_writes.

(* destroying the stream always flushes the remainder and joins its writer thread: every schedule of
   constructor, writes and destructor is FINITE (a natural-number measure decreases with every step of
   either thread), it can only end with both threads finished (C16_ring_no_deadlock), and then the file is
   complete and flushed (C16_ring_file_is_concatenation_of_writes) *)
Theorem C16_ring_destructor_always_completes :
  forall K B prog ls s, 2 <= K -> 1 <= B -> Forall (rop_ok B) prog ->
  run (ring_step K B) (ring_init (ring_output_init K) (ring_trash_init K) B prog) ls = Some s ->
  length ls <= rmeasure B (ring_init (ring_output_init K) (ring_trash_init K) B prog).
Proof. intros K B prog ls s HK HB Hok. exact (ring_runs_bounded_proof K B HK HB prog Hok ls s). Qed.
Print Assumptions C16_ring_destructor_always_completes.

(* with a single block the protocol of the source WOULD deadlock in the destructor (why K >= 2 is needed):
   the owner waits for a free block after posting the poison, the writer exits without freeing one *)
Theorem C16_ring_one_block_deadlocks :
  match run (ring_step 1 4) (ring_init (ring_output_init 1) (ring_trash_init 1) 4 []) [0; 0; 0; 1; 1; 1; 1; 1] with
  | Some s => ring_step 1 4 s 0 = None /\ ring_step 1 4 s 1 = None /\ r_ppc s = RPPoisonWait
  | None => False
  end.
Proof. vm_compute. repeat split. Qed.

Example C16_nonvacuous_ring_constants : 2 <= ring_blocks /\ 1 <= ring_block_size.
Proof. split; apply Nat.leb_le; vm_compute; reflexivity. Qed.

(* a run with two writes crossing a block boundary (K = 3, B = 4) that ends with both threads finished and
   the bytes in the file in order *)
Example C16_nonvacuous_ring_run :
  match run (ring_step 3 4) (ring_init (ring_output_init 3) (ring_trash_init 3) 4 [RWrite [1; 2; 3]%Z; RWrite [4; 5; 6]%Z])
            [0; 0; 0; 0; 0; 0; 0; 0; 0; 0; 1; 1; 1; 1; 0; 1; 1; 1; 1; 1; 1; 1; 0; 0] with
  | Some s => r_ppc s = RPDone /\ r_cpc s = RCDone /\ r_file s = [1; 2; 3; 4; 5; 6]%Z /\ r_flushes s = 1
  | None => False
  end.
Proof. vm_compute. repeat split. Qed.

(* the same with in-place formatted values (RPut = Ensure(amount) then the bytes at current_), the only operation
   with a non-trivial premise [rop_ok]: after 3 bytes Ensure(3) hands over a block that is NOT full (size 3), the
   next values fill the second block exactly; the program satisfies the premise of the ring theorems *)
Example C16_nonvacuous_ring_run_put :
  let prog := [RWrite [1; 2; 3]%Z; RPut 3 [4; 5]%Z; RPut 2 [6]%Z; RWrite [7]%Z] in
  Forall (rop_ok 4) prog /\
  match run (ring_step 3 4) (ring_init (ring_output_init 3) (ring_trash_init 3) 4 prog)
            [0; 0; 1; 0; 0; 1; 1; 1; 0; 0; 0; 0; 0; 1; 1; 1; 0; 0; 1; 1; 1; 1; 0; 0; 0] with
  | Some s => r_ppc s = RPDone /\ r_cpc s = RCDone /\ r_file s = [1; 2; 3; 4; 5; 6; 7]%Z /\
              r_wsizes s = [4; 3] /\ r_flushes s = 1
  | None => False
  end.
Proof.
  split.
  - repeat constructor.
  - vm_compute. repeat split.
Qed.

(* ---------- PCQueue (util/pcqueue.hh:128-230), any number of producers and consumers ---------- *)

(* every thread starts at the beginning of its first Produce / Consume call *)
Definition initial_thread (t : qthread) : Prop :=
  match t with QProd QPWait _ => True | QCons QCWait _ _ => True | _ => False end.

Lemma initial_threads_wf threads : Forall initial_thread threads ->
  forall i t, nth_error threads i = Some t -> thread_wf t /\ pw t + wr t + cw t + rd t = 0.
Proof.
  intros HF i t Ht. apply nth_error_In in Ht. rewrite Forall_forall in HF. specialize (HF t Ht).
  destruct t as [[] [|v r]|[] [|w] g]; simpl in *; try contradiction; auto.
Qed.

(* exactly once, in order: for every capacity n >= 1, every set of producer/consumer programs and every
   schedule (semaphore/mutex granularity), the values copied out of the slots, in copy order, are a
   prefix of the values stored, in store order (refinement of a FIFO of at most n elements) *)
Theorem C16_pcq_fifo :
  forall n threads s, 1 <= n -> Forall initial_thread threads ->
  reachable (pcq_step n) (pcq_init (pcq_empty_init n) (pcq_used_init n) threads) s ->
  q_rlog s = firstn (length (q_rlog s)) (q_wlog s) /\
  length (q_rlog s) <= length (q_wlog s) /\ length (q_wlog s) - length (q_rlog s) <= n.
Proof. intros n threads s Hn HF. exact (pcq_fifo_proof n Hn threads (initial_threads_wf threads HF) s). Qed.
Print Assumptions C16_pcq_fifo.

(* never hand out a slot that is still in use: the storing producer's slot differs from the copying
   consumer's slot and from every stored-but-unread slot; at most one producer and one consumer are
   inside their critical sections *)
Theorem C16_pcq_slots_exclusive :
  forall n threads s, 1 <= n -> Forall initial_thread threads ->
  reachable (pcq_step n) (pcq_init (pcq_empty_init n) (pcq_used_init n) threads) s ->
  (forall i j todo want got,
      nth_error (q_threads s) i = Some (QProd QPWrite todo) ->
      nth_error (q_threads s) j = Some (QCons QCRead want got) -> q_pat s <> q_cat s) /\
  (forall i todo k, nth_error (q_threads s) i = Some (QProd QPWrite todo) ->
      length (q_rlog s) <= k < length (q_wlog s) -> q_pat s <> k mod n) /\
  (forall i j t u, i <> j -> nth_error (q_threads s) i = Some t -> nth_error (q_threads s) j = Some u ->
      pcs t + pcs u <= 1 /\ ccs t + ccs u <= 1).
Proof. intros n threads s Hn HF. exact (pcq_slots_exclusive_proof n Hn threads (initial_threads_wf threads HF) s). Qed.
Print Assumptions C16_pcq_slots_exclusive.

(* never blocked forever while a matching producer/consumer exists: if no thread can move, all threads
   are at the start of a call, and the unfinished ones are all producers facing a full queue with no
   consumer left, or all consumers facing an empty queue with no producer left *)
Theorem C16_pcq_blocked_only_without_partner :
  forall n threads s, 1 <= n -> Forall initial_thread threads ->
  reachable (pcq_step n) (pcq_init (pcq_empty_init n) (pcq_used_init n) threads) s ->
  (forall i, pcq_step n s i = None) ->
  (forall i t, nth_error (q_threads s) i = Some t ->
      (exists todo, t = QProd QPWait todo) \/ (exists want got, t = QCons QCWait want got)) /\
  ((exists i v todo, nth_error (q_threads s) i = Some (QProd QPWait (v :: todo))) ->
      q_empty s = 0 /\ length (q_wlog s) = length (q_rlog s) + n /\
      forall j want got, nth_error (q_threads s) j = Some (QCons QCWait want got) -> want = 0) /\
  ((exists j w got, nth_error (q_threads s) j = Some (QCons QCWait (S w) got)) ->
      q_used s = 0 /\ length (q_wlog s) = length (q_rlog s) /\
      forall i todo, nth_error (q_threads s) i = Some (QProd QPWait todo) -> todo = []).
Proof. intros n threads s Hn HF. exact (pcq_no_stuck_proof n Hn threads (initial_threads_wf threads HF) s). Qed.
Print Assumptions C16_pcq_blocked_only_without_partner.

(* in production order per producer: at every moment, under every schedule, what a producer thread has
   stored so far (in the global store order, which by C16_pcq_fifo is the delivery order) followed by what
   it still has to store is exactly its program - nothing of one producer is reordered, lost or duplicated *)
Theorem C16_pcq_per_producer_order :
  forall n threads s,
  reachable (pcq_step n) (pcq_init (pcq_empty_init n) (pcq_used_init n) threads) s ->
  map snd (q_wtlog s) = q_wlog s /\
  forall i t0 t, nth_error threads i = Some t0 -> nth_error (q_threads s) i = Some t ->
                 stored_by i s ++ to_store t = to_store t0.
Proof. intros n threads s. exact (pcq_per_producer_order_proof n threads s). Qed.
Print Assumptions C16_pcq_per_producer_order.

(* every schedule is finite: each step of any thread decreases the total remaining work
   (5 steps per Produce/Consume call), whatever the capacity *)
Theorem C16_pcq_runs_finite :
  forall n threads ls s,
  run (pcq_step n) (pcq_init (pcq_empty_init n) (pcq_used_init n) threads) ls = Some s ->
  length ls <= wsum tw threads.
Proof.
  intros n threads ls s H. pose proof (pcq_runs_bounded_proof n ls _ _ H) as G. simpl in G. lia.
Qed.
Print Assumptions C16_pcq_runs_finite.

(* non-vacuity: two producers and one consumer on a 1-slot queue; a complete run delivers all three items,
   each producer's items in its own order *)
Example C16_nonvacuous_pcq_run :
  match run (pcq_step 1) (pcq_init (pcq_empty_init 1) (pcq_used_init 1)
                           [QProd QPWait [1; 2]%Z; QProd QPWait [7]%Z; QCons QCWait 3 []])
            [0; 0; 0; 0; 0; 2; 2; 2; 2; 2; 1; 1; 1; 1; 1; 2; 2; 2; 2; 2; 0; 0; 0; 0; 0; 2; 2; 2; 2; 2] with
  | Some s => q_threads s = [QProd QPWait []; QProd QPWait []; QCons QCWait 0 [2; 7; 1]%Z] /\ q_wlog s = [1; 7; 2]%Z /\ q_rlog s = [1; 7; 2]%Z
  | None => False
  end.
Proof. vm_compute. repeat split. Qed.
