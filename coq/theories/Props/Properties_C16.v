(* C16 -- thread hand-off queues.  Only statements; proofs are in Queues/*Proofs.v.
   The transition systems (Queues/*Defs.v) are the ones the correspondence check
   runs, schedule by schedule, against the real templates under the scheduler
   hooks.  [reachable step init s] quantifies over ALL schedules (sequences of
   thread choices) of any length; page size, item list and number of Consume
   calls are arbitrary. *)
From PP Require Import Gen.Src_queues Queues.UsqDefs Queues.UsqProofs.

(* ---------- UnboundedSingleQueue (util/pcqueue.hh:238-300) ---------- *)

(* the page list is memory safe under every schedule: no access to a deleted or
   unallocated page, no null `next`, no read of an entry that was never written
   (i.e. the consumer never touches a page/entry the producer has not finished,
   and frees a page only after the producer has left it) *)
Theorem C16_usq_pages_exclusive :
  forall P items want s, 1 <= P ->
  reachable (usq_step P) (usq_init usq_valid_init items want) s -> u_err s = None.
Proof. intros P items want s HP. exact (usq_no_error_proof P HP items want s). Qed.
Print Assumptions C16_usq_pages_exclusive.

(* exactly once, in order: what the consumer has received is a prefix of the
   items, what the producer still has to send is a suffix, and the part in
   between is exactly what the semaphore counts (+1 while a Consume is in progress) *)
Theorem C16_usq_fifo :
  forall P items want s, 1 <= P ->
  reachable (usq_step P) (usq_init usq_valid_init items want) s ->
  exists nread nposted,
    rev (u_got s) = firstn nread items /\ u_todo s = skipn nposted items /\
    nread <= nposted <= length items /\
    u_valid s <= nposted - nread <= u_valid s + 1.
Proof. intros P items want s HP. exact (usq_fifo_proof P HP items want s). Qed.
Print Assumptions C16_usq_fifo.

(* the producer never blocks (the queue is unbounded) *)
Theorem C16_usq_producer_never_blocks :
  forall P items want s, 1 <= P ->
  reachable (usq_step P) (usq_init usq_valid_init items want) s ->
  usq_finished s 0 = false -> usq_step P s 0 <> None.
Proof. intros P items want s HP. exact (usq_producer_never_blocks_proof P HP items want s). Qed.
Print Assumptions C16_usq_producer_never_blocks.

(* the consumer is never blocked while a matching item exists: it can only be
   stuck in valid_.wait() with everything posted so far already received; once
   the producer has finished that means it holds ALL items (it asked for more
   than was ever produced) *)
Theorem C16_usq_consumer_blocked_only_when_empty :
  forall P items want s, 1 <= P ->
  reachable (usq_step P) (usq_init usq_valid_init items want) s ->
  usq_finished s 1 = false -> usq_step P s 1 = None ->
  u_cpc s = UCWait /\ u_valid s = 0 /\
  (exists k, rev (u_got s) = firstn k items /\ u_todo s = skipn k items \/
             rev (u_got s) = firstn k items /\ u_todo s = skipn (S k) items /\ u_ppc s = UPPost) /\
  (usq_finished s 0 = true -> rev (u_got s) = items).
Proof. intros P items want s HP. exact (usq_consumer_blocked_proof P HP items want s). Qed.
Print Assumptions C16_usq_consumer_blocked_only_when_empty.

(* every schedule is finite, and when the consumer asked for exactly the items it ends with all of them *)
Theorem C16_usq_terminates_complete :
  forall P items want, 1 <= P ->
  (forall ls s, run (usq_step P) (usq_init usq_valid_init items want) ls = Some s ->
                length ls <= 3 * length items + 3 * want + 5) /\
  (forall s, reachable (usq_step P) (usq_init usq_valid_init items want) s ->
             want = length items -> usq_finished s 1 = true -> rev (u_got s) = items).
Proof.
  intros P items want HP. split.
  - intros ls s. exact (usq_runs_bounded_proof P HP items want ls s).
  - intros s. exact (usq_complete_proof P HP items want s).
Qed.
Print Assumptions C16_usq_terminates_complete.

(* non-vacuity: the page size of the source is >= 1, and a concrete schedule that
   crosses a page boundary (page size 2, three items) reaches a state where the
   consumer has switched pages, freed page 0 and received all items in order *)
Example C16_nonvacuous_usq_page : 1 <= usq_page_size.
Proof. vm_compute. repeat constructor. Qed.

Example C16_nonvacuous_usq_run :
  exists s, run (usq_step 2) (usq_init usq_valid_init [7; 8; 9]%Z 3)
                [0; 0; 0; 1; 0; 0; 0; 0; 1; 1; 0; 0; 1; 1; 1; 1; 1; 1] = Some s /\
            rev (u_got s) = [7; 8; 9]%Z /\ u_rd s = 1 /\ u_err s = None /\
            match u_heap s 0 with UFreed => True | _ => False end.
Proof. eexists. vm_compute. repeat split. Qed.
