(* C16 -- util::BlockQueue / Lease / ThreadedBufferedStream
   (util/threaded_buffered_stream.hh) as a transition system.  Thread 0 is the
   owner of the stream (constructor, a list of write() calls, destructor);
   thread 1 is the writer thread the constructor spawns.  One step = the code
   between two scheduling points:

     owner : [W1] Lease ctor: trash_.wait()       [S] spawn writer thread
             write(): while (current_+length > end_) { [yfill] memcpy up to end_; SpillBuffer }   [yrest] memcpy rest
             SpillBuffer = Size()=current_-Base; SuccessNext = advance; [P0] output_.post(); [W1] trash_.wait()
             dtor : SpillBuffer; Size()=0; SuccessNext ([P0],[W1]); [J] join; ~Lease [P1] trash_.post()
     writer: [b] begin  [W0] Lease ctor: output_.wait()
             while (Size()) { [ywrite] writer_.write(Base,Size); advance; [P1] trash_.post(); [W0] output_.wait() }
             ~Lease [P0] output_.post();  [yflush] writer_.flush();  [e] end

   K = number of blocks, B = block size (parameters; the code uses the
   generated constants). *)
From PP Require Export Base.LTS.
From Coq Require Export ZArith.

Inductive rppc :=
| RPCtorWait | RPSpawn | RPFill | RPRest
| RPSpillPost (dtor : bool) | RPSpillWait (dtor : bool)
| RPPoisonPost | RPPoisonWait | RPJoin | RPLeasePost | RPDone.

Inductive rcpc :=
| RCNotStarted | RCBegin | RCWait | RCWrite | RCPostTrash | RCExitPost | RCFlush | RCEnd | RCDone.

(* one call on the stream: write(data, len) of arbitrary size, or an in-place formatted value
   (operator<< of a number / put): Ensure(amount) then `bytes` (at most `amount` of them) at current_ *)
Inductive rop :=
| RWrite (bytes : list Z)
| RPut (amount : nat) (bytes : list Z).

Definition rop_bytes (o : rop) : list Z := match o with RWrite b => b | RPut _ b => b end.

Record rstate := mkR {
  r_out : nat;                 (* semaphore output_ : filled blocks *)
  r_trash : nat;               (* semaphore trash_  : free blocks *)
  r_data : nat -> list Z;      (* bytes of block i (from its base) *)
  r_size : nat -> nat;         (* circular_[i].size *)
  r_pi : nat;                  (* owner lease current_ - circular_ *)
  r_ci : nat;                  (* writer lease current_ - circular_ *)
  r_cur : nat;                 (* current_ - lease_.Base() *)
  r_ppc : rppc;
  r_cpc : rcpc;
  r_prog : list rop;           (* calls not yet started *)
  r_pend : list Z;             (* rest of the write() in progress *)
  r_file : list Z;             (* bytes handed to writer_.write, in order *)
  r_wsizes : list nat;         (* sizes of the writer_.write calls, newest first *)
  r_flushes : nat;
  (* auxiliary (history) variables: never read by a step, only used to state invariants *)
  r_pa : nat;                  (* number of times the owner lease advanced (SuccessNext) *)
  r_ca : nat;                  (* number of times the writer lease advanced *)
  r_hist : list (list Z) }.    (* content (first `size` bytes) of every block at the moment the owner left it *)

Definition ring_init (out0 trash0 : nat) (bsize : nat) (prog : list rop) : rstate :=
  mkR out0 trash0 (fun _ => []) (fun _ => bsize) 0 0 0 RPCtorWait RCNotStarted prog [] [] [] 0 0 0 [].

Section Ring.
  Variables K B : nat.

  Definition r_next (i : nat) : nat := if Nat.eqb (S i) K then 0 else S i.

  Definition r_loop_test (cur : nat) (pend : list Z) : rppc :=
    if Nat.ltb B (cur + length pend) then RPFill else RPRest.

  (* adv = the lease advanced to the next block in this step *)
  Definition r_set_p (s : rstate) (adv : bool) (data : nat -> list Z) (size : nat -> nat) (cur : nat) (pc : rppc)
             (prog : list rop) (pend : list Z) : rstate :=
    mkR (r_out s) (r_trash s) data size (if adv then r_next (r_pi s) else r_pi s) (r_ci s) cur pc (r_cpc s) prog pend
        (r_file s) (r_wsizes s) (r_flushes s) (if adv then S (r_pa s) else r_pa s) (r_ca s)
        (if adv then r_hist s ++ [firstn (size (r_pi s)) (data (r_pi s))] else r_hist s).

  (* the destructor up to its first scheduling point: SpillBuffer, or the poison block *)
  Definition r_dtor (s : rstate) (data : nat -> list Z) (cur : nat) : rstate :=
    if Nat.eqb cur 0 then
      r_set_p s true data (upd (r_size s) (r_pi s) 0) cur RPPoisonPost [] []
    else
      r_set_p s true data (upd (r_size s) (r_pi s) cur) cur (RPSpillPost true) [] [].

  (* after a write() returned: start the next write() or the destructor *)
  Definition r_next_write (s : rstate) (data : nat -> list Z) (cur : nat) : rstate :=
    match r_prog s with
    | RWrite w :: rest => r_set_p s false data (r_size s) cur (r_loop_test cur w) rest w
    | RPut amount w :: rest =>
      (* Ensure(amount): SpillBuffer() if the value might not fit (a block that is NOT full is handed over);
         then the bytes are stored at current_ (scheduling point [yrest] of the hook in Ensure) *)
      if Nat.ltb B (cur + amount) && negb (Nat.eqb cur 0) then
        r_set_p s true data (upd (r_size s) (r_pi s) cur) cur (RPSpillPost false) rest w
      else r_set_p s false data (r_size s) cur RPRest rest w
    | [] => r_dtor s data cur
    end.

  Definition r_set_sem (s : rstate) (out trash : nat) (pc : rppc) : rstate :=
    mkR out trash (r_data s) (r_size s) (r_pi s) (r_ci s) (r_cur s) pc (r_cpc s) (r_prog s) (r_pend s)
        (r_file s) (r_wsizes s) (r_flushes s) (r_pa s) (r_ca s) (r_hist s).

  Definition ring_step_owner (s : rstate) : option rstate :=
    match r_ppc s with
    | RPCtorWait =>
      match r_trash s with 0 => None | S t => Some (r_set_sem s (r_out s) t RPSpawn) end
    | RPSpawn =>
      let s1 := mkR (r_out s) (r_trash s) (r_data s) (r_size s) (r_pi s) (r_ci s) (r_cur s) (r_ppc s) RCBegin
                    (r_prog s) (r_pend s) (r_file s) (r_wsizes s) (r_flushes s) (r_pa s) (r_ca s) (r_hist s) in
      Some (r_next_write s1 (r_data s) (r_cur s))
    | RPFill =>
      let k := B - r_cur s in
      let data := upd (r_data s) (r_pi s) (firstn (r_cur s) (r_data s (r_pi s)) ++ firstn k (r_pend s)) in
      let pend := skipn k (r_pend s) in
      (* current_ = end_; SpillBuffer *)
      if Nat.eqb B 0 then
        Some (r_set_p s false data (r_size s) B (r_loop_test B pend) (r_prog s) pend)
      else
        Some (r_set_p s true data (upd (r_size s) (r_pi s) B) B (RPSpillPost false) (r_prog s) pend)
    | RPRest =>
      let data := upd (r_data s) (r_pi s) (firstn (r_cur s) (r_data s (r_pi s)) ++ r_pend s) in
      Some (r_next_write s data (r_cur s + length (r_pend s)))
    | RPSpillPost d => Some (r_set_sem s (S (r_out s)) (r_trash s) (RPSpillWait d))
    | RPSpillWait d =>
      match r_trash s with
      | 0 => None
      | S t =>
        let s1 := r_set_sem s (r_out s) t (r_ppc s) in
        if d then
          Some (r_set_p s1 true (r_data s) (upd (r_size s) (r_pi s) 0) 0 RPPoisonPost [] [])
        else
          Some (r_set_p s1 false (r_data s) (r_size s) 0 (r_loop_test 0 (r_pend s)) (r_prog s) (r_pend s))
      end
    | RPPoisonPost => Some (r_set_sem s (S (r_out s)) (r_trash s) RPPoisonWait)
    | RPPoisonWait =>
      match r_trash s with 0 => None | S t => Some (r_set_sem s (r_out s) t RPJoin) end
    | RPJoin =>
      match r_cpc s with
      | RCDone => Some (r_set_sem s (r_out s) (r_trash s) RPLeasePost)
      | _ => None
      end
    | RPLeasePost => Some (r_set_sem s (r_out s) (S (r_trash s)) RPDone)
    | RPDone => None
    end.

  Definition r_set_c (s : rstate) (out trash : nat) (adv : bool) (pc : rcpc) (file : list Z) (ws : list nat) (fl : nat) : rstate :=
    mkR out trash (r_data s) (r_size s) (r_pi s) (if adv then r_next (r_ci s) else r_ci s) (r_cur s) (r_ppc s) pc (r_prog s) (r_pend s)
        file ws fl (r_pa s) (if adv then S (r_ca s) else r_ca s) (r_hist s).

  Definition ring_step_writer (s : rstate) : option rstate :=
    match r_cpc s with
    | RCNotStarted => None
    | RCBegin => Some (r_set_c s (r_out s) (r_trash s) false RCWait (r_file s) (r_wsizes s) (r_flushes s))
    | RCWait =>
      match r_out s with
      | 0 => None
      | S o =>
        let pc := if Nat.eqb (r_size s (r_ci s)) 0 then RCExitPost else RCWrite in
        Some (r_set_c s o (r_trash s) false pc (r_file s) (r_wsizes s) (r_flushes s))
      end
    | RCWrite =>
      let sz := r_size s (r_ci s) in
      Some (r_set_c s (r_out s) (r_trash s) true RCPostTrash
                    (r_file s ++ firstn sz (r_data s (r_ci s))) (sz :: r_wsizes s) (r_flushes s))
    | RCPostTrash => Some (r_set_c s (r_out s) (S (r_trash s)) false RCWait (r_file s) (r_wsizes s) (r_flushes s))
    | RCExitPost => Some (r_set_c s (S (r_out s)) (r_trash s) false RCFlush (r_file s) (r_wsizes s) (r_flushes s))
    | RCFlush => Some (r_set_c s (r_out s) (r_trash s) false RCEnd (r_file s) (r_wsizes s) (S (r_flushes s)))
    | RCEnd => Some (r_set_c s (r_out s) (r_trash s) false RCDone (r_file s) (r_wsizes s) (r_flushes s))
    | RCDone => None
    end.

  Definition ring_step (s : rstate) (tid : nat) : option rstate :=
    match tid with
    | 0 => ring_step_owner s
    | 1 => ring_step_writer s
    | _ => None
    end.

  Definition ring_tag (s : rstate) (tid : nat) : nat :=
    match tid with
    | 0 => match r_ppc s with
           | RPCtorWait => 0 | RPSpawn => 1 | RPFill => 2 | RPRest => 3 | RPSpillPost _ => 4 | RPSpillWait _ => 0
           | RPPoisonPost => 4 | RPPoisonWait => 0 | RPJoin => 5 | RPLeasePost => 6 | RPDone => 99 end
    | _ => match r_cpc s with
           | RCNotStarted => 98 | RCBegin => 10 | RCWait => 11 | RCWrite => 12 | RCPostTrash => 6
           | RCExitPost => 4 | RCFlush => 13 | RCEnd => 14 | RCDone => 99 end
    end.

  Definition ring_finished (s : rstate) (tid : nat) : bool :=
    match tid with
    | 0 => match r_ppc s with RPDone => true | _ => false end
    | 1 => match r_cpc s with RCDone => true | _ => false end
    | _ => true
    end.

  (* is the writer thread known to the scheduler yet? *)
  Definition ring_started (s : rstate) (tid : nat) : bool :=
    match tid with
    | 1 => match r_cpc s with RCNotStarted => false | _ => true end
    | _ => true
    end.
End Ring.
